import ParsecVerif.Model.Sched.Hbb
/-
  ltq (parsec/mca/sched/ltq/sched_ltq_module.c) and its max-heaps (parsec/maxheap.c).

  A heap is a binary tree threaded through the tasks' list pointers (`list_prev` = left child,
  `list_next` = right child), filled level by level: the position of the k-th node is given by the
  bits of k below its leading 1 (1 = right).  The C code relinks nodes when it swaps a node with its
  parent/child; on a tree of VALUES that is a swap of the two values, which is how it is written here.
  Functions are total: on shapes the C code never builds (a path that leaves the tree, a `size` that
  does not describe the shape) they take a fallback that keeps every element, so that conservation
  and liveness need no shape invariant.  That the fallbacks are never taken is NOT proved; the
  differential runs compare the real heaps' behaviour with the main paths on every explored state.
-/
namespace ParsecVerif.Sched

inductive Tree
  | nil
  | node (t : Task) (l r : Tree)
deriving Repr

def Tree.flat : Tree → List Task
  | .nil => []
  | .node t l r => t :: (l.flat ++ r.flat)

def Tree.isNil : Tree → Bool
  | .nil => true
  | _ => false

def Tree.rootPrio : Tree → Int
  | .nil => 0
  | .node t _ _ => t.prio

/-- bits of `k` below the leading one, most significant first (`true` = `list_next` = right) -/
def pathBits : Nat → Nat → List Bool → List Bool
  | 0, _, acc => acc
  | f + 1, k, acc => if k ≤ 1 then acc else pathBits f (k / 2) ((k % 2 == 1) :: acc)

def pathOf (k : Nat) : List Bool := pathBits k k []

structure Heap where
  top  : Tree
  size : Nat
  prio : Int
deriving Repr

/-- `heap_insert`, descent + bubble-up.  Returns the new subtree and whether the inserted element is
    now its root and still bubbling (the C loop stops at the first parent that is not smaller). -/
def treeInsert (x : Task) : List Bool → Tree → Tree × Bool
  | [], .nil => (.node x .nil .nil, true)
  | [], .node v l r => (.node x (.node v l r) .nil, false)      -- position taken: never on a heap built by this file
  | _ :: _, .nil => (.node x .nil .nil, false)                  -- path leaves the tree: idem
  | b :: bs, .node v l r =>
    if b then
      match treeInsert x bs r with
      | (.node w rl rr, true) =>
        if w.prio > v.prio then (.node w l (.node v rl rr), true) else (.node v l (.node w rl rr), false)
      | (r', _) => (.node v l r', false)
    else
      match treeInsert x bs l with
      | (.node w ll lr, true) =>
        if w.prio > v.prio then (.node w (.node v ll lr) r, true) else (.node v (.node w ll lr) r, false)
      | (l', _) => (.node v l' r, false)

def heapInsert (h : Heap) (x : Task) : Heap :=
  if h.size = 0 then ⟨(treeInsert x [] h.top).1, 1, (treeInsert x [] h.top).1.rootPrio⟩   -- `heap->top = elem` (top is NULL)
  else ⟨(treeInsert x (pathOf (h.size + 1)) h.top).1, h.size + 1, (treeInsert x (pathOf (h.size + 1)) h.top).1.rootPrio⟩

/-- detach the node at the end of the path; `none` if the path leaves the tree -/
def treeTakeLast : List Bool → Tree → Tree × Option Task
  | [], .node v .nil .nil => (.nil, some v)
  | [], t => (t, none)
  | _ :: _, .nil => (.nil, none)
  | b :: bs, .node v l r =>
    if b then (.node v l (treeTakeLast bs r).1, (treeTakeLast bs r).2)
    else (.node v (treeTakeLast bs l).1 r, (treeTakeLast bs l).2)

/-- the bubble-down loop of `heap_remove` on the root value -/
def siftDown : Tree → Tree
  | .nil => .nil
  | .node b .nil .nil => .node b .nil .nil
  | .node b (.node p pl pr) .nil =>
    if p.prio > b.prio then .node p (siftDown (.node b pl pr)) .nil else .node b (.node p pl pr) .nil
  | .node b .nil (.node q ql qr) =>
    if q.prio > b.prio then .node q .nil (siftDown (.node b ql qr)) else .node b .nil (.node q ql qr)
  | .node b (.node p pl pr) (.node q ql qr) =>
    if p.prio > b.prio && p.prio ≥ q.prio then .node p (siftDown (.node b pl pr)) (.node q ql qr)
    else if q.prio > b.prio && q.prio > p.prio then .node q (.node p pl pr) (siftDown (.node b ql qr))
    else .node b (.node p pl pr) (.node q ql qr)

/-- fallback for shapes that are no heap of `size` nodes (never built by this file): hang `r` below the
    leftmost leaf of `l`, so that the root can still be taken without losing anything -/
def graft : Tree → Tree → Tree
  | .nil, r => r
  | .node v l r', r => .node v (graft l r) r'

/-- `heap_remove(&heap)`: the removed task and what is left (`none`: the heap was destroyed) -/
def heapRemove (h : Heap) : Option Task × Option Heap :=
  match h.top with
  | .nil => (none, some h)
  | .node v .nil .nil => (some v, none)
  | .node v .nil (.node q ql qr) => (some v, some ⟨.node q ql qr, h.size - 1, q.prio⟩)   -- not a heap shape
  | .node v (.node p pl pr) .nil => (some v, some ⟨.node p pl pr, h.size - 1, p.prio⟩)
  | .node v l r =>
    match treeTakeLast (pathOf h.size) (.node v l r) with
    | (.node _ l' r', some w) => (some v, some ⟨siftDown (.node w l' r'), h.size - 1, (siftDown (.node w l' r')).rootPrio⟩)
    | (_, _) => (some v, some ⟨graft l r, h.size - 1, (graft l r).rootPrio⟩)   -- `size` does not describe the shape

def hiBit (n : Nat) : Nat := if n = 0 then 0 else 2 ^ (Nat.log2 n)

/-- `heap_split_and_steal(&heap, &new_heap)`: the stolen task, the remaining heap, the new heap -/
def heapSplit (h : Heap) : Option Task × Option Heap × Option Heap :=
  match h.top with
  | .nil => (none, some h, none)
  | .node v .nil .nil => (some v, none, none)
  | .node v .nil (.node q ql qr) => (some v, some ⟨.node q ql qr, h.size - 1, q.prio⟩, none)   -- not a heap shape
  | .node v (.node p pl pr) .nil => (some v, some ⟨.node p pl pr, h.size - 1, p.prio⟩, none)
  | .node v l r =>
    if (hiBit h.size / 2) &&& h.size ≠ 0 then
      (some v, some ⟨r, h.size % hiBit h.size, r.rootPrio⟩, some ⟨l, h.size - h.size % hiBit h.size - 1, l.rootPrio⟩)
    else
      (some v, some ⟨r, h.size - (h.size % hiBit h.size + hiBit h.size / 2) - 1, r.rootPrio⟩,
               some ⟨l, h.size % hiBit h.size + hiBit h.size / 2, l.rootPrio⟩)

/-! ### the module -/

/-- `sched_ltq_schedule`: consecutive ring elements that share an input datum (`grp`, standing for
    `data[i].data_in`) go to the same heap; the heaps form a ring in creation order -/
def ltqHeaps : List Task → Heap → List Heap
  | [], h => [h]
  | [x], h => [heapInsert h x]
  | x :: y :: rest, h =>
    if x.grp = y.grp then ltqHeaps (y :: rest) (heapInsert h x)
    else heapInsert h x :: ltqHeaps (y :: rest) ⟨.nil, 0, 0⟩

abbrev LtqSt := HbbSt Heap

def ltqPush (s : LtqSt) (b : Nat) (ring : List Heap) (d : Int) : LtqSt :=
  hbbPushAll (s.cfg.sizes.length + 1) s b ring d

def ltqSchedule (s : LtqSt) (a : SArg) : LtqSt :=
  ltqPush s (taskQueue s.cfg a.es) (ltqHeaps a.ring ⟨.nil, 0, 0⟩) a.d

def optList {α : Type} : Option α → List α
  | none => []
  | some x => [x]

/-- after `heap_split_and_steal` on a heap popped from queue `b`: the new half goes back to queue `b`,
    the rest to the own queue (`if( NULL != heap ) { if( NULL != new_heap ) push_all(hq[i], new_heap, 0); push_all(task_queue, heap, 0); }`) -/
def ltqPutBack (s : LtqSt) (b own : Nat) : Option Heap → Option Heap → LtqSt
  | some h1, some h2 => ltqPush (ltqPush s b [h2] 0) own [h1] 0
  | some h1, none => ltqPush s own [h1] 0
  | none, _ => s

/-- the steal loop `for(i = 1; i < nb_hierarch_queues; i++)`: pop the best heap of queue i, split it,
    put the pieces back; stop at the first task found (`*distance = i`) -/
def ltqSteal (own : Nat) : LtqSt → List Nat → Nat → LtqSt × Option (Task × Int)
  | s, [], _ => (s, none)
  | s, b :: bs, k =>
    match (hbbPopBest (·.prio) s b).2 with
    | none => ltqSteal own s bs (k + 1)
    | some h =>
      match (heapSplit h).1 with
      | some t => (ltqPutBack (hbbPopBest (·.prio) s b).1 b own (heapSplit h).2.1 (heapSplit h).2.2, some (t, (k : Int)))
      | none => ltqSteal own (ltqPutBack (hbbPopBest (·.prio) s b).1 b own (heapSplit h).2.1 (heapSplit h).2.2) bs (k + 1)

def ltqSelect (s : LtqSt) (es : Nat) : LtqSt × Option (Task × Int) :=
  match (hbbPopBest (·.prio) s (taskQueue s.cfg es)).2 with
  | some h =>
    -- heap_remove; what is left of the heap goes back to the own queue; `*distance = 1`
    match (heapRemove h).1 with
    | some t => (ltqPush (hbbPopBest (·.prio) s (taskQueue s.cfg es)).1 (taskQueue s.cfg es) (optList (heapRemove h).2) 0, some (t, 1))
    | none => (s, none)
  | none =>
    match ltqSteal (taskQueue s.cfg es) s (hqOf s.cfg es).tail 1 with
    | (s', some r) => (s', some r)
    | (s', none) =>
      -- system queue: pop_front, split, both pieces (a ring of two) to the own queue
      match s'.sysq with
      | [] => (s', none)
      | h :: hs =>
        (ltqPush { s' with sysq := hs } (taskQueue s'.cfg es) (optList (heapSplit h).2.1 ++ optList (heapSplit h).2.2) 0,
         (heapSplit h).1.map (fun t => (t, ((hqOf s'.cfg es).length : Int) + 1)))

def ltqPending (s : LtqSt) : List Task := (hbbPending s).flatMap (·.top.flat)

def ltqModule : Module where
  St := LtqSt
  nstreams s := s.cfg.hq.length
  schedule := ltqSchedule
  select := ltqSelect
  pending := ltqPending

end ParsecVerif.Sched
