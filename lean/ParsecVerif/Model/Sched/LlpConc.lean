import ParsecVerif.Model.Sched.Simple
/-
  llp, ONE sorted LIFO under concurrency: small-step machine of `lifo_chain_sorted`
  (parsec/mca/sched/llp/sched_llp_module.c, the 128-bit-CAS variant) against concurrent `lifo_pop`s.
  One transition per atomic operation of the real code (a CAS that fails is retried and changes
  nothing, so only successful CASes are transitions; the thread-local merge between two atomic
  operations is fused with the operation that precedes it):

    start ring d      at `repeat:` — CAS of the head: either the whole ring is pushed in front (sorted,
                      d = 0, head not above the ring's tail), or everything is detached (head := NULL)
                      and merged locally with the ring (`lifo_merge_ring`)
    merged list d     about to write the merged chain back:
                      single_writer: `counter++; item = list` — two PLAIN stores: whatever the LIFO holds
                                     at that moment is overwritten
                      otherwise:     CAS head := list; if something had been pushed meanwhile it is taken
                                     out as a new ring and the procedure repeats

  `sw` is the `single_writer` argument, the same for every call on a given LIFO (`es->th_id != 0`).
-/
namespace ParsecVerif.Sched.LlpConc
open ParsecVerif.Sched

inductive Pc
  | idle
  | start (ring : List Task) (d : Int)
  | merged (list : List Task) (d : Int)
deriving Repr

structure St where
  lifo  : List Task
  pcs   : List Pc
  ret   : List Task      -- tasks returned by the pops, most recent first
  sched : List Task      -- ghost: every ring handed to lifo_chain_sorted
deriving Repr

def init (n : Nat) : St := ⟨[], List.replicate n .idle, [], []⟩

inductive Move
  | call (t : Nat) (ring : List Task) (d : Int)   -- thread t enters lifo_chain_sorted
  | step (t : Nat)                                -- thread t performs its next atomic operation
  | pop (t : Nat)                                 -- thread t performs a (successful or empty) lifo_pop
deriving Repr

/-- tasks a thread holds in local variables -/
def hand : Pc → List Task
  | .idle => []
  | .start r _ => r
  | .merged l _ => l

def isIdle : Pc → Bool
  | .idle => true
  | _ => false

/-- unrestricted semantics of one move (a move by a thread that cannot make it leaves the state unchanged) -/
def apply (sw : Bool) (s : St) : Move → St
  | .call t ring d =>
    if isIdle (s.pcs.getD t .idle) && !ring.isEmpty && decide (t < s.pcs.length) then
      { s with pcs := s.pcs.set t (.start ring d), sched := ring ++ s.sched }
    else s
  | .step t =>
    match s.pcs.getD t .idle with
    | .idle => s
    | .start ring d =>
      match ring.getLast? with
      | none => { s with pcs := s.pcs.set t .idle }
      | some last =>
        if decide (d = 0) && spliceOK s.lifo last then { s with lifo := ring ++ s.lifo, pcs := s.pcs.set t .idle }
        else { s with lifo := [], pcs := s.pcs.set t (.merged (mergeLoop d last ring ⟨[], [], s.lifo, 0⟩) d) }
    | .merged list d =>
      if sw then { s with lifo := list, pcs := s.pcs.set t .idle }
      else
        match s.lifo with
        | [] => { s with lifo := list, pcs := s.pcs.set t .idle }
        | x :: xs => { s with lifo := list, pcs := s.pcs.set t (.start (x :: xs) d) }
  | .pop t =>
    if isIdle (s.pcs.getD t .idle) && decide (t < s.pcs.length) then
      match s.lifo with
      | [] => s
      | x :: xs => { s with lifo := xs, ret := x :: s.ret }
    else s

/-- the usage hypothesis documented in `sched_llp_schedule`: on a single-writer LIFO only its owner
    (thread 0 of this machine) calls `lifo_chain_sorted` -/
def allowed (sw : Bool) : Move → Bool
  | .call t _ _ => !sw || t == 0
  | _ => true

def run (sw : Bool) (s : St) (ms : List Move) : St := ms.foldl (fun s m => if allowed sw m then apply sw s m else s) s

/-- the same machine without the usage hypothesis -/
def runAny (sw : Bool) (s : St) (ms : List Move) : St := ms.foldl (apply sw) s

def hands (s : St) : List Task := (s.pcs.map hand).flatten

end ParsecVerif.Sched.LlpConc
