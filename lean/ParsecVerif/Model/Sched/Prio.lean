import ParsecVerif.Model.Sched.Basic
/-
  The three priority-aware list schedulers, one step = one module call (each call runs under
  the list lock):
    ap  parsec/mca/sched/ap/sched_ap_module.c   one shared list, chain_sorted, pop_front
    ip  parsec/mca/sched/ip/sched_ip_module.c   one shared list, distance = 0: chain_sorted,
                                                 distance ≠ 0: chain_back;  pop_back
    spq parsec/mca/sched/spq/sched_spq_module.c list of (distance, task list) kept by increasing
                                                 distance; chain_sorted inside; select = pop_front
                                                 of the first non-empty one
  All execution streams of a virtual process share the same object, so the stream argument of the
  real calls does not appear here.  `next` is the ghost arrival counter.
-/
namespace ParsecVerif.Sched

/-! ### ap and ip -/

structure LSt where
  list : List Task
  next : Nat
deriving Repr

def LSt.init : LSt := ⟨[], 0⟩

def apSchedule (s : LSt) (ring : List Task) (_d : Int) : LSt :=
  ⟨chainSorted s.list (stamp s.next ring), s.next + ring.length⟩

/-- `parsec_list_pop_front`; `*distance = 0` -/
def apSelect (s : LSt) : LSt × Option (Task × Int) :=
  match s.list with
  | [] => (s, none)
  | t :: ts => (⟨ts, s.next⟩, some (t, 0))

def ipSchedule (s : LSt) (ring : List Task) (d : Int) : LSt :=
  if d = 0 then ⟨chainSorted s.list (stamp s.next ring), s.next + ring.length⟩
  else ⟨s.list ++ stamp s.next ring, s.next + ring.length⟩

/-- `parsec_list_pop_back`; `*distance = 0` -/
def ipSelect (s : LSt) : LSt × Option (Task × Int) :=
  match s.list.getLast? with
  | none => (s, none)
  | some t => (⟨s.list.dropLast, s.next⟩, some (t, 0))

/-! ### spq -/

/-- one `parsec_spq_priority_list_t`: `prio` (= the distance it serves) and its task list -/
abbrev PList := Int × List Task

structure SpqSt where
  pls  : List PList
  next : Nat
deriving Repr

def SpqSt.init : SpqSt := ⟨[], 0⟩

/-- the scan of `sched_spq_schedule`: stop at the plist with `prio == distance` (reuse it) or at
    the first one with `prio > distance` (create a new one before it), else append a new one -/
def spqInsert (d : Int) (ring : List Task) : List PList → List PList
  | [] => [(d, chainSorted [] ring)]
  | (p, ts) :: rest =>
    if p = d then (p, chainSorted ts ring) :: rest
    else if p > d then (d, chainSorted [] ring) :: (p, ts) :: rest
    else (p, ts) :: spqInsert d ring rest

def spqSchedule (s : SpqSt) (ring : List Task) (d : Int) : SpqSt :=
  ⟨spqInsert d (stamp s.next ring) s.pls, s.next + ring.length⟩

/-- the scan of `sched_spq_select`: pop_front of the first non-empty plist; empty plists stay -/
def spqPopRes : List PList → Option (Task × Int)
  | [] => none
  | (_, []) :: rest => spqPopRes rest
  | (p, t :: _) :: _ => some (t, p)

def spqPopRest : List PList → List PList
  | [] => []
  | (p, []) :: rest => (p, []) :: spqPopRest rest
  | (p, _ :: ts) :: rest => (p, ts) :: rest

def spqSelect (s : SpqSt) : SpqSt × Option (Task × Int) :=
  (⟨spqPopRest s.pls, s.next⟩, spqPopRes s.pls)

end ParsecVerif.Sched
