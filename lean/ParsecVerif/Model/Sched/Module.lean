import ParsecVerif.Model.Sched.Basic
/-
  A scheduler module as a state machine at module-call granularity, for one virtual process.
  Every one of the 11 modules of parsec/mca/sched is an instance (Model/Sched/*.lean); the
  generic conservation / drain theorems (Proofs/Sched/Bag.lean) are proved once against this
  interface, from four per-module facts.
-/
namespace ParsecVerif.Sched

/-- arguments of one `schedule(es, ring, distance)` call.  `high`: the ring head's task class carries
    PARSEC_HIGH_PRIORITY_TASK (read by gd only).  `rand`: the values `rand()` returns during the call
    (read by rnd only; any list: the theorems quantify over it). -/
structure SArg where
  es   : Nat
  ring : List Task
  d    : Int
  high : Bool := false
  rand : List Int := []
deriving Repr

structure Module where
  St       : Type
  /-- `nstreams s`: number of execution streams of the virtual process this state was built for -/
  nstreams : St → Nat
  schedule : St → SArg → St
  select   : St → Nat → St × Option (Task × Int)
  /-- every task held by the module's containers -/
  pending  : St → List Task

inductive MOp
  | sched (a : SArg)
  | sel (es : Nat)
deriving Repr

/-- the calls the runtime (and the harness) may issue: a real stream, a non-empty ring -/
def MOp.valid (n : Nat) : MOp → Bool
  | .sched a => decide (a.es < n) && !a.ring.isEmpty
  | .sel es => decide (es < n)

/-- run a history; invalid calls are not issued.  Returns the final state and the tasks returned
    by the selects, most recent first. -/
def Module.runFrom (M : Module) (s : M.St) (ret : List Task) : List MOp → M.St × List Task
  | [] => (s, ret)
  | op :: ops =>
    if op.valid (M.nstreams s) then
      match op with
      | .sched a => M.runFrom (M.schedule s a) ret ops
      | .sel es =>
        match (M.select s es).2 with
        | some (t, _) => M.runFrom (M.select s es).1 (t :: ret) ops
        | none => M.runFrom (M.select s es).1 ret ops
    else M.runFrom s ret ops

/-- tasks handed to the module by the valid schedule calls of a history, given the stream count -/
def scheduledOf (n : Nat) : List MOp → List Task
  | [] => []
  | .sched a :: ops => if (MOp.sched a).valid n then a.ring ++ scheduledOf n ops else scheduledOf n ops
  | .sel _ :: ops => scheduledOf n ops

def ids (l : List Task) : List Nat := l.map (·.id)

end ParsecVerif.Sched
