import ParsecVerif.Model.Sched.Module
/-
  Hierarchical bounded buffers (parsec/hbbuffer.c) and the modules built on them:
    lfq  sched_lfq_module.c  one buffer of 4*n slots per stream, parent = system dequeue; push_all
    lhq  sched_lhq_module.c  a tree of buffers following the hwloc hierarchy; push_all
    pbq  sched_pbq_module.c  like lfq with push_all_by_priority
    ltq  sched_ltq_module.c  like lfq, the buffer elements are max-heaps of tasks (Model/Sched/Ltq.lean)
  The shape (which buffers exist, their sizes, their parents, and for each stream the ordered
  list `hierarch_queues`) is a configuration `HbbCfg` read by the harness from the REAL module
  objects and handed to the model, so hwloc's topology is an input, not an assumption.
  One step = one module call without concurrent activity.
-/
namespace ParsecVerif.Sched

structure HbbCfg where
  /-- `b->size` of buffer b -/
  sizes  : List Nat
  /-- parent of buffer b: `some p` = push_in_buffer_wrapper to buffer p, `none` = the system queue -/
  parent : List (Option Nat)
  /-- per stream: `hierarch_queues[0 .. nb_hierarch_queues-1]` as buffer indices; `task_queue` is the first -/
  hq     : List (List Nat)
deriving Repr, DecidableEq

structure HbbSt (α : Type) where
  cfg  : HbbCfg
  bufs : List (List (Option α))
  sysq : List α

def HbbSt.init {α : Type} (cfg : HbbCfg) : HbbSt α :=
  ⟨cfg, cfg.sizes.map (fun n => List.replicate n none), []⟩

/-- the slot loop of `parsec_hbbuffer_push_all`: each element takes the first free slot at or after
    the position following the previous element's slot; returns the slots and what did not fit -/
def hbbFill {α : Type} : List (Option α) → List α → List (Option α) × List α
  | [], ring => ([], ring)
  | sl, [] => (sl, [])
  | none :: sl, x :: xs => (some x :: (hbbFill sl xs).1, (hbbFill sl xs).2)
  | some y :: sl, x :: xs => (some y :: (hbbFill sl (x :: xs)).1, (hbbFill sl (x :: xs)).2)

def parentOf (cfg : HbbCfg) (b : Nat) : Option Nat := (cfg.parent.getD b none)

/-- `parsec_hbbuffer_push_all(b, ring, distance)`; the recursion follows `parent_push_fct`
    (`fuel` bounds the depth of the buffer tree; running out of fuel falls back to the system queue) -/
def hbbPushAll {α : Type} : Nat → HbbSt α → Nat → List α → Int → HbbSt α
  | 0, s, _, ring, _ => { s with sysq := s.sysq ++ ring }
  | f + 1, s, b, ring, d =>
    if d ≠ 0 then
      match parentOf s.cfg b with
      | some p => hbbPushAll f s p ring (d - 1)
      | none => { s with sysq := s.sysq ++ ring }
    else
      if (hbbFill (s.bufs.getD b []) ring).2.isEmpty then
        { s with bufs := s.bufs.set b (hbbFill (s.bufs.getD b []) ring).1 }
      else
        match parentOf s.cfg b with
        | some p => hbbPushAll f { s with bufs := s.bufs.set b (hbbFill (s.bufs.getD b []) ring).1 } p (hbbFill (s.bufs.getD b []) ring).2 (d - 1)
        | none => { s with bufs := s.bufs.set b (hbbFill (s.bufs.getD b []) ring).1,
                           sysq := s.sysq ++ (hbbFill (s.bufs.getD b []) ring).2 }

/-- index of the element `parsec_hbbuffer_pop_best` takes: the first one of strictly highest priority -/
def bestIdx {α : Type} (pr : α → Int) : List (Option α) → Option (Nat × Int)
  | [] => none
  | none :: sl => (bestIdx pr sl).map (fun p => (p.1 + 1, p.2))
  | some x :: sl =>
    match bestIdx pr sl with
    | none => some (0, pr x)
    | some (i, p) => if p > pr x then some (i + 1, p) else some (0, pr x)

def hbbPopBest {α : Type} (pr : α → Int) (s : HbbSt α) (b : Nat) : HbbSt α × Option α :=
  match bestIdx pr (s.bufs.getD b []) with
  | none => (s, none)
  | some (i, _) =>
    match (s.bufs.getD b []).getD i none with
    | none => (s, none)
    | some x => ({ s with bufs := s.bufs.set b ((s.bufs.getD b []).set i none) }, some x)

/-- the scan `for(i = 0; i < nb_hierarch_queues; i++) pop_best(hierarch_queues[i])`; `k` = index tried -/
def hbbScan {α : Type} (pr : α → Int) (s : HbbSt α) : List Nat → Nat → Option (HbbSt α × α × Nat)
  | [], _ => none
  | b :: bs, k =>
    match (hbbPopBest pr s b).2 with
    | some x => some ((hbbPopBest pr s b).1, x, k)
    | none => hbbScan pr s bs (k + 1)

def hqOf (cfg : HbbCfg) (es : Nat) : List Nat := cfg.hq.getD es []
def taskQueue (cfg : HbbCfg) (es : Nat) : Nat := (hqOf cfg es).headD 0

/-- select of lfq / lhq / pbq: own task queue (distance 0), then every hierarchical queue in order
    (distance i+1), then the system queue (distance nb_hierarch_queues+1) -/
def hbbSelect (s : HbbSt Task) (es : Nat) : HbbSt Task × Option (Task × Int) :=
  match (hbbPopBest (·.prio) s (taskQueue s.cfg es)).2 with
  | some t => ((hbbPopBest (·.prio) s (taskQueue s.cfg es)).1, some (t, 0))
  | none =>
    match hbbScan (·.prio) s (hqOf s.cfg es) 0 with
    | some (s', t, k) => (s', some (t, (k : Int) + 1))
    | none =>
      match s.sysq with
      | t :: ts => ({ s with sysq := ts }, some (t, ((hqOf s.cfg es).length : Int) + 1))
      | [] => (s, none)

/-- lfq and lhq: `parsec_hbbuffer_push_all(task_queue, ring, distance)` -/
def hbbSchedule (s : HbbSt Task) (a : SArg) : HbbSt Task :=
  hbbPushAll (s.cfg.sizes.length + 1) s (taskQueue s.cfg a.es) a.ring a.d

def hbbPending {α : Type} (s : HbbSt α) : List α :=
  (s.bufs.flatten.filterMap id) ++ s.sysq

def hbbModule : Module where
  St := HbbSt Task
  nstreams s := s.cfg.hq.length
  schedule := hbbSchedule
  select := hbbSelect
  pending := hbbPending

/-! ### pbq: `parsec_hbbuffer_push_all_by_priority` -/

/-- the slot scan for one element: `some i` = the first free slot if there is one, else the slot of the
    lowest-priority element strictly below the element's priority (the first such among equals) -/
def pbqSpot (x : Task) : List (Option Task) → Nat → Option (Nat × Task) → Option (Nat × Option Task)
  | [], _, none => none
  | [], _, some (i, y) => some (i, some y)
  | none :: _, k, _ => some (k, none)
  | some c :: sl, k, best =>
    match best with
    | none => if lower c x then pbqSpot x sl (k + 1) (some (k, c)) else pbqSpot x sl (k + 1) none
    | some (i, y) => if lower c y then pbqSpot x sl (k + 1) (some (k, c)) else pbqSpot x sl (k + 1) (some (i, y))

/-- the `while(1)` loop over the ring: returns the slots and the `ejected` ring handed to the parent -/
def pbqLoop : List Task → List (Option Task) → List Task → List (Option Task) × List Task
  | [], sl, ej => (sl, ej)
  | x :: xs, sl, ej =>
    match pbqSpot x sl 0 none with
    | some (i, none) => pbqLoop xs (sl.set i (some x)) ej
    | some (i, some y) => pbqLoop xs (sl.set i (some x)) (y :: ej)
    | none => (sl, (x :: ej) ++ xs)

def pbqSchedule (s : HbbSt Task) (a : SArg) : HbbSt Task :=
  if a.d ≠ 0 then { s with sysq := s.sysq ++ a.ring }
  else
    { s with bufs := s.bufs.set (taskQueue s.cfg a.es) (pbqLoop a.ring (s.bufs.getD (taskQueue s.cfg a.es) []) []).1,
             sysq := s.sysq ++ (pbqLoop a.ring (s.bufs.getD (taskQueue s.cfg a.es) []) []).2 }

def pbqModule : Module where
  St := HbbSt Task
  nstreams s := s.cfg.hq.length
  schedule := pbqSchedule
  select := hbbSelect
  pending := hbbPending

end ParsecVerif.Sched
