/-
  Model of the data repository (parsec/datarepo.c, parsec/datarepo.h).

  A repository maps a key to at most one entry `(usagecnt, usagelmt, retained)`.  Every API call
  works on the entry of ONE key under the lock of that key's hash-table bucket, so the model has one
  transition per critical section of the real code:

    __data_repo_lookup_entry_and_create   cs1 : lock; find; found → retained++ ; unlock; return
                                                 not found → unlock; allocate from the thread mempool
                                          cs2 : lock; find again; found → free the private copy,
                                                 retained++ ; not found → insert (0,0,1); unlock
    __data_repo_entry_addto_usage_limit   one section: usagelmt += n; retained--; reclaim test
    __data_repo_entry_used_once           one section: r = ++usagecnt; reclaim test
    data_repo_lookup_entry                one section, no side effect (find)

  The reclaim test is `usagelmt == usagecnt && retained == 0`: the entry is removed from the table
  inside the section and pushed back to its mempool right after the unlock.

  Threads: a creator with limit `n` runs lookup_entry_and_create then addto_usage_limit(n); a user
  runs used_once once.  A step of thread `t` = its next critical section.  The usage protocol of
  the runtime (a use is issued only while the entry exists and while fewer uses than announced +
  promised limits were issued) is the guard `useOk` of the guarded machine `step`; `stepRaw` is the
  unguarded machine.

  Event counters per key (`al di ins rc`) are ghost: they count what the mempool sees.
  int32 wrap-around of the three counters is not modelled.
-/
namespace ParsecVerif.DataRepo

structure Entry where
  cnt : Int      -- usagecnt : uses recorded
  lmt : Int      -- usagelmt : uses announced
  ret : Int      -- retained : creators between create and addto_usage_limit
deriving Repr, DecidableEq

/-- everything the repository and the mempools hold about one key -/
structure Cell where
  ent   : Option Entry   -- the hash-table slot of the key
  al    : Nat            -- mempool allocations made for this key
  di    : Nat            -- private copies freed because the re-check found an entry
  ins   : Nat            -- insertions (incarnations of the entry)
  rc    : Nat            -- reclaims: removed from the table and freed to the mempool
  fault : Bool           -- used_once / addto_usage_limit ran on a missing entry (NULL dereference)
deriving Repr, DecidableEq

def Cell.empty : Cell := ⟨none, 0, 0, 0, 0, false⟩

inductive Pc
  | c0      -- creator, before the first section of lookup_entry_and_create
  | c1      -- creator, holds a private allocated copy, before the re-check section
  | hold    -- creator, lookup_entry_and_create returned; before addto_usage_limit
  | done    -- creator, addto_usage_limit returned
  | u0      -- user, before used_once
  | udone   -- user, used_once returned
deriving Repr, DecidableEq

structure Thr where
  key : Nat
  pc  : Pc
  n   : Nat      -- the creator's usage limit (0 for users)
deriving Repr, DecidableEq

/-! ## critical sections, as functions on the key's cell -/

/-- first section of `__data_repo_lookup_entry_and_create` (+ the allocation that follows a miss) -/
def cs1 (c : Cell) : Cell × Pc :=
  match c.ent with
  | some e => ({ c with ent := some { e with ret := e.ret + 1 } }, .hold)
  | none   => ({ c with al := c.al + 1 }, .c1)

/-- second section (re-check, then insert or discard the private copy) -/
def cs2 (c : Cell) : Cell × Pc :=
  match c.ent with
  | some e => ({ c with ent := some { e with ret := e.ret + 1 }, di := c.di + 1 }, .hold)
  | none   => ({ c with ent := some ⟨0, 0, 1⟩, ins := c.ins + 1 }, .hold)

/-- `if( (e->usagelmt == e->usagecnt) && (0 == e->retained) )` remove + free, else keep -/
def reclaimIf (c : Cell) (e : Entry) : Cell :=
  if e.lmt = e.cnt ∧ e.ret = 0 then { c with ent := none, rc := c.rc + 1 }
  else { c with ent := some e }

/-- `__data_repo_entry_addto_usage_limit(repo, key, n)` -/
def csAnnounce (n : Nat) (c : Cell) : Cell :=
  match c.ent with
  | some e => reclaimIf c { e with lmt := e.lmt + n, ret := e.ret - 1 }
  | none   => { c with fault := true }

/-- `__data_repo_entry_used_once(repo, key)` -/
def csUse (c : Cell) : Cell :=
  match c.ent with
  | some e => reclaimIf c { e with cnt := e.cnt + 1 }
  | none   => { c with fault := true }

/-! ## the machine -/

structure State where
  cell : Nat → Cell
  thr  : List Thr

def setCell (f : Nat → Cell) (k : Nat) (c : Cell) : Nat → Cell := fun j => if j = k then c else f j

def wHold (t : Thr) : Nat := if t.pc = .hold then 1 else 0      -- creators holding the entry
def wPend (t : Thr) : Nat := if t.pc = .hold then t.n else 0    -- limits promised, not yet announced
def wAnn  (t : Thr) : Nat := if t.pc = .done then t.n else 0    -- limits announced
def wUse  (t : Thr) : Nat := if t.pc = .udone then 1 else 0     -- uses done
def wMid  (t : Thr) : Nat := if t.pc = .c1 then 1 else 0        -- private copies in flight

/-- sum of the weight `w` over the threads working on key `k` -/
def meas (w : Thr → Nat) (k : Nat) (l : List Thr) : Nat :=
  (l.map fun t => if t.key = k then w t else 0).sum

def holders   (s : State) (k : Nat) : Nat := meas wHold k s.thr
def promised  (s : State) (k : Nat) : Nat := meas wPend k s.thr
def announced (s : State) (k : Nat) : Nat := meas wAnn k s.thr
def uses      (s : State) (k : Nat) : Nat := meas wUse k s.thr
def inflight  (s : State) (k : Nat) : Nat := meas wMid k s.thr

def present (s : State) (k : Nat) : Bool := (s.cell k).ent.isSome

/-- the usage protocol: a use is issued only while the entry exists, and the uses issued stay
    within the limits announced or promised by creators that obtained the entry -/
def useOk (s : State) (k : Nat) : Bool :=
  present s k && decide (uses s k < announced s k + promised s k)

/-- next section of a thread on its key's cell: new cell and new program point.
    `ok` tells whether a user may run (`used_once` is not issued otherwise). -/
def stepCell (ok : Bool) (c : Cell) (th : Thr) : Cell × Pc :=
  match th.pc with
  | .c0    => cs1 c
  | .c1    => cs2 c
  | .hold  => (csAnnounce th.n c, .done)
  | .u0    => if ok then (csUse c, .udone) else (c, .u0)
  | .done  => (c, .done)
  | .udone => (c, .udone)

/-- `g = true`: the guarded machine (a user not allowed by the protocol does not move);
    `g = false`: the unguarded machine. -/
def stepThr (g : Bool) (s : State) (th : Thr) : Cell × Pc :=
  stepCell (!g || useOk s th.key) (s.cell th.key) th

def stepG (g : Bool) (s : State) (t : Nat) : State :=
  match s.thr[t]? with
  | none => s
  | some th =>
    { cell := setCell s.cell th.key (stepThr g s th).1,
      thr  := s.thr.set t { th with pc := (stepThr g s th).2 } }

def step : State → Nat → State := stepG true
def stepRaw : State → Nat → State := stepG false

def run (s : State) (sched : List Nat) : State := sched.foldl step s
def runRaw (s : State) (sched : List Nat) : State := sched.foldl stepRaw s

/-- thread description: `(isUser, key, n)` -/
def mkThr (d : Bool × Nat × Nat) : Thr :=
  if d.1 then ⟨d.2.1, .u0, 0⟩ else ⟨d.2.1, .c0, d.2.2⟩

def init (descr : List (Bool × Nat × Nat)) : State := ⟨fun _ => Cell.empty, descr.map mkThr⟩

def finished (s : State) : Prop := ∀ th ∈ s.thr, th.pc = .done ∨ th.pc = .udone

/-- does thread `t` have a section to run (guarded machine)? -/
def enabled (s : State) (t : Nat) : Bool :=
  match s.thr[t]? with
  | none => false
  | some th =>
    match th.pc with
    | .done => false
    | .udone => false
    | .u0 => useOk s th.key
    | _ => true

end ParsecVerif.DataRepo
