import ParsecVerif.Model.Context
/-
  parsec_compose / compound taskpools (parsec/compound.c) on top of the context machine.

  1. The array of `parsec_compose`: 16 entries at construction, grown by 16 each time the count
     becomes a multiple of 16, always NULL-terminated (`Arr`, `compose`).

  2. The compound taskpool as the code stands.  A compound has no termination detector when it is
     added, so `parsec_context_add_taskpool` installs the local one and declares it ready while
     `nb_pending_actions` is still 0: the detector fires inside add_taskpool — completion callback of
     the COMPOUND, decrement of `active_taskpools` — before the increment and before the startup
     hook.  In the context machine this is exactly a taskpool with `early = true`.  Then
        startup hook       : nb_pending_actions := n ; add_taskpool(tp[0])             (`startup`)
        callback of tp[i]  : idx = completed++ ; remaining = --nb_pending_actions ;
                             if remaining > 0 then add_taskpool(tp[idx+1])              (`memberCb`)
     The callback uses `completed` as the index of the member that terminated (an assert in the
     code); the model does the same whatever member `m` actually terminated.
     Every other move is a move of the context machine (`ctx`), except that members are never added
     or detected directly (they have no user callback: the compound owns `on_complete`).
-/
namespace ParsecVerif.Compound
open ParsecVerif.Context

/-! ## the array of parsec_compose -/

inductive Slot | junk | null | tp (i : Nat)
deriving Repr, DecidableEq

structure Arr where
  cap : Nat
  slots : List Slot
  nb : Nat
  oob : Bool            -- some write was outside the allocation
deriving Repr

def Arr.write (a : Arr) (i : Nat) (v : Slot) : Arr :=
  if i < a.cap then { a with slots := a.slots.set i v } else { a with oob := true }

/-- `compound = OBJ_NEW; array = malloc(16); array[0]=start; array[1]=next; array[2]=NULL; nb=2` -/
def composeNew (a b : Nat) : Arr :=
  ((({ cap := 16, slots := List.replicate 16 .junk, nb := 2, oob := false } : Arr).write 0 (.tp a)).write 1 (.tp b)).write 2 .null

/-- `array[nb++] = next; if (nb % 16 == 0) array = realloc(array, nb + 16); array[nb] = NULL` -/
def composeAppend (c : Arr) (x : Nat) : Arr :=
  let c1 := c.write c.nb (.tp x)
  let nb := c.nb + 1
  let c2 : Arr := if nb % 16 = 0 then { c1 with cap := nb + 16, slots := c1.slots ++ List.replicate (nb + 16 - c1.cap) .junk, nb := nb }
                  else { c1 with nb := nb }
  c2.write nb .null

/-- composition of a list of taskpools, left to right; `none`: fewer than two, no compound object is created -/
def compose : List Nat → Option Arr
  | a :: b :: rest => some (rest.foldl composeAppend (composeNew a b))
  | _ => none

/-! ## the compound machine -/

structure Comp where
  self : Nat
  members : List Nat
  completed : Nat := 0
  pending : Int := 0
deriving Repr

structure CSt where
  base : St
  comps : List Comp
deriving Repr

inductive CTr
  | ctx (tr : Tr)
  | startup (t c : Nat)
  | memberCb (t c m : Nat)
deriving Repr

def allMembers (comps : List Comp) : List Nat := comps.flatMap (·.members)

/-- context moves that are not available on members / inside a compound's startup -/
def ctxAllowed (cs : CSt) : Tr → Bool
  | .addCall _ q => !(allMembers cs.comps).contains q
  | .startupAdd _ _ => false
  | .detect _ p => !(allMembers cs.comps).contains p
  | .addReturn t =>
    cs.comps.all fun c =>
      !(cs.base.subs[t]? == some (.startup c.self)) ||
      (match c.members.head? with
       | some m0 => (cs.base.tps[m0]?.map (·.st)) != some .notAdded
       | none => true)
  | _ => true

def cstep? (cs : CSt) : CTr → Option CSt
  | .ctx tr =>
    if ctxAllowed cs tr then (step? cs.base tr).map (fun s' => { cs with base := s' }) else none
  | .startup t c =>
    match cs.comps[c]? with
    | some comp =>
      match comp.members.head? with
      | some m0 =>
        if cs.base.subs[t]? = some (.startup comp.self) then
          (step? cs.base (.startupAdd t m0)).map fun s' =>
            { base := s', comps := cs.comps.set c { comp with pending := comp.members.length } }
        else none
      | none => none
    | none => none
  | .memberCb t c m =>
    match cs.comps[c]? with
    | some comp =>
      if comp.members.contains m then
        match step? cs.base (.detect t m) with
        | some s1 =>
          let comp' := { comp with completed := comp.completed + 1, pending := comp.pending - 1 }
          if comp.pending - 1 > 0 then
            match comp.members[comp.completed + 1]? with
            | some nx => (step? s1 (.addCall t nx)).map fun s2 => { base := s2, comps := cs.comps.set c comp' }
            | none => none      -- the C code would read past the members (cannot happen: see Props/C15)
          else some { base := s1, comps := cs.comps.set c comp' }
        | none => none
      else none
    | none => none

def cstep (cs : CSt) (tr : CTr) : CSt := (cstep? cs tr).getD cs

def cinit (k : Nat) (tps : List Tp) (comps : List Comp) : CSt := { base := init k tps, comps := comps }

def crun (k : Nat) (tps : List Tp) (comps : List Comp) (trs : List CTr) : CSt := trs.foldl cstep (cinit k tps comps)

/-- static well-formedness of the composition: members of all compounds pairwise distinct, no compound
    object is a member (no nesting), members are ordinary PTG taskpools, the compound object is a
    taskpool without detector, nothing has run yet -/
def WF (tps : List Tp) (comps : List Comp) : Prop :=
  (allMembers comps).Nodup ∧
  (∀ c ∈ comps, c.completed = 0 ∧ c.pending = 0 ∧ 1 ≤ c.members.length ∧ c.self ∉ allMembers comps ∧
     (∃ tp : Tp, tps[c.self]? = some tp ∧ tp.early = true) ∧
     ∀ m ∈ c.members, ∃ tp : Tp, tps[m]? = some tp ∧ tp.early = false ∧ tp.dtd = false) ∧
  (∀ tp ∈ tps, tp.fresh)

end ParsecVerif.Compound
