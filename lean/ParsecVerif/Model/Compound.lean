import ParsecVerif.Model.Context
/-
  parsec_compose / compound taskpools (parsec/compound.c) on top of the context machine.

  1. The array of `parsec_compose`: 16 entries at construction, grown by 16 each time the count
     becomes a multiple of 16, always NULL-terminated (`Arr`, `compose`).

  2. The compound taskpool (repaired code: the constructor opens and monitors the local detector, the
     startup hook declares it ready after setting the pending count).  In the context machine the
     compound object is an ordinary taskpool without tasks whose detector is armed by its startup hook:
        add_taskpool(compound) : addCall ; addInc (active += 1) ; startup hook ; addReturn
        startup hook       : nb_pending_actions := n ; taskpool_ready ; add_taskpool(tp[0])   (`startup`)
        callback of tp[i]  : idx = completed++ ; remaining = --nb_pending_actions — the release that
                             reaches 0 detects the termination of the COMPOUND and runs its callback and
                             its decrement nested in tp[i]'s callback — ;
                             if remaining > 0 then add_taskpool(tp[idx+1])                    (`memberCb`)
     The callback uses `completed` as the index of the member that terminated (an assert in the
     code); the model does the same whatever member `m` actually terminated.
     Every other move is a move of the context machine (`ctx`), except that members are never added
     or detected directly (they have no user callback: the compound owns `on_complete`) and that the
     pending count of a compound is only touched by its startup hook and its members' callbacks.

  3. `…Buggy`: the compound as the code stood before the repair.  It had no termination detector when it
     was added, so `parsec_context_add_taskpool` installed the local one and declared it ready while
     `nb_pending_actions` was still 0: the detector fired inside add_taskpool — completion callback of the
     COMPOUND, decrement of `active_taskpools` — before the increment and before the startup hook (a
     taskpool with `early = true` of the context machine); the members' callbacks then found the detector
     terminated.  Kept with the witness theorems of Props/C15.lean.
-/
namespace ParsecVerif.Compound
open ParsecVerif.Context

/-! ## the array of parsec_compose -/

inductive Slot | junk | null | tp (i : Nat)
deriving Repr, DecidableEq

structure Arr where
  cap : Nat
  slots : List Slot
  nb : Nat
  oob : Bool            -- some write was outside the allocation
deriving Repr

def Arr.write (a : Arr) (i : Nat) (v : Slot) : Arr :=
  if i < a.cap then { a with slots := a.slots.set i v } else { a with oob := true }

/-- `compound = OBJ_NEW; array = malloc(16); array[0]=start; array[1]=next; array[2]=NULL; nb=2` -/
def composeNew (a b : Nat) : Arr :=
  ((({ cap := 16, slots := List.replicate 16 .junk, nb := 2, oob := false } : Arr).write 0 (.tp a)).write 1 (.tp b)).write 2 .null

/-- `array[nb++] = next; if (nb % 16 == 0) array = realloc(array, nb + 16); array[nb] = NULL` -/
def composeAppend (c : Arr) (x : Nat) : Arr :=
  let c1 := c.write c.nb (.tp x)
  let nb := c.nb + 1
  let c2 : Arr := if nb % 16 = 0 then { c1 with cap := nb + 16, slots := c1.slots ++ List.replicate (nb + 16 - c1.cap) .junk, nb := nb }
                  else { c1 with nb := nb }
  c2.write nb .null

/-- composition of a list of taskpools, left to right; `none`: fewer than two, no compound object is created -/
def compose : List Nat → Option Arr
  | a :: b :: rest => some (rest.foldl composeAppend (composeNew a b))
  | _ => none

/-! ## the compound machine -/

structure Comp where
  self : Nat
  members : List Nat
  completed : Nat := 0
  pending : Int := 0
deriving Repr

structure CSt where
  base : St
  comps : List Comp
deriving Repr

inductive CTr
  | ctx (tr : Tr)
  | startup (t c : Nat)
  | memberCb (t c m : Nat)
  | compCb (t p c : Nat)
deriving Repr

def allMembers (comps : List Comp) : List Nat := comps.flatMap (·.members)
def allSelfs (comps : List Comp) : List Nat := comps.map (·.self)

/-- context moves that are not available on members / on compound objects / inside a compound's startup -/
def ctxAllowed (cs : CSt) : Tr → Bool
  | .addCall _ q => !(allMembers cs.comps).contains q
  | .startupAdd _ _ => false
  | .startupReady _ _ => false
  | .actionDone _ _ => false
  | .detect _ p => !(allMembers cs.comps).contains p && !(allSelfs cs.comps).contains p
  | .insert _ p => !(allSelfs cs.comps).contains p
  | .nestDec t =>
    -- the decrement for a nested compound comes after its parent's callback (parsec_composed_taskpool_cb of the
    -- parent is the on_complete of the nested compound)
    match (cs.base.nests[t]?).getD [] with
    | q :: _ => cs.comps.all fun p => !p.members.contains q || (p.members.take p.completed).contains q
    | [] => true
  | .addReturn t =>
    cs.comps.all fun c =>
      !(cs.base.subs[t]? == some (.startup c.self)) ||
      (match c.members.head? with
       | some m0 => (cs.base.tps[m0]?.map (·.st)) != some .notAdded
       | none => true)
  | _ => true

def cstep? (cs : CSt) : CTr → Option CSt
  | .ctx tr =>
    if ctxAllowed cs tr then (step? cs.base tr).map (fun s' => { cs with base := s' }) else none
  | .startup t c =>
    match cs.comps[c]? with
    | some comp =>
      match comp.members.head? with
      | some m0 =>
        if cs.base.subs[t]? = some (.startup comp.self) then
          match step? cs.base (.startupReady t comp.members.length) with
          | some s1 =>
            (step? s1 (.startupAdd t m0)).map fun s' =>
              { base := s', comps := cs.comps.set c { comp with pending := comp.members.length } }
          | none => none
        else none
      | none => none
    | none => none
  | .memberCb t c m =>
    match cs.comps[c]? with
    | some comp =>
      if comp.members.contains m && !(allSelfs cs.comps).contains m then
        match step? cs.base (.detect t m) with
        | some s1 =>
          match step? s1 (.actionDone t comp.self) with
          | some s2 =>
            let comp' := { comp with completed := comp.completed + 1, pending := comp.pending - 1 }
            if comp.pending - 1 > 0 then
              match comp.members[comp.completed + 1]? with
              | some nx => (step? s2 (.addCall t nx)).map fun s3 => { base := s3, comps := cs.comps.set c comp' }
              | none => none      -- the C code would read past the members (cannot happen: see Props/C15)
            else some { base := s2, comps := cs.comps.set c comp' }
          | none => none
        | none => none
      else none
    | none => none
  | .compCb t p c =>
    -- the member of compound p that just terminated is itself a compound (c): its termination was detected nested
    -- (its descriptor is on top of the thread's nested stack) and its on_complete is parsec_composed_taskpool_cb of p
    match cs.comps[p]?, cs.comps[c]? with
    | some par, some ch =>
      if par.members[par.completed]? = some ch.self ∧ ((cs.base.nests[t]?).getD []).head? = some ch.self ∧ p ≠ c then
        match step? cs.base (.actionDone t par.self) with
        | some s2 =>
          let par' := { par with completed := par.completed + 1, pending := par.pending - 1 }
          if par.pending - 1 > 0 then
            match par.members[par.completed + 1]? with
            | some nx => (step? s2 (.addCall t nx)).map fun s3 => { base := s3, comps := cs.comps.set p par' }
            | none => none
          else some { base := s2, comps := cs.comps.set p par' }
        | none => none
      else none
    | _, _ => none

def cstep (cs : CSt) (tr : CTr) : CSt := (cstep? cs tr).getD cs

def cinit (k : Nat) (tps : List Tp) (comps : List Comp) : CSt := { base := init k tps, comps := comps }

def crun (k : Nat) (tps : List Tp) (comps : List Comp) (trs : List CTr) : CSt := trs.foldl cstep (cinit k tps comps)

/-- static well-formedness of the composition forest: members of all compounds pairwise distinct (a taskpool or
    compound object is a member of at most one compound), compound objects pairwise distinct, no compound is its
    own member (nesting goes through OTHER compounds: a member may be the object of another compound), every object
    is a taskpool descriptor that is not `early`, compound objects have no task, nothing has run yet -/
def WF (tps : List Tp) (comps : List Comp) : Prop :=
  (allMembers comps).Nodup ∧ (allSelfs comps).Nodup ∧
  (∀ c ∈ comps, c.completed = 0 ∧ c.pending = 0 ∧ 1 ≤ c.members.length ∧ c.self ∉ c.members ∧
     (∃ tp : Tp, tps[c.self]? = some tp ∧ tp.early = false ∧ tp.total = 0) ∧
     ∀ m ∈ c.members, ∃ tp : Tp, tps[m]? = some tp ∧ tp.early = false) ∧
  (∀ tp ∈ tps, tp.fresh)

/-! ## the composition tree seen from the machine: leaves and in-order precedence -/

/-- `LeafOf comps n x`: x is a leaf taskpool of the subtree whose root is the object n -/
inductive LeafOf (comps : List Comp) : Nat → Nat → Prop
  | leaf (n : Nat) (h : n ∉ allSelfs comps) : LeafOf comps n n
  | node (c : Comp) (m x : Nat) (hc : c ∈ comps) (hm : m ∈ c.members) (h : LeafOf comps m x) : LeafOf comps c.self x

/-- `Precedes comps n a b`: in the subtree rooted at n the leaf a comes before the leaf b in in-order -/
inductive Precedes (comps : List Comp) : Nat → Nat → Nat → Prop
  | direct (c : Comp) (i j mi mj a b : Nat) (hc : c ∈ comps) (hij : i < j) (hi : c.members[i]? = some mi)
      (hj : c.members[j]? = some mj) (ha : LeafOf comps mi a) (hb : LeafOf comps mj b) : Precedes comps c.self a b
  | nested (c : Comp) (m a b : Nat) (hc : c ∈ comps) (hm : m ∈ c.members) (h : Precedes comps m a b) : Precedes comps c.self a b

/-! ## parsec_compose over composition trees

  `compose(start, next)`: a compound `start` gets `next` (plain or compound) appended as a member and is returned;
  otherwise a new compound [start, next] is created — `next` may be a compound: it becomes a nested member.
  NULL arguments return the other argument. -/

inductive CT
  | leaf (i : Nat)
  | comp (ms : List CT)
deriving Repr

def composeT : CT → CT → CT
  | .comp ms, next => .comp (ms ++ [next])
  | .leaf i, next => .comp [.leaf i, next]

mutual
  def CT.leaves : CT → List Nat
    | .leaf i => [i]
    | .comp ms => leavesList ms
  def leavesList : List CT → List Nat
    | [] => []
    | t :: ts => t.leaves ++ leavesList ts
end

/-- a C program's composition expression -/
inductive CE
  | tp (i : Nat)
  | compose (a b : CE)
deriving Repr

def CE.eval : CE → CT
  | .tp i => .leaf i
  | .compose a b => composeT a.eval b.eval

def CE.inorder : CE → List Nat
  | .tp i => [i]
  | .compose a b => a.inorder ++ b.inorder

/-- the same on the heap of compound objects that the driver keeps: `heap[c]` = members of compound object c (ids of
    plain taskpools or of other compound objects), `isComp x` = x is a compound object; returns the id of the result -/
def hcompose (heap : List (Nat × List Nat)) (fresh a b : Nat) : List (Nat × List Nat) × Nat :=
  if heap.any (fun e => e.1 == a) then
    (heap.map (fun e => if e.1 == a then (e.1, e.2 ++ [b]) else e), a)
  else (heap ++ [(fresh, [a, b])], fresh)

/-! ## the compound before the repair -/

def ctxAllowedBuggy (cs : CSt) : Tr → Bool
  | .addCall _ q => !(allMembers cs.comps).contains q
  | .startupAdd _ _ => false
  | .startupReady _ _ => false
  | .actionDone _ _ => false
  | .detect _ p => !(allMembers cs.comps).contains p
  | _ => true

def cstepBuggy? (cs : CSt) : CTr → Option CSt
  | .ctx tr =>
    if ctxAllowedBuggy cs tr then (step? cs.base tr).map (fun s' => { cs with base := s' }) else none
  | .startup t c =>
    match cs.comps[c]? with
    | some comp =>
      match comp.members.head? with
      | some m0 =>
        if cs.base.subs[t]? = some (.startup comp.self) then
          (step? cs.base (.startupAdd t m0)).map fun s' =>
            { base := s', comps := cs.comps.set c { comp with pending := comp.members.length } }
        else none
      | none => none
    | none => none
  | .memberCb t c m =>
    match cs.comps[c]? with
    | some comp =>
      if comp.members.contains m then
        match step? cs.base (.detect t m) with
        | some s1 =>
          let comp' := { comp with completed := comp.completed + 1, pending := comp.pending - 1 }
          if comp.pending - 1 > 0 then
            match comp.members[comp.completed + 1]? with
            | some nx => (step? s1 (.addCall t nx)).map fun s2 => { base := s2, comps := cs.comps.set c comp' }
            | none => none
          else some { base := s1, comps := cs.comps.set c comp' }
        | none => none
      else none
    | none => none
  | .compCb _ _ _ => none

def cstepBuggy (cs : CSt) (tr : CTr) : CSt := (cstepBuggy? cs tr).getD cs

def crunBuggy (k : Nat) (tps : List Tp) (comps : List Comp) (trs : List CTr) : CSt :=
  trs.foldl cstepBuggy (cinit k tps comps)

/-- as `WF`, but the compound object is a taskpool without termination detector (`early`) -/
def WFBuggy (tps : List Tp) (comps : List Comp) : Prop :=
  (allMembers comps).Nodup ∧
  (∀ c ∈ comps, c.completed = 0 ∧ c.pending = 0 ∧ 1 ≤ c.members.length ∧ c.self ∉ allMembers comps ∧
     (∃ tp : Tp, tps[c.self]? = some tp ∧ tp.early = true) ∧
     ∀ m ∈ c.members, ∃ tp : Tp, tps[m]? = some tp ∧ tp.early = false ∧ tp.dtd = false) ∧
  (∀ tp ∈ tps, tp.fresh)

end ParsecVerif.Compound
