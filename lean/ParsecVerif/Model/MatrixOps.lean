/-
  Model of the tiled-matrix operators of parsec/data_dist/matrix:

  * apply.jdf  (parsec_apply / parsec_apply_New of apply_wrapper.c): the three task classes
        APPLY_L(m, n)   m = 1 .. ((uplo == matrix_upper) ? 0 : descA->mt-1)
                        n = 0 .. ( m < descA->nt ? m-1 : descA->nt-1 )
        APPLY_U(m, n)   m = 0   .. descA->mt-1
                        n = m+1 .. ((uplo == matrix_lower) ? 0 : descA->nt-1)
        APPLY_DIAG(k)   k = 0 .. ( descA->mt < descA->nt ? descA->mt-1 : descA->nt-1 )
    each task calls `operation(es, descA, A, <PARSEC_MATRIX_FULL | uplo>, m, n, op_args)` once.
    JDF ranges `lo .. hi` are inclusive and empty when `hi < lo`; they are modelled over `Int`
    exactly as written (`mt-1` is `-1` for `mt = 0`, `m-1` is `-1` for `m = 0`).

  * map_operator.c: the hand-written task class.  `parsec_map_operator_startup_fn` starts at most
    `nb_cores` chains; a chain walks the local tiles of one column in increasing row order
    (`iterate_successors`, inner loop) and, when the column is exhausted, claims the next column
    with `parsec_atomic_fetch_inc_int32(&tp->next_n) + 1` (outer loop).  One model transition per
    executed task and one per atomic fetch-and-increment.  Single virtual process (nb_vp = 1).
    Locality (`rank_of(m,n) == myrank`) is an arbitrary function `loc`.

  * reduce.jdf / reduce_col.jdf / reduce_row.jdf: the task spaces and the dependency edges of the
    reduction trees as written (the bodies of these task classes only `printf`; they never call
    the operator, see docs/notes/C22.md), and the value a tree computes when every inner node
    combines its inputs with a binary operator.
-/
namespace ParsecVerif.MatrixOps

/-! ## JDF ranges -/

def irangeAux (lo : Int) : Nat → List Int
  | 0 => []
  | k+1 => lo :: irangeAux (lo + 1) k

/-- the JDF range `lo .. hi`: inclusive, empty when `hi < lo` -/
def irange (lo hi : Int) : List Int := irangeAux lo (hi + 1 - lo).toNat

/-! ## apply.jdf -/

def UPPER : Int := 121   -- PARSEC_MATRIX_UPPER
def LOWER : Int := 122   -- PARSEC_MATRIX_LOWER
def FULL  : Int := 123   -- PARSEC_MATRIX_FULL

/-- the parameter check of `parsec_apply` / `parsec_apply_New` -/
def validUplo (u : Int) : Bool := u == FULL || u == UPPER || u == LOWER

def applyL (mt nt uplo : Int) : List (Int × Int) :=
  (irange 1 (if uplo = UPPER then 0 else mt - 1)).flatMap fun m =>
    (irange 0 (if m < nt then m - 1 else nt - 1)).map fun n => (m, n)

def applyU (mt nt uplo : Int) : List (Int × Int) :=
  (irange 0 (mt - 1)).flatMap fun m =>
    (irange (m + 1) (if uplo = LOWER then 0 else nt - 1)).map fun n => (m, n)

def applyDiag (mt nt : Int) : List (Int × Int) :=
  (irange 0 (if mt < nt then mt - 1 else nt - 1)).map fun k => (k, k)

/-- every tile on which a task of the taskpool runs, in enumeration order -/
def applyTiles (mt nt uplo : Int) : List (Int × Int) :=
  applyL mt nt uplo ++ applyU mt nt uplo ++ applyDiag mt nt

/-- operator invocations `(m, n, uplo argument)` -/
def applyCalls (mt nt uplo : Int) : List (Int × Int × Int) :=
  (applyL mt nt uplo).map (fun t => (t.1, t.2, FULL)) ++
  (applyU mt nt uplo).map (fun t => (t.1, t.2, FULL)) ++
  (applyDiag mt nt).map (fun t => (t.1, t.2, uplo))

/-- the tiles of the requested region of an `mt × nt` tile matrix -/
def inRegion (mt nt uplo m n : Int) : Prop :=
  0 ≤ m ∧ m < mt ∧ 0 ≤ n ∧ n < nt ∧ (uplo = UPPER → m ≤ n) ∧ (uplo = LOWER → n ≤ m)

instance (mt nt uplo m n : Int) : Decidable (inRegion mt nt uplo m n) := by
  unfold inRegion; exact inferInstance

/-! ## map_operator.c -/

/-- `for( ; m < mt; m++ ) if( rank_of(m, n) == myrank ) …`: first local row `≥ m` of column `n`;
    `fuel` is `mt - m` -/
def scan (loc : Nat → Nat → Bool) (n : Nat) : Nat → Nat → Option Nat
  | 0, _ => none
  | fuel+1, m => if loc m n then some m else scan loc n fuel (m + 1)

structure MapCfg where
  mt    : Nat
  nt    : Nat
  cores : Nat                 -- nb_cores of the (single) virtual process
  loc   : Nat → Nat → Bool    -- rank_of(m, n) == myrank

inductive Chain where
  | ready (m n : Nat)   -- task (m, n) has been scheduled and has not run yet
  | claiming            -- its column is exhausted: the next step is the fetch-and-increment
  | done                -- claimed a column `≥ nt`
deriving DecidableEq, Repr

structure MapState where
  nextN  : Nat                 -- tp->next_n
  chains : List Chain
  log    : List (Nat × Nat)    -- operator invocations, in execution order
deriving Repr

/-- where a chain lands after `n = fetch_inc(&next_n) + 1` returned `c` -/
def afterClaim (cfg : MapCfg) (c : Nat) : Chain :=
  if c < cfg.nt then
    match scan cfg.loc c cfg.mt 0 with
    | some m => .ready m c
    | none => .claiming
  else .done

/-- where a chain lands after task `(m, n)` completed (inner loop of `iterate_successors`) -/
def afterExec (cfg : MapCfg) (m n : Nat) : Chain :=
  match scan cfg.loc n (cfg.mt - (m + 1)) (m + 1) with
  | some m' => .ready m' n
  | none => .claiming

/-- `parsec_map_operator_startup_fn` for one virtual process: `fuel = nt - n`; `n = next_n` holds
    throughout.  Returns `(next_n, chains)`. -/
def startupLoop (cfg : MapCfg) : Nat → Nat → List Chain → Nat × List Chain
  | 0, n, cs => (n, cs)
  | fuel+1, n, cs =>
    match scan cfg.loc n cfg.mt 0 with
    | some m =>
      if (cs ++ [Chain.ready m n]).length = cfg.cores then (n, cs ++ [Chain.ready m n])   -- goto done
      else startupLoop cfg fuel (n + 1) (cs ++ [Chain.ready m n])
    | none => startupLoop cfg fuel (n + 1) cs

def mapInit (cfg : MapCfg) : MapState :=
  { nextN := (startupLoop cfg cfg.nt 0 []).1, chains := (startupLoop cfg cfg.nt 0 []).2, log := [] }

/-- one step of chain `i` -/
def mapStep (cfg : MapCfg) (s : MapState) (i : Nat) : MapState :=
  match s.chains[i]? with
  | some (.ready m n) =>
    { s with chains := s.chains.set i (afterExec cfg m n), log := s.log ++ [(m, n)] }
  | some .claiming =>
    { s with nextN := s.nextN + 1, chains := s.chains.set i (afterClaim cfg (s.nextN + 1)) }
  | some .done => s
  | none => s

def mapRun (cfg : MapCfg) (s : MapState) : List Nat → MapState
  | [] => s
  | i :: t => mapRun cfg (mapStep cfg s i) t

def allDone (s : MapState) : Prop := ∀ c ∈ s.chains, c = Chain.done

/-- a tile this process must visit -/
def isLocalTile (cfg : MapCfg) (t : Nat × Nat) : Prop := t.1 < cfg.mt ∧ t.2 < cfg.nt ∧ cfg.loc t.1 t.2 = true

instance (cfg : MapCfg) (t : Nat × Nat) : Decidable (isLocalTile cfg t) := by
  unfold isLocalTile; exact inferInstance

/-! ### trace acceptor used by the driver: replays an observed execution order -/

def findIdx (cs : List Chain) (c : Chain) : Option Nat :=
  let i := cs.idxOf c
  if i < cs.length then some i else none

/-- let claiming chains claim (lowest index first) until some chain is ready at `(m, n)` -/
def claimUntil (cfg : MapCfg) (m n : Nat) : Nat → MapState → Option MapState
  | 0, _ => none
  | fuel+1, s =>
    match findIdx s.chains (.ready m n) with
    | some _ => some s
    | none =>
      match findIdx s.chains .claiming with
      | some j => claimUntil cfg m n fuel (mapStep cfg s j)
      | none => none

def acceptExec (cfg : MapCfg) (s : MapState) (m n : Nat) : Option MapState :=
  match claimUntil cfg m n (cfg.nt + s.chains.length + 2) s with
  | some s' =>
    match findIdx s'.chains (.ready m n) with
    | some i => some (mapStep cfg s' i)
    | none => none
  | none => none

def acceptAll (cfg : MapCfg) : MapState → List (Nat × Nat) → Option MapState
  | s, [] => some s
  | s, (m, n) :: t =>
    match acceptExec cfg s m n with
    | some s' => acceptAll cfg s' t
    | none => none

/-- after the last observed execution: every chain that is still claiming claims until done -/
def drain (cfg : MapCfg) : Nat → MapState → MapState
  | 0, s => s
  | fuel+1, s =>
    match findIdx s.chains .claiming with
    | some j => drain cfg fuel (mapStep cfg s j)
    | none => s

/-! ## reduction trees -/

def clog2Aux (n : Nat) : Nat → Nat → Nat
  | 0, d => d
  | fuel+1, d => if n ≤ 2 ^ d then d else clog2Aux n fuel (d + 1)

/-- least `d` with `n ≤ 2^d`: the exact value of `(int)ceil(log(n) / log(2.0))` (tied to the C
    floating-point expression by the harness) -/
def clog2 (n : Nat) : Nat := clog2Aux n n 0

/-! ### reduce.jdf
        reduce(l, p)   l = 1 .. depth+1     p = 0 .. (MT / (1<<l))
        READ A  <- (1 == l) ? descA(2*p, 0) : C reduce( l - 1, 2 * p )
        READ B  <- ((p * (1 << l) + (1 << (l-1))) >=  MT)  ? NULL
                <- (1 == l) … ? descA(2*p+1,0)   <- (1 != l) … ? C reduce(l - 1, p * 2 + 1)
        WRITE C -> ((depth+1) == l) ? R(p, 0) -> … (0 == (p%2)) ? A reduce(l+1, p/2) … B reduce(l+1, p/2)
    A tile `descA(m, 0)` is written as the level-0 node `m`. -/

inductive Src where
  | tile (m : Nat)
  | node (l p : Nat)
  | null
deriving DecidableEq, Repr

inductive Dst where
  | result (p : Nat)       -- R(p, 0) / dest(col)
  | flowA (l p : Nat)      -- A of reduce / Rtop
  | flowB (l p : Nat)      -- B of reduce / Rbottom
deriving DecidableEq, Repr

def redSpace (MT : Nat) : List (Nat × Nat) :=
  (List.range' 1 (clog2 MT + 1)).flatMap fun l => (List.range (MT / 2 ^ l + 1)).map fun p => (l, p)

def redA (l p : Nat) : Src := if l = 1 then .tile (2 * p) else .node (l - 1) (2 * p)

def redB (MT l p : Nat) : Src :=
  if p * 2 ^ l + 2 ^ (l - 1) ≥ MT then .null
  else if l = 1 then .tile (2 * p + 1) else .node (l - 1) (2 * p + 1)

def redOut (MT l p : Nat) : Dst :=
  if clog2 MT + 1 = l then .result p
  else if p % 2 = 0 then .flowA (l + 1) (p / 2) else .flowB (l + 1) (p / 2)

def srcTiles : Src → List Nat
  | .tile m => [m]
  | _ => []

/-- all `descA(m, 0)` read by the tasks of the space, in enumeration order -/
def redReads (MT : Nat) : List Nat :=
  (redSpace MT).flatMap fun t => srcTiles (redA t.1 t.2) ++ srcTiles (redB MT t.1 t.2)

/-- tiles below node `(l, p)`; level 0 is the tile itself -/
def redLeaves (MT : Nat) : Nat → Nat → List Nat
  | 0, p => [p]
  | l+1, p => redLeaves MT l (2 * p) ++
      (if p * 2 ^ (l + 1) + 2 ^ l ≥ MT then [] else redLeaves MT l (2 * p + 1))

/-- the value node `(l, p)` holds when every task combines `A` and `B` with `f` (a task whose `B`
    is NULL forwards `A`) -/
def redVal {α} (MT : Nat) (f : α → α → α) (v : Nat → α) : Nat → Nat → α
  | 0, p => v p
  | l+1, p => if p * 2 ^ (l + 1) + 2 ^ l ≥ MT then redVal MT f v l (2 * p)
              else f (redVal MT f v l (2 * p)) (redVal MT f v l (2 * p + 1))

/-! ### reduce_col.jdf / reduce_row.jdf: complete binary tree over `2^depth` leaf tasks
        reduce_in_col(row, col)    row = IA .. M    col = JA .. N        : src(row, col)
        reduce_col(level, index, col)  level = 1 .. depth   index = 0 .. ((1 << (depth - level)) - 1)  col = JA .. N
          Rbottom <- (level == 1) ? Rtop reduce_in_col(2*index+1, col) : Rtop reduce_col(level-1, 2*index+1, col)
          Rtop    <- (level == 1) ? Rtop reduce_in_col(2*index, col)   : Rtop reduce_col(level-1, 2*index, col)
        reduce_in_row(index, column)   index = 0 .. (1 << depth) - 1   column = IA .. N   : src(index, 0), reads src(index, 0) -/

def colInSpace (IA JA M N : Int) : List (Int × Int) :=
  (irange IA M).flatMap fun r => (irange JA N).map fun c => (r, c)

def rowInSpace (depth : Nat) (IA N : Int) : List (Int × Int) :=
  (irange 0 ((2 : Int) ^ depth - 1)).flatMap fun r => (irange IA N).map fun c => (r, c)

/-- the tiles `src(index, 0)` read by the leaf tasks of reduce_row.jdf (the column parameter is not
    used in the data reference) -/
def rowReads (depth : Nat) (IA N : Int) : List (Int × Int) :=
  (rowInSpace depth IA N).map fun t => (t.1, 0)

/-- `(level, index)` part of the inner task space (one copy per column) -/
def colSpace (depth : Nat) : List (Nat × Nat) :=
  (List.range' 1 depth).flatMap fun lv => (List.range (2 ^ (depth - lv))).map fun i => (lv, i)

def colTop (lv i : Nat) : Src := if lv = 1 then .tile (2 * i) else .node (lv - 1) (2 * i)
def colBottom (lv i : Nat) : Src := if lv = 1 then .tile (2 * i + 1) else .node (lv - 1) (2 * i + 1)

/-- output of the leaf task `reduce_in_col(row, col)` / `reduce_in_row(index, column)`:
        -> ((row % 2) == 0) ? Rtop reduce_col( 1, row / 2, col ) : Rbottom reduce_col( 1, row / 2, col )
    (`flowA` = Rtop, `flowB` = Rbottom) -/
def colLeafOut (row : Nat) : Dst := if row % 2 = 0 then .flowA 1 (row / 2) else .flowB 1 (row / 2)

/-- outputs of `reduce_col(level, index, col)` as written (three guarded `->`; the target at
    `level + 1` lies outside the task space when `level = depth` and is dropped by the runtime) -/
def colOut (depth lv i : Nat) : List Dst :=
  (if 0 = i % 2 then [.flowA (lv + 1) (i / 2)] else []) ++
  (if 1 = i % 2 then [.flowB (lv + 1) (i / 2)] else []) ++
  (if lv = depth then [.result 0] else [])

/-- leaf tasks (rows) below inner node `(lv, i)`; level 0 is the leaf task itself -/
def colLeaves : Nat → Nat → List Nat
  | 0, i => [i]
  | lv+1, i => colLeaves lv (2 * i) ++ colLeaves lv (2 * i + 1)

def colVal {α} (f : α → α → α) (v : Nat → α) : Nat → Nat → α
  | 0, i => v i
  | lv+1, i => f (colVal f v lv (2 * i)) (colVal f v lv (2 * i + 1))

/-- the arguments `parsec_reduce_col_New` / `parsec_reduce_row_New` pass for `(IA, JA, M, N)`:
    `0, 0, src->lnt, src->lmt` -/
def wrapperArgs (lmt lnt : Int) : Int × Int × Int × Int := (0, 0, lnt, lmt)

/-! ### generic reduction trees and the sequential fold -/

inductive RTree where
  | leaf (i : Nat)
  | un (t : RTree)            -- a node whose second input is NULL
  | bin (a b : RTree)
deriving Repr

def RTree.leaves : RTree → List Nat
  | .leaf i => [i]
  | .un t => t.leaves
  | .bin a b => a.leaves ++ b.leaves

def RTree.eval {α} (f : α → α → α) (v : Nat → α) : RTree → α
  | .leaf i => v i
  | .un t => t.eval f v
  | .bin a b => f (a.eval f v) (b.eval f v)

/-- the tree rooted at node `(l, p)` of reduce.jdf -/
def redTree (MT : Nat) : Nat → Nat → RTree
  | 0, p => .leaf p
  | l+1, p => if p * 2 ^ (l + 1) + 2 ^ l ≥ MT then .un (redTree MT l (2 * p))
              else .bin (redTree MT l (2 * p)) (redTree MT l (2 * p + 1))

def colTree : Nat → Nat → RTree
  | 0, i => .leaf i
  | lv+1, i => .bin (colTree lv (2 * i)) (colTree lv (2 * i + 1))

def foldStep {α} (f : α → α → α) (acc : Option α) (x : α) : Option α :=
  some (match acc with | none => x | some a => f a x)

/-- the sequential left fold of a list (`none` for the empty list) -/
def foldSeq {α} (f : α → α → α) (l : List α) : Option α := l.foldl (foldStep f) none

/-! ### dataflow execution of a tree under an arbitrary schedule
    A node may fire when the values of its sub-trees are available; a schedule is any list of
    positions (paths from the root: `false` = first input, `true` = second input). -/

def RTree.sub : RTree → List Bool → Option RTree
  | t, [] => some t
  | .leaf _, _ :: _ => none
  | .un t, false :: r => t.sub r
  | .un _, true :: _ => none
  | .bin a _, false :: r => a.sub r
  | .bin _ b, true :: r => b.sub r

abbrev Store (α : Type) := List (List Bool × α)

def Store.get {α} : Store α → List Bool → Option α
  | [], _ => none
  | (q, x) :: r, p => if q = p then some x else Store.get r p

/-- fire the node at path `p` if it exists, has not fired and its inputs are available -/
def fire {α} (f : α → α → α) (v : Nat → α) (root : RTree) (s : Store α) (p : List Bool) : Store α :=
  match s.get p with
  | some _ => s
  | none =>
    match root.sub p with
    | none => s
    | some (.leaf i) => (p, v i) :: s
    | some (.un _) =>
      match s.get (p ++ [false]) with
      | some a => (p, a) :: s
      | none => s
    | some (.bin _ _) =>
      match s.get (p ++ [false]), s.get (p ++ [true]) with
      | some a, some b => (p, f a b) :: s
      | _, _ => s

def runSched {α} (f : α → α → α) (v : Nat → α) (root : RTree) : Store α → List (List Bool) → Store α
  | s, [] => s
  | s, p :: t => runSched f v root (fire f v root s p) t

end ParsecVerif.MatrixOps
