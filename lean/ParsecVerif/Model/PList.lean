/-
  Model of parsec/class/list.h, list_item.h (and the aliases of dequeue.h, fifo.h).

  A list (and a ring of items) is the sequence of its items in `list_next` order starting at the
  ghost element (resp. at the ring pointer); the harness prints that sequence after every call and
  checks that the `list_prev` chain is its mirror image.  An item carries the integer the
  comparison macros read (`COMPARISON_VAL(item, off)`) and an identity.

  The simple dequeue calls are the obvious sequence functions.  The four sorted mechanisms mirror
  the code branch by branch:
    * `pushSorted`     parsec_list_nolock_push_sorted: pivot heuristic, forward or backward search
    * `chainSorted`    parsec_list_nolock_chain_sorted: insertion with the moving cursor `pos`
    * `sortList`       parsec_list_nolock_sort = Tatham's bottom-up merge sort with `insize` passes
    * `ringPushSorted` parsec_list_item_ring_push_sorted
  `HIGHER_IS_BETTER` is defined unconditionally in parsec_config_bottom.h, hence
  A_HIGHER_PRIORITY_THAN_B(a,b) = prio a > prio b and A_LOWER_PRIORITY_THAN_B(a,b) = prio a < prio b.

  The locked variants are modelled as a small-step machine (`LState`, `lstep`): one transition per
  atomic operation of the real code, the critical section being executed together with the
  successful CAS that takes the lock (plain accesses are not scheduling points).
-/
namespace ParsecVerif.PList

structure Item where
  prio : Int
  id   : Nat
deriving DecidableEq, Repr, Inhabited

/-! ## dequeue calls -/

def pushFront (l : List Item) (x : Item) : List Item := x :: l
def pushBack (l : List Item) (x : Item) : List Item := l ++ [x]

/-- nolock_pop_front: the ghost is never returned (`_RET_NULL_GHOST`) -/
def popFront : List Item → Option Item × List Item
  | [] => (none, [])
  | x :: t => (some x, t)

def popBack (l : List Item) : Option Item × List Item :=
  match l.getLast? with
  | none => (none, [])
  | some x => (some x, l.dropLast)

/-- chain_front / chain_back: the ring keeps its order -/
def chainFront (l ring : List Item) : List Item := ring ++ l
def chainBack (l ring : List Item) : List Item := l ++ ring

/-- position (number of predecessors) of the item with identity `id` -/
def indexOfId (l : List Item) (id : Nat) : Option Nat :=
  match l.findIdx? (fun y => y.id == id) with
  | some k => some k
  | none => none

def insertAt (l : List Item) (k : Nat) (x : Item) : List Item := l.take k ++ x :: l.drop k

/-- nolock_add_before(position): `pos = none` is the ghost element (item goes to the back) -/
def addBefore (l : List Item) (pos : Option Nat) (x : Item) : Option (List Item) :=
  match pos with
  | none => some (l ++ [x])
  | some p => (indexOfId l p).map (fun k => insertAt l k x)

/-- nolock_add_after(position): `pos = none` is the ghost element (item goes to the front) -/
def addAfter (l : List Item) (pos : Option Nat) (x : Item) : Option (List Item) :=
  match pos with
  | none => some (x :: l)
  | some p => (indexOfId l p).map (fun k => insertAt l (k + 1) x)

/-- nolock_remove: returns the predecessor (none = ghost) and the list without the item -/
def remove (l : List Item) (id : Nat) : Option (Option Item × List Item) :=
  (indexOfId l id).map (fun k => ((if k = 0 then none else l[k - 1]?), l.eraseIdx k))

def contains (l : List Item) (id : Nat) : Bool := l.any (fun y => y.id == id)

/-! ## parsec_list_nolock_push_sorted -/

/-- `int pivot = (h/2) + (t/2) + (((h%2) + (t%2))) == 2 ? 1 : 0;` — `==` binds tighter than `?:`
    and looser than `+`, so the whole sum is compared with 2 (C division and remainder truncate). -/
def pivot (h t : Int) : Int :=
  if Int.tdiv h 2 + Int.tdiv t 2 + (Int.tmod h 2 + Int.tmod t 2) = 2 then 1 else 0

/-- forward search (LIST_NOLOCK_ITERATOR): stop at the first item of strictly lower priority and
    add before it; reaching the ghost adds at the back. -/
def insFwd (x : Item) : List Item → List Item
  | [] => [x]
  | y :: t => if y.prio < x.prio then x :: y :: t else y :: insFwd x t

/-- backward search on the reversed sequence (LIST_NOLOCK_REV_ITERATOR): stop at the first item
    that is NOT of strictly lower priority and add after it; reaching the ghost adds at the front. -/
def insBwdRev (x : Item) : List Item → List Item
  | [] => [x]
  | y :: t => if y.prio < x.prio then y :: insBwdRev x t else x :: y :: t

def insBwd (x : Item) (l : List Item) : List Item := (insBwdRev x l.reverse).reverse

def pushSorted (l : List Item) (x : Item) : List Item :=
  match l with
  | [] => [x]
  | h :: t =>
    if pivot h.prio ((h :: t).getLastD h).prio < x.prio then insFwd x (h :: t) else insBwd x (h :: t)

/-! ## parsec_list_nolock_chain_sorted -/

/-- number of items passed by the inner `for` from the cursor: those not strictly lower than x -/
def scanLen (x : Item) : List Item → Nat
  | [] => 0
  | y :: t => if y.prio < x.prio then 0 else scanLen x t + 1

/-- `if A_HIGHER_PRIORITY_THAN_B(newel, pos) pos = HEAD` -/
def restart (l : List Item) (i : Nat) (x : Item) : Nat :=
  match l[i]? with
  | some p => if p.prio < x.prio then 0 else i
  | none => i

/-- one iteration of the outer loop; the state is the list and the index of the cursor `pos` -/
def chainStep (st : List Item × Nat) (x : Item) : List Item × Nat :=
  (st.1.take (restart st.1 st.2 x) ++ insFwd x (st.1.drop (restart st.1 st.2 x)),
   restart st.1 st.2 x + scanLen x (st.1.drop (restart st.1 st.2 x)))

/-- `ring = []` is the NULL ring.  An empty list first receives the head of the ring. -/
def chainSorted (l ring : List Item) : List Item :=
  match ring with
  | [] => l
  | r :: rs =>
    match l with
    | [] => (rs.foldl chainStep ([r], 0)).1
    | h :: t => ((r :: rs).foldl chainStep (h :: t, t.length)).1

/-! ## parsec_list_nolock_sort (bottom-up merge sort) -/

/-- the merge of a `p` run and a `q` run: `p` is taken only when strictly lower
    (`A_LOWER_PRIORITY_THAN_B(p, q)`), ties take `q` first. -/
def mergeQ : List Item → List Item → List Item
  | [], q => q
  | a :: p, [] => a :: p
  | a :: p, b :: q =>
    if a.prio < b.prio then a :: mergeQ p (b :: q) else b :: mergeQ (a :: p) q
termination_by p q => p.length + q.length

theorem length_mergeQ (p q : List Item) : (mergeQ p q).length = p.length + q.length := by
  fun_induction mergeQ p q with
  | case1 q => simp
  | case2 a p => simp
  | case3 a p b q _ ih => simp [ih]; omega
  | case4 a p b q _ ih => simp [ih]; omega

/-- one pass with run length `n` (`insize`): merge consecutive pairs of runs -/
def pass (n : Nat) (l : List Item) : List Item :=
  if h : n = 0 ∨ l = [] then l
  else mergeQ (l.take n) ((l.drop n).take n) ++ pass n (l.drop (2 * n))
termination_by l.length
decreasing_by
  have h1 : n ≠ 0 := fun e => h (Or.inl e)
  have h2 : l ≠ [] := fun e => h (Or.inr e)
  have := List.length_pos_iff.2 h2
  simp only [List.length_drop]
  omega

theorem length_pass (n : Nat) (l : List Item) : (pass n l).length = l.length := by
  fun_induction pass n l with
  | case1 l h => rfl
  | case2 l h ih =>
    simp only [List.length_append, length_mergeQ, List.length_take, List.length_drop, ih]
    omega

/-- the outer `while(1)`: stop after the pass that did at most one merge (`nmerges <= 1`, i.e.
    the sequence has at most `2*insize` items), otherwise double `insize`. -/
def msortLoop (n : Nat) (l : List Item) : List Item :=
  if n = 0 ∨ l.length ≤ 2 * n then pass n l else msortLoop (2 * n) (pass n l)
termination_by l.length - n
decreasing_by
  rw [length_pass]
  omega

/-- nolock_sort returns immediately on an empty list -/
def sortList (l : List Item) : List Item :=
  match l with
  | [] => []
  | h :: t => msortLoop 1 (h :: t)

/-! ## rings of items -/

/-- ring_push: the item is added preceding the ring pointer, i.e. last in ring order -/
def ringPush (ring : List Item) (x : Item) : List Item := ring ++ [x]
def ringMerge (r1 r2 : List Item) : List Item := r1 ++ r2
/-- ring_chop(item): the ring without its head, starting at the next item -/
def ringChop (ring : List Item) : List Item := ring.drop 1

/-- `_LIST_ITEM_ITERATOR` search: add before the first item that the new one is NOT strictly lower
    than; if there is none the item is pushed before `ring`, i.e. last. -/
def insRing (x : Item) : List Item → List Item
  | [] => [x]
  | y :: t => if x.prio < y.prio then y :: insRing x t else x :: y :: t

def ringPushSorted (ring : List Item) (x : Item) : List Item :=
  match ring with
  | [] => [x]
  | y :: t => insRing x (y :: t)

/-! ## the locked variants as a small-step machine -/

inductive LOp
  | pushFront (x : Item) | pushBack (x : Item) | pushSorted (x : Item)
  | chainFront (r : List Item) | chainBack (r : List Item) | chainSorted (r : List Item)
  | sort | unchain | isEmpty
  | popFront | popBack | tryPopFront | tryPopBack
  | tryFail      -- what a try_pop that lost the trylock amounts to: nothing
deriving DecidableEq, Repr

inductive Ret
  | unit | item (o : Option Item) | ring (r : List Item) | bool (b : Bool)
deriving DecidableEq, Repr

/-- the sequential meaning of one call (the nolock function run inside the critical section) -/
def sem (op : LOp) (l : List Item) : List Item × Ret :=
  match op with
  | .pushFront x => (pushFront l x, .unit)
  | .pushBack x => (pushBack l x, .unit)
  | .pushSorted x => (pushSorted l x, .unit)
  | .chainFront r => (chainFront l r, .unit)
  | .chainBack r => (chainBack l r, .unit)
  | .chainSorted r => (chainSorted l r, .unit)
  | .sort => (sortList l, .unit)
  | .unchain => ([], .ring l)
  | .isEmpty => (l, .bool l.isEmpty)
  | .popFront => ((popFront l).2, .item (popFront l).1)
  | .popBack => ((popBack l).2, .item (popBack l).1)
  | .tryPopFront => ((popFront l).2, .item (popFront l).1)
  | .tryPopBack => ((popBack l).2, .item (popBack l).1)
  | .tryFail => (l, .item none)

/-- pop_front/pop_back/try_pop_* read `nolock_is_empty` before touching the lock -/
def precheck : LOp → Bool
  | .popFront | .popBack | .tryPopFront | .tryPopBack => true
  | _ => false

def isTry : LOp → Bool
  | .tryPopFront | .tryPopBack => true
  | _ => false

/-- program points of a thread that executes its calls one after the other:
    `idle k` at the boundary before call `k`; `cas k` parked before the CAS on the lock;
    `fence k` lock taken and critical section done, parked before the `mfence` of unlock. -/
inductive Pc
  | idle (k : Nat) | cas (k : Nat) | fence (k : Nat)
deriving DecidableEq, Repr

/-- one linearized call: `call` is what the program invoked, `op` the sequential operation it
    amounts to (`call` itself, or `tryFail` when a try_pop lost the trylock), `ret` what it returned -/
structure Ev where
  tid  : Nat
  call : LOp
  op   : LOp
  ret  : Ret
deriving DecidableEq, Repr

structure LState where
  lock : Bool
  l    : List Item
  pcs  : List Pc
  hist : List Ev      -- ghost: calls in the order of their linearization points
deriving Repr

def linit (l0 : List Item) (n : Nat) : LState := ⟨false, l0, List.replicate n (.idle 0), []⟩

/-- one step of thread `t` under programs `progs` -/
def lstep (progs : List (List LOp)) (s : LState) (t : Nat) : LState :=
  match s.pcs[t]?, progs[t]? with
  | some (.idle k), some prog =>
    match prog[k]? with
    | none => s
    | some op =>
      if precheck op && s.l.isEmpty then
        { s with pcs := s.pcs.set t (.idle (k + 1)), hist := s.hist ++ [⟨t, op, op, .item none⟩] }
      else { s with pcs := s.pcs.set t (.cas k) }
  | some (.cas k), some prog =>
    match prog[k]? with
    | none => s
    | some op =>
      if s.lock then
        (if isTry op then
          { s with pcs := s.pcs.set t (.idle (k + 1)), hist := s.hist ++ [⟨t, op, .tryFail, .item none⟩] }
         else s)
      else
        { lock := true, l := (sem op s.l).1, pcs := s.pcs.set t (.fence k),
          hist := s.hist ++ [⟨t, op, op, (sem op s.l).2⟩] }
  | some (.fence k), some _ =>
    { s with lock := false, pcs := s.pcs.set t (.idle (k + 1)) }
  | _, _ => s

def lrun (progs : List (List LOp)) (s : LState) (sched : List Nat) : LState :=
  sched.foldl (lstep progs) s

/-- sequential replay of a history: the list it produces, and whether every recorded return value
    is the one the sequential call gives -/
def retOk (e : Ev) (l : List Item) : Bool := decide ((sem e.op l).2 = e.ret)

def replay (l : List Item) : List Ev → List Item × Bool
  | [] => (l, true)
  | e :: es => ((replay (sem e.op l).1 es).1, retOk e l && (replay (sem e.op l).1 es).2)

end ParsecVerif.PList
