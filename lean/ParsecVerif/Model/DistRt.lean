import ParsecVerif.Model.Dataflow
import ParsecVerif.Model.RemoteDep
/-
  Distributed abstract runtime (C05): the generic dataflow machine of `Model/Dataflow.lean` run on
  `nranks` processes.

  * Nodes are placed on ranks by an arbitrary placement function (`Conf.place`): placement only
    partitions the nodes.  A node is started / rescheduled / finished by its own rank, and its body
    reads its inputs from the copies held by ITS rank (`DSt.store`, one entry per (rank, node)).
  * A dependency whose two ends are on the same rank is released as in the single-process machine
    (`releaseLocal`, one at a time, any order).
  * The dependencies of a finished node `a` towards other ranks are gathered per output flow into
    one collective activation (parsec.c: parsec_release_dep_fct, SEND_INIT_REMOTE_DEPS branch;
    remote_dep.c: parsec_remote_dep_activate), which is exactly the C13 machine
    `RemoteDep.Cfg` built by `cfgOf`: root = rank of `a`, one `Out` per output flow with a remote
    successor, destination ranks = ranks of these successors, child predicate = configured topology.
    The state of that collective (messages in flight / delivered) is `RemoteDep.St`, advanced with
    `RemoteDep.Cfg.deliver` — relays forward with the payload selection of remote_dep_mpi_pack_dep.
  * Transport (remote_dep_mpi.c: remote_dep_mpi_pack_dep / remote_dep_mpi_save_activate_cb /
    remote_dep_mpi_get_start / remote_dep_mpi_get_end_cb): when the activation message reaches its
    destination either all payloads were packed in the activation buffer (EAGER; allowed only when
    the packed size is not larger than `runtime_comm_short_limit`, never when the limit is 0, and even
    then not forced: it also depends on the room left in the aggregation buffer), or the receiver
    issues GETs and the message completes when the last payload has arrived (RENDEZVOUS, `recvData`).
    Both are value preserving: the receiver's copy becomes the SENDER's copy (a relay forwards what
    it received).
  * When a message completes at rank `d` (remote_dep_release_incoming): the copy is stored, every
    dependency `(a, b, k)` with `b` on `d` and `k` among the payloads — or `k` a control (CTL) output:
    the receiver learns those from the propagation mask in the header, no payload is needed — is
    released, and the receiver re-activates the collective from its own position (forwarding to its
    children).

  A run is any sequence of enabled transitions (any number of worker threads and one communication
  thread per rank, any message delivery order).
-/
namespace ParsecVerif.DistRt
open ParsecVerif.Dataflow ParsecVerif.RemoteDep

/-- labelled task graph: an edge `(src, dst, k)` = output flow `k` of `src` feeds `dst`
    (duplicates allowed, e.g. one output feeding two input flows of the same successor);
    `ctl` lists the (node, output) pairs that are control flows (no payload) -/
structure DGraph where
  n : Nat
  nout : Nat
  E : List (Nat × Nat × Nat)
  ctl : List (Nat × Nat) := []
deriving Repr

/-- output `k` of node `a` carries no data (CTL flow) -/
def DGraph.isCtl (g : DGraph) (a k : Nat) : Bool := g.ctl.contains (a, k)

/-- the underlying single-process task graph -/
def DGraph.graph (g : DGraph) : Graph := ⟨g.n, g.E.map fun e => (e.1, e.2.1)⟩

/-- nodes numbered in a topological order (every dependency goes forward), labels in range -/
def DGraph.WF (g : DGraph) : Prop := ∀ e ∈ g.E, e.1 < e.2.1 ∧ e.2.1 < g.n ∧ e.2.2 < g.nout

instance (g : DGraph) : Decidable g.WF := by unfold DGraph.WF; infer_instance

/-- configuration of a distributed run -/
structure Conf where
  topo : Topo            -- runtime_comm_coll_bcast
  nranks : Nat
  place : Nat → Nat      -- node → rank (2D block-cyclic, tabular, hash …: any function)
  short : Nat            -- runtime_comm_short_limit
  size : Nat → Nat       -- packed size of the output of a node

def Conf.WF (cf : Conf) (g : DGraph) : Prop :=
  0 < cf.nranks ∧ cf.nranks ≤ 2 ^ 31 ∧ ∀ i, i < g.n → cf.place i < cf.nranks

/-- ranks of the remote successors of output `k` of node `a` -/
def remoteRanks (g : DGraph) (cf : Conf) (a k : Nat) : List Nat :=
  (g.E.filter fun e => e.1 == a && e.2.2 == k && cf.place e.2.1 != cf.place a).map fun e => cf.place e.2.1

/-- the outputs of `a` that have a remote successor, in increasing flow order (the propagation mask) -/
def outsOf (g : DGraph) (cf : Conf) (a : Nat) : List Out :=
  (List.range g.nout).filterMap fun k =>
    if (remoteRanks g cf a k).isEmpty then none else some (k, remoteRanks g cf a k)

/-- the collective activation started when node `a` completes -/
def cfgOf (g : DGraph) (cf : Conf) (a : Nat) : Cfg :=
  mkCfg cf.topo false cf.nranks (cf.place a) (outsOf g cf a)

/-- the hypothesis of the partial theorem: every collective activation of the run satisfies C13's
    decidable side condition for the configured topology -/
def deliveryOKAll (g : DGraph) (cf : Conf) : Bool :=
  (List.range g.n).all fun a => (cfgOf g cf a).deliveryOK

/-- C13's side condition restricted to the outputs that carry data: every relay holds every DATA output that
    the ranks it forwards to consume.  (A control output needs no payload: the receiver releases it from the
    propagation mask in the header of whatever activation message reaches it — remote_dep_get_datatypes.) -/
def dataOK (c : Cfg) (isCtl : Nat → Bool) : Bool :=
  c.edges.all fun px => px.1 == c.root || c.outs.all fun o => isCtl o.1 || !o.2.contains px.2 || o.2.contains px.1

def dataOKAll (g : DGraph) (cf : Conf) : Bool :=
  (List.range g.n).all fun a => dataOK (cfgOf g cf a) (g.isCtl a)

/-! ## State -/

/-- first binding of a key in an association list -/
def look {κ β} [BEq κ] (l : List (κ × β)) (k : κ) : Option β := (l.find? fun e => e.1 == k).map (·.2)

structure DSt where
  core  : Dataflow.St                       -- statuses, unreleased dependencies, values, event log
  store : List ((Nat × Nat) × Nat)          -- (rank, node) ↦ the copy of the node's output held by the rank
  coll  : List (Nat × RemoteDep.St)         -- node ↦ state of its collective activation
  xfer  : List (Nat × Msg)                  -- activations received whose payloads are being fetched (rendezvous)
deriving Repr

inductive DTr
  | start (i : Nat)
  | again (i : Nat)
  | finish (i : Nat)
  | releaseLocal (a b : Nat)
  | recvAct (a : Nat) (m : Msg) (eager : Bool)   -- activation `m` of node `a`'s collective reaches `m.dst`
  | recvData (a : Nat) (m : Msg)                 -- the last rendezvous payload of `m` arrives
deriving Repr, DecidableEq

def dinit (g : DGraph) (again : List Nat) : DSt :=
  { core := Dataflow.init g.graph again, store := [], coll := [], xfer := [] }

def inflightOf (s : DSt) (a : Nat) : List Msg :=
  match look s.coll a with
  | some st => st.inflight
  | none => []

def denabled (cf : Conf) (s : DSt) : DTr → Bool
  | .start i => enabled s.core (.start i)
  | .again i => enabled s.core (.again i)
  | .finish i => enabled s.core (.finish i)
  | .releaseLocal a b => enabled s.core (.release a b) && cf.place a == cf.place b
  | .recvAct a m eager =>
      (inflightOf s a).contains m && !s.xfer.contains (a, m) &&
      (!eager || (decide (0 < cf.short) && decide (cf.size a ≤ cf.short)))
  | .recvData a m => s.xfer.contains (a, m)

/-- the inputs node `i` sees: the copies held by its own rank -/
def localInputs (g : DGraph) (cf : Conf) (s : DSt) (i : Nat) : List (Option Nat) :=
  (predsOf g.graph i).map fun p => look s.store (cf.place i, p)

/-- successors released when message `m` of `a`'s collective completes at `m.dst`: those fed by an output whose
    payload came with `m`, and those fed by a control output (named by the propagation mask of the header) -/
def releasedBy (g : DGraph) (cf : Conf) (a : Nat) (m : Msg) : List Nat :=
  (g.E.filter fun e => e.1 == a && cf.place e.2.1 == m.dst && (m.keys.contains e.2.2 || g.isCtl a e.2.2)).map fun e => e.2.1

/-- completion of message `m` of node `a`'s collective at rank `m.dst` (remote_dep_release_incoming) -/
def complete (g : DGraph) (cf : Conf) (F : Nat → List (Option Nat) → Nat) (s : DSt) (a : Nat) (m : Msg) : DSt :=
  match look s.coll a with
  | none => s
  | some st =>
    if st.inflight.contains m then
      { s with
        core := (releasedBy g cf a m).foldl (fun c b => Dataflow.step g.graph F c (.release a b)) s.core,
        store := match look s.store (m.src, a) with
                 | some v => ((m.dst, a), v) :: s.store
                 | none => s.store,
        coll := (a, (cfgOf g cf a).deliver st m) :: s.coll }
    else s

def dstep (g : DGraph) (cf : Conf) (F : Nat → List (Option Nat) → Nat) (s : DSt) (t : DTr) : DSt :=
  if !denabled cf s t then s else
  match t with
  | .start i => { s with core := Dataflow.step g.graph F s.core (.start i) }
  | .again i => { s with core := Dataflow.step g.graph F s.core (.again i) }
  | .finish i =>
      let v := F i (localInputs g cf s i)
      { s with
        core := { s.core with status := s.core.status.set i .ended, val := s.core.val.set i (some v),
                              log := s.core.log ++ [.end_ i] },
        store := ((cf.place i, i), v) :: s.store,
        coll := (i, (cfgOf g cf i).init) :: s.coll }
  | .releaseLocal a b => { s with core := Dataflow.step g.graph F s.core (.release a b) }
  | .recvAct a m eager => if eager then complete g cf F s a m else { s with xfer := (a, m) :: s.xfer }
  | .recvData a m => complete g cf F { s with xfer := s.xfer.erase (a, m) } a m

def drun (g : DGraph) (cf : Conf) (F : Nat → List (Option Nat) → Nat) (again : List Nat) (ts : List DTr) : DSt :=
  ts.foldl (dstep g cf F) (dinit g again)

/-- every process has terminated: all tasks done, no dependency left, no activation in flight, no
    payload being fetched -/
def allTerminate (g : DGraph) (s : DSt) : Prop :=
  quiescent s.core ∧ (∀ a, a < g.n → inflightOf s a = []) ∧ s.xfer = []

/-! ## The reference: sequential execution in node order -/

/-- run the bodies one after the other in node order, each on the values of its predecessors -/
def seqRun (G : Graph) (F : Nat → List (Option Nat) → Nat) : List (Option Nat) :=
  (List.range G.n).foldl
    (fun vals i => vals.set i (some (F i ((predsOf G i).map fun p => (vals[p]?).getD none))))
    (List.replicate G.n none)

/-! ## An executable scheduler (driver / examples): fair round-robin over the enabled transitions -/

def candidates (g : DGraph) (s : DSt) (eager : Bool) : List DTr :=
  (s.xfer.map fun am => DTr.recvData am.1 am.2) ++
  ((List.range g.n).flatMap fun a => (inflightOf s a).map fun m => DTr.recvAct a m eager) ++
  ((List.range g.n).flatMap fun i => [DTr.start i, DTr.again i, DTr.finish i]) ++
  (s.core.pending.map fun e => DTr.releaseLocal e.1 e.2)

/-- pick the `k`-th enabled candidate (modulo their number); `none` = no transition enabled -/
def pick (g : DGraph) (cf : Conf) (s : DSt) (eager : Bool) (k : Nat) : Option DTr :=
  let en := (candidates g s eager).filter (denabled cf s)
  if en.isEmpty then
    let en2 := (candidates g s false).filter (denabled cf s)
    if en2.isEmpty then none else en2[k % en2.length]?
  else en[k % en.length]?

/-- run with the choices `ks` (one number per step; eager whenever allowed iff the number is odd) -/
def schedule (g : DGraph) (cf : Conf) (F : Nat → List (Option Nat) → Nat) : List Nat → DSt → List DTr → DSt × List DTr
  | [], s, acc => (s, acc.reverse)
  | k :: ks, s, acc =>
    match pick g cf s (k % 2 == 1) (k / 2) with
    | none => (s, acc.reverse)
    | some t => schedule g cf F ks (dstep g cf F s t) (t :: acc)

end ParsecVerif.DistRt
