/-
  Model of parsec/data.c: `parsec_data_start_transfer_ownership_to_copy`,
  `parsec_data_end_transfer_ownership_to_copy`, `parsec_data_transfer_ownership_to_copy`,
  over the fields they read and write: `data->owner_device`, and for every device `i` the copy
  `data->device_copies[i]` (possibly NULL) with `coherency_state`, `version`, `readers`,
  `data_transfer_status`.  One definition per loop / statement group of the C function, composed
  in the order of the C text.  The `assert`s of the two functions (compiled out in the build
  under test) are collected, path by path, in `startPre` / `endPre`: a call that would trip one is
  outside the API precondition.  `startRaw` / `endRaw` are the bodies without the asserts, so that
  excluded states can be probed as well.  Caller actions (`version++`, copying the source's version
  when a transfer was requested) are separate functions; `transfer` is one complete ownership
  transfer as a caller performs it.
-/
namespace ParsecVerif.DataOwnership

/-- `parsec_data_coherency_t` (data.h): INVALID 0x0, OWNED 0x1, EXCLUSIVE 0x2, SHARED 0x4 -/
inductive Coh where
  | invalid | owned | exclusive | shared
deriving DecidableEq, Repr

def Coh.ofCode? : Nat → Option Coh
  | 0 => some .invalid | 1 => some .owned | 2 => some .exclusive | 4 => some .shared | _ => none

def Coh.letter : Coh → String
  | .invalid => "I" | .owned => "O" | .exclusive => "E" | .shared => "S"

/-- the fields of `parsec_data_copy_t` used by the two functions -/
structure Copy where
  coh : Coh
  ver : Nat
  readers : Int
  xs : Nat          -- data_transfer_status: 0 NOT_TRANSFER, 1 UNDER_TRANSFER, 2 COMPLETE_TRANSFER
deriving DecidableEq, Repr

/-- `parsec_data_t`: `owner_device` (−1 = nobody) and `device_copies[0 .. parsec_nb_devices-1]` -/
structure St where
  owner : Int
  copies : List (Option Copy)
deriving DecidableEq, Repr

def init : St := ⟨-1, []⟩

/-- `data->device_copies[i]` (NULL = `none`; also `none` beyond `parsec_nb_devices`) -/
def getC (cs : List (Option Copy)) (i : Nat) : Option Copy := (cs[i]?).getD none

def setCoh (c : Copy) (k : Coh) : Copy := { c with coh := k }

/-- non-NULL and not INVALID (the `continue` tests of every loop) -/
def isValid : Option Copy → Bool
  | some c => c.coh != .invalid
  | none => false

/-- `cs[d] := f cs[d]` when the copy exists -/
def modCopy (cs : List (Option Copy)) (d : Nat) (f : Copy → Copy) : List (Option Copy) :=
  match getC cs d with
  | some c => cs.set d (some (f c))
  | none => cs

/-! ### the `switch( copy->coherency_state )` -/

/-- case INVALID with `valid_copy == -1`: the loop keeps the LAST non-NULL non-INVALID copy -/
def lastValid : List (Option Copy) → Nat → Int → Int
  | [], _, acc => acc
  | c :: t, i, acc => lastValid t (i + 1) (if isValid c then (i : Int) else acc)

def isNewerOwned (v : Nat) : Option Copy → Bool
  | some c => c.coh == .owned && decide (v < c.ver)
  | none => false

/-- case SHARED: some copy is OWNED with a version greater than the target's -/
def newerOwned (cs : List (Option Copy)) (v : Nat) : Bool := cs.any (isNewerOwned v)

/-- `transfer_required` after the switch -/
def switchTreq (cs : List (Option Copy)) (tgt : Copy) : Bool :=
  match tgt.coh with
  | .invalid => true
  | .shared => newerOwned cs tgt.ver
  | .exclusive => false
  | .owned => false

/-- `valid_copy` after the switch -/
def switchValid (owner : Int) (cs : List (Option Copy)) (tgt : Copy) : Int :=
  if tgt.coh = .invalid ∧ owner = -1 then lastValid cs 0 (-1) else owner

def notOwned : Option Copy → Bool
  | some c => c.coh != .owned
  | none => true

/-- the asserts met inside the switch.
    INVALID with no owner: every valid copy is EXCLUSIVE or SHARED.
    SHARED: an OWNED copy with a greater version sits at `valid_copy` (= owner_device).
    OWNED: `assert( device == data->owner_device )` — false on this path (owner ≠ device). -/
def switchPre (owner : Int) (cs : List (Option Copy)) (tgt : Copy) : Bool :=
  match tgt.coh with
  | .invalid => if owner = -1 then cs.all notOwned else true
  | .shared => !(newerOwned (if 0 ≤ owner then cs.set owner.toNat none else cs) tgt.ver)
  | .exclusive => true
  | .owned => false

/-! ### `if( PARSEC_FLOW_ACCESS_READ & access_mode )` loop -/

/-- loop body for an entry other than the target.  `ro` = the target copy is OWNED and the access
    has no WRITE bit; `tv` = the target's version. -/
def readBody (ro : Bool) (tv : Nat) : Option Copy → Option Copy
  | none => none
  | some c =>
    if c.coh = .invalid then some c
    else if ro = true ∧ c.ver < tv then some (setCoh c .invalid)
    else if c.coh = .exclusive then some (setCoh c .shared)
    else some c

/-- the assert of the loop body: a copy found EXCLUSIVE is not UNDER_TRANSFER -/
def readAssert (ro : Bool) (tv : Nat) : Option Copy → Bool
  | none => true
  | some c =>
    if c.coh = .invalid then true
    else if ro = true ∧ c.ver < tv then true
    else if c.coh = .exclusive then c.xs != 1
    else true

def readLoop (cs : List (Option Copy)) (d : Nat) (tgt : Copy) (w : Bool) : List (Option Copy) :=
  (cs.map (readBody (tgt.coh == .owned && !w) tgt.ver)).set d (some tgt)

/-- `data->owner_device = -1` is executed for every valid copy other than the target -/
def readOwner (owner : Int) (cs : List (Option Copy)) (d : Nat) (tgt : Copy) (w : Bool) : Int :=
  if (tgt.coh == .owned && !w) && (cs.set d none).any isValid then -1 else owner

def readPre (cs : List (Option Copy)) (d : Nat) (tgt : Copy) (w : Bool) : Bool :=
  (cs.set d none).all (readAssert (tgt.coh == .owned && !w) tgt.ver)

/-! ### `if( PARSEC_FLOW_ACCESS_WRITE & access_mode )` loop (the target is not skipped) -/

def writeBody : Option Copy → Option Copy
  | none => none
  | some c => if c.coh = .invalid then some c else some (setCoh c .shared)

def writeAssert : Option Copy → Bool
  | none => true
  | some c => if c.coh = .invalid then true else c.xs != 1

def writeLoop (cs : List (Option Copy)) : List (Option Copy) := cs.map writeBody

def writePre (cs : List (Option Copy)) : Bool := cs.all writeAssert

/-! ### `bookkeeping:` and the tail of the function -/

def incReaders (r : Bool) (c : Copy) : Copy := if r then { c with readers := c.readers + 1 } else c

def invalidateIf (treq : Bool) (c : Copy) : Copy := if treq then setCoh c .invalid else c

def bookkeeping (owner : Int) (cs : List (Option Copy)) (d : Nat) (r w treq : Bool) (vc : Int) :
    St × Int :=
  (⟨if w then (d : Int) else owner,
    modCopy (modCopy cs d (incReaders r)) d (invalidateIf treq)⟩,
   if treq then vc else -1)

/-- copies and owner after the two access-mode loops (owner ≠ device path) -/
def afterLoops (cs : List (Option Copy)) (d : Nat) (tgt : Copy) (r w : Bool) : List (Option Copy) :=
  if w then writeLoop (if r then readLoop cs d tgt w else cs)
  else if r then readLoop cs d tgt w else cs

/-- `parsec_data_start_transfer_ownership_to_copy(data, d, mode)` without its asserts;
    `r`, `w` = the READ / WRITE bits of the access mode.  Returns the new state and the return
    value (−1 = no transfer, else the device to transfer from). -/
def startRaw (s : St) (d : Nat) (r w : Bool) : St × Int :=
  match getC s.copies d with
  | none => (s, -1)
  | some tgt =>
    if s.owner = (d : Int) then bookkeeping s.owner s.copies d r w false s.owner
    else
      bookkeeping (if r then readOwner s.owner s.copies d tgt w else s.owner)
        (afterLoops s.copies d tgt r w) d r w
        (r && switchTreq s.copies tgt) (switchValid s.owner s.copies tgt)

/-- all asserts on the path taken by the call -/
def startPre (s : St) (d : Nat) (r w : Bool) : Bool :=
  match getC s.copies d with
  | none => false
  | some tgt =>
    if s.owner = (d : Int) then true
    else
      switchPre s.owner s.copies tgt
      && (!r || readPre s.copies d tgt w)
      && (!w || writePre (if r then readLoop s.copies d tgt w else s.copies))
      && (!(r && switchTreq s.copies tgt) || switchValid s.owner s.copies tgt != -1)

def start (s : St) (d : Nat) (r w : Bool) : Option (St × Int) :=
  if startPre s d r w then some (startRaw s d r w) else none

/-! ### `parsec_data_end_transfer_ownership_to_copy` -/

def endCoh (r w : Bool) (c : Copy) : Copy :=
  if w then setCoh c .owned else if r then setCoh c .shared else c

def endRaw (s : St) (d : Nat) (r w : Bool) : St := { s with copies := modCopy s.copies d (endCoh r w) }

def endPre (s : St) (d : Nat) : Bool :=
  match getC s.copies d with
  | none => false
  | some c => c.xs != 1

def endT (s : St) (d : Nat) (r w : Bool) : Option St :=
  if endPre s d then some (endRaw s d r w) else none

/-! ### `parsec_data_transfer_ownership_to_copy`: lock; start; end; unlock -/

def xferRaw (s : St) (d : Nat) (r w : Bool) : St × Int :=
  (endRaw (startRaw s d r w).1 d r w, (startRaw s d r w).2)

def xferPre (s : St) (d : Nat) (r w : Bool) : Bool :=
  startPre s d r w && endPre (startRaw s d r w).1 d

def xfer (s : St) (d : Nat) (r w : Bool) : Option (St × Int) :=
  if xferPre s d r w then some (xferRaw s d r w) else none

/-! ### caller actions -/

def setVer (v : Nat) (c : Copy) : Copy := { c with ver := v }

/-- the transfer requested by `start` is carried out: the target receives the source's data, hence
    its version (`gpu_elem->version = candidate->version` in device_gpu.c) -/
def syncFrom (cs : List (Option Copy)) (d : Nat) (src : Int) : List (Option Copy) :=
  if src < 0 then cs
  else match getC cs src.toNat with
    | some c => modCopy cs d (setVer c.ver)
    | none => cs

/-- greatest version among the valid copies (0 when there is none) -/
def newestStep (m : Nat) : Option Copy → Nat
  | some c => if c.coh = .invalid then m else max m c.ver
  | none => m

def newest (cs : List (Option Copy)) : Nat := cs.foldl newestStep 0

/-- the caller's version bump after a write access: 0 = none, 1 = `copy->version++` (generated PTG
    code, DTD), otherwise `newest valid version + 1` (`candidate->version + 1` in device_gpu.c). -/
def bumpVer (b : Nat) (nw : Nat) (c : Copy) : Copy :=
  if b = 0 then c else if b = 1 then setVer (c.ver + 1) c else setVer (nw + 1) c

/-- one complete ownership transfer to device `d` with access bits `r`,`w` and bump kind `b`:
    start; if a transfer is requested the target gets the source's version; end; on a write access
    the caller's bump.  `none` = some assert of start / end would fire (call not issued). -/
def transferRaw (s : St) (d : Nat) (r w : Bool) (b : Nat) : St × Int :=
  ({ owner := (startRaw s d r w).1.owner,
     copies := modCopy
       (modCopy (syncFrom (startRaw s d r w).1.copies d (startRaw s d r w).2) d (endCoh r w))
       d (if w then bumpVer b (newest s.copies) else id) },
   (startRaw s d r w).2)

def transfer (s : St) (d : Nat) (r w : Bool) (b : Nat) : Option (St × Int) :=
  if xferPre s d r w then some (transferRaw s d r w b) else none

/-! ### executable side conditions of the C26 theorems (soundness proved in Props/C26.lean) -/

def verLeB (v : Nat) : Option Copy → Bool
  | some c => c.coh == .invalid || decide (c.ver ≤ v)
  | none => true

/-- the copy of device `d` is valid and no valid copy carries a greater version -/
def upToDateB (cs : List (Option Copy)) (d : Nat) : Bool :=
  match getC cs d with
  | some c => c.coh != .invalid && cs.all (verLeB c.ver)
  | none => false

def verEqB (v : Nat) : Option Copy → Bool
  | some c => c.coh == .invalid || decide (c.ver = v)
  | none => true

/-- H1: not (READ-only access by the owner to its OWNED copy while a valid copy has another version) -/
def ownerReadOKD (s : St) (d : Nat) (r w : Bool) : Bool :=
  !(r && !w && decide (s.owner = (d : Int))) ||
  match getC s.copies d with
  | some tgt => tgt.coh != .owned || s.copies.all (verEqB tgt.ver)
  | none => true

/-- H1 and H2 at a step (true when the step is not issued) -/
def safeStepD (s : St) (d : Nat) (r w : Bool) (b : Nat) : Bool :=
  match transfer s d r w b with
  | none => true
  | some (s', _) => ownerReadOKD s d r w && (!w || upToDateB s'.copies d)

/-! ### fabrication of a data item (harness side: PARSEC_OBJ_NEW + parsec_data_copy_attach) -/

def newData (n : Nat) (owner : Int) : St := ⟨owner, List.replicate n none⟩

def attach (s : St) (d : Nat) (k : Coh) (v : Nat) : Option St :=
  if d < s.copies.length ∧ getC s.copies d = none then
    some { s with copies := s.copies.set d (some ⟨k, v, 0, 0⟩) }
  else none

/-- `parsec_data_create`: device 0 copy OWNED at version 0, owner 0; other devices attached INVALID -/
def created (n : Nat) : St :=
  ⟨0, (some ⟨.owned, 0, 0, 0⟩) :: List.replicate n (some ⟨.invalid, 0, 0, 0⟩)⟩

/-- `parsec_data_new` + `parsec_data_copy_new` on every device: nobody owns, all INVALID -/
def fresh (n : Nat) : St := ⟨-1, List.replicate n (some ⟨.invalid, 0, 0, 0⟩)⟩

end ParsecVerif.DataOwnership
