import ParsecVerif.Model.MatrixTypes
import ParsecVerif.Model.Future
/-
  C18 — typed PTG flows (parsec/parsec_reshape.c, parsec/class/parsec_datacopy_future.c,
  parsec/remote_dep_mpi.c: parsec_local_reshape_cb / reshape_copy_allocate / remote_dep_copy_allocate,
  parsec/parsec_mpi_funnelled.c: parsec_mpi_sendrecv, the `[type= type_remote= type_data=]` handling of jdf2c.c).

  Part 1  the conversion: `parsec_ce.reshape` = `MPI_Sendrecv` to self = unpack ty_dst (pack ty_src tile) into a
          fresh copy, with the element lists of C19 (`defineDatatype`, as coded in matrixtypes.c).
  Part 2  memory + promise protocol: a heap of copies on top of C29's data-copy future machine (`Future.DState`,
          every interleaving): fulfilling a future allocates a fresh copy and writes only into it.
  Part 3  the interpreter used by the tie: what every consumer of a generated producer / fan-out program sees
          (local reshape promises as set up by `parsec_set_up_reshape_promise`, remote sends / typed, packed and
          short receptions).  This part mirrors what the runtime does with the decisions of jdf2c; those decisions are
          exercised by the tie, not modelled line by line.

  No Mathlib.  Everything is executable (driver `pv_C18`).
-/
namespace ParsecVerif.Reshape
open ParsecVerif.MatrixTypes

/-! ## Part 1 — the conversion -/

/-- memory of a data copy, one `Int` per basic element (offsets in element units) -/
abbrev Mem := List Int

/-- read a cell (outside the block: 0; never happens for well-sized copies) -/
def rd (m : Mem) (o : Nat) : Int := (m[o]?).getD 0

/-- `MPI_Pack` of one instance of a type with element offsets `offs` -/
def pack (offs : List Nat) (m : Mem) : List Int := offs.map (rd m)

/-- `MPI_Unpack`: the k-th value of the stream goes to the k-th element of the type; it stops at the shorter of
    the two (a shorter stream leaves the remaining elements untouched; a longer one is a truncation) -/
def unpack : List Nat → List Int → Mem → Mem
  | o :: os, v :: vs, m => unpack os vs (m.set o v)
  | _, _, m => m

/-- `parsec_ce.reshape(dst, dst type, src, src type)` = `MPI_Sendrecv(src, 1, tsrc, self, dst, 1, tdst, self)` -/
def sendrecv (soffs doffs : List Nat) (src init : Mem) : Mem := unpack doffs (pack soffs src) init

/-- the `(uplo, diag)` arguments of `parsec_matrix_define_datatype` -/
structure Shape where
  uplo : Nat
  diag : Int
deriving Repr, DecidableEq

/-- element offsets of the datatype the real construction builds (C19: `defineDatatype`, `resized = -1`) -/
def typeOffs (s : Shape) (m n ld : Nat) : List Nat :=
  match defineDatatype s.uplo s.diag m n ld (-1) with
  | .ok t => t.offs
  | _ => []

/-- a reshape: pack the producer's tile with the source shape, unpack with the destination shape into the fresh copy -/
def reshape (s d : Shape) (m n ld : Nat) (src init : Mem) : Mem :=
  sendrecv (typeOffs s m n ld) (typeOffs d m n ld) src init

/-- MPI precondition of the transfer (otherwise `MPI_ERR_TRUNCATE`) -/
def fits (s d : Shape) (m n ld : Nat) : Prop := (typeOffs s m n ld).length ≤ (typeOffs d m n ld).length
instance (s d : Shape) (m n ld : Nat) : Decidable (fits s d m n ld) := by unfold fits; infer_instance

/-- memory footprint of an `m × n` tile with leading dimension `ld` -/
def footprint (m n ld : Nat) : Nat := (n - 1) * ld + m

/-! ## Part 2 — copies, futures, fulfilment

`Future.DState` is C29's machine (base future + nested futures, locks, deferred sets, any number of threads).  A request
`r` encodes the pair (source type, destination type) of `parsec_dep_data_description_t.local`; `cfg.cls` is
`parsec_reshape_check_match_datatypes`.  The heap maps the value tracked by a future (a copy handle) to the copy's
contents.  A step of the heap machine is a step of C29's machine followed by the memory effect of the fulfilments that
completed in it: `reshape_copy_allocate` (a fresh copy, appended) and `parsec_ce.reshape` into that copy. -/
open ParsecVerif.Future

/-- what a fulfilment needs: the producer's tile, the contents of fresh arena memory, the tile geometry and the
    decoding of a request into its (source, destination) shapes -/
structure Env where
  tile : Mem
  fresh : Mem
  m : Nat
  n : Nat
  ld : Nat
  srcOf : Nat → Shape
  dstOf : Nat → Shape

/-- contents of the copy produced by fulfilling a future of shape (request) `r` -/
def copyFor (env : Env) (r : Nat) : Mem :=
  reshape (env.srcOf r) (env.dstOf r) env.m env.n env.ld env.tile env.fresh

structure HState where
  d : DState
  heap : List (Nat × Mem)      -- (handle, contents), allocation order; entry 0 = the producer's copy

def hasKey (heap : List (Nat × Mem)) (v : Nat) : Bool := heap.any (fun e => e.1 = v)

/-- memory effect of a completion: the first time a future shows a tracked value (COMPLETED) that is not yet a copy
    of the heap, that copy is allocated at the end of the heap (`reshape_copy_allocate`) with the contents written by
    `parsec_ce.reshape`; nothing else is touched -/
def addIfNew (env : Env) (heap : List (Nat × Mem)) (fu : Fut) : List (Nat × Mem) :=
  if fu.compl = true ∧ hasKey heap fu.data = false then heap ++ [(fu.data, copyFor env fu.shape)] else heap

def hstep (cfg : Cfg) (env : Env) (s : HState) (t : Nat) : HState :=
  { d := dstep cfg s.d t, heap := (dstep cfg s.d t).futs.foldl (addIfNew env) s.heap }

/-- initial state: the base promise tracks the producer's copy (a fulfilled promise, `pre = true`) or is an
    unfulfilled promise for shape `b`; the producer's tile is the first heap entry (handle 0 is never a future value) -/
def hinit (env : Env) (b : Nat) (pre : Bool) (progs : List (List DOp)) : HState :=
  { d := dinit b pre progs, heap := [(if pre then valOf 1 b else 0, env.tile)] }

def hrun (cfg : Cfg) (env : Env) (b : Nat) (pre : Bool) (progs : List (List DOp)) (sched : List Nat) : HState :=
  sched.foldl (hstep cfg env) (hinit env b pre progs)

/-- contents of the copy with handle `v` (first allocation with that handle) -/
def lookup (heap : List (Nat × Mem)) (v : Nat) : Option Mem :=
  (heap.find? (fun e => e.1 = v)).map (·.2)

/-! ## Part 3 — interpreter of generated producer / fan-out programs -/

/-- type ids of the harness (harness/C18.c): 0 DEFAULT 1 LO 2 LON 3 UP 4 UPN 5 FULL2 6 LO2 7 DC (collection default) -/
def shapeOf (ty : Nat) : Shape :=
  if ty = 1 ∨ ty = 6 then ⟨LOWER, 1⟩
  else if ty = 2 then ⟨LOWER, 0⟩
  else if ty = 3 then ⟨UPPER, 1⟩
  else if ty = 4 then ⟨UPPER, 0⟩
  else ⟨FULL, 1⟩

def tyName (ty : Nat) : String :=
  match ty with
  | 0 => "DEFAULT" | 1 => "LO" | 2 => "LON" | 3 => "UP" | 4 => "UPN" | 5 => "FULL2" | 6 => "LO2" | 7 => "DC" | _ => "unknown"

def DCTY : Nat := 7
def NTY : Nat := 7     -- ids a JDF may name: 0 .. 6

/-- one consumer class: `-> A Ci(k, 0 .. fan-1) [type=ot type_remote=orr]`, `READ A <- A PROD(k) [type=it type_remote=ir]`,
    placed on `descA(k + shift)` -/
structure Cons where
  ot : Option Nat
  orr : Option Nat
  it : Option Nat
  ir : Option Nat
  fan : Nat
  shift : Nat
deriving Repr, DecidableEq

structure Prog where
  mb : Nat
  nb : Nat
  ld : Nat
  nt : Nat
  pt : Option Nat      -- `RW A <- descA(k) [type = pt type_data = ptd]`
  ptd : Option Nat
  cons : List Cons
deriving Repr

def POISON : Int := -7777
def prodVal (k i : Nat) : Int := 1000 * ((k : Int) + 1) + i
def initVal (t i : Nat) : Int := 500000 + 1000 * (t : Int) + i

def tileLen (p : Prog) : Nat := p.ld * p.nb
def offsOf (p : Prog) (ty : Nat) : List Nat := typeOffs (shapeOf ty) p.mb p.nb p.ld
def freshMem (p : Prog) : Mem := List.replicate (tileLen p) POISON
def initTile (p : Prog) (k : Nat) : Mem := (List.range (tileLen p)).map (initVal k)

/-- a copy: the handle of its datatype and its contents -/
structure Copy where
  dtt : Nat
  mem : Mem
deriving Repr, DecidableEq

/-- what the producer receives: the collection's tile, or (typed read from the collection, jdf2c rules (1)-(3))
    a fresh copy: pack with `type_data` (else the tile's type), unpack with `type` (else `type_data`) -/
def prodIn (p : Prog) (k : Nat) : Copy :=
  match p.pt, p.ptd with
  | none, none => ⟨DCTY, initTile p k⟩
  | pt, ptd =>
    let st := ptd.getD DCTY
    let dt := pt.getD (ptd.getD DCTY)
    ⟨dt, sendrecv (offsOf p st) (offsOf p dt) (initTile p k) (freshMem p)⟩

/-- the producer's body writes `prodVal` into every element of the `mb × nb` tile it holds -/
def bodyWrite (p : Prog) (k : Nat) (m : Mem) : Mem :=
  (offsOf p 0).foldl (fun acc o => acc.set o (prodVal k o)) m

/-- the copy the producer holds when it releases its dependencies -/
def prodOut (p : Prog) (k : Nat) : Copy := ⟨(prodIn p k).dtt, bodyWrite p k (prodIn p k).mem⟩

/-- the collection's tile after the run -/
def finalTile (p : Prog) (k : Nat) : Mem :=
  match p.pt, p.ptd with
  | none, none => (prodOut p k).mem
  | _, _ => initTile p k

def rankOf (w k : Nat) : Nat := k % w

/-- is class `c` local to the producer instance `k` on `w` ranks -/
def isLocal (w k : Nat) (c : Cons) : Bool := rankOf w (k + c.shift) = rankOf w k

/-- order of the output dependencies after `jdf_reorder_dep_list_by_type`: grouped by local type in order of first
    appearance, the untyped group first.  Returns class indices. -/
def groupsInOrder : List (Option Nat) → List (Option Nat) → List (Option Nat)
  | [], acc => acc.reverse
  | t :: ts, acc => if acc.contains t then groupsInOrder ts acc else groupsInOrder ts (t :: acc)

def sortedDeps (p : Prog) : List Nat :=
  let idx := List.range p.cons.length
  let ots := p.cons.map (·.ot)
  let groups := groupsInOrder ots []
  let groups := if groups.contains none then none :: groups.filter (· ≠ none) else groups
  groups.flatMap (fun g => idx.filter (fun i => ots[i]? = some g))

/-- the promise every local successor of PROD(k) ends up with: `parsec_set_up_reshape_promise` is called for the
    dependencies in `sortedDeps` order with ONE `data.data_future` per flow that is never reset when the type
    changes, so the promise created for the first local dependency is reused by all the others -/
def firstLocalType (p : Prog) (w k : Nat) : Option (Option Nat) :=
  ((sortedDeps p).filterMap (fun i => match p.cons[i]? with
    | some c => if isLocal w k c then some c.ot else none
    | none => none)).head?

/-- base promise for an output type `ot` on producer copy `pc`: (match type, source type, tracked copy, is it the producer's own copy) -/
def basePromise (p : Prog) (pc : Copy) (ot : Option Nat) : Nat × Copy × Bool :=
  match ot with
  | none => (pc.dtt, pc, true)
  | some t => if t = pc.dtt then (pc.dtt, pc, true)
              else (t, ⟨t, sendrecv (offsOf p t) (offsOf p t) pc.mem (freshMem p)⟩, false)

/-- identity of a copy inside one (producer instance, rank): who shares with whom -/
inductive CopyId
  | prod                      -- the producer's own copy
  | base                      -- the copy of the (unfulfilled) base promise
  | nested (ty : Nat)         -- nested future for input type `ty`
  | recv (g : Nat)            -- typed reception for output group `g`
  | unpacked (g run : Nat)    -- packed reception, `run`-th run of equal receive types
deriving Repr, DecidableEq

/-- what a LOCAL consumer of class `c` sees, the base promise having been created for output type `ot` -/
def localView (p : Prog) (pc : Copy) (ot : Option Nat) (c : Cons) : Copy × CopyId :=
  let b := basePromise p pc ot
  match c.it with
  | none => (b.2.1, if b.2.2 then .prod else .base)
  | some t =>
    if t = b.1 then (b.2.1, if b.2.2 then .prod else .base)
    else (⟨t, sendrecv (offsOf p b.1) (offsOf p t) pc.mem (freshMem p)⟩, .nested t)

/-- as coded: the output type is the one of the first local dependency -/
def localViewCoded (p : Prog) (w k : Nat) (c : Cons) : Copy × CopyId :=
  localView p (prodOut p k) ((firstLocalType p w k).getD c.ot) c

/-- as documented (CHANGELOG.ptg.md, comments of parsec_reshape.c): the output type is the dependency's own -/
def localViewDoc (p : Prog) (k : Nat) (c : Cons) : Copy × CopyId :=
  localView p (prodOut p k) c.ot c

/-- remote side.  Output group of a class = (type, type_remote) of its output dependency (`dep_datatype_index`). -/
def sameGroup (a b : Cons) : Bool := a.ot = b.ot ∧ a.orr = b.orr

def recvType (c : Cons) : Nat := c.ir.getD 0

/-- the classes (indices, dependency order) of `c`'s output group whose instances for `k` run on `c`'s rank -/
def groupMembers (p : Prog) (w k : Nat) (c : Cons) : List Nat :=
  (sortedDeps p).filter (fun i => match p.cons[i]? with
    | some d => sameGroup c d ∧ rankOf w (k + d.shift) = rankOf w (k + c.shift)
    | none => false)

/-- index of the first class of the group in `sortedDeps` (names the group) -/
def groupId (p : Prog) (c : Cons) : Nat :=
  ((sortedDeps p).findIdx? (fun i => match p.cons[i]? with | some d => sameGroup c d | none => false)).getD 0

def recvTypeAt (p : Prog) (i : Nat) : Nat := match p.cons[i]? with | some d => recvType d | none => 0

/-- run number of class `ci` among the members: a new run starts whenever the receive type differs from the previous member's -/
def runIndex (p : Prog) : List Nat → Nat → Option Nat → Nat → Nat
  | [], _, _, n => n
  | d :: ds, ci, prev, n =>
    let n' := match prev with
      | none => n
      | some t => if t = recvTypeAt p d then n else n + 1
    if d = ci then n' else runIndex p ds ci (some (recvTypeAt p d)) n'

/-- what a REMOTE consumer of class `ci` sees: the stream packed with the output `type_remote` (else the copy's own
    type), unpacked with the input `type_remote` (else DEFAULT) into a fresh copy of that arena; one typed reception
    per group when all its members agree on the receive type, otherwise a packed reception and one unpack per run -/
def remoteView (p : Prog) (w k ci : Nat) (c : Cons) : Copy × CopyId :=
  let pc := prodOut p k
  let st := c.orr.getD pc.dtt
  let rt := recvType c
  let mem := sendrecv (offsOf p st) (offsOf p rt) pc.mem (freshMem p)
  let ms := groupMembers p w k c
  if ms.all (fun d => recvTypeAt p d = rt) then (⟨rt, mem⟩, .recv (groupId p c))
  else (⟨rt, mem⟩, .unpacked (groupId p c) (runIndex p ms ci none 0))

def view (p : Prog) (w k ci : Nat) : Copy × CopyId :=
  match p.cons[ci]? with
  | some c => if isLocal w k c then localViewCoded p w k c else remoteView p w k ci c
  | none => (⟨0, []⟩, .prod)

/-! ### envelope: which (program, configuration) pairs are inside the property's quantifier -/

def sizeOf (p : Prog) (ty : Nat) : Nat := (offsOf p ty).length

/-- every transfer the program can perform on `w` ranks obeys the MPI precondition (no truncation) -/
def noTrunc (p : Prog) (w : Nat) : Bool :=
  (match p.pt, p.ptd with
   | none, none => true
   | pt, ptd => decide (sizeOf p (ptd.getD DCTY) ≤ sizeOf p (pt.getD (ptd.getD DCTY)))) &&
  (List.range p.nt).all (fun k => p.cons.all (fun c =>
    let pc := prodOut p k
    if isLocal w k c then
      let ot := (firstLocalType p w k).getD c.ot
      let b := basePromise p pc ot
      (match c.it with
       | none => true
       | some t => t = b.1 || decide (sizeOf p b.1 ≤ sizeOf p t)) &&
      (match c.ot, c.it with      -- the documented semantics must be defined too
       | some o, some t => decide (sizeOf p o ≤ sizeOf p t)
       | none, some t => decide (sizeOf p pc.dtt ≤ sizeOf p t)
       | _, _ => true)
    else decide (sizeOf p (c.orr.getD pc.dtt) ≤ sizeOf p (recvType c))))

/-- F1: a producer instance whose LOCAL output dependencies carry two different `[type]` annotations -/
def mixedLocal (p : Prog) (w : Nat) : Bool :=
  (List.range p.nt).any (fun k => p.cons.any (fun c => isLocal w k c && (firstLocalType p w k).getD c.ot != c.ot))

/-- the documented unsupported case: with short messages, one output flow sent to one rank with several remote shapes -/
def shortMulti (p : Prog) (w : Nat) : Bool :=
  (List.range p.nt).any (fun k => p.cons.any (fun c => p.cons.any (fun d =>
    !isLocal w k c && !isLocal w k d && rankOf w (k + c.shift) = rankOf w (k + d.shift) && !sameGroup c d)))

/-- with short messages a typed reception of a different size is converted to bytes (remote_dep_mpi.c): excluded -/
def shortSize (p : Prog) (w : Nat) : Bool :=
  (List.range p.nt).any (fun k => p.cons.any (fun c =>
    !isLocal w k c && sizeOf p (c.orr.getD (prodOut p k).dtt) != sizeOf p (recvType c)))

/-- ranks (≠ the producer's) reached by the output group of class `c` for producer instance `k` -/
def groupRanks (p : Prog) (w k : Nat) (c : Cons) : List Nat :=
  ((p.cons.filter (fun d => sameGroup c d && !isLocal w k d)).map (fun d => rankOf w (k + d.shift))).eraseDups

/-- the destination sets of the remote output groups of some producer instance differ: with the chain / binomial
    propagation a relay then does not forward an output it does not consume (finding of C13); such configurations are
    run with the star propagation (`runtime_comm_coll_bcast = 0`) -/
def diffSets (p : Prog) (w : Nat) : Bool :=
  (List.range p.nt).any (fun k => p.cons.any (fun c => p.cons.any (fun d =>
    !isLocal w k c && !isLocal w k d &&
    !((groupRanks p w k c).all (fun r => (groupRanks p w k d).contains r) &&
      (groupRanks p w k d).all (fun r => (groupRanks p w k c).contains r)))))

/-- does the group of `c` need a PACKED reception on `c`'s rank (its members there disagree on the receive type) -/
def needsPacked (p : Prog) (w k : Nat) (c : Cons) : Bool :=
  !((groupMembers p w k c).all (fun d => recvTypeAt p d = recvType c))

/-- F2: without short messages, a rank receives two outputs of one flow from one producer instance, one of them PACKED:
    `parsec_create_reshape_promise` triggers the PACKED promise with a NULL execution stream (crash) -/
def packedMulti (p : Prog) (w : Nat) : Bool :=
  (List.range p.nt).any (fun k => p.cons.any (fun c => p.cons.any (fun d =>
    !isLocal w k c && !isLocal w k d && rankOf w (k + c.shift) = rankOf w (k + d.shift) && !sameGroup c d &&
    (needsPacked p w k c || needsPacked p w k d))))

def wellFormed (p : Prog) : Bool :=
  decide (1 ≤ p.mb ∧ 1 ≤ p.nb ∧ p.mb ≤ p.ld ∧ 1 ≤ p.nt ∧ p.ld * p.nb ≤ 400) &&
  p.cons.all (fun c => decide (1 ≤ c.fan ∧ c.fan ≤ 8) &&
    [c.ot, c.orr, c.it, c.ir].all (fun o => match o with | none => true | some t => decide (t < NTY))) &&
  [p.pt, p.ptd].all (fun o => match o with | none => true | some t => decide (t < NTY))

/-! ### printing (same strings as harness/C18.c) -/

def mix (h : Nat) (x : Int) : Nat := (h * 31 + (x % 4294967296).toNat) % 1000003

def showInts (l : List Int) : String := " ".intercalate (l.map toString)

def regionOfDecl (decl i j : Nat) : Bool :=
  if decl = 1 ∨ decl = 6 then decide (j ≤ i)
  else if decl = 2 then decide (j < i)
  else if decl = 3 then decide (i ≤ j)
  else if decl = 4 then decide (i < j)
  else true

/-- the two checksums of a view: elements of the declared region / all the other cells of the footprint -/
def checksums (p : Prog) (decl : Nat) (m : Mem) : Nat × Nat :=
  let foot := footprint p.mb p.nb p.ld
  (List.range p.nb).foldl (fun acc j =>
    (List.range p.ld).foldl (fun acc i =>
      let x := j * p.ld + i
      if x ≥ foot then acc
      else if i < p.mb ∧ regionOfDecl decl i j then (mix (mix acc.1 x) (rd m x), acc.2)
      else (acc.1, mix (mix acc.2 x) (rd m x))) acc) (17, 17)

def declOf (c : Cons) : Nat :=
  match c.it, c.ir, c.ot, c.orr with
  | some t, _, _, _ => t
  | none, some t, _, _ => t
  | none, none, some t, _ => t
  | none, none, none, some t => t
  | none, none, none, none => 0

def showMem (p : Prog) (m : Mem) : String := showInts (m.take (footprint p.mb p.nb p.ld))

def showView (p : Prog) (w k ci : Nat) (c : Cons) : String :=
  let v := (view p w k ci).1
  let cs := checksums p (declOf c) v.mem
  s!"r{rankOf w (k + c.shift)} d{tyName v.dtt} s{cs.1} u{cs.2} : {showMem p v.mem}"

def showProd (p : Prog) (w k : Nat) : String :=
  s!"r{rankOf w k} d{tyName (prodIn p k).dtt} : {showMem p (prodIn p k).mem}"

def showFinal (p : Prog) (w k : Nat) : String := s!"r{rankOf w k} : {showMem p (finalTile p k)}"

/-- members of the sharing partition on rank `r` for producer instance `k`: (label, copy identity); the producer first,
    then the consumers in (class, t) order -/
def shareMembers (p : Prog) (w k r : Nat) : List (String × CopyId) :=
  (if rankOf w k = r then [("P", CopyId.prod)] else []) ++
  ((List.range p.cons.length).flatMap (fun i => match p.cons[i]? with
    | some c => if rankOf w (k + c.shift) = r then (List.range c.fan).map (fun t => (s!"{i}.{t}", (view p w k i).2)) else []
    | none => []))

def groupBy : List (String × CopyId) → List (CopyId × List String) → List (CopyId × List String)
  | [], acc => acc
  | (l, id) :: rest, acc =>
    if acc.any (fun g => g.1 = id) then groupBy rest (acc.map (fun g => if g.1 = id then (g.1, g.2 ++ [l]) else g))
    else groupBy rest (acc ++ [(id, [l])])

def showShare (p : Prog) (w k r : Nat) : String :=
  let gs := groupBy (shareMembers p w k r) []
  let tileShared := match p.pt, p.ptd with | none, none => true | _, _ => false
  "|".intercalate (gs.map (fun g => ",".intercalate g.2 ++ (if decide (g.1 = CopyId.prod) && tileShared then "@tile" else "")))

end ParsecVerif.Reshape
