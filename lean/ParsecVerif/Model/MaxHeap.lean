/-
  Model of the scheduler max-heap of parsec/maxheap.c.

  The real heap is a binary tree of tasks linked through `list_prev` (= LEFT child) and `list_next`
  (= RIGHT child), kept LEFT-COMPLETE; the code finds the last / the next free position by the bits
  of `heap->size` below its highest bit (most significant first: 1 = right, 0 = left).  The model is
  an algebraic tree plus the `size` and `priority` fields, manipulated by functional mirrors of

    heap_insert            `insert`   : size++, walk along `pathBits size`, attach, bubble up along
                                        the saved `parents[]` (strict `>` comparison)
    heap_remove            `remove`   : 1 node → heap destroyed; 2 nodes → left child becomes the top;
                                        ≥ 3 nodes → detach the last node (walk along `pathBits size`),
                                        make it the top, bubble down with the code's tie rules
                                        (left if `prev > bubbler && prev >= next`, else right if
                                        `next > bubbler && next > prev`)
    heap_split_and_steal   `split`    : returns the top; 1 node → destroyed; 2 nodes → left child;
                                        ≥ 3 nodes → new heap = left subtree, heap = right subtree, sizes
                                        by the `hiBit` / `twoBit` formulas

  The integer helpers are literal: `hiBit` is the or/shift cascade, the mask loops are loops.
  `unsigned int` fields are naturals; the theorems assume sizes below 2^31 (the `bitmask <<= 1` loop of
  the real code does not terminate from 2^31 on).
-/
namespace ParsecVerif.MaxHeap

/-- a fabricated task: (priority, identity).  `priority` is `int32_t` in parsec_task_t. -/
structure Task where
  prio : Int
  id : Nat
deriving DecidableEq, Repr

inductive Tree
  | nil
  | node (l : Tree) (x : Task) (r : Tree)
deriving DecidableEq, Repr

namespace Tree
def leaf (x : Task) : Tree := .node .nil x .nil
def root? : Tree → Option Task
  | .nil => none
  | .node _ x _ => some x
def elems : Tree → List Task
  | .nil => []
  | .node l x r => x :: (elems l ++ elems r)
def size : Tree → Nat
  | .nil => 0
  | .node l _ r => size l + size r + 1
def isNil : Tree → Bool
  | .nil => true
  | .node .. => false
end Tree
open Tree

/-! ## integer helpers, literal -/

/-- `static inline int hiBit(unsigned int n)` -/
def hiBit (n : Nat) : Nat :=
  let n1 := n ||| (n >>> 1)
  let n2 := n1 ||| (n1 >>> 2)
  let n3 := n2 ||| (n2 >>> 4)
  let n4 := n3 ||| (n3 >>> 8)
  let n5 := n4 ||| (n4 >>> 16)
  n5 - (n5 >>> 1)

/-- `~highBit & size` on 32-bit unsigned -/
def andNot32 (highBit size : Nat) : Nat := (highBit ^^^ 4294967295) &&& size

/-- `bitmask = 1; while (bitmask <= size) bitmask = bitmask << 1;` -/
def primeLoop : Nat → Nat → Nat → Nat
  | 0, bm, _ => bm
  | f + 1, bm, size => if bm ≤ size then primeLoop f (bm * 2) size else bm

def prime (size : Nat) : Nat := primeLoop (size + 1) 1 size

/-- `while (bitmask > 1) { dir = bitmask & size; bitmask >>= 1; }  last dir = bitmask & size`:
    the directions taken from the top to the last node (true = `list_next` = right) -/
def dirsLoop (size : Nat) : Nat → Nat → List Bool
  | 0, _ => []
  | f + 1, bm =>
    if bm > 1 then (bm &&& size != 0) :: dirsLoop size f (bm >>> 1) else [bm &&& size != 0]

/-- directions from the top to position `size` (used for `size ≥ 2` only) -/
def pathBits (size : Nat) : List Bool := dirsLoop size (size + 1) (prime size >>> 2)

/-! ## heap_insert -/

/-- the element (flag `true`: it sits at the root of the subtree and is still bubbling) meets the
    parent `x` whose other child is `o`; `right` = the subtree is x's `list_next`. -/
def bubble (right : Bool) (o : Tree) (x : Task) (c : Tree × Bool) : Tree × Bool :=
  match c.2, c.1 with
  | true, .node cl e cr =>
    if e.prio > x.prio then
      -- swap: the parent takes the element's children, the element takes the parent's place
      (if right then .node o e (.node cl x cr) else .node (.node cl x cr) e o, true)
    else (if right then .node o x c.1 else .node c.1 x o, false)
  | _, _ => (if right then .node o x c.1 else .node c.1 x o, false)

/-- walk along the directions, attach the element, bubble it up on the way back -/
def insPath (e : Task) : List Bool → Tree → Tree × Bool
  | [], _ => (leaf e, true)                  -- `parent->list_next/prev = elem`
  | _ :: _, .nil => (.nil, false)            -- not reachable on a left-complete heap (NULL dereference)
  | b :: bs, .node l x r =>
    if b then bubble true l x (insPath e bs r) else bubble false r x (insPath e bs l)

structure Heap where
  size : Nat
  prio : Int          -- heap->priority, read back as `int` by the hbbuffer comparison macros
  t : Tree
deriving DecidableEq, Repr

def topPrio (t : Tree) (dflt : Int) : Int :=
  match t with
  | .nil => dflt
  | .node _ x _ => x.prio

/-- heap_create: calloc -/
def create : Heap := ⟨0, 0, .nil⟩

def insert (h : Heap) (e : Task) : Heap :=
  let size := h.size + 1
  let t := if size = 1 then leaf e else (insPath e (pathBits size) h.t).1
  ⟨size, topPrio t h.prio, t⟩

/-! ## heap_remove -/

/-- detach the node at the end of the path; returns the remaining tree and the detached task -/
def detachPath : List Bool → Tree → Tree × Option Task
  | _, .nil => (.nil, none)
  | [], .node _ x _ => (.nil, some x)
  | b :: bs, .node l x r =>
    if b then (.node l x (detachPath bs r).1, (detachPath bs r).2)
    else (.node (detachPath bs l).1 x r, (detachPath bs l).2)

/-- `sift b t`: the root of `t` is replaced by `b`, which then bubbles down -/
def sift (b : Task) : Tree → Tree
  | .nil => .nil
  | .node l _ r =>
    match l.root?, r.root? with
    | some p, none =>
      if p.prio > b.prio then .node (sift b l) p r else .node l b r
    | some p, some n =>
      if p.prio > b.prio ∧ p.prio ≥ n.prio then .node (sift b l) p r
      else if n.prio > b.prio ∧ n.prio > p.prio then .node l n (sift b r)
      else .node l b r
    | none, some n =>
      if n.prio > b.prio then .node l n (sift b r) else .node l b r
    | none, none => .node l b r

/-- result of heap_remove / heap_split_and_steal on a non-NULL heap with a top -/
structure Out where
  heap : Option Heap       -- *heap_ptr afterwards (none = destroyed)
  fresh : Option Heap      -- *new_heap_ptr (split only)
  ret : Task

def remove (h : Heap) : Option Out :=
  match h.t with
  | .nil => none                                   -- assert(heap->top != NULL)
  | .node .nil x _ => some ⟨none, none, x⟩          -- no left child: 'top' is the only node
  | .node l x .nil => some ⟨some ⟨h.size - 1, topPrio l h.prio, l⟩, none, x⟩
  | .node l x r =>
    let d := detachPath (pathBits h.size) (.node l x r)
    match d.2 with
    | none => none                                 -- not reachable on a left-complete heap
    | some last =>
      let t := sift last d.1
      some ⟨some ⟨h.size - 1, topPrio t h.prio, t⟩, none, x⟩

/-! ## heap_split_and_steal -/

/-- the sizes written by the `size >= 3` branch: (new heap = left subtree, heap = right subtree) -/
def splitSizes (size : Nat) : Nat × Nat :=
  let highBit := hiBit size
  let twoBit := highBit >>> 1
  if twoBit &&& size != 0 then
    (size - andNot32 highBit size - 1, andNot32 highBit size)
  else
    (andNot32 highBit size + twoBit, size - (andNot32 highBit size + twoBit) - 1)

def split (h : Heap) : Option Out :=
  match h.t with
  | .nil => none
  | .node .nil x _ => some ⟨none, none, x⟩
  | .node l x .nil => some ⟨some ⟨h.size - 1, topPrio l h.prio, l⟩, none, x⟩
  | .node l x r =>
    some ⟨some ⟨(splitSizes h.size).2, topPrio r h.prio, r⟩,
          some ⟨(splitSizes h.size).1, topPrio l 0, l⟩, x⟩

/-! ## a pool of heaps driven by a script (what the harness does) -/

inductive Op
  | new (h : Nat)                       -- slot h := heap_create()
  | ins (h : Nat) (e : Task)            -- heap_insert(slot h, e)
  | rem (h : Nat)                       -- heap_remove(&slot h)
  | split (h g : Nat)                   -- heap_split_and_steal(&slot h, &slot g)
deriving Repr

structure St where
  heaps : List (Option Heap)
  inserted : List Task      -- ghost: every task ever inserted
  returned : List Task      -- ghost: every task ever returned by remove / split

inductive Res
  | ok
  | task (x : Task)
  | null
  | rejected
deriving Repr, DecidableEq

def liveIds (s : St) : List Nat :=
  (s.heaps.map fun o => match o with | none => [] | some h => h.t.elems.map (·.id)).flatten

def slot (s : St) (h : Nat) : Option Heap := (s.heaps[h]?).join

def applyOut (s : St) (h : Nat) (g : Option Nat) (o : Out) : St :=
  let hs := s.heaps.set h o.heap
  { s with heaps := (match g with | some g => hs.set g o.fresh | none => hs),
           returned := o.ret :: s.returned }

/-- one call; calls outside the precondition of the C API are rejected (not issued) -/
def step (s : St) : Op → St × Res
  | .new h =>
    if h < s.heaps.length ∧ slot s h = none then ({ s with heaps := s.heaps.set h (some create) }, .ok)
    else (s, .rejected)
  | .ins h e =>
    match slot s h with
    | some hp =>
      if e.id ∈ liveIds s then (s, .rejected)
      else ({ s with heaps := s.heaps.set h (some (insert hp e)), inserted := e :: s.inserted }, .ok)
    | none => (s, .rejected)
  | .rem h =>
    if h < s.heaps.length then
      match slot s h with
      | none => (s, .null)                         -- heap_remove(&NULL) returns NULL
      | some hp =>
        match remove hp with
        | some o => (applyOut s h none o, .task o.ret)
        | none => (s, .rejected)                   -- empty heap object: assert(heap->top != NULL)
    else (s, .rejected)
  | .split h g =>
    if h < s.heaps.length ∧ g < s.heaps.length ∧ h ≠ g ∧ slot s g = none then
      match slot s h with
      | none => (s, .null)
      | some hp =>
        match split hp with
        | some o => (applyOut s h (some g) o, .task o.ret)
        | none => (s, .rejected)
    else (s, .rejected)

def init (n : Nat) : St := ⟨List.replicate n none, [], []⟩

def run (s : St) (ops : List Op) : St := ops.foldl (fun s o => (step s o).1) s

end ParsecVerif.MaxHeap
