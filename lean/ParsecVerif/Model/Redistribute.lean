/-
  Model of parsec/data_dist/matrix/redistribute (C21).

  Files mirrored
    redistribute_internal.h   getsize, redistribute_distribution_num_cols, redistribute_pair_num_cols,
                              redistribute_region_is_stored, MOVE_SUBMATRIX*, CORE_redistribute_reshuffle_copy
    redistribute_wrapper.c    parsec_redistribute_New: argument validation, batch size, the predicate that
                              selects the optimised (reshuffle) taskpool, NT
    redistribute.jdf          the hidden globals, the task space and the derived locals of
                              Init/Send/Update/Receive, CORE_redistribute_send, CORE_redistribute_update (R = 0)
    redistribute_reshuffle.jdf  globals, the task spaces of Send/Receive, the body of Receive

  All quantities are `Nat`: every C operand is a non-negative `int` after the wrapper's validation (the
  wrapper itself is modelled on `Int` inputs, `validate`).  `Nat` subtraction truncates, C subtraction does
  not: theorem `Redistribute.no_underflow` (Proofs) shows that every subtraction evaluated on a taken branch
  has a non-negative result, so both readings agree.  `int` overflow is not modelled (assumption).

  One dimension (rows or columns) of the general algorithm is a `Dim`; the JDF computes the row and the
  column quantities with textually identical expressions, so each JDF expression is modelled once.
-/
namespace ParsecVerif.Redistribute

/-! ## redistribute_internal.h -/

/-- `getsize(index, index_start, index_end, mb, size, dis)` -/
def getsize (index iS iE mb size dis : Nat) : Nat :=
  if iS = iE then size
  else if index = iS then mb - dis
  else if index = iE then size + dis - (iE - iS) * mb
  else mb

/-- One dimension of a redistribution request.  `bY`,`bT` are `mb_Y_INNER`,`mb_T_INNER` (= tile sizes, R = 0). -/
structure Dim where
  bY : Nat
  bT : Nat
  size : Nat
  dY : Nat
  dT : Nat
deriving Repr, DecidableEq

namespace Dim

/-- `m_T_START = disi_T / mb_T_INNER` -/
def tStart (d : Dim) : Nat := d.dT / d.bT
/-- `m_T_END = (size_row + disi_T - 1) / mb_T_INNER` -/
def tEnd (d : Dim) : Nat := (d.size + d.dT - 1) / d.bT
/-- `mb_T_inner = getsize(m_T, m_T_START, m_T_END, mb_T_INNER, size_row, disi_T % mb_T_INNER)` -/
def tInner (d : Dim) (t : Nat) : Nat := getsize t d.tStart d.tEnd d.bT d.size (d.dT % d.bT)
/-- `sizei_T = (m_T - m_T_START) * mb_T_INNER - disi_T % mb_T_INNER` -/
def sizeT (d : Dim) (t : Nat) : Nat := (t - d.tStart) * d.bT - d.dT % d.bT
/-- `i_start = (m_T == m_T_START) ? disi_Y % mb_Y_INNER : (sizei_T + disi_Y) % mb_Y_INNER` -/
def iStart (d : Dim) (t : Nat) : Nat :=
  if t = d.tStart then d.dY % d.bY else (d.sizeT t + d.dY) % d.bY
/-- `m_Y_start = (m_T == m_T_START) ? disi_Y / mb_Y_INNER : (sizei_T + disi_Y) / mb_Y_INNER` -/
def yStart (d : Dim) (t : Nat) : Nat :=
  if t = d.tStart then d.dY / d.bY else (d.sizeT t + d.dY) / d.bY
/-- `m_Y_end = (m_T == m_T_START) ? (disi_Y + mb_T_inner - 1) / mb_Y_INNER
                                 : (sizei_T + disi_Y + mb_T_inner - 1) / mb_Y_INNER` -/
def yEnd (d : Dim) (t : Nat) : Nat :=
  if t = d.tStart then (d.dY + d.tInner t - 1) / d.bY else (d.sizeT t + d.dY + d.tInner t - 1) / d.bY
/-- `TL_row = imin(mb_T_inner, mb_Y_INNER - i_start)` -/
def tl (d : Dim) (t : Nat) : Nat := min (d.tInner t) (d.bY - d.iStart t)
/-- `BR_row = (i_start + mb_T_inner - 1) % mb_Y_INNER + 1` -/
def br (d : Dim) (t : Nat) : Nat := (d.iStart t + d.tInner t - 1) % d.bY + 1
/-- `offset_row = (m_T == m_T_START) ? disi_T % mb_T_INNER + R : R`   (Update BODY, R = 0) -/
def offT (d : Dim) (t : Nat) : Nat := if t = d.tStart then d.dT % d.bT else 0

end Dim

/-! ## CORE_redistribute_update / CORE_redistribute_send

The arguments that concern one dimension are grouped in a `View`; the C functions take the row view and
the column view (`TL_row, BR_row, m_Y_start, m_Y_end, m_Y, i_start, mb_Y_INNER, offset_row` and the
column counterparts). -/

structure View where
  tl : Nat
  br : Nat
  ys : Nat
  ye : Nat
  y : Nat
  istart : Nat
  bY : Nat
  off : Nat
deriving Repr, DecidableEq

/-- A `MOVE_SUBMATRIX(m, n, S, S_i, S_j, S_lda, D, D_i, D_j, D_lda)` call: an `rows × cols` block, read at
    offset `(sI,sJ)` of the source tile (or of a packed buffer), written at offset `(dI,dJ)`. -/
structure Rect where
  rows : Nat
  cols : Nat
  sI : Nat
  sJ : Nat
  dI : Nat
  dJ : Nat
deriving Repr, DecidableEq

/-- `CORE_redistribute_update`, branch `rank_Y == rank_T` (reads the source tile in place).
    The nested `if / else if` chain of the C function; `none` = no branch taken (nothing copied). -/
def coreUpdate (r c : View) : Option Rect :=
  if r.y = r.ys then
    if c.y = c.ys then
      some ⟨r.tl, c.tl, r.istart, c.istart, r.off, c.off⟩                                   -- NW
    else if c.y > c.ys ∧ c.y < c.ye then
      some ⟨r.tl, c.bY, r.istart, 0, r.off, c.off + c.tl + (c.y - c.ys - 1) * c.bY⟩          -- N
    else if c.y = c.ye ∧ c.ys ≠ c.ye then
      some ⟨r.tl, c.br, r.istart, 0, r.off, c.off + c.tl + (c.ye - c.ys - 1) * c.bY⟩         -- NE
    else none
  else if r.y > r.ys ∧ r.y < r.ye then
    if c.y = c.ys then
      some ⟨r.bY, c.tl, 0, c.istart, r.off + r.tl + (r.y - r.ys - 1) * r.bY, c.off⟩          -- W
    else if c.y > c.ys ∧ c.y < c.ye then
      some ⟨r.bY, c.bY, 0, 0, r.off + r.tl + (r.y - r.ys - 1) * r.bY,
            c.off + c.tl + (c.y - c.ys - 1) * c.bY⟩                                          -- I
    else if c.y = c.ye ∧ c.ys ≠ c.ye then
      some ⟨r.bY, c.br, 0, 0, r.off + r.tl + (r.y - r.ys - 1) * r.bY,
            c.off + c.tl + (c.ye - c.ys - 1) * c.bY⟩                                         -- E
    else none
  else if r.y = r.ye ∧ r.ys ≠ r.ye then
    if c.y = c.ys then
      some ⟨r.br, c.tl, 0, c.istart, r.off + r.tl + (r.ye - r.ys - 1) * r.bY, c.off⟩         -- SW
    else if c.y > c.ys ∧ c.y < c.ye then
      some ⟨r.br, c.bY, 0, 0, r.off + r.tl + (r.ye - r.ys - 1) * r.bY,
            c.off + c.tl + (c.y - c.ys - 1) * c.bY⟩                                          -- S
    else if c.y = c.ye ∧ c.ys ≠ c.ye then
      some ⟨r.br, c.br, 0, 0, r.off + r.tl + (r.ye - r.ys - 1) * r.bY,
            c.off + c.tl + (c.ye - c.ys - 1) * c.bY⟩                                         -- SE
    else none
  else none

/-- `CORE_redistribute_send` (runs when `rank_Y != rank_T`): packs the block of the source tile into the
    flow's private buffer at offset (0,0) with leading dimension = `rows`.  There is no inner case: the
    inner block travels as the `INNER` datatype straight from the source tile (`packInner`). -/
def coreSend (r c : View) : Option Rect :=
  if r.y = r.ys then
    if c.y = c.ys then some ⟨r.tl, c.tl, r.istart, c.istart, 0, 0⟩
    else if c.y > c.ys ∧ c.y < c.ye then some ⟨r.tl, c.bY, r.istart, 0, 0, 0⟩
    else if c.y = c.ye ∧ c.ys ≠ c.ye then some ⟨r.tl, c.br, r.istart, 0, 0, 0⟩
    else none
  else if r.y > r.ys ∧ r.y < r.ye then
    if c.y = c.ys then some ⟨r.bY, c.tl, 0, c.istart, 0, 0⟩
    else if c.y = c.ye ∧ c.ys ≠ c.ye then some ⟨r.bY, c.br, 0, 0, 0, 0⟩
    else none
  else if r.y = r.ye ∧ r.ys ≠ r.ye then
    if c.y = c.ys then some ⟨r.br, c.tl, 0, c.istart, 0, 0⟩
    else if c.y > c.ys ∧ c.y < c.ye then some ⟨r.br, c.bY, 0, 0, 0, 0⟩
    else if c.y = c.ye ∧ c.ys ≠ c.ye then some ⟨r.br, c.br, 0, 0, 0, 0⟩
    else none
  else none

/-- The inner block sent by datatype (`type_remote = INNER`, `displ_remote = 8*(mb*R+R) = 0`):
    the whole `mb_Y_INNER × nb_Y_INNER` tile, received packed with leading dimension `mb_Y_INNER`. -/
def packInner (r c : View) : Option Rect :=
  if (r.y > r.ys ∧ r.y < r.ye) ∧ (c.y > c.ys ∧ c.y < c.ye) then some ⟨r.bY, c.bY, 0, 0, 0, 0⟩ else none

/-- `CORE_redistribute_update`, branch `rank_Y != rank_T`: `MOVE_SUBMATRIX_RECEIVE(rows, cols, BUF, 0, 0, rows, T, …)`.
    Same chain, same sizes and target offsets; the source is the packed buffer at (0,0). -/
def coreUpdateRemote (r c : View) : Option Rect :=
  (coreUpdate r c).map fun x => { x with sI := 0, sJ := 0 }

/-! ## Request, validation, path selection (redistribute_wrapper.c) -/

structure Params where
  mbY : Nat
  nbY : Nat
  mbT : Nat
  nbT : Nat
  sizeRow : Nat
  sizeCol : Nat
  diY : Nat
  djY : Nat
  diT : Nat
  djT : Nat
  numCol : Nat
deriving Repr, DecidableEq

namespace Params
def row (p : Params) : Dim := ⟨p.mbY, p.mbT, p.sizeRow, p.diY, p.diT⟩
def col (p : Params) : Dim := ⟨p.nbY, p.nbT, p.sizeCol, p.djY, p.djT⟩

/-- The test of `parsec_redistribute_New` (and of the destructor) that selects the reshuffle taskpool. -/
def optimized (p : Params) : Bool :=
  p.mbY == p.mbT && p.nbY == p.nbT && p.diY % p.mbY == 0 && p.djY % p.nbY == 0 &&
  p.diT % p.mbT == 0 && p.djT % p.nbT == 0

/-- `NT = (n_T_END - n_T_START) / num_col` (computed by the wrapper for both taskpools). -/
def nt (p : Params) : Nat := (p.col.tEnd - p.col.tStart) / p.numCol
/-- lower bound of `n_T` in batch `b`: `batch*num_col + n_T_START` -/
def batchLo (p : Params) (b : Nat) : Nat := b * p.numCol + p.col.tStart
/-- upper bound of `n_T` in batch `b`: `imin((batch+1)*num_col + n_T_START - 1, n_T_END)` -/
def batchHi (p : Params) (b : Nat) : Nat := min ((b + 1) * p.numCol + p.col.tStart - 1) p.col.tEnd
end Params

/-- Data distribution kinds accepted / refused by `redistribute_distribution_num_cols`. -/
inductive Kind where
  | bc (gridCols kcols : Nat)          -- parsec_matrix_block_cyclic_type: grid.cols * grid.kcols
  | tab (nodes : Nat)                  -- parsec_matrix_tabular_type
  | sbcLower (r : Nat)                 -- parsec_matrix_sbc_type, uplo = PARSEC_MATRIX_LOWER
  | sbcUpper (r : Nat)                 -- parsec_matrix_sbc_type, uplo = PARSEC_MATRIX_UPPER
  | other                              -- anything else (e.g. sym_block_cyclic): refused
deriving Repr, DecidableEq

/-- A tiled matrix descriptor as the wrapper sees it. -/
structure Desc where
  kind : Kind
  mb : Nat
  nb : Nat
  lmt : Nat
  lnt : Nat
deriving Repr, DecidableEq

def Kind.isTab : Kind → Bool
  | .tab _ => true
  | _ => false

/-- `redistribute_distribution_num_cols`; `ceil((double)size_col / nb)` is `(size_col + nb - 1) / nb`. -/
def distNumCols (d : Desc) (sizeCol : Nat) : Int :=
  match d.kind with
  | .tab nodes => if (sizeCol + d.nb - 1) / d.nb ≤ nodes then ((sizeCol + d.nb - 1) / d.nb : Nat) else nodes
  | .bc gc kc => gc * kc
  | .sbcLower r => r
  | .sbcUpper r => r
  | .other => -1

/-- `redistribute_pair_num_cols` -/
def pairNumCols (dY dT : Desc) (sizeCol : Nat) : Int :=
  if distNumCols dY sizeCol ≤ 0 ∨ distNumCols dT sizeCol ≤ 0 then -1
  else if dY.kind.isTab && dT.kind.isTab then distNumCols dY sizeCol
  else if dY.kind.isTab then distNumCols dT sizeCol
  else if dT.kind.isTab then distNumCols dY sizeCol
  else if distNumCols dY sizeCol ≥ distNumCols dT sizeCol then distNumCols dY sizeCol else distNumCols dT sizeCol

/-- `redistribute_region_is_stored` -/
def regionIsStored (d : Desc) (sizeRow sizeCol disi disj : Nat) : Bool :=
  match d.kind with
  | .sbcLower _ => decide (disi / d.mb ≥ (disj + sizeCol - 1) / d.nb)
  | .sbcUpper _ => decide (disj / d.nb ≥ (disi + sizeRow - 1) / d.mb)
  | _ => true

/-- Which taskpool `parsec_redistribute_New` builds. -/
inductive Path where
  | reshuffle
  | general
deriving Repr, DecidableEq

/-- The request as the taskpools see it (the wrapper passes its arguments through; `_g_num_col` is set to
    the result of `redistribute_pair_num_cols`). -/
def mkParams (dY dT : Desc) (sizeRow sizeCol diY djY diT djT : Int) : Params :=
  ⟨dY.mb, dY.nb, dT.mb, dT.nb, sizeRow.toNat, sizeCol.toNat, diY.toNat, djY.toNat, diT.toNat, djT.toNat,
   (pairNumCols dY dT sizeCol.toNat).toNat⟩

def pathOf (p : Params) : Path := if p.optimized then .reshuffle else .general

/-- `parsec_redistribute_New` up to the creation of the taskpool: `none` = NULL (request refused,
    `parsec_redistribute` returns PARSEC_ERR_NOT_SUPPORTED and touches nothing). -/
def validate (dY dT : Desc) (sizeRow sizeCol diY djY diT djT : Int) : Option (Params × Path) :=
  if sizeRow < 1 ∨ sizeCol < 1 then none
  else if diY < 0 ∨ djY < 0 ∨ diT < 0 ∨ djT < 0 then none
  else if diY + sizeRow > dY.lmt * dY.mb ∨ djY + sizeCol > dY.lnt * dY.nb then none
  else if diT + sizeRow > dT.lmt * dT.mb ∨ djT + sizeCol > dT.lnt * dT.nb then none
  else if !regionIsStored dY sizeRow.toNat sizeCol.toNat diY.toNat djY.toNat then none
  else if !regionIsStored dT sizeRow.toNat sizeCol.toNat diT.toNat djT.toNat then none
  else if pairNumCols dY dT sizeCol.toNat ≤ 0 then none
  else some (mkParams dY dT sizeRow sizeCol diY djY diT djT,
             pathOf (mkParams dY dT sizeRow sizeCol diY djY diT djT))

/-! ## Task spaces and the copies they issue -/

def rangeIncl (lo hi : Nat) : List Nat := (List.range (hi + 1 - lo)).map (· + lo)

/-- An instance of `Update(m_Y, n_Y, m_T, n_T, batch_col)` (redistribute.jdf) or of
    `Receive(m_T, n_T, batch)` (reshuffle; there `mY`,`nY` are the derived locals). -/
structure Task where
  batch : Nat
  mT : Nat
  nT : Nat
  mY : Nat
  nY : Nat
deriving Repr, DecidableEq

/-- One element copy in global element coordinates: target (ti,tj) ← source (si,sj). -/
structure ECopy where
  ti : Nat
  tj : Nat
  si : Nat
  sj : Nat
deriving Repr, DecidableEq

/-- Task space of `Update` (= of `Send`): the ranges of the JDF in declaration order. -/
def generalTasks (p : Params) : List Task :=
  (rangeIncl 0 p.nt).flatMap fun b =>
  (rangeIncl p.row.tStart p.row.tEnd).flatMap fun mT =>
  (rangeIncl (p.batchLo b) (p.batchHi b)).flatMap fun nT =>
  (rangeIncl (p.row.yStart mT) (p.row.yEnd mT)).flatMap fun mY =>
  (rangeIncl (p.col.yStart nT) (p.col.yEnd nT)).map fun nY => ⟨b, mT, nT, mY, nY⟩

/-- The view of one dimension that `Update`/`Send` pass to the CORE functions. -/
def Dim.view (d : Dim) (t y : Nat) : View :=
  ⟨d.tl t, d.br t, d.yStart t, d.yEnd t, y, d.iStart t, d.bY, d.offT t⟩

/-- The `MOVE_SUBMATRIX` executed by `Update(mY,nY,mT,nT,_)` when source and target tile are on the same rank. -/
def updateRect (p : Params) (k : Task) : Option Rect :=
  coreUpdate (p.row.view k.mT k.mY) (p.col.view k.nT k.nY)

/-- Element copies of a block between tile `(mY,nY)` of the source and tile `(mT,nT)` of the target
    (tile storage: element `(a,b)` of tile `(m,n)` is global element `(mb*m + a, nb*n + b)`). -/
def rectCopies (p : Params) (k : Task) (r : Rect) : List ECopy :=
  (List.range r.cols).flatMap fun b => (List.range r.rows).map fun a =>
    ⟨p.mbT * k.mT + r.dI + a, p.nbT * k.nT + r.dJ + b, p.mbY * k.mY + r.sI + a, p.nbY * k.nY + r.sJ + b⟩

/-- Which element of the source tile was packed at linear index `lin` of the flow's buffer by the send
    block `snd` (`D_i = D_j = 0`, `D_lda = snd.rows`: element `(a,b)` of the block is at `b * rows + a`).
    `none`: that index was never written. -/
def bufSrc (snd : Rect) (lin : Nat) : Option (Nat × Nat) :=
  if snd.rows = 0 then none
  else if lin % snd.rows < snd.rows ∧ lin / snd.rows < snd.cols then
    some (snd.sI + lin % snd.rows, snd.sJ + lin / snd.rows)
  else none

/-- Element copies through a packed buffer: `snd` fills the buffer from the source tile, `rcv` reads it
    with `S_lda = rcv.rows`.  A read of an index that was never written yields no copy (dropped), so a
    mismatch of the two shapes loses or misplaces elements. -/
def viaBuffer (p : Params) (k : Task) (snd rcv : Rect) : List ECopy :=
  (List.range rcv.cols).flatMap fun b => (List.range rcv.rows).filterMap fun a =>
    (bufSrc snd ((rcv.sJ + b) * rcv.rows + rcv.sI + a)).map fun s =>
      ⟨p.mbT * k.mT + rcv.dI + a, p.nbT * k.nT + rcv.dJ + b, p.mbY * k.mY + s.1, p.nbY * k.nY + s.2⟩

/-- Copies of one `Update` instance; `remote k` says whether `rank_Y != rank_T` for its two tiles. -/
def updateCopies (p : Params) (remote : Task → Bool) (k : Task) : List ECopy :=
  let r := p.row.view k.mT k.mY
  let c := p.col.view k.nT k.nY
  if remote k then
    match coreUpdateRemote r c, (coreSend r c).orElse (fun _ => packInner r c) with
    | some rcv, some snd => viaBuffer p k snd rcv
    | _, _ => []
  else
    match coreUpdate r c with
    | some x => rectCopies p k x
    | none => []

def generalCopies (p : Params) (remote : Task → Bool) (order : List Task) : List ECopy :=
  order.flatMap (updateCopies p remote)

/-! ### reshuffle -/

/-- `m_Y_START`, `m_Y_END` of redistribute_reshuffle.jdf (source side tile range). -/
def Dim.yStartR (d : Dim) : Nat := d.dY / d.bY
def Dim.yEndR (d : Dim) : Nat := (d.dY + d.size - 1) / d.bY
/-- `m_T_END` of the reshuffle JDF is `(disi_T + size_row - 1) / mb` (operands in the other order). -/
def Dim.tEndR (d : Dim) : Nat := (d.dT + d.size - 1) / d.bT

/-- `mb = (m_T == m_T_END) ? imin(descT->mb, size_row - (m_T_END - m_T_START) * descT->mb) : descT->mb` -/
def Dim.lenR (d : Dim) (t : Nat) : Nat :=
  if t = d.tEndR then min d.bT (d.size - (d.tEndR - d.tStart) * d.bT) else d.bT

/-- Task space of `Receive(m_T, n_T, batch)` with the derived `m_Y`, `n_Y`. -/
def reshuffleTasks (p : Params) : List Task :=
  (rangeIncl 0 p.nt).flatMap fun b =>
  (rangeIncl p.row.tStart p.row.tEndR).flatMap fun mT =>
  (rangeIncl (b * p.numCol + p.col.tStart) (min ((b + 1) * p.numCol + p.col.tStart - 1) p.col.tEndR)).map fun nT =>
    ⟨b, mT, nT, mT - p.row.tStart + p.row.yStartR, nT - p.col.tStart + p.col.yStartR⟩

/-- Task space of the reshuffle `Send(m_Y, n_Y, batch)`: `(batch, m_Y, n_Y)`. -/
def reshuffleSends (p : Params) : List (Nat × Nat × Nat) :=
  (rangeIncl 0 p.nt).flatMap fun b =>
  (rangeIncl p.row.yStartR p.row.yEndR).flatMap fun mY =>
  (rangeIncl (b * p.numCol + p.col.yStartR) (min ((b + 1) * p.numCol + p.col.yStartR - 1) p.col.yEndR)).map fun nY =>
    (b, mY, nY)

/-- Body of the reshuffle `Receive`: an `mb × nb` block from offset (0,0) to offset (0,0).  The `memcpy(T, Y,
    mb*nb)` branch (taken when `m_T != m_T_END`, i.e. `mb` = leading dimension) is the same block, see
    `linear_eq_rect`.  A remote source first goes through a whole-tile copy `R` (Send body), which is the
    identity on tile offsets. -/
def receiveRect (p : Params) (k : Task) : Rect :=
  ⟨p.row.lenR k.mT, p.col.lenR k.nT, 0, 0, 0, 0⟩

def reshuffleCopies (p : Params) (order : List Task) : List ECopy :=
  order.flatMap fun k => rectCopies p k (receiveRect p k)

/-! ## Effect on the target matrix -/

/-- Execute element copies in list order on a target matrix (functions of global element coordinates). -/
def applyCopies {α : Type} (src : Nat → Nat → α) : List ECopy → (Nat → Nat → α) → (Nat → Nat → α)
  | [], t => t
  | c :: cs, t => applyCopies src cs (fun i j => if i = c.ti ∧ j = c.tj then src c.si c.sj else t i j)

/-- The property statement: the window is copied, everything else is unchanged. -/
def windowSpec {α : Type} (p : Params) (src tgt : Nat → Nat → α) : Nat → Nat → α :=
  fun i j =>
    if p.diT ≤ i ∧ i < p.diT + p.sizeRow ∧ p.djT ≤ j ∧ j < p.djT + p.sizeCol
    then src (p.diY + (i - p.diT)) (p.djY + (j - p.djT)) else tgt i j

/-- The task space whose bodies write the target (`Update`, resp. the reshuffle `Receive`). -/
def tasksOf (p : Params) : Path → List Task
  | .general => generalTasks p
  | .reshuffle => reshuffleTasks p

/-- The copies `parsec_redistribute` performs for a validated request when the writing tasks execute in
    the order `order` (a permutation of `tasksOf p path`; the JDF enumeration order is `tasksOf p path`). -/
def redistCopies (p : Params) (path : Path) (remote : Task → Bool) (order : List Task) : List ECopy :=
  match path with
  | .general => generalCopies p remote order
  | .reshuffle => reshuffleCopies p order

end ParsecVerif.Redistribute
