/-
  Model of the MCA parameter system of parsec/utils:
    mca_param.c            registration, synonyms, overrides, param_lookup with its four sources
                           (lookup_override / lookup_env / lookup_file / lookup_default), the file-value
                           cache, read-only parameters, "~/" expansion of string values, strtol/strtoll
                           conversion of textual values;
    mca_parse_paramfile.c  save_value (replace in place, else append) and the reverse-order reading
                           of the file list;
    cmd_line.c             the token loop of parsec_cmd_line_parse for the option table that
                           parsec_init builds (parsec-version, parsec-help, mca, gmca, am);
    mca_param_cmd_line.c   process_arg (repeated options joined with commas), add_to_env;
    parsec.c               the part of parsec_init that copies the context environment into environ.
  Strings are `String` (names) and `List Char` inside the text-level functions.  Environment
  variable names are kept without their `PARSEC_MCA_` prefix.  No Mathlib.
-/
namespace ParsecVerif.McaParam

inductive Ty | int | sizet | str
deriving DecidableEq, Repr

/-- a parameter value (`parsec_mca_param_storage_t` read at the parameter's type); `str none` = NULL -/
inductive Val
  | int (i : Int)
  | sizet (n : Nat)
  | str (s : Option String)
deriving DecidableEq, Repr

/-- `parsec_mca_param_source_t` -/
inductive Source | default | env | file | override
deriving DecidableEq, Repr

/-! ## text → number, as the code does it: `(int)strtol(s,NULL,0)`, `(size_t)strtoll(s,NULL,0)` -/

/-- `isspace` in the C locale -/
def isSpace (c : Char) : Bool :=
  c = ' ' || c = '\t' || c = '\n' || c = '\x0b' || c = '\x0c' || c = '\r'

def digitVal (c : Char) : Option Nat :=
  if '0' ≤ c ∧ c ≤ '9' then some (c.toNat - '0'.toNat)
  else if 'a' ≤ c ∧ c ≤ 'z' then some (c.toNat - 'a'.toNat + 10)
  else if 'A' ≤ c ∧ c ≤ 'Z' then some (c.toNat - 'A'.toNat + 10)
  else none

/-- Horner accumulation over the maximal prefix of digits valid in `base` -/
def digitsIn (base : Nat) : List Char → Nat → Nat
  | [], acc => acc
  | c :: t, acc =>
    match digitVal c with
    | some d => if d < base then digitsIn base t (acc * base + d) else acc
    | none => acc

/-- magnitude of the subject sequence after the optional sign, base 0 (prefix `0x`/`0X` → 16,
    leading `0` → 8, otherwise 10); no digits → 0 -/
def magnitude : List Char → Nat
  | [] => 0
  | c :: t =>
    if c = '0' then
      match t with
      | [] => 0
      | x :: u => if x = 'x' ∨ x = 'X' then digitsIn 16 u 0 else digitsIn 8 (x :: u) 0
    else digitsIn 10 (c :: t) 0

def longMax : Int := 2 ^ 63 - 1
def longMin : Int := -(2 ^ 63)

/-- `strtol` saturates at LONG_MIN / LONG_MAX (ERANGE) -/
def clampLong (x : Int) : Int := if x > longMax then longMax else if x < longMin then longMin else x

def signed : List Char → Int
  | [] => 0
  | c :: t =>
    if c = '-' then -(magnitude t : Int)
    else if c = '+' then (magnitude t : Int)
    else (magnitude (c :: t) : Int)

/-- `strtol(s, NULL, 0)` = `strtoll(s, NULL, 0)` on LP64 -/
def strtol (s : List Char) : Int := clampLong (signed (s.dropWhile isSpace))

/-- the C cast `(int)` of a long: keep the low 32 bits, two's complement -/
def toInt32 (x : Int) : Int := (x + 2 ^ 31) % 2 ^ 32 - 2 ^ 31

/-- the C cast `(size_t)` of a long long -/
def toSizet (x : Int) : Nat := (x % 2 ^ 64).toNat

def parseInt (s : String) : Int := toInt32 (strtol s.toList)
def parseSizet (s : String) : Nat := toSizet (strtol s.toList)

/-- value of a textual source (environment variable, file entry) at a parameter type;
    `none` is the NULL value a file entry `name =` carries -/
def parseVal (ty : Ty) (s : Option String) : Val :=
  match ty, s with
  | .int, some s => .int (parseInt s)
  | .int, none => .int 0
  | .sizet, some s => .sizet (parseSizet s)
  | .sizet, none => .sizet 0
  | .str, s => .str s

/-! ## "~/" expansion applied by `param_lookup` to every string value it returns -/

/-- `parsec_os_path(false, home, rest, NULL)` -/
def osPath (home rest : List Char) : List Char :=
  (if home.head? = some '/' then home else '/' :: home) ++
  (if rest.head? = some '/' then rest else '/' :: rest)

/-- split at the first occurrence of ":~/" : `s = pre ++ ":~/" ++ post` -/
def splitColonTilde : List Char → Option (List Char × List Char)
  | [] => none
  | c :: t =>
    if c = ':' ∧ t.take 2 = ['~', '/'] then some ([], t.drop 2)
    else match splitColonTilde t with
      | some r => some (c :: r.1, r.2)
      | none => none

/-- the `while (NULL != strstr(s, ":~/"))` loop; `fuel` bounds the number of rewrites -/
def expandColon (home : Option (List Char)) : Nat → List Char → List Char
  | 0, s => s
  | fuel + 1, s =>
    match splitColonTilde s with
    | none => s
    | some r => expandColon home fuel (r.1 ++ ':' :: ((home.getD []) ++ '/' :: r.2))

def expandLead (home : Option (List Char)) : List Char → List Char
  | '~' :: '/' :: rest =>
    match home with
    | none => rest
    | some h => osPath h rest
  | s => s

def expandHome (home : Option String) (s : String) : String :=
  String.ofList (expandColon (home.map String.toList) (s.length + 1) (expandLead (home.map String.toList) s.toList))

/-- post-processing of the value found, whatever its source -/
def post (home : Option String) : Val → Val
  | .str (some s) => .str (some (expandHome home s))
  | v => v

/-! ## parameters and the four sources -/

structure Param where
  ty       : Ty
  name     : String            -- mbp_full_name; the environment variable is PARSEC_MCA_<name>
  readOnly : Bool
  dflt     : Val
  override : Option Val        -- mbp_override_value_set / mbp_override_value
  fileVal  : Option Val        -- mbp_file_value_set / mbp_file_value (cache of the file lookup)
  srcFile  : Option String     -- mbp_source_file
  syns     : List String       -- full names of the synonyms, in registration order
deriving DecidableEq, Repr

/-- one entry of `parsec_mca_param_file_values` -/
structure FV where
  name  : String
  value : Option String
  file  : String
deriving DecidableEq, Repr

abbrev Env := List (String × String)

def getenv (env : Env) (n : String) : Option String :=
  match env.find? (fun e => e.1 = n) with
  | some e => some e.2
  | none => none

def setenv (env : Env) (n v : String) : Env :=
  if env.any (fun e => e.1 = n) then env.map (fun e => if e.1 = n then (e.1, v) else e)
  else env ++ [(n, v)]

def unsetenv (env : Env) (n : String) : Env := env.filter (fun e => e.1 ≠ n)

/-- first name of the list that is set in the environment -/
def envFirst (env : Env) : List String → Option String
  | [] => none
  | n :: t =>
    match getenv env n with
    | some v => some v
    | none => envFirst env t

/-- `lookup_env`: the primary name first, then the synonyms in registration order -/
def lookupEnv (p : Param) (env : Env) : Option Val :=
  match envFirst env (p.name :: p.syns) with
  | some s => some (parseVal p.ty (some s))
  | none => none

def fvMatches (p : Param) (fv : FV) : Bool := fv.name = p.name || p.syns.contains fv.name

/-- the scan of `lookup_file`: first list entry carrying the primary name or any synonym -/
def fvFind (p : Param) : List FV → Option FV
  | [] => none
  | fv :: t => if fvMatches p fv then some fv else fvFind p t

/-- the list after `parsec_list_nolock_remove` of that entry -/
def fvRemove (p : Param) : List FV → List FV
  | [] => []
  | fv :: t => if fvMatches p fv then t else fv :: fvRemove p t

/-- result of `lookup_file`: value and source file, if any -/
def lookupFileVal (p : Param) (fvs : List FV) : Option (Val × Option String) :=
  match p.fileVal with
  | some v => some (v, p.srcFile)
  | none =>
    match fvFind p fvs with
    | some fv => some (parseVal p.ty fv.value, some fv.file)
    | none => none

/-- the parameter after `lookup_file` (the value found is cached on it) -/
def lookupFileParam (p : Param) (fvs : List FV) : Param :=
  match p.fileVal with
  | some _ => p
  | none =>
    match fvFind p fvs with
    | some fv => { p with fileVal := some (parseVal p.ty fv.value), srcFile := some fv.file }
    | none => p

/-- the file-value list after `lookup_file` (the entry used is removed) -/
def lookupFileList (p : Param) (fvs : List FV) : List FV :=
  match p.fileVal with
  | some _ => fvs
  | none => fvRemove p fvs

/-- what `param_lookup` reports: source, value, `*source_file`, and whether the
    "read-only-param-set" help message was raised -/
structure Found where
  src  : Source
  val  : Val
  file : Option String
  warn : Bool
deriving DecidableEq, Repr

/-- `param_lookup`, result part.  Mirrors the two branches of the code. -/
def resolve (p : Param) (env : Env) (fvs : List FV) (home : Option String) : Found :=
  if p.readOnly then
    match p.override with
    | some _ => ⟨.default, post home p.dflt, none, true⟩
    | none =>
      match lookupEnv p env with
      | some _ => ⟨.default, post home p.dflt, none, true⟩
      | none =>
        match lookupFileVal p fvs with
        | some r => ⟨.default, post home p.dflt, r.2, true⟩
        | none => ⟨.default, post home p.dflt, none, false⟩
  else
    match p.override with
    | some v => ⟨.override, post home v, none, false⟩
    | none =>
      match lookupEnv p env with
      | some v => ⟨.env, post home v, none, false⟩
      | none =>
        match lookupFileVal p fvs with
        | some r => ⟨.file, post home r.1, r.2, false⟩
        | none => ⟨.default, post home p.dflt, none, false⟩

/-- does `param_lookup` reach `lookup_file`?  (short-circuit `||` / `else if` chain) -/
def reachesFile (p : Param) (env : Env) : Bool :=
  p.override.isNone && (lookupEnv p env).isNone

/-- `param_lookup`, side effect on the parameter -/
def lookupParam (p : Param) (env : Env) (fvs : List FV) : Param :=
  if reachesFile p env then lookupFileParam p fvs else p

/-- `param_lookup`, side effect on the file-value list -/
def lookupList (p : Param) (env : Env) (fvs : List FV) : List FV :=
  if reachesFile p env then lookupFileList p fvs else fvs

/-! ## parameter files -/

/-- `save_value`: replace the value of an existing entry in place, else append -/
def saveValue (fvs : List FV) (file name : String) (value : Option String) : List FV :=
  if fvs.any (fun fv => fv.name = name) then
    replaceFirst fvs
  else fvs ++ [⟨name, value, file⟩]
where
  replaceFirst : List FV → List FV
    | [] => []
    | fv :: t => if fv.name = name then ⟨name, value, file⟩ :: t else fv :: replaceFirst t

/-- one parameter file: its entries in line order -/
abbrev FileContent := List (String × Option String)

def parseFile (fvs : List FV) (file : String) (c : FileContent) : List FV :=
  c.foldl (fun acc e => saveValue acc file e.1 e.2) fvs

/-- the file system seen by `read_files`: name ↦ content (absent names cannot be opened) -/
abbrev Files := List (String × FileContent)

def fileContent (fs : Files) (n : String) : Option FileContent :=
  match fs.find? (fun e => e.1 = n) with
  | some e => some e.2
  | none => none

/-- `parsec_argv_split(list, ':')`: empty fields are dropped -/
def splitColon (s : String) : List String := (s.splitOn ":").filter (· ≠ "")

/-- `read_files`: the list is traversed from the right so that the leftmost file wins -/
def readFiles (fs : Files) (fvs : List FV) (names : List String) : List FV :=
  names.reverse.foldl (fun acc n =>
    match fileContent fs n with
    | some c => parseFile acc n c
    | none => acc) fvs

/-! ## the registry -/

structure St where
  inited  : Bool
  params  : List Param
  fvs     : List FV
  env     : Env
  homeEnv : Option String      -- $HOME now
  home    : Option String      -- the static `home` captured by parsec_mca_param_recache_files
  files   : Files
deriving Repr

def init : St := ⟨false, [], [], [], some "/hm", none, []⟩

def fullName (t : Option String) (p : String) : String :=
  match t with
  | some t => if t = "" then p else t ++ "_" ++ p
  | none => p

def setParam (s : St) (i : Nat) (p : Param) : St := { s with params := s.params.set i p }

/-- `param_lookup(index)` on the state: result and side effects -/
def lookupAt (s : St) (i : Nat) (p : Param) : St × Found :=
  ({ s with params := s.params.set i (lookupParam p s.env s.fvs), fvs := lookupList p s.env s.fvs },
   resolve p s.env s.fvs s.home)

def findIdx (ps : List Param) (name : String) : Option Nat :=
  match ps.findIdx? (fun p => p.name = name) with
  | some i => some i
  | none => none

def errTypeMismatch : Int := -8

/-- `param_register` (through `parsec_mca_param_reg_{int,sizet,string}_name`) on an initialised
    registry.  `look` = a `current_value` pointer was passed. -/
def registerCore (s : St) (ty : Ty) (name : String) (ro : Bool) (dflt : Val) (look : Bool) :
    St × Int × Option Found :=
  match findIdx s.params name with
  | some i =>
    match s.params[i]? with
    | some p =>
      if p.ty = ty then
        if look then
          ((lookupAt s i { p with dflt := dflt }).1, (i : Int), some (lookupAt s i { p with dflt := dflt }).2)
        else (setParam s i { p with dflt := dflt }, (i : Int), none)
      else (s, errTypeMismatch, none)
    | none => (s, -1, none)
  | none =>
    if look then
      ((lookupAt { s with params := s.params ++ [⟨ty, name, ro, dflt, none, none, none, []⟩] } s.params.length
          ⟨ty, name, ro, dflt, none, none, none, []⟩).1,
       (s.params.length : Int),
       some (lookupAt { s with params := s.params ++ [⟨ty, name, ro, dflt, none, none, none, []⟩] } s.params.length
          ⟨ty, name, ro, dflt, none, none, none, []⟩).2)
    else ({ s with params := s.params ++ [⟨ty, name, ro, dflt, none, none, none, []⟩] }, (s.params.length : Int), none)

def defaultFiles : String := "DEFAULTFILES"

def foundString (f : Option Found) : Option String :=
  match f with
  | some ⟨_, .str (some v), _, _⟩ => some v
  | _ => none

/-- `parsec_mca_param_recache_files`: capture $HOME, (re)register `mca_param_files`, read the files
    its current value names -/
def recache (s : St) : St :=
  readFilesOf (registerCore { s with home := s.homeEnv } .str "mca_param_files" false (.str (some defaultFiles)) true)
where
  readFilesOf (r : St × Int × Option Found) : St :=
    match foundString r.2.2 with
    | some v => { r.1 with fvs := readFiles r.1.files r.1.fvs (splitColon v) }
    | none => r.1

/-- `parsec_mca_param_init` -/
def doInit (s : St) : St :=
  if s.inited then s else recache { s with inited := true, params := [], fvs := [] }

/-- registration entry points: `param_register` initialises the system on first use -/
def register (s : St) (ty : Ty) (name : String) (ro : Bool) (dflt : Val) (look : Bool) :
    St × Int × Option Found :=
  registerCore (doInit s) ty name ro dflt look

/-- `syn_register` -/
def addSyn (s : St) (i : Nat) (syn : String) : Option St :=
  match s.params[i]? with
  | some p => some (setParam s i { p with syns := p.syns ++ [syn] })
  | none => none

/-- `parsec_mca_param_set_*` : unset then `param_set_override` -/
def setOverride (s : St) (i : Nat) (v : Val) : Option St :=
  match s.params[i]? with
  | some p => some (setParam s i { p with override := some v })
  | none => none

/-- `parsec_mca_param_unset` -/
def unsetOverride (s : St) (i : Nat) : Option St :=
  match s.params[i]? with
  | some p => some (setParam s i { p with override := none })
  | none => none

/-- `parsec_mca_param_lookup_*` + `parsec_mca_param_lookup_source` -/
def lookup (s : St) (i : Nat) : Option (St × Found) :=
  match s.params[i]? with
  | some p => some (lookupAt s i p)
  | none => none

/-! ## command line → environment -/

inductive Opt | version | help | mca | gmca | am
deriving DecidableEq, Repr

/-- `find_option` on the table built by parsec_init: long and single-dash names are both accepted
    after one or two dashes; there are no short (one-letter) names -/
def findOpt (n : String) : Option Opt :=
  if n = "parsec-version" then some .version
  else if n = "parsec-help" then some .help
  else if n = "mca" then some .mca
  else if n = "gmca" then some .gmca
  else if n = "am" then some .am
  else none

def Opt.nparams : Opt → Nat
  | .version => 0 | .help => 0 | .mca => 2 | .gmca => 2 | .am => 1

/-- option name carried by a token that starts with '-' -/
def optName (tok : List Char) : List Char :=
  match tok with
  | '-' :: '-' :: r => r
  | '-' :: r => r
  | r => r

/-- The token loop of `parsec_cmd_line_parse(cmd, ignore_unknown = true, …)` from argv[1] on.
    Returns the option instances in order and whether an error was printed.  Parsing stops at
    `--`, at the first token that is not an option (it goes to the tail), at the first unknown
    option and at an option that lacks parameters. -/
def parseArgs : Nat → List String → List (Opt × List String) × Bool
  | 0, _ => ([], false)
  | _, [] => ([], false)
  | fuel + 1, tok :: rest =>
    if tok = "--" then ([], false)
    else if tok.toList.head? ≠ some '-' then ([], false)
    else
      match findOpt (String.ofList (optName tok.toList)) with
      | none => ([], true)
      | some o =>
        if rest.length < o.nparams then ([], true)
        else ((o, rest.take o.nparams) :: (parseArgs fuel (rest.drop o.nparams)).1,
              (parseArgs fuel (rest.drop o.nparams)).2)

/-- `process_arg`: a repeated parameter gets `old,new`; a new one is appended -/
def processArg (acc : List (String × String)) (p v : String) : List (String × String) :=
  if acc.any (fun e => e.1 = p) then
    acc.map (fun e => if e.1 = p then (e.1, e.2 ++ "," ++ v) else e)
  else acc ++ [(p, v)]

/-- the (param, value) lists that `parsec_mca_cmd_line_process_args` builds for one option -/
def collect (insts : List (Opt × List String)) (o : Opt) : List (String × String) :=
  (insts.filter (fun i => i.1 = o)).foldl (fun acc i => processArg acc (i.2.getD 0 "") (i.2.getD 1 "")) []

def setenvAll (env : Env) (l : List (String × String)) : Env :=
  l.foldl (fun e kv => setenv e kv.1 kv.2) env

/-- `-am x` reaches the environment during parsing (`set_dest` → putenv) -/
def amEnv (env : Env) (insts : List (Opt × List String)) : Env :=
  insts.foldl (fun e i => if i.1 = .am then setenv e "parsec_mca_param_file_prefix" (i.2.getD 0 "") else e) env

/-- everything parsec_init does with the parsed instances: `--gmca` into environ, `--mca` into the
    context environment, which is then copied over environ (so `--mca` wins over `--gmca`) -/
def applyInsts (env : Env) (insts : List (Opt × List String)) : Env :=
  setenvAll (setenvAll (amEnv env insts) (collect insts .gmca)) (collect insts .mca)

/-- argv as handed to parsec_init: a leading `--` or non-option word is skipped like argv[0] -/
def initArgv (argv : List String) : List String :=
  match argv with
  | [] => []
  | a :: rest => if a = "--" ∨ a.toList.head? ≠ some '-' then rest else a :: rest

def applyArgs (env : Env) (argv : List String) : Env × Bool :=
  (applyInsts env (parseArgs (argv.length + 1) (initArgv argv)).1, (parseArgs (argv.length + 1) (initArgv argv)).2)

end ParsecVerif.McaParam
