/-
  Model of dependency tracking on one task's dependency word (parsec/parsec.c):
  `parsec_update_deps_with_counter`, `parsec_update_deps_with_mask` and the goal computations
  `parsec_check_IN_dependencies_with_counter/_with_mask`, at the granularity of the real code's
  atomic operations.  A step of thread `t` = run from its park point up to the next atomic op.
-/
namespace ParsecVerif.DepWord

/-- guard of an input dependency, already evaluated for this task instance -/
inductive Guard | none | t | f
deriving Repr, DecidableEq

def Guard.applies : Guard → Bool
  | .f => false | _ => true

/-- shape of one input flow of the task class, as far as the goal computation looks at it -/
inductive FlowKind
  | data          -- data flow whose active input comes from a predecessor task: one release
  | localData     -- data flow read directly from a data collection (an "IN-IN" dependency)
  | ctl (k : Nat) -- control flow with a control gather of k (k releases expected)
  | ctl1          -- plain control flow (one release expected)
  | ctlNone       -- control flow all of whose guards are false: nothing expected
  | writeOnly     -- WRITE flow whose only in-dep names the arena (no input expected)
  | dataDeps (deps : List (Guard × Bool))  -- data flow with several guarded input deps: (guard, source is a collection)
  | ctlDeps (deps : List (Guard × Nat))    -- control flow with several guarded deps: (guard, 0 = plain | k+1 = gather of k)
deriving Repr, DecidableEq

/-- the data loops of both goal computations stop at the FIRST dependency whose guard holds -/
def firstApplicable (deps : List (Guard × Bool)) : Option Bool := (deps.find? (fun d => d.1.applies)).map (·.2)

def ctlCount (d : Guard × Nat) : Nat := if d.2 = 0 then 1 else d.2 - 1

/-- flows whose bit is set by `parsec_check_IN_dependencies_with_mask` (nothing to wait for) -/
def isIn : FlowKind → Bool
  | .localData => true | .ctlNone => true | .writeOnly => true
  | .dataDeps d => firstApplicable d == some true
  | .ctlDeps d => !(d.any (fun x => x.1.applies))
  | _ => false

/-- flows that wait for a release from a predecessor (mask mode) -/
def isRel : FlowKind → Bool
  | .data => true | .ctl1 => true | .ctl _ => true
  | .dataDeps d => firstApplicable d == some false
  | .ctlDeps d => d.any (fun x => x.1.applies)
  | _ => false

/-- `parsec_check_IN_dependencies_with_counter` when the class has IN-IN deps or control gathers -/
def counterOf : FlowKind → Nat
  | .data => 1 | .localData => 0 | .ctl k => k | .ctl1 => 1 | .ctlNone => 0 | .writeOnly => 0
  | .dataDeps d => if firstApplicable d == some false then 1 else 0
  | .ctlDeps d => ((d.filter (fun x => x.1.applies)).map ctlCount).sum

def goalCounter (flows : List FlowKind) : Nat := (flows.map counterOf).sum

/-- bit contributed by `parsec_check_IN_dependencies_with_mask` for the flow of index `i` -/
def inBitOf (i : Nat) (k : FlowKind) : Nat := if isIn k then 2 ^ i else 0

def indexed {α} (l : List α) : List (Nat × α) := (List.range l.length).zip l

def inMask (flows : List FlowKind) : Nat := ((indexed flows).map fun p => inBitOf p.1 p.2).foldl (· ||| ·) 0

/-- `tc->dependencies_goal` of a class using masks: the bits of all its input flows -/
def goalMask (flows : List FlowKind) : Nat := 2 ^ flows.length - 1

/-- flow indices that need a release from a predecessor (mask mode) -/
def releaseBits (flows : List FlowKind) : List Nat :=
  (indexed flows).filterMap fun p => if isRel p.2 then some p.1 else none

/-- a flow description the runtime can complete: it either waits for a release or is satisfied by
    the IN computation (a data flow has an applicable input) -/
def flowWF (k : FlowKind) : Bool := isRel k || isIn k

/-! ## Counter mode -/

inductive Pc
  | start                 -- before the plain read of the word
  | cas                   -- read 0: about to CAS(0 → goal-1)
  | dec                   -- about to fetch-and-decrement
  | done (ready : Bool)   -- returned
deriving Repr, DecidableEq

structure CState where
  w   : Int
  pcs : List Pc
deriving Repr

def cinit (n : Nat) : CState := ⟨0, List.replicate n .start⟩

def cstep (goal : Int) (s : CState) (t : Nat) : CState :=
  match s.pcs[t]? with
  | some .start => { s with pcs := s.pcs.set t (if s.w = 0 then .cas else .dec) }
  | some .cas =>
    if s.w = 0 then { w := goal - 1, pcs := s.pcs.set t (.done (goal - 1 = 0)) }
    else { s with pcs := s.pcs.set t .dec }
  | some .dec => { w := s.w - 1, pcs := s.pcs.set t (.done (s.w - 1 = 0)) }
  | _ => s

def crun (goal : Int) (n : Nat) (sched : List Nat) : CState := sched.foldl (cstep goal) (cinit n)

/-! ## Mask mode -/

def IN_DONE : Nat := 2 ^ 30

inductive MPc
  | start
  | orr (v : Nat)         -- about to fetch-or the value `v`
  | done (ready : Bool)
deriving Repr, DecidableEq

structure MState where
  w   : Nat
  pcs : List MPc
deriving Repr

def minit (n : Nat) : MState := ⟨0, List.replicate n .start⟩

/-- `bits[t]` is the flow index released by thread `t`; `im` = IN bits; `g` = goal mask -/
def mstep (im g : Nat) (bits : List Nat) (s : MState) (t : Nat) : MState :=
  match s.pcs[t]?, bits[t]? with
  | some .start, some b =>
    let v := IN_DONE ||| 2 ^ b
    { s with pcs := s.pcs.set t (.orr (if s.w &&& IN_DONE = 0 then v ||| im else v)) }
  | some (.orr v), _ =>
    { w := s.w ||| v, pcs := s.pcs.set t (.done ((s.w ||| v) &&& g = g)) }
  | _, _ => s

def mrun (im g : Nat) (bits : List Nat) (sched : List Nat) : MState :=
  sched.foldl (mstep im g bits) (minit bits.length)

end ParsecVerif.DepWord
