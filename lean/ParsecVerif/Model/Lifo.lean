/-
  Model of the lock-free LIFO of parsec/class/lifo.h, branch `PARSEC_ATOMIC_HAS_ATOMIC_CAS_INT128`
  (the one compiled here): head = (counter, item); `parsec_lifo_push` / `parsec_lifo_chain` use a
  pointer CAS on `head.item`, `parsec_lifo_pop` / `parsec_lifo_try_pop` a 128-bit CAS on
  (counter, item) that increments the counter.

  Granularity: ONE MODEL STEP PER SHARED-MEMORY ACCESS (plain read of head.counter, head.item,
  item->list_next; plain write of item->list_next; fence; CAS) plus one step for the invocation of an
  operation.  This is finer than the hook granularity (a park point before every atomic primitive /
  fence): a "macro step" of the real code under the cooperative scheduler is a fixed run of micro
  steps of one thread (`macroStep`), so every schedule the harness can produce is a schedule of the
  model, and the theorems quantify over all micro-step schedules.

  Items are natural numbers, 0 = NULL.  `next` is the heap of `list_next` fields.  `who x` is the
  owner of item x: 0 = nobody / the LIFO, t+1 = thread t (thread-local bookkeeping of the caller:
  thread t only ever tests `who x = t+1`, an entry only thread t sets or clears).
  Ghost components (never read by a transition that decides behaviour): `abs` the abstract stack,
  `lins` the linearization records, the time stamps.
-/
namespace ParsecVerif.Lifo

/-- operations issued by a thread.  `push pre tl` stands for `parsec_lifo_chain` of the ring
    `pre ++ [tl]` (`tl` = `ring->list_prev`); `parsec_lifo_push x` is `push [] x` (same code shape:
    the C functions differ only in `tail = ring->list_prev`).  `pop true` = `parsec_lifo_try_pop`.
    `setNext x v` = the caller writes `x->list_next = v` on an item it owns (ring construction, or
    any other use of the field while the item is outside the LIFO). -/
inductive Op
  | push (pre : List Nat) (tl : Nat)
  | pop (try_ : Bool)
  | setNext (x v : Nat)
deriving Repr, DecidableEq

inductive Res
  | unit                -- push / chain / setNext returned
  | item (x : Nat)      -- pop / try_pop returned item x (0 = NULL)
  | rejected            -- call outside the precondition: not issued
deriving Repr, DecidableEq

/-- program points; they carry the operation's arguments and locals -/
inductive Pc
  | idle
  | pushRd (pre : List Nat) (tl : Nat)            -- next = lifo_head.data.item
  | pushWr (pre : List Nat) (tl nxt : Nat)        -- tail->list_next = next
  | pushFence (pre : List Nat) (tl nxt : Nat)     -- parsec_atomic_wmb            [park: fence]
  | pushCas (pre : List Nat) (tl nxt : Nat)       -- cas_ptr(&head.item, next, ring) [park: cas]
  | popRdC (tr : Bool)                            -- old.counter = head.counter
  | popFence (tr : Bool) (c : Nat)                -- parsec_atomic_rmb            [park: fence]
  | popRdI (tr : Bool) (c : Nat)                  -- item = head.item; NULL → return NULL
  | popRdN (tr : Bool) (c it : Nat)               -- item->list_next (argument of the CAS)
  | popCas (tr : Bool) (c it n : Nat)             -- cas_128(head, (c,it), (c+1,n)) [park: cas]
  | popWmb (tr : Bool) (it : Nat)                 -- parsec_atomic_wmb            [park: fence]
  | popClr (tr : Bool) (it : Nat)                 -- item->list_next = NULL; return item
  | setNx (x v : Nat)                             -- x->list_next = v
deriving Repr, DecidableEq

/-- a completed operation of one thread with its invocation / linearization / return stamps -/
structure OpRec where
  op : Op
  res : Res
  tInv : Nat
  tLin : Nat
  tRet : Nat
deriving Repr, DecidableEq

/-- an entry of the sequential history -/
structure LinRec where
  tid : Nat
  op : Op
  res : Res
  tInv : Nat
  tLin : Nat
deriving Repr, DecidableEq

def OpRec.lin (t : Nat) (r : OpRec) : LinRec := ⟨t, r.op, r.res, r.tInv, r.tLin⟩
def LinRec.ev (l : LinRec) : Op × Res := (l.op, l.res)

structure Thread where
  pc : Pc
  todo : List Op
  hist : List OpRec
  tInv : Nat
  tLin : Nat
deriving Repr

/-- shared memory + ownership + ghost abstract stack -/
structure Mem where
  ctr : Nat               -- lifo_head.data.guard.counter
  top : Nat               -- lifo_head.data.item
  next : Nat → Nat        -- item->list_next
  who : Nat → Nat
  abs : List Nat          -- ghost

structure State where
  mem : Mem
  thr : List Thread
  time : Nat
  lins : List LinRec      -- ghost
  n : Nat                 -- number of items (ids 1..n); only used to reject `setNext x v` with v > n

def upd (f : Nat → Nat) (a v : Nat) : Nat → Nat := fun x => if x = a then v else f x

/-- the linked segment starting at pointer `h`, running through exactly the items of `l`, whose last
    `next` is `e` -/
def IsSeg (next : Nat → Nat) : Nat → List Nat → Nat → Prop
  | h, [], e => h = e
  | h, x :: xs, e => h = x ∧ x ≠ 0 ∧ IsSeg next (next x) xs e

def decIsSeg (next : Nat → Nat) : (h : Nat) → (l : List Nat) → (e : Nat) → Decidable (IsSeg next h l e)
  | h, [], e => inferInstanceAs (Decidable (h = e))
  | h, x :: xs, e =>
    have := decIsSeg next (next x) xs e
    inferInstanceAs (Decidable (h = x ∧ x ≠ 0 ∧ IsSeg next (next x) xs e))

instance instDecIsSeg (next : Nat → Nat) (h : Nat) (l : List Nat) (e : Nat) : Decidable (IsSeg next h l e) :=
  decIsSeg next h l e

def ringHd (pre : List Nat) (tl : Nat) : Nat := pre.headD tl

/-- precondition of push/chain, decided by the calling thread on its own items: it owns every item of
    the ring, the items are distinct, and the ring is linked in order up to the tail -/
def PushPre (m : Mem) (t : Nat) (pre : List Nat) (tl : Nat) : Prop :=
  (∀ x ∈ pre ++ [tl], m.who x = t + 1) ∧ (pre ++ [tl]).Nodup ∧ IsSeg m.next (ringHd pre tl) pre tl

instance (m : Mem) (t : Nat) (pre : List Nat) (tl : Nat) : Decidable (PushPre m t pre tl) := by
  unfold PushPre; infer_instance

/-- result of one micro step of a thread -/
structure Out where
  mem : Mem
  th : Thread
  lin : Option LinRec

def Thread.goto (th : Thread) (pc : Pc) : Thread := { th with pc := pc }

/-- the operation returns at time `now`, having been linearized at `tl` -/
def Thread.finish (th : Thread) (op : Op) (r : Res) (tl now : Nat) : Thread :=
  { th with pc := .idle, hist := th.hist ++ [⟨op, r, th.tInv, tl, now⟩] }

/-- invocation of the next operation of the program (no shared access) -/
def invoke (m : Mem) (n t now : Nat) (th : Thread) : Out :=
  match th.todo with
  | [] => ⟨m, th, none⟩
  | .push pre tl :: rest =>
    if PushPre m t pre tl then ⟨m, { th with todo := rest, tInv := now, pc := .pushRd pre tl }, none⟩
    else ⟨m, Thread.finish { th with todo := rest, tInv := now } (.push pre tl) .rejected now now,
          some ⟨t, .push pre tl, .rejected, now, now⟩⟩
  | .pop tr :: rest => ⟨m, { th with todo := rest, tInv := now, pc := .popRdC tr }, none⟩
  | .setNext x v :: rest =>
    if m.who x = t + 1 ∧ v ≤ n then ⟨m, { th with todo := rest, tInv := now, pc := .setNx x v }, none⟩
    else ⟨m, Thread.finish { th with todo := rest, tInv := now } (.setNext x v) .rejected now now,
          some ⟨t, .setNext x v, .rejected, now, now⟩⟩

/-- successful pointer CAS of push/chain: the ring becomes the top of the stack -/
def pushCommit (m : Mem) (pre : List Nat) (tl : Nat) : Mem :=
  { m with top := ringHd pre tl,
           who := fun x => if x ∈ pre ++ [tl] then 0 else m.who x,
           abs := pre ++ [tl] ++ m.abs }

/-- successful 128-bit CAS of pop: counter + 1, head item := the saved next -/
def popCommit (m : Mem) (t it n : Nat) : Mem :=
  { m with ctr := m.ctr + 1, top := n, who := upd m.who it (t + 1), abs := m.abs.tail }

/-- one micro step of thread `t` (its record is `th`, its program point `pc`) at time `now` -/
def stepPc (m : Mem) (n t now : Nat) (th : Thread) : Pc → Out
  | .idle => invoke m n t now th
  | .pushRd pre tl => ⟨m, th.goto (.pushWr pre tl m.top), none⟩
  | .pushWr pre tl nxt => ⟨{ m with next := upd m.next tl nxt }, th.goto (.pushFence pre tl nxt), none⟩
  | .pushFence pre tl nxt => ⟨m, th.goto (.pushCas pre tl nxt), none⟩
  | .pushCas pre tl nxt =>
    if m.top = nxt then
      ⟨pushCommit m pre tl, th.finish (.push pre tl) .unit now now, some ⟨t, .push pre tl, .unit, th.tInv, now⟩⟩
    else ⟨m, th.goto (.pushRd pre tl), none⟩
  | .popRdC tr => ⟨m, th.goto (.popFence tr m.ctr), none⟩
  | .popFence tr c => ⟨m, th.goto (.popRdI tr c), none⟩
  | .popRdI tr c =>
    if m.top = 0 then
      ⟨m, th.finish (.pop tr) (.item 0) now now, some ⟨t, .pop tr, .item 0, th.tInv, now⟩⟩
    else ⟨m, th.goto (.popRdN tr c m.top), none⟩
  | .popRdN tr c it => ⟨m, th.goto (.popCas tr c it (m.next it)), none⟩
  | .popCas tr c it nx =>
    if m.ctr = c ∧ m.top = it then
      ⟨popCommit m t it nx, { th with pc := .popWmb tr it, tLin := now }, some ⟨t, .pop tr, .item it, th.tInv, now⟩⟩
    else if tr then
      ⟨m, th.finish (.pop tr) (.item 0) now now, some ⟨t, .pop tr, .item 0, th.tInv, now⟩⟩
    else ⟨m, th.goto (.popRdC tr), none⟩
  | .popWmb tr it => ⟨m, th.goto (.popClr tr it), none⟩
  | .popClr tr it =>
    ⟨{ m with next := upd m.next it 0 }, th.finish (.pop tr) (.item it) th.tLin now, none⟩
  | .setNx x v =>
    ⟨{ m with next := upd m.next x v }, th.finish (.setNext x v) .unit now now,
      some ⟨t, .setNext x v, .unit, th.tInv, now⟩⟩

def stepTh (m : Mem) (n t now : Nat) (th : Thread) : Out := stepPc m n t now th th.pc

def step (s : State) (t : Nat) : State :=
  match s.thr[t]? with
  | none => s
  | some th =>
    { mem := (stepTh s.mem s.n t s.time th).mem,
      thr := s.thr.set t (stepTh s.mem s.n t s.time th).th,
      time := s.time + 1,
      lins := s.lins ++ (stepTh s.mem s.n t s.time th).lin.toList,
      n := s.n }

/-! ## configurations -/

structure Config where
  n : Nat
  stack : List Nat          -- initial content, top first
  next0 : Nat → Nat
  who0 : Nat → Nat
  progs : List (List Op)

def Config.WF (c : Config) : Prop :=
  c.stack.Nodup ∧ IsSeg c.next0 (c.stack.headD 0) c.stack 0 ∧ ∀ x, c.who0 x = 0 ↔ (x = 0 ∨ x ∈ c.stack)

def init (c : Config) : State :=
  { mem := ⟨0, c.stack.headD 0, c.next0, c.who0, c.stack⟩,
    thr := c.progs.map fun p => ⟨.idle, p, [], 0, 0⟩,
    time := 0, lins := [], n := c.n }

def run (c : Config) (sched : List Nat) : State := sched.foldl step (init c)

/-- canonical `next` heap for an initial stack content -/
def nextOf : List Nat → Nat → Nat
  | [], _ => 0
  | [_], _ => 0
  | a :: b :: r, x => if x = a then b else nextOf (b :: r) x

/-- canonical configuration: items 1..n, initial stack, `owner[i]` = thread owning item i+1 when it
    is not in the stack (an out-of-range item belongs to a non-existing thread) -/
def mkConfig (n : Nat) (stack : List Nat) (owner : List Nat) (progs : List (List Op)) : Config :=
  { n := n, stack := stack, next0 := nextOf stack,
    who0 := fun x => if x = 0 ∨ x ∈ stack then 0 else (if x ≤ n then owner.getD (x - 1) progs.length else progs.length) + 1,
    progs := progs }

/-! ## sequential specification -/

/-- the sequential stack: `step σ op res = some σ'` iff `op` may return `res` on stack `σ`, leaving `σ'`.
    `try_pop` may return NULL at any time (it gives up on contention); `pop` only on the empty stack. -/
def Spec.step (σ : List Nat) : Op → Res → Option (List Nat)
  | .push pre tl, .unit => some (pre ++ [tl] ++ σ)
  | .pop tr, .item 0 => if tr = true ∨ σ = [] then some σ else none
  | .pop _, .item (x + 1) => if σ.head? = some (x + 1) then some σ.tail else none
  | .setNext _ _, .unit => some σ
  | _, .rejected => some σ
  | _, _ => none

def Spec.replay (σ : List Nat) : List (Op × Res) → Option (List Nat)
  | [] => some σ
  | e :: l => (Spec.step σ e.1 e.2).bind fun σ' => Spec.replay σ' l

/-! ## macro steps: what one step of the cooperative scheduler executes -/

/-- program points at which the real code is parked by the hook (before an atomic primitive or fence) -/
def Pc.isPark : Pc → Bool
  | .pushFence .. | .pushCas .. | .popFence .. | .popCas .. | .popWmb .. => true
  | _ => false

def Thread.finished (th : Thread) : Bool := th.pc == .idle && th.todo.isEmpty

def threadAt (s : State) (t : Nat) : Thread := s.thr.getD t ⟨.idle, [], [], 0, 0⟩

/-- continue thread `t` until it is parked or finished -/
def runToPark : Nat → State → Nat → State
  | 0, s, _ => s
  | fuel + 1, s, t =>
    if (threadAt s t).pc.isPark || (threadAt s t).finished then s else runToPark fuel (step s t) t

/-- thread `t` leaves its park point (executes the atomic primitive) and runs up to the next one -/
def macroStep (s : State) (t : Nat) : State := runToPark 100000 (step s t) t

end ParsecVerif.Lifo
