import ParsecVerif.Model.Ptg
/-
  One-line serialisation of `Ptg.Program` (emitted by gen/ptg_gen.py next to the JDF text) and its parser.
  Grammar (space-separated tokens, prefix notation), documented in docs/notes/PTG.md:

    PROG   := P ng g.. nc CLASS..
    CLASS  := C name nl LOCAL.. EXPR(place) PRIO nf FLOW..
    LOCAL  := R p EXPR EXPR EXPR | D p EXPR          (p = 1 if the local is a parameter of the class)
    PRIO   := N | Y EXPR
    FLOW   := F (R|RW|W|CTL) ni DEP.. no DEP..
    DEP    := U TARGET | B EXPR TARGET | T EXPR TARGET TARGET
    TARGET := t cls flow na ARG.. | m EXPR | new | null
    ARG    := a EXPR | r EXPR EXPR EXPR
    EXPR   := c int | v ix | g ix | OP EXPR EXPR | ! EXPR | ? EXPR EXPR EXPR
    OP     := + - * / % < <= > >= == != && ||
-/
namespace ParsecVerif.Ptg.Parse
open ParsecVerif.Ptg

abbrev P := StateT (List String) Option

def tok : P String := fun s => match s with | [] => none | t :: ts => some (t, ts)
def nat : P Nat := do let t ← tok; match t.toNat? with | some n => pure n | none => failure
def int : P Int := do let t ← tok; match t.toInt? with | some n => pure n | none => failure

def rep {α} (n : Nat) (x : P α) : P (List α) :=
  match n with
  | 0 => pure []
  | n + 1 => do let a ← x; let as ← rep n x; pure (a :: as)

def binop? : String → Option BinOp
  | "+" => some .add | "-" => some .sub | "*" => some .mul | "/" => some .div | "%" => some .mod
  | "<" => some .lt | "<=" => some .le | ">" => some .gt | ">=" => some .ge | "==" => some .eq | "!=" => some .ne
  | "&&" => some .land | "||" => some .lor
  | _ => none

/-- fuel-bounded (the fuel is the number of remaining tokens, which every production consumes) -/
def expr : Nat → P Expr
  | 0 => failure
  | fuel + 1 => do
    let t ← tok
    match t with
    | "c" => do let i ← int; pure (.const i)
    | "v" => do let i ← nat; pure (.var i)
    | "g" => do let i ← nat; pure (.glob i)
    | "!" => do let a ← expr fuel; pure (.lnot a)
    | "?" => do let c ← expr fuel; let a ← expr fuel; let b ← expr fuel; pure (.ite c a b)
    | _ => match binop? t with
      | some op => do let a ← expr fuel; let b ← expr fuel; pure (.bin op a b)
      | none => failure

def ex : P Expr := do let s ← get; expr (s.length + 1)

def range : P Range := do let lo ← ex; let hi ← ex; let st ← ex; pure ⟨lo, hi, st⟩

def localDef : P (LocalDef × Bool) := do
  let t ← tok
  let p ← nat
  match t with
  | "R" => do let r ← range; pure (.range r, p != 0)
  | "D" => do let e ← ex; pure (.expr e, p != 0)
  | _ => failure

def arg : P Arg := do
  let t ← tok
  match t with
  | "a" => do let e ← ex; pure (.one e)
  | "r" => do let r ← range; pure (.rng r)
  | _ => failure

def target : P Target := do
  let t ← tok
  match t with
  | "t" => do let c ← nat; let f ← nat; let n ← nat; let as ← rep n arg; pure (.task c f as)
  | "m" => do let e ← ex; pure (.coll e)
  | "new" => pure .new
  | "null" => pure .null
  | _ => failure

def dep : P Dep := do
  let t ← tok
  match t with
  | "U" => do let x ← target; pure ⟨none, x, none⟩
  | "B" => do let g ← ex; let x ← target; pure ⟨some g, x, none⟩
  | "T" => do let g ← ex; let x ← target; let y ← target; pure ⟨some g, x, some y⟩
  | _ => failure

def access : P Access := do
  let t ← tok
  match t with
  | "R" => pure .read | "RW" => pure .rw | "W" => pure .write | "CTL" => pure .ctl
  | _ => failure

def flow : P Flow := do
  let t ← tok
  if t != "F" then failure
  let a ← access
  let ni ← nat; let ins ← rep ni dep
  let no ← nat; let outs ← rep no dep
  pure ⟨a, ins, outs⟩

def taskClass : P TaskClass := do
  let t ← tok
  if t != "C" then failure
  let name ← tok
  let nl ← nat
  let ls ← rep nl localDef
  let place ← ex
  let pt ← tok
  let prio ← (match pt with
    | "N" => pure none
    | "Y" => do let e ← ex; pure (some e)
    | _ => failure : P (Option Expr))
  let nf ← nat
  let fs ← rep nf flow
  pure { name := name, locals := ls.map (·.1), isParam := ls.map (·.2), place := place, prio := prio, flows := fs }

def program : P Program := do
  let t ← tok
  if t != "P" then failure
  let ng ← nat
  let gs ← rep ng int
  let nc ← nat
  let cs ← rep nc taskClass
  pure ⟨gs, cs⟩

/-- parse a complete token list (no trailing tokens allowed) -/
def parseProgram (ws : List String) : Option Program :=
  match program ws with
  | some (p, []) => some p
  | _ => none

end ParsecVerif.Ptg.Parse
