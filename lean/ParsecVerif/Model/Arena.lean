/-
  Model of the arena allocator (parsec/arena.c) and of the per-thread memory pools
  (parsec/mempool.c, mempool.h).

  * layout arithmetic: `PARSEC_ALIGN` exactly as the macro computes it on 64-bit words
    (`(x + (a-1)) & ~(a-1)`), the size passed to the allocator and the data pointer
    (`parsec_arena_allocate_device_private`);
  * `parsec_arena_construct_ex`: parameter checks and the two limits;
  * a small-step concurrent machine for `parsec_arena_allocate_device_private` (count = 1 through
    `parsec_arena_get_chunk`, count > 1 directly) and `parsec_arena_release_chunk`: ONE transition
    per shared-memory action of the real code — a LIFO pop or push (assumed atomic: this is
    property C30, linearizability of parsec_lifo_t), an atomic fetch-and-add on `used` / `released`,
    the plain read of `released` that races by design.  Plain code (malloc, free, header writes)
    belongs to the transition of the preceding shared action.
  * thread memory pools as per-owner stacks.

  Hypotheses of the model, explicit: the LIFO is an atomic stack (C30); the allocator returns fresh
  storage (chunk identifiers are allocation sequence numbers) or NULL when told to fail; `used` and
  `released` do not wrap (they are unbounded integers here; the code uses int32_t).
-/
namespace ParsecVerif.Arena

/-- INT32_MAX: "no limit" -/
def INF : Nat := 2147483647

/-! ## Layout -/

/-- `PARSEC_ALIGN(x, a, size_t)` = `((x)+((a)-1)) & ~((a)-1)` on 64-bit unsigned words -/
def alignUp (x a : Nat) : Nat := ((x + (a - 1)) % 2 ^ 64) &&& ((2 ^ 64 - 1) ^^^ (a - 1))

structure Layout where
  elem  : Nat     -- arena->elem_size
  align : Nat     -- arena->alignment
  hdr   : Nat     -- sizeof(parsec_arena_chunk_t)
deriving Repr

/-- size requested from `data_malloc` for `count` elements -/
def chunkSize (L : Layout) (count : Nat) : Nat := alignUp (L.elem * count + L.align + L.hdr) L.align

/-- `chunk->data` for a chunk at address `chunk` -/
def dataAddr (L : Layout) (chunk : Nat) : Nat := alignUp (chunk + L.hdr) L.align

/-- `parsec_arena_construct_ex`: `none` = PARSEC_ERR_BAD_PARAM, else (max_used, max_released) -/
def construct (elem align maxMem maxCached : Nat) : Option (Nat × Nat) :=
  if align ≤ 1 ∨ align &&& (align - 1) ≠ 0 then none
  else if elem = 0 then none
  else some (if maxMem / elem > INF then INF else maxMem / elem,
             if maxCached / elem > INF then INF else maxCached / elem)

/-! ## The concurrent machine -/

structure Chunk where
  id    : Nat     -- allocation sequence number (the n-th call of data_malloc)
  count : Nat     -- chunk->count
deriving Repr, DecidableEq

inductive Op
  | alloc (count : Nat)     -- parsec_arena_allocate_device_private(copy, arena, count, 0, dtt)
  | release (k : Nat)       -- parsec_arena_release of the k-th chunk this thread holds
deriving Repr, DecidableEq

inductive Pc
  | idle
  | a1 (c : Chunk)      -- get_chunk: popped c, about to fetch_dec(released)
  | a2                  -- get_chunk: LIFO empty, about to fetch_inc(used)
  | a3                  -- get_chunk: allocation_failed, about to fetch_dec(used)
  | b0 (n : Nat)        -- count > 1: about to fetch_add(used, n)
  | b1 (n : Nat)        -- count > 1: allocation_failed, about to fetch_sub(used, n)
  | r1 (c : Chunk)      -- release: test `released < max_released` passed, about to fetch_inc(released)
  | r2 (c : Chunk)      -- release: about to push c
  | f (c : Chunk)       -- release: about to fetch_sub(used, count), then data_free
deriving Repr, DecidableEq

inductive Res
  | got (req : Nat) (c : Chunk) (fresh : Bool)
  | fail
  | cached (c : Chunk)
  | freed (c : Chunk)
  | rejected
deriving Repr, DecidableEq

/-- ghost events: the allocation call of thread `t` returned chunk `id` / thread `t` called release on it -/
inductive Ev
  | got (t id : Nat)
  | rel (t id : Nat)
deriving Repr, DecidableEq

structure Thread where
  pc   : Pc
  held : List Chunk
  todo : List Op
  out  : List Res      -- newest first
deriving Repr

structure Cfg where
  L       : Layout
  maxUsed : Nat
  maxRel  : Nat
  failing : List Nat   -- the data_malloc calls (by sequence number) that return NULL

structure State where
  used     : Int
  released : Int
  cache    : List Chunk      -- the arena's LIFO, top first
  mallocs  : Nat             -- number of data_malloc calls so far
  thr      : List Thread
  born     : List Chunk      -- ghost: chunks obtained from data_malloc, newest first
  died     : List Chunk      -- ghost: chunks given to data_free
  trace    : List Ev         -- ghost: newest first
deriving Repr

def mkThread (prog : List Op) : Thread := ⟨.idle, [], prog, []⟩

def init (progs : List (List Op)) : State :=
  { used := 0, released := 0, cache := [], mallocs := 0, thr := progs.map mkThread, born := [], died := [], trace := [] }

/-- effect of one micro step of one thread: its new local state and the new values of the shared
    variables (the step function is `apply s t (localStep cfg s t th)`, so that every step changes
    exactly one entry of the thread list) -/
structure Delta where
  th    : Thread
  used  : Int
  rel   : Int
  cache : List Chunk
  mall  : Nat
  born  : List Chunk
  died  : List Chunk
  evs   : List Ev

def apply (s : State) (t : Nat) (d : Delta) : State :=
  { used := d.used, released := d.rel, cache := d.cache, mallocs := d.mall, thr := s.thr.set t d.th,
    born := d.born ++ s.born, died := d.died ++ s.died, trace := d.evs ++ s.trace }

/-- nothing shared changes, the thread becomes `th` -/
def base (s : State) (th : Thread) : Delta := ⟨th, s.used, s.released, s.cache, s.mallocs, [], [], []⟩

def mallocOk (cfg : Cfg) (n : Nat) : Bool := !cfg.failing.contains n

/-- the thread finishes its operation with result `r` -/
def fin (th : Thread) (r : Res) : Thread := { th with pc := .idle, out := r :: th.out }

/-- the allocation returns `c` -/
def finGot (th : Thread) (req : Nat) (c : Chunk) (fresh : Bool) : Thread :=
  { th with pc := .idle, held := c :: th.held, out := .got req c fresh :: th.out }

/-- `data_malloc(chunkSize n)` succeeds and the allocation returns (on top of the shared effect `d`) -/
def mallocGot (d : Delta) (t : Nat) (n : Nat) : Delta :=
  { d with mall := d.mall + 1, born := [⟨d.mall, n⟩], evs := [.got t d.mall],
           th := finGot d.th n ⟨d.mall, n⟩ true }

/-- `data_malloc` returns NULL; the thread continues as `th` -/
def mallocFail (d : Delta) (th : Thread) : Delta := { d with mall := d.mall + 1, th := th }

/-- first shared action of `alloc 1`: the pop (`parsec_arena_get_chunk`) -/
def idleAlloc1 (cfg : Cfg) (s : State) (t : Nat) (th : Thread) : Delta :=
  match s.cache with
  | c :: rest =>
    if cfg.maxRel ≠ INF then { base s { th with pc := .a1 c } with cache := rest }
    else { base s (finGot th 1 c false) with cache := rest, evs := [.got t c.id] }
  | [] =>
    if cfg.maxUsed ≠ INF then base s { th with pc := .a2 }
    else if mallocOk cfg s.mallocs then mallocGot (base s th) t 1
    else mallocFail (base s th) (fin th .fail)

/-- `alloc n`, n > 1: nothing shared happens before the fetch_add when there is a limit -/
def idleAllocN (cfg : Cfg) (s : State) (t : Nat) (th : Thread) (n : Nat) : Delta :=
  if cfg.maxUsed ≠ INF then base s { th with pc := .b0 n }
  else if mallocOk cfg s.mallocs then mallocGot (base s th) t n
  else mallocFail (base s th) (fin th .fail)

/-- `parsec_arena_release_chunk`: the plain read of `released` and the choice of the branch -/
def idleRelease (cfg : Cfg) (s : State) (t : Nat) (th : Thread) (c : Chunk) : Delta :=
  if c.count = 1 ∧ s.released < (cfg.maxRel : Int) then
    if cfg.maxRel ≠ INF then { base s { th with pc := .r1 c } with evs := [.rel t c.id] }
    else { base s { th with pc := .r2 c } with evs := [.rel t c.id] }
  else if cfg.maxUsed ≠ 0 ∧ cfg.maxUsed ≠ INF then { base s { th with pc := .f c } with evs := [.rel t c.id] }
  else { base s (fin th (.freed c)) with evs := [.rel t c.id], died := [c] }

def localStep (cfg : Cfg) (s : State) (t : Nat) (th : Thread) : Delta :=
  match th.pc with
  | .idle =>
    match th.todo with
    | [] => base s th
    | .alloc 0 :: rest => base s (fin { th with todo := rest } .rejected)
    | .alloc 1 :: rest => idleAlloc1 cfg s t { th with todo := rest }
    | .alloc (n + 2) :: rest => idleAllocN cfg s t { th with todo := rest } (n + 2)
    | .release k :: rest =>
      match th.held[k]? with
      | none => base s (fin { th with todo := rest } .rejected)
      | some c => idleRelease cfg s t { th with todo := rest, held := th.held.eraseIdx k } c
  | .a1 c => { base s (finGot th 1 c false) with rel := s.released - 1, evs := [.got t c.id] }
  | .a2 =>
    if s.used + 1 > (cfg.maxUsed : Int) then { base s { th with pc := .a3 } with used := s.used + 1 }
    else if mallocOk cfg s.mallocs then mallocGot { base s th with used := s.used + 1 } t 1
    else mallocFail { base s th with used := s.used + 1 } { th with pc := .a3 }
  | .a3 => { base s (fin th .fail) with used := s.used - 1 }
  | .b0 n =>
    if s.used + n > (cfg.maxUsed : Int) then { base s { th with pc := .b1 n } with used := s.used + n }
    else if mallocOk cfg s.mallocs then mallocGot { base s th with used := s.used + n } t n
    else mallocFail { base s th with used := s.used + n } { th with pc := .b1 n }
  | .b1 n => { base s (fin th .fail) with used := s.used - n }
  | .r1 c => { base s { th with pc := .r2 c } with rel := s.released + 1 }
  | .r2 c => { base s (fin th (.cached c)) with cache := c :: s.cache }
  | .f c => { base s (fin th (.freed c)) with used := s.used - c.count, died := [c] }

/-- one micro step of thread `t` (nothing happens if `t` is not a thread) -/
def step (cfg : Cfg) (s : State) (t : Nat) : State :=
  match s.thr[t]? with
  | none => s
  | some th => apply s t (localStep cfg s t th)

def run (cfg : Cfg) (progs : List (List Op)) (sched : List Nat) : State :=
  sched.foldl (step cfg) (init progs)

def isIdle (s : State) (t : Nat) : Bool :=
  match s.thr[t]? with
  | some th => th.pc == .idle
  | none => true

/-- run the current operation of thread `t` to its end -/
def finishOp (cfg : Cfg) : Nat → State → Nat → State
  | 0, s, _ => s
  | k + 1, s, t => if isIdle s t then s else finishOp cfg k (step cfg s t) t

/-- a whole operation of thread `t` (an operation has at most 3 micro steps) -/
def doOp (cfg : Cfg) (s : State) (t : Nat) : State := finishOp cfg 3 (step cfg s t) t

/-- sequential use: whole operations, one after the other (any thread each time) -/
def runOps (cfg : Cfg) (s : State) (ts : List Nat) : State := ts.foldl (doOp cfg) s

/-! ## Thread memory pools (mempool.c / mempool.h) -/

namespace Pool

/-- an element: identifier (allocation sequence number) and the owner written at `pool_owner_offset` -/
structure Elt where
  id    : Nat
  owner : Nat
deriving Repr, DecidableEq

inductive POp
  | alloc (t : Nat)    -- parsec_thread_mempool_allocate(&mempool->thread_mempools[t])
  | free (id : Nat)    -- parsec_mempool_free(mempool, elt) by any thread
deriving Repr, DecidableEq

structure PState where
  pools : List (List Elt)    -- thread_mempools[t].mempool, top first
  nbElt : List Nat           -- thread_mempools[t].nb_elt
  out   : List Elt           -- elements currently allocated (the caller's)
  next  : Nat
deriving Repr

def pinit (n : Nat) : PState := ⟨List.replicate n [], List.replicate n 0, [], 0⟩

/-- `mempool->elt_size` -/
def eltSize (asked itemSize : Nat) : Nat := if asked < itemSize then itemSize else asked

inductive PRes
  | got (e : Elt) (fresh : Bool)
  | freed (owner : Nat)
  | rejected
deriving Repr, DecidableEq

def pstep (s : PState) : POp → PState × PRes
  | .alloc t =>
    match s.pools[t]? with
    | none => (s, .rejected)
    | some (e :: rest) => ({ s with pools := s.pools.set t rest, out := e :: s.out }, .got e false)
    | some [] =>
      ({ s with nbElt := s.nbElt.set t (s.nbElt.getD t 0 + 1), out := ⟨s.next, t⟩ :: s.out, next := s.next + 1 },
       .got ⟨s.next, t⟩ true)
  | .free id =>
    match s.out.findIdx? (fun e => e.id == id) with
    | none => (s, .rejected)
    | some i =>
      match s.out[i]? with
      | none => (s, .rejected)
      | some e => ({ s with pools := s.pools.set e.owner (e :: s.pools.getD e.owner []), out := s.out.eraseIdx i }, .freed e.owner)

def prun (s : PState) (ops : List POp) : PState := ops.foldl (fun s o => (pstep s o).1) s

end Pool

end ParsecVerif.Arena
