/-
  Generic dataflow machine: the abstract runtime shared by the PTG and DTD layers.

  A task graph is a number of nodes `n` and a list of dependency edges `E : List (src × dst)`
  (duplicates allowed: one entry per dependency to release).  The machine mirrors the runtime's
  life cycle of a task (parsec/scheduling.c, parsec/parsec.c):

    waiting --(last input released: update_deps returns 1; __parsec_schedule)--> ready
    ready   --(select by a worker: __parsec_get_next_task)--> running          [log: start]
    running --(body returned AGAIN: rescheduled)--> ready                       [log: again]
    running --(body returned DONE: __parsec_complete_execution)--> ended       [log: end_, output value fixed]
    ended node releases its outgoing dependencies ONE AT A TIME, in any order, interleaved with
    everything else (release_deps / parsec_release_local_OUT_dependencies): the edge leaves `pending`;
    when no pending edge targets the destination any more it becomes ready (C07: exactly one release
    sees the word complete).

  Any number of workers: a run is any sequence of enabled transitions.
-/
namespace ParsecVerif.Dataflow

inductive Status | waiting | ready | running | ended
deriving Repr, DecidableEq

inductive Ev | start (i : Nat) | again (i : Nat) | end_ (i : Nat)
deriving Repr, DecidableEq

structure Graph where
  n : Nat
  E : List (Nat × Nat)
deriving Repr

structure St where
  status  : List Status
  pending : List (Nat × Nat)
  again   : List Nat          -- how many more times the body of node i will answer AGAIN
  val     : List (Option Nat) -- output value of ended nodes
  log     : List Ev
deriving Repr

inductive Tr
  | start (i : Nat)
  | again (i : Nat)
  | finish (i : Nat)
  | release (src dst : Nat)
deriving Repr, DecidableEq

def hasIn (l : List (Nat × Nat)) (j : Nat) : Bool := l.any (fun e => e.2 == j)

/-- predecessors of `j`, one per incoming dependency, in edge order -/
def predsOf (g : Graph) (j : Nat) : List Nat := (g.E.filter (fun e => e.2 == j)).map (·.1)

def init (g : Graph) (again : List Nat) : St :=
  { status := (List.range g.n).map (fun j => if hasIn g.E j then Status.waiting else Status.ready),
    pending := g.E, again := again, val := List.replicate g.n none, log := [] }

/-- the value a node computes: a deterministic function `F` of the node and its inputs -/
def inputs (g : Graph) (s : St) (i : Nat) : List (Option Nat) := (predsOf g i).map (fun p => (s.val[p]?).getD none)

def enabled (s : St) : Tr → Bool
  | .start i => s.status[i]? == some .ready
  | .again i => s.status[i]? == some .running && decide (0 < (s.again[i]?).getD 0)
  | .finish i => s.status[i]? == some .running && (s.again[i]?).getD 0 == 0
  | .release a b => s.status[a]? == some .ended && s.pending.contains (a, b)

def step (g : Graph) (F : Nat → List (Option Nat) → Nat) (s : St) (t : Tr) : St :=
  if !enabled s t then s else
  match t with
  | .start i => { s with status := s.status.set i .running, log := s.log ++ [.start i] }
  | .again i => { s with status := s.status.set i .ready, again := s.again.set i ((s.again[i]?).getD 0 - 1),
                         log := s.log ++ [.again i] }
  | .finish i => { s with status := s.status.set i .ended, val := s.val.set i (some (F i (inputs g s i))),
                          log := s.log ++ [.end_ i] }
  | .release a b =>
    let p := s.pending.erase (a, b)
    { s with pending := p, status := if hasIn p b then s.status else s.status.set b .ready }

def run (g : Graph) (F : Nat → List (Option Nat) → Nat) (again : List Nat) (ts : List Tr) : St :=
  ts.foldl (step g F) (init g again)

/-- the graph is well formed: edges stay inside the node range and there is a rank (topological
    numbering) that every edge increases -/
def WF (g : Graph) (rank : Nat → Nat) : Prop :=
  (∀ e ∈ g.E, e.1 < g.n ∧ e.2 < g.n) ∧ (∀ e ∈ g.E, rank e.1 < rank e.2)

def quiescent (s : St) : Prop := s.pending = [] ∧ ∀ st ∈ s.status, st = Status.ended

end ParsecVerif.Dataflow
