/-
  Model of parsec/class/info.c: the info registry (sorted id list with hole reuse) and the
  per-object info arrays (growth on demand, set / get / test_and_set).
  Values are naturals, 0 = NULL.  One model step = one API call (each call runs under the list
  lock, resp. the array's rwlock; the CAS of test_and_set is a single atomic step).
-/
namespace ParsecVerif.Info

structure Entry where
  iid  : Nat
  name : String
  ctor : Option Nat      -- value produced by the constructor, if one was registered
  dtor : Bool
deriving Repr, DecidableEq

/-- an object array: info_objects[0 .. known_infos-1] -/
abbrev OA := List Nat

structure St where
  entries : List Entry   -- info_list, in list order
  maxId   : Int          -- nfo->max_id
  oas     : List OA      -- object arrays in creation order (handle = index); ioa_list is the reverse
deriving Repr, DecidableEq

def init : St := ⟨[], -1, []⟩

/-- The scan of `parsec_info_register`: walk while `iid = ret`, counting; stop at the first hole.
    Returns the id to assign and the number of entries that precede the insertion point. -/
def findHole : List Entry → Nat → Nat × Nat
  | [], ret => (ret, 0)
  | e :: t, ret =>
    if e.iid = ret then ((findHole t (ret + 1)).1, (findHole t (ret + 1)).2 + 1)
    else (ret, 0)

/-- insert `x` so that exactly `k` elements precede it (`parsec_list_nolock_add_before`) -/
def insertAt {α} (l : List α) (k : Nat) (x : α) : List α := l.take k ++ x :: l.drop k

def register (s : St) (name : String) (ctor : Option Nat) (dtor : Bool) : St × Int :=
  if s.entries.any (fun e => e.name == name) then (s, -1)
  else
    let (ret, k) := findHole s.entries 0
    ({ s with entries := insertAt s.entries k ⟨ret, name, ctor, dtor⟩,
              maxId := if (ret : Int) > s.maxId then ret else s.maxId }, ret)

/-- The scan as it was before the repair (`next_item = NEXT(item)`): the new entry is linked
    *after* the entry that revealed the hole.  Kept to state the finding as a theorem. -/
def registerBuggy (s : St) (name : String) (ctor : Option Nat) (dtor : Bool) : St × Int :=
  if s.entries.any (fun e => e.name == name) then (s, -1)
  else
    let (ret, k) := findHole s.entries 0
    let k' := if k < s.entries.length then k + 1 else k
    ({ s with entries := insertAt s.entries k' ⟨ret, name, ctor, dtor⟩,
              maxId := if (ret : Int) > s.maxId then ret else s.maxId }, ret)

def maxIid : List Entry → Int
  | [] => -1
  | e :: t => if (e.iid : Int) > maxIid t then e.iid else maxIid t

def setSlot (l : List Nat) (i v : Nat) : List Nat := l.set i v

/-- unregister: remove the first entry with this id; if it has a destructor, destroy and clear the
    slot of every object array that knows the id (in ioa_list order).  Returns the destroyed
    values. -/
def unregister (s : St) (iid : Nat) : St × Int × List Nat :=
  match s.entries.find? (fun e => e.iid == iid) with
  | none => (s, -1, [])
  | some e =>
    let destroyed := if e.dtor then
        s.oas.reverse.filterMap (fun oa => match oa[iid]? with
                                           | some v => if v ≠ 0 then some v else none
                                           | none => none)
      else []
    let oas' := if e.dtor then s.oas.map (fun oa => setSlot oa iid 0) else s.oas
    let entries' := s.entries.erase e
    let maxId' := if (iid : Int) = s.maxId then maxIid entries' else s.maxId
    ({ entries := entries', maxId := maxId', oas := oas' }, iid, destroyed)

def lookup (s : St) (name : String) : Int :=
  match s.entries.find? (fun e => e.name == name) with
  | some e => e.iid
  | none => -1

def oaNew (s : St) : St × Nat :=
  ({ s with oas := s.oas ++ [List.replicate (s.maxId + 1).toNat 0] }, s.oas.length)

/-- `parsec_ioa_resize_and_rdlock`: grow to `max_id + 1` slots, new slots are NULL -/
def grow (maxId : Int) (oa : OA) (iid : Nat) : OA :=
  if iid ≥ oa.length then oa ++ List.replicate ((maxId + 1).toNat - oa.length) 0 else oa

def slotOf (oa : OA) (iid : Nat) : Nat := (oa[iid]?).getD 0

def isRegistered (s : St) (iid : Nat) : Bool := s.entries.any (fun e => e.iid == iid)

/-! The three accessors, as functions of the registry part (read only) and the arrays.
    Precondition of the API (else `none`, the harness does not issue the call): the array handle
    exists and the id is within the registry's id range; `get` needs the id to be registered. -/

def setOA (maxId : Int) (oas : List OA) (a iid v : Nat) : Option (List OA × Nat) :=
  match oas[a]? with
  | none => none
  | some oa =>
    if (iid : Int) ≤ maxId then
      some (oas.set a (setSlot (grow maxId oa iid) iid v), slotOf (grow maxId oa iid) iid)
    else none

def tasOA (maxId : Int) (oas : List OA) (a iid new old : Nat) : Option (List OA × Nat) :=
  match oas[a]? with
  | none => none
  | some oa =>
    if (iid : Int) ≤ maxId then
      if slotOf (grow maxId oa iid) iid = old then
        some (oas.set a (setSlot (grow maxId oa iid) iid new), new)
      else some (oas.set a (grow maxId oa iid), slotOf (grow maxId oa iid) iid)
    else none

def getOA (entries : List Entry) (maxId : Int) (oas : List OA) (a iid : Nat) : Option (List OA × Nat) :=
  match oas[a]? with
  | none => none
  | some oa =>
    if (iid : Int) ≤ maxId then
      match entries.find? (fun e => e.iid == iid) with
      | none => none
      | some e =>
        if slotOf (grow maxId oa iid) iid ≠ 0 then
          some (oas.set a (grow maxId oa iid), slotOf (grow maxId oa iid) iid)
        else
          match e.ctor with
          | none => some (oas.set a (grow maxId oa iid), 0)
          | some d =>
            if d = 0 then some (oas.set a (grow maxId oa iid), 0)
            else some (oas.set a (setSlot (grow maxId oa iid) iid d), d)   -- test_and_set(NULL → d) succeeds
    else none

def withOAs (s : St) (r : Option (List OA × Nat)) : Option (St × Nat) :=
  r.map fun p => ({ s with oas := p.1 }, p.2)

def set (s : St) (a iid v : Nat) : Option (St × Nat) := withOAs s (setOA s.maxId s.oas a iid v)
def tas (s : St) (a iid new old : Nat) : Option (St × Nat) := withOAs s (tasOA s.maxId s.oas a iid new old)
def get (s : St) (a iid : Nat) : Option (St × Nat) := withOAs s (getOA s.entries s.maxId s.oas a iid)

/-! ## Synchronisation footprint

The sequence of atomic primitives (hook H1 kinds: `C` = CAS, `R` = read-modify-write, `F` = fence)
each API call executes when it runs alone.  It is part of the correspondence: the theorems above
treat each call as atomic *because* every access to the list / the slot array happens inside these
lock sections; a change of the locking discipline changes the footprint. -/

def fpListSection : String := "CF"                    -- parsec_list_lock … parsec_list_unlock
def fpRdLock : String := "RF"
def fpRdUnlock : String := "FR"
def fpWrLock : String := "RRF"
def fpWrUnlock : String := "FR"

/-- `parsec_ioa_resize_and_rdlock` -/
def fpResize (oa : OA) (iid : Nat) : String :=
  if iid ≥ oa.length then fpRdLock ++ fpRdUnlock ++ fpWrLock ++ fpWrUnlock ++ fpRdLock else fpRdLock

def fpSet (s : St) (a iid : Nat) : String :=
  match s.oas[a]? with
  | some oa => fpResize oa iid ++ fpRdUnlock
  | none => ""

def fpTas (s : St) (a iid : Nat) : String :=
  match s.oas[a]? with
  | some oa => fpResize oa iid ++ "C" ++ fpRdUnlock
  | none => ""

def fpGet (s : St) (a iid : Nat) : String :=
  match s.oas[a]? with
  | none => ""
  | some oa =>
    let pre := fpResize oa iid ++ fpRdUnlock
    if slotOf (grow s.maxId oa iid) iid ≠ 0 then pre
    else
      match s.entries.find? (fun e => e.iid == iid) with
      | none => pre
      | some e =>
        match e.ctor with
        | none => pre ++ fpListSection
        | some d => if d = 0 then pre ++ fpListSection else pre ++ fpListSection ++ fpRdLock ++ "C" ++ fpRdUnlock

def fpUnregister (s : St) (iid : Nat) : String :=
  match s.entries.find? (fun e => e.iid == iid) with
  | none => fpListSection
  | some e => if e.dtor then "CCFF" else fpListSection

end ParsecVerif.Info
