/-
  C24 — the limit decision logic of parsec-ptgpp, over a JDF *shape*.

  Mirrors, branch by branch (ICLDisco/parsec, parsec/interfaces/ptg/ptg-compiler):

  * `parsec.y`  rule `function`:  `jdf_assign_ldef_index(e)` then `jdf_flatten_function(e)`;
                 a negative return is `YYERROR` → `yyparse() > 0` → `exit(1)` in `main`.
  * `jdf.c`     `jdf_assign_ldef_index`            → `nbMaxLocalDef`
                `jdf_flatten_function` / `jdf_reorder_dep_list_by_type` (the running
                `dep_in_index` / `dep_out_index` and the test
                `(1U << dep_in_index) > 0x1FFFFFFF || (1U << dep_out_index) > 0x00FFFFFF`)
                                                    → `flattenOk`
                `jdf_sanity_check_flows_and_deps_number` → `sanityDiags`
  * `main.c`    `rc = jdf_sanity_checks(wmask);
                 if ((wmask & JDF_WARNINGS_ARE_ERROR) && rc != 0) return 1;`   → `decide`
  * `jdf2c.c`   `jdf_generate_task_typedef`  (`nb_locals > MAX_LOCAL_COUNT` → `jdf_fatal; exit(1)`;
                 `#if MAX_LOCAL_COUNT < n #error`, `#if MAX_PARAM_COUNT < nb_flows #error`),
                `jdf_generate_dataflow` (`#if MAX_DEP_IN_COUNT < deps_in #error`, same for OUT),
                `jdf_generate_one_function` (`#if MAX_PARAM_COUNT < in_flows/out_flows #error`)
                                                    → `genReject`, `emitErrors`

  A shape keeps exactly what these branches read: per task class the number of locals, the
  local definitions (`[i = a .. b]`) attached to locals, to dependencies and to the calls of a
  dependency, and per flow its access keyword and, per dependency, direction and guard kind.
  Everything else of the program is assumed to pass the other sanity checks (the generator of the
  check renders shapes into such programs; the tie verifies it).

  No Mathlib.
-/
namespace ParsecVerif.JdfLimits

/-- The four build-time constants of `parsec_options.h`. -/
structure Limits where
  maxParam  : Nat   -- MAX_PARAM_COUNT
  maxLocal  : Nat   -- MAX_LOCAL_COUNT
  maxDepIn  : Nat   -- MAX_DEP_IN_COUNT
  maxDepOut : Nat   -- MAX_DEP_OUT_COUNT
deriving Repr, DecidableEq

/-- CMake defaults (CMakeLists.txt:151-154). -/
def Limits.std : Limits := ⟨20, 20, 10, 10⟩

/-- `jdf_guard_type_t`. -/
inductive Guard | uncond | binary | ternary
deriving Repr, DecidableEq

/-- Flow keyword (`parsec.l`): `CTL`, `READ`/`RO`, `WRITE`/`WO`, `RW` (also the default). -/
inductive Access | ctl | read | write | rw
deriving Repr, DecidableEq

def Access.isRead : Access → Bool     -- JDF_FLOW_TYPE_READ & flow_flags
  | .read => true | .rw => true | _ => false
def Access.isWrite : Access → Bool    -- JDF_FLOW_TYPE_WRITE & flow_flags
  | .write => true | .rw => true | _ => false

/-- One `jdf_dep_t`: `ARROW named_expr guarded_call properties`. -/
structure Dep where
  out     : Bool    -- `->` (JDF_DEP_FLOW_OUT) or `<-` (JDF_DEP_FLOW_IN)
  guard   : Guard
  ldDep   : Nat     -- local definitions of the dependency (`dep->local_defs`)
  ldTrue  : Nat     -- … of `guard->calltrue`
  ldFalse : Nat     -- … of `guard->callfalse` (read only when the guard is ternary)
deriving Repr, DecidableEq

structure Flow where
  acc  : Access
  deps : List Dep
deriving Repr, DecidableEq

structure Func where
  nlocals  : Nat        -- entries of `f->locals` (parameters are locals)
  ldLocals : Nat        -- local definitions inside the expressions of the locals
  flows    : List Flow
deriving Repr, DecidableEq

/-- A program: its task classes in source order. -/
structure Prog where
  funcs : List Func
deriving Repr, DecidableEq

/-- Command line: only `--Werror` matters to the decision. -/
structure Cfg where
  werror : Bool
deriving Repr, DecidableEq

/-! ### counts read by the code -/

def Flow.depsIn (fl : Flow) : Nat := (fl.deps.filter (fun d => !d.out)).length
def Flow.depsOut (fl : Flow) : Nat := (fl.deps.filter (fun d => d.out)).length

def Func.readFlows (f : Func) : Nat := (f.flows.filter (fun fl => fl.acc.isRead)).length
def Func.writeFlows (f : Func) : Nat := (f.flows.filter (fun fl => fl.acc.isWrite)).length

/-! ### `jdf_assign_ldef_index` -/

/-- `nb_ldef_for_deps` after the loop over `dep->local_defs`. -/
def Dep.ldForDeps (base : Nat) (d : Dep) : Nat := base + d.ldDep

/-- `nb_ldef_for_calls` at the end of the `switch`: in the ternary case the counter is reset to
    `nb_ldef_for_deps` before `callfalse` is walked, so only `callfalse` survives. -/
def Dep.ldForCalls (base : Nat) (d : Dep) : Nat :=
  match d.guard with
  | .ternary => d.ldForDeps base + d.ldFalse
  | _        => d.ldForDeps base + d.ldTrue

/-- The two `if (… > f->nb_max_local_def) f->nb_max_local_def = …` after each dependency. -/
def ldefStep (base : Nat) (cur : Nat) (d : Dep) : Nat :=
  max (max cur (d.ldForDeps base)) (d.ldForCalls base)

/-- `f->nb_max_local_def` as computed by `jdf_assign_ldef_index`. -/
def Func.nbMaxLocalDef (f : Func) : Nat :=
  (f.flows.flatMap (·.deps)).foldl (ldefStep f.ldLocals) f.ldLocals

/-- `nb_locals` of `jdf_generate_task_typedef`. -/
def Func.nbLocals (f : Func) : Nat := f.nlocals + f.nbMaxLocalDef

/-! ### `jdf_flatten_function` -/

/-- `(1U << i) > 0x1FFFFFFF || (1U << o) > 0x00FFFFFF` with the x86 `shl` (count taken modulo 32;
    the C expression is undefined for counts ≥ 32 — see `shl_form`). -/
def maskReject (i o : Nat) : Bool := decide (29 ≤ i % 32) || decide (24 ≤ o % 32)

/-- The loop over the flows of one function: running `dep_in_index`, `dep_out_index`, test after
    each flow.  `true` = the function is accepted. -/
def flattenGo : Nat → Nat → List Flow → Bool
  | _, _, [] => true
  | i, o, fl :: rest =>
    if maskReject (i + fl.depsIn) (o + fl.depsOut) then false
    else flattenGo (i + fl.depsIn) (o + fl.depsOut) rest

def Func.flattenOk (f : Func) : Bool := flattenGo 0 0 f.flows

/-- Index (source order) of the first task class on which the parser stops. -/
def parseReject : Nat → List Func → Option Nat
  | _, [] => none
  | k, f :: rest => if f.flattenOk then parseReject (k + 1) rest else some k

/-! ### `jdf_sanity_check_flows_and_deps_number` -/

/-- One `jdf_warn` of the check; `f`/`fl` are source-order indexes, `n` the count printed. -/
inductive Diag
  | depsIn  (f fl n : Nat)
  | depsOut (f fl n : Nat)
  | flowsIn  (f n : Nat)
  | flowsOut (f n : Nat)
deriving Repr, DecidableEq

def flowDiags (L : Limits) (fi : Nat) (k : Nat) (fl : Flow) : List Diag :=
  (if L.maxDepIn < fl.depsIn then [Diag.depsIn fi k fl.depsIn] else []) ++
  (if L.maxDepOut < fl.depsOut then [Diag.depsOut fi k fl.depsOut] else [])

def flowsDiags (L : Limits) (fi : Nat) : Nat → List Flow → List Diag
  | _, [] => []
  | k, fl :: rest => flowDiags L fi k fl ++ flowsDiags L fi (k + 1) rest

def funcDiags (L : Limits) (fi : Nat) (f : Func) : List Diag :=
  flowsDiags L fi 0 f.flows ++
  (if L.maxParam < f.readFlows then [Diag.flowsIn fi f.readFlows] else []) ++
  (if L.maxParam < f.writeFlows then [Diag.flowsOut fi f.writeFlows] else [])

def progDiags (L : Limits) : Nat → List Func → List Diag
  | _, [] => []
  | k, f :: rest => funcDiags L k f ++ progDiags L (k + 1) rest

/-- The warnings printed; the function returns `-(their number)`. -/
def sanityDiags (L : Limits) (p : Prog) : List Diag := progDiags L 0 p.funcs

/-! ### `jdf2c`: the only limit that makes the generator itself stop -/

/-- `jdf->functions` is in reverse source order; the typedefs are generated in that order and the
    first task class with `nb_locals > MAX_LOCAL_COUNT` is fatal.  Returns its source index. -/
def genRejectGo (L : Limits) : Nat → List Func → Option Nat
  | _, [] => none
  | k, f :: rest =>
    match genRejectGo L (k + 1) rest with
    | some j => some j
    | none => if L.maxLocal < f.nbLocals then some k else none

def genReject (L : Limits) (p : Prog) : Option Nat := genRejectGo L 0 p.funcs

/-! ### what the emitted C refuses to compile -/

/-- A reason for which the C compiler stops on the emitted code. -/
inductive CErr
  | flows (f n : Nat)       -- `#if MAX_PARAM_COUNT < nb_flows`  (.h, task typedef)
  | unused (f n : Nat)      -- `parsec_data_pair_t unused[MAX_LOCAL_COUNT-nb_flows]`: negative size
  | depsIn (f fl n : Nat)   -- `#if MAX_DEP_IN_COUNT < deps_in`
  | depsOut (f fl n : Nat)  -- `#if MAX_DEP_OUT_COUNT < deps_out`
  | rdFlows (f n : Nat)     -- `#if MAX_PARAM_COUNT < in_flows`
  | wrFlows (f n : Nat)     -- `#if MAX_PARAM_COUNT < out_flows`
  | noLdef (f : Nat)        -- `.ldef[k]` used although `nb_max_local_def == 0` (no such member)
deriving Repr, DecidableEq

def Dep.ldUsed (d : Dep) : Nat :=
  d.ldDep + d.ldTrue + (match d.guard with | .ternary => d.ldFalse | _ => 0)

/-- Number of local definitions the generated code refers to. -/
def Func.ldUsed (f : Func) : Nat :=
  f.ldLocals + ((f.flows.flatMap (·.deps)).map Dep.ldUsed).sum

def flowErrs (L : Limits) (fi k : Nat) (fl : Flow) : List CErr :=
  (if L.maxDepIn < fl.depsIn then [CErr.depsIn fi k fl.depsIn] else []) ++
  (if L.maxDepOut < fl.depsOut then [CErr.depsOut fi k fl.depsOut] else [])

def flowsErrs (L : Limits) (fi : Nat) : Nat → List Flow → List CErr
  | _, [] => []
  | k, fl :: rest => flowErrs L fi k fl ++ flowsErrs L fi (k + 1) rest

def funcErrs (L : Limits) (fi : Nat) (f : Func) : List CErr :=
  (if L.maxParam < f.flows.length then [CErr.flows fi f.flows.length] else []) ++
  (if L.maxLocal < f.flows.length then [CErr.unused fi f.flows.length] else []) ++
  flowsErrs L fi 0 f.flows ++
  (if L.maxParam < f.readFlows then [CErr.rdFlows fi f.readFlows] else []) ++
  (if L.maxParam < f.writeFlows then [CErr.wrFlows fi f.writeFlows] else []) ++
  (if f.nbMaxLocalDef = 0 ∧ 0 < f.ldUsed then [CErr.noLdef fi] else [])

def progErrs (L : Limits) : Nat → List Func → List CErr
  | _, [] => []
  | k, f :: rest => funcErrs L k f ++ progErrs L (k + 1) rest

def emitErrors (L : Limits) (p : Prog) : List CErr := progErrs L 0 p.funcs

/-! ### the decision (`main`) -/

inductive Outcome
  | rejectParse (f : Nat)               -- exit 1 from yyparse: "too many input or output flow …"
  | rejectSanity (ds : List Diag)       -- exit 1: --Werror and the sanity checks answered ≠ 0
  | rejectGen (f : Nat) (ds : List Diag)  -- exit 1 from jdf2c: "Task class … uses %d locals"
  | emitBad (ds : List Diag) (es : List CErr)   -- exit 0, the emitted C does not compile
  | emitOk (ds : List Diag)             -- exit 0, nothing in the emitted C stops the compiler
deriving Repr, DecidableEq

/-- exit 0: does the emitted C compile? -/
def emitStage (L : Limits) (p : Prog) (ds : List Diag) : Outcome :=
  if (emitErrors L p).isEmpty then .emitOk ds else .emitBad ds (emitErrors L p)

/-- `jdf2c` -/
def genStage (L : Limits) (p : Prog) (ds : List Diag) : Outcome :=
  match genReject L p with
  | some k => .rejectGen k ds
  | none => emitStage L p ds

/-- `main`: yyparse, then `jdf_sanity_checks` (its answer is looked at only under `--Werror`),
    then `jdf2c`. -/
def decision (L : Limits) (c : Cfg) (p : Prog) : Outcome :=
  match parseReject 0 p.funcs with
  | some k => .rejectParse k
  | none =>
    if c.werror && !(sanityDiags L p).isEmpty then .rejectSanity (sanityDiags L p)
    else genStage L p (sanityDiags L p)

/-- ptgpp itself refused the program (diagnostic + non-zero exit status). -/
def Outcome.rejected : Outcome → Bool
  | .rejectParse _ | .rejectSanity _ | .rejectGen _ _ => true
  | _ => false

/-- ptgpp refused it, or the C it emitted is refused by the C compiler. -/
def Outcome.notClean : Outcome → Bool
  | .emitOk _ => false
  | _ => true

/-! ### the limits as the runtime sees them (written from `parsec_internal.h`, not from ptgpp)

  `parsec_flow_t.dep_in[MAX_DEP_IN_COUNT]`, `.dep_out[MAX_DEP_OUT_COUNT]`: one entry per *call*
  (a ternary dependency yields two entries: `…_iftrue`, `…_iffalse`);
  `parsec_task_class_t.in/out[MAX_PARAM_COUNT]`, `parsec_task_t.data[MAX_PARAM_COUNT]` indexed by
  `flow_index < nb_flows`; `parsec_task_t.locals[MAX_LOCAL_COUNT]` holds the locals and every slot
  `ldef[k]` the generated code writes; an output dependency index must fit the 24 bits of
  `PARSEC_ACTION_DEPS_MASK`, an input one the 29 bits left by `PARSEC_DEPENDENCIES_BITMASK`. -/

def Dep.entries (d : Dep) : Nat := match d.guard with | .ternary => 2 | _ => 1

def Flow.entriesIn (fl : Flow) : Nat := ((fl.deps.filter (fun d => !d.out)).map Dep.entries).sum
def Flow.entriesOut (fl : Flow) : Nat := ((fl.deps.filter (fun d => d.out)).map Dep.entries).sum

/-- Slots of `ldef[]` really needed by one dependency. -/
def Dep.ldNeed (d : Dep) : Nat :=
  d.ldDep + (match d.guard with | .ternary => max d.ldTrue d.ldFalse | _ => d.ldTrue)

def Func.ldNeed (f : Func) : Nat :=
  f.ldLocals + ((f.flows.flatMap (·.deps)).map Dep.ldNeed).foldl max 0

def Func.totalIn (f : Func) : Nat := (f.flows.map Flow.depsIn).sum
def Func.totalOut (f : Func) : Nat := (f.flows.map Flow.depsOut).sum

/-- The limits as ptgpp counts them (one per `jdf_dep_t`, `nb_max_local_def`). -/
def Func.exceedsCounted (L : Limits) (f : Func) : Prop :=
  L.maxLocal < f.nbLocals ∨ L.maxParam < f.flows.length ∨
  L.maxParam < f.readFlows ∨ L.maxParam < f.writeFlows ∨
  ∃ fl ∈ f.flows, L.maxDepIn < fl.depsIn ∨ L.maxDepOut < fl.depsOut

def exceedsCounted (L : Limits) (p : Prog) : Prop := ∃ f ∈ p.funcs, f.exceedsCounted L

/-- The limits as the runtime structures impose them. -/
def Func.exceedsRuntime (L : Limits) (f : Func) : Prop :=
  L.maxLocal < f.nlocals + f.ldNeed ∨ L.maxParam < f.flows.length ∨
  24 ≤ f.totalOut ∨ 29 ≤ f.totalIn ∨
  ∃ fl ∈ f.flows, L.maxDepIn < fl.entriesIn ∨ L.maxDepOut < fl.entriesOut

def exceedsRuntime (L : Limits) (p : Prog) : Prop := ∃ f ∈ p.funcs, f.exceedsRuntime L

instance (L : Limits) (f : Func) : Decidable (f.exceedsCounted L) := by
  unfold Func.exceedsCounted; infer_instance
instance (L : Limits) (p : Prog) : Decidable (exceedsCounted L p) := by
  unfold exceedsCounted; infer_instance
instance (L : Limits) (f : Func) : Decidable (f.exceedsRuntime L) := by
  unfold Func.exceedsRuntime; infer_instance
instance (L : Limits) (p : Prog) : Decidable (exceedsRuntime L p) := by
  unfold exceedsRuntime; infer_instance

/-! ### canonical text (shared with the check plugin) -/

def Diag.str : Diag → String
  | .depsIn f fl n => s!"din:{f}.{fl}:{n}"
  | .depsOut f fl n => s!"dout:{f}.{fl}:{n}"
  | .flowsIn f n => s!"rd:{f}:{n}"
  | .flowsOut f n => s!"wr:{f}:{n}"

def CErr.str : CErr → String
  | .flows f n => s!"flows:{f}:{n}"
  | .unused f n => s!"unused:{f}:{n}"
  | .depsIn f fl n => s!"din:{f}.{fl}:{n}"
  | .depsOut f fl n => s!"dout:{f}.{fl}:{n}"
  | .rdFlows f n => s!"rd:{f}:{n}"
  | .wrFlows f n => s!"wr:{f}:{n}"
  | .noLdef f => s!"noldef:{f}"

def strList (l : List String) : String := "[" ++ " ".intercalate l ++ "]"

def Outcome.str : Outcome → String
  | .rejectParse f => s!"reject-parse f={f}"
  | .rejectSanity ds => s!"reject-sanity warn={strList (ds.map Diag.str)}"
  | .rejectGen f ds => s!"reject-gen f={f} warn={strList (ds.map Diag.str)}"
  | .emitBad ds es => s!"emit-bad warn={strList (ds.map Diag.str)} cerr={strList (es.map CErr.str)}"
  | .emitOk ds => s!"emit-ok warn={strList (ds.map Diag.str)}"

end ParsecVerif.JdfLimits
