/-
  C14 — request-array bookkeeping of the MPI "funnelled" communication engine
  (parsec/parsec_mpi_funnelled.c).

  The engine polls one array of MPI requests (`array_of_requests`, with the parallel
  `array_of_callbacks`) with `MPI_Testsome`.  The array has
    * one *tested window* of `tested_count` slots per registered active-message tag
      (`start_idx .. start_idx+tested_count`), backed by a pool of `req_count` persistent
      receives of which only the window is tested (`reqs_in_testsome`, rotation index `req_idx`),
    * then a *dynamic region* of `runtime_comm_mpi_dynamic_requests` slots for the point-to-point
      transfers of put/get, filled from the API when there is room and otherwise from two FIFOs
      under the receive quota `runtime_comm_mpi_dynamic_recv_requests`.

  State is kept structured (one `Pool` per tag, one `DynR`), absolute slot numbers are
  `base + offset`.  What MPI does is *input*: which indices `MPI_Testsome` reports, and (for the
  second-layer `Ghost` machine) which posted receive a message matches.

  No Mathlib.  Everything here is executable (driver `pv_C14`).
-/
namespace ParsecVerif.CommEngine

/-! ## Requests and callback records -/

/-- The four kinds of dynamic (non persistent) requests.
    `putS`: `mpi_no_thread_put`, Isend, callback type ONESIDED.
    `getR`: `mpi_no_thread_get`, Irecv, callback type ONESIDED.
    `getS`: `mpi_funnelled_internal_get_am_callback`, Isend, type ONESIDED_MIMIC_AM.
    `putR`: `mpi_funnelled_internal_put_am_callback`, Irecv, type ONESIDED_MIMIC_AM. -/
inductive DKind
  | putS | getR | getS | putR
  deriving DecidableEq, Repr

def DKind.isRecv : DKind → Bool
  | .getR => true
  | .putR => true
  | _ => false

def DKind.letter : DKind → String
  | .putS => "P" | .getR => "G" | .getS => "g" | .putR => "p"

/-- A dynamic request: identity (transfer id chosen by the caller) and kind. -/
structure Dyn where
  id : Nat
  kind : DKind
  deriving DecidableEq, Repr

/-- What a request handle / a callback record designates. -/
inductive Ref
  | zero                      -- calloc'ed callback record
  | am (tag r : Nat)          -- persistent receive `r` of the pool of registered tag `tag`
  | dyn (d : Dyn)
  deriving DecidableEq, Repr

/-- One index of `array_of_requests` / `array_of_callbacks`. -/
structure Slot where
  req : Option Ref := none    -- `none` = MPI_REQUEST_NULL
  cb : Ref := .zero           -- type / tag_reg / storage2 (or the transfer the record belongs to)
  st1 : Nat := 0              -- storage1
  isRecv : Bool := false      -- is_dynamic_recv
  fin : Bool := false         -- ghost: MPI reported the (non persistent) request complete, its callback has not run yet
  deriving DecidableEq, Repr

/-- `array_of_requests[i] = MPI_REQUEST_NULL` (the callback record stays). -/
def Slot.clear (sl : Slot) : Slot := { sl with req := none }

/-- MPI completes a non persistent request: the handle becomes MPI_REQUEST_NULL. -/
def Slot.finish (sl : Slot) : Slot := { sl with req := none, fin := true }

/-- The callback of the completed request is being run. -/
def Slot.unfin (sl : Slot) : Slot := { sl with fin := false }

def amSlot (tag r a : Nat) : Slot := { req := some (.am tag r), cb := .am tag r, st1 := a, isRecv := false }

/-! ## One registered tag: pool of persistent receives and its tested window -/

structure Pool where
  id : Nat            -- the registered tag
  n : Nat             -- req_count
  t : Nat             -- tested_count
  base : Nat          -- start_idx
  ridx : Nat          -- req_idx
  inw : List Bool     -- reqs_in_testsome
  act : List Bool     -- MPI view: request is active (started, completion not yet reported)
  win : List Slot     -- array slots base .. base+t
  deriving Repr

/-- `parsec_ce_rebuild_am_requests`, branch `PARSEC_CE_TAG_STATUS_ENABLE`. -/
def Pool.init (id n t base : Nat) : Pool :=
  { id := id, n := n, t := t, base := base, ridx := t % n,
    inw := (List.range n).map (fun r => decide (r < t)),
    act := List.replicate n true,
    win := (List.range t).map (fun j => amSlot id j (base + j)) }

/-- `MPI_Testsome` reports window offset `j`: the persistent request becomes inactive, its
    handle stays in the array. -/
def Pool.complete (p : Pool) (j : Nat) : Pool :=
  match p.win[j]? with
  | some sl =>
    match sl.req with
    | some (.am _ r) => { p with act := p.act.set r false }
    | _ => p
  | none => p

/-- Tail of `mpi_no_thread_serve_cb`, type AM, for the callback record found at window offset
    `j`: `MPI_Start(&tag_reg->reqs[storage2]); reqs_in_testsome[storage2] = false;
    array_of_requests[storage1] = MPI_REQUEST_NULL`.  The model does not emulate writes through
    a record that does not describe its own slot, or `MPI_Start` on an active request: those
    return `false` (the machine then enters its error state; theorem `C14_slots` shows this is
    unreachable). -/
def Pool.restart (p : Pool) (j r : Nat) (sl : Slot) : Pool :=
  { p with act := p.act.set r true, inw := p.inw.set r false, win := p.win.set j sl.clear }

def Pool.done (p : Pool) (j : Nat) : Pool × Bool :=
  match p.win[j]? with
  | some sl =>
    match sl.cb with
    | .am tg r =>
      if tg = p.id ∧ sl.st1 = p.base + j ∧ r < p.n ∧ p.act.getD r true = false then
        (p.restart j r sl, true)
      else (p, false)
    | _ => (p, false)
  | none => (p, false)

/-- First loop of `mpi_funnelled_refill_am_requests`: pack the still tested requests to the
    front, keeping their order (`read`/`write` are offsets from `start_idx`).  Only the kept
    prefix is returned: the emptied tail is overwritten by `fillN` right after. -/
def compact (base : Nat) : List Slot → Nat → Nat → List Slot
  | [], _, _ => []
  | sl :: rest, read, write =>
    if sl.req.isNone then compact base rest (read + 1) write
    else (if write = read then sl else { sl with st1 := base + write }) :: compact base rest (read + 1) (write + 1)

/-- `for i < req_count: if !reqs_in_testsome[req_idx] break; req_idx = (req_idx+1) % req_count`. -/
def scan (inw : List Bool) (n : Nat) : Nat → Nat → Nat
  | 0, r => r
  | f + 1, r => if inw.getD r false then scan inw n f ((r + 1) % n) else r

/-- One iteration of the second loop: `mpi_funnelled_set_am_request_slot` on the next slot. -/
def Pool.fill1 (p : Pool) : Pool :=
  let r := scan p.inw p.n p.n p.ridx
  { p with inw := p.inw.set r true, ridx := (r + 1) % p.n,
           win := p.win ++ [amSlot p.id r (p.base + p.win.length)] }

def Pool.fillN : Nat → Pool → Pool
  | 0, p => p
  | m + 1, p => Pool.fillN m p.fill1

def Pool.refill (p : Pool) : Pool :=
  let kept := compact p.base p.win 0 0
  Pool.fillN (p.t - kept.length) { p with win := kept }

/-! ## The dynamic region -/

structure DynR where
  base : Nat          -- mpi_funnelled_static_req_idx
  cap : Nat           -- parsec_param_comm_mpi_dynamic_requests
  quota : Nat         -- parsec_param_comm_mpi_dynamic_recv_requests
  slots : List Slot   -- slots base .. mpi_funnelled_last_active_req  (the ones beyond are NULL)
  nrecv : Nat         -- mpi_funnelled_num_recv_req_in_arr
  sendq : List Dyn    -- mpi_funnelled_dynamic_sendreq_fifo
  recvq : List Dyn    -- mpi_funnelled_dynamic_recvreq_fifo
  deriving Repr

def DynR.last (d : DynR) : Nat := d.base + d.slots.length

def dynSlot (x : Dyn) (a : Nat) (isRecv : Bool) : Slot :=
  { req := some (.dyn x), cb := .dyn x, st1 := a, isRecv := isRecv }

/-- Write a fresh request in slot `mpi_funnelled_last_active_req` and increment it (the tail of
    put/get and of the two internal AM callbacks, and `mpi_funnelled_append_dynamic_request`). -/
def DynR.append (d : DynR) (x : Dyn) (isRecv : Bool) : DynR :=
  { d with slots := d.slots ++ [dynSlot x d.last isRecv] }

/-- put / internal GET callback: `post_in_static_array = last_active_req < current_size`. -/
def DynR.installSend (d : DynR) (x : Dyn) : DynR :=
  if d.slots.length < d.cap then d.append x false
  else { d with sendq := d.sendq ++ [x] }

/-- get / internal PUT callback: `mpi_funnelled_can_post_dynamic_recv()`. -/
def DynR.installRecv (d : DynR) (x : Dyn) : DynR :=
  if d.slots.length < d.cap ∧ d.nrecv < d.quota then
    { d with nrecv := d.nrecv + 1 }.append x true
  else { d with recvq := d.recvq ++ [x] }

def DynR.install (d : DynR) (x : Dyn) : DynR :=
  if x.kind.isRecv then d.installRecv x else d.installSend x

/-- `MPI_Testsome` reports offset `j` of the region: MPI frees the request and writes
    MPI_REQUEST_NULL into the array. -/
def DynR.complete (d : DynR) (j : Nat) : DynR :=
  match d.slots[j]? with
  | some sl => { d with slots := d.slots.set j sl.finish }
  | none => d

/-- `if (cb->is_dynamic_recv) mpi_funnelled_num_recv_req_in_arr--` for the record at offset `j`. -/
def DynR.serve (d : DynR) (j : Nat) : DynR :=
  match d.slots[j]? with
  | some sl =>
    { d with nrecv := if sl.isRecv then d.nrecv - 1 else d.nrecv,
             slots := d.slots.set j sl.unfin }
  | none => d

/-- One iteration of the removal loop for a completed index `pos = base + j`.  Slots at and beyond
    `mpi_funnelled_last_active_req` are MPI_REQUEST_NULL, so for such a `pos` the loop body runs too. -/
def DynR.remove1 (d : DynR) (j : Nat) : DynR :=
  match d.slots[j]? with
  | some sl =>
    if sl.req.isSome then d            -- "the callback replaced the completed request"
    else
      let l := d.slots.length - 1      -- mpi_funnelled_last_active_req--
      if l > j then
        { d with slots := (d.slots.set j { (d.slots.getD l {}) with st1 := d.base + j }).dropLast }
      else { d with slots := d.slots.dropLast }
  | none => { d with slots := d.slots.dropLast }   -- last_active_req--; array_of_requests[last_active_req] = NULL

/-- The removal loop runs over the completed indices from the last to the first. -/
def DynR.removeAll (d : DynR) (jsDesc : List Nat) : DynR := jsDesc.foldl DynR.remove1 d

/-- `mpi_no_thread_push_posted_req`: `none` = returned 0. -/
def DynR.push (d : DynR) : Option DynR :=
  match (if d.nrecv < d.quota then d.recvq else []) with
  | x :: _ => some ({ d with recvq := d.recvq.tail, nrecv := d.nrecv + 1 }.append x true)
  | [] =>
    match d.sendq with
    | x :: rest => some ({ d with sendq := rest }.append x x.kind.isRecv)
    | [] => none

/-- The `feed_more_work` loop. -/
def DynR.feed : Nat → DynR → DynR
  | 0, d => d
  | f + 1, d =>
    if d.slots.length < d.cap ∧ (d.sendq ≠ [] ∨ d.recvq ≠ []) then
      match d.push with
      | some d' => DynR.feed f d'
      | none => d
    else d

/-! ## The engine -/

structure St where
  pools : List Pool
  dyn : DynR
  served : List Ref := []     -- ghost: callback records served, in order
  issued : List Dyn := []     -- ghost: dynamic requests ever created
  bad : Bool := false         -- error state (see `Pool.done`)
  deriving Repr

/-- Configuration: dynamic capacity, receive quota, and (tag, posted, tested) per registered tag
    in increasing tag order. -/
def mkPools : Nat → List (Nat × Nat × Nat) → List Pool
  | _, [] => []
  | b, (id, n, t) :: rest => Pool.init id n t b :: mkPools (b + t) rest

def nstatic : List (Nat × Nat × Nat) → Nat
  | [] => 0
  | (_, _, t) :: rest => t + nstatic rest

def init (cap quota : Nat) (cfg : List (Nat × Nat × Nat)) : St :=
  { pools := mkPools 0 cfg,
    dyn := { base := nstatic cfg, cap := cap, quota := quota, slots := [], nrecv := 0, sendq := [], recvq := [] } }

/-- Where an absolute index lives. -/
inductive Loc
  | win (k j : Nat)      -- pool number k, offset j
  | dyn (j : Nat)
  | out
  deriving DecidableEq, Repr

def locatePools : List Pool → Nat → Nat → Option (Nat × Nat)
  | [], _, _ => none
  | p :: rest, k, pos =>
    if p.base ≤ pos ∧ pos < p.base + p.t then some (k, pos - p.base)
    else locatePools rest (k + 1) pos

/-- Resolution of an index of `array_of_requests` (used by the driver; the machine below works on locations). -/
def St.locate (s : St) (pos : Nat) : Loc :=
  match locatePools s.pools 0 pos with
  | some (k, j) => .win k j
  | none => if s.dyn.base ≤ pos ∧ pos < s.dyn.last then .dyn (pos - s.dyn.base) else .out

def St.slotL (s : St) : Loc → Option Slot
  | .win k j => (s.pools[k]?).bind (fun p => p.win[j]?)
  | .dyn j => s.dyn.slots[j]?
  | .out => none

def St.slotAt (s : St) (pos : Nat) : Option Slot := s.slotL (s.locate pos)

def modPool (ps : List Pool) (k : Nat) (f : Pool → Pool) : List Pool :=
  match ps[k]? with
  | some p => ps.set k (f p)
  | none => ps

/-- A dynamic request is created (by the API or by an internal AM callback). -/
def St.install (s : St) (x : Dyn) : St :=
  { s with dyn := s.dyn.install x, issued := s.issued ++ [x] }

/-- `MPI_Testsome` reported the index at location `l`. -/
def St.completeL (s : St) : Loc → St
  | .win k j => { s with pools := modPool s.pools k (fun p => p.complete j) }
  | .dyn j => { s with dyn := s.dyn.complete j }
  | .out => s

/-- Head of the callback loop for one reported index, up to the call of the user callback. -/
def St.serveL (s : St) (l : Loc) : St :=
  match s.slotL l with
  | some sl =>
    match l with
    | .dyn j => { s with dyn := s.dyn.serve j, served := s.served ++ [sl.cb] }
    | _ => { s with dyn := if sl.isRecv then { s.dyn with nrecv := s.dyn.nrecv - 1 } else s.dyn,
                    served := s.served ++ [sl.cb] }
  | none => s

/-- After the user callback returned. -/
def St.doneL (s : St) : Loc → St
  | .win k j =>
    match s.pools[k]? with
    | some p => { s with pools := s.pools.set k (p.done j).1, bad := s.bad || !(p.done j).2 }
    | none => s
  | _ => s

def dynOffs : List Loc → List Nat
  | [] => []
  | .dyn j :: rest => j :: dynOffs rest
  | _ :: rest => dynOffs rest

/-- `mpi_funnelled_refill_am_requests`, the removal loop (over the reported indices, last to first; the ones
    below `mpi_funnelled_static_req_idx` are skipped) and the feed loop. -/
def St.finishL (s : St) (ls : List Loc) : St :=
  { s with pools := s.pools.map Pool.refill,
           dyn := (s.dyn.removeAll (dynOffs ls).reverse).feed s.dyn.cap }

/-- One reported index together with the requests its callback created. -/
def St.serveOneL (s : St) (e : Loc × List Dyn) : St :=
  (e.2.foldl St.install (s.serveL e.1)).doneL e.1

/-- One pass of the `do … while` loop of `mpi_no_thread_progress`: `c` lists the locations of the indices
    reported by `MPI_Testsome` (in the order of `array_of_indices`) with, for each, the dynamic requests created by
    its callback. -/
def St.iterL (s : St) (c : List (Loc × List Dyn)) : St :=
  (c.foldl St.serveOneL ((c.map (·.1)).foldl St.completeL s)).finishL (c.map (·.1))

/-! The same operations addressed by absolute index (what the driver replays). -/
def St.complete (s : St) (pos : Nat) : St := s.completeL (s.locate pos)
def St.test (s : St) (c : List Nat) : St := c.foldl St.complete s
def St.serve (s : St) (pos : Nat) : St := s.serveL (s.locate pos)
def St.done (s : St) (pos : Nat) : St := s.doneL (s.locate pos)
/-- The driver resolves the reported indices when `MPI_Testsome` returns (`locs`), before anything moves. -/
def St.finish (s : St) (locs : List Loc) : St := s.finishL locs

/-! ## Canonical printing (the harness prints the same from the real arrays) -/

def showBits (l : List Bool) : String := String.ofList (l.map (fun b => if b then '1' else '0'))

def Slot.show (base : Nat) (j : Nat) (sl : Slot) : String :=
  match sl.req with
  | none => "."
  | some _ =>
    (match sl.cb with
     | .zero => "z"
     | .am tg r => s!"a{tg}:{r}"
     | .dyn x => s!"{x.kind.letter}{x.id}") ++
    (if sl.isRecv then "r" else "") ++ (if sl.st1 = base + j then "" else "!")

/-- The callback record alone (used for the indices reported by `MPI_Testsome`). -/
def Slot.showCb (sl : Slot) : String :=
  (match sl.cb with
   | .zero => "z"
   | .am tg r => s!"a{tg}:{r}"
   | .dyn x => s!"{x.kind.letter}{x.id}") ++ (if sl.isRecv then "r" else "")

def showSlots (base : Nat) (l : List Slot) : String :=
  " ".intercalate ((List.range l.length).map (fun j => Slot.show base j (l.getD j {})))

def showQ (q : List Dyn) : String :=
  "[" ++ " ".intercalate (q.map (fun x => s!"{x.kind.letter}{x.id}")) ++ "]"

def Pool.show (p : Pool) : String :=
  s!"t{p.id} i={p.ridx} w={showBits p.inw} [{showSlots p.base p.win}]"

def St.show (s : St) : String :=
  s!"L={s.dyn.last} R={s.dyn.nrecv} " ++ " ".intercalate (s.pools.map Pool.show) ++
  s!" D[{showSlots s.dyn.base s.dyn.slots}] sq={showQ s.dyn.sendq} rq={showQ s.dyn.recvq}" ++
  (if s.bad then " CORRUPT" else "")

/-! ## Acceptor side conditions (checked by the driver on the observed trace) -/

def ascending : List Nat → Bool
  | [] => true
  | [_] => true
  | a :: b :: rest => decide (a < b) && ascending (b :: rest)

/-- What `MPI_Testsome` may report: strictly increasing indices below `last_active_req` whose slot holds a
    request, and (for a persistent receive) a request that is active. -/
def St.okTest (s : St) (c : List Nat) : Bool :=
  ascending c && c.all (fun pos =>
    match s.slotAt pos with
    | some sl =>
      match sl.req with
      | none => false
      | some (.am _ r) =>
        (match s.locate pos with
         | .win k _ => ((s.pools[k]?).map (fun p => p.act.getD r false)).getD false
         | _ => false)
      | some _ => true
    | none => false)

/-- Executable form of "may be reported by `MPI_Testsome`" for a located index (see `Reportable`). -/
def reportableB (s : St) : Loc → Bool
  | .win k j =>
    match s.pools[k]? with
    | some p => decide (j < p.t)
    | none => false
  | .dyn j => decide (j < s.dyn.slots.length)
  | .out => false

/-- Executable form of the hypotheses of the pass theorem on the located indices reported by one `MPI_Testsome`
    call: distinct, each holding a request, those of the dynamic region in increasing order.  The driver evaluates
    it on every `test` line (`reject-loc` otherwise); `passOkB_sound` turns it into the hypotheses. -/
def passOkB (s : St) (ls : List Loc) : Bool :=
  decide ls.Nodup && ls.all (reportableB s) && decide ((dynOffs ls).Pairwise (fun a b => a < b))

/-! ## `next_tag` -/

/-- `next_tag(k)` with `MAX_MPI_TAG = m`: returns the first tag of the block and the new value of
    `__VAL_NEXT_TAG`. -/
def nextTag (m v k : Nat) : Nat × Nat :=
  if v + k > m then (0, k) else (v, v + k)

/-- The blocks handed out by consecutive calls. -/
def allocs (m : Nat) : Nat → List Nat → List (Nat × Nat)
  | _, [] => []
  | v, k :: ks => ((nextTag m v k).1, k) :: allocs m (nextTag m v k).2 ks

end ParsecVerif.CommEngine
