/-
  C42 — model of the PaRSEC binary profile ("dbp") file format.

  Mirrors, for the configured back-end (x86-64, little endian, PARSEC_PROFILING_USE_MMAP):
    parsec/parsec_binary_profile.h   the on-disk structures (offsets are checked against the
                                     real `offsetof`/`sizeof` values by the harness op `layout`)
    parsec/profiling.c               the writer: `parsec_profiling_trace_flags_info_fn` (greedy
                                     packing of event records in fixed-size buffers),
                                     `switch_event_buffer`, `dump_dictionary`, `dump_thread`,
                                     `parsec_profiling_dbp_dump` (header)
    tools/profiling/dbpreader.c      the reader: `open_files`, `read_dictionary`, `read_threads`,
                                     `read_thread_infos`, the event iterator

  A file is a list of bytes (`Nat`s; the encoder only produces values < 256, proved in
  Proofs/Profile.lean).  `decode` follows file offsets exactly like the reader does, so it can
  be run on the bytes written by the real library; `encode` lays the buffers out consecutively
  (header, dictionary chain, thread chain, one event chain per stream).  The real writer places
  buffers in allocation order (which depends on thread timing); `LayoutAt` abstracts from the
  placement: it says "the file consists of the model's buffers, linked in the model's order, at
  the offsets `p`", and `decode` is proved to invert every such file.

  No Mathlib.  Everything total and computable.
-/
namespace ParsecVerif.Profile

abbrev Bytes := List Nat

/-! ### integers and strings -/

/-- `k` bytes, little endian. -/
def le : Nat → Nat → Bytes
  | 0, _ => []
  | k+1, n => (n % 256) :: le k (n / 256)

def unle : Bytes → Nat
  | [] => 0
  | b :: bs => b + 256 * unle bs

/-- 64-bit two's complement (`off_t`, `int64_t`). -/
def i64 (i : Int) : Bytes := le 8 (i % 18446744073709551616).toNat

def toI64 (n : Nat) : Int :=
  if n < 9223372036854775808 then (n : Int) else (n : Int) - 18446744073709551616

def zeros (n : Nat) : Bytes := List.replicate n 0

/-- content followed by zeros up to `n` bytes (buffers are zero pages / memset by
    `write_down_existing_buffer`). -/
def pad (n : Nat) (s : Bytes) : Bytes := s ++ zeros (n - s.length)

/-- a C string read from a field. -/
def cstr : Bytes → Bytes
  | [] => []
  | b :: bs => if b = 0 then [] else b :: cstr bs

/-- `strncpy(field, s, n-1)` into a zeroed `n`-byte field. -/
def fixstr (n : Nat) (s : Bytes) : Bytes := pad n (s.take (n - 1))

def split (n : Nat) (bs : Bytes) : Option (Bytes × Bytes) :=
  if n ≤ bs.length then some (bs.take n, bs.drop n) else none

def lastN (n : Nat) (s : Bytes) : Bytes := s.drop (s.length - n)

/-! ### the trace -/

structure KeyDef where
  name : Bytes
  attrs : Bytes
  conv : Bytes
  infoLen : Nat
  deriving DecidableEq, Repr

structure Info where
  key : Bytes
  value : Bytes
  deriving DecidableEq, Repr

/-- one event record.  `info` is the payload (empty when bit 0 of `flags`,
    PARSEC_PROFILING_EVENT_HAS_INFO, is clear). -/
structure Event where
  key : Nat
  flags : Nat
  tp : Nat
  id : Nat
  ts : Nat
  info : Bytes
  deriving DecidableEq, Repr

structure Stream where
  hrid : Bytes
  infos : List Info
  events : List Event
  deriving DecidableEq, Repr

/-- what one process writes (one `.prof` file).  Global key/value infos are not modelled. -/
structure Trace where
  bufSize : Nat
  hrid : Bytes
  rank : Nat
  dict : List KeyDef
  streams : List Stream
  deriving DecidableEq, Repr

/-! ### layout constants (parsec_binary_profile.h, checked by the harness op `layout`) -/

/-- offsetof(parsec_profiling_buffer_t, buffer) -/
def bufHdrSize : Nat := 25
/-- sizeof(parsec_profiling_output_base_event_t) -/
def evBase : Nat := 24
/-- offsetof(parsec_profiling_key_buffer_t, convertor) -/
def keyFixed : Nat := 200
/-- sizeof(parsec_profiling_key_buffer_t) - 1 -/
def keyTail : Nat := 203
/-- sizeof(parsec_profiling_stream_buffer_t) - sizeof(parsec_profiling_info_buffer_t) -/
def thrFixed : Nat := 156
/-- sizeof(parsec_profiling_info_buffer_t) - 1 -/
def infoTail : Nat := 11
/-- sizeof(parsec_profiling_binary_file_header_t) -/
def fileHdrSize : Nat := 224

/-- event_avail_space -/
def avail (B : Nat) : Nat := B - bufHdrSize

def evLen (e : Event) : Nat := evBase + e.info.length
def keyStride (k : KeyDef) : Nat := keyTail + k.conv.length
def infoStride (i : Info) : Nat := infoTail + i.key.length + i.value.length

/-! ### records -/

def encEvent (e : Event) : Bytes :=
  le 2 e.key ++ (le 2 e.flags ++ (le 4 e.tp ++ (le 8 e.id ++ (le 8 e.ts ++ e.info))))

/-- the reader's `DBP_EVENT_LENGTH`: base record + (HAS_INFO ? keylen of BASE_KEY(key) : 0). -/
def decEvent (dict : List KeyDef) (bs : Bytes) : Option (Event × Bytes) :=
  match split 2 bs with
  | none => none
  | some (k, r1) =>
  match split 2 r1 with
  | none => none
  | some (fl, r2) =>
  match split 4 r2 with
  | none => none
  | some (tp, r3) =>
  match split 8 r3 with
  | none => none
  | some (id, r4) =>
  match split 8 r4 with
  | none => none
  | some (ts, r5) =>
    if unle fl % 2 = 1 then
      match dict[unle k / 2]? with
      | none => none
      | some kd =>
        match split kd.infoLen r5 with
        | none => none
        | some (p, r6) => some (⟨unle k, unle fl, unle tp, unle id, unle ts, p⟩, r6)
    else some (⟨unle k, unle fl, unle tp, unle id, unle ts, []⟩, r5)

/-- `dump_dictionary`: one `parsec_profiling_key_buffer_t`; the record advances by
    sizeof - 1 + convertor length, i.e. three bytes stay zero behind the convertor. -/
def encKey (k : KeyDef) : Bytes :=
  fixstr 64 k.name ++ (fixstr 128 k.attrs ++ (le 4 k.conv.length ++ (le 4 k.infoLen ++ (k.conv ++ zeros 3))))

def decKey (bs : Bytes) : Option (KeyDef × Bytes) :=
  match split 64 bs with
  | none => none
  | some (nm, r1) =>
  match split 128 r1 with
  | none => none
  | some (att, r2) =>
  match split 4 r2 with
  | none => none
  | some (cl, r3) =>
  match split 4 r3 with
  | none => none
  | some (il, r4) =>
  match split (unle cl) r4 with
  | none => none
  | some (cv, r5) =>
  match split 3 r5 with
  | none => none
  | some (_, r6) => some (⟨cstr nm, cstr att, cv, unle il⟩, r6)

/-- `parsec_profiling_info_buffer_t` as written for stream infos by `dump_thread`. -/
def encInfo (i : Info) : Bytes :=
  le 4 i.key.length ++ (le 4 i.value.length ++ (i.key ++ (i.value ++ zeros 3)))

def decInfo (bs : Bytes) : Option (Info × Bytes) :=
  match split 4 bs with
  | none => none
  | some (kl, r1) =>
  match split 4 r1 with
  | none => none
  | some (vl, r2) =>
  match split (unle kl) r2 with
  | none => none
  | some (k, r3) =>
  match split (unle vl) r3 with
  | none => none
  | some (v, r4) =>
  match split 3 r4 with
  | none => none
  | some (_, r5) => some (⟨k, v⟩, r5)

def parseN {α : Type} (p : Bytes → Option (α × Bytes)) : Nat → Bytes → Option (List α × Bytes)
  | 0, bs => some ([], bs)
  | n+1, bs =>
    match p bs with
    | none => none
    | some (a, r) =>
      match parseN p n r with
      | none => none
      | some (as, r') => some (a :: as, r')

/-- one `parsec_profiling_stream_buffer_t` as stored in a THREAD buffer. -/
structure ThreadRec where
  nbEvents : Nat
  hrid : Bytes
  firstOff : Int
  infos : List Info
  deriving DecidableEq, Repr

def thrStride (t : ThreadRec) : Nat := thrFixed + (t.infos.map infoStride).sum

/-- `next_thread_offset` is never written by `dump_thread` (stays 0) and never read. -/
def encThr (t : ThreadRec) : Bytes :=
  le 8 0 ++ (le 8 t.nbEvents ++ (fixstr 128 t.hrid ++ (i64 t.firstOff ++ (le 4 t.infos.length ++
    (t.infos.map encInfo).flatten))))

def decThr (bs : Bytes) : Option (ThreadRec × Bytes) :=
  match split 8 bs with
  | none => none
  | some (_, r1) =>
  match split 8 r1 with
  | none => none
  | some (ne, r2) =>
  match split 128 r2 with
  | none => none
  | some (hr, r3) =>
  match split 8 r3 with
  | none => none
  | some (fo, r4) =>
  match split 4 r4 with
  | none => none
  | some (ni, r5) =>
  match parseN decInfo (unle ni) r5 with
  | none => none
  | some (infos, r6) => some (⟨unle ne, cstr hr, toI64 (unle fo), infos⟩, r6)

/-! ### buffers -/

structure Buf where
  next : Int
  count : Nat
  typ : Nat
  body : Bytes
  deriving DecidableEq, Repr

def tyEvents : Nat := 1
def tyDict : Nat := 2
def tyThread : Nat := 3

/-- `parsec_profiling_buffer_t` of `B` bytes: this offset, next offset, count, type, body. -/
def mkBuf (B : Nat) (this next : Int) (count typ : Nat) (content : Bytes) : Bytes :=
  i64 this ++ (i64 next ++ (le 8 count ++ (typ :: pad (avail B) content)))

/-- the reader's `refer_events_buffer` (mmap variant: negative offset = NULL) + field access.
    A buffer that does not lie inside the file is rejected (the reader would fault). -/
def readBuf (B : Nat) (f : Bytes) (off : Int) : Option Buf :=
  if off < 0 then none else
  match split B (f.drop off.toNat) with
  | none => none
  | some (b, _) =>
  match split 8 b with
  | none => none
  | some (_, r1) =>
  match split 8 r1 with
  | none => none
  | some (nx, r2) =>
  match split 8 r2 with
  | none => none
  | some (cnt, r3) =>
  match split 1 r3 with
  | none => none
  | some (ty, body) => some ⟨toI64 (unle nx), unle cnt, unle ty, body⟩

/-- `read_dictionary` / `read_threads`: `rem` records are expected in total; each buffer says
    how many it holds; the next buffer is referenced only when records are still missing.
    Type tags are checked (asserts of the reader); an empty buffer in the chain is rejected
    (the reader would run past its count). -/
def readCounted {α : Type} (p : Bytes → Option (α × Bytes)) (typ B : Nat) (f : Bytes) :
    Nat → Int → Nat → Option (List α)
  | 0, _, _ => none
  | fuel+1, off, rem =>
    match readBuf B f off with
    | none => none
    | some b =>
      if b.typ ≠ typ then none else
      if rem = 0 then some [] else
      if b.count = 0 then none else
      match parseN p (min b.count rem) b.body with
      | none => none
      | some (xs, _) =>
        if rem - min b.count rem = 0 then some xs else
        match readCounted p typ B f fuel b.next (rem - min b.count rem) with
        | none => none
        | some ys => some (xs ++ ys)

/-- the event iterator (`dbp_iterator_first` / `dbp_iterator_next`): every buffer of the chain
    yields `nb_events` records; the chain ends at a negative next offset. -/
def readLinked {α : Type} (p : Bytes → Option (α × Bytes)) (typ B : Nat) (f : Bytes) :
    Nat → Int → Option (List α)
  | 0, _ => none
  | fuel+1, off =>
    if off < 0 then some [] else
    match readBuf B f off with
    | none => none
    | some b =>
      if b.typ ≠ typ then none else
      if b.count = 0 then none else
      match parseN p b.count b.body with
      | none => none
      | some (xs, _) =>
        match readLinked p typ B f fuel b.next with
        | none => none
        | some ys => some (xs ++ ys)

/-! ### file header -/

/-- PARSEC_PROFILING_MAGICK: "#PARSEC BINARY PROFILE " followed by a form feed (24 characters;
    `open_files` compares exactly these with `strncmp(…, 24)`). -/
def magick : Bytes :=
  [35, 80, 65, 82, 83, 69, 67, 32, 66, 73, 78, 65, 82, 89, 32, 80, 82, 79, 70, 73, 76, 69, 32, 12]

def byteOrder : Nat := 0x0123456789ABCDEF

structure Header where
  bufSize : Nat
  hrid : Bytes
  dictSize : Nat
  dictOff : Int
  infoSize : Nat
  infoOff : Int
  rank : Nat
  nbThreads : Nat
  thrOff : Int
  deriving DecidableEq, Repr

/-- `parsec_profiling_binary_file_header_t`, with the alignment padding of the x86-64 ABI (the
    real writer leaves stale bytes in the padding behind the magic string; the reader skips it). -/
def encHeader (h : Header) : Bytes :=
  le 8 0 ++ (pad 32 magick ++ (le 8 byteOrder ++ (le 4 h.bufSize ++ (fixstr 128 h.hrid ++
  (le 4 h.dictSize ++ (i64 h.dictOff ++ (le 4 h.infoSize ++ (zeros 4 ++ (i64 h.infoOff ++
  (le 4 h.rank ++ (le 4 h.nbThreads ++ i64 h.thrOff)))))))))))

/-- `open_files`: `strncmp(magick, …, 24)` and the byte-order word, then the fields. -/
def decHeader (f : Bytes) : Option Header :=
  match split 8 f with
  | none => none
  | some (_, r1) =>
  match split 32 r1 with
  | none => none
  | some (mg, r2) =>
  match split 8 r2 with
  | none => none
  | some (bo, r3) =>
  match split 4 r3 with
  | none => none
  | some (bs, r4) =>
  match split 128 r4 with
  | none => none
  | some (hr, r5) =>
  match split 4 r5 with
  | none => none
  | some (ds, r6) =>
  match split 8 r6 with
  | none => none
  | some (dof, r7) =>
  match split 4 r7 with
  | none => none
  | some (is, r8) =>
  match split 4 r8 with
  | none => none
  | some (_, r9) =>
  match split 8 r9 with
  | none => none
  | some (iof, r10) =>
  match split 4 r10 with
  | none => none
  | some (rk, r11) =>
  match split 4 r11 with
  | none => none
  | some (nt, r12) =>
  match split 8 r12 with
  | none => none
  | some (tof, _) =>
    if mg.take 24 = magick ∧ unle bo = byteOrder then
      some ⟨unle bs, cstr hr, unle ds, toI64 (unle dof), unle is, toI64 (unle iof), unle rk, unle nt,
            toI64 (unle tof)⟩
    else none

/-! ### the reader -/

def readStreams (B : Nat) (dict : List KeyDef) (f : Bytes) : List ThreadRec → Option (List Stream)
  | [] => some []
  | th :: ths =>
    match readLinked (decEvent dict) tyEvents B f (f.length + 1) th.firstOff with
    | none => none
    | some evs =>
      if evs.length ≠ th.nbEvents then none else
      match readStreams B dict f ths with
      | none => none
      | some ss => some (⟨th.hrid, th.infos, evs⟩ :: ss)

def decode (f : Bytes) : Option Trace :=
  match decHeader f with
  | none => none
  | some h =>
    match readCounted decKey tyDict h.bufSize f (f.length + 1) h.dictOff h.dictSize with
    | none => none
    | some dict =>
      match readCounted decThr tyThread h.bufSize f (f.length + 1) h.thrOff h.nbThreads with
      | none => none
      | some thrs =>
        match readStreams h.bufSize dict f thrs with
        | none => none
        | some ss => some ⟨h.bufSize, h.hrid, h.rank, dict, ss⟩

/-! ### the writer -/

def consHead {α : Type} (a : α) : List (List α) → List (List α)
  | [] => [[a]]
  | c :: cs => (a :: c) :: cs

/-- Greedy packing as done by `parsec_profiling_trace_flags_info_fn` (and, with `cap-1`, by
    `dump_dictionary` / `dump_thread`): a record that does not fit behind the `pos` bytes in use
    closes the current buffer and opens the next one.  The head of the result is the rest of
    the current buffer. -/
def pack {α : Type} (cap : Nat) (len : α → Nat) : List α → Nat → List (List α)
  | [], _ => [[]]
  | a :: as, pos =>
    if pos + len a > cap then [] :: consHead a (pack cap len as (len a))
    else consHead a (pack cap len as (pos + len a))

/-- (record count, bytes in use) of one buffer. -/
def chunkOf {α : Type} (enc : α → Bytes) (c : List α) : Nat × Bytes :=
  (c.length, (c.map enc).flatten)

def evChunks (B : Nat) (s : Stream) : List (Nat × Bytes) :=
  (pack (avail B) evLen s.events 0).map (chunkOf encEvent)

def dictChunks (t : Trace) : List (Nat × Bytes) :=
  (pack (avail t.bufSize - 1) keyStride t.dict 0).map (chunkOf encKey)

def thrRecs : List Stream → List Int → List ThreadRec
  | s :: ss, o :: os => ⟨s.events.length, s.hrid, o, s.infos⟩ :: thrRecs ss os
  | _, _ => []

def thrChunks (B : Nat) (recs : List ThreadRec) : List (Nat × Bytes) :=
  (pack (avail B - 1) thrStride recs 0).map (chunkOf encThr)

/-- buffers of one chain placed consecutively from buffer index `start`. -/
def mkChain (B typ : Nat) : Nat → List (Nat × Bytes) → List Bytes
  | _, [] => []
  | start, [c] => [mkBuf B (Int.ofNat (start * B)) (-1) c.1 typ c.2]
  | start, c :: c' :: cs =>
    mkBuf B (Int.ofNat (start * B)) (Int.ofNat ((start + 1) * B)) c.1 typ c.2 ::
      mkChain B typ (start + 1) (c' :: cs)

/-- consecutive offsets of a chain of `n` buffers starting at buffer index `start`. -/
def seqOffs (B : Nat) : Nat → Nat → List Int
  | _, 0 => []
  | start, n+1 => Int.ofNat (start * B) :: seqOffs B (start + 1) n

/-- per-stream offsets of the event chains, laid out one stream after the other. -/
def evPlaces (B : Nat) : Nat → List Stream → List (List Int)
  | _, [] => []
  | start, s :: ss =>
    seqOffs B start (evChunks B s).length :: evPlaces B (start + (evChunks B s).length) ss

def evBufs (B : Nat) : Nat → List Stream → List Bytes
  | _, [] => []
  | start, s :: ss =>
    mkChain B tyEvents start (evChunks B s) ++ evBufs B (start + (evChunks B s).length) ss

def evCount (B : Nat) : List Stream → Nat
  | [] => 0
  | s :: ss => (evChunks B s).length + evCount B ss

def firstOffs (p : List (List Int)) : List Int := p.map (fun l => l.headD (-1))

/-- where the buffers of a file are. -/
structure Place where
  dictOffs : List Int
  thrOffs : List Int
  evOffs : List (List Int)
  deriving DecidableEq, Repr

/-- canonical placement: header, dictionary chain, the event chain of every stream, thread chain. -/
def canonPlace (t : Trace) : Place :=
  ⟨seqOffs t.bufSize 1 (dictChunks t).length,
   seqOffs t.bufSize (1 + (dictChunks t).length + evCount t.bufSize t.streams)
     (thrChunks t.bufSize (thrRecs t.streams
        (firstOffs (evPlaces t.bufSize (1 + (dictChunks t).length) t.streams)))).length,
   evPlaces t.bufSize (1 + (dictChunks t).length) t.streams⟩

def headerOf (t : Trace) (p : Place) : Header :=
  ⟨t.bufSize, t.hrid, t.dict.length, p.dictOffs.headD (-1), 0, -1, t.rank, t.streams.length,
   p.thrOffs.headD (-1)⟩

def headerBuf (t : Trace) (p : Place) : Bytes := pad t.bufSize (encHeader (headerOf t p))

/-- the file written by the model writer. -/
def encodeBufs (t : Trace) : List Bytes :=
  headerBuf t (canonPlace t) :: (mkChain t.bufSize tyDict 1 (dictChunks t) ++
    (evBufs t.bufSize (1 + (dictChunks t).length) t.streams ++
     mkChain t.bufSize tyThread (1 + (dictChunks t).length + evCount t.bufSize t.streams)
       (thrChunks t.bufSize (thrRecs t.streams (firstOffs (canonPlace t).evOffs)))))

def encode (t : Trace) : Bytes := (encodeBufs t).flatten

/-! ### placement-independent description of a file -/

/-- the buffers at `offs` are exactly the chunks, of type `typ`, linked in this order, the last
    one with a negative next offset. -/
def ChunksAt (B : Nat) (f : Bytes) (typ : Nat) : List Int → List (Nat × Bytes) → Prop
  | [], [] => True
  | [o], [c] => ∃ nx, nx < 0 ∧ readBuf B f o = some ⟨nx, c.1, typ, pad (avail B) c.2⟩
  | o :: o' :: os, c :: c' :: cs =>
    readBuf B f o = some ⟨o', c.1, typ, pad (avail B) c.2⟩ ∧ ChunksAt B f typ (o' :: os) (c' :: cs)
  | _, _ => False

def EvChunksAt (B : Nat) (f : Bytes) : List (List Int) → List Stream → Prop
  | [], [] => True
  | os :: oss, s :: ss =>
    os.length ≤ f.length ∧ ChunksAt B f tyEvents os (evChunks B s) ∧ EvChunksAt B f oss ss
  | _, _ => False

/-- `f` is a file holding the model writer's buffers for `t` at the offsets `p`; the info
    fields of the header (not modelled) are free. -/
def LayoutAt (f : Bytes) (t : Trace) (p : Place) : Prop :=
  (∃ h, decHeader f = some h ∧ h.bufSize = t.bufSize ∧ h.hrid = t.hrid ∧ h.rank = t.rank ∧
        h.dictSize = t.dict.length ∧ h.nbThreads = t.streams.length ∧
        some h.dictOff = p.dictOffs.head? ∧ some h.thrOff = p.thrOffs.head?) ∧
  p.dictOffs.length ≤ f.length ∧ p.thrOffs.length ≤ f.length ∧
  ChunksAt t.bufSize f tyDict p.dictOffs (dictChunks t) ∧
  ChunksAt t.bufSize f tyThread p.thrOffs (thrChunks t.bufSize (thrRecs t.streams (firstOffs p.evOffs))) ∧
  EvChunksAt t.bufSize f p.evOffs t.streams

/-! ### well-formed traces (the API preconditions and the field widths) -/

def noZero (s : Bytes) : Prop := ∀ b ∈ s, b ≠ 0

def WFKey (B : Nat) (k : KeyDef) : Prop :=
  noZero k.name ∧ k.name.length ≤ 63 ∧ noZero k.attrs ∧ k.attrs.length ≤ 127 ∧
  k.conv.length < 2147483648 ∧ k.infoLen < 2147483648 ∧ keyStride k < avail B

def WFEvent (B : Nat) (dict : List KeyDef) (e : Event) : Prop :=
  e.key < 65536 ∧ e.flags < 65536 ∧ e.tp < 4294967296 ∧ e.id < 18446744073709551616 ∧
  e.ts < 18446744073709551616 ∧ evLen e < avail B ∧
  (if e.flags % 2 = 1 then (dict[e.key / 2]?).map (·.infoLen) = some e.info.length else e.info = [])

def WFInfo (i : Info) : Prop := i.key.length < 2147483648 ∧ i.value.length < 2147483648

def WFStream (B : Nat) (dict : List KeyDef) (s : Stream) : Prop :=
  noZero s.hrid ∧ s.hrid.length ≤ 127 ∧ s.events ≠ [] ∧ s.events.length < 18446744073709551616 ∧
  (∀ e ∈ s.events, WFEvent B dict e) ∧ (∀ i ∈ s.infos, WFInfo i) ∧ s.infos.length < 2147483648 ∧
  thrFixed + (s.infos.map infoStride).sum < avail B

def WellFormed (t : Trace) : Prop :=
  fileHdrSize ≤ t.bufSize ∧ t.bufSize < 2147483648 ∧ noZero t.hrid ∧ t.hrid.length ≤ 127 ∧
  t.rank < 2147483648 ∧ t.dict ≠ [] ∧ t.dict.length < 32768 ∧ (∀ k ∈ t.dict, WFKey t.bufSize k) ∧
  t.streams.length < 2147483648 ∧ (∀ s ∈ t.streams, WFStream t.bufSize t.dict s)

instance (s : Bytes) : Decidable (noZero s) := by unfold noZero; infer_instance
instance (B : Nat) (k : KeyDef) : Decidable (WFKey B k) := by unfold WFKey; infer_instance
instance (B : Nat) (d : List KeyDef) (e : Event) : Decidable (WFEvent B d e) := by unfold WFEvent; infer_instance
instance (i : Info) : Decidable (WFInfo i) := by unfold WFInfo; infer_instance
instance (B : Nat) (d : List KeyDef) (s : Stream) : Decidable (WFStream B d s) := by unfold WFStream; infer_instance
instance (t : Trace) : Decidable (WellFormed t) := by unfold WellFormed; infer_instance

/-! ### executable placement check (used by the driver on the real writer's bytes) -/

def chunksAtB (B : Nat) (f : Bytes) (typ : Nat) : List Int → List (Nat × Bytes) → Bool
  | [], [] => true
  | [o], [c] =>
    match readBuf B f o with
    | some b => decide (b.next < 0) && decide (b = ⟨b.next, c.1, typ, pad (avail B) c.2⟩)
    | none => false
  | o :: o' :: os, c :: c' :: cs =>
    decide (readBuf B f o = some ⟨o', c.1, typ, pad (avail B) c.2⟩) && chunksAtB B f typ (o' :: os) (c' :: cs)
  | _, _ => false

def evChunksAtB (B : Nat) (f : Bytes) : List (List Int) → List Stream → Bool
  | [], [] => true
  | os :: oss, s :: ss =>
    decide (os.length ≤ f.length) && chunksAtB B f tyEvents os (evChunks B s) && evChunksAtB B f oss ss
  | _, _ => false

def layoutAtB (f : Bytes) (t : Trace) (p : Place) : Bool :=
  (match decHeader f with
   | some h => decide (h.bufSize = t.bufSize ∧ h.hrid = t.hrid ∧ h.rank = t.rank ∧
        h.dictSize = t.dict.length ∧ h.nbThreads = t.streams.length ∧
        some h.dictOff = p.dictOffs.head? ∧ some h.thrOff = p.thrOffs.head?)
   | none => false) &&
  decide (p.dictOffs.length ≤ f.length) && decide (p.thrOffs.length ≤ f.length) &&
  chunksAtB t.bufSize f tyDict p.dictOffs (dictChunks t) &&
  chunksAtB t.bufSize f tyThread p.thrOffs (thrChunks t.bufSize (thrRecs t.streams (firstOffs p.evOffs))) &&
  evChunksAtB t.bufSize f p.evOffs t.streams

/-- offsets of a chain, found by following the next fields (driver only; not trusted: the
    result is checked by `layoutAtB`). -/
def followChain (B : Nat) (f : Bytes) : Nat → Int → List Int
  | 0, _ => []
  | fuel+1, off =>
    match readBuf B f off with
    | none => []
    | some b => off :: (if b.next < 0 then [] else followChain B f fuel b.next)

/-! ### several processes (`open_files`): every file must carry the id and the buffer size
    of the first one, otherwise the reader ignores it. -/

def decodeList : List Bytes → Option (List Trace)
  | [] => some []
  | f :: fs =>
    match decode f with
    | none => none
    | some t =>
      match decodeList fs with
      | none => none
      | some ts => some (t :: ts)

def sameRun : List Trace → Bool
  | [] => true
  | t :: ts => ts.all (fun u => decide (u.hrid = t.hrid ∧ u.bufSize = t.bufSize))

def decodeAll (fs : List Bytes) : Option (List Trace) :=
  match decodeList fs with
  | none => none
  | some ts => if sameRun ts then some ts else none

/-- the reader's global dictionary (`read_dictionary`): entries of the files merged on
    (info length, name, convertor), in order of first appearance, with the local→global map. -/
def sameKey (x k : KeyDef) : Bool :=
  decide (x.infoLen = k.infoLen ∧ x.name = k.name ∧ x.conv = k.conv)

def findKey (k : KeyDef) : List KeyDef → Option Nat
  | [] => none
  | x :: xs => if sameKey x k then some 0 else (findKey k xs).map (· + 1)

def mergeOne (g : List KeyDef) (k : KeyDef) : List KeyDef × Nat :=
  match findKey k g with
  | some i => (g, i)
  | none => (g ++ [k], g.length)

def mergeDict : List KeyDef → List KeyDef → List KeyDef × List Nat
  | g, [] => (g, [])
  | g, k :: ks =>
    ((mergeDict (mergeOne g k).1 ks).1, (mergeOne g k).2 :: (mergeDict (mergeOne g k).1 ks).2)

end ParsecVerif.Profile
