import ParsecVerif.Model.Argv
/-
  Model of the option parser of parsec/utils/cmd_line.c: `make_opt`, `find_option`,
  `split_shorts`, `parsec_cmd_line_parse` and the query functions `get_ninsts`, `get_param`,
  `get_tail`, `get_argc/argv`.  Options carry no destination variable and no MCA parameter
  (then `set_dest` is a no-op that returns success).

  The main loop of `parsec_cmd_line_parse` is a `for (i = 1; i < lcl_argc; )` over a vector that
  the loop itself rewrites when it expands a bundle of short options; the model keeps the
  processed prefix `pre = lcl_argv[0..i)` and the unprocessed suffix `rest = lcl_argv[i..)` and
  takes one `fuel` unit per loop iteration.
-/
namespace ParsecVerif.CmdLine
open ParsecVerif.Argv

/-- `cmd_line_option_t` (names only; `'\0'` / NULL = `none`) -/
structure Opt where
  short : Option Nat
  sd : Option Str
  long : Option Str
  nparams : Int
deriving Repr, DecidableEq

def dash : Nat := 45
/-- `special_empty_token` = bytes 1..10 -/
def special : Str := [1, 2, 3, 4, 5, 6, 7, 8, 9, 10]

/-- `make_opt` bozo checks: an entry needs a name and a non-negative parameter count -/
def makeOpt (opts : List Opt) (e : Opt) : Int × List Opt :=
  if e.short = none ∧ e.sd = none ∧ e.long = none then (BAD_PARAM, opts)
  else if e.nparams < 0 then (BAD_PARAM, opts)
  else (SUCCESS, opts ++ [e])

/-- `parsec_cmd_line_create` over a table: stops at the first failing entry -/
def create : List Opt → List Opt → Int × List Opt
  | opts, [] => (SUCCESS, opts)
  | opts, e :: t =>
    if (makeOpt opts e).1 ≠ SUCCESS then makeOpt opts e else create (makeOpt opts e).2 t

/-- the match test of `find_option` -/
def optMatches (o : Opt) (name : Str) : Bool :=
  o.long == some name || o.sd == some name ||
    (name.length == 1 && o.short == name.head?)

/-- `find_option`: first option (in declaration order) one of whose names equals `name`;
    returns its position (the model's stand-in for the option pointer) -/
def findFrom (k : Nat) : List Opt → Str → Option (Nat × Opt)
  | [], _ => none
  | o :: t, name => if optMatches o name then some (k, o) else findFrom (k + 1) t name

def find (opts : List Opt) (name : Str) : Option (Nat × Opt) := findFrom 0 opts name

/-- the parameter loop of `split_shorts` for one recognised letter: `n` parameters are taken from
    `args[used..]`, missing ones are replaced by the special token -/
def shortParams (args : List Str) : Nat → Nat → List Str × Nat
  | 0, used => ([], used)
  | n + 1, used =>
    if used < args.length then
      (args.getD used [] :: (shortParams args n (used + 1)).1, (shortParams args n (used + 1)).2)
    else
      (special :: (shortParams args n used).1, (shortParams args n used).2)

/-- `split_shorts` letter loop: `none` = PARSEC_ERR_BAD_PARAM -/
def splitLetters (opts : List Opt) (ign : Bool) (args : List Str) :
    List Nat → Nat → Option (List Str × Nat)
  | [], used => some ([], used)
  | c :: cs, used =>
    match find opts [c] with
    | none =>
      if !ign then none
      else match splitLetters opts ign args cs used with
        | none => none
        | some (out, u) => some ([dash, c] :: out, u)
    | some (_, o) =>
      match splitLetters opts ign args cs (shortParams args o.nparams.toNat used).2 with
      | none => none
      | some (out, u) => some ([dash, c] :: (shortParams args o.nparams.toNat used).1 ++ out, u)

def splitShorts (opts : List Opt) (ign : Bool) (token : Str) (args : List Str) :
    Option (List Str × Nat) :=
  if token = [] then none else splitLetters opts ign args token 0

/-- one parsed option instance: (`clp_option` as position in the option list, `clp_argv`) -/
abbrev Param := Nat × List Str

structure Result where
  rc : Int
  argv : List Str            -- lcl_argv (lcl_argc = its length)
  params : List Param        -- lcl_params in list order
  tail : List Str            -- lcl_tail_argv ([] = NULL, lcl_tail_argc = its length)
  outOfFuel : Bool := false
  doubleFree : Bool := false -- `clp_argv` was freed explicitly and again by the destructor
deriving Repr, DecidableEq

/-- the `for (j = 0; j < clo_num_params; ++j, ++i)` loop: `some (params, rest')` or, on error,
    `none` together with what is left at position `i` when `goto error` is taken -/
def takeParams : Nat → List Str → Option (List Str × List Str) × List Str
  | 0, rest => (some ([], rest), [])
  | _ + 1, [] => (none, [])                                  -- ran out of parameters
  | n + 1, a :: rest =>
    if a = special then (none, a :: rest)                    -- the special empty token
    else match takeParams n rest with
      | (some (ps, r), _) => (some (a :: ps, r), [])
      | (none, left) => (none, left)

/-- index `j` at which the parameter loop meets the special empty token (before running out) -/
def specialAt : Nat → List Str → Option Nat
  | 0, _ => none
  | _ + 1, [] => none
  | n + 1, a :: rest => if a = special then some 0 else (specialAt n rest).map (· + 1)

/-- The special-token error path runs `parsec_argv_free(param->clp_argv)` (if one parameter had been
    saved, `j ≥ 1`) and then `PARSEC_OBJ_RELEASE(param)`, whose destructor frees `clp_argv` if it
    is not NULL.  `nulled` = the pointer is reset to NULL after the explicit free (repair 16257ae;
    `false` = the code as it was before, kept to state the finding). -/
def doubleFrees (nulled : Bool) (n : Nat) (l : List Str) : Bool :=
  match specialAt n l with
  | some (_ + 1) => !nulled
  | _ => false

/-- end of the loop through `error:` / unknown token / `--`: everything from position i on goes
    to the tail -/
def finish (err : Bool) (pre rest : List Str) (params : List Param) (tail : List Str) : Result :=
  { rc := if err then ERROR else SUCCESS, argv := pre ++ rest, params := params, tail := tail }

/-- outcome of one iteration of the main loop -/
inductive Step where
  | done (r : Result)
  | next (pre rest : List Str) (params : List Param)
deriving Repr, DecidableEq

/-- an option (position `k`) was recognised for the token at the head of `rest'`: suck down its
    parameters, record the instance, continue behind them -/
def handle (nulled : Bool) (pre : List Str) (params : List Param) (k : Nat) (o : Opt) (rest' : List Str) : Step :=
  match takeParams o.nparams.toNat rest'.tail with
  | (some (ps, r), _) => .next (pre ++ rest'.head?.toList ++ ps) r (params ++ [(k, ps)])
  | (none, left) => .done { finish true pre rest' params left with
                             doubleFree := doubleFrees nulled o.nparams.toNat rest'.tail }

/-- the body of the `for` loop for the token `tok = lcl_argv[i]` followed by `more` -/
def step (nulled : Bool) (opts : List Opt) (ign : Bool) (pre : List Str) (tok : Str) (more : List Str)
    (params : List Param) : Step :=
  if tok = [dash, dash] then .done (finish false pre (tok :: more) params more)
  else if tok.head? ≠ some dash then .done (finish (!ign) pre (tok :: more) params (tok :: more))
  else if tok.take 2 = [dash, dash] then
    match find opts (tok.drop 2) with
    | none => .done (finish true pre (tok :: more) params (tok :: more))
    | some (k, o) => handle nulled pre params k o (tok :: more)
  else
    match find opts (tok.drop 1) with
    | some (k, o) => handle nulled pre params k o (tok :: more)
    | none =>
      match splitShorts opts ign (tok.drop 1) more with
      | none => .done (finish true pre (tok :: more) params (tok :: more))
      | some (sv, used) =>
        match find opts ((sv.headD []).drop 1) with
        | none => .done (finish true pre (tok :: more) params (tok :: more))
        | some (k, o) =>
          -- parsec_argv_delete(&lcl_argc, &lcl_argv, i, 1 + used); parsec_argv_insert(&lcl_argv, i, shortsv)
          handle nulled pre params k o (sv ++ more.drop used)

def parseLoop (nulled : Bool) (opts : List Opt) (ign : Bool) :
    Nat → List Str → List Str → List Param → Result
  | 0, pre, rest, params => { finish true pre rest params [] with outOfFuel := true }
  | _ + 1, pre, [], params => finish false pre [] params []
  | fuel + 1, pre, tok :: more, params =>
    match step nulled opts ign pre tok more params with
    | .done r => r
    | .next pre' rest' params' => parseLoop nulled opts ign fuel pre' rest' params'

/-- iterations never exceed the number of bytes + tokens of the command line -/
def fuelFor (argv : List Str) : Nat := (argv.map (fun s => s.length + 1)).sum + 1

/-- `parsec_cmd_line_parse(cmd, ignore_unknown, argc, argv)` with `argc = count(argv)`.
    `argc == 0` returns success without touching the handle. -/
def parse (opts : List Opt) (ign : Bool) (argv : List Str) : Result :=
  match argv with
  | [] => { rc := SUCCESS, argv := [], params := [], tail := [] }
  | prog :: rest => parseLoop true opts ign (fuelFor rest) [prog] rest []

/-- the parser as it was before 16257ae (no reset of `clp_argv` after the explicit free) -/
def parseBuggy (opts : List Opt) (ign : Bool) (argv : List Str) : Result :=
  match argv with
  | [] => { rc := SUCCESS, argv := [], params := [], tail := [] }
  | prog :: rest => parseLoop false opts ign (fuelFor rest) [prog] rest []

/-- `parsec_cmd_line_get_ninsts` -/
def ninsts (opts : List Opt) (r : Result) (name : Str) : Nat :=
  match find opts name with
  | none => 0
  | some (k, _) => (r.params.filter (fun p => p.1 == k)).length

/-- `parsec_cmd_line_get_param(cmd, opt, inst, idx)`; `none` = NULL -/
def getParam (opts : List Opt) (r : Result) (name : Str) (inst idx : Nat) : Option Str :=
  match find opts name with
  | none => none
  | some (k, o) =>
    if (idx : Int) < o.nparams then
      match (r.params.filter (fun p => p.1 == k))[inst]? with
      | some p => p.2[idx]?
      | none => none
    else none

/-! ### one handle, several parses

`parsec_cmd_line_t` keeps the option list and the results of the last parse.  The fields are
modelled one by one; `parsec_cmd_line_parse` first runs `free_parse_results`, then fills them. -/

structure Handle where
  opts : List Opt          -- lcl_options
  argc : Int               -- lcl_argc
  argv : Vec               -- lcl_argv
  params : List Param      -- lcl_params
  tailc : Int              -- lcl_tail_argc
  tail : Vec               -- lcl_tail_argv
deriving Repr, DecidableEq

/-- `cmd_line_constructor` -/
def Handle.new : Handle := ⟨[], 0, none, [], 0, none⟩

/-- `parsec_cmd_line_make_opt3` on a handle -/
def Handle.addOpt (h : Handle) (e : Opt) : Int × Handle :=
  ((makeOpt h.opts e).1, { h with opts := (makeOpt h.opts e).2 })

/-- `free_parse_results`: pop and release every param, free and NULL both vectors, zero both counts -/
def freeParseResults (h : Handle) : Handle :=
  { h with params := [], argv := none, argc := 0, tail := none, tailc := 0 }

/-- the tail is built with `parsec_argv_append(&lcl_tail_argc, &lcl_tail_argv, tok)` per token:
    onto whatever the handle holds; the count is only written by an append -/
def appendTail (tailc : Int) (tail : Vec) : List Str → Int × Vec
  | [] => (tailc, tail)
  | t :: ts => appendTail (append tail t).1 (append tail t).2 ts

/-- `parsec_cmd_line_parse(cmd, ign, argc, argv)` on an existing handle (`argc = count(argv)`).
    `argc == 0`: nothing is touched.  Otherwise the previous results are freed, `lcl_argc/argv`
    are set from the arguments, and the loop appends to the handle's params list and tail. -/
def Handle.parse (h : Handle) (ign : Bool) (argv : List Str) : Int × Handle :=
  match argv with
  | [] => (SUCCESS, h)
  | prog :: rest =>
    ((parseLoop true (freeParseResults h).opts ign (fuelFor rest) [prog] rest (freeParseResults h).params).rc,
     { freeParseResults h with
        argc := (parseLoop true (freeParseResults h).opts ign (fuelFor rest) [prog] rest (freeParseResults h).params).argv.length,
        argv := some (parseLoop true (freeParseResults h).opts ign (fuelFor rest) [prog] rest (freeParseResults h).params).argv,
        params := (parseLoop true (freeParseResults h).opts ign (fuelFor rest) [prog] rest (freeParseResults h).params).params,
        tailc := (appendTail (freeParseResults h).tailc (freeParseResults h).tail
                   (parseLoop true (freeParseResults h).opts ign (fuelFor rest) [prog] rest (freeParseResults h).params).tail).1,
        tail := (appendTail (freeParseResults h).tailc (freeParseResults h).tail
                   (parseLoop true (freeParseResults h).opts ign (fuelFor rest) [prog] rest (freeParseResults h).params).tail).2 })

/-- what a handle holds after parsing `argv` with nothing before: the fields as functions of the
    `Result` of that single parse -/
def Handle.ofResult (opts : List Opt) (r : Result) : Handle :=
  { opts := opts, argc := r.argv.length, argv := some r.argv, params := r.params,
    tailc := r.tail.length, tail := ofList r.tail }

/-- `parsec_cmd_line_get_ninsts` on a handle -/
def Handle.ninsts (h : Handle) (name : Str) : Nat :=
  match find h.opts name with
  | none => 0
  | some (k, _) => (h.params.filter (fun p => p.1 == k)).length

/-- `parsec_cmd_line_get_param` on a handle -/
def Handle.getParam (h : Handle) (name : Str) (inst idx : Nat) : Option Str :=
  match find h.opts name with
  | none => none
  | some (k, o) =>
    if (idx : Int) < o.nparams then
      match (h.params.filter (fun p => p.1 == k))[inst]? with
      | some p => p.2[idx]?
      | none => none
    else none

/-- `parsec_cmd_line_get_argv(cmd, index)`: NULL outside `[0, lcl_argc)` -/
def Handle.getArgv (h : Handle) (index : Int) : Option Str :=
  if index ≥ h.argc ∨ index < 0 then none else (h.argv.getD [])[index.toNat]?

/-- `parsec_cmd_line_get_tail`: the count and a copy of the vector -/
def Handle.getTail (h : Handle) : Int × Vec := (h.tailc, copy h.tail)

end ParsecVerif.CmdLine
