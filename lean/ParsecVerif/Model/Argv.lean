/-
  Model of parsec/utils/argv.c (NULL-terminated string vectors, inherited from Open MPI).

  A C string is the list of its bytes (`Str = List Nat`, no 0 byte, terminator implicit); a
  `char **` is `Option (List Str)` (`none` = NULL pointer, `some v` = allocated vector whose
  NULL terminator is implicit).  Integers (`int argc`, `start`, `num_to_delete`) are `Int`.
  One model function per C function, branch by branch; allocation failures are not modelled.
-/
namespace ParsecVerif.Argv

abbrev Str := List Nat
abbrev Vec := Option (List Str)

def SUCCESS : Int := 0
def ERROR : Int := -1
def BAD_PARAM : Int := -4

/-- `parsec_argv_count` -/
def count : Vec → Int
  | none => 0
  | some v => v.length

/-- `parsec_argv_append_nosize`: NULL → fresh 1-element vector, else realloc + strdup at the end -/
def appendNosize (v : Vec) (arg : Str) : Vec :=
  match v with
  | none => some [arg]
  | some l => some (l ++ [arg])

/-- `parsec_argv_append`: append, then `*argc = parsec_argv_count(*argv)` -/
def append (v : Vec) (arg : Str) : Int × Vec :=
  (count (appendNosize v arg), appendNosize v arg)

/-- `parsec_argv_prepend_nosize` -/
def prependNosize (v : Vec) (arg : Str) : Vec :=
  match v with
  | none => some [arg]
  | some l => some (arg :: l)

/-- `parsec_argv_append_unique_nosize`: present → (strdup over itself if `overwrite`) no change -/
def appendUniqueNosize (v : Vec) (arg : Str) (_overwrite : Bool) : Vec :=
  match v with
  | none => appendNosize none arg
  | some l => if l.any (· == arg) then some l else appendNosize (some l) arg

/-- `parsec_argv_copy` -/
def copy : Vec → Vec
  | none => none
  | some l => l.foldl (fun acc a => (append acc a).2) (some [])

/-- `parsec_argv_len`: bytes consumed (8-byte pointers) -/
def len : Vec → Nat
  | none => 0
  | some l => 8 + (l.map (fun s => s.length + 1 + 8)).sum

/-! ### split -/

/-- the inner scan `while ('\0' != *p && *p != delimiter) ++p` : scanned token and what is left at `p` -/
def scanTok (d : Nat) (s : Str) : Str := s.takeWhile (· != d)
def scanRest (d : Nat) (s : Str) : Str := s.dropWhile (· != d)

theorem scanRest_length_le (d : Nat) (s : Str) : (scanRest d s).length ≤ s.length := by
  unfold scanRest
  induction s with
  | nil => simp
  | cons c t ih =>
    simp only [List.dropWhile_cons]
    split
    · simp only [List.length_cons]; omega
    · simp

/-- `parsec_argv_split_inter`: one iteration of the outer `while (*src_string)` per call.
    * `src_string == p` (the current byte is the delimiter): an empty field, kept only if `incl`;
    * `'\0' == *p`: tail argument, appended straight from the source, loop ends;
    * otherwise the token is copied (stack buffer if `arglen ≤ 127`, malloc otherwise — same
      result) and the scan resumes behind the delimiter.
    (This is the loop only; what happens after it is in `splitWithEmpty`.) -/
def splitInter (incl : Bool) (d : Nat) (s : Str) : List Str :=
  match s with
  | [] => []
  | c :: t =>
    if scanTok d (c :: t) = [] then
      (if incl then [[]] else []) ++ splitInter incl d ((scanRest d (c :: t)).tail)
    else if scanRest d (c :: t) = [] then
      [c :: t]
    else
      scanTok d (c :: t) :: splitInter incl d ((scanRest d (c :: t)).tail)
termination_by s.length
decreasing_by
  all_goals
    have h := scanRest_length_le d (c :: t)
    simp only [List.length_tail, List.length_cons] at *
    omega

/-- a vector that received no append is the NULL pointer -/
def ofList (l : List Str) : Vec := if l = [] then none else some l

/-- `parsec_argv_split`: `include_empty = 0`, nothing happens after the loop -/
def split (s : Str) (d : Nat) : Vec := ofList (splitInter false d s)

/-- what `parsec_argv_split_inter` appends after the loop (repair 8e71ed6): with `include_empty`, a
    non-empty source whose last byte is the delimiter gets one more, empty, field -/
def trailingField (d : Nat) (s : Str) : List Str := if s.getLast? = some d then [[]] else []

/-- `parsec_argv_split_with_empty` -/
def splitWithEmpty (s : Str) (d : Nat) : Vec := ofList (splitInter true d s ++ trailingField d s)

/-- `parsec_argv_split_with_empty` as it was before 8e71ed6: nothing appended after the loop, a
    string ending in the delimiter lost its last (empty) field.  Kept to state the finding. -/
def splitWithEmptyBuggy (s : Str) (d : Nat) : Vec := ofList (splitInter true d s)

/-! ### join -/

/-- The fill loop of `parsec_argv_join`: the strings are laid out each followed by the delimiter
    and the last delimiter position is the terminator (`str_len - 1` bytes are written). -/
def joinList (l : List Str) (d : Nat) : Str :=
  (l.flatMap (fun s => s ++ [d])).take ((l.map (fun s => s.length + 1)).sum - 1)

/-- `parsec_argv_join` (bozo case: NULL or empty vector → "") -/
def join (v : Vec) (d : Nat) : Str :=
  match v with
  | none => []
  | some [] => []
  | some l => joinList l d

/-- `parsec_argv_join_range(argv, start, end, delimiter)`; `start`, `end` are `size_t`.
    The length is summed over `[start, end)` (stopping at the terminator) but the fill loop walks
    from `argv[start]` for `str_len - 1` bytes. -/
def rangeLen (l : List Str) (start stop : Nat) : Nat :=
  (((l.drop start).take (stop - start)).map (fun s => s.length + 1)).sum

def joinRange (v : Vec) (start stop : Nat) (d : Nat) : Str :=
  match v with
  | none => []
  | some [] => []
  | some l =>
    if (start : Int) > count (some l) then []
    else if rangeLen l start stop = 0 then []
    else ((l.drop start).flatMap (fun s => s ++ [d])).take (rangeLen l start stop - 1)

/-! ### delete / insert -/

/-- `parsec_argv_delete(&argc, &argv, start, num_to_delete)` → (rc, argc', argv').
    The copy loop `argv[i] = argv[i + num]` for `i ∈ [start, start + suffix_count)` reads ahead of
    its writes (num > 0), so it reads original entries.  `*argc = i`, the index of the new
    terminator `start + suffix_count` (repair ecccfcb). -/
def deleteList (l : List Str) (start num : Nat) : List Str :=
  l.take start ++
    (List.range (l.length - (start + num))).map (fun k => l.getD (start + k + num) [])

def delete (argc : Int) (v : Vec) (start num : Int) : Int × Int × Vec :=
  match v with
  | none => (SUCCESS, argc, none)
  | some l =>
    if num = 0 then (SUCCESS, argc, some l)
    else if start > count (some l) then (SUCCESS, argc, some l)
    else if start < 0 ∨ num < 0 then (BAD_PARAM, argc, some l)
    else (SUCCESS, ((start.toNat + (l.length - (start.toNat + num.toNat)) : Nat) : Int),
          some (deleteList l start.toNat num.toNat))

/-- `parsec_argv_delete` as it was before ecccfcb: `(*argc) -= num_to_delete` whatever was really
    removed.  Kept to state the finding. -/
def deleteBuggy (argc : Int) (v : Vec) (start num : Int) : Int × Int × Vec :=
  match v with
  | none => (SUCCESS, argc, none)
  | some l =>
    if num = 0 then (SUCCESS, argc, some l)
    else if start > count (some l) then (SUCCESS, argc, some l)
    else if start < 0 ∨ num < 0 then (BAD_PARAM, argc, some l)
    else (SUCCESS, argc - num, some (deleteList l start.toNat num.toNat))

/-- `parsec_argv_insert(&target, start, source)` → (rc, target') -/
def insert (target : Vec) (start : Int) (source : Vec) : Int × Vec :=
  match target with
  | none => (BAD_PARAM, none)
  | some t =>
    if start < 0 then (BAD_PARAM, some t)
    else match source with
      | none => (SUCCESS, some t)
      | some src =>
        if start > count (some t) then
          (SUCCESS, src.foldl (fun acc a => (append acc a).2) (some t))
        else
          (SUCCESS, some (t.take start.toNat ++ src ++ t.drop start.toNat))

/-- `parsec_argv_insert_element(&target, location, source)` -/
def insertElement (target : Vec) (loc : Int) (source : Option Str) : Int × Vec :=
  match target with
  | none => (BAD_PARAM, none)
  | some t =>
    if loc < 0 then (BAD_PARAM, some t)
    else match source with
      | none => (SUCCESS, some t)
      | some s =>
        if loc > count (some t) then (SUCCESS, (append (some t) s).2)
        else (SUCCESS, some (t.take loc.toNat ++ s :: t.drop loc.toNat))

end ParsecVerif.Argv
