/-
  Model of the resizable concurrent hash table of parsec/class/parsec_hash_table.c (branch
  `!defined(HELPFIRST)`, the one compiled).

  Shared store: the tables (one per value of `nb_bits`: every resize creates the table with
  `nb_bits + 1`, so `nb_bits` identifies a table; `top` = `ht->rw_hash->nb_bits`), each with
  `used_buckets`, the `next` pointer (as the `nb_bits` of the target, 0 = NULL) and its buckets
  (lock word, `cur_len`, the chain of items starting at `first_item`).

  Granularity: ONE MODEL STEP PER SYNCHRONISATION ACTION of the real code
    rd   parsec_atomic_rwlock_rdlock
    lt   parsec_atomic_lock of the bucket of the top-level table (+ the lock-protected work on that bucket)
    nx   the racy plain read `head = cur->next` of the walk through the older tables
    lo   parsec_atomic_lock of the bucket of an older table (+ the scan / unlink under that lock)
    du   parsec_atomic_fetch_dec_int32(&head->used_buckets)  (+ the read of `head->next`, argument of the CAS)
    cn   parsec_atomic_cas_ptr(&prev_head->next, head, head->next)
    ulo  parsec_atomic_unlock of the old bucket
    ult  [resize test of insert_impl / unlock_bucket_handle_impl] parsec_atomic_unlock of the top-level bucket
    rul  parsec_atomic_rwlock_rdunlock
    wr   parsec_atomic_rwlock_wrlock (+ `if( cur_head == ht->rw_hash ) parsec_hash_table_resize(ht)`)
    wul  parsec_atomic_rwlock_wrunlock
  The read-write lock is modelled by its specification (property C33): a writer is admitted only when
  no thread is between rdlock and rdunlock or between wrlock and wrunlock, a reader only when no thread
  is between wrlock and wrunlock; a thread that is not admitted does not move.  Bucket locks are the
  real test-and-set words (the model stores the owner `t+1` instead of 1; only `= 0` is ever tested).

  Operations of a thread: `ins k i` = parsec_hash_table_insert of item object `i` with key `k`;
  `find k` = parsec_hash_table_find; `rem k` = parsec_hash_table_remove; `foi k i` = the idiom
  lock_bucket_handle; nolock_find_handle; if NULL nolock_insert_handle(item i); unlock_bucket_handle.

  Caller discipline ("unique-key usage"), decided on caller-side bookkeeping only (`kheld`, `iheld`,
  updated when a call is issued and when it returns) — a call outside it is not issued (`rejected`):
  * even keys are managed with `ins`: `ins k i` is issued only while no earlier `ins k` is outstanding
    (issued and not yet followed by the return of a `rem k` that returned its item);
  * odd keys are managed with `foi` only;
  * an item object is passed to `ins`/`foi` only while it is not in the table (not handed over since
    it was last returned by a `rem`, or by a `foi` that found another item).

  Ghost components (never read by a transition that decides behaviour): `abs` (the abstract map, as
  a list of items with pairwise distinct keys), `lins` (the linearization records), time stamps,
  the owner stored in a lock word.
-/
namespace ParsecVerif.HashTable

def upd {α : Type} (f : Nat → α) (a : Nat) (v : α) : Nat → α := fun x => if x = a then v else f x

/-- `parsec_hash_table_universal_rehash` on a 64-bit hash, all arithmetic modulo 2^64 -/
def rehash (h64 nb : Nat) : Nat :=
  (((0xaa88564915a * (((h64 % 2^64) >>> 32) ^^^ (h64 % 2^64)) + 0x165e44f1fc94) % 2^64) % 2^(32+nb)) / 2^32

structure Item where
  key : Nat
  id : Nat
deriving Repr, DecidableEq

structure Bucket where
  lock : Nat := 0
  len : Int := 0
  items : List Item := []

structure Table where
  used : Int := 0
  next : Nat := 0
  bkt : Nat → Bucket := fun _ => {}

inductive Op
  | ins (k i : Nat)
  | find (k : Nat)
  | rem (k : Nat)
  | foi (k i : Nat)
deriving Repr, DecidableEq

def Op.key : Op → Nat
  | .ins k _ => k | .find k => k | .rem k => k | .foi k _ => k

/-- `find_in_old_tables` (find, foi) moves the item it finds to the top-level table;
    `remove_from_old_tables` (rem) does not -/
def Op.mv : Op → Bool
  | .find _ => true | .foi _ _ => true | _ => false

/-- operations whose unlock path tests `cur_len > max_collisions_hint` -/
def Op.mayResize : Op → Bool
  | .ins _ _ => true | .foi _ _ => true | _ => false

inductive Res
  | unit
  | ptr (i : Nat)     -- item id, 0 = NULL
  | rejected
deriving Repr, DecidableEq

def Op.res (op : Op) (r : Nat) : Res :=
  match op with
  | .ins _ _ => .unit
  | _ => .ptr r

inductive Pc
  | idle
  | rd
  | lt
  | nx (cur : Nat)
  | lo (hd pv : Nat)
  | du (hd pv : Nat) (it : Item)
  | cn (hd pv nv : Nat) (it : Item)
  | ulo (hd : Nat) (r : Option Item)
  | ult (r : Nat)
  | rul (r : Nat) (rz : Bool) (ch : Nat)
  | wr (ch r : Nat)
  | wul (r : Nat)
deriving Repr, DecidableEq

/-- between rdlock and rdunlock -/
def Pc.isReader : Pc → Bool
  | .lt | .nx _ | .lo .. | .du .. | .cn .. | .ulo .. | .ult _ | .rul .. => true
  | _ => false

/-- between wrlock and wrunlock -/
def Pc.isWriter : Pc → Bool
  | .wul _ => true
  | _ => false

structure OpRec where
  op : Op
  res : Res
  tInv : Nat
  tLin : Nat
  tRet : Nat
deriving Repr, DecidableEq

structure LinRec where
  tid : Nat
  op : Op
  res : Res
  tInv : Nat
  tLin : Nat
deriving Repr, DecidableEq

def OpRec.lin (t : Nat) (r : OpRec) : LinRec := ⟨t, r.op, r.res, r.tInv, r.tLin⟩
def LinRec.ev (l : LinRec) : Op × Res := (l.op, l.res)

structure Thread where
  pc : Pc
  op : Op
  todo : List Op
  hist : List OpRec
  tInv : Nat
  tLin : Nat
deriving Repr

def plainKey (k : Nat) : Bool := k % 2 == 0

/-- the shared store, the caller bookkeeping and the ghost map -/
structure Store where
  hf : Nat → Nat → Nat      -- key, nb_bits ↦ bucket index: universal_rehash(key_hash(key), nb_bits)
  hint : Int                -- ht->max_collisions_hint
  maxb : Int                -- ht->max_table_nb_bits
  nb0 : Nat                 -- nb_bits of the first table
  top : Nat                 -- ht->rw_hash->nb_bits
  tab : Nat → Table
  warned : Bool             -- ht->warning_issued
  kheld : List Nat          -- caller bookkeeping: even keys with an outstanding `ins`
  iheld : List Nat          -- caller bookkeeping: item objects handed to the table
  abs : List Item           -- ghost

structure State where
  m : Store
  thr : List Thread
  time : Nat
  lins : List LinRec        -- ghost

/-! ## store accessors and the primitive mutations -/

def Store.bk (s : Store) (T b : Nat) : Bucket := (s.tab T).bkt b

def Store.setBk (s : Store) (T b : Nat) (B : Bucket) : Store :=
  { s with tab := upd s.tab T { s.tab T with bkt := upd (s.tab T).bkt b B } }

def Store.setLock (s : Store) (T b v : Nat) : Store :=
  s.setBk T b { s.bk T b with lock := v }

/-- `parsec_hash_table_nolock_insert_handle`: chain at the front, `cur_len++` -/
def Store.pushFront (s : Store) (T b : Nat) (it : Item) : Store :=
  s.setBk T b { s.bk T b with items := it :: (s.bk T b).items, len := (s.bk T b).len + 1 }

/-- unlink the item from the chain, `--cur_len` -/
def Store.eraseIt (s : Store) (T b : Nat) (it : Item) : Store :=
  s.setBk T b { s.bk T b with items := (s.bk T b).items.erase it, len := (s.bk T b).len - 1 }

def Store.decUsed (s : Store) (T : Nat) : Store :=
  { s with tab := upd s.tab T { s.tab T with used := (s.tab T).used - 1 } }

def Store.setNext (s : Store) (T v : Nat) : Store :=
  { s with tab := upd s.tab T { s.tab T with next := v } }

/-- number of buckets of table `T` with a non-NULL `first_item` -/
def Store.usedCount (s : Store) (T : Nat) : Nat :=
  (List.range (2 ^ T)).countP fun b => !(s.bk T b).items.isEmpty

/-- `parsec_hash_table_resize` -/
def Store.resize (s : Store) : Store :=
  { s with
    tab := upd (upd s.tab s.top { s.tab s.top with used := (s.usedCount s.top : Nat) })
             (s.top + 1) { used := 0, next := s.top, bkt := fun _ => {} },
    top := s.top + 1 }

def scan (l : List Item) (k : Nat) : Option Item := l.find? fun it => it.key == k

/-! ## one micro step of a thread -/

structure Out where
  m : Store
  th : Thread
  lin : Option LinRec

def Thread.goto (th : Thread) (pc : Pc) : Thread := { th with pc := pc }

def stay (s : Store) (th : Thread) : Out := ⟨s, th, none⟩

/-- the step is the linearization point of the running operation, with result `r` -/
def linAt (s : Store) (t now : Nat) (th : Thread) (pc : Pc) (r : Nat) : Out :=
  ⟨s, { th with pc := pc, tLin := now }, some ⟨t, th.op, th.op.res r, th.tInv, now⟩⟩

/-- caller bookkeeping when a call returns -/
def release (s : Store) (op : Op) (r : Nat) : Store :=
  match op with
  | .rem k => if r = 0 then s else
      { s with iheld := s.iheld.erase r, kheld := if plainKey k then s.kheld.erase k else s.kheld }
  | .foi _ i => if r = i then s else { s with iheld := s.iheld.erase i }
  | _ => s

def finish (s : Store) (now : Nat) (th : Thread) (r : Nat) : Out :=
  ⟨release s th.op r,
   { th with pc := .idle, hist := th.hist ++ [⟨th.op, th.op.res r, th.tInv, th.tLin, now⟩] }, none⟩

def Op.admissible (s : Store) : Op → Bool
  | .ins k i => plainKey k && !s.kheld.contains k && i != 0 && !s.iheld.contains i
  | .foi k i => !plainKey k && i != 0 && !s.iheld.contains i
  | _ => true

def acquire (s : Store) : Op → Store
  | .ins k i => { s with kheld := k :: s.kheld, iheld := i :: s.iheld }
  | .foi _ i => { s with iheld := i :: s.iheld }
  | _ => s

/-- invocation of the next operation of the program (no access to the table) -/
def invoke (s : Store) (t now : Nat) (th : Thread) : Out :=
  match th.todo with
  | [] => stay s th
  | op :: rest =>
    if op.admissible s then
      ⟨acquire s op, { th with op := op, todo := rest, tInv := now, pc := .rd }, none⟩
    else
      ⟨s, { th with op := op, todo := rest, tInv := now, tLin := now, pc := .idle,
                    hist := th.hist ++ [⟨op, .rejected, now, now, now⟩] },
       some ⟨t, op, .rejected, now, now⟩⟩

/-- bucket of the running operation's key in the top-level table -/
def tbk (s : Store) (th : Thread) : Nat := s.hf th.op.key s.top

/-- the item found in an older table goes to the top-level table (find, foi) or to the caller (rem) -/
def mvInsert (s : Store) (th : Thread) (it : Item) : Store :=
  if th.op.mv then s.pushFront s.top (tbk s th) it else s

def stepRd (s : Store) (thr : List Thread) (th : Thread) : Out :=
  if thr.any (fun x => x.pc.isWriter) then stay s th else ⟨s, th.goto .lt, none⟩

/-- top-level bucket locked: the work of the operation on that bucket -/
def ltBody (s : Store) (t now : Nat) (th : Thread) (b : Nat) : Op → Out
  | .ins k i =>
    linAt { s.pushFront s.top b ⟨k, i⟩ with abs := ⟨k, i⟩ :: s.abs } t now th (.ult 0) 0
  | .find k =>
    match scan (s.bk s.top b).items k with
    | some it => linAt s t now th (.ult it.id) it.id
    | none => ⟨s, th.goto (.nx s.top), none⟩
  | .rem k =>
    match scan (s.bk s.top b).items k with
    | some it => linAt { s.eraseIt s.top b it with abs := s.abs.erase it } t now th (.ult it.id) it.id
    | none => ⟨s, th.goto (.nx s.top), none⟩
  | .foi k _ =>
    match scan (s.bk s.top b).items k with
    | some it => linAt s t now th (.ult it.id) it.id
    | none => ⟨s, th.goto (.nx s.top), none⟩

def stepLt (s : Store) (t now : Nat) (th : Thread) : Out :=
  if (s.bk s.top (tbk s th)).lock = 0 then
    ltBody (s.setLock s.top (tbk s th) (t + 1)) t now th (tbk s th) th.op
  else stay s th

/-- `head = cur->next`; NULL: the key is in no table -/
def stepNx (s : Store) (t now : Nat) (th : Thread) (cur : Nat) : Out :=
  if (s.tab cur).next = 0 then
    match th.op with
    | .foi k i =>
      linAt { s.pushFront s.top (tbk s th) ⟨k, i⟩ with abs := ⟨k, i⟩ :: s.abs } t now th (.ult i) i
    | _ => linAt s t now th (.ult 0) 0
  else ⟨s, th.goto (.lo (s.tab cur).next cur), none⟩

/-- the item was found in (and unlinked from) bucket `hf k hd` of the old table `hd`, whose `cur_len`
    was `len` before -/
def loFound (s : Store) (t now : Nat) (th : Thread) (hd pv : Nat) (it : Item) (len : Int) : Out :=
  if len - 1 = 0 then linAt s t now th (.du hd pv it) it.id
  else linAt (mvInsert s th it) t now th (.ulo hd (some it)) it.id

def absAfterFound (s : Store) (th : Thread) (it : Item) : Store :=
  if th.op.mv then s else { s with abs := s.abs.erase it }

def stepLo (s : Store) (t now : Nat) (th : Thread) (hd pv : Nat) : Out :=
  if (s.bk hd (s.hf th.op.key hd)).lock = 0 then
    match scan (s.bk hd (s.hf th.op.key hd)).items th.op.key with
    | none => ⟨s.setLock hd (s.hf th.op.key hd) (t + 1), th.goto (.ulo hd none), none⟩
    | some it =>
      loFound (absAfterFound ((s.setLock hd (s.hf th.op.key hd) (t + 1)).eraseIt hd (s.hf th.op.key hd) it) th it)
        t now th hd pv it (s.bk hd (s.hf th.op.key hd)).len
  else stay s th

def stepDu (s : Store) (th : Thread) (hd pv : Nat) (it : Item) : Out :=
  if (s.tab hd).used = 1 then ⟨s.decUsed hd, th.goto (.cn hd pv (s.tab hd).next it), none⟩
  else ⟨mvInsert (s.decUsed hd) th it, th.goto (.ulo hd (some it)), none⟩

def stepCn (s : Store) (th : Thread) (hd pv nv : Nat) (it : Item) : Out :=
  ⟨mvInsert (if (s.tab pv).next = hd then s.setNext pv nv else s) th it, th.goto (.ulo hd (some it)), none⟩

def stepUlo (s : Store) (th : Thread) (hd : Nat) (r : Option Item) : Out :=
  ⟨s.setLock hd (s.hf th.op.key hd) 0,
   th.goto (match r with | some it => .ult it.id | none => .nx hd), none⟩

/-- `cur_len > max_collisions_hint` on the unlock path of insert / unlock_bucket_handle -/
def over (s : Store) (th : Thread) : Bool :=
  th.op.mayResize && decide ((s.bk s.top (tbk s th)).len > s.hint)

def roomToGrow (s : Store) : Bool := decide ((s.top : Int) + 1 < s.maxb)

def stepUlt (s : Store) (th : Thread) (r : Nat) : Out :=
  ⟨{ s.setLock s.top (tbk s th) 0 with warned := s.warned || (over s th && !roomToGrow s) },
   th.goto (.rul r (over s th && roomToGrow s) s.top), none⟩

def stepRul (s : Store) (now : Nat) (th : Thread) (r : Nat) (rz : Bool) (ch : Nat) : Out :=
  if rz then ⟨s, th.goto (.wr ch r), none⟩ else finish s now th r

def stepWr (s : Store) (thr : List Thread) (th : Thread) (ch r : Nat) : Out :=
  if thr.any (fun x => x.pc.isReader || x.pc.isWriter) then stay s th
  else ⟨if ch = s.top then s.resize else s, th.goto (.wul r), none⟩

def stepPc (s : Store) (thr : List Thread) (t now : Nat) (th : Thread) : Pc → Out
  | .idle => invoke s t now th
  | .rd => stepRd s thr th
  | .lt => stepLt s t now th
  | .nx cur => stepNx s t now th cur
  | .lo hd pv => stepLo s t now th hd pv
  | .du hd pv it => stepDu s th hd pv it
  | .cn hd pv nv it => stepCn s th hd pv nv it
  | .ulo hd r => stepUlo s th hd r
  | .ult r => stepUlt s th r
  | .rul r rz ch => stepRul s now th r rz ch
  | .wr ch r => stepWr s thr th ch r
  | .wul r => finish s now th r

def stepTh (s : State) (t : Nat) (th : Thread) : Out := stepPc s.m s.thr t s.time th th.pc

def step (s : State) (t : Nat) : State :=
  match s.thr[t]? with
  | none => s
  | some th =>
    { m := (stepTh s t th).m,
      thr := s.thr.set t (stepTh s t th).th,
      time := s.time + 1,
      lins := s.lins ++ (stepTh s t th).lin.toList }

/-! ## configurations -/

structure Config where
  hf : Nat → Nat → Nat
  hint : Int
  maxb : Int
  nb0 : Nat
  progs : List (List Op)

/-- the hash lands in the table (the C code asserts it), and `parsec_hash_table_init` asserts `nb_bits ≥ 1` -/
def Config.WF (c : Config) : Prop := 1 ≤ c.nb0 ∧ ∀ k nb, c.hf k nb < 2 ^ nb

/-- the two key-function sets of the harness: 0 = `parsec_hash_table_generic_key_fn` (hash64 = key),
    1 = `key_hash(k) = k >> 3` with a real `key_equal` -/
def hfOf (hmode : Nat) : Nat → Nat → Nat :=
  if hmode = 0 then fun k nb => rehash k nb else fun k nb => rehash (k >>> 3) nb

def mkConfig (hmode : Nat) (hint maxb : Int) (nb0 : Nat) (progs : List (List Op)) : Config :=
  { hf := hfOf hmode, hint := hint, maxb := maxb, nb0 := nb0, progs := progs }

def blankTable : Table := { used := 0, next := 0, bkt := fun _ => {} }

def init (c : Config) : State :=
  { m := { hf := c.hf, hint := c.hint, maxb := c.maxb, nb0 := c.nb0, top := c.nb0,
           tab := fun _ => blankTable, warned := false, kheld := [], iheld := [], abs := [] },
    thr := c.progs.map fun p => ⟨.idle, .find 0, p, [], 0, 0⟩,
    time := 0, lins := [] }

def run (c : Config) (sched : List Nat) : State := sched.foldl step (init c)

/-! ## sequential specification: a map from keys to items -/

def lookup (σ : List Item) (k : Nat) : Option Item := σ.find? fun it => it.key == k

def idOf : Option Item → Nat
  | some it => it.id
  | none => 0

/-- `Spec.step σ op res = some σ'` iff `op` may return `res` on the map `σ`, leaving `σ'` -/
def Spec.step (σ : List Item) : Op → Res → Option (List Item)
  | .ins k i, .unit => if lookup σ k = none then some (⟨k, i⟩ :: σ) else none
  | .find k, .ptr r => if r = idOf (lookup σ k) then some σ else none
  | .rem k, .ptr r =>
    match lookup σ k with
    | some it => if r = it.id then some (σ.erase it) else none
    | none => if r = 0 then some σ else none
  | .foi k i, .ptr r =>
    match lookup σ k with
    | some it => if r = it.id then some σ else none
    | none => if r = i then some (⟨k, i⟩ :: σ) else none
  | _, .rejected => some σ
  | _, _ => none

def Spec.replay (σ : List Item) : List (Op × Res) → Option (List Item)
  | [] => some σ
  | e :: l => (Spec.step σ e.1 e.2).bind fun σ' => Spec.replay σ' l

/-! ## `parsec_hash_table_for_all` on a quiescent table -/

def tableItems (s : Store) (T : Nat) : List Item :=
  (List.range (2 ^ T)).flatMap fun b => (s.bk T b).items

/-- the tables reached from `T` following `next` (fuel = an upper bound of the chain length) -/
def chain (s : Store) : Nat → Nat → List Nat
  | 0, _ => []
  | _ + 1, 0 => []
  | fuel + 1, T => T :: chain s fuel (s.tab T).next

/-- the items in the order `parsec_hash_table_for_all` passes them to the callback -/
def forAll (s : Store) : List Item :=
  (chain s (s.top + 1) s.top).flatMap (tableItems s)

/-! ## macro steps: what one step of the cooperative scheduler executes -/

/-- park points of the real code under the harness' yield filter: the start of an operation, the CAS
    of a bucket lock, the fetch-dec of `used_buckets`, the CAS of a `next` pointer, and — only when the
    real lock makes the thread wait (`blk`) — the spin loops of the read-write lock -/
def Pc.isPark (blk : Bool) : Pc → Bool
  | .idle | .lt | .lo .. | .du .. | .cn .. => true
  | .rd | .wr .. => blk
  | _ => false

def threadAt (s : State) (t : Nat) : Thread := s.thr.getD t ⟨.idle, .find 0, [], [], 0, 0⟩

def runToPark (blk : Bool) : Nat → State → Nat → State
  | 0, s, _ => s
  | fuel + 1, s, t => if (threadAt s t).pc.isPark blk then s else runToPark blk fuel (step s t) t

def Pc.isRw : Pc → Bool
  | .rd | .wr .. => true
  | _ => false

/-- thread `t` is released from its park point and runs up to the next one.  `blk` = the real
    read-write lock kept the thread waiting in this step (the model then leaves it at `rd`/`wr`). -/
def macroStep (s : State) (t : Nat) (blk : Bool) : State :=
  if blk && (threadAt s t).pc.isRw then s else runToPark blk 16 (step s t) t

end ParsecVerif.HashTable
