/-
  Model of the configured read-write lock of parsec/class/parsec_rwlock.c
  (`PARSEC_RWLOCK_IMPL == PARSEC_RWLOCK_IMPL_TICKET`, the phase-fair ticket lock):

      rdlock:    w = fetch_add(&rin, RINC) & WBITS;
                 if (w != 0) while (w == (rin & WBITS)) spin;
                 rmb
      rdunlock:  wmb; fetch_add(&rout, RINC)
      wrlock:    ticket = fetch_inc(&win); while (wout != ticket) spin;
                 w = PRES | (ticket & PHID); ticket = fetch_add(&rin, w);
                 while (rout != ticket) spin;
                 rmb
      wrunlock:  wmb; fetch_and(&rin, 0xFFFFFF00); wout = wout + 1      (plain load, plain store)

  RINC = 0x100, WBITS = 3, PRES = 2, PHID = 1.

  One transition per atomic primitive, per memory barrier, per (re-)read of a spin loop and per plain
  access to a shared field.  This is FINER than the granularity of the cooperative scheduler (which
  cannot switch between an atomic operation and the plain accesses that follow it): `macroStep` below
  composes the transitions a thread executes between two yield points, and every macro run is a run
  of the fine machine (`Proofs/RwLock.lean: macroRun_eq_run`).

  The arithmetic modulus `M` is a parameter: `M = 0` gives the machine over the naturals
  (`x % 0 = x`), `M = 2^32` the machine over the 32-bit fields of the C structure.  Bit operations
  are written arithmetically: `x & 3 = x % 4`, `x & 0xFFFFFF00 = x - x % 256` (for `x < 2^32`),
  `2 | (t & 1) = 2 + t % 2`  (lemmas `and3`, `andFFFFFF00`, `pres_or_phid` in the proofs file).

  The ticket `t` carried by the writer program points after `wAdd` is a ghost (the C variable is
  overwritten by the old value of `rin`); no transition looks at it.
-/
namespace ParsecVerif.RwLock

inductive Kind
  | rd
  | wr
deriving Repr, DecidableEq

inductive Pc
  | idle                    -- thread start / between two lock cycles
  | done                    -- program finished
  | rAdd                    -- rdlock: about to fetch_add(&rin, RINC)
  | rSpin (w : Nat)         -- rdlock: about to read rin and compare its low bits with w
  | rFence                  -- rdlock: about to rmb
  | rIn                     -- inside the read critical section
  | rWmb                    -- rdunlock: about to wmb
  | rOut                    -- rdunlock: about to fetch_add(&rout, RINC)
  | wTick                   -- wrlock: about to fetch_inc(&win)
  | wSpin1 (t : Nat)        -- wrlock: about to read wout and compare it with the ticket
  | wAdd (t : Nat)          -- wrlock: about to fetch_add(&rin, PRES | (t & PHID))
  | wSpin2 (t rt : Nat)     -- wrlock: about to read rout and compare it with rt (old value of rin)
  | wFence (t : Nat)        -- wrlock: about to rmb
  | wIn (t : Nat)           -- inside the write critical section
  | wWmb (t : Nat)          -- wrunlock: about to wmb
  | wAnd (t : Nat)          -- wrunlock: about to fetch_and(&rin, 0xFFFFFF00)
  | wLoad (t : Nat)         -- wrunlock: about to read wout
  | wStore (t v : Nat)      -- wrunlock: about to store v + 1 into wout
deriving Repr, DecidableEq

structure Thread where
  pc   : Pc
  prog : List Kind          -- lock cycles still to run
deriving Repr, DecidableEq

structure State where
  rin  : Nat
  rout : Nat
  win  : Nat
  wout : Nat
  th   : List Thread
deriving Repr, DecidableEq

/-- an unlocked lock whose reader counters have already counted `a` readers and whose writer
    counters have counted `b` writers (`a = b = 0` is `parsec_atomic_rwlock_init`) -/
def init (a b : Nat) (progs : List (List Kind)) : State :=
  { rin := 256 * a, rout := 256 * a, win := b, wout := b, th := progs.map fun p => ⟨.idle, p⟩ }

def setT (s : State) (i : Nat) (pc : Pc) (prog : List Kind) : State :=
  { s with th := s.th.set i ⟨pc, prog⟩ }

/-- transition of thread `i`, which is at `pc` with remaining program `prog` -/
def stepT (M : Nat) (s : State) (i : Nat) (pc : Pc) (prog : List Kind) : State :=
  match pc with
  | .idle =>
    match prog with
    | [] => setT s i .done []
    | .rd :: p => setT s i .rAdd p
    | .wr :: p => setT s i .wTick p
  | .done => s
  | .rAdd =>
    { setT s i (if s.rin % 4 = 0 then .rFence else .rSpin (s.rin % 4)) prog with rin := (s.rin + 256) % M }
  | .rSpin w => if w = s.rin % 4 then s else setT s i .rFence prog
  | .rFence => setT s i .rIn prog
  | .rIn => setT s i .rWmb prog
  | .rWmb => setT s i .rOut prog
  | .rOut => { setT s i .idle prog with rout := (s.rout + 256) % M }
  | .wTick => { setT s i (.wSpin1 s.win) prog with win := (s.win + 1) % M }
  | .wSpin1 t => if s.wout = t then setT s i (.wAdd t) prog else s
  | .wAdd t => { setT s i (.wSpin2 t s.rin) prog with rin := (s.rin + (2 + t % 2)) % M }
  | .wSpin2 t rt => if s.rout = rt then setT s i (.wFence t) prog else s
  | .wFence t => setT s i (.wIn t) prog
  | .wIn t => setT s i (.wWmb t) prog
  | .wWmb t => setT s i (.wAnd t) prog
  | .wAnd t => { setT s i (.wLoad t) prog with rin := s.rin - s.rin % 256 }
  | .wLoad t => setT s i (.wStore t s.wout) prog
  | .wStore _ v => { setT s i .idle prog with wout := (v + 1) % M }

def step (M : Nat) (s : State) (i : Nat) : State :=
  match s.th[i]? with
  | none => s
  | some th => stepT M s i th.pc th.prog

def run (M : Nat) (s : State) (sched : List Nat) : State := sched.foldl (step M) s

/-! ## Granularity of the cooperative scheduler -/

def pcOf (s : State) (i : Nat) : Pc :=
  match s.th[i]? with
  | some th => th.pc
  | none => .done

/-- a thread that comes from `p` and arrives at `p1` keeps running: there is no yield point at `p1`
    (plain accesses, the first evaluation of a spin condition, the return to the caller) -/
def continues (p p1 : Pc) : Bool :=
  match p1 with
  | .idle => true
  | .wLoad _ => true
  | .wStore _ _ => true
  | .rSpin _ => match p with
    | .rAdd => true
    | _ => false
  | .wSpin1 _ => match p with
    | .wTick => true
    | _ => false
  | .wSpin2 _ _ => match p with
    | .wAdd _ => true
    | _ => false
  | _ => false

def macroFuel (M : Nat) : Nat → State → Nat → State
  | 0, s, _ => s
  | f + 1, s, i =>
    if continues (pcOf s i) (pcOf (step M s i) i) then macroFuel M f (step M s i) i else step M s i

/-- what thread `i` executes between two park points of the cooperative scheduler -/
def macroStep (M : Nat) (s : State) (i : Nat) : State := macroFuel M 6 s i

def macroRun (M : Nat) (s : State) (sched : List Nat) : State := sched.foldl (macroStep M) s

/-! ## Observations -/

def readersIn (s : State) : Nat := (s.th.filter fun t => t.pc = .rIn).length
def writersIn (s : State) : Nat := (s.th.filter fun t => match t.pc with
  | .wIn _ => true
  | _ => false).length

/-- the spin condition of a waiting thread is false (its next step leaves the state unchanged) -/
def blocked (s : State) : Pc → Bool
  | .rSpin w => w = s.rin % 4
  | .wSpin1 t => s.wout ≠ t
  | .wSpin2 _ rt => s.rout ≠ rt
  | _ => false

def M32 : Nat := 4294967296

end ParsecVerif.RwLock
