/-
  Model of parsec/mca/termdet/fourcounter/termdet_fourcounter_module.c (the "dynamic" four-counter
  termination detector), n processes in one state, plus the network and the application
  environment that drives the exported module functions.

  Real state (printed by the driver, compared with the real monitors after every operation):
    `Proc`   one `parsec_termdet_fourcounter_monitor_t` + the taskpool's nb_tasks / nb_pending_actions
             + `opn` = number of application messages whose incoming_message_start has run but whose
             incoming_message_end has not (environment bookkeeping) + `cbs` = termination callbacks run
    `net`    messages in flight (control and application), any delivery order; a control message that
             was dispatched to a NOT_READY monitor is `held` (= sits in that process's
             parsec_termdet_fourcounter_delayed_messages list, order kept by moving it to the end)
  Auxiliary (history) variables, written but never read by the real part: `gh`, `trT`, `started`.

  The handlers follow the C functions branch by branch, assertions compiled out (the theorems of
  Props/C11 show the assertions cannot fire).
-/
namespace ParsecVerif.FourCounter

inductive St where
  | notReady | busyWC | busyWP | idleWC | idleWP | term
  deriving DecidableEq, Repr, Inhabited

inductive Kind where
  | up (s r : Nat)        -- PARSEC_TERMDET_FOURCOUNTER_MSG_TYPE_UP, nb_sent / nb_received
  | down (res : Bool)     -- PARSEC_TERMDET_FOURCOUNTER_MSG_TYPE_DOWN, result
  | app                   -- an application (remote dependency activation) message
  deriving Inhabited

structure Packet where
  src : Nat
  dst : Nat
  kind : Kind
  held : Bool := false
  deriving Inhabited

structure Proc where
  st : St := .notReady
  ms : Nat := 0            -- messages_sent
  mr : Nat := 0            -- messages_received
  ncl : Int := -1          -- nb_child_left (uint32 initialised to -1)
  accS : Nat := 0
  accR : Nat := 0
  lastS : Int := -1        -- last_acc_sent_at_root (uint32 initialised to -1)
  lastR : Int := -1
  nt : Nat := 0            -- tp->nb_tasks
  npa : Nat := 0           -- tp->nb_pending_actions
  opn : Nat := 0           -- messages started, not ended (environment)
  cbs : Nat := 0           -- tp->tdm.callback invocations
  deriving Inhabited

/-- history variables of one process (never read by the real part) -/
structure PGhost where
  c : Bool := false        -- contributed to the wave in progress
  curS : Nat := 0          -- (messages_sent, messages_received) at its latest send_up
  curR : Nat := 0
  prevS : Nat := 0         -- ... at the send_up before that
  prevR : Nat := 0
  midS : Nat := 0          -- ... at the latest root decision
  midR : Nat := 0
  actT : Bool := false     -- had work at the latest root decision
  deriving Inhabited

structure State where
  n : Nat
  procs : Nat → Proc
  net : List Packet
  gh : Nat → PGhost
  trT : Nat                -- application messages in transit at the latest root decision
  started : Bool           -- at least one root decision made

def upd {α} (f : Nat → α) (p : Nat) (v : α) : Nat → α := fun q => if q = p then v else f q

/-! ### topology (parsec_termdet_fourcounter_topology_*) -/
def nbChildren (n me : Nat) : Nat := if 2 * me + 2 < n then 2 else if 2 * me + 1 < n then 1 else 0
def child (me i : Nat) : Nat := 2 * me + i + 1
def parent (me : Nat) : Nat := (me - 1) / 2

def init (n : Nat) : State :=
  { n := n, procs := fun _ => {}, net := [], gh := fun _ => {}, trT := 0, started := false }

def Proc.wl (p : Proc) : Nat := p.nt + p.npa

def isApp (k : Packet) : Bool := match k.kind with | .app => true | _ => false

def sumTo (n : Nat) (f : Nat → Nat) : Nat :=
  match n with
  | 0 => 0
  | k + 1 => sumTo k f + f k

def appCount : List Packet → Nat
  | [] => 0
  | k :: t => (if isApp k then 1 else 0) + appCount t

/-- application messages counted as sent and not yet counted as received -/
def transit (s : State) : Nat := appCount s.net + sumTo s.n (fun q => (s.procs q).opn)

def setP (s : State) (p : Nat) (v : Proc) : State := { s with procs := upd s.procs p v }
def setSt (s : State) (p : Nat) (x : St) : State := setP s p { s.procs p with st := x }
def push (s : State) (l : List Packet) : State := { s with net := s.net ++ l }

def downs (n me : Nat) (res : Bool) : List Packet :=
  (List.range (nbChildren n me)).map fun i => { src := me, dst := child me i, kind := .down res }

/-- first two lines of send_up_messages -/
def accAdd (p : Proc) : Proc := { p with accS := p.accS + p.ms, accR := p.accR + p.mr }

/-- the root's decision, on the monitor after `accAdd` -/
def rootRes (n : Nat) (p : Proc) : Bool :=
  nbChildren n 0 == 0 ||
    (p.lastS == (p.accS : Int) && p.lastR == (p.accR : Int) && p.accS == p.accR)

def rootAfter (n : Nat) (p : Proc) : Proc :=
  if rootRes n p then
    { p with ncl := nbChildren n 0, lastS := p.accS, lastR := p.accR, st := .term, cbs := p.cbs + 1 }
  else
    { p with ncl := nbChildren n 0, lastS := p.accS, lastR := p.accR, accS := 0, accR := 0 }

/-- history update at a root decision: every process forgets its contribution flag, the
    counters and activity of that instant are recorded -/
def ghDecide (s : State) : Nat → PGhost := fun q =>
  { c := false,
    curS := if q = 0 then (s.procs 0).ms else (s.gh q).curS,
    curR := if q = 0 then (s.procs 0).mr else (s.gh q).curR,
    prevS := if q = 0 then (s.gh 0).curS else (s.gh q).prevS,
    prevR := if q = 0 then (s.gh 0).curR else (s.gh q).prevR,
    midS := (s.procs q).ms, midR := (s.procs q).mr,
    actT := decide (0 < (s.procs q).wl) }

/-- send_up_messages on the root -/
def rootDecide (s : State) : State :=
  { s with
    procs := upd s.procs 0 (rootAfter s.n (accAdd (s.procs 0))),
    net := s.net ++ downs s.n 0 (rootRes s.n (accAdd (s.procs 0))),
    gh := ghDecide s, trT := transit s, started := true }

/-- send_up_messages on a non-root process -/
def sampleUp (s : State) (me : Nat) : State :=
  { s with
    procs := upd s.procs me { accAdd (s.procs me) with ncl := nbChildren s.n me, st := .idleWP },
    net := s.net ++ [{ src := me, dst := parent me,
                       kind := .up (accAdd (s.procs me)).accS (accAdd (s.procs me)).accR }],
    gh := upd s.gh me { s.gh me with c := true, prevS := (s.gh me).curS, prevR := (s.gh me).curR,
                                     curS := (s.procs me).ms, curR := (s.procs me).mr } }

def sendUp (s : State) (me : Nat) : State := if me = 0 then rootDecide s else sampleUp s me

/-- parsec_termdet_fourcounter_check_state_message_received -/
def checkMsg (s : State) (me : Nat) : State :=
  if (s.procs me).wl = 0 ∧ (s.procs me).st = .idleWC ∧ (s.procs me).ncl = 0 then sendUp s me else s

/-- parsec_termdet_fourcounter_check_state_workload_changed -/
def checkWl (s : State) (me : Nat) : State :=
  if (s.procs me).wl = 0 then
    if (s.procs me).st = .busyWP then setSt s me .idleWP
    else if (s.procs me).st = .busyWC then
      (if (s.procs me).ncl = 0 then sendUp (setSt s me .idleWC) me else setSt s me .idleWC)
    else s
  else
    if (s.procs me).st = .idleWC then setSt s me .busyWC
    else if (s.procs me).st = .idleWP then setSt s me .busyWP
    else s

/-- parsec_termdet_fourcounter_msg_up (the message is already removed from the network) -/
def msgUp (s : State) (me a b : Nat) : State :=
  checkMsg (setP s me { s.procs me with accR := (s.procs me).accR + b, accS := (s.procs me).accS + a,
                                         ncl := (s.procs me).ncl - 1 }) me

/-- parsec_termdet_fourcounter_msg_down -/
def msgDown (s : State) (me : Nat) (res : Bool) : State :=
  if res then
    setP (push s (downs s.n me res)) me { s.procs me with st := .term, cbs := (s.procs me).cbs + 1 }
  else
    if (s.procs me).st = .idleWP then
      checkMsg (setP (push s (downs s.n me res)) me { s.procs me with accS := 0, accR := 0, st := .idleWC }) me
    else
      setP (push s (downs s.n me res)) me { s.procs me with accS := 0, accR := 0, st := .busyWC }

/-! ### operations of the environment (each one call of the module API, or one network event) -/

inductive Action where
  | ready (p : Nat)                 -- taskpool_ready, without the replay of delayed messages
  | setT (p v : Nat)                -- taskpool_set_nb_tasks
  | setPA (p v : Nat)               -- taskpool_set_runtime_actions
  | addT (p : Nat) (v : Int)        -- taskpool_addto_nb_tasks
  | addPA (p : Nat) (v : Int)       -- taskpool_addto_runtime_actions
  | send (p q : Nat)                -- outgoing_message_start on p, message to q enters the network
  | rstart (k : Nat)                -- network delivers application message k: incoming_message_start
  | rend (q : Nat)                  -- incoming_message_end on q
  | deliver (k : Nat)               -- network delivers control message k: msg_dispatch

/-- application discipline: work appears on a workless process only before taskpool_ready or while
    an incoming message is being processed -/
def mayWork (p : Proc) (newWl : Nat) : Prop := p.wl = 0 → 0 < newWl → p.st = .notReady ∨ 0 < p.opn

instance (p : Proc) (w : Nat) : Decidable (mayWork p w) := by unfold mayWork; exact inferInstance

def setWl (s : State) (p nt npa : Nat) (chk : Bool) : State :=
  if chk then checkWl (setP s p { s.procs p with nt := nt, npa := npa }) p
  else setP s p { s.procs p with nt := nt, npa := npa }

def step (s : State) : Action → Option State
  | .ready p =>
    if p < s.n ∧ (s.procs p).st = .notReady then
      some (setP s p { s.procs p with ncl := nbChildren s.n p, st := .busyWC })
    else none
  | .setT p v =>
    if p < s.n ∧ (s.procs p).st ≠ .term ∧ mayWork (s.procs p) (v + (s.procs p).npa) then
      some (setWl s p v (s.procs p).npa (decide ((s.procs p).nt ≠ v)))
    else none
  | .setPA p v =>
    if p < s.n ∧ (s.procs p).st ≠ .term ∧ mayWork (s.procs p) ((s.procs p).nt + v) then
      some (setWl s p (s.procs p).nt v (decide ((s.procs p).npa ≠ v)))
    else none
  | .addT p v =>
    if p < s.n ∧ (s.procs p).st ≠ .term ∧ 0 ≤ ((s.procs p).nt : Int) + v ∧
       mayWork (s.procs p) ((((s.procs p).nt : Int) + v).toNat + (s.procs p).npa) then
      some (setWl s p (((s.procs p).nt : Int) + v).toNat (s.procs p).npa
              (decide (v ≠ 0 ∧ ((s.procs p).nt = 0 ∨ ((s.procs p).nt : Int) + v = 0))))
    else none
  | .addPA p v =>
    if p < s.n ∧ (s.procs p).st ≠ .term ∧ 0 ≤ ((s.procs p).npa : Int) + v ∧
       mayWork (s.procs p) ((s.procs p).nt + (((s.procs p).npa : Int) + v).toNat) then
      some (setWl s p (s.procs p).nt (((s.procs p).npa : Int) + v).toNat
              (decide (v ≠ 0 ∧ ((s.procs p).npa = 0 ∨ ((s.procs p).npa : Int) + v = 0))))
    else none
  | .send p q =>
    if p < s.n ∧ q < s.n ∧ p ≠ q ∧ (s.procs p).st ≠ .term ∧ 0 < (s.procs p).wl then
      some (push (setP s p { s.procs p with ms := (s.procs p).ms + 1 }) [{ src := p, dst := q, kind := .app }])
    else none
  | .rstart k =>
    match s.net[k]? with
    | none => none
    | some pk =>
      if isApp pk ∧ pk.dst < s.n ∧ (s.procs pk.dst).st ≠ .notReady ∧ (s.procs pk.dst).st ≠ .term then
        some (setP { s with net := s.net.eraseIdx k } pk.dst
          { s.procs pk.dst with
            opn := (s.procs pk.dst).opn + 1,
            st := if (s.procs pk.dst).st = .idleWC then .busyWC
                  else if (s.procs pk.dst).st = .idleWP then .busyWP else (s.procs pk.dst).st })
      else none
  | .rend q =>
    if q < s.n ∧ 0 < (s.procs q).opn ∧ (s.procs q).st ≠ .notReady ∧ (s.procs q).st ≠ .term then
      some (setP s q { s.procs q with opn := (s.procs q).opn - 1, mr := (s.procs q).mr + 1 })
    else none
  | .deliver k =>
    match s.net[k]? with
    | none => none
    | some pk =>
      if pk.dst < s.n then
        match pk.kind with
        | .app => none
        | .up a b =>
          if (s.procs pk.dst).st = .notReady then
            (if pk.held then none
             else some { s with net := s.net.eraseIdx k ++ [{ pk with held := true }] })
          else some (msgUp { s with net := s.net.eraseIdx k } pk.dst a b)
        | .down res =>
          if (s.procs pk.dst).st = .notReady then
            (if pk.held then none
             else some { s with net := s.net.eraseIdx k ++ [{ pk with held := true }] })
          else some (msgDown { s with net := s.net.eraseIdx k } pk.dst res)
      else none

/-- states reachable from the initial state of an n-process run by any sequence of operations -/
inductive Reach (n : Nat) : State → Prop where
  | init : Reach n (init n)
  | step {s s' : State} (a : Action) : Reach n s → step s a = some s' → Reach n s'

/-! ### the composite `taskpool_ready`: mark ready, then replay the delayed messages in order -/

def heldFor (p : Nat) (k : Packet) : Bool := k.held && k.dst == p

def replay (p : Nat) : Nat → State → State
  | 0, s => s
  | f + 1, s =>
    match s.net.findIdx? (heldFor p) with
    | none => s
    | some k =>
      match step s (.deliver k) with
      | some s' => replay p f s'
      | none => s

def readyFull (s : State) (p : Nat) : Option State :=
  match step s (.ready p) with
  | some s' => some (replay p s'.net.length s')
  | none => none

end ParsecVerif.FourCounter
