/-
  Model of the collective activation of remote successors
  (parsec/remote_dep.c: parsec_remote_dep_activate, remote_dep_bcast_*_child,
   parsec_remote_dep_propagate / parsec_gather_collective_pattern;
   parsec/remote_dep.h: remote_dep_rank_to_bit / remote_dep_bit_to_rank;
   parsec/remote_dep_mpi.c: remote_dep_mpi_pack_dep, the per-peer payload selection).

  C code mirrored (parsec_remote_dep_activate, one call per participant):

      remote_dep_reset_forwarded(); remote_dep_mark_forwarded(root);
      for( i = 0; propagation_mask >> i; i++ ) {                     -- outputs in mask order
          if( !((1U << i) & propagation_mask) ) continue;
          my_idx = (root == my_rank) ? 0 : -1;   idx = 0;
          for every set bit of output[i].rank_bits, in increasing bit order {
              rank = bit_to_rank(bit, root);
              if( is_forwarded(rank) ) continue;                    -- numbered by an earlier output
              idx++;
              if( my_idx == -1 ) { if( rank == my_rank ) my_idx = idx;
                                   mark_forwarded(rank); continue; }
              if( child(my_idx, idx) ) send(rank);                  -- one message per rank
              mark_forwarded(rank);
          } }

  A message to `peer` (remote_dep_mpi_pack_dep) carries the propagation mask in its header and
  the payload of exactly the outputs k of the SENDER's outgoing_mask whose bitmap contains `peer`.
  At the root outgoing_mask = propagation mask (every output with a remote successor); at a relay
  (parsec_remote_dep_propagate + parsec_gather_collective_pattern) the bitmaps are rebuilt for all
  outputs of the received mask and outgoing_mask = the outputs the relay consumes itself.

  Ranks and indices are `Nat`; `my_idx = -1` is `none`.  Preconditions of the API (`Cfg.WF`):
  root < n, all ranks < n, output indices strictly increasing (bits of a mask), n ≤ 2^31 (C int).
-/
namespace ParsecVerif.RemoteDep

inductive Topo where
  | star | chain | binomial
  deriving DecidableEq, Repr

/-- remote_dep_bcast_star_child -/
def starChild (me _him : Nat) : Bool := me == 0

/-- remote_dep_bcast_chainpipeline_child (the `me == -1` exit is not reachable from activate) -/
def chainChild (me him : Nat) : Bool := him == me + 1

/-- the loop of remote_dep_bcast_binomial_child: scan k = fuel-1 … 0, clear the first (leftmost)
    set bit.  For `him < 2^fuel`, `him & (1<<k)` at the first hit is `2^k ≤ him` and `him ^= mask`
    is `him - 2^k`. -/
def clearTop : Nat → Nat → Nat
  | 0, him => him
  | k+1, him => if 2 ^ k ≤ him then him - 2 ^ k else clearTop k him

/-- remote_dep_bcast_binomial_child -/
def binomialChild (me him : Nat) : Bool := him != 0 && clearTop 32 him == me

def Topo.child : Topo → Nat → Nat → Bool
  | .star => starChild
  | .chain => chainChild
  | .binomial => binomialChild

/-- remote_dep_rank_to_bit: position of `r` in the bitmaps of a collective rooted at `root` -/
def rankToBit (n root r : Nat) : Nat := (r + n - root) % n

/-- remote_dep_bit_to_rank -/
def bitToRank (n root v : Nat) : Nat := (v + root) % n

/-- the ranks of one output's bitmap in the order the activate loop meets them -/
def cands (n root : Nat) (S : List Nat) : List Nat :=
  ((List.range n).filter (fun v => (S.map (rankToBit n root)).contains v)).map (bitToRank n root)

/-- loop state of one call of parsec_remote_dep_activate -/
structure Loop where
  fw : List Nat          -- remote_dep_fw_mask (ranks marked forwarded, most recent first)
  idx : Nat
  my : Option Nat        -- my_idx, `none` = -1
  sends : List Nat       -- destinations of remote_dep_dequeue_send, in order
  deriving DecidableEq, Repr

/-- body of the inner loop for one set bit -/
def stepRank (child : Nat → Nat → Bool) (me : Nat) (s : Loop) (rank : Nat) : Loop :=
  if s.fw.contains rank then s
  else match s.my with
    | none => ⟨rank :: s.fw, s.idx + 1, if rank = me then some (s.idx + 1) else none, s.sends⟩
    | some m => ⟨rank :: s.fw, s.idx + 1, some m,
                 if child m (s.idx + 1) then s.sends ++ [rank] else s.sends⟩

/-- one iteration of the outer loop (one output of the propagation mask) -/
def activateOutput (child : Nat → Nat → Bool) (n root me : Nat) (fw S : List Nat) : Loop :=
  (cands n root S).foldl (stepRank child me) ⟨fw, 0, if me = root then some 0 else none, []⟩

/-- the outer loop: destinations of all sends of one participant, given the forwarded mask -/
def activateFrom (child : Nat → Nat → Bool) (n root me : Nat) : List Nat → List (List Nat) → List Nat
  | _, [] => []
  | fw, S :: rest =>
    (activateOutput child n root me fw S).sends ++
      activateFrom child n root me (activateOutput child n root me fw S).fw rest

/-- one output of the producer task: (dep_datatype_index, destination ranks) -/
abbrev Out := Nat × List Nat

/-- A collective: child predicate in force, communicator size, root, outputs of the propagation
    mask in increasing index order. -/
structure Cfg where
  child : Nat → Nat → Bool
  n : Nat
  root : Nat
  outs : List Out

/-- DTD taskpools always use the star predicate. -/
def mkCfg (t : Topo) (dtd : Bool) (n root : Nat) (outs : List Out) : Cfg :=
  ⟨(if dtd then Topo.star else t).child, n, root, outs⟩

def Cfg.WF (c : Cfg) : Prop :=
  c.root < c.n ∧ c.n ≤ 2 ^ 31 ∧ (c.outs.map Prod.fst).Pairwise (· < ·) ∧ ∀ o ∈ c.outs, ∀ r ∈ o.2, r < c.n

instance (c : Cfg) : Decidable c.WF := by unfold Cfg.WF; infer_instance

/-- destinations of the messages participant `me` sends (root: its activate; other ranks: the
    activate run by parsec_remote_dep_propagate with the same bitmaps and the same mask) -/
def Cfg.sends (c : Cfg) (me : Nat) : List Nat :=
  activateFrom c.child c.n c.root me [c.root] (c.outs.map Prod.snd)

/-- membership of output `o` in the outgoing_mask of participant `me` -/
def Cfg.omask (c : Cfg) (me : Nat) (o : Out) : Bool := me == c.root || o.2.contains me

/-- remote_dep_mpi_pack_dep: outputs whose payload the message `me → dst` carries -/
def Cfg.payload (c : Cfg) (me dst : Nat) : List Nat :=
  (c.outs.filter fun o => c.omask me o && o.2.contains dst).map Prod.fst

structure Msg where
  src : Nat
  dst : Nat
  keys : List Nat
  deriving DecidableEq, Repr

def Cfg.msgs (c : Cfg) (me : Nat) : List Msg :=
  (c.sends me).map fun d => ⟨me, d, c.payload me d⟩

/-! ## The collective as a machine: messages in flight, any delivery order -/

structure St where
  inflight : List Msg
  log : List Msg        -- delivered messages, most recent first
  deriving DecidableEq, Repr

def Cfg.init (c : Cfg) : St := ⟨c.msgs c.root, []⟩

/-- Deliver message `m` (one of those in flight): the receiver gets the payload and (once its data
    is there) re-activates the collective from its own position.  Not enabled if `m` is not in flight. -/
def Cfg.deliver (c : Cfg) (s : St) (m : Msg) : St :=
  if m ∈ s.inflight then ⟨s.inflight.erase m ++ c.msgs m.dst, m :: s.log⟩ else s

/-- a run = the list of messages in the order they are delivered (any order) -/
def Cfg.run (c : Cfg) (ms : List Msg) : St := ms.foldl c.deliver c.init

/-- first-in first-out delivery until nothing is in flight (at most `fuel` deliveries) -/
def Cfg.runFifo (c : Cfg) : Nat → St → St
  | 0, s => s
  | fuel+1, s =>
    match s.inflight with
    | [] => s
    | m :: _ => c.runFifo fuel (c.deliver s m)

/-- (receiver, output) pairs of a message log -/
def deliveriesOf (log : List Msg) : List (Nat × Nat) :=
  log.flatMap fun m => m.keys.map fun k => (m.dst, k)

/-- messages of the complete collective, in FIFO delivery order -/
def Cfg.messages (c : Cfg) : List Msg := (c.runFifo c.n c.init).log.reverse

/-- `deliveries`: every (receiver, output) pair delivered by the complete collective -/
def Cfg.deliveries (c : Cfg) : List (Nat × Nat) := deliveriesOf (c.runFifo c.n c.init).log

/-! ## The numbering the loops compute, and the decidable side condition `DeliveryOK` -/

/-- ranks numbered 1,2,… by one output: its bitmap minus the ranks already forwarded -/
def layer (fw cs : List Nat) : List Nat := cs.filter fun r => !fw.contains r

def layersFrom (n root : Nat) : List Nat → List (List Nat) → List (List Nat)
  | _, [] => []
  | fw, S :: rest =>
    layer fw (cands n root S) :: layersFrom n root ((layer fw (cands n root S)).reverse ++ fw) rest

def Cfg.layers (c : Cfg) : List (List Nat) := layersFrom c.n c.root [c.root] (c.outs.map Prod.snd)

/-- sender → receiver pairs inside one numbered layer: `p` (numbered `m`, the root being 0) sends to
    `x` (numbered `h`) iff `m < h` and the child predicate permits -/
def layerEdges (child : Nat → Nat → Bool) (root : Nat) (L : List Nat) : List (Nat × Nat) :=
  (L.zipIdx 1).flatMap fun xh =>
    (((root, 0) :: L.zipIdx 1).filter fun pm => decide (pm.2 < xh.2) && child pm.2 xh.2).map fun pm => (pm.1, xh.1)

def Cfg.edges (c : Cfg) : List (Nat × Nat) := c.layers.flatMap (layerEdges c.child c.root)

/-- (r, k) must be delivered: r is a remote consumer of output k -/
def Cfg.wanted (c : Cfg) (r k : Nat) : Bool :=
  r != c.root && c.outs.any fun o => o.1 == k && o.2.contains r

/-- **DeliveryOK**: every relay consumes every output that the ranks it forwards to consume. -/
def Cfg.deliveryOK (c : Cfg) : Bool :=
  c.edges.all fun px => px.1 == c.root || c.outs.all fun o => !o.2.contains px.2 || o.2.contains px.1

/-- the property: each remote consumer of each output receives it exactly once, nothing else is delivered -/
def ExactlyOnce (c : Cfg) (D : List (Nat × Nat)) : Prop :=
  ∀ r k, D.count (r, k) = if c.wanted r k then 1 else 0

/-- executable form of `ExactlyOnce` for well-formed configurations (used by the driver) -/
def Cfg.exactlyOnceB (c : Cfg) (D : List (Nat × Nat)) : Bool :=
  D.all (fun rk => c.wanted rk.1 rk.2 && D.count rk == 1) &&
  c.outs.all fun o => o.2.all fun r => r == c.root || D.count (r, o.1) == 1

end ParsecVerif.RemoteDep
