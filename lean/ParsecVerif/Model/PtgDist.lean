import ParsecVerif.Model.Ptg
import ParsecVerif.Model.DistRt
/-
  PTG programs on several processes (C05): the labelled task graph of a program, its placement under a
  distribution table, and the reference interpreter of the values computed by the bodies of
  harness/ptg_rt.c (the same hash, the same "held copy" rules).

  * `graphOfProg p`   : nodes = `allInstances p` (enumeration order), one labelled edge per edge produced by the
                        successor iterators (`allOutEdges`), label = the producer's flow index
                        (= `dep_datatype_index` / bit of the propagation mask for the subset generated here:
                        one datatype per flow).
  * `placeOfProg`     : the owner of the tile named by the class's placement expression, through the
                        distribution table (harness/ptg_rt.c: `ptg_owner`).
  * `refRun p nt`     : sequential execution in enumeration order: for every instance the value each data flow
                        SEES (`ptg_flow`: tile[0] of READ/RW flows) and WRITES (`ptg_task_end`: the hash of class,
                        flow, locals and all seen values, for RW/WRITE flows), and the final tiles
                        (`-> ddesc(e)` stores the held copy).
-/
namespace ParsecVerif.PtgDist
open ParsecVerif.Ptg ParsecVerif.DistRt ParsecVerif.RemoteDep

/-! ## graph and placement -/

def maxFlows (p : Program) : Nat := (p.classes.map fun c => c.flows.length).foldl max 0

def graphOfProg (p : Program) : DGraph :=
  { n := (allInstances p).length, nout := maxFlows p,
    E := (allOutEdges p).filterMap fun e =>
      match (allInstances p).idxOf? e.src, (allInstances p).idxOf? e.dst with
      | some i, some j => some (i, j, e.sflow)
      | _, _ => none,
    ctl := (enumFrom 0 (allInstances p)).flatMap fun (i, t) =>
      match p.classes[t.cls]? with
      | some cl => (enumFrom 0 cl.flows).filterMap fun (fi, f) => if f.access == Access.ctl then some (i, fi) else none
      | none => [] }

def tileOf (p : Program) (nt : Nat) (t : Instance) : Nat :=
  match p.classes[t.cls]? with
  | some cl => (normMod (eval p.globals t.env cl.place) nt).toNat
  | none => 0

/-- harness/ptg_rt.c `ptg_owner`: table[(tile) mod length] mod nranks; empty table = cyclic -/
def ownerOf (table : List Nat) (nranks tile : Nat) : Nat :=
  if table.isEmpty then tile % nranks else (table.getD (tile % table.length) 0) % nranks

def placeOfProg (p : Program) (nt : Nat) (table : List Nat) (nranks : Nat) (i : Nat) : Nat :=
  match (allInstances p)[i]? with
  | some t => ownerOf table nranks (tileOf p nt t)
  | none => 0

def confOf (p : Program) (nt : Nat) (table : List Nat) (topo : Topo) (nranks short : Nat) : Conf :=
  { topo := topo, nranks := nranks, place := placeOfProg p nt table nranks, short := short, size := fun _ => 1 }

/-- nodes whose collective activation violates the side condition of C05_rank_invariance_partial
    (C13's DeliveryOK restricted to the data outputs) -/
def notOK (g : DGraph) (cf : Conf) : List Nat :=
  (List.range g.n).filter fun a => !dataOK (cfgOf g cf a) (g.isCtl a)

/-- nodes whose collective activation violates C13's DeliveryOK (control outputs included) -/
def notDeliveryOK (g : DGraph) (cf : Conf) : List Nat :=
  (List.range g.n).filter fun a => !(cfgOf g cf a).deliveryOK

/-- (node, receiver rank, output) triples that the collective of `a` never delivers although wanted -/
def lostOf (g : DGraph) (cf : Conf) (a : Nat) : List (Nat × Nat) :=
  let c := cfgOf g cf a
  (c.outs.flatMap fun o => o.2.map fun r => (r, o.1)).filter fun rk =>
    !g.isCtl a rk.2 && c.wanted rk.1 rk.2 && !c.deliveries.contains rk

/-- nodes that can never run: a dependency into them is lost, or comes from such a node -/
def starved (g : DGraph) (cf : Conf) : List Nat :=
  (List.range g.n).foldl (fun acc b =>
    if g.E.any (fun e => e.2.1 == b &&
        (acc.contains e.1 ||
         (cf.place e.2.1 != cf.place e.1 && (lostOf g cf e.1).contains (cf.place b, e.2.2))))
    then b :: acc else acc) []

/-! ## reference interpreter of the harness bodies -/

def mix (h x : Int) : Int := (h * 31 + x % 4294967296) % 1000003

structure Rec where
  inst : Instance
  seen : List (Option Int)     -- per flow: value seen by the body (B line)
  wrote : List (Option Int)    -- per flow: value written by the body (E line)
  held : List (Option Int)     -- per flow: value of the copy held when the task ends (forwarded to successors)
deriving Repr

structure RSt where
  recs : List Rec
  tiles : List Int
deriving Repr

def heldOf (st : RSt) (t : Instance) (f : Nat) : Option Int :=
  match st.recs.find? (fun r => r.inst == t) with
  | some r => (r.held[f]?).getD none
  | none => none

/-- the copy an input flow receives: the first active dependency decides (WellFormed: exactly one) -/
def flowSource (p : Program) (nt : Nat) (st : RSt) (t : Instance) (f : Flow) : Option Int × Bool :=
  -- (value, pointer is non-NULL)
  match f.ins.findSome? (fun d => activeTarget p.globals t.env d) with
  | some (.task sc sf args) =>
      match p.classes[sc]? with
      | some scl =>
        match (argTuples p.globals t.env args).filterMap
            (fun tup => buildTarget p.globals false scl.locals scl.isParam tup []) with
        | env :: _ => (heldOf st ⟨sc, env⟩ sf, true)
        | [] => (none, false)
      | none => (none, false)
  | some (.coll e) => ((st.tiles[(normMod (eval p.globals t.env e) nt).toNat]?), true)
  | some .new => (none, true)
  | some .null => (none, false)
  | none => (none, false)

def isData (f : Flow) : Bool := f.access != Access.ctl

def runInstance (p : Program) (nt : Nat) (st : RSt) (t : Instance) : RSt :=
  match p.classes[t.cls]? with
  | none => st
  | some cl =>
    let srcs := cl.flows.map fun f => if isData f then flowSource p nt st t f else (none, false)
    -- `ptg_flow`: READ and RW flows with a non-NULL pointer are read
    let seen := (cl.flows.zip srcs).map fun (f, s) =>
      match f.access with
      | .read | .rw => if s.2 then s.1 else none
      | _ => none
    -- number of announced flows = last data flow + 1
    let nfl := ((List.range cl.flows.length).filter fun i => match cl.flows[i]? with | some f => isData f | none => false).foldl (fun _ i => i + 1) 0
    let hIn := (seen.take nfl).foldl (fun h v => mix h (v.getD 0))
    let wrote := (List.range cl.flows.length).map fun fi =>
      match cl.flows[fi]?, srcs[fi]? with
      | some f, some s =>
        if (f.access == Access.rw || f.access == Access.write) && s.2 then
          some (hIn (t.env.foldl mix (mix (mix 17 (t.cls : Int)) (fi : Int))))
        else none
      | _, _ => none
    let held := (List.range cl.flows.length).map fun fi =>
      match (wrote[fi]?).getD none with
      | some v => some v
      | none => (seen[fi]?).getD none
    -- `-> ddesc(e)`: the held copy is stored into the collection
    let tiles := (List.range cl.flows.length).foldl (fun tl fi =>
      match cl.flows[fi]?, (held[fi]?).getD none with
      | some f, some v =>
        f.outs.foldl (fun tl d =>
          match activeTarget p.globals t.env d with
          | some (.coll e) => tl.set (normMod (eval p.globals t.env e) nt).toNat v
          | _ => tl) tl
      | _, _ => tl) st.tiles
    { recs := ⟨t, seen, wrote, held⟩ :: st.recs, tiles := tiles }

/-- initial collection: tile `t` holds `1000 + t` -/
def refRun (p : Program) (nt : Nat) : RSt :=
  let st := (allInstances p).foldl (runInstance p nt) ⟨[], (List.range nt).map fun (t : Nat) => (1000 + (t : Int))⟩
  { st with recs := st.recs.reverse }

/-! ## pseudo-random schedules of the distributed machine (driver, examples) -/

def lcg (x : Nat) : Nat := (x * 6364136223846793005 + 1442695040888963407) % 18446744073709551616

def choices : Nat → Nat → List Nat
  | 0, _ => []
  | n + 1, x => (lcg x / 65536) :: choices n (lcg x)

def simF (i : Nat) (ins : List (Option Nat)) : Nat := ins.foldl (fun h x => (h * 31 + x.getD 7) % 1000003) (i + 17)

end ParsecVerif.PtgDist
