/-
  Model of the broadcast performed by `parsec_termdet_signal_termination`
  (parsec/mca/termdet/user_trigger/termdet_user_trigger_module.c).

  C code mirrored:
      int my_rank = (tp->context->my_rank - monitor->root + nb_nodes) % nb_nodes;
      int nb_children = 2*my_rank + 2 < nb_nodes ? 2 : (2*my_rank + 1 < nb_nodes ? 1 : 0);
      for(i = 0; i < nb_children; i++) {
          int child = 2 * my_rank + i + 1;
          int real_child = (child + monitor->root) % nb_nodes;
          send_am(real_child)
      }
  Ranks are `Nat` (0 ≤ me, root < n is the API precondition: ranks of the communicator);
  absence of `int` overflow needs 2n+2 < 2^31, stated where used.
-/
namespace ParsecVerif.UserTrigger

/-- rank in the shifted world where `root` is 0 -/
def shifted (n root me : Nat) : Nat := (me + n - root) % n

def nbChildren (n v : Nat) : Nat :=
  if 2 * v + 2 < n then 2 else if 2 * v + 1 < n then 1 else 0

/-- the `i`-th destination of `me` -/
def child (n root me i : Nat) : Nat := (2 * shifted n root me + i + 1 + root) % n

/-- destinations of the notifications sent by `me` when it terminates, in sending order -/
def children (n root me : Nat) : List Nat :=
  (List.range (nbChildren n (shifted n root me))).map (child n root me)

/-- all (sender, receiver) pairs of a complete wave in which every process terminates once -/
def allSends (n root : Nat) : List (Nat × Nat) :=
  (List.range n).flatMap fun me => (children n root me).map fun c => (me, c)

/-- Executable wave: `frontier` are the processes that just terminated; each of them sends
    to its children, which terminate on receipt (the code's `msg_dispatch → set_nb_tasks(0)`),
    `fuel` bounds the depth.  Returns the list of receipts in order. -/
def wave (n root : Nat) : Nat → List Nat → List Nat
  | 0, _ => []
  | _, [] => []
  | fuel+1, frontier =>
    let recv := frontier.flatMap (children n root)
    recv ++ wave n root fuel recv

/-- receipts of the whole protocol run triggered at `root` -/
def receipts (n root : Nat) : List Nat := wave n root n [root]

end ParsecVerif.UserTrigger
