/-
  C14, second layer — one tag's pool of persistent receives together with MPI's view of it.

  What the first layer (`CommEngine`) treats as input — which window slot `MPI_Testsome` reports — is constrained
  here by the only facts about MPI that the theorems use:
    * matching (`arrive`): a message for the tag is received by the posted receive that was started longest ago among
      those holding no message; if every receive holds one it waits in MPI's unexpected queue;
    * completion (`report`): `MPI_Testsome` can only report a tested receive that holds a message — any subset of
      them, in any order;
    * `MPI_Start` (`restart`): the receive becomes the youngest posted one and immediately takes the oldest
      unexpected message, if any.
  The pool bookkeeping itself (`Pool.complete`, `Pool.done`, `Pool.refill`) is the one of the first layer.
-/
import ParsecVerif.Model.CommEngine

namespace ParsecVerif.CommEngine

structure GPool where
  p : Pool
  posted : List Nat           -- receives in the order of their last start, oldest first
  held : List (Nat × Nat)     -- (receive, message): matched, not yet handed to the callback
  unexp : List Nat            -- MPI's unexpected queue for the tag, oldest first
  delivered : List Nat        -- messages handed to the tag callback, in order
  arrived : List Nat          -- all messages that arrived so far
  deriving Repr

def GPool.init (id n t base : Nat) : GPool :=
  { p := Pool.init id n t base, posted := List.range n, held := [], unexp := [], delivered := [], arrived := [] }

def GPool.keys (g : GPool) : List Nat := g.held.map (·.1)

def GPool.arrive (g : GPool) (m : Nat) : GPool :=
  match g.posted.find? (fun r => decide (r ∉ g.keys)) with
  | some r => { g with held := g.held ++ [(r, m)], arrived := g.arrived ++ [m] }
  | none => { g with unexp := g.unexp ++ [m], arrived := g.arrived ++ [m] }

def GPool.report (g : GPool) (j : Nat) : GPool := { g with p := g.p.complete j }

def GPool.restart (g : GPool) (r : Nat) : GPool :=
  match g.unexp with
  | m :: rest => { g with posted := g.posted.erase r ++ [r], held := g.held ++ [(r, m)], unexp := rest }
  | [] => { g with posted := g.posted.erase r ++ [r] }

/-- The callback receives the message `e.2` of receive `r` found at window offset `j`; then `Pool.done`. -/
def GPool.deliver (g : GPool) (j r : Nat) (e : Nat × Nat) : GPool :=
  { g with p := (g.p.done j).1, delivered := g.delivered ++ [e.2], held := g.held.filter (fun e => e.1 != r) }

/-- Service of window offset `j`: the callback gets the message of the receive, then the tail of
    `mpi_no_thread_serve_cb` (`Pool.done`) restarts the receive. -/
def GPool.serve (g : GPool) (j : Nat) : GPool :=
  match g.p.win[j]? with
  | some sl =>
    match sl.cb with
    | .am _ r =>
      match g.held.find? (fun e => e.1 == r) with
      | some e =>
        (g.deliver j r e).restart r
      | none => g
    | _ => g
  | none => g

def GPool.refill (g : GPool) : GPool := { g with p := g.p.refill }

/-- One pass of the progress loop restricted to this tag: `js` = window offsets reported by `MPI_Testsome`. -/
def GPool.pass (g : GPool) (js : List Nat) : GPool :=
  (js.foldl GPool.serve (js.foldl GPool.report g)).refill

/-- Number of `+1 mod n` steps from `a` to `b`. -/
def cd (n a b : Nat) : Nat := if a ≤ b then b - a else b + n - a

end ParsecVerif.CommEngine
