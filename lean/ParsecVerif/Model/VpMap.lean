/-
  Model of the virtual-process map and thread-binding parsers of ICLDisco/parsec:

    parsec/vpmap.c    parsec_vpmap_init (dispatch on the `runtime_vpmap` string),
                      parsec_vpmap_init_from_flat / _from_hardware_affinity / _from_parameters /
                      _from_file, parse_binding_parameter (hex mask | start;end;step | core list)
    parsec/parsec.c   parsec_parse_binding_parameter (`bind_map`: hex masks, start:end:step ranges,
                      core lists, file:), parsec_find_core_by_idx, parsec_set_thread_location,
                      parsec_select_vpmap_thread_core / parsec_apply_vpmap_thread_locations

  Every parser is a TOTAL function `List Char → outcome`, with the number of binding resources
  `R = parsec_hwloc_nb_real_cores()` as a parameter.  Memory-unsafe executions of the C code
  (out-of-bounds write/read, NULL dereference, read of uninitialised heap memory, signed overflow) are
  the explicit outcome `ub`; `parsec_fatal` is the outcome `fatal`.  `parsec_hwloc_get_ht()` is the
  constant 1 in this code base (the static it returns is never written), so `nbht = 1` throughout and the
  `ht` field written by parse_binding_parameter is always -1.

  Integers read with strtol are C `long`s (clamped) that the code stores into `int`s (wrapped to 32 bits).
-/
namespace ParsecVerif.VpMap

abbrev Str := List Char

/-! ## C library: isspace, strtol, strtoul, strchr, strpbrk, sscanf("%d") -/

def isSpace (c : Char) : Bool :=
  c = ' ' || c = '\t' || c = '\n' || c = '\x0b' || c = '\x0c' || c = '\r'

def skipSpace : Str → Str
  | [] => []
  | c :: t => if isSpace c then skipSpace t else c :: t

def digitVal (c : Char) : Option Nat :=
  if '0' ≤ c ∧ c ≤ '9' then some (c.toNat - 48)
  else if 'a' ≤ c ∧ c ≤ 'z' then some (c.toNat - 87)
  else if 'A' ≤ c ∧ c ≤ 'Z' then some (c.toNat - 55)
  else none

def isDigitIn (b : Nat) (c : Char) : Bool :=
  match digitVal c with
  | some d => d < b
  | none => false

/-- value of the maximal digit prefix in base `b`, most significant first -/
def digitsVal (b : Nat) : Str → Nat → Nat
  | [], acc => acc
  | c :: t, acc => if isDigitIn b c then digitsVal b t (acc * b + (digitVal c).getD 0) else acc

def dropDigits (b : Nat) : Str → Str
  | [] => []
  | c :: t => if isDigitIn b c then dropDigits b t else c :: t

def hasDigit (b : Nat) : Str → Bool
  | [] => false
  | c :: _ => isDigitIn b c

/-- sign of a number: (negative?, rest) -/
def signNeg : Str → Bool
  | '-' :: _ => true
  | _ => false
def signRest : Str → Str
  | '-' :: t => t
  | '+' :: t => t
  | s => s

/-- "0x"/"0X" prefix followed by a hex digit (glibc only skips the prefix then) -/
def hexPrefix : Str → Bool
  | '0' :: x :: h :: _ => (x = 'x' || x = 'X') && isDigitIn 16 h
  | _ => false

def LONG_MAX : Int := 9223372036854775807
def LONG_MIN : Int := -9223372036854775808
def INT_MAX : Int := 2147483647
def INT_MIN : Int := -2147483648
def ULONG_MAX : Nat := 18446744073709551615

def clampLong (v : Int) : Int := if v > LONG_MAX then LONG_MAX else if v < LONG_MIN then LONG_MIN else v

/-- C conversion long → int (two's complement wrap; what gcc does) -/
def wrap32 (v : Int) : Int := (v + 2147483648) % 4294967296 - 2147483648

/-- effective base and digit string for strtol with base ∈ {0, 10, 16}, after sign -/
def effBase (base : Nat) (s : Str) : Nat :=
  if base = 16 then 16
  else if base = 0 then (if hexPrefix s then 16 else match s with | '0' :: _ => 8 | _ => 10)
  else base
def effDigits (base : Nat) (s : Str) : Str :=
  if (base = 16 ∨ base = 0) ∧ hexPrefix s then s.drop 2 else s

/-- `strtol(s, &end, base)`: value as a C long. -/
def strtolVal (base : Nat) (s : Str) : Int :=
  if hasDigit (effBase base (signRest (skipSpace s))) (effDigits base (signRest (skipSpace s))) then
    clampLong (if signNeg (skipSpace s)
               then - (digitsVal (effBase base (signRest (skipSpace s))) (effDigits base (signRest (skipSpace s))) 0 : Int)
               else (digitsVal (effBase base (signRest (skipSpace s))) (effDigits base (signRest (skipSpace s))) 0 : Int))
  else 0
/-- the `end` pointer of strtol: the unparsed rest; the whole input when nothing was converted -/
def strtolRest (base : Nat) (s : Str) : Str :=
  if hasDigit (effBase base (signRest (skipSpace s))) (effDigits base (signRest (skipSpace s))) then
    dropDigits (effBase base (signRest (skipSpace s))) (effDigits base (signRest (skipSpace s)))
  else s
def strtolConv (base : Nat) (s : Str) : Bool :=
  hasDigit (effBase base (signRest (skipSpace s))) (effDigits base (signRest (skipSpace s)))

/-- `int x = strtol(s, ..., 10)` -/
def atoiVal (s : Str) : Int := wrap32 (strtolVal 10 s)

/-- `strtoul(s, NULL, 16)` as an unsigned long -/
def strtoul16 (s : Str) : Nat :=
  if hasDigit 16 (effDigits 16 (signRest (skipSpace s))) then
    (if digitsVal 16 (effDigits 16 (signRest (skipSpace s))) 0 > ULONG_MAX then ULONG_MAX
     else if signNeg (skipSpace s)
          then (ULONG_MAX + 1 - digitsVal 16 (effDigits 16 (signRest (skipSpace s))) 0) % (ULONG_MAX + 1)
          else digitsVal 16 (effDigits 16 (signRest (skipSpace s))) 0)
  else 0

/-- `strchr(s, c)`: the suffix starting AT the first `c` -/
def strchr (c : Char) : Str → Option Str
  | [] => none
  | d :: t => if d = c then some (d :: t) else strchr c t

/-- the suffix AFTER the first `c` -/
def afterChar (c : Char) (s : Str) : Option Str := (strchr c s).map List.tail

/-- `strpbrk(s, ",-")` -/
def strpbrkCD : Str → Option Str
  | [] => none
  | d :: t => if d = ',' ∨ d = '-' then some (d :: t) else strpbrkCD t

/-- one `%d` of sscanf: skip blanks, optional sign, at least one decimal digit -/
def scanInt (s : Str) : Option (Int × Str) :=
  if hasDigit 10 (signRest (skipSpace s)) then
    some (wrap32 (clampLong (if signNeg (skipSpace s) then - (digitsVal 10 (signRest (skipSpace s)) 0 : Int)
                                                  else (digitsVal 10 (signRest (skipSpace s)) 0 : Int))),
          dropDigits 10 (signRest (skipSpace s)))
  else none

def expectColon : Str → Option Str
  | ':' :: t => some t
  | _ => none

/-- `sscanf(s, "rr:%d:%d:%d", &n, &p, &c) == 3` (the caller has checked the "rr:" prefix) -/
def scanRR (s : Str) : Option (Int × Int × Int) :=
  match scanInt (s.drop 3) with
  | none => none
  | some (n, r1) =>
    match expectColon r1 with
    | none => none
    | some r1' =>
      match scanInt r1' with
      | none => none
      | some (p, r2) =>
        match expectColon r2 with
        | none => none
        | some r2' =>
          match scanInt r2' with
          | none => none
          | some (c, _) => some (n, p, c)

/-! ## hwloc bitmaps -/

/-- A bitmap: finitely many indices `bits` (ascending, no duplicates) and, when `inf = some k`, every
    index `≥ k` (hwloc's "infinitely set" tail, produced by `hwloc_bitmap_set_range(b, begin, -1)`). -/
structure CpuSet where
  bits : List Nat
  inf  : Option Nat
deriving DecidableEq, Repr

namespace CpuSet
def empty : CpuSet := ⟨[], none⟩
def single (c : Nat) : CpuSet := ⟨[c], none⟩
/-- `hwloc_bitmap_set_range(empty, lo, hi)`, `hi` a C int: -1 = infinite range; `(unsigned)hi < lo` = no-op -/
def setRange (lo : Nat) (hi : Int) : CpuSet :=
  if hi = -1 then ⟨[], some lo⟩
  else if hi < lo then empty
  else ⟨List.range' lo (hi.toNat + 1 - lo), none⟩
/-- `hwloc_bitmap_singlify` -/
def singlify (c : CpuSet) : CpuSet :=
  match c.bits, c.inf with
  | b :: _, _ => ⟨[b], none⟩
  | [], some k => ⟨[k], none⟩
  | [], none => empty
def Mem (n : Nat) (c : CpuSet) : Prop := n ∈ c.bits ∨ ∃ k, c.inf = some k ∧ k ≤ n
/-- every member is a valid binding-resource index `< R` -/
def Within (R : Nat) (c : CpuSet) : Prop := c.inf = none ∧ ∀ b ∈ c.bits, b < R
def Disjoint (a b : CpuSet) : Prop := ∀ n, ¬ (Mem n a ∧ Mem n b)
end CpuSet

/-- the bit set by `HWLOC_SET(cpuset, -1)`: `(unsigned)-1` -/
def UNBOUND_BIT : Nat := 4294967295

/-! ## the VP map -/

/-- `vpmap_thread_t` -/
structure Thr where
  nbcores : Int
  cpuset  : Option CpuSet     -- none = NULL pointer
  ht      : Int
deriving DecidableEq, Repr

def Thr.zero : Thr := ⟨0, none, 0⟩       -- calloc'ed

/-- a VP = its `nbthreads` visible threads -/
abbrev Vp := List Thr

inductive Outcome where
  | ok (vps : List Vp) (total : Int)    -- parsec_nbvp = vps.length, parsec_nb_total_threads = total
  | negvp (nbvp total : Int)            -- parsec_nbvp < -1, no map (only reachable through rr:)
  | ub                                  -- memory-unsafe execution
  | fatal                               -- parsec_fatal
deriving DecidableEq, Repr

/-! ### flat -/

/-- `parsec_vpmap_init_from_flat(n)` on an empty map; API precondition `n = -1 ∨ n ≥ 1`. -/
def flatN (R : Nat) (n : Int) : Nat := if n = -1 then R else n.toNat
def flatStep (R : Nat) (sing : Int) (n : Int) : Nat := if sing = -1 then 1 else R / flatN R n
def flatThr (step id : Nat) : Thr :=
  ⟨step, some (CpuSet.setRange (id * step) ((((id + 1) * step : Nat) : Int) - 1)), 0⟩
def flatVp (R : Nat) (sing : Int) (n : Int) : Vp :=
  (List.range (flatN R n)).map (flatThr (flatStep R sing n))
def flat (R : Nat) (sing : Int) (n : Int) : Outcome := .ok [flatVp R sing n] (flatN R n)

/-! ### hwloc: one VP per socket -/

def hwThr (core : Nat) : Thr := ⟨1, some (CpuSet.single core), 0⟩
def hwVp (core cnt : Nat) : Vp := (List.range cnt).map fun i => hwThr (core + i)

/-- the VP list of `parsec_vpmap_init_from_hardware_affinity`: `sockets` = cores of each object of the
    socket level, `core` = next core index, `rem` = threads still to create (the `0 == --nbthreads` test). -/
def hwGoVps : List Nat → Nat → Int → List Vp
  | [], _, _ => []
  | cnt :: rest, core, rem =>
    if 1 ≤ rem ∧ rem ≤ cnt then [hwVp core rem.toNat]
    else hwVp core cnt :: hwGoVps rest (core + cnt) (rem - cnt)
/-- `parsec_nb_total_threads` as the code accumulates it (whole sockets, not truncated) -/
def hwGoTotal : List Nat → Int → Int
  | [], _ => 0
  | cnt :: rest, rem =>
    if 1 ≤ rem ∧ rem ≤ cnt then cnt
    else cnt + hwGoTotal rest (rem - cnt)

/-! ### parse_binding_parameter (vpmap.c) -/

inductive BindOut where
  | ok (ts : List Thr)
  | ub
  | fatal
deriving DecidableEq, Repr

/-- `hwloc_bitmap_next(from_ulong(mask), prev)` -/
def nextBit (mask : Nat) (prev : Int) : Int :=
  match (List.range 64).find? (fun (i : Nat) => decide ((i : Int) > prev) && mask.testBit i) with
  | some i => (i : Int)
  | none => -1

/-- the core chosen for one thread in mask mode -/
def maskPick (R mask : Nat) (prev : Int) : Int :=
  if nextBit mask prev = -1 ∨ nextBit mask prev > R then nextBit mask (-1) else nextBit mask prev

def maskThreads (R mask : Nat) : Nat → Int → List Thr
  | 0, _ => []
  | k + 1, prev =>
    ⟨1, some (CpuSet.single (maskPick R mask prev).toNat), -1⟩ :: maskThreads R mask k (maskPick R mask prev)

def maskMode (R nbth : Nat) (afterX : Str) : BindOut :=
  if strtoul16 afterX = 0 then .fatal else .ok (maskThreads R (strtoul16 afterX) nbth (-1))

def inRange (R : Nat) (a : Int) : Bool := decide (a < R) && decide (a > -1)

/-- start of a `start;end;step` expression (`s` has a ';') -/
def rgStart (R : Nat) (s : Str) : Int :=
  match s with
  | ';' :: _ => 0
  | _ => if inRange R (atoiVal s) then atoiVal s else 0

/-- the text after the end field, in which the step separator is searched -/
def rgAfterEnd (p1 : Str) : Str :=
  match p1 with
  | ';' :: _ => p1
  | _ => strtolRest 10 p1
def rgEnd (R : Nat) (p1 : Str) : Int :=
  match p1 with
  | ';' :: _ => (R : Int) - 1
  | _ => if inRange R (atoiVal p1) then atoiVal p1 else (R : Int) - 1
def rgStep (R : Nat) (p1 : Str) : Int :=
  match afterChar ';' (rgAfterEnd p1) with
  | none => 1
  | some [] => 1
  | some p2 => if inRange R (atoiVal p2) then atoiVal p2 else 1

/-- the binding loop of the range mode: `k` threads still to do, `t` the current thread index -/
def rangeThreads (R : Nat) (start en step : Int) : Nat → Nat → Int → Int → List Thr
  | 0, _, _, _ => []
  | k + 1, t, w, skip =>
    if w + step > en then
      if start + skip > en then
        ⟨1, some (CpuSet.single w.toNat), -1⟩ :: List.replicate k Thr.zero
      else if skip + 1 > step ∧ (t : Int) < (R : Int) - 1 then
        ⟨1, some (CpuSet.single w.toNat), -1⟩ ::
          (match k with
           | 0 => []
           | k' + 1 => ⟨1, some CpuSet.empty, -1⟩ :: List.replicate k' ⟨1, none, 0⟩)
      else
        ⟨1, some (CpuSet.single w.toNat), -1⟩ :: rangeThreads R start en step k (t + 1) (start + skip) (skip + 1)
    else
      ⟨1, some (CpuSet.single w.toNat), -1⟩ :: rangeThreads R start en step k (t + 1) (w + step) skip

def rangeMode (R nbth : Nat) (s : Str) : BindOut :=
  match afterChar ';' s with
  | none => .ub            -- not reachable: the caller found a ';'
  | some [] => .ub         -- "a;" : `position++` steps over the terminating NUL, then `position[0]` is read
  | some p1 =>
    .ok (rangeThreads R (rgStart R s)
          (if rgStart R s > rgEnd R p1 then (R : Int) - 1 else rgEnd R p1)
          (rgStep R p1) nbth 0 (rgStart R s) 1)

/-- in-range cores `t` with `lo ≤ t ≤ hi`, ascending (the iterations of the `a-b` loop that store) -/
def rangeCands (R : Nat) (lo hi : Int) : List Int :=
  ((List.range R).filter fun (t : Nat) => decide (lo ≤ (t : Int)) && decide ((t : Int) ≤ hi)).map fun (t : Nat) => (t : Int)

/-- stores of the `a-b` loop into `core_tab` (`tab` = filled prefix, `cmp = tab.length`);
    `none` = store beyond `core_tab[nbth-1]` (stack overflow) -/
def fillRange (nbth : Nat) : List Int → List Int → Option (List Int)
  | [], tab => some tab
  | t :: ts, tab =>
    if tab.length ≥ nbth then none
    else if (tab ++ [t]).length = nbth then some (tab ++ [t])
    else fillRange nbth ts (tab ++ [t])

/-- the `while` loop of the core-list mode; `none` = undefined behaviour -/
def listLoop (R nbth : Nat) : Nat → Str → List Int → Option (List Int)
  | 0, _, tab => some tab
  | f + 1, opt, tab =>
    if opt = [] ∨ tab.length ≥ nbth then some tab
    else
      match strpbrkCD (strtolRest 10 opt) with
      | some ('-' :: after) =>
        if atoiVal opt = INT_MAX ∨ atoiVal after = INT_MAX then none    -- `t = arg+1` / `t++` overflows
        else
          match fillRange nbth (rangeCands R (atoiVal opt + 1) (atoiVal after))
                  (if inRange R (atoiVal opt) then tab ++ [atoiVal opt] else tab) with
          | none => none
          | some tab2 =>
            match afterChar ',' (strtolRest 10 opt) with
            | none => some tab2
            | some nxt => listLoop R nbth f nxt tab2
      | _ =>
        match afterChar ',' (strtolRest 10 opt) with
        | none => some (if inRange R (atoiVal opt) then tab ++ [atoiVal opt] else tab)
        | some nxt => listLoop R nbth f nxt (if inRange R (atoiVal opt) then tab ++ [atoiVal opt] else tab)

def listThr (c : Int) : Thr := ⟨1, some (CpuSet.single (if c < 0 then UNBOUND_BIT else c.toNat)), -1⟩

def listMode (R nbth : Nat) (s : Str) : BindOut :=
  match listLoop R nbth (s.length + 1) s [] with
  | none => .ub
  | some tab => .ok ((List.range nbth).map fun t => listThr (tab.getD t (-1)))

/-- `parse_binding_parameter(vp, nbth, binding)` on `nbth ≥ 1` calloc'ed threads. -/
def parseBinding (R nbth : Nat) (s : Str) : BindOut :=
  match afterChar 'x' s with
  | some ax => maskMode R nbth ax
  | none =>
    match strchr ';' s with
    | some _ => rangeMode R nbth s
    | none => listMode R nbth s

/-! ### file -/

/-- lines as getline returns them (each keeps its '\n' except possibly the last) -/
def splitLines : Str → Str → List Str
  | [], [] => []
  | [], cur => [cur.reverse]
  | c :: t, cur => if c = '\n' then (c :: cur).reverse :: splitLines t [] else splitLines t (c :: cur)

/-- does phase 1 of `parsec_vpmap_init_from_file` keep this line for rank 0? -/
def lineAccepted (l : Str) : Bool :=
  match l with
  | ':' :: _ => true
  | _ => (strchr ':' l).isSome && decide (strtolVal 0 l = 0)

def acceptedCount (content : Str) : Nat := ((splitLines content []).filter lineAccepted).length

/-- `parsec_vpmap_init_from_file` after a successful fopen, on an empty map.
    * no accepted line: `parsec_nbvp` was already set to 0, so the `init_from_flat(-1)` fallback refuses
      ("do not overload an existing vpmap") and the process ends up with ZERO virtual processes;
    * one accepted line: `local_vpmap` is "(null)\n<line>" (inverted NULL test), `v` reaches 1 and
      `parsec_vpmap[1]` is written: heap overflow of the 1-element array;
    * k ≥ 2 accepted lines: only the last line survives (`strdup` instead of append), `parsec_vpmap[1..k-1]`
      stay uninitialised malloc memory and are read by parsec_vpmap_init / parsec_vpmap_fini. -/
def fromFileContent (content : Str) : Outcome :=
  if acceptedCount content = 0 then .ok [] 0 else .ub

/-! ### parsec_vpmap_init -/

structure Env where
  R       : Nat                    -- parsec_hwloc_nb_real_cores()
  sing    : Int                    -- parsec_runtime_singlify_bindings
  sockets : List Nat               -- cores under each object of the socket level
  file    : Str → Option Str       -- fopen+read: path ↦ content

def strDisplay : Str := ['d','i','s','p','l','a','y']
def strFlat : Str := ['f','l','a','t']
def strHwloc : Str := ['h','w','l','o','c']
def strFile : Str := ['f','i','l','e',':']
def strRR : Str := ['r','r',':']

/-- strip the `display:` prefix -/
def stripDisplay (s : Str) : Str :=
  if strDisplay.isPrefixOf s then (match s.drop 7 with | ':' :: t => t | _ => s) else s

/-- the late pass of parsec_vpmap_init over an existing map: NULL cpusets become empty sets, and a
    positive singlify parameter reduces every set to its first index -/
def consThr (sing : Int) (t : Thr) : Thr :=
  { t with cpuset := some (if sing > 0 then (t.cpuset.getD CpuSet.empty).singlify else t.cpuset.getD CpuSet.empty) }
def consolidate (sing : Int) : Outcome → Outcome
  | .ok vps total => .ok (vps.map (List.map (consThr sing))) total
  | o => o

def flatC (e : Env) (nb : Int) : Outcome := consolidate e.sing (flat e.R e.sing nb)

def hwlocInit (e : Env) (nb : Int) : Outcome :=
  if e.sockets.length = 0 then flat e.R e.sing nb
  else .ok (hwGoVps e.sockets 0 nb) (hwGoTotal e.sockets nb)

/-- `parsec_vpmap_init_from_parameters` (NDEBUG build: the `assert(0)` is compiled out): sets
    `parsec_nbvp = n` and allocates nothing; parsec_vpmap_init then walks `parsec_vpmap[0..n-1]` through the
    NULL pointer. -/
def rrInit (e : Env) (n p : Int) (nb : Int) : Outcome :=
  if n * p > INT_MAX ∨ n * p < INT_MIN then .ub     -- `_nbvp * _nbthreadspervp` overflows
  else if n = -1 then flatC e nb
  else if n ≥ 1 then .ub
  else if n = 0 then .ok [] (n * p)
  else .negvp n (n * p)

/-- `parsec_vpmap_init(optarg, nb_cores)` in a process whose map is still unset; API precondition `nb ≥ 1`. -/
def vpmapInit (e : Env) (spec : Option Str) (nb : Int) : Outcome :=
  match spec with
  | none => flatC e nb
  | some s0 =>
    if strFlat.isPrefixOf (stripDisplay s0) then flatC e nb
    else if strHwloc.isPrefixOf (stripDisplay s0) then consolidate e.sing (hwlocInit e nb)
    else if strFile.isPrefixOf (stripDisplay s0) then
      match e.file ((stripDisplay s0).drop 5) with
      | none => flatC e nb
      | some content => consolidate e.sing (fromFileContent content)
    else if strRR.isPrefixOf (stripDisplay s0) then
      match scanRR (stripDisplay s0) with
      | some (n, p, _) => rrInit e n p nb
      | none => flatC e nb
    else flatC e nb

/-! ## bind_map (parsec.c) -/

/-- `parsec_find_core_by_idx`: `allowed` = indices of cpuset_allowed_mask, ascending -/
def findCore (allowed : List Nat) (idx : Int) : Int :=
  if idx < 0 then (if idx = INT_MIN then INT_MAX else -idx)
  else match allowed[idx.toNat]? with
       | some p => p
       | none => -1

/-- startup[].bindto (length = number of compute threads), thr_idx, cpuset_used_mask -/
structure BM where
  binds : List Int
  idx   : Nat
  used  : List Nat
deriving DecidableEq, Repr

def insertSorted (x : Nat) : List Nat → List Nat
  | [] => [x]
  | y :: t => if x < y then x :: y :: t else if x = y then y :: t else y :: insertSorted x t

/-- `PARSEC_SET_THREAD_LOCATION(thr_idx, where); thr_idx++` — `none` = store past the end of startup[] -/
def setLoc (allowed : List Nat) (st : BM) (w : Int) : Option BM :=
  if st.idx ≥ st.binds.length then none
  else some ⟨st.binds.set st.idx (findCore allowed w), st.idx + 1,
             if findCore allowed w < 0 then st.used else insertSorted (findCore allowed w).toNat st.used⟩

/-- the four bits of one hex digit, low bit first, starting at index `w` -/
def nibbleBits (allowed : List Nat) (m : Nat) : Nat → Int → BM → Option BM
  | 0, _, st => some st
  | k + 1, w, st =>
    if m.testBit (3 - k) then
      match setLoc allowed st w with
      | none => none
      | some st' => nibbleBits allowed m k (w + 1) st'
    else nibbleBits allowed m k (w + 1) st

def hexVal (c : Char) : Option Nat :=
  if '0' ≤ c ∧ c ≤ '9' then some (c.toNat - 48)
  else if 'a' ≤ c ∧ c ≤ 'f' then some (c.toNat - 87)
  else if 'A' ≤ c ∧ c ≤ 'F' then some (c.toNat - 55)
  else none

/-- the reverse scan of a hex mask: `rev` = its characters, last first -/
def maskScan (allowed : List Nat) : Str → Int → BM → Option BM
  | [], _, st => some st
  | c :: t, w, st =>
    match hexVal c with
    | none => some st                 -- invalid char: warning, skip the rest of this element
    | some m =>
      match nibbleBits allowed m 4 w st with
      | none => none
      | some st' => maskScan allowed t (w + 4) st'

def takeUntilComma : Str → Str
  | [] => []
  | c :: t => if c = ',' then [] else c :: takeUntilComma t

def bmStart (R : Nat) (opt : Str) : Int :=
  match opt with
  | ':' :: _ => 0
  | _ => if atoiVal opt ≥ R ∨ atoiVal opt < 0 then 0 else atoiVal opt
def bmAfterEnd (p1 : Str) : Str :=
  match p1 with
  | ':' :: _ => p1
  | _ => strtolRest 10 p1
def bmEnd (R : Nat) (p1 : Str) : Int :=
  match p1 with
  | ':' :: _ => R
  | _ => if atoiVal p1 ≥ R ∨ atoiVal p1 < 0 then R else atoiVal p1
def dfltStep (start en : Int) : Int := if start < en then 1 else -1
def bmRawStep (start en : Int) (p1 : Str) : Int :=
  match afterChar ':' (bmAfterEnd p1) with
  | none => dfltStep start en
  | some [] => dfltStep start en
  | some p2 => if atoiVal p2 = 0 ∧ strtolConv 10 p2 = false then dfltStep start en else atoiVal p2
def bmStep (start en : Int) (p1 : Str) : Int :=
  if bmRawStep start en p1 = 0 ∨ (bmRawStep start en p1 > 0 ∧ start > en) ∨ (bmRawStep start en p1 < 0 ∧ start < en)
  then dfltStep start en else bmRawStep start en p1

/-- the `while` loop of a start:end:step element -/
def bmRangeLoop (allowed : List Nat) (en step : Int) : Nat → Int → BM → Option BM
  | 0, _, st => some st
  | f + 1, w, st =>
    if (step > 0 ∧ w ≤ en) ∨ (step < 0 ∧ w ≥ en) then
      match setLoc allowed st w with
      | none => none
      | some st' => if w + step > INT_MAX ∨ w + step < INT_MIN then none     -- `where += step` overflows
                    else bmRangeLoop allowed en step f (w + step) st'
    else some st

def bmLoop (R : Nat) (allowed : List Nat) : Nat → Str → BM → Option BM
  | 0, _, st => some st
  | f + 1, opt, st =>
    match afterChar 'x' opt with
    | some ax =>
      match maskScan allowed (takeUntilComma ax).reverse 0 st with
      | none => none
      | some st' =>
        match afterChar ',' ax with
        | none => some st'
        | some nxt => bmLoop R allowed f nxt st'
    | none =>
      match afterChar ':' opt with
      | some [] => none               -- "a:" : `position++` steps over the terminating NUL
      | some p1 =>
        match bmRangeLoop allowed (bmEnd R p1) (bmStep (bmStart R opt) (bmEnd R p1) p1)
                ((bmEnd R p1 - bmStart R opt).natAbs + 2) (bmStart R opt) st with
        | none => none
        | some st' =>
          match afterChar ',' opt with
          | none => some st'
          | some nxt => bmLoop R allowed f nxt st'
      | none =>
        if inRange R (atoiVal opt) then
          match setLoc allowed st (atoiVal opt) with
          | none => none
          | some st' =>
            match afterChar ',' (strtolRest 10 opt) with
            | none => some st'
            | some nxt => bmLoop R allowed f nxt st'
        else
          match afterChar ',' (strtolRest 10 opt) with
          | none => some st
          | some nxt => bmLoop R allowed f nxt st

inductive BMOut where
  | ok (comm : Int) (binds : List Int) (used : List Nat)
  | ub
deriving DecidableEq, Repr

def plusPrefix (comm : Int) (opt : Str) : Bool :=
  match opt with
  | '+' :: _ => decide (comm = -1)
  | _ => false

/-- `parsec_parse_binding_parameter(option, context, startup)` for a non-NULL option without `file:`;
    `n` compute threads whose bindto were initialised to -1 by parsec_vp_init. -/
def parseBindMap (R : Nat) (allowed : List Nat) (n : Nat) (comm : Int) (opt : Str) : BMOut :=
  match bmLoop R allowed (opt.length + 1) (if plusPrefix comm opt then opt.tail else opt) ⟨List.replicate n (-1), 0, []⟩ with
  | none => .ub
  | some st => .ok (if plusPrefix comm opt then -2 else comm) st.binds st.used

/-- `strstr(option, "file:")`: the text after the first occurrence -/
def afterFileTag : Str → Option Str
  | [] => none
  | c :: t => if strFile.isPrefixOf (c :: t) then some ((c :: t).drop 5) else afterFileTag t


inductive BMTopOut where
  | notfound                 -- fopen failed: PARSEC_ERR_NOT_FOUND, nothing parsed
  | res (o : BMOut)
deriving DecidableEq, Repr

/-- `parsec_parse_binding_parameter` for any non-NULL option, including the `file:` form (the line of the
    file whose number is the process rank, here 0, is parsed by a recursive call — with its '\n'). -/
def parseBindMapTop (R : Nat) (allowed : List Nat) (n : Nat) (comm : Int) (opt : Str)
    (file : Str → Option Str) : BMTopOut :=
  match afterFileTag opt with
  | none => .res (parseBindMap R allowed n comm opt)
  | some fname =>
    match file fname with
    | none => .notfound
    | some content =>
      match splitLines content [] with
      | [] => .res (.ok comm (List.replicate n (-1)) [])
      | l :: _ =>
        match afterFileTag l with
        | some _ => .res .ub       -- a line that names a file again: recursion on the same file never ends
        | none => .res (parseBindMap R allowed n comm l)

/-! ### default placement from the VP map (bind_map unset) -/

/-- `parsec_select_vpmap_thread_core` over the finite candidates `cands` (ascending) -/
def selectGo (allowed used : List Nat) : List Nat → Int → Int
  | [], first => first
  | w :: ws, first =>
    if findCore allowed w < 0 then selectGo allowed used ws first
    else if (findCore allowed w).toNat ∈ used then
      selectGo allowed used ws (if first < 0 then findCore allowed w else first)
    else findCore allowed w

inductive SelOut where
  | core (c : Int)
  | hang                 -- the scan walks the infinite tail of the candidate set (2^31 iterations)
deriving DecidableEq, Repr

def selectCore (allowed used : List Nat) (cs : Option CpuSet) : SelOut :=
  match cs with
  | none => .core (-1)
  | some c =>
    match c.inf with
    | none => .core (selectGo allowed used (c.bits.filter (· < 2147483648)) (-1))
    | some k =>
      -- finite part, then k, k+1, …: only indices < allowed.length can map to a core
      match selectGo allowed used (c.bits ++ (List.range' k (allowed.length - k))) (-1) with
      | r => if r ≥ 0 ∧ r.toNat ∉ used then .core r else .hang

inductive DfltOut where
  | ok (binds : List Int) (used : List Nat)
  | hang
deriving DecidableEq, Repr

def applyGo (allowed : List Nat) : List Thr → List Int → List Nat → DfltOut
  | [], acc, used => .ok acc.reverse used
  | t :: ts, acc, used =>
    match selectCore allowed used t.cpuset with
    | .hang => .hang
    | .core c => applyGo allowed ts (c :: acc) (if c < 0 then used else insertSorted c.toNat used)

/-- `parsec_apply_vpmap_thread_locations` over all threads of all VPs, in order -/
def applyVpmap (allowed : List Nat) (vps : List Vp) : DfltOut := applyGo allowed vps.flatten [] []

end ParsecVerif.VpMap
