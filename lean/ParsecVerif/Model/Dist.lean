/-
  Model of the tiled-matrix data distributions of parsec/data_dist/matrix
  (mirrors the C code branch by branch; all quantities are `Nat` because every C operand
  is a non-negative `int`/`unsigned` below 2^31 under the stated preconditions; the only
  signed results -- key -> coordinates, the symmetric tile counters -- are `Int`).

  Files mirrored:
    matrix.c                          parsec_tiled_matrix_init, tiled_matrix_data_key
    grid_2Dcyclic.c                   parsec_grid_2Dcyclic_init, default_vp_data_dist
    two_dim_rectangle_cyclic.c        parsec_matrix_block_cyclic_init (nb_elem_r/c loops),
                                      twoDBC_{rank_of,vpid_of,data_of}, twoDBC_kcyclic_*,
                                      twoDBC_kview_* (kview_compute_m/n), key2coords
    sym_two_dim_rectangle_cyclic.c    init (tile count), rank_of, coord2pos, vpid_of
    two_dim_rectangle_cyclic_band.c   twoDBC_band_{rank_of,vpid_of,data_of}
    two_dim_tabular.c                 set_table, twoDTD_{rank_of,vpid_of,data_of}
    vector_two_dim_cyclic.c           init (three distributions), rank_of, vpid_of, data_of
-/
namespace ParsecVerif.Dist

/-! ## parsec_tiled_matrix_init -/

structure TM where
  mb : Nat
  nb : Nat
  lm : Nat
  ln : Nat
  i : Nat
  j : Nat
  m : Nat
  n : Nat
deriving Repr

/-- `(lm%mb==0) ? (lm/mb) : (lm/mb+1)` -/
def ceilDiv (a b : Nat) : Nat := if a % b = 0 then a / b else a / b + 1

namespace TM
def lmt (t : TM) : Nat := ceilDiv t.lm t.mb
def lnt (t : TM) : Nat := ceilDiv t.ln t.nb
/-- `(i+m-1)/mb - i/mb + 1` -/
def mt (t : TM) : Nat := (t.i + t.m - 1) / t.mb - t.i / t.mb + 1
def nt (t : TM) : Nat := (t.j + t.n - 1) / t.nb - t.j / t.nb + 1
/-- tile offset of the submatrix: `i / mb` -/
def oi (t : TM) : Nat := t.i / t.mb
def oj (t : TM) : Nat := t.j / t.nb
def bsiz (t : TM) : Nat := t.mb * t.nb
/-- `tiled_matrix_data_key`: `(n + j/nb) * lmt + (m + i/mb)` -/
def key (t : TM) (m n : Nat) : Nat := (n + t.oj) * t.lmt + (m + t.oi)
/-- `parsec_matrix_block_cyclic_key2coords` / `sym_twoDBC_key_to_coordinates` -/
def keyM (t : TM) (k : Nat) : Int := ((k % t.lmt : Nat) : Int) - ((t.oi : Nat) : Int)
def keyN (t : TM) (k : Nat) : Int := ((k / t.lmt : Nat) : Int) - ((t.oj : Nat) : Int)
end TM

/-! ## parsec_grid_2Dcyclic_init -/

structure Grid where
  P : Nat
  Q : Nat
  kp : Nat
  kq : Nat
  ip : Nat
  jq : Nat
deriving Repr

namespace Grid
/-- `((myrank / Q) + (rows - ip)) % rows` -/
def rrank (g : Grid) (rank : Nat) : Nat := ((rank / g.Q) + (g.P - g.ip)) % g.P
/-- `((myrank % Q) + (cols - jq)) % cols` -/
def crank (g : Grid) (rank : Nat) : Nat := ((rank % g.Q) + (g.Q - g.jq)) % g.Q
end Grid

/-- least `q ≥ s` with `q*q ≥ n`  (the value of `(int)ceilf(sqrtf((float)n))` from `s = 0`) -/
def csqrtLoop (n : Nat) : Nat → Nat → Nat
  | 0, q => q
  | f+1, q => if n ≤ q * q then q else csqrtLoop n f (q + 1)
def csqrt (n : Nat) : Nat := csqrtLoop n (n + 1) 0

/-- `default_vp_data_dist`: `p = pq/q; while (p*q != pq) { q++; p = pq/q; }` -/
def vpqLoop (pq : Nat) : Nat → Nat → Nat
  | 0, q => q
  | f+1, q => if (pq / q) * q = pq then q else vpqLoop pq f (q + 1)
def vpQ (pq : Nat) : Nat := vpqLoop pq (pq + 1) (csqrt pq)
/-- `grid->vp_p = nb_vp / default_vp_data_dist()` -/
def vpP (pq : Nat) : Nat := pq / vpQ pq

/-- `vpid = (local_n % q) * p + (local_m % p)` (all 2D variants), 0 when there is one VP -/
def vpidOf (nbvp localM localN : Nat) : Nat :=
  if nbvp = 1 then 0 else (localN % vpQ nbvp) * vpP nbvp + localM % vpP nbvp

/-! ## one dimension of the 2D block-cyclic distribution -/

/-- `rr = (str % rows + ip) % rows` with `str = m / krows`  (twoDBC_kcyclic_rank_of) -/
def own1 (k P ip g : Nat) : Nat := ((g / k) % P + ip) % P
/-- `rr = (m % rows + ip) % rows`  (twoDBC_rank_of) -/
def own1p (P ip g : Nat) : Nat := (g % P + ip) % P
/-- kcyclic local index:
    `local_m = (m / (krows*rows)) * krows; m = m % (krows*rows); local_m += m % krows` -/
def loc1 (k P g : Nat) : Nat := (g / (k * P)) * k + (g % (k * P)) % k
/-- plain local index `m / rows` -/
def loc1p (P g : Nat) : Nat := g / P
/-- the locality assertion of the kcyclic accessors: `(m % (krows*rows)) / krows == rrank` -/
def mine1 (k P r g : Nat) : Prop := (g % (k * P)) / k = r
/-- the locality assertion of the plain accessors: `(m % rows) == rrank` -/
def mine1p (P r g : Nat) : Prop := g % P = r
instance (k P r g : Nat) : Decidable (mine1 k P r g) := by unfold mine1; exact inferInstance
instance (P r g : Nat) : Decidable (mine1p P r g) := by unfold mine1p; exact inferInstance

/-- the counting loop of `parsec_matrix_block_cyclic_init`:
    `while (temp < lmt) { if (temp + k < lmt) { nb += k; temp += P*k; continue; } nb += lmt - temp; break; }` -/
def cntLoop (k step L : Nat) : Nat → Nat → Nat
  | 0, _ => 0
  | f+1, temp =>
    if temp < L then
      if temp + k < L then k + cntLoop k step L f (temp + step) else L - temp
    else 0
/-- `nb_elem_r` for grid coordinate `r` (`temp` starts at `rrank * krows`) -/
def nbElem (k P L r : Nat) : Nat := cntLoop k (P * k) L (L + 1) (r * k)
/-- global index of local index `l` on grid coordinate `r` (inverse of `loc1`; not in the C code) -/
def glob1 (k P r l : Nat) : Nat := r * k + (l / k) * (k * P) + l % k

/-! ## two_dim_rectangle_cyclic.c -/

structure BC where
  t : TM
  g : Grid
  lapack : Bool
deriving Repr

namespace BC
/-- `(kp == 1) && (kq == 1)` selects the plain accessors -/
def plain (b : BC) : Prop := b.g.kp = 1 ∧ b.g.kq = 1
instance (b : BC) : Decidable b.plain := by unfold plain; exact inferInstance
def gm (b : BC) (m : Nat) : Nat := m + b.t.oi
def gn (b : BC) (n : Nat) : Nat := n + b.t.oj
def rowOwner (b : BC) (m : Nat) : Nat :=
  if b.plain then own1p b.g.P b.g.ip (b.gm m) else own1 b.g.kp b.g.P b.g.ip (b.gm m)
def colOwner (b : BC) (n : Nat) : Nat :=
  if b.plain then own1p b.g.Q b.g.jq (b.gn n) else own1 b.g.kq b.g.Q b.g.jq (b.gn n)
/-- `res = rr * cols + cr` -/
def rankOf (b : BC) (m n : Nat) : Nat := b.rowOwner m * b.g.Q + b.colOwner n
def localM (b : BC) (m : Nat) : Nat :=
  if b.plain then loc1p b.g.P (b.gm m) else loc1 b.g.kp b.g.P (b.gm m)
def localN (b : BC) (n : Nat) : Nat :=
  if b.plain then loc1p b.g.Q (b.gn n) else loc1 b.g.kq b.g.Q (b.gn n)
/-- the assertions `m % rows == rrank` / `m / krows == rrank` of vpid_of, data_of seen from `rank` -/
def isLocal (b : BC) (rank m n : Nat) : Prop :=
  if b.plain then mine1p b.g.P (b.g.rrank rank) (b.gm m) ∧ mine1p b.g.Q (b.g.crank rank) (b.gn n)
  else mine1 b.g.kp b.g.P (b.g.rrank rank) (b.gm m) ∧ mine1 b.g.kq b.g.Q (b.g.crank rank) (b.gn n)
instance (b : BC) (rank m n : Nat) : Decidable (b.isLocal rank m n) := by
  unfold isLocal; exact inferInstance
def nbR0 (b : BC) (rank : Nat) : Nat := nbElem b.g.kp b.g.P b.t.lmt (b.g.rrank rank)
def nbC0 (b : BC) (rank : Nat) : Nat := nbElem b.g.kq b.g.Q b.t.lnt (b.g.crank rank)
/-- `if(nb_elem_r == 0) nb_elem_c = 0;` -/
def nbC (b : BC) (rank : Nat) : Nat := if b.nbR0 rank = 0 then 0 else b.nbC0 rank
/-- `if(nb_elem_c == 0) nb_elem_r = 0;` -/
def nbR (b : BC) (rank : Nat) : Nat := if b.nbC rank = 0 then 0 else b.nbR0 rank
def nbLocal (b : BC) (rank : Nat) : Nat := b.nbR rank * b.nbC rank
/-- `position = nb_elem_r * local_n + local_m` (index into `data_map`) -/
def position (b : BC) (rank m n : Nat) : Nat := b.nbR rank * b.localN n + b.localM m
/-- key given to `parsec_tiled_matrix_create_data` by data_of: `(n * lmt) + m`.  In the kcyclic
    accessor `m` and `n` have been reduced modulo `krows*rows` / `kcols*cols` by then. -/
def dataKey (b : BC) (m n : Nat) : Nat :=
  if b.plain then b.gn n * b.t.lmt + b.gm m
  else (b.gn n % (b.g.kq * b.g.Q)) * b.t.lmt + b.gm m % (b.g.kp * b.g.P)
/-- `llm` after init: `nb_elem_r * mb` in tile storage, `lm` (unpadded) in LAPACK storage -/
def llm (b : BC) (rank : Nat) : Nat := if b.lapack then b.t.lm else b.nbR rank * b.t.mb
def lln (b : BC) (rank : Nat) : Nat := if b.lapack then b.t.ln else b.nbC rank * b.t.nb
/-- element offset of the tile in `mat` -/
def offset (b : BC) (rank m n : Nat) : Nat :=
  if b.lapack then (b.localN n * b.t.nb) * b.llm rank + b.localM m * b.t.mb
  else b.position rank m n * b.t.bsiz
def vpid (b : BC) (nbvp m n : Nat) : Nat := vpidOf nbvp (b.localM m) (b.localN n)
end BC

/-! ## k-cyclic view (twoDBC_kview_*) -/

/-- one round of `m = m - m%(p*ps) + (m%ps)*p + (m/ps)%p` -/
def kviewStep (p ps m : Nat) : Nat := m - m % (p * ps) + (m % ps) * p + (m / ps) % p
/-- `do { m = step m } while (m >= mt)`; `none` when the fuel runs out -/
def kviewLoop (p ps mt : Nat) : Nat → Nat → Option Nat
  | 0, _ => none
  | f+1, m => if kviewStep p ps m < mt then some (kviewStep p ps m) else kviewLoop p ps mt f (kviewStep p ps m)
def kviewCompute (p ps mt m : Nat) : Option Nat := kviewLoop p ps mt (p * ps + 1) m

/-- a view: `origin` has krows = kcols = 1; the view's own factors are `vp`, `vq` -/
structure KV where
  o : BC
  vp : Nat
  vq : Nat

namespace KV
def sm (v : KV) (m : Nat) : Option Nat := kviewCompute v.o.g.P v.vp v.o.t.mt m
def sn (v : KV) (n : Nat) : Option Nat := kviewCompute v.o.g.Q v.vq v.o.t.nt n
end KV

/-! ## sym_two_dim_rectangle_cyclic.c  (grid with ip = jq = 0, k = 1) -/

structure Sym where
  t : TM
  P : Nat
  Q : Nat
  upper : Bool
deriving Repr

/-- number of indices `x < c` with `x % P = r`, as computed by the code:
    `c / P`, plus one `if (c % P) > r` -/
def cntBelow (P r c : Nat) : Nat := c / P + (if c % P > r then 1 else 0)

namespace Sym
def grid (s : Sym) : Grid := { P := s.P, Q := s.Q, kp := 1, kq := 1, ip := 0, jq := 0 }
def rrank (s : Sym) (rank : Nat) : Nat := s.grid.rrank rank
def crank (s : Sym) (rank : Nat) : Nat := s.grid.crank rank
def gm (s : Sym) (m : Nat) : Nat := m + s.t.oi
def gn (s : Sym) (n : Nat) : Nat := n + s.t.oj
/-- tile belongs to the stored triangle -/
def stored (s : Sym) (m n : Nat) : Prop := if s.upper then s.gm m ≤ s.gn n else s.gn n ≤ s.gm m
instance (s : Sym) (m n : Nat) : Decidable (s.stored m n) := by unfold stored; exact inferInstance
/-- `UINT_MAX` outside the stored triangle, else `(m % P) * Q + n % Q` -/
def rankOf (s : Sym) (m n : Nat) : Nat :=
  if s.stored m n then (s.gm m % s.P) * s.Q + s.gn n % s.Q else 4294967295

/-- LOWER init loop: `while(column < lnt) { total += nb_elem_col - cntBelow(column); column += Q }` -/
def lowTotal (P Q r L lnt : Nat) : Nat → Nat → Int
  | 0, _ => 0
  | f+1, col =>
    if col < lnt then ((cntBelow P r L : Nat) : Int) - ((cntBelow P r col : Nat) : Int) + lowTotal P Q r L lnt f (col + Q)
    else 0
/-- UPPER init loop (by rows): `while(row < lmt) { total += nb_elem_row - cntBelow_Q(row); row += P }` -/
def upTotal (P Q c Lm Ln : Nat) : Nat → Nat → Int
  | 0, _ => 0
  | f+1, row =>
    if row < Lm then ((cntBelow Q c Ln : Nat) : Int) - ((cntBelow Q c row : Nat) : Int) + upTotal P Q c Lm Ln f (row + P)
    else 0
def nbLocal (s : Sym) (rank : Nat) : Int :=
  if s.upper then upTotal s.P s.Q (s.crank rank) s.t.lmt s.t.lnt (s.t.lmt + 1) (s.rrank rank)
  else lowTotal s.P s.Q (s.rrank rank) s.t.lmt s.t.lnt (s.t.lnt + 1) (s.crank rank)

/-- coord2pos, LOWER: `while(column != n) { pos += nb_elem_col - cntBelow(column); column += Q }` -/
def lowPrefix (P Q r L n : Nat) : Nat → Nat → Option Int
  | 0, _ => none
  | f+1, col =>
    if col = n then some 0
    else (lowPrefix P Q r L n f (col + Q)).map
      (fun x => ((cntBelow P r L : Nat) : Int) - ((cntBelow P r col : Nat) : Int) + x)
/-- coord2pos, UPPER: `while(column != n) { pos += cntBelow(column+1); column += Q }` -/
def upPrefix (P Q r n : Nat) : Nat → Nat → Option Nat
  | 0, _ => none
  | f+1, col =>
    if col = n then some 0
    else (upPrefix P Q r n f (col + Q)).map (fun x => cntBelow P r (col + 1) + x)
/-- `parsec_matrix_sym_block_cyclic_coord2pos(dc, m, n)` on global coordinates, view of `rank` -/
def coord2pos (s : Sym) (rank gm gn : Nat) : Option Int :=
  if s.upper then (upPrefix s.P s.Q (s.rrank rank) gn (gn + 1) (s.crank rank)).map
      (fun x => ((x + gm / s.P : Nat) : Int))
  else (lowPrefix s.P s.Q (s.rrank rank) s.t.lmt gn (gn + 1) (s.crank rank)).map
      (fun x => x + (((gm - gn) / s.P : Nat) : Int))
def position (s : Sym) (rank m n : Nat) : Option Int := s.coord2pos rank (s.gm m) (s.gn n)
def dataKey (s : Sym) (m n : Nat) : Nat := s.gn n * s.t.lmt + s.gm m
def vpid (s : Sym) (nbvp m n : Nat) : Nat := vpidOf nbvp (s.gm m / s.P) (s.gn n / s.Q)
end Sym

/-! ## two_dim_rectangle_cyclic_band.c -/

structure Band where
  off : BC
  band : BC
  bs : Nat

namespace Band
/-- `(unsigned)abs((int)m - (int)n) < band_size` -/
def inBand (b : Band) (m n : Nat) : Prop := (if m ≤ n then n - m else m - n) < b.bs
instance (b : Band) (m n : Nat) : Decidable (b.inBand m n) := by unfold inBand; exact inferInstance
/-- row in the band collection: `m - n + band_size - 1` -/
def bm (b : Band) (m n : Nat) : Nat := m + b.bs - 1 - n
def rankOf (b : Band) (m n : Nat) : Nat :=
  if b.inBand m n then b.band.rankOf (b.bm m n) n else b.off.rankOf m n
/-- (collection, slot): collection 1 = band, 0 = off-band -/
def slot (b : Band) (rank m n : Nat) : Nat × Nat :=
  if b.inBand m n then (1, b.band.position rank (b.bm m n) n) else (0, b.off.position rank m n)
def dataKey (b : Band) (m n : Nat) : Nat :=
  if b.inBand m n then b.band.dataKey (b.bm m n) n else b.off.dataKey m n
def offset (b : Band) (rank m n : Nat) : Nat :=
  if b.inBand m n then b.band.offset rank (b.bm m n) n else b.off.offset rank m n
def vpid (b : Band) (nbvp m n : Nat) : Nat :=
  if b.inBand m n then b.band.vpid nbvp (b.bm m n) n else b.off.vpid nbvp m n
end Band

/-! ## two_dim_tabular.c -/

/-- `set_table`: position of entry `k` = number of earlier entries owned by `me` -/
def tabPos (ranks : List Nat) (me k : Nat) : Nat := (ranks.take k).count me
def tabNbLocal (ranks : List Nat) (me : Nat) : Nat := ranks.count me

structure Tab where
  t : TM
  ranks : List Nat
  vpids : List Nat

namespace Tab
/-- `res = lmt * n + m` -/
def idx (b : Tab) (m n : Nat) : Nat := b.t.lmt * (n + b.t.oj) + (m + b.t.oi)
def rankOf (b : Tab) (m n : Nat) : Nat := b.ranks.getD (b.idx m n) 0
def vpid (b : Tab) (m n : Nat) : Nat := b.vpids.getD (b.idx m n) 0
def position (b : Tab) (me m n : Nat) : Nat := tabPos b.ranks me (b.idx m n)
def nbLocal (b : Tab) (me : Nat) : Nat := tabNbLocal b.ranks me
end Tab

/-! ## vector_two_dim_cyclic.c -/

inductive VDist where
  | row | col | diag
deriving Repr, DecidableEq

structure Vec where
  mb : Nat
  lm : Nat
  i : Nat
  m : Nat
  P : Nat
  Q : Nat
  d : VDist
deriving Repr

namespace Vec
def t (v : Vec) : TM := { mb := v.mb, nb := 1, lm := v.lm, ln := 1, i := v.i, j := 0, m := v.m, n := 1 }
def grid (v : Vec) : Grid := { P := v.P, Q := v.Q, kp := 1, kq := 1, ip := 0, jq := 0 }
def rrank (v : Vec) (rank : Nat) : Nat := v.grid.rrank rank
def crank (v : Vec) (rank : Nat) : Nat := v.grid.crank rank
def gm (v : Vec) (m : Nat) : Nat := m + v.t.oi
/-- `lcm(P,Q) = (P / gcd(P,Q)) * Q`; `gcd` is Euclid's loop, i.e. `Nat.gcd` -/
def lcmPQ (v : Vec) : Nat := (v.P / Nat.gcd v.P v.Q) * v.Q
def lcm (v : Vec) : Nat :=
  match v.d with
  | .diag => v.lcmPQ
  | .row => v.Q
  | .col => v.P
def rankOf (v : Vec) (m : Nat) : Nat :=
  (if v.d = .col then 0 else v.gm m % v.P) * v.Q + (if v.d = .row then 0 else v.gm m % v.Q)
/-- `pmq = crank - rrank`; C `%` truncates, so `pmq % x == 0` iff `x` divides `|pmq|` -/
def pmqAbs (v : Vec) (rank : Nat) : Nat :=
  if v.rrank rank ≤ v.crank rank then v.crank rank - v.rrank rank else v.rrank rank - v.crank rank
/-- the loop `while (drank % Q != 0) drank += Q;` never changes `drank % Q`: it exits at once
    when `Q` divides `pmq` and never otherwise -/
def diagHangs (v : Vec) (rank : Nat) : Prop :=
  v.pmqAbs rank % Nat.gcd v.P v.Q = 0 ∧ v.pmqAbs rank % v.Q ≠ 0
instance (v : Vec) (rank : Nat) : Decidable (v.diagHangs rank) := by unfold diagHangs; exact inferInstance
/-- nb_local_tiles; `none` when the init does not terminate -/
def nbLocal (v : Vec) (rank : Nat) : Option Nat :=
  match v.d with
  | .diag =>
    if v.pmqAbs rank % Nat.gcd v.P v.Q = 0 then
      if v.pmqAbs rank % v.Q ≠ 0 then none
      else
        /- drank = pmq + rrank = crank -/
        some (v.t.lmt / v.lcmPQ + (if v.crank rank < v.t.lmt % v.lcmPQ then 1 else 0))
    else some 0
  | .row =>
    if v.rrank rank = 0 then some (v.t.lmt / v.Q + (if v.rrank rank < v.t.lmt % v.Q then 1 else 0)) else some 0
  | .col =>
    if v.crank rank = 0 then some (v.t.lmt / v.P + (if v.crank rank < v.t.lmt % v.P then 1 else 0)) else some 0
/-- `local_m = m / dc->lcm` -/
def position (v : Vec) (m : Nat) : Nat := v.gm m / v.lcm
def vpid (v : Vec) (nbvp m : Nat) : Nat :=
  if nbvp = 1 then 0
  else (if v.d = .col then 0 else (v.gm m / v.P) % vpP nbvp) * vpQ nbvp
     + (if v.d = .row then 0 else (v.gm m / v.Q) % vpQ nbvp)
end Vec

end ParsecVerif.Dist
