/-
  Model of parsec/utils/zone_malloc.c (the zone allocator that backs accelerator memory).

  State = the segment table `segments[0 .. max_segment-1]` with the three fields the code keeps
  (`status`, `nb_units`, `nb_prev`; stale interior entries are kept, exactly as in the code) and the
  free lists.  The red-black tree of `zone_malloc_chunk_list_t` nodes keyed by `nb_units` is
  abstracted as an association list sorted by key (that abstraction is property C36); each node's
  `parsec_list_t` is a list of segment indices, front first.  The operations on it follow the calls
  of the code one by one: `parsec_rbtree_find`, `_find_or_larger`, `_remove`, `_insert`,
  `_update_node` (which succeeds iff the new key is absent, whether it updates in place or
  re-inserts), list `pop_front` / `remove` / `push_front`.
  One model step = one API call (each runs under `gdata->lock`).
-/
namespace ParsecVerif.Zone

/-- `segment_t` without the list links.  status: 1 = SEGMENT_EMPTY, 2 = SEGMENT_FULL, 3 = SEGMENT_UNDEFINED -/
structure Seg where
  status : Nat
  units  : Nat
  prev   : Nat
deriving Repr, DecidableEq, Inhabited

/-- the rb-tree of chunk lists, in key order: (nb_units, list of segment ids, front first) -/
abbrev FL := List (Nat × List Nat)

structure St where
  unit : Nat            -- unit_size
  segs : List Seg       -- segments[], length = max_segment
  fl   : FL
deriving Repr, DecidableEq

/-- `zone_malloc_init(base, n, unit)` -/
def init (n unit : Nat) : St :=
  ⟨unit, ⟨1, n, 1⟩ :: List.replicate (n - 1) ⟨3, 0, 0⟩, [(n, [0])]⟩

/-! ### the sorted map standing for the rb-tree -/

/-- `parsec_rbtree_find` -/
def flFind : FL → Nat → Option (List Nat)
  | [], _ => none
  | (k, b) :: r, x => if k = x then some b else flFind r x

/-- `parsec_rbtree_find_or_larger`: the node with the smallest key ≥ x -/
def flFindOrLarger : FL → Nat → Option (Nat × List Nat)
  | [], _ => none
  | (k, b) :: r, x => if x ≤ k then some (k, b) else flFindOrLarger r x

/-- assignment to the list of the node with key x (no tree operation) -/
def flSet : FL → Nat → List Nat → FL
  | [], _, _ => []
  | (k, b) :: r, x, nb => if k = x then (k, nb) :: r else (k, b) :: flSet r x nb

/-- `parsec_rbtree_remove` of the node with key x -/
def flRemoveKey : FL → Nat → FL
  | [], _ => []
  | (k, b) :: r, x => if k = x then r else (k, b) :: flRemoveKey r x

/-- `parsec_rbtree_insert` of a node with key x and list nb -/
def flInsert : FL → Nat → List Nat → FL
  | [], x, nb => [(x, nb)]
  | (k, b) :: r, x, nb => if x < k then (x, nb) :: (k, b) :: r else (k, b) :: flInsert r x nb

def bucket (fl : FL) (k : Nat) : List Nat := (flFind fl k).getD []

/-- `parsec_rbtree_update_node(tree, node(k), k')`: PARSEC_ERR_EXISTS (`none`) iff a node with key k'
    exists; otherwise the node carries key k' afterwards (in place or by remove + insert). -/
def flUpdateKey (fl : FL) (k k' : Nat) : Option FL :=
  match flFind fl k' with
  | some _ => none
  | none => some (flInsert (flRemoveKey fl k) k' (bucket fl k))

/-- `parsec_list_nolock_push_front(&node(k)->list, t)` -/
def flPushFront (fl : FL) (k t : Nat) : FL := flSet fl k (t :: bucket fl k)

/-- `fl = find(k); if (fl == NULL) { fl = allocate_chunk_list(k); insert(fl); } push_front(fl, t)` -/
def flFindOrInsertPush (fl : FL) (k t : Nat) : FL :=
  match flFind fl k with
  | some _ => flPushFront fl k t
  | none => flPushFront (flInsert fl k []) k t

/-- zone_malloc, split case, the popped chunk list (key k) is now empty: try to re-key it to the
    remainder size, else retire it and push on the existing node. -/
def flSplitEmptied (fl : FL) (k rem newTid : Nat) : FL :=
  match flUpdateKey fl k rem with
  | some fl1 => flPushFront fl1 rem newTid
  | none => flPushFront (flRemoveKey fl k) rem newTid

/-! ### zone_malloc -/

/-- the unit count of the repaired code (commit 6e3ff3b):
    `size_t req_units = size / unit_size + ((size % unit_size) ? 1 : 0)` — no overflow for size < 2^64 -/
def reqUnits (unit size : Nat) : Nat := size / unit + (if size % unit = 0 then 0 else 1)

/-- the unit count as the code computed it BEFORE the repair:
    `int nb_units = (size + unit_size - 1) / unit_size` (size_t arithmetic modulo 2^64, then conversion to
    int modulo 2^32).  Kept to state the finding as a theorem. -/
def reqUnitsBuggy (unit size : Nat) : Int :=
  if ((size + unit - 1) % 2 ^ 64 / unit) % 2 ^ 32 < 2 ^ 31 then
    (((size + unit - 1) % 2 ^ 64 / unit) % 2 ^ 32 : Nat)
  else ((((size + unit - 1) % 2 ^ 64 / unit) % 2 ^ 32 : Nat) : Int) - 2 ^ 32

/-- back-pointer update of the segment following the split one -/
def fixNextPrev (segs : List Seg) (nt nb : Nat) : List Seg :=
  match segs[nt]? with
  | some nx => segs.set nt { nx with prev := nx.prev - nb }
  | none => segs

/-- segment-table updates of the split case, in the order of the code -/
def splitSegs (segs : List Seg) (t nb cu cprev : Nat) : List Seg :=
  (((fixNextPrev (segs.set t ⟨2, cu, cprev⟩) (t + cu) nb).set (t + nb) ⟨1, cu - nb, nb⟩).set t ⟨2, nb, cprev⟩)

/-- body of zone_malloc once `find_or_larger` returned the node with key k whose list is t :: rest -/
def mallocAt (s : St) (nb k t : Nat) (rest : List Nat) (cur : Seg) : St :=
  if cur.units > nb then
    { s with
      segs := splitSegs s.segs t nb cur.units cur.prev
      fl := if rest = [] then flSplitEmptied (flSet s.fl k rest) k (cur.units - nb) (t + nb)
            else flFindOrInsertPush (flSet s.fl k rest) (cur.units - nb) (t + nb) }
  else
    { s with
      segs := s.segs.set t { cur with status := 2 }
      fl := if rest = [] then flRemoveKey (flSet s.fl k rest) k else flSet s.fl k rest }

/-- `zone_malloc` for a positive unit count: `none` = NULL, else the new state and the segment id -/
def mallocUnits (s : St) (nb : Nat) : Option (St × Nat) :=
  match flFindOrLarger s.fl nb with
  | none => none
  | some (_, []) => none
  | some (k, t :: rest) =>
    match s.segs[t]? with
    | none => none
    | some cur => some (mallocAt s nb k t rest cur, t)

/-! ### zone_free -/

def isEmptySeg : Option Seg → Bool
  | some x => x.status == 1
  | none => false

def unitsOf : Option Seg → Nat
  | some x => x.units
  | none => 0

/-- locals of zone_free that change along the function -/
structure FCtx where
  segs  : List Seg
  fl    : FL
  reuse : Bool      -- reuse_fl != NULL (its key is merged_nb_units, its list is empty)
  ctid  : Nat       -- current_tid
deriving Repr, DecidableEq

def addPrev (segs : List Seg) (i d : Nat) : List Seg :=
  match segs[i]? with
  | some x => segs.set i { x with prev := x.prev + d }
  | none => segs

def addUnits (segs : List Seg) (i d : Nat) : List Seg :=
  match segs[i]? with
  | some x => segs.set i { x with units := x.units + d }
  | none => segs

def setPrev (segs : List Seg) (i p : Nat) : List Seg :=
  match segs[i]? with
  | some x => segs.set i { x with prev := p }
  | none => segs

/-- after `parsec_list_nolock_remove(&fl->list, seg)` emptied node k, first candidate for reuse -/
def flReuseOrRetire (fl : FL) (k merged : Nat) : FL × Bool :=
  match flUpdateKey fl k merged with
  | some fl1 => (fl1, true)
  | none => (flRemoveKey fl k, false)

/-- what both merge blocks do after `parsec_list_nolock_remove(&node(k)->list, t)`: if the list is now
    empty, re-key the node to the merged size (only when no node was reused yet — `reuse_fl == NULL`,
    which always holds in the prev block) or retire it. -/
def flAfterRemove (fl : FL) (reuse : Bool) (k t merged : Nat) : FL × Bool :=
  if (bucket fl k).erase t = [] then
    (if reuse then (flRemoveKey (flSet fl k []) k, true) else flReuseOrRetire (flSet fl k []) k merged)
  else (flSet fl k ((bucket fl k).erase t), reuse)

/-- the `if (prev_segment EMPTY)` block; pt = prev_tid, pu = prev_segment->nb_units,
    nt = next_tid, cu = current_segment->nb_units -/
def freePrev (c : FCtx) (pt pu nt cu merged : Nat) : FCtx :=
  { segs := addUnits (addPrev c.segs nt pu) pt cu
    fl := (flAfterRemove c.fl false pu pt merged).1
    reuse := (flAfterRemove c.fl false pu pt merged).2
    ctid := pt }

/-- the `if (next_segment EMPTY)` block; nt = next_tid, nu = next_segment->nb_units -/
def freeNext (c : FCtx) (nt nu merged : Nat) : FCtx :=
  { segs := setPrev (addUnits c.segs c.ctid nu) (nt + nu) (unitsOf (addUnits c.segs c.ctid nu)[c.ctid]?)
    fl := (flAfterRemove c.fl c.reuse nu nt merged).1
    reuse := (flAfterRemove c.fl c.reuse nu nt merged).2
    ctid := c.ctid }

/-- "add the merged chunk into the RB tree" -/
def freeFinal (c : FCtx) (merged : Nat) : FL :=
  if c.reuse then flPushFront c.fl merged c.ctid
  else flFindOrInsertPush c.fl (unitsOf c.segs[c.ctid]?) c.ctid

def prevSegOf (segs : List Seg) (t p : Nat) : Option Seg := if p ≤ t then segs[t - p]? else none

def mergedUnits (cu : Nat) (ps ns : Option Seg) : Nat :=
  cu + (if isEmptySeg ps then unitsOf ps else 0) + (if isEmptySeg ns then unitsOf ns else 0)

def freeStage1 (s : St) (t : Nat) (cur : Seg) : FCtx :=
  if isEmptySeg (prevSegOf (s.segs.set t { cur with status := 1 }) t cur.prev) then
    freePrev ⟨s.segs.set t { cur with status := 1 }, s.fl, false, t⟩ (t - cur.prev)
      (unitsOf (prevSegOf (s.segs.set t { cur with status := 1 }) t cur.prev)) (t + cur.units) cur.units
      (mergedUnits cur.units (prevSegOf (s.segs.set t { cur with status := 1 }) t cur.prev)
         (s.segs.set t { cur with status := 1 })[t + cur.units]?)
  else ⟨s.segs.set t { cur with status := 1 }, s.fl, false, t⟩

def freeStage2 (s : St) (t : Nat) (cur : Seg) : FCtx :=
  if isEmptySeg (s.segs.set t { cur with status := 1 })[t + cur.units]? then
    freeNext (freeStage1 s t cur) (t + cur.units) (unitsOf (s.segs.set t { cur with status := 1 })[t + cur.units]?)
      (mergedUnits cur.units (prevSegOf (s.segs.set t { cur with status := 1 }) t cur.prev)
         (s.segs.set t { cur with status := 1 })[t + cur.units]?)
  else freeStage1 s t cur

/-- body of zone_free once the address resolved to segment t with a status other than EMPTY -/
def freeAt (s : St) (t : Nat) (cur : Seg) : St :=
  { s with
    segs := (freeStage2 s t cur).segs
    fl := freeFinal (freeStage2 s t cur)
            (mergedUnits cur.units (prevSegOf (s.segs.set t { cur with status := 1 }) t cur.prev)
               (s.segs.set t { cur with status := 1 })[t + cur.units]?) }

/-- `zone_free` of the address of segment t: `none` = the code returns early with an error message
    ("address to free not allocated" / "double free"), state unchanged -/
def free (s : St) (t : Nat) : Option St :=
  match s.segs[t]? with
  | none => none
  | some cur => if cur.status = 1 then none else some (freeAt s t cur)

/-! ### zone_in_use / zone_debug: the walk over the segment table -/

def walk (segs : List Seg) : Nat → Nat → List (Nat × Seg)
  | 0, _ => []
  | f + 1, t =>
    match segs[t]? with
    | none => []
    | some sg => (t, sg) :: (if sg.units = 0 then [] else walk segs f (t + sg.units))

def fullUnits : List (Nat × Seg) → Nat
  | [] => 0
  | (_, sg) :: r => (if sg.status = 2 then sg.units else 0) + fullUnits r

/-- `zone_in_use` -/
def zoneInUse (s : St) : Nat := s.unit * fullUnits (walk s.segs (s.segs.length + 1) 0)

/-! ### the client: the zone plus the ledger of what has been handed out -/

structure Sys where
  z    : St
  live : List (Nat × Nat)      -- (segment id, units) of the allocations returned and not yet freed
deriving Repr, DecidableEq

inductive Out
  | ptr (off : Nat)
  | null
  | ok
  | noop
  | rejected
deriving Repr, DecidableEq

def sysInit (n unit : Nat) : Sys := ⟨init n unit, []⟩

def isLive (live : List (Nat × Nat)) (t : Nat) : Bool := live.any (fun e => e.1 == t)

def dropLive (live : List (Nat × Nat)) (t : Nat) : List (Nat × Nat) := live.filter (fun e => e.1 != t)

/-- malloc of `size` bytes: NULL for a request of 0 units or of more units than `max_segment`
    (the early return added by the repair), else the best-fit search. -/
def sysMalloc (y : Sys) (size : Nat) : Sys × Out :=
  if reqUnits y.z.unit size = 0 ∨ reqUnits y.z.unit size > y.z.segs.length then (y, .null)
  else
    match mallocUnits y.z (reqUnits y.z.unit size) with
    | none => (y, .null)
    | some r => (⟨r.1, (r.2, reqUnits y.z.unit size) :: y.live⟩, .ptr (r.2 * y.z.unit))

/-- zone_malloc as it was before the repair (int unit count); a negative count was outside the
    precondition (the code then indexed the table with negative offsets). -/
def sysMallocBuggy (y : Sys) (size : Nat) : Sys × Out :=
  if reqUnitsBuggy y.z.unit size < 0 then (y, .rejected)
  else if reqUnitsBuggy y.z.unit size = 0 then (y, .null)
  else
    match mallocUnits y.z (reqUnitsBuggy y.z.unit size).toNat with
    | none => (y, .null)
    | some r => (⟨r.1, (r.2, (reqUnitsBuggy y.z.unit size).toNat) :: y.live⟩, .ptr (r.2 * y.z.unit))

/-- free of the byte offset `off`.  Precondition of the API: a multiple of the unit and either the
    base of a live allocation, or an address the code itself refuses (outside the table / entry marked
    EMPTY). -/
def sysFree (y : Sys) (off : Nat) : Sys × Out :=
  if off % y.z.unit ≠ 0 then (y, .rejected)
  else if isLive y.live (off / y.z.unit) then
    match free y.z (off / y.z.unit) with
    | some z' => (⟨z', dropLive y.live (off / y.z.unit)⟩, .ok)
    | none => (⟨y.z, dropLive y.live (off / y.z.unit)⟩, .ok)
  else
    match y.z.segs[off / y.z.unit]? with
    | none => (y, .noop)
    | some sg => if sg.status = 1 then (y, .noop) else (y, .rejected)

end ParsecVerif.Zone
