/-
  Model of parsec/class/parsec_rbtree.c — a functional mirror of the pointer code.

  The real tree is a CLRS red-black tree with a black sentinel (`tree->nil`), parent pointers and
  bottom-up fix-up loops.  The model is an algebraic tree `node colour left key id right`; the
  fix-up loops become the way back up of a structural recursion.  Every function below performs the
  same comparisons, rotations and recolourings as the C code, case by case, so that the *shape*
  (colour, key, node identity in preorder) of the model tree equals the shape of the real tree after
  every operation — which is what the C36 check compares.

  `id` is the identity of the caller-owned node (the C API takes `parsec_rbtree_node_t*`).
  Keys are C `int`s (`COMPARISON_VAL`), modelled as `Int`; no arithmetic is done on them.

  Mathlib-free (linked into the driver executable).
-/
namespace ParsecVerif.RbTree

inductive Color
  | red
  | black
deriving DecidableEq, Repr

inductive Tree
  | nil
  | node (c : Color) (l : Tree) (k : Int) (i : Nat) (r : Tree)
deriving DecidableEq, Repr

open Tree Color

/-- `x->color == PARSEC_RBTREE_RED`; the sentinel is black. -/
def isRed : Tree → Bool
  | node .red _ _ _ _ => true
  | _ => false

/-- `x->color = c` (writing the sentinel's colour black is a no-op; the model never writes it red
    on a valid tree). -/
def setColor (c : Color) : Tree → Tree
  | nil => nil
  | node _ l k i r => node c l k i r

/-- `parsec_rbtree_left_rotate(tree, x)` seen from x's parent: the subtree rooted at x is replaced
    by the subtree rooted at y = RIGHT(x). -/
def rotL : Tree → Tree
  | node c a k i (node c' b k' i' d) => node c' (node c a k i b) k' i' d
  | t => t

/-- `parsec_rbtree_right_rotate(tree, y)`. -/
def rotR : Tree → Tree
  | node c (node c' a k' i' b) k i d => node c' a k' i' (node c b k i d)
  | t => t

/-- in-order traversal (`parsec_rbtree_foreach`): (key, id) pairs. -/
def inorder : Tree → List (Int × Nat)
  | nil => []
  | node _ l k i r => inorder l ++ (k, i) :: inorder r

def size : Tree → Nat
  | nil => 0
  | node _ l _ _ r => size l + 1 + size r

def hasId (z : Nat) : Tree → Bool
  | nil => false
  | node _ l _ i r => hasId z l || i == z || hasId z r

/-! ## insert

`parsec_rbtree_insert` descends with `A_LOWER_PRIORITY_THAN_B(z, x)` = `z.key < x.key` (equal keys
go right), links the red node, then runs `parsec_rbtree_insert_fixup`.  In the recursion the
status says where the fix-up loop's `z` is relative to the subtree being returned. -/

inductive IStat
  | done      -- the loop has exited (z->parent is black)
  | zHere     -- z is the root of the returned subtree (it is red); the loop test reads the caller's colour
  | zLeft     -- z is the LEFT child of the returned root p, and p is red (loop test true); needs the grandparent
  | zRight    -- z is the RIGHT child of the returned root p, and p is red
deriving DecidableEq, Repr

/-- loop body when `z->parent == LEFT(z->parent->parent)`; g = node gc p gk gi y, p returned with status st. -/
def insFixL (gc : Color) (p : Tree) (gk : Int) (gi : Nat) (y : Tree) : IStat → Tree × IStat
  | .done => (node gc p gk gi y, .done)
  | .zHere => (node gc p gk gi y, if gc = .red then .zLeft else .done)
  | .zLeft =>
    if isRed y then (node .red (setColor .black p) gk gi (setColor .black y), .zHere)
    else (rotR (node .red (setColor .black p) gk gi y), .done)
  | .zRight =>
    if isRed y then (node .red (setColor .black p) gk gi (setColor .black y), .zHere)
    else (rotR (node .red (setColor .black (rotL p)) gk gi y), .done)

/-- mirror image: `z->parent == RIGHT(z->parent->parent)`; g = node gc y gk gi p. -/
def insFixR (gc : Color) (y : Tree) (gk : Int) (gi : Nat) (p : Tree) : IStat → Tree × IStat
  | .done => (node gc y gk gi p, .done)
  | .zHere => (node gc y gk gi p, if gc = .red then .zRight else .done)
  | .zRight =>
    if isRed y then (node .red (setColor .black y) gk gi (setColor .black p), .zHere)
    else (rotL (node .red y gk gi (setColor .black p)), .done)
  | .zLeft =>
    if isRed y then (node .red (setColor .black y) gk gi (setColor .black p), .zHere)
    else (rotL (node .red y gk gi (setColor .black (rotR p))), .done)

def ins (k : Int) (z : Nat) : Tree → Tree × IStat
  | nil => (node .red nil k z nil, .zHere)
  | node c l x i r =>
    if k < x then insFixL c (ins k z l).1 x i r (ins k z l).2
    else insFixR c l x i (ins k z r).1 (ins k z r).2

/-- `parsec_rbtree_insert(tree, node)` with node = (k, z); ends with `tree->root->color = BLACK`. -/
def insert (t : Tree) (k : Int) (z : Nat) : Tree := setColor .black (ins k z t).1

/-! ## remove

`parsec_rbtree_remove(tree, z)`: CLRS delete (successor = minimum of the right subtree takes z's
place and colour), then `parsec_rbtree_delete_fixup(tree, x)` if the unlinked colour was black.
Status of the recursion: where the fix-up loop's `x` is. -/

inductive DStat
  | ok          -- no fix-up running / loop exited on a red x (x was painted black)
  | deficient   -- x is the root of the returned subtree, it is black, the loop continues at the caller
  | rootBlack   -- loop exited through `x = tree->root`: the final `x->color = BLACK` paints the tree root
deriving DecidableEq, Repr

/-- cases 2, 3, 4 of the `x == LEFT(x->parent)` branch; p = node pc x pk pi w.  (w = sentinel cannot
    happen on a valid tree; the C code would read the sentinel's children.) -/
def delFixL2 (pc : Color) (x : Tree) (pk : Int) (pi : Nat) : Tree → Tree × DStat
  | nil => (node pc x pk pi nil, .ok)
  | node wc wl wk wi wr =>
    if !isRed wl && !isRed wr then
      (node .black x pk pi (node .red wl wk wi wr), if pc = .red then .ok else .deficient)
    else if !isRed wr then
      match wl with
      | node _ wll wlk wli wlr =>
        (node pc (node .black x pk pi wll) wlk wli (node .black wlr wk wi wr), .rootBlack)
      | nil => (node pc x pk pi (node wc wl wk wi wr), .ok)
    else
      (node pc (node .black x pk pi wl) wk wi (setColor .black wr), .rootBlack)

/-- the `x == LEFT(x->parent)` branch including case 1 (red sibling). -/
def delFixL (pc : Color) (x : Tree) (pk : Int) (pi : Nat) : Tree → Tree × DStat
  | node .red wl wk wi wr =>
    (node .black (delFixL2 .red x pk pi wl).1 wk wi wr, (delFixL2 .red x pk pi wl).2)
  | w => delFixL2 pc x pk pi w

/-- cases 2, 3, 4 of the mirror branch; p = node pc w pk pi x. -/
def delFixR2 (pc : Color) (pk : Int) (pi : Nat) (x : Tree) : Tree → Tree × DStat
  | nil => (node pc nil pk pi x, .ok)
  | node wc wl wk wi wr =>
    if !isRed wr && !isRed wl then
      (node .black (node .red wl wk wi wr) pk pi x, if pc = .red then .ok else .deficient)
    else if !isRed wl then
      match wr with
      | node _ wrl wrk wri wrr =>
        (node pc (node .black wl wk wi wrl) wrk wri (node .black wrr pk pi x), .rootBlack)
      | nil => (node pc (node wc wl wk wi wr) pk pi x, .ok)
    else
      (node pc (setColor .black wl) wk wi (node .black wr pk pi x), .rootBlack)

def delFixR (pc : Color) (pk : Int) (pi : Nat) (x : Tree) : Tree → Tree × DStat
  | node .red wl wk wi wr =>
    (node .black wl wk wi (delFixR2 .red pk pi x wr).1, (delFixR2 .red pk pi x wr).2)
  | w => delFixR2 pc pk pi x w

/-- continue upwards after a removal inside the left subtree -/
def upL (c : Color) (res : Tree × DStat) (k : Int) (i : Nat) (r : Tree) : Tree × DStat :=
  match res.2 with
  | .deficient => delFixL c res.1 k i r
  | st => (node c res.1 k i r, st)

def upR (c : Color) (l : Tree) (k : Int) (i : Nat) (res : Tree × DStat) : Tree × DStat :=
  match res.2 with
  | .deficient => delFixR c k i res.1 l
  | st => (node c l k i res.1, st)

/-- a node of colour `c` with at most one child is unlinked and replaced by that child `x`
    (`transplant`); if `c` is black, `delete_fixup(x)` starts: a red x is painted black at once. -/
def splice (c : Color) (x : Tree) : Tree × DStat :=
  if c = .black then (if isRed x then (setColor .black x, .ok) else (x, .deficient)) else (x, .ok)

/-- `parsec_rbtree_minimum`: leftmost node. -/
def minNode : Tree → Option (Int × Nat)
  | nil => none
  | node _ nil k i _ => some (k, i)
  | node _ l _ _ _ => minNode l

def maxNode : Tree → Option (Int × Nat)
  | nil => none
  | node _ _ k i nil => some (k, i)
  | node _ _ _ _ r => maxNode r

/-- unlink the minimum y of a subtree (its right child x takes its place) and fix up on the way back. -/
def delMin : Tree → Tree × DStat
  | nil => (nil, .ok)
  | node c nil _ _ r => splice c r
  | node c l k i r => upL c (delMin l) k i r

/-- remove the root z of a subtree. -/
def delRoot : Tree → Tree × DStat
  | nil => (nil, .ok)
  | node c nil _ _ r => splice c r
  | node c l _ _ nil => splice c l
  | node c l k i r =>
    match minNode r with
    | some (yk, yi) => upR c l yk yi (delMin r)
    | none => (node c l k i r, .ok)

/-- locate node `z` (the C caller holds the pointer) and remove it. -/
def del (z : Nat) : Tree → Tree × DStat
  | nil => (nil, .ok)
  | node c l k i r =>
    if hasId z l then upL c (del z l) k i r
    else if i = z then delRoot (node c l k i r)
    else upR c l k i (del z r)

def remove (t : Tree) (z : Nat) : Tree :=
  match (del z t).2 with
  | .ok => (del z t).1
  | _ => setColor .black (del z t).1

/-! ## queries -/

/-- `parsec_rbtree_find`: (key, id) of the node found. -/
def find (q : Int) : Tree → Option (Int × Nat)
  | nil => none
  | node _ l k i r => if k = q then some (k, i) else if k < q then find q r else find q l

/-- `parsec_rbtree_find_or_larger`; `larger` is the loop variable of the same name. -/
def folAux (q : Int) (larger : Option (Int × Nat)) : Tree → Option (Int × Nat)
  | nil => larger
  | node _ l k i r =>
    if k = q then some (k, i) else if k < q then folAux q larger r else folAux q (some (k, i)) l

def findOrLarger (q : Int) (t : Tree) : Option (Int × Nat) := folAux q none t

/-! ## update_node -/

def keyOf (z : Nat) : Tree → Option Int
  | nil => none
  | node _ l k i r => if hasId z l then keyOf z l else if i = z then some k else keyOf z r

/-- key of the in-order predecessor of node z as the C code finds it: rightmost node of the left
    subtree, else the first ancestor reached from its right side (`anc`). -/
def predKey (z : Nat) (anc : Option Int) : Tree → Option Int
  | nil => none
  | node _ l k i r =>
    if hasId z l then predKey z anc l
    else if i = z then (match maxNode l with | some m => some m.1 | none => anc)
    else predKey z (some k) r

def succKey (z : Nat) (anc : Option Int) : Tree → Option Int
  | nil => none
  | node _ l k i r =>
    if hasId z l then succKey z (some k) l
    else if i = z then (match minNode r with | some m => some m.1 | none => anc)
    else succKey z anc r

/-- `COMPARISON_VAL(node) = newdata` in place. -/
def setKey (z : Nat) (new : Int) : Tree → Tree
  | nil => nil
  | node c l k i r =>
    if hasId z l then node c (setKey z new l) k i r
    else if i = z then node c l new i r
    else node c l k i (setKey z new r)

/-- the neighbour tests of `parsec_rbtree_update_node`: `none` = return PARSEC_ERR_EXISTS,
    `some b` = `needs_reinsert = b`.  The successor is only looked at when the predecessor did not
    already force a re-insertion. -/
def updDecide (p s : Option Int) (new : Int) : Option Bool :=
  if p = some new then none
  else if (match p with | some pk => decide (new < pk) | none => false) then some true
  else if s = some new then none
  else some (match s with | some sk => decide (sk < new) | none => false)

/-- `parsec_rbtree_update_node(tree, z, new)`; `none` = PARSEC_ERR_EXISTS (tree untouched). -/
def update (t : Tree) (z : Nat) (new : Int) : Option Tree :=
  match updDecide (predKey z none t) (succKey z none t) new with
  | none => none
  | some true => if (find new t).isSome then none else some (insert (remove t z) new z)
  | some false => some (setKey z new t)

/-! ## printing (driver) -/

def showTree : Tree → String
  | nil => "-"
  | node c l k i r =>
    (if c = .red then "R" else "B") ++ toString k ++ ":" ++ toString i ++ " " ++ showTree l ++ " " ++ showTree r

end ParsecVerif.RbTree
