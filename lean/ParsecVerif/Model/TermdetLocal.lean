/-
  Small-step model of the local termination detector
  (parsec/mca/termdet/local/termdet_local_module.c), one transition per atomic operation.

  A thread executes a script of API calls.  Between two calls it is parked at `idle`; the step
  from `idle` runs the plain (non-atomic) prefix of the next call up to its first atomic
  operation.  Every other step executes the atomic operation the thread is parked at and the plain
  code that follows it (including the plain read of `tdm.monitor`, the callback, and the return)
  up to the next atomic operation.

  Shared words are encoded as in the C file:
    monitor  0 = TERMINATED (NULL)  1 = NOT_READY  2 = BUSY  3 = TERMINATING.

  Ghost part (no counterpart in the C code, used only to STATE the usage protocol): every unit of
  `nb_tasks` / of the runtime actions is held by a thread (`hT`, `hA`) or lies in a pool of units
  nobody is working on (`pT`, `pA`: tasks in a scheduler queue, communications in flight); `K` is
  the right to call `taskpool_ready` (the set-up token).  `put`/`take` move units between a thread
  and the pools (ownership transfer); a `take` that finds the pool too small ends the thread.
-/
namespace ParsecVerif.TermdetLocal

inductive Kind | T | A | K
  deriving DecidableEq, Repr

inductive Op
  | ready
  | addT (v : Int)      -- taskpool_addto_nb_tasks
  | addA (v : Int)      -- taskpool_addto_runtime_actions
  | setT (v : Int)      -- taskpool_set_nb_tasks
  | setA (v : Int)      -- taskpool_set_runtime_actions
  | state               -- taskpool_state
  | put (c : Kind) (k : Nat)
  | take (c : Kind) (k : Nat)
  deriving DecidableEq, Repr

/-- program points = the atomic operation a thread is parked at (with its live locals) -/
inductive Pc
  | idle
  | rCas1                 -- ready: CAS monitor NOT_READY→BUSY
  | rRetain               -- ready: OBJ_RETAIN, then plain read of nb_pending_actions
  | tFa (v : Int)         -- addto_nb_tasks: fetch_add nb_tasks
  | tInc (r : Int)        -- fetch_inc nb_pending_actions after a 0→positive crossing (r = return value)
  | tDec (r : Int)        -- fetch_dec nb_pending_actions after a positive→0 crossing
  | aFa (v : Int)         -- addto_runtime_actions: fetch_add nb_pending_actions
  | sCas (v ov : Int)     -- set_nb_tasks: CAS nb_tasks ov→v (ov read plainly in the previous step)
  | aCas (v ov : Int)     -- set_runtime_actions: CAS nb_pending_actions ov→v
  | dCas2 (r : Int)       -- CAS monitor BUSY→TERMINATING
  | dCas3 (r : Int)       -- termination_detected: CAS monitor TERMINATING→TERMINATED (callback done)
  | dRel (r : Int)        -- termination_detected: OBJ_RELEASE
  deriving DecidableEq, Repr

structure Thread where
  pc : Pc
  script : List Op
  ret : Int          -- return value of the last completed call
  hT : Nat           -- ghost: task units held
  hA : Nat           -- ghost: action units held
  hK : Nat           -- ghost: set-up token held
  deriving DecidableEq, Repr

structure Shared where
  mon : Nat
  nt : Int           -- tp->nb_tasks
  npa : Int          -- tp->nb_pending_actions
  cb : Nat           -- number of callback invocations
  rc : Int           -- object reference count, relative to its value before the case
  rdy : Nat          -- history: 1 once `ready` has switched the monitor to BUSY
  pT : Nat           -- pools (harness-level hand-over of units between threads)
  pA : Nat
  pK : Nat
  deriving DecidableEq, Repr

structure State where
  sh : Shared
  ths : List Thread
  deriving DecidableEq, Repr

/-- return from a call with value `r` -/
def fin (th : Thread) (r : Int) : Thread := { th with pc := .idle, ret := r }

/-- `if( tp->tdm.monitor == BUSY && nbpa == 0 )` → go for the CAS, else return `r` -/
def detect (sh : Shared) (th : Thread) (nbpa r : Int) : Thread :=
  if sh.mon = 2 ∧ nbpa = 0 then { th with pc := .dCas2 r } else fin th r

/-- value returned by `taskpool_state` (PARSEC_TERM_TP_*): NOT_READY=1 BUSY=2 TERMINATED=4 -/
def stateCode (mon : Nat) : Int :=
  if mon = 0 then 4 else if mon = 2 ∨ mon = 3 then 2 else if mon = 1 then 1 else -1

def hold (th : Thread) : Kind → Nat
  | .T => th.hT | .A => th.hA | .K => th.hK
def pool (sh : Shared) : Kind → Nat
  | .T => sh.pT | .A => sh.pA | .K => sh.pK

def subHold (th : Thread) : Kind → Nat → Thread
  | .T, k => { th with hT := th.hT - k } | .A, k => { th with hA := th.hA - k } | .K, k => { th with hK := th.hK - k }
def addHold (th : Thread) : Kind → Nat → Thread
  | .T, k => { th with hT := th.hT + k } | .A, k => { th with hA := th.hA + k } | .K, k => { th with hK := th.hK + k }
def subPool (sh : Shared) : Kind → Nat → Shared
  | .T, k => { sh with pT := sh.pT - k } | .A, k => { sh with pA := sh.pA - k } | .K, k => { sh with pK := sh.pK - k }
def addPool (sh : Shared) : Kind → Nat → Shared
  | .T, k => { sh with pT := sh.pT + k } | .A, k => { sh with pA := sh.pA + k } | .K, k => { sh with pK := sh.pK + k }

/-- ghost: the thread's holdings follow the change `d` it applied to a counter -/
def ghT (th : Thread) (d : Int) : Thread := { th with hT := ((th.hT : Int) + d).toNat }
def ghA (th : Thread) (d : Int) : Thread := { th with hA := ((th.hA : Int) + d).toNat }

/-- step from `idle`: plain prefix of the next call -/
def begin (sh : Shared) (th : Thread) : Shared × Thread :=
  match th.script with
  | [] => (sh, th)
  | .ready :: rest => (sh, { th with script := rest, pc := .rCas1 })
  | .addT v :: rest =>
    if v = 0 then (sh, fin { th with script := rest } sh.nt)
    else (sh, { th with script := rest, pc := .tFa v })
  | .addA v :: rest =>
    if v = 0 then (sh, fin { th with script := rest } sh.npa)
    else (sh, { th with script := rest, pc := .aFa v })
  | .setT v :: rest =>
    if sh.nt = v then (sh, fin { th with script := rest } v)
    else (sh, { th with script := rest, pc := .sCas v sh.nt })
  | .setA v :: rest => (sh, { th with script := rest, pc := .aCas v sh.npa })
  | .state :: rest => (sh, fin { th with script := rest } (stateCode sh.mon))
  | .put c k :: rest => (addPool sh c k, fin (subHold { th with script := rest } c k) 1)
  | .take c k :: rest =>
    if k ≤ pool sh c then (subPool sh c k, fin (addHold { th with script := rest } c k) 1)
    else (sh, fin { th with script := [] } 0)

/-- one step of a thread: the atomic operation it is parked at, then plain code up to the next one -/
def tstep (sh : Shared) (th : Thread) : Shared × Thread :=
  match th.pc with
  | .idle => begin sh th
  | .rCas1 =>
    if sh.mon = 1 then ({ sh with mon := 2, rdy := 1 }, { th with pc := .rRetain, hK := th.hK - 1 })
    else (sh, { th with pc := .rRetain })
  | .rRetain =>
    if sh.npa = 0 then ({ sh with rc := sh.rc + 1 }, { th with pc := .dCas2 0 })
    else ({ sh with rc := sh.rc + 1 }, fin th 0)
  | .tFa v =>
    if sh.nt = 0 ∧ v > 0 then ({ sh with nt := sh.nt + v }, { ghT th v with pc := .tInc (sh.nt + v) })
    else if sh.nt + v = 0 ∧ sh.nt > 0 then ({ sh with nt := sh.nt + v }, { ghT th v with pc := .tDec (sh.nt + v) })
    else ({ sh with nt := sh.nt + v }, detect { sh with nt := sh.nt + v } (ghT th v) 1 (sh.nt + v))
  | .tInc r => ({ sh with npa := sh.npa + 1 }, detect { sh with npa := sh.npa + 1 } th (sh.npa + 1) r)
  | .tDec r => ({ sh with npa := sh.npa - 1 }, detect { sh with npa := sh.npa - 1 } th (sh.npa - 1) r)
  | .aFa v => ({ sh with npa := sh.npa + v }, detect { sh with npa := sh.npa + v } (ghA th v) (sh.npa + v) (sh.npa + v))
  | .sCas v ov =>
    if sh.nt = ov then
      if ov = 0 ∧ v > 0 then ({ sh with nt := v }, { ghT th (v - ov) with pc := .tInc v })
      else if ov > 0 ∧ v = 0 then ({ sh with nt := v }, { ghT th (v - ov) with pc := .tDec v })
      else ({ sh with nt := v }, detect { sh with nt := v } (ghT th (v - ov)) 1 v)
    else (sh, { th with pc := .sCas v sh.nt })
  | .aCas v ov =>
    if sh.npa = ov then ({ sh with npa := v }, detect { sh with npa := v } (ghA th (v - ov)) v v)
    else (sh, { th with pc := .aCas v sh.npa })
  | .dCas2 r =>
    if sh.mon = 2 then ({ sh with mon := 3, cb := sh.cb + 1 }, { th with pc := .dCas3 r })
    else (sh, fin th r)
  | .dCas3 r =>
    if sh.mon = 3 then ({ sh with mon := 0 }, { th with pc := .dRel r })
    else (sh, { th with pc := .dRel r })
  | .dRel r => ({ sh with rc := sh.rc - 1 }, fin th r)

def step (s : State) (t : Nat) : State :=
  match s.ths[t]? with
  | none => s
  | some th => ⟨(tstep s.sh th).1, s.ths.set t (tstep s.sh th).2⟩

def run (s : State) (sched : List Nat) : State := sched.foldl step s

/-! ### The usage protocol, as enabling conditions of the transitions -/

/-- a thread may raise a counter only while it holds an accounted unit itself (a running task, a
    pending action) or the set-up token -/
def canRaise (th : Thread) : Prop := 1 ≤ th.hT + th.hA + th.hK

instance (th : Thread) : Decidable (canRaise th) := by unfold canRaise; exact inferInstance

/-- protocol condition of the step thread `th` is about to take -/
def enabled (sh : Shared) (th : Thread) : Prop :=
  match th.pc with
  | .idle => match th.script with
    | .put c k :: _ => k ≤ hold th c          -- only units one holds can be handed over
    | _ => True
  | .rCas1 => 1 ≤ th.hK                        -- `ready` is called once, by the holder of the set-up token
  | .tFa v => (0 < v → canRaise th) ∧ (v < 0 → -v ≤ (th.hT : Int))
  | .aFa v => (0 < v → canRaise th) ∧ (v < 0 → -v ≤ (th.hA : Int))
  | .sCas v ov => sh.nt = ov → (0 ≤ v ∧ (ov < v → canRaise th) ∧ (v < ov → ov - v ≤ (th.hT : Int)))
  | .aCas v ov => sh.npa = ov → (0 ≤ v ∧ (ov < v → canRaise th) ∧ (v < ov → ov - v ≤ (th.hA : Int)))
  | _ => True

instance (sh : Shared) (th : Thread) : Decidable (enabled sh th) := by
  unfold enabled
  split
  · split <;> exact inferInstance
  all_goals exact inferInstance

def okStep (s : State) (t : Nat) : Prop :=
  match s.ths[t]? with
  | none => True
  | some th => enabled s.sh th

instance (s : State) (t : Nat) : Decidable (okStep s t) := by
  unfold okStep; split <;> exact inferInstance

/-- every step of the schedule respects the protocol -/
def okRun : State → List Nat → Bool
  | _, [] => true
  | s, t :: r => decide (okStep s t) && okRun (step s t) r

/-- index of the first step that leaves the protocol -/
def firstBad : State → List Nat → Nat → Option Nat
  | _, [], _ => none
  | s, t :: r, i => if okStep s t then firstBad (step s t) r (i + 1) else some i

/-- initial shared state: monitored taskpool (NOT_READY), counters 0, the set-up token in the pool -/
def sh0 : Shared := ⟨1, 0, 0, 0, 0, 0, 0, 0, 1⟩

def mkThread (sc : List Op) : Thread := ⟨.idle, sc, 0, 0, 0, 0⟩

/-- initial state: one thread per script, nobody holds anything; whoever sets the taskpool up
    first takes the token (`take K 1`) -/
def init (scripts : List (List Op)) : State := ⟨sh0, scripts.map mkThread⟩

def Thread.done (th : Thread) : Bool := th.pc = .idle ∧ th.script = []

end ParsecVerif.TermdetLocal
