/-
  PTG (JDF) language layer: an AST for the JDF subset produced by gen/ptg_gen.py, a total evaluator,
  the execution space enumerated exactly as the generated `<class>_internal_init` does, the startup
  enumeration exactly as the generated `__jdf2c_startup_<class>` does, successor / predecessor
  functions derived from the out / in dependencies (with the range test the generated
  `iterate_successors` applies to every target), a decidable `WellFormed`, and the task-key
  computation of the generated `make_key` / `key_print`.

  Source read: parsec/interfaces/ptg/ptg-compiler/jdf2c.c
     jdf_generate_internal_init           -> `enumSem`, `space`, `keyInfo` (min / range collection)
     jdf_generate_startup_tasks           -> `startupVals`, `startupEnum`
     jdf_generate_direct_input_conditions -> `isStartup`
     jdf_generate_hashfunction_for        -> `keyZ`, `makeKey`
     jdf_generate_deps_key_functions      -> `keyPrintVals`, `keyPrint`
     jdf_generate_code_iterate_successors_or_predecessors / jdf_create_code_assignments_calls -> `targetEnvs`, `succs`, `preds`

  Mathlib-free (linked into the drivers).  Integers are unbounded `Int`; the int32 / uint64 width of the
  generated code appears only where the code relies on it (`makeKey` is taken modulo 2^64, `key_print`
  converts back to `int`).  See docs/notes/PTG.md.
-/
namespace ParsecVerif.Ptg

/-! ## Expressions -/

inductive BinOp
  | add | sub | mul | div | mod | lt | le | gt | ge | eq | ne | land | lor
  deriving Repr, DecidableEq, Inhabited

inductive Expr
  | const (i : Int)
  | var (ix : Nat)          -- ix-th local of the enclosing task class (declaration order)
  | glob (ix : Nat)         -- ix-th integer global of the program
  | bin (op : BinOp) (a b : Expr)
  | lnot (a : Expr)
  | ite (c a b : Expr)
  deriving Repr, Inhabited

def b2i (b : Bool) : Int := if b then 1 else 0

/-- C semantics on (unbounded) integers: `/` and `%` truncate towards zero; comparisons and logical
    operators yield 0 / 1.  Division by zero (undefined in C) yields 0 / the dividend as `Int.tdiv`/`tmod` do;
    generated programs never divide by an expression that can be 0. -/
def evalBin : BinOp → Int → Int → Int
  | .add, a, b => a + b
  | .sub, a, b => a - b
  | .mul, a, b => a * b
  | .div, a, b => Int.tdiv a b
  | .mod, a, b => Int.tmod a b
  | .lt, a, b => b2i (a < b)
  | .le, a, b => b2i (a ≤ b)
  | .gt, a, b => b2i (a > b)
  | .ge, a, b => b2i (a ≥ b)
  | .eq, a, b => b2i (a = b)
  | .ne, a, b => b2i (a ≠ b)
  | .land, a, b => b2i (a ≠ 0 ∧ b ≠ 0)
  | .lor, a, b => b2i (a ≠ 0 ∨ b ≠ 0)

/-- Total evaluator.  `g` = globals, `l` = values of the locals defined so far (an unbound index reads 0). -/
def eval (g l : List Int) : Expr → Int
  | .const i => i
  | .var ix => l.getD ix 0
  | .glob ix => g.getD ix 0
  | .bin op a b => evalBin op (eval g l a) (eval g l b)
  | .lnot a => b2i (eval g l a = 0)
  | .ite c a b => if eval g l c ≠ 0 then eval g l a else eval g l b

/-! ## Ranges and locals -/

structure Range where
  lo : Expr
  hi : Expr
  step : Expr
  deriving Repr, Inhabited

inductive LocalDef
  | range (r : Range)     -- `k = lo .. hi .. step`
  | expr (e : Expr)       -- `k = e`  (a derived local; it may also be a parameter of the class)
  deriving Repr, Inhabited

/-- The values visited by the counting loop of `internal_init`:
    `for (k = lo; (step >= 0 && k <= hi) || (step < 0 && k >= hi); k += step)`.
    For a literal step the compiler emits only the applicable comparison, which is the same function.
    `step = 0` with `lo ≤ hi` does not terminate in the real code: the model returns `[]` and
    `stepsOk` (part of `WellFormed`) excludes it. -/
def rangeVals (lo hi step : Int) : List Int :=
  if 0 < step then
    if lo ≤ hi then (List.range (((hi - lo) / step).toNat + 1)).map (fun (i : Nat) => lo + step * (i : Int)) else []
  else if step < 0 then
    if hi ≤ lo then (List.range (((lo - hi) / (-step)).toNat + 1)).map (fun (i : Nat) => lo + step * (i : Int)) else []
  else []

/-- Semantic form of a local definition: arbitrary functions of the values of the earlier locals.
    All theorems about the space and the keys are proved at this level, hence for arbitrary range functions. -/
inductive LocalSem
  | range (lo hi step : List Int → Int)
  | expr (f : List Int → Int)

def LocalDef.sem (g : List Int) : LocalDef → LocalSem
  | .range r => .range (fun l => eval g l r.lo) (fun l => eval g l r.hi) (fun l => eval g l r.step)
  | .expr e => .expr (fun l => eval g l e)

/-- Nested-loop enumeration of `internal_init`: one loop per range local, one assignment per derived local,
    in declaration order.  `pre` = values of the enclosing (earlier) locals; the result lists the values of
    the remaining locals, in the order the innermost statement (`nb_tasks++`) is reached. -/
def enumSem : List LocalSem → List Int → List (List Int)
  | [], _ => [[]]
  | .range lo hi st :: ds, pre =>
      (rangeVals (lo pre) (hi pre) (st pre)).flatMap fun v => (enumSem ds (pre ++ [v])).map (v :: ·)
  | .expr f :: ds, pre => (enumSem ds (pre ++ [f pre])).map (f pre :: ·)

/-! ## Dependencies, flows, task classes, programs -/

inductive Access | read | rw | write | ctl
  deriving Repr, DecidableEq, Inhabited

/-- one argument of a task reference: an expression, or a range `lo .. hi .. step` (fan-out / gather) -/
inductive Arg
  | one (e : Expr)
  | rng (r : Range)
  deriving Repr, Inhabited

inductive Target
  | task (cls : Nat) (flow : Nat) (args : List Arg)   -- `F T(args)`: flow index `flow` of class index `cls`
  | coll (idx : Expr)                                  -- `ddesc(idx)`: an element of the data collection
  | new                                                -- `NEW`
  | null                                               -- `NULL`
  deriving Repr, Inhabited

/-- `<- T` / `<- g ? T` / `<- g ? T : F` (same three forms on the output side) -/
structure Dep where
  guard : Option Expr
  thenT : Target
  elseT : Option Target      -- only meaningful with a guard (ternary form)
  deriving Repr, Inhabited

structure Flow where
  access : Access
  ins : List Dep
  outs : List Dep
  deriving Repr, Inhabited

structure TaskClass where
  name : String
  locals : List LocalDef
  isParam : List Bool        -- aligned with `locals`: is the local named in the class header
  place : Expr               -- `: ddesc(place)`; owner rank = place mod nodes
  prio : Option Expr
  flows : List Flow
  deriving Repr, Inhabited

structure Program where
  globals : List Int
  classes : List TaskClass
  deriving Repr, Inhabited

/-- a task instance: class index and the values of ALL locals of the class (parameters and derived) -/
structure Instance where
  cls : Nat
  env : List Int
  deriving Repr, DecidableEq, Inhabited

def TaskClass.sems (g : List Int) (c : TaskClass) : List LocalSem := c.locals.map (LocalDef.sem g)

/-- The execution space of a class, in the order of `internal_init`'s counting loop. -/
def spaceOf (g : List Int) (c : TaskClass) : List (List Int) := enumSem (c.sems g) []

def space (p : Program) (c : Nat) : List (List Int) :=
  match p.classes[c]? with
  | some cl => spaceOf p.globals cl
  | none => []

/-- parameter values of an instance (the locals named in the header, in declaration order of the locals:
    that is the order `make_key` and `key_print` use) -/
def paramsOf : List Bool → List Int → List Int
  | true :: ps, v :: vs => v :: paramsOf ps vs
  | false :: ps, _ :: vs => paramsOf ps vs
  | _, _ => []

def normMod (k : Int) (n : Nat) : Int := k % (n : Int)

/-- instances placed on `rank` out of `nodes` processes (`<class>_pred`: `rank_of(place) == myrank`; the test
    collection of harness/ptg_rt.c has `rank_of(k) = k mod nodes`, non-negative) -/
def localSpace (p : Program) (c : Nat) (rank nodes : Nat) : List (List Int) :=
  match p.classes[c]? with
  | some cl => (spaceOf p.globals cl).filter fun a => normMod (eval p.globals a cl.place) nodes == (rank : Int)
  | none => []

def allInstances (p : Program) : List Instance :=
  (List.range p.classes.length).flatMap fun c => (space p c).map fun a => ⟨c, a⟩

def localInstances (p : Program) (rank nodes : Nat) : List Instance :=
  (List.range p.classes.length).flatMap fun c => (localSpace p c rank nodes).map fun a => ⟨c, a⟩

/-- the number of local tasks `internal_init` announces to termination detection (`initial_number_tasks`,
    summed over the classes: every class's init task adds its own `nb_tasks`) -/
def announcedNbTasks (p : Program) (rank nodes : Nat) : Nat :=
  ((List.range p.classes.length).map fun c => (localSpace p c rank nodes).length).sum

/-! ## Task keys (make_key / key_print) -/

/-- per local: (is a parameter, min, range) as stored by `internal_init` in the taskpool (`<T>_<k>_min`, `_range`).
    Non-parameters carry (false, 0, 1) and are skipped by the key functions. -/
structure KInfo where
  isParam : Bool
  min : Int
  range : Int
  deriving Repr, DecidableEq, Inhabited

def int32Max : Int := 0x7fffffff

/-- `__jdf2c_k_min`: starts at 0x7fffffff, lowered by `imin(start, end)` at every visit of the loop header. -/
def minFold (lo hi : List Int → Int) (visits : List (List Int)) : Int :=
  visits.foldl (fun m pre => min m (min (lo pre) (hi pre))) int32Max

/-- `__jdf2c_k_max`: starts at 0, raised by `imax(start, end)` at every visit of the loop header. -/
def maxFold (lo hi : List Int → Int) (visits : List (List Int)) : Int :=
  visits.foldl (fun m pre => max m (max (lo pre) (hi pre))) 0

/-- `keyInfoFrom all ps j rest`: `all` = every local of the class, `rest` = the locals from index `j` on.
    The header of the loop of local `j` is visited once per iteration of the enclosing loops, i.e. once per
    element of `enumSem (all.take j) []`, in that order. -/
def keyInfoFrom (all : List LocalSem) : List Bool → Nat → List LocalSem → List KInfo
  | _, _, [] => []
  | ps, j, .range lo hi _ :: ds =>
      (if ps.headD false then
        (let visits := enumSem (all.take j) []
         let mn := minFold lo hi visits
         let mx := maxFold lo hi visits
         (⟨true, mn, (mx - mn) + 1⟩ : KInfo))
       else ⟨false, 0, 1⟩) :: keyInfoFrom all ps.tail (j + 1) ds
  | ps, j, .expr _ :: ds =>
      (⟨ps.headD false, 0, 1⟩ : KInfo) :: keyInfoFrom all ps.tail (j + 1) ds

def keyInfo (ds : List LocalSem) (ps : List Bool) : List KInfo := keyInfoFrom ds ps 0 ds

/-- `make_key` as written: `id += (value − min) * (product of the ranges of the earlier parameters)`,
    over the locals in declaration order; here over unbounded integers. -/
def keyZFrom : List KInfo → List Int → Int → Int → Int
  | ⟨true, mn, rg⟩ :: is, v :: vs, mult, acc => keyZFrom is vs (mult * rg) (acc + (v - mn) * mult)
  | ⟨false, _, _⟩ :: is, _ :: vs, mult, acc => keyZFrom is vs mult acc
  | _, _, _, acc => acc

def keyZ (is : List KInfo) (a : List Int) : Int := keyZFrom is a 1 0

def two64 : Int := 18446744073709551616
def two32 : Int := 4294967296

/-- the generated code computes in `uint64_t` -/
def toU64 (x : Int) : Int := x % two64

/-- conversion of a `uint64_t` to `int` (truncation to 32 bits, two's complement) -/
def toI32 (x : Int) : Int := if x % two32 < 2147483648 then x % two32 else x % two32 - two32

def makeKeyOf (is : List KInfo) (a : List Int) : Int := toU64 (keyZ is a)

/-- `key_print`: for every parameter, in order: `int k = key % range + min; key = key / range;`
    (`range` and `min` are `int`s converted to `uint64_t`; the sum is converted back to `int`). -/
def keyPrintVals : List KInfo → Int → List Int
  | [], _ => []
  | ⟨true, mn, rg⟩ :: is, key =>
      toI32 (toU64 (key % toU64 rg + toU64 mn)) :: keyPrintVals is (key / toU64 rg)
  | ⟨false, _, _⟩ :: is, key => keyPrintVals is key

def showArgs (l : List Int) : String := ", ".intercalate (l.map toString)

def classKeyInfo (g : List Int) (c : TaskClass) : List KInfo := keyInfo (c.sems g) c.isParam

def makeKey (p : Program) (c : Nat) (a : List Int) : Int :=
  match p.classes[c]? with
  | some cl => makeKeyOf (classKeyInfo p.globals cl) a
  | none => 0

def keyPrint (p : Program) (c : Nat) (key : Int) : String :=
  match p.classes[c]? with
  | some cl => cl.name ++ "(" ++ showArgs (keyPrintVals (classKeyInfo p.globals cl) key) ++ ")"
  | none => ""

/-- the instance's name as the property wants it printed -/
def instName (p : Program) (c : Nat) (a : List Int) : String :=
  match p.classes[c]? with
  | some cl => cl.name ++ "(" ++ showArgs (paramsOf cl.isParam a) ++ ")"
  | none => ""

/-! ## Startup enumeration (`__jdf2c_startup_<class>`) -/

/-- the loop of the startup function: `for (k = lo; k <= hi; k += step)` — always `<=`, whatever the sign
    of the step.  `none` = the loop does not terminate (`lo ≤ hi` and `step ≤ 0`). -/
def startupVals (lo hi step : Int) : Option (List Int) :=
  if hi < lo then some []
  else if 0 < step then some (rangeVals lo hi step)
  else none

/-- sequential composition of the per-value sub-enumerations; `none` as soon as one of them does not terminate -/
def optFlatMap {α β : Type} (l : List α) (f : α → Option (List β)) : Option (List β) :=
  match l with
  | [] => some []
  | x :: xs =>
    match f x, optFlatMap xs f with
    | some a, some b => some (a ++ b)
    | _, _ => none

def startupSem : List LocalSem → List Int → Option (List (List Int))
  | [], _ => some [[]]
  | .range lo hi st :: ds, pre =>
      match startupVals (lo pre) (hi pre) (st pre) with
      | none => none
      | some vs => optFlatMap vs fun v => (startupSem ds (pre ++ [v])).map (·.map (v :: ·))
  | .expr f :: ds, pre => (startupSem ds (pre ++ [f pre])).map (·.map (f pre :: ·))

def Target.isTask : Target → Bool
  | .task .. => true
  | _ => false

/-- `jdf_generate_direct_input_conditions`, one flow: walk the input deps in order.
    Result: `some true` = this flow does not prevent the task from being a startup task,
            `some false` = `continue` (not a startup task). -/
def flowStartupOk (g a : List Int) : List Dep → Bool → Bool
  -- second argument: a `goto next_flow` was emitted by an earlier dep of this flow (write_next_label)
  | [], lbl => !lbl                       -- `continue; /* All other cases are not startup tasks */` iff a label is pending
  | d :: ds, lbl =>
    match d.guard, d.elseT with
    | none, _ => !d.thenT.isTask           -- unconditional: memory reference -> fine; task -> the class cannot be startup
    | some ge, none =>
        if d.thenT.isTask then
          if eval g a ge ≠ 0 then false else flowStartupOk g a ds lbl     -- `if (guard) continue;`
        else
          if eval g a ge ≠ 0 then true else flowStartupOk g a ds true     -- `if (guard) goto next_flow;`
    | some ge, some e =>
        if !d.thenT.isTask && !e.isTask then true
        else if !d.thenT.isTask then (if eval g a ge ≠ 0 then true else flowStartupOk g a ds true)
        else if !e.isTask then (if eval g a ge = 0 then true else flowStartupOk g a ds true)
        else false

def isStartup (g : List Int) (c : TaskClass) (a : List Int) : Bool :=
  c.flows.all fun f => f.ins.isEmpty || flowStartupOk g a f.ins false

/-- the startup tasks the generated code creates for a class, in creation order (`none`: does not terminate) -/
def startupEnum (p : Program) (c : Nat) : Option (List (List Int)) :=
  match p.classes[c]? with
  | some cl => (startupSem (cl.sems p.globals) []).map (·.filter (isStartup p.globals cl))
  | none => some []

/-! ## Successors and predecessors -/

/-- values of an argument of a task reference.  The generated loops over a range argument are
    `for (x = lo; x <= hi; x += step)`; a non-positive step with `lo ≤ hi` does not terminate: the model yields `[]`
    (`WellFormed` then fails, the edge being absent from one side). -/
def argVals (g a : List Int) : Arg → List Int
  | .one e => [eval g a e]
  | .rng r => (startupVals (eval g a r.lo) (eval g a r.hi) (eval g a r.step)).getD []

/-- cartesian product in loop-nest order (first argument outermost) -/
def argTuples (g a : List Int) : List Arg → List (List Int)
  | [] => [[]]
  | x :: xs => (argVals g a x).flatMap fun v => (argTuples g a xs).map (v :: ·)

/-- Build the target's locals from the argument values, as `jdf_create_code_assignments_calls` and the
    successor iterator do: a parameter takes the next argument; a range parameter is then tested with
    `v >= lo && v <= hi` (bounds of the TARGET class evaluated on the target's earlier locals) — the step is not
    tested and the test is the same whatever the sign of the step; a non-parameter local is evaluated from its
    definition.  `none` = the generated code skips this target. -/
def buildTarget (g : List Int) (checkRange : Bool) : List LocalDef → List Bool → List Int → List Int → Option (List Int)
  | [], _, _, env => some env
  | .range r :: ds, p :: ps, args, env =>
      if p then
        match args with
        | v :: rest =>
            if checkRange && !(eval g env r.lo ≤ v && v ≤ eval g env r.hi) then none
            else buildTarget g checkRange ds ps rest (env ++ [v])
        | [] => none
      else none        -- a range local that is not a parameter: outside the subset
  | .expr e :: ds, p :: ps, args, env =>
      if p then
        match args with
        | v :: rest => buildTarget g checkRange ds ps rest (env ++ [v])
        | [] => none
      else buildTarget g checkRange ds ps args (env ++ [eval g env e])
  | _ :: _, [], _, _ => none

/-- the active target of a dependency for instance `a` -/
def activeTarget (g a : List Int) (d : Dep) : Option Target :=
  match d.guard with
  | none => some d.thenT
  | some ge => if eval g a ge ≠ 0 then some d.thenT else d.elseT

/-- an edge of the task graph: `src` completes, its flow `sflow` releases flow `dflow` of `dst` -/
structure Edge where
  src : Instance
  sflow : Nat
  dst : Instance
  dflow : Nat
  deriving Repr, DecidableEq, Inhabited

def enumFrom {α} : Nat → List α → List (Nat × α)
  | _, [] => []
  | n, x :: xs => (n, x) :: enumFrom (n + 1) xs

/-- edges leaving instance `⟨c, a⟩`, in the order `iterate_successors` visits them -/
def outEdges (p : Program) (c : Nat) (a : List Int) : List Edge :=
  match p.classes[c]? with
  | none => []
  | some cl =>
    (enumFrom 0 cl.flows).flatMap fun (fi, f) =>
      f.outs.flatMap fun d =>
        match activeTarget p.globals a d with
        | some (.task tc tf args) =>
            match p.classes[tc]? with
            | none => []
            | some tcl =>
              (argTuples p.globals a args).filterMap fun tup =>
                (buildTarget p.globals true tcl.locals tcl.isParam tup []).map fun env =>
                  (⟨⟨c, a⟩, fi, ⟨tc, env⟩, tf⟩ : Edge)
        | _ => []

/-- edges entering instance `⟨c, a⟩` according to its own input dependencies (no range test on this side:
    the consumer simply waits for what it names) -/
def inEdges (p : Program) (c : Nat) (a : List Int) : List Edge :=
  match p.classes[c]? with
  | none => []
  | some cl =>
    (enumFrom 0 cl.flows).flatMap fun (fi, f) =>
      f.ins.flatMap fun d =>
        match activeTarget p.globals a d with
        | some (.task sc sf args) =>
            match p.classes[sc]? with
            | none => []
            | some scl =>
              (argTuples p.globals a args).filterMap fun tup =>
                (buildTarget p.globals false scl.locals scl.isParam tup []).map fun env =>
                  (⟨⟨sc, env⟩, sf, ⟨c, a⟩, fi⟩ : Edge)
        | _ => []

def succs (p : Program) (t : Instance) : List (Instance × Nat) := (outEdges p t.cls t.env).map fun e => (e.dst, e.dflow)
def preds (p : Program) (t : Instance) : List (Instance × Nat) := (inEdges p t.cls t.env).map fun e => (e.src, e.sflow)

def allOutEdges (p : Program) : List Edge := (allInstances p).flatMap fun t => outEdges p t.cls t.env
def allInEdges (p : Program) : List Edge := (allInstances p).flatMap fun t => inEdges p t.cls t.env

/-! ## WellFormed -/

def nodupB {α} [BEq α] : List α → Bool
  | [] => true
  | x :: xs => !xs.contains x && nodupB xs

/-- every loop header reached by `internal_init` has a non-zero step (otherwise the real loop spins forever) -/
def stepsOkSem : List LocalSem → List Int → Bool
  | [], _ => true
  | .range lo hi st :: ds, pre =>
      (st pre ≠ 0 || hi pre < lo pre) && (rangeVals (lo pre) (hi pre) (st pre)).all fun v => stepsOkSem ds (pre ++ [v])
  | .expr f :: ds, pre => stepsOkSem ds (pre ++ [f pre])

/-- number of active input sources of a flow for instance `a` (task, collection, NEW and NULL all count) -/
def activeIns (g a : List Int) (f : Flow) : Nat :=
  (f.ins.filter fun d => (activeTarget g a d).isSome).length

def posOf (p : Program) (t : Instance) : Option Nat := (allInstances p).idxOf? t

/-- rank certificate for acyclicity: every edge goes forward in the global enumeration order
    (class index, then `internal_init` order). -/
def edgeForward (p : Program) (e : Edge) : Bool :=
  match posOf p e.src, posOf p e.dst with
  | some i, some j => i < j
  | _, _ => false

/-- Decidable validity of a program w.r.t. the code as generated:
    * all visited steps non-zero; every class's range locals are parameters; `isParam` aligned with `locals`;
    * the startup function terminates and creates exactly the startup instances of the space;
    * every data flow that is read (READ / RW) has exactly one active input for every instance, a WRITE flow at most one;
    * the edges produced by the successor iterators (with their range tests) are exactly the edges named by the
      input dependencies, none twice, all between instances of the space, all forward in enumeration order. -/
def WellFormed (p : Program) : Bool :=
  p.classes.all (fun cl =>
    cl.isParam.length == cl.locals.length &&
    (List.zip cl.locals cl.isParam).all (fun (d, b) => match d with | .range _ => b | .expr _ => true) &&
    stepsOkSem (cl.sems p.globals) []) &&
  (List.range p.classes.length).all (fun c =>
    match p.classes[c]? with
    | none => false
    | some cl =>
      startupEnum p c == some ((space p c).filter (isStartup p.globals cl)) &&
      (space p c).all fun a => cl.flows.all fun f =>
        match f.access with
        | .read | .rw => activeIns p.globals a f == 1
        | .write => activeIns p.globals a f ≤ 1
        | .ctl => true) &&
  (let outs := allOutEdges p
   let ins := allInEdges p
   let insts := allInstances p
   nodupB outs && nodupB ins &&
   outs.all (fun e => ins.contains e) && ins.all (fun e => outs.contains e) &&
   outs.all (fun e => insts.contains e.dst && edgeForward p e) &&
   ins.all (fun e => insts.contains e.src))

/-! ## Decidable hypotheses of the theorems (Props/C23.lean, Props/C01.lean); evaluated by the driver on every case -/

/-- every range local is a parameter of the class (`jdf.c` only warns otherwise; outside the subset) -/
def RangesAreParams : List LocalSem → List Bool → Prop
  | [], _ => True
  | .range _ _ _ :: ds, ps => ps.headD false = true ∧ RangesAreParams ds ps.tail
  | .expr _ :: ds, ps => RangesAreParams ds ps.tail

def decRangesAreParams : (ds : List LocalSem) → (ps : List Bool) → Decidable (RangesAreParams ds ps)
  | [], _ => isTrue trivial
  | .range _ _ _ :: ds, ps =>
      match decRangesAreParams ds ps.tail with
      | isTrue h => if hp : ps.headD false = true then isTrue ⟨hp, h⟩ else isFalse (fun x => hp x.1)
      | isFalse h => isFalse (fun x => h x.2)
  | .expr _ :: ds, ps => decRangesAreParams ds ps.tail

instance (ds : List LocalSem) (ps : List Bool) : Decidable (RangesAreParams ds ps) := decRangesAreParams ds ps

/-- hypotheses of the printing theorem: no derived local is a parameter, and the stored `min` and `min + range`
    of every range parameter fit the `int` the generated code keeps them in -/
def PrintHyp : List KInfo → List LocalSem → Prop
  | [], [] => True
  | k :: ks, .range _ _ _ :: ds => -2147483648 ≤ k.min ∧ k.min + k.range ≤ 2147483648 ∧ PrintHyp ks ds
  | k :: ks, .expr _ :: ds => k.isParam = false ∧ PrintHyp ks ds
  | _, _ => False

def decPrintHyp : (is : List KInfo) → (ds : List LocalSem) → Decidable (PrintHyp is ds)
  | [], [] => isTrue trivial
  | k :: ks, .range _ _ _ :: ds =>
      match decPrintHyp ks ds with
      | isTrue h =>
          if h1 : -2147483648 ≤ k.min then
            if h2 : k.min + k.range ≤ 2147483648 then isTrue ⟨h1, h2, h⟩ else isFalse (fun x => h2 x.2.1)
          else isFalse (fun x => h1 x.1)
      | isFalse h => isFalse (fun x => h x.2.2)
  | k :: ks, .expr _ :: ds =>
      match decPrintHyp ks ds with
      | isTrue h => if h1 : k.isParam = false then isTrue ⟨h1, h⟩ else isFalse (fun x => h1 x.1)
      | isFalse h => isFalse (fun x => h x.2)
  | [], _ :: _ => isFalse (fun x => x)
  | _ :: _, [] => isFalse (fun x => x)

instance (is : List KInfo) (ds : List LocalSem) : Decidable (PrintHyp is ds) := decPrintHyp is ds

/-- every loop header reached by the enumeration has a strictly positive step -/
def StepsPositive : List LocalSem → List Int → Prop
  | [], _ => True
  | .range lo hi st :: ds, pre => 0 < st pre ∧ ∀ v ∈ rangeVals (lo pre) (hi pre) (st pre), StepsPositive ds (pre ++ [v])
  | .expr f :: ds, pre => StepsPositive ds (pre ++ [f pre])

def decStepsPositive : (ds : List LocalSem) → (pre : List Int) → Decidable (StepsPositive ds pre)
  | [], _ => isTrue trivial
  | .range lo hi st :: ds, pre =>
      have : ∀ v, Decidable (StepsPositive ds (pre ++ [v])) := fun v => decStepsPositive ds (pre ++ [v])
      (inferInstance : Decidable (0 < st pre ∧ ∀ v ∈ rangeVals (lo pre) (hi pre) (st pre), StepsPositive ds (pre ++ [v])))
  | .expr f :: ds, pre => decStepsPositive ds (pre ++ [f pre])

instance (ds : List LocalSem) (pre : List Int) : Decidable (StepsPositive ds pre) := decStepsPositive ds pre

/-- Explicit no-overflow hypothesis of the key-injectivity theorem: the UNBOUNDED keys of any two instances of the
    space differ by less than 2^64, so equality modulo 2^64 (what `uint64_t` arithmetic gives) is equality. -/
def NoOverflow (is : List KInfo) (sp : List (List Int)) : Prop :=
  ∀ a ∈ sp, ∀ b ∈ sp, -two64 < keyZ is a - keyZ is b ∧ keyZ is a - keyZ is b < two64

instance (is : List KInfo) (sp : List (List Int)) : Decidable (NoOverflow is sp) := by
  unfold NoOverflow; infer_instance

end ParsecVerif.Ptg
