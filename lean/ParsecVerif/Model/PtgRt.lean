import ParsecVerif.Model.Ptg
import ParsecVerif.Model.Dataflow
/-!
  PTG programs on the abstract runtime: the task graph of a program (`graphOf`), and the DATA semantics of the
  generated code — which data copy every flow of every task instance holds, what a body reads and writes, the
  write-back of `-> ddesc(e)` outputs — as a heap of cells on which the body of each node acts.

  Source read (parsec/interfaces/ptg/ptg-compiler/jdf2c.c and the C it generates, see docs/notes/C02.md):
    data_lookup_of_<T>   : per flow, the FIRST input dependency whose guard holds decides the copy:
                           a predecessor's flow -> the very copy that flow holds (`entry->data[flow]`, no private copy:
                           RW bodies modify it in place), `ddesc(e)` -> the collection's own copy of tile e,
                           NEW -> a fresh arena copy, NULL / nothing active -> no copy;
    hook_of_<T>          : `data_out = data_in`; the body (test-owned, harness/ptg_rt.c) reads every READ/RW flow,
                           then stores H(class, flow, locals, inputs) into every RW/WRITE flow;
    complete_hook_of_<T> : for every active `-> ddesc(e)`: if the flow's copy is not tile e's own copy its content is
                           copied into tile e (`parsec_remote_dep_memcpy`).

  The machine of `Model/Dataflow.lean` decides WHEN bodies run; this file decides WHAT a run computes: the bodies of
  the nodes applied in the order of their `end_` events (`heapOfLog`).  `seqRun` is the same fold in enumeration order.
  Single process (all instances local); remote edges are C05.  Mathlib-free.
-/
namespace ParsecVerif.PtgRt
open ParsecVerif.Ptg ParsecVerif

structure Cfg where
  tiles : Nat := 16            -- number of tiles of the test collection (harness/ptg_rt.c: element k lives in tile k mod tiles)
  startupIter : Nat := 64      -- PARSEC_MCA task_startup_iter
  startupChunk : Nat := 256    -- PARSEC_MCA task_startup_chunk
  deriving Repr, Inhabited

/-! ## The task graph -/

def ixOf (insts : List Instance) (t : Instance) : Option Nat := insts.idxOf? t

def edgeIx (insts : List Instance) (e : Edge) : Option (Nat × Nat) :=
  match ixOf insts e.src, ixOf insts e.dst with
  | some i, some j => some (i, j)
  | _, _ => none

/-- nodes = the enumerated instances of all classes (position in `allInstances`), one edge per active
    task-to-task dependency produced by the successor iterators -/
def graphOf (p : Program) (_cfg : Cfg) : Dataflow.Graph :=
  ⟨(allInstances p).length, (allOutEdges p).filterMap (edgeIx (allInstances p))⟩

def nodeOf (p : Program) (t : Instance) : Option Nat := ixOf (allInstances p) t

/-! ## Cells, heaps, node actions -/

inductive Cell
  | tile (k : Nat)              -- the collection's own copy of tile k
  | fresh (node flow : Nat)     -- the arena copy allocated for a NEW input of flow `flow` of node `node`
  | obs (node flow : Nat)       -- ghost: the value the body of `node` saw in flow `flow`
  | out (node flow : Nat)       -- ghost: the content of the copy held by flow `flow` when the body of `node` ended
  deriving DecidableEq, Repr, Inhabited

abbrev Heap := Cell → Nat

def Heap.set (h : Heap) (c : Cell) (v : Nat) : Heap := fun x => if x = c then v else h x

def applyWrites (ws : List (Cell × Nat)) (h : Heap) : Heap := ws.foldl (fun h w => h.set w.1 w.2) h

/-- the action of one node: it reads the cells `reads`, then performs the writes `writes (values read)`;
    every cell it may write is in `targets` (`NodeD.TargetsOK`) -/
structure NodeD where
  reads : List Cell
  targets : List Cell
  writes : List Nat → List (Cell × Nat)

def NodeD.exec (d : NodeD) (h : Heap) : Heap := applyWrites (d.writes (d.reads.map h)) h

def NodeD.TargetsOK (d : NodeD) : Prop := ∀ vs x, x ∈ (d.writes vs).map (·.1) → x ∈ d.targets

/-- two nodes conflict when one may write a cell the other reads or writes -/
def NodeD.conflict (a b : NodeD) : Bool :=
  a.targets.any (fun c => b.reads.contains c || b.targets.contains c) ||
  b.targets.any (fun c => a.reads.contains c || a.targets.contains c)

def runOrder (ds : List NodeD) (order : List Nat) (h : Heap) : Heap :=
  order.foldl (fun h i => match ds[i]? with | some d => d.exec h | none => h) h

/-! ## Static description of the flows of a task instance -/

structure FlowD where
  copy : Option Cell      -- the copy the flow holds (none: CTL flow, NULL, no active input)
  reads : Bool            -- READ or RW access
  writes : Bool           -- RW or WRITE access
  isNew : Bool            -- the copy was allocated for this task (the test body zeroes it before use)
  wbs : List Nat          -- tiles the flow's copy is copied into when the task completes
  deriving Repr, Inhabited

def firstActive (g a : List Int) (f : Flow) : Option Target := (f.ins.filterMap (activeTarget g a)).head?

/-- the instance named by a task reference of an INPUT dependency (first one if the arguments are ranges) -/
def srcInstance (p : Program) (a : List Int) (sc : Nat) (args : List Arg) : Option Instance :=
  match p.classes[sc]? with
  | none => none
  | some scl =>
    ((argTuples p.globals a args).filterMap fun tup =>
      (buildTarget p.globals false scl.locals scl.isParam tup []).map fun env => (⟨sc, env⟩ : Instance)).head?

def tileOf (cfg : Cfg) (k : Int) : Nat := (k % (cfg.tiles : Int)).toNat

def flowD (p : Program) (cfg : Cfg) (insts : List Instance) (tab : List (List FlowD)) (j : Nat) (a : List Int)
    (fi : Nat) (f : Flow) : FlowD :=
  if f.access == .ctl then ⟨none, false, false, false, []⟩ else
  let src : Option Cell × Bool :=
    match firstActive p.globals a f with
    | some (.task sc sf args) =>
        match (srcInstance p a sc args).bind (ixOf insts) with
        | some i => (((tab[i]?).bind (·[sf]?)).bind (·.copy), false)
        | none => (none, false)
    | some (.coll e) => (some (.tile (tileOf cfg (eval p.globals a e))), false)
    | some .new => (some (.fresh j fi), true)
    | _ => (none, false)
  let wbs : List Nat := f.outs.filterMap fun d =>
    match activeTarget p.globals a d with
    | some (.coll e) => if src.1 == some (.tile (tileOf cfg (eval p.globals a e))) then none else some (tileOf cfg (eval p.globals a e))
    | _ => none
  ⟨src.1, f.access == .read || f.access == .rw, f.access == .rw || f.access == .write, src.2,
   if src.1.isSome then wbs else []⟩

/-- flow descriptors of all nodes, in node order (a flow fed by a task holds the copy of that task's flow: the
    table is filled in enumeration order, producers come first in a well-formed program) -/
def nodeFlowsFrom (p : Program) (cfg : Cfg) (insts : List Instance) : List Instance → List (List FlowD) → List (List FlowD)
  | [], tab => tab
  | t :: ts, tab =>
    nodeFlowsFrom p cfg insts ts (tab ++ [match p.classes[t.cls]? with
      | some cl => (enumFrom 0 cl.flows).map fun x => flowD p cfg insts tab tab.length t.env x.1 x.2
      | none => []])

def nodeFlows (p : Program) (cfg : Cfg) : List (List FlowD) :=
  nodeFlowsFrom p cfg (allInstances p) (allInstances p) []

/-! ## The action of a body -/

def getLoc (loc : List (Cell × Nat)) (c : Cell) : Nat := ((loc.find? (fun w => w.1 == c)).map (·.2)).getD 0

/-- last write to `c` in `ws`, else `dflt` -/
def lastW (ws : List (Cell × Nat)) (c : Cell) (dflt : Nat) : Nat := ws.foldl (fun v w => if w.1 = c then w.2 else v) dflt

def piece (fl : List FlowD) (cellOf : Nat → FlowD → Option Cell) (val : Nat → FlowD → Cell → Nat) : List (Cell × Nat) :=
  (enumFrom 0 fl).filterMap fun x => (cellOf x.1 x.2).map fun c => (c, val x.1 x.2 c)

def cNew (_ : Nat) (f : FlowD) : Option Cell := if f.isNew then f.copy else none
def cObs (j : Nat) (fi : Nat) (f : FlowD) : Option Cell := if f.reads || f.writes then some (.obs j fi) else none
def cData (_ : Nat) (f : FlowD) : Option Cell := if f.writes then f.copy else none
def cOut (j : Nat) (fi : Nat) (f : FlowD) : Option Cell := f.copy.map fun _ => .out j fi
def wbPiece (fl : List FlowD) (val : Cell → Nat) : List (Cell × Nat) :=
  fl.flatMap fun f => match f.copy with
    | some c => f.wbs.map fun k => (Cell.tile k, val c)
    | none => []

/-- `H cls flow locals inputs`: the deterministic body function (one value per written flow) -/
abbrev BodyFn := Nat → Nat → List Int → List Nat → Nat

def nodeReads (fl : List FlowD) : List Cell := fl.filterMap (·.copy)

def nodeWrites (H : BodyFn) (j cls : Nat) (env : List Int) (fl : List FlowD) (vs : List Nat) : List (Cell × Nat) :=
  let loc := (nodeReads fl).zip vs
  -- the value the body finds in a flow: 0 in a copy it has just allocated, the content of the copy otherwise
  let val0 (f : FlowD) : Nat := match f.copy with | some c => if f.isNew then 0 else getLoc loc c | none => 0
  let seen (f : FlowD) : Nat := if f.reads then val0 f else 0
  let ins : List Nat := (fl.filter fun f => f.reads || f.writes).map seen
  let w1 := piece fl cNew (fun _ _ _ => 0)
  let w2 := piece fl (cObs j) (fun _ f _ => seen f)
  let w3 := piece fl cData (fun fi _ _ => H cls fi env ins)
  let after (c : Cell) : Nat := lastW (w1 ++ w3) c (getLoc loc c)
  let w4 := piece fl (cOut j) (fun _ f _ => match f.copy with | some c => after c | none => 0)
  w1 ++ w2 ++ w3 ++ w4 ++ wbPiece fl after

def nodeTargets (j : Nat) (fl : List FlowD) : List Cell :=
  (enumFrom 0 fl).filterMap (fun x => cNew x.1 x.2) ++ (enumFrom 0 fl).filterMap (fun x => cObs j x.1 x.2) ++
  (enumFrom 0 fl).filterMap (fun x => cData x.1 x.2) ++ (enumFrom 0 fl).filterMap (fun x => cOut j x.1 x.2) ++
  (fl.flatMap fun f => match f.copy with | some _ => f.wbs.map Cell.tile | none => [])

def nodeD (H : BodyFn) (j : Nat) (t : Instance) (fl : List FlowD) : NodeD :=
  { reads := nodeReads fl, targets := nodeTargets j fl, writes := nodeWrites H j t.cls t.env fl }

def nodeDs (p : Program) (cfg : Cfg) (H : BodyFn) : List NodeD :=
  (enumFrom 0 ((allInstances p).zip (nodeFlows p cfg))).map fun x => nodeD H x.1 x.2.1 x.2.2

/-- initial contents: tile t of the test collection holds 1000 + t (harness/ptg_rt.c) -/
def initHeap : Heap := fun c => match c with | .tile k => 1000 + k | _ => 0

/-! ### list-based heaps for the driver
  A `Heap` is a function (convenient for the proofs: extensionality); compiled, a chain of such closures recomputes the
  writes of every earlier node at every lookup.  The driver therefore runs the same node actions on an association list
  (newest write first); `get_runOrderL` (Proofs/PtgRt2.lean) proves that this computes the same heap. -/

abbrev LHeap := List (Cell × Nat)

def LHeap.get (l : LHeap) (c : Cell) : Nat :=
  match l.find? (fun w => w.1 == c) with
  | some w => w.2
  | none => initHeap c

def NodeD.execL (d : NodeD) (l : LHeap) : LHeap := (d.writes (d.reads.map l.get)).reverse ++ l

def runOrderL (ds : List NodeD) (order : List Nat) (l : LHeap) : LHeap :=
  order.foldl (fun l i => match ds[i]? with | some d => d.execL l | none => l) l

/-- reference sequential interpreter: the bodies in enumeration order (class index, then `internal_init` order) -/
def seqRun (p : Program) (cfg : Cfg) (H : BodyFn) : Heap :=
  runOrder (nodeDs p cfg H) (List.range (allInstances p).length) initHeap

/-- `(j, f, i, sf)`: data flow `f` of node `j` reads the copy passed by flow `sf` of node `i` (its first active input
    names that task) -/
def flowSources (p : Program) (cfg : Cfg) : List (Nat × Nat × Nat × Nat) :=
  let insts := allInstances p
  (enumFrom 0 (insts.zip (nodeFlows p cfg))).flatMap fun x =>
    match p.classes[x.2.1.cls]? with
    | none => []
    | some cl =>
      (enumFrom 0 (cl.flows.zip x.2.2)).filterMap fun y =>
        if y.2.2.reads && y.2.2.copy.isSome then
          match firstActive p.globals x.2.1.env y.2.1 with
          | some (.task sc sf args) => ((srcInstance p x.2.1.env sc args).bind (ixOf insts)).map fun i => (x.1, y.1, i, sf)
          | _ => none
        else none

/-- decidable validity condition "named values": in the sequential execution every input fed by a task holds what that
    task left in the named flow (false when a third task legitimately updates the copy in between) -/
def namedOKB (p : Program) (cfg : Cfg) (H : BodyFn) : Bool :=
  let h := runOrderL (nodeDs p cfg H) (List.range (allInstances p).length) []
  (flowSources p cfg).all fun q => h.get (.obs q.1 q.2.1) == h.get (.out q.2.2.1 q.2.2.2)

/-! ### deferred write-backs (what the communication thread may do)
  `complete_hook` does not copy into the collection itself: it queues a DEP_MEMCPY command; the communication thread
  performs the copy later (reading the source copy THEN).  `deferredRun` = one such behaviour: all bodies of `order` first,
  then all write-backs.  For programs satisfying `asyncSafeB` it cannot be told from the synchronous model; without it the
  sequential-execution statement is false (Props/C02.lean: `C02_final_async_full_false`). -/

/-- the body of a node without its write-backs -/
def nodeBodyD (H : BodyFn) (j : Nat) (t : Instance) (fl : List FlowD) : NodeD :=
  nodeD H j t (fl.map fun f => { f with wbs := [] })

/-- the write-backs of a node executed on their own: tile e := the content the flow's copy has at that moment -/
def nodeWbD (fl : List FlowD) : NodeD :=
  { reads := nodeReads fl,
    targets := fl.flatMap fun f => match f.copy with | some _ => f.wbs.map Cell.tile | none => [],
    writes := fun vs => wbPiece fl (getLoc ((nodeReads fl).zip vs)) }

def deferredRun (p : Program) (cfg : Cfg) (H : BodyFn) (order : List Nat) : Heap :=
  let fls := nodeFlows p cfg
  let bodies := (enumFrom 0 ((allInstances p).zip fls)).map fun x => nodeBodyD H x.1 x.2.1 x.2.2
  runOrder (fls.map nodeWbD) order (runOrder bodies order initHeap)

/-- the nodes of a trace in the order of their completions -/
def endOrder (log : List Dataflow.Ev) : List Nat := log.filterMap fun e => match e with | .end_ i => some i | _ => none

/-- what a run of the machine computes: the bodies applied in completion order -/
def heapOfLog (p : Program) (cfg : Cfg) (H : BodyFn) (log : List Dataflow.Ev) : Heap :=
  runOrder (nodeDs p cfg H) (endOrder log) initHeap

/-! ## Happens-before and race freedom -/

inductive Path (g : Dataflow.Graph) : Nat → Nat → Prop
  | edge {a b : Nat} : (a, b) ∈ g.E → Path g a b
  | step {a z b : Nat} : Path g a z → (z, b) ∈ g.E → Path g a b

/-- any two conflicting bodies are ordered by a chain of dependencies -/
def RaceFree (g : Dataflow.Graph) (ds : List NodeD) : Prop :=
  ∀ i j di dj, ds[i]? = some di → ds[j]? = some dj → i ≠ j → di.conflict dj = true → Path g i j ∨ Path g j i

/-- ancestor table: row j = for every node a, "a reaches j"; filled in node order (edges go forward) -/
def ancRow (g : Dataflow.Graph) (tab : List (List Bool)) (j : Nat) : List Bool :=
  (List.range g.n).map fun a => (Dataflow.predsOf g j).any fun i => i == a || ((tab[i]?).bind (·[a]?)).getD false

def ancTab (g : Dataflow.Graph) : Nat → List (List Bool)
  | 0 => []
  | k + 1 => ancTab g k ++ [ancRow g (ancTab g k) k]

def reaches (tab : List (List Bool)) (a b : Nat) : Bool := ((tab[b]?).bind (·[a]?)).getD false

def raceFreeB (g : Dataflow.Graph) (ds : List NodeD) : Bool :=
  let tab := ancTab g g.n
  (enumFrom 0 ds).all fun x => (enumFrom 0 ds).all fun y =>
    x.1 == y.1 || !(x.2.conflict y.2) || reaches tab x.1 y.1 || reaches tab y.1 x.1

/-! ## Further decidable validity conditions evaluated by the driver on every generated program

  * `asyncSafeB`: the write-back `-> ddesc(e)` from a foreign copy is executed LATER by the communication thread
    (`parsec_remote_dep_memcpy` queues a DEP_MEMCPY command).  The machine applies it when the body ends; this is
    indistinguishable iff nobody touches the source copy or tile e afterwards: every other node that writes the source
    copy, or reads / writes tile e's own copy in a body, reaches the node that writes back.
  * `namedFreshB`: no node strictly between a producer and its consumer (enumeration order) writes the copy that is
    passed: then the consumer's input is the value the NAMED producer left (`seq_named`). -/

def wbSources (fl : List FlowD) : List (Cell × Nat) :=
  fl.flatMap fun f => match f.copy with | some c => f.wbs.map fun k => (c, k) | none => []

def bodyCells (fl : List FlowD) : List Cell := fl.filterMap (·.copy)
def bodyWrites (fl : List FlowD) : List Cell := fl.filterMap fun f => if f.writes || f.isNew then f.copy else none

def asyncSafeB (g : Dataflow.Graph) (fls : List (List FlowD)) : Bool :=
  let tab := ancTab g g.n
  (enumFrom 0 fls).all fun x => (wbSources x.2).all fun ck =>
    (enumFrom 0 fls).all fun y =>
      y.1 == x.1 || reaches tab y.1 x.1 ||
      (!(bodyWrites y.2).contains ck.1 && !(bodyCells y.2).contains (Cell.tile ck.2))

end ParsecVerif.PtgRt
