import ParsecVerif.Model.RbTree
/-! Helper lemmas for C36 (red-black tree), part 2: the in-order traversal of every function of
    the model (rotations and recolourings never change it), sorted-list facts. -/
namespace ParsecVerif.RbTree
open Tree Color

/-- non-strict key order of an in-order traversal (duplicate keys are accepted by `insert`) -/
def Sorted (l : List (Int × Nat)) : Prop := l.Pairwise (fun a b => a.1 ≤ b.1)

/-- list-level insertion: after the last element whose key is ≤ k -/
def insList (k : Int) (z : Nat) : List (Int × Nat) → List (Int × Nat)
  | [] => [(k, z)]
  | a :: l => if k < a.1 then (k, z) :: a :: l else a :: insList k z l

/-- list-level removal of the first element carrying identity z -/
def eraseId (z : Nat) : List (Int × Nat) → List (Int × Nat)
  | [] => []
  | a :: l => if a.2 = z then l else a :: eraseId z l

@[simp] theorem inorder_nil : inorder nil = [] := rfl
@[simp] theorem inorder_node (c l k i r) : inorder (node c l k i r) = inorder l ++ (k, i) :: inorder r := rfl

@[simp] theorem inorder_setColor (c : Color) (t : Tree) : inorder (setColor c t) = inorder t := by
  cases t <;> rfl

@[simp] theorem inorder_rotL (t : Tree) : inorder (rotL t) = inorder t := by
  cases t with
  | nil => rfl
  | node c a k i r => cases r <;> simp [rotL, List.append_assoc]

@[simp] theorem inorder_rotR (t : Tree) : inorder (rotR t) = inorder t := by
  cases t with
  | nil => rfl
  | node c l k i d => cases l <;> simp [rotR, List.append_assoc]

theorem inorder_insFixL (gc : Color) (p : Tree) (gk : Int) (gi : Nat) (y : Tree) (st : IStat) :
    inorder (insFixL gc p gk gi y st).1 = inorder p ++ (gk, gi) :: inorder y := by
  cases st <;> simp only [insFixL] <;> (try split) <;> simp

theorem inorder_insFixR (gc : Color) (y : Tree) (gk : Int) (gi : Nat) (p : Tree) (st : IStat) :
    inorder (insFixR gc y gk gi p st).1 = inorder y ++ (gk, gi) :: inorder p := by
  cases st <;> simp only [insFixR] <;> (try split) <;> simp

theorem insList_append_lt (k : Int) (z : Nat) (a : Int × Nat) (h : k < a.1) :
    ∀ (L R : List (Int × Nat)), insList k z (L ++ a :: R) = insList k z L ++ a :: R
  | [], R => by simp [insList, h]
  | b :: L, R => by
    simp only [List.cons_append, insList]
    split
    · rfl
    · rw [insList_append_lt k z a h L R]; rfl

theorem insList_append_ge (k : Int) (z : Nat) (a : Int × Nat) (h : ¬ k < a.1) :
    ∀ (L R : List (Int × Nat)), (∀ b ∈ L, b.1 ≤ a.1) → insList k z (L ++ a :: R) = L ++ a :: insList k z R
  | [], R, _ => by simp [insList, h]
  | b :: L, R, hL => by
    have hb : ¬ k < b.1 := by have := hL b (by simp); omega
    simp only [List.cons_append, insList, hb, if_false]
    rw [insList_append_ge k z a h L R (fun x hx => hL x (by simp [hx]))]

theorem sorted_append {L R : List (Int × Nat)} : Sorted (L ++ R) ↔ Sorted L ∧ Sorted R ∧ ∀ a ∈ L, ∀ b ∈ R, a.1 ≤ b.1 :=
  List.pairwise_append

theorem sorted_cons {a : Int × Nat} {R : List (Int × Nat)} : Sorted (a :: R) ↔ (∀ b ∈ R, a.1 ≤ b.1) ∧ Sorted R :=
  List.pairwise_cons

/-- on a tree whose traversal is sorted, the tree insertion is the list insertion -/
theorem inorder_ins (k : Int) (z : Nat) : ∀ (t : Tree), Sorted (inorder t) →
    inorder (ins k z t).1 = insList k z (inorder t)
  | nil, _ => rfl
  | node c l x i r, hs => by
    rw [inorder_node, sorted_append, sorted_cons] at hs
    obtain ⟨hl, ⟨hxr, hr⟩, hlr⟩ := hs
    unfold ins
    split
    · rename_i hlt
      rw [inorder_insFixL, inorder_ins k z l hl, inorder_node, insList_append_lt k z (x, i) hlt]
    · rename_i hge
      rw [inorder_insFixR, inorder_ins k z r hr, inorder_node,
        insList_append_ge k z (x, i) hge _ _ (fun b hb => hlr b hb (x, i) (by simp))]

theorem mem_insList (k : Int) (z : Nat) (x : Int × Nat) : ∀ (l : List (Int × Nat)),
    x ∈ insList k z l ↔ x = (k, z) ∨ x ∈ l
  | [] => by simp [insList]
  | a :: l => by
    simp only [insList]
    split
    · simp
    · simp only [List.mem_cons, mem_insList k z x l]
      constructor
      · rintro (h | h | h) <;> simp [h]
      · rintro (h | h | h) <;> simp [h]

theorem sorted_insList (k : Int) (z : Nat) : ∀ (l : List (Int × Nat)), Sorted l → Sorted (insList k z l)
  | [], _ => by simp [insList, Sorted]
  | a :: l, hs => by
    rw [sorted_cons] at hs
    simp only [insList]
    split
    · rename_i hlt
      rw [sorted_cons]
      refine ⟨?_, sorted_cons.2 hs⟩
      intro b hb
      simp only [List.mem_cons] at hb
      rcases hb with rfl | hb
      · exact Int.le_of_lt hlt
      · have := hs.1 b hb; show k ≤ b.1; omega
    · rename_i hge
      rw [sorted_cons]
      refine ⟨?_, sorted_insList k z l hs.2⟩
      intro b hb
      rw [mem_insList] at hb
      rcases hb with rfl | hb
      · show a.1 ≤ k; omega
      · exact hs.1 b hb

theorem insList_perm (k : Int) (z : Nat) : ∀ (l : List (Int × Nat)), (insList k z l).Perm ((k, z) :: l)
  | [] => List.Perm.refl _
  | a :: l => by
    simp only [insList]
    split
    · exact List.Perm.refl _
    · exact ((insList_perm k z l).cons a).trans (List.Perm.swap _ _ _)

/-! ### remove -/

theorem inorder_delFixL2 (pc : Color) (x : Tree) (pk : Int) (pi : Nat) (w : Tree) :
    inorder (delFixL2 pc x pk pi w).1 = inorder x ++ (pk, pi) :: inorder w := by
  cases w with
  | nil => rfl
  | node wc wl wk wi wr =>
    simp only [delFixL2]
    split
    · simp
    · split
      · cases wl <;> simp [List.append_assoc]
      · simp [List.append_assoc]

theorem inorder_delFixR2 (pc : Color) (pk : Int) (pi : Nat) (x : Tree) (w : Tree) :
    inorder (delFixR2 pc pk pi x w).1 = inorder w ++ (pk, pi) :: inorder x := by
  cases w with
  | nil => rfl
  | node wc wl wk wi wr =>
    simp only [delFixR2]
    split
    · simp
    · split
      · cases wr <;> simp [List.append_assoc]
      · simp [List.append_assoc]

theorem inorder_delFixL (pc : Color) (x : Tree) (pk : Int) (pi : Nat) (w : Tree) :
    inorder (delFixL pc x pk pi w).1 = inorder x ++ (pk, pi) :: inorder w := by
  unfold delFixL
  split
  · simp [inorder_delFixL2, List.append_assoc]
  · exact inorder_delFixL2 ..

theorem inorder_delFixR (pc : Color) (pk : Int) (pi : Nat) (x : Tree) (w : Tree) :
    inorder (delFixR pc pk pi x w).1 = inorder w ++ (pk, pi) :: inorder x := by
  unfold delFixR
  split
  · simp [inorder_delFixR2, List.append_assoc]
  · exact inorder_delFixR2 ..

theorem inorder_upL (c : Color) (res : Tree × DStat) (k : Int) (i : Nat) (r : Tree) :
    inorder (upL c res k i r).1 = inorder res.1 ++ (k, i) :: inorder r := by
  unfold upL
  split
  · exact inorder_delFixL ..
  · rfl

theorem inorder_upR (c : Color) (l : Tree) (k : Int) (i : Nat) (res : Tree × DStat) :
    inorder (upR c l k i res).1 = inorder l ++ (k, i) :: inorder res.1 := by
  unfold upR
  split
  · exact inorder_delFixR ..
  · rfl

theorem inorder_splice (c : Color) (x : Tree) : inorder (splice c x).1 = inorder x := by
  unfold splice
  split
  · split <;> simp
  · rfl

theorem minNode_eq_head : ∀ (t : Tree), minNode t = (inorder t).head?
  | nil => rfl
  | node _ nil _ _ _ => rfl
  | node _ (node lc ll lk li lr) k i r => by
    simp only [minNode]
    rw [minNode_eq_head (node lc ll lk li lr)]
    simp [List.head?_append]

theorem getLast?_append_cons {α} (a : α) (R : List α) : ∀ (L : List α), (L ++ a :: R).getLast? = (a :: R).getLast?
  | [] => rfl
  | [b] => by simp [List.getLast?_cons_cons]
  | b :: c :: L => by
    have := getLast?_append_cons a R (c :: L)
    simp only [List.cons_append, List.getLast?_cons_cons] at this ⊢
    exact this

theorem maxNode_eq_getLast : ∀ (t : Tree), maxNode t = (inorder t).getLast?
  | nil => rfl
  | node _ l k i nil => by simp [maxNode]
  | node _ l k i (node rc rl rk ri rr) => by
    simp only [maxNode]
    rw [maxNode_eq_getLast (node rc rl rk ri rr)]
    show (inorder (node rc rl rk ri rr)).getLast? = (inorder l ++ (k, i) :: inorder (node rc rl rk ri rr)).getLast?
    rw [getLast?_append_cons]
    have hne : inorder (node rc rl rk ri rr) ≠ [] := by simp
    generalize inorder (node rc rl rk ri rr) = R at *
    cases R with
    | nil => exact absurd rfl hne
    | cons a R => rw [List.getLast?_cons_cons]

theorem inorder_delMin : ∀ (t : Tree), inorder (delMin t).1 = (inorder t).tail
  | nil => rfl
  | node c nil k i r => by simp [delMin, inorder_splice]
  | node c (node lc ll lk li lr) k i r => by
    simp only [delMin]
    rw [inorder_upL, inorder_delMin (node lc ll lk li lr)]
    simp only [inorder_node]
    generalize inorder ll = A
    cases A <;> simp

theorem inorder_delRoot (c : Color) (l : Tree) (k : Int) (i : Nat) (r : Tree) :
    inorder (delRoot (node c l k i r)).1 = inorder l ++ inorder r := by
  cases l with
  | nil => simp [delRoot, inorder_splice]
  | node lc ll lk li lr =>
    cases r with
    | nil => simp [delRoot, inorder_splice]
    | node rc rl rk ri rr =>
      simp only [delRoot]
      have hm := minNode_eq_head (node rc rl rk ri rr)
      cases hmn : minNode (node rc rl rk ri rr) with
      | none =>
        rw [hmn] at hm
        have : inorder (node rc rl rk ri rr) = [] := by simpa using hm.symm
        simp at this
      | some y =>
        obtain ⟨yk, yi⟩ := y
        simp only []
        rw [inorder_upR, inorder_delMin]
        rw [hmn] at hm
        generalize inorder (node rc rl rk ri rr) = R at *
        cases R with
        | nil => simp at hm
        | cons a R => simp at hm; simp [hm]

theorem hasId_eq_any : ∀ (t : Tree) (z : Nat), hasId z t = (inorder t).any (fun p => p.2 == z)
  | nil, _ => rfl
  | node _ l k i r, z => by
    simp only [hasId, inorder_node, List.any_append, List.any_cons, hasId_eq_any l z, hasId_eq_any r z]
    simp [Bool.or_assoc]

theorem eraseId_append_of_any (z : Nat) : ∀ (L R : List (Int × Nat)), L.any (fun p => p.2 == z) = true →
    eraseId z (L ++ R) = eraseId z L ++ R
  | [], _, h => by simp at h
  | a :: L, R, h => by
    simp only [List.cons_append, eraseId]
    split
    · rfl
    · rename_i hne
      have : L.any (fun p => p.2 == z) = true := by simpa [hne] using h
      rw [eraseId_append_of_any z L R this]; rfl

theorem eraseId_append_of_not_any (z : Nat) : ∀ (L R : List (Int × Nat)), L.any (fun p => p.2 == z) = false →
    eraseId z (L ++ R) = L ++ eraseId z R
  | [], _, _ => rfl
  | a :: L, R, h => by
    simp only [List.any_cons, Bool.or_eq_false_iff, beq_eq_false_iff_ne] at h
    simp only [List.cons_append, eraseId, h.1, if_false]
    rw [eraseId_append_of_not_any z L R h.2]

/-- removing node z from the tree removes exactly (the first occurrence of) z from the traversal -/
theorem inorder_del (z : Nat) : ∀ (t : Tree), inorder (del z t).1 = eraseId z (inorder t)
  | nil => rfl
  | node c l k i r => by
    unfold del
    split
    · rename_i h
      rw [inorder_upL, inorder_del z l, inorder_node, eraseId_append_of_any z _ _ (by rw [← hasId_eq_any]; exact h)]
    · rename_i h
      have h' : (inorder l).any (fun p => p.2 == z) = false := by
        rw [← hasId_eq_any]; simpa using h
      split
      · rename_i hi
        rw [inorder_delRoot, inorder_node, eraseId_append_of_not_any z _ _ h']
        simp [eraseId, hi]
      · rename_i hi
        rw [inorder_upR, inorder_del z r, inorder_node, eraseId_append_of_not_any z _ _ h']
        simp [eraseId, hi]

theorem inorder_remove (t : Tree) (z : Nat) : inorder (remove t z) = eraseId z (inorder t) := by
  unfold remove
  split <;> simp [inorder_del]

theorem eraseId_sublist (z : Nat) : ∀ (l : List (Int × Nat)), (eraseId z l).Sublist l
  | [] => List.Sublist.slnil
  | a :: l => by
    simp only [eraseId]
    split
    · exact List.sublist_cons_self a l
    · exact (eraseId_sublist z l).cons_cons a

theorem sorted_eraseId (z : Nat) (l : List (Int × Nat)) (h : Sorted l) : Sorted (eraseId z l) :=
  List.Pairwise.sublist (eraseId_sublist z l) h

/-! ### queries -/

theorem sorted_node {c l k i r} (h : Sorted (inorder (node c l k i r))) :
    Sorted (inorder l) ∧ Sorted (inorder r) ∧ (∀ p ∈ inorder l, p.1 ≤ k) ∧ (∀ p ∈ inorder r, k ≤ p.1) := by
  rw [inorder_node, sorted_append, sorted_cons] at h
  exact ⟨h.1, h.2.1.2, fun p hp => h.2.2 p hp (k, i) (by simp), h.2.1.1⟩

theorem find_spec (q : Int) : ∀ (t : Tree), Sorted (inorder t) →
    (∀ p, find q t = some p → p.1 = q ∧ p ∈ inorder t) ∧
    (find q t = none → ∀ p ∈ inorder t, p.1 ≠ q)
  | nil, _ => by simp [find]
  | node c l k i r, hs => by
    obtain ⟨hl, hr, hlk, hkr⟩ := sorted_node hs
    have ihl := find_spec q l hl
    have ihr := find_spec q r hr
    unfold find
    split
    · rename_i hk
      subst hk
      simp
    · rename_i hk
      split
      · rename_i hlt
        refine ⟨fun p hp => ⟨(ihr.1 p hp).1, by simp [(ihr.1 p hp).2]⟩, ?_⟩
        intro hnone p hp
        simp only [inorder_node, List.mem_append, List.mem_cons] at hp
        rcases hp with hp | rfl | hp
        · have := hlk p hp; omega
        · exact hk
        · exact ihr.2 hnone p hp
      · rename_i hge
        refine ⟨fun p hp => ⟨(ihl.1 p hp).1, by simp [(ihl.1 p hp).2]⟩, ?_⟩
        intro hnone p hp
        simp only [inorder_node, List.mem_append, List.mem_cons] at hp
        rcases hp with hp | rfl | hp
        · exact ihl.2 hnone p hp
        · exact hk
        · have := hkr p hp; omega

theorem folAux_spec (q : Int) : ∀ (t : Tree) (larger : Option (Int × Nat)), Sorted (inorder t) →
    ((∀ p ∈ inorder t, p.1 < q) → folAux q larger t = larger) ∧
    ((∃ p ∈ inorder t, q ≤ p.1) → ∃ m, folAux q larger t = some m ∧ m ∈ inorder t ∧ q ≤ m.1 ∧
        ∀ p ∈ inorder t, q ≤ p.1 → m.1 ≤ p.1)
  | nil, larger, _ => by simp [folAux]
  | node c l k i r, larger, hs => by
    obtain ⟨hl, hr, hlk, hkr⟩ := sorted_node hs
    unfold folAux
    split
    · rename_i hk
      subst hk
      constructor
      · intro hall
        have := hall (k, i) (by simp)
        simp at this
      · intro _
        refine ⟨(k, i), rfl, by simp, Int.le_refl _, ?_⟩
        intro p hp hq
        simp only [inorder_node, List.mem_append, List.mem_cons] at hp
        rcases hp with hp | rfl | hp
        · have := hlk p hp; show k ≤ p.1; omega
        · exact Int.le_refl _
        · exact hkr p hp
    · rename_i hk
      split
      · rename_i hlt
        have ih := folAux_spec q r larger hr
        constructor
        · intro hall
          exact ih.1 (fun p hp => hall p (by simp [hp]))
        · rintro ⟨p, hp, hq⟩
          simp only [inorder_node, List.mem_append, List.mem_cons] at hp
          have hpr : p ∈ inorder r := by
            rcases hp with hp | rfl | hp
            · have := hlk p hp; omega
            · simp at hq; omega
            · exact hp
          obtain ⟨m, hm, hmem, hqm, hmin⟩ := ih.2 ⟨p, hpr, hq⟩
          refine ⟨m, hm, by simp [hmem], hqm, ?_⟩
          intro p' hp' hq'
          simp only [inorder_node, List.mem_append, List.mem_cons] at hp'
          rcases hp' with hp' | rfl | hp'
          · have := hlk p' hp'; omega
          · simp at hq'; omega
          · exact hmin p' hp' hq'
      · rename_i hge
        have hqk : q < k := by omega
        have ih := folAux_spec q l (some (k, i)) hl
        constructor
        · intro hall
          have := hall (k, i) (by simp)
          simp at this; omega
        · intro _
          by_cases hex : ∃ p ∈ inorder l, q ≤ p.1
          · obtain ⟨m, hm, hmem, hqm, hmin⟩ := ih.2 hex
            refine ⟨m, hm, by simp [hmem], hqm, ?_⟩
            intro p' hp' hq'
            simp only [inorder_node, List.mem_append, List.mem_cons] at hp'
            have hmk := hlk m hmem
            rcases hp' with hp' | rfl | hp'
            · exact hmin p' hp' hq'
            · exact hmk
            · have := hkr p' hp'; omega
          · have hall : ∀ p ∈ inorder l, p.1 < q := by
              intro p hp
              by_cases h : p.1 < q
              · exact h
              · exact absurd ⟨p, hp, by omega⟩ hex
            refine ⟨(k, i), ih.1 hall, by simp, by show q ≤ k; omega, ?_⟩
            intro p' hp' hq'
            simp only [inorder_node, List.mem_append, List.mem_cons] at hp'
            rcases hp' with hp' | rfl | hp'
            · have := hall p' hp'; omega
            · exact Int.le_refl _
            · exact hkr p' hp'

/-! ### update_node: the neighbour walks, on the traversal -/

/-- key of the element before the first element with identity z (`anc` if it is the first) -/
def predL (z : Nat) : Option Int → List (Int × Nat) → Option Int
  | _, [] => none
  | anc, a :: l => if a.2 = z then anc else predL z (some a.1) l

/-- key of the element after the first element with identity z (`anc` if it is the last) -/
def succL (z : Nat) (anc : Option Int) : List (Int × Nat) → Option Int
  | [] => none
  | a :: l => if a.2 = z then (match l with | [] => anc | b :: _ => some b.1) else succL z anc l

def setKeyL (z : Nat) (new : Int) : List (Int × Nat) → List (Int × Nat)
  | [] => []
  | a :: l => if a.2 = z then (new, z) :: l else a :: setKeyL z new l

def keyOfL (z : Nat) : List (Int × Nat) → Option Int
  | [] => none
  | a :: l => if a.2 = z then some a.1 else keyOfL z l

abbrev anyId (z : Nat) (l : List (Int × Nat)) : Bool := l.any (fun p => p.2 == z)

theorem anyId_cons_false {z : Nat} {a : Int × Nat} {l : List (Int × Nat)} (h : anyId z (a :: l) = false) :
    a.2 ≠ z ∧ anyId z l = false := by
  simpa [anyId] using h

theorem predL_append_of_any (z : Nat) : ∀ (L R : List (Int × Nat)) (anc : Option Int), anyId z L = true →
    predL z anc (L ++ R) = predL z anc L
  | [], _, _, h => by simp at h
  | a :: L, R, anc, h => by
    simp only [List.cons_append, predL]
    split
    · rfl
    · rename_i hne
      exact predL_append_of_any z L R _ (by simpa [anyId, hne] using h)

theorem predL_append_of_not_any (z : Nat) : ∀ (L R : List (Int × Nat)) (anc : Option Int), anyId z L = false →
    predL z anc (L ++ R) = predL z ((L.getLast?.map (·.1)).or anc) R
  | [], _, _, _ => by simp
  | [a], R, anc, h => by
    have := anyId_cons_false h
    simp [predL, this.1]
  | a :: b :: L, R, anc, h => by
    have h1 := anyId_cons_false h
    have ih := predL_append_of_not_any z (b :: L) R (some a.1) h1.2
    simp only [List.cons_append, predL, h1.1, if_false] at ih ⊢
    rw [ih, List.getLast?_cons_cons]
    cases hl : (b :: L).getLast? with
    | none => simp at hl
    | some x => simp

theorem succL_append_of_any (z : Nat) (b : Int × Nat) : ∀ (L R : List (Int × Nat)) (anc : Option Int), anyId z L = true →
    succL z anc (L ++ b :: R) = succL z (some b.1) L
  | [], _, _, h => by simp at h
  | a :: L, R, anc, h => by
    simp only [List.cons_append, succL]
    split
    · cases L <;> rfl
    · rename_i hne
      exact succL_append_of_any z b L R _ (by simpa [anyId, hne] using h)

theorem succL_append_of_not_any (z : Nat) : ∀ (L R : List (Int × Nat)) (anc : Option Int), anyId z L = false →
    succL z anc (L ++ R) = succL z anc R
  | [], _, _, _ => rfl
  | a :: L, R, anc, h => by
    have h1 := anyId_cons_false h
    simp only [List.cons_append, succL, h1.1, if_false]
    exact succL_append_of_not_any z L R anc h1.2

theorem setKeyL_append_of_any (z : Nat) (new : Int) : ∀ (L R : List (Int × Nat)), anyId z L = true →
    setKeyL z new (L ++ R) = setKeyL z new L ++ R
  | [], _, h => by simp at h
  | a :: L, R, h => by
    simp only [List.cons_append, setKeyL]
    split
    · rfl
    · rename_i hne
      rw [setKeyL_append_of_any z new L R (by simpa [anyId, hne] using h)]; rfl

theorem setKeyL_append_of_not_any (z : Nat) (new : Int) : ∀ (L R : List (Int × Nat)), anyId z L = false →
    setKeyL z new (L ++ R) = L ++ setKeyL z new R
  | [], _, _ => rfl
  | a :: L, R, h => by
    have h1 := anyId_cons_false h
    simp only [List.cons_append, setKeyL, h1.1, if_false]
    rw [setKeyL_append_of_not_any z new L R h1.2]

theorem anyId_inorder (z : Nat) (t : Tree) : anyId z (inorder t) = hasId z t := (hasId_eq_any t z).symm

theorem predKey_eq (z : Nat) : ∀ (t : Tree) (anc : Option Int), hasId z t = true →
    predKey z anc t = predL z anc (inorder t)
  | nil, _, h => by simp [hasId] at h
  | node c l k i r, anc, h => by
    unfold predKey
    split
    · rename_i hl
      rw [predKey_eq z l anc hl, inorder_node, predL_append_of_any z _ _ _ (by rw [anyId_inorder]; exact hl)]
    · rename_i hl
      have hl' : anyId z (inorder l) = false := by rw [anyId_inorder]; simpa using hl
      rw [inorder_node, predL_append_of_not_any z _ _ _ hl']
      split
      · rename_i hi
        simp only [predL, hi, if_true]
        rw [maxNode_eq_getLast]
        cases (inorder l).getLast? <;> rfl
      · rename_i hi
        have hr : hasId z r = true := by
          simp only [hasId, Bool.or_eq_true, beq_iff_eq] at h
          rcases h with (h | h) | h
          · exact absurd h hl
          · exact absurd h hi
          · exact h
        simp only [predL, hi, if_false]
        exact predKey_eq z r (some k) hr

theorem succKey_eq (z : Nat) : ∀ (t : Tree) (anc : Option Int), hasId z t = true →
    succKey z anc t = succL z anc (inorder t)
  | nil, _, h => by simp [hasId] at h
  | node c l k i r, anc, h => by
    unfold succKey
    split
    · rename_i hl
      rw [succKey_eq z l (some k) hl, inorder_node, succL_append_of_any z (k, i) _ _ _ (by rw [anyId_inorder]; exact hl)]
    · rename_i hl
      have hl' : anyId z (inorder l) = false := by rw [anyId_inorder]; simpa using hl
      rw [inorder_node, succL_append_of_not_any z _ _ _ hl']
      split
      · rename_i hi
        simp only [succL, hi, if_true]
        rw [minNode_eq_head]
        cases inorder r <;> rfl
      · rename_i hi
        have hr : hasId z r = true := by
          simp only [hasId, Bool.or_eq_true, beq_iff_eq] at h
          rcases h with (h | h) | h
          · exact absurd h hl
          · exact absurd h hi
          · exact h
        simp only [succL, hi, if_false]
        exact succKey_eq z r anc hr

theorem inorder_setKey (z : Nat) (new : Int) : ∀ (t : Tree), inorder (setKey z new t) = setKeyL z new (inorder t)
  | nil => rfl
  | node c l k i r => by
    unfold setKey
    split
    · rename_i hl
      rw [inorder_node, inorder_node, inorder_setKey z new l,
        setKeyL_append_of_any z new _ _ (by rw [anyId_inorder]; exact hl)]
    · rename_i hl
      have hl' : anyId z (inorder l) = false := by rw [anyId_inorder]; simpa using hl
      split
      · rename_i hi
        rw [inorder_node, inorder_node, setKeyL_append_of_not_any z new _ _ hl']
        simp [setKeyL, hi]
      · rename_i hi
        rw [inorder_node, inorder_node, inorder_setKey z new r, setKeyL_append_of_not_any z new _ _ hl']
        simp [setKeyL, hi]

/-- decomposition of a traversal at the first element with identity z -/
theorem split_at_id (z : Nat) : ∀ (l : List (Int × Nat)), anyId z l = true →
    ∃ L k R, l = L ++ (k, z) :: R ∧ anyId z L = false
  | [], h => by simp at h
  | a :: l, h => by
    by_cases ha : a.2 = z
    · exact ⟨[], a.1, l, by simp [← ha], rfl⟩
    · obtain ⟨L, k, R, hl, hL⟩ := split_at_id z l (by simpa [anyId, ha] using h)
      exact ⟨a :: L, k, R, by simp [hl], by simp [anyId, ha]; simpa [anyId] using hL⟩

theorem predL_split (z : Nat) (L R : List (Int × Nat)) (k : Int) (hL : anyId z L = false) :
    predL z none (L ++ (k, z) :: R) = L.getLast?.map (·.1) := by
  rw [predL_append_of_not_any z L _ none hL]
  simp [predL]

theorem succL_split (z : Nat) (L R : List (Int × Nat)) (k : Int) (hL : anyId z L = false) :
    succL z none (L ++ (k, z) :: R) = R.head?.map (·.1) := by
  rw [succL_append_of_not_any z L _ none hL]
  cases R <;> simp [succL]

theorem eraseId_split (z : Nat) (L R : List (Int × Nat)) (k : Int) (hL : anyId z L = false) :
    eraseId z (L ++ (k, z) :: R) = L ++ R := by
  rw [eraseId_append_of_not_any z L _ hL]; simp [eraseId]

theorem setKeyL_split (z : Nat) (new : Int) (L R : List (Int × Nat)) (k : Int) (hL : anyId z L = false) :
    setKeyL z new (L ++ (k, z) :: R) = L ++ (new, z) :: R := by
  rw [setKeyL_append_of_not_any z new L _ hL]; simp [setKeyL]

theorem sorted_last_le {L : List (Int × Nat)} {a : Int × Nat} (h : Sorted L) (ha : L.getLast? = some a) :
    ∀ x ∈ L, x.1 ≤ a.1 := by
  rcases List.eq_nil_or_concat L with rfl | ⟨L', b, rfl⟩
  · simp
  · rw [List.concat_eq_append] at ha h ⊢
    simp at ha
    subst ha
    rw [sorted_append] at h
    intro x hx
    simp only [List.mem_append, List.mem_singleton] at hx
    rcases hx with hx | rfl
    · exact h.2.2 x hx b (by simp)
    · exact Int.le_refl _

/-- the neighbour tests of `update_node` decide correctly on a sorted traversal
    `L ++ (k, z) :: R` (z not in L): EXISTS only for a key carried by another node; in-place only
    when the new key fits strictly between the neighbours; otherwise the new key differs from
    z's own key (so the following `find` looks for another node). -/
theorem updDecide_spec (z : Nat) (new : Int) (L R : List (Int × Nat)) (k : Int)
    (hs : Sorted (L ++ (k, z) :: R)) :
    (updDecide (L.getLast?.map (·.1)) (R.head?.map (·.1)) new = none → new ∈ (L ++ R).map (·.1)) ∧
    (updDecide (L.getLast?.map (·.1)) (R.head?.map (·.1)) new = some false →
        new ∉ (L ++ R).map (·.1) ∧ Sorted (L ++ (new, z) :: R)) ∧
    (updDecide (L.getLast?.map (·.1)) (R.head?.map (·.1)) new = some true → new ≠ k) := by
  rw [sorted_append, sorted_cons] at hs
  obtain ⟨hL, ⟨hkR, hR⟩, hLR⟩ := hs
  have hLk : ∀ x ∈ L, x.1 ≤ k := fun x hx => hLR x hx (k, z) (by simp)
  -- facts about the predecessor
  have hpred : ∀ a, L.getLast? = some a → a ∈ L ∧ ∀ x ∈ L, x.1 ≤ a.1 :=
    fun a ha => ⟨List.mem_of_getLast? ha, sorted_last_le hL ha⟩
  have hsucc : ∀ b, R.head? = some b → b ∈ R ∧ ∀ x ∈ R, b.1 ≤ x.1 := by
    intro b hb
    cases R with
    | nil => simp at hb
    | cons c R' =>
      simp at hb; subst hb
      rw [sorted_cons] at hR
      refine ⟨by simp, ?_⟩
      intro x hx
      simp only [List.mem_cons] at hx
      rcases hx with rfl | hx
      · exact Int.le_refl _
      · exact hR.1 x hx
  have hnoL : L.getLast? = none → L = [] := by
    intro h; simpa using h
  have hnoR : R.head? = none → R = [] := by
    intro h; simpa using h
  unfold updDecide
  cases hp : L.getLast? with
  | none =>
    have := hnoL hp; subst this
    cases hq : R.head? with
    | none =>
      have := hnoR hq; subst this
      simp [Sorted]
    | some b =>
      obtain ⟨hbR, hbmin⟩ := hsucc b hq
      simp only [Option.map_some, Option.map_none, List.nil_append]
      by_cases h1 : b.1 = new
      · simp [h1]; exact ⟨b.2, by rw [← h1]; exact hbR⟩
      · simp only [Option.some.injEq, h1, if_false, reduceCtorEq]
        refine ⟨by simp, ?_, ?_⟩
        · intro hd
          have hd' : ¬ b.1 < new := by simpa using hd
          refine ⟨?_, sorted_cons.2 ⟨fun x hx => by have := hbmin x hx; show new ≤ x.1; omega, hR⟩⟩
          intro hmem
          simp only [List.mem_map] at hmem
          obtain ⟨x, hx, hxn⟩ := hmem
          have := hbmin x hx; omega
        · intro hd
          have hd' : b.1 < new := by simpa using hd
          have := hkR b hbR
          show new ≠ k; simp at this; omega
  | some a =>
    obtain ⟨haL, hamax⟩ := hpred a hp
    have hak := hLk a haL
    simp only [Option.map_some]
    by_cases h0 : a.1 = new
    · simp [h0]; exact Or.inl ⟨a.2, by rw [← h0]; exact haL⟩
    · simp only [Option.some.injEq, h0, if_false]
      by_cases h1 : new < a.1
      · simp only [h1, decide_true, if_true]
        refine ⟨by simp, by simp, ?_⟩
        intro _; omega
      · simp only [h1, decide_false, Bool.false_eq_true, if_false]
        have hnL : new ∉ L.map (·.1) := by
          intro hmem
          simp only [List.mem_map] at hmem
          obtain ⟨x, hx, hxn⟩ := hmem
          have := hamax x hx; omega
        have hLnew : ∀ x ∈ L, x.1 ≤ new := fun x hx => by have := hamax x hx; omega
        cases hq : R.head? with
        | none =>
          have := hnoR hq; subst this
          simp only [Option.map_none, reduceCtorEq, if_false, List.append_nil]
          refine ⟨by simp, ?_, by simp⟩
          intro _
          refine ⟨hnL, sorted_append.2 ⟨hL, by simp [Sorted], ?_⟩⟩
          intro x hx y hy
          simp only [List.mem_singleton] at hy; subst hy
          exact hLnew x hx
        | some b =>
          obtain ⟨hbR, hbmin⟩ := hsucc b hq
          simp only [Option.map_some]
          by_cases h2 : b.1 = new
          · simp [h2]; exact Or.inr ⟨b.2, by rw [← h2]; exact hbR⟩
          · simp only [Option.some.injEq, h2, if_false]
            refine ⟨by simp, ?_, ?_⟩
            · intro hd
              have hd' : ¬ b.1 < new := by simpa using hd
              have hnR : new ∉ R.map (·.1) := by
                intro hmem
                simp only [List.mem_map] at hmem
                obtain ⟨x, hx, hxn⟩ := hmem
                have := hbmin x hx; omega
              refine ⟨by simp only [List.map_append, List.mem_append]; exact fun h => h.elim hnL hnR, ?_⟩
              refine sorted_append.2 ⟨hL, sorted_cons.2 ⟨fun x hx => by have := hbmin x hx; show new ≤ x.1; omega, hR⟩, ?_⟩
              intro x hx y hy
              simp only [List.mem_cons] at hy
              rcases hy with rfl | hy
              · exact hLnew x hx
              · exact hLR x hx y (by simp [hy])
            · intro hd
              have hd' : b.1 < new := by simpa using hd
              have := hkR b hbR
              show new ≠ k; simp at this; omega

end ParsecVerif.RbTree
