import ParsecVerif.Proofs.FourCounterA3
/-
  Deliveries of control messages keep a quiescent state quiescent.
-/
namespace ParsecVerif.FourCounter

theorem sendUp_app (s : State) (me : Nat) : cnt isApp (sendUp s me).net = cnt isApp s.net := by
  unfold sendUp; split
  · simp [rootDecide, cnt_app_downs]
  · simp [sampleUp, isApp]

theorem sendUp_q (s : State) (me : Nat) (h : qOK (s.procs me)) : qOK ((sendUp s me).procs me) := by
  unfold sendUp; split
  · rename_i h0; subst h0
    simp only [rootDecide, upd_same]
    unfold rootAfter
    split
    · exact ⟨Or.inr (Or.inr rfl), h.2.1, h.2.2⟩
    · exact ⟨h.1, h.2.1, h.2.2⟩
  · simp only [sampleUp, upd_same]
    exact ⟨Or.inr (Or.inl rfl), h.2.1, h.2.2⟩

theorem checkMsg_app (s : State) (me : Nat) : cnt isApp (checkMsg s me).net = cnt isApp s.net := by
  unfold checkMsg; split
  · exact sendUp_app s me
  · rfl

theorem checkMsg_q (s : State) (me : Nat) (h : qOK (s.procs me)) : qOK ((checkMsg s me).procs me) := by
  unfold checkMsg; split
  · exact sendUp_q s me h
  · exact h

theorem quiescent_deliver {s s' : State} (h : Inv s) (hq : Quiescent s) {k : Nat}
    (hs : step s (.deliver k) = some s') : Quiescent s' := by
  have hn := step_n hs
  suffices hk : (∃ me, (∀ q, q ≠ me → s'.procs q = s.procs q) ∧ (me < s.n → qOK (s'.procs me))) ∧
      cnt isApp s'.net = cnt isApp s.net by
    obtain ⟨⟨me, ho, hg⟩, ha⟩ := hk
    refine ⟨fun q hqn => ?_, by rw [ha]; exact hq.2⟩
    rw [hn] at hqn
    by_cases e : q = me
    · subst e; exact hg hqn
    · rw [ho q e]; exact hq.1 q hqn
  simp only [FourCounter.step] at hs
  split at hs
  · cases hs
  · rename_i pk hk
    have herase : ∀ f : Packet → Bool, f pk = false → cnt f (s.net.eraseIdx k) = cnt f s.net := by
      intro f hf; have := cnt_eraseIdx f hk; rw [hf] at this; simpa using this
    split at hs
    · rename_i hdst
      split at hs
      · cases hs
      · rename_i a b hkind
        have happ : isApp pk = false := by simp [isApp, hkind]
        split at hs
        · split at hs <;> cases hs
          exact ⟨⟨pk.dst, fun _ _ => rfl, fun hh => hq.1 _ hh⟩, cnt_hold _ hk (isApp_held pk)⟩
        · cases hs
          refine ⟨⟨pk.dst, fun r e => ?_, fun hh => ?_⟩, ?_⟩
          · unfold msgUp; rw [checkMsg_other _ e]; simp [setP, e]
          · unfold msgUp; apply checkMsg_q
            have := hq.1 _ hh
            simpa [setP, qOK, Proc.wl] using this
          · unfold msgUp; rw [checkMsg_app]; simpa [setP] using herase isApp happ
      · rename_i res hkind
        have happ : isApp pk = false := by simp [isApp, hkind]
        split at hs
        · split at hs <;> cases hs
          exact ⟨⟨pk.dst, fun _ _ => rfl, fun hh => hq.1 _ hh⟩, cnt_hold _ hk (isApp_held pk)⟩
        · rename_i hnr
          cases hs
          have hnr' : cls (s.procs pk.dst).st ≠ 0 := fun e => hnr (cls_eq_0.1 e)
          refine ⟨⟨pk.dst, fun r e => ?_, fun hh => ?_⟩, ?_⟩
          · unfold msgDown
            split
            · simp [setP, push, e]
            · split
              · rw [checkMsg_other _ e]; simp [setP, push, e]
              · simp [setP, push, e]
          · have old := hq.1 _ hh
            unfold msgDown
            split
            · simp only [setP, push, upd_same]
              exact ⟨Or.inr (Or.inr rfl), old.2.1, old.2.2⟩
            · rename_i hres
              have hres' : res = false := by cases res <;> simp_all
              subst hres'
              split
              · apply checkMsg_q
                simp only [setP, push, upd_same]
                exact ⟨Or.inl rfl, old.2.1, old.2.2⟩
              · rename_i hip
                exfalso
                have := (h.st.downF (v := { s.procs pk.dst with accS := 0, accR := 0, st := .busyWC })
                  hk hkind hnr' rfl rfl rfl rfl).2.1
                rcases old.1 with t | t | t
                · rw [t] at this; simp [cls] at this
                · exact hip t
                · rw [t] at this; simp [cls] at this
          · unfold msgDown
            split
            · simpa [setP, push, cnt_app_downs] using herase isApp happ
            · split
              · rw [checkMsg_app]; simpa [setP, push, cnt_app_downs] using herase isApp happ
              · simpa [setP, push, cnt_app_downs] using herase isApp happ
    · cases hs

/-! ### the composite taskpool_ready stays inside the reachable states -/

theorem replay_reach {n : Nat} (p : Nat) (f : Nat) {s : State} (h : Reach n s) : Reach n (replay p f s) := by
  induction f generalizing s with
  | zero => exact h
  | succ f ih =>
    unfold replay
    split
    · exact h
    · rename_i k _
      split
      · rename_i s' hs'; exact ih (Reach.step _ h hs')
      · exact h

theorem readyFull_reach {n : Nat} {s s' : State} {p : Nat} (h : Reach n s) (hs : readyFull s p = some s') :
    Reach n s' := by
  unfold readyFull at hs
  split at hs
  · rename_i s1 h1
    cases hs
    exact replay_reach p _ (Reach.step _ h h1)
  · cases hs

end ParsecVerif.FourCounter
