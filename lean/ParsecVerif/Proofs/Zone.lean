import ParsecVerif.Model.Zone
/-! Helper lemmas for C28 (zone allocator): the sorted map standing for the rb-tree. -/
namespace ParsecVerif.Zone

/-! ### flFind after each primitive -/

def Sorted (fl : FL) : Prop := fl.Pairwise (fun a b => a.1 < b.1)

theorem flFind_none_of_lt (fl : FL) (x : Nat) (h : ∀ e ∈ fl, x < e.1) : flFind fl x = none := by
  induction fl with
  | nil => rfl
  | cons e r ih =>
    obtain ⟨k, b⟩ := e
    have h1 := h (k, b) (List.mem_cons_self)
    simp only [flFind]
    rw [if_neg (by simp at h1; omega)]
    exact ih (fun e he => h e (List.mem_cons_of_mem _ he))

theorem flFind_set (fl : FL) (k x : Nat) (b : List Nat) :
    flFind (flSet fl k b) x = if x = k then (flFind fl k).map (fun _ => b) else flFind fl x := by
  induction fl with
  | nil => simp [flSet, flFind]
  | cons e r ih =>
    obtain ⟨k', b'⟩ := e
    by_cases h1 : k' = k <;> by_cases h2 : k' = x <;> by_cases h3 : x = k <;>
      simp_all [flSet, flFind] <;> omega

theorem flFind_remove (fl : FL) (hs : Sorted fl) (k x : Nat) :
    flFind (flRemoveKey fl k) x = if x = k then none else flFind fl x := by
  induction fl with
  | nil => simp [flRemoveKey, flFind]
  | cons e r ih =>
    obtain ⟨k', b'⟩ := e
    have hs' : Sorted r := (List.pairwise_cons.1 hs).2
    have hlt : ∀ e ∈ r, k' < e.1 := (List.pairwise_cons.1 hs).1
    have := flFind_none_of_lt r k' hlt
    have ih' := ih hs'
    by_cases h1 : k' = k <;> by_cases h2 : k' = x <;> by_cases h3 : x = k <;>
      simp_all [flRemoveKey, flFind] <;> omega

theorem flFind_insert (fl : FL) (k x : Nat) (b : List Nat) (hk : flFind fl k = none) :
    flFind (flInsert fl k b) x = if x = k then some b else flFind fl x := by
  induction fl with
  | nil =>
    by_cases h : k = x <;> simp_all [flInsert, flFind] <;> omega
  | cons e r ih =>
    obtain ⟨k', b'⟩ := e
    simp only [flFind] at hk
    have hne : k' ≠ k := by intro h; rw [if_pos h] at hk; exact absurd hk (by simp)
    rw [if_neg hne] at hk
    have ih' := ih hk
    simp only [flInsert]
    split
    · simp only [flFind]
      repeat' split
      all_goals first | rfl | omega | simp_all
    · simp only [flFind, ih']
      repeat' split
      all_goals first | rfl | omega | simp_all

theorem keys_set (fl : FL) (k : Nat) (b : List Nat) : (flSet fl k b).map (·.1) = fl.map (·.1) := by
  induction fl with
  | nil => rfl
  | cons e r ih =>
    obtain ⟨k', b'⟩ := e
    simp only [flSet]
    by_cases h : k' = k
    · subst h; simp
    · rw [if_neg h]; simp [ih]

theorem sorted_iff_keys (fl : FL) : Sorted fl ↔ (fl.map (·.1)).Pairwise (· < ·) := by
  unfold Sorted
  rw [List.pairwise_map]

theorem sorted_set (fl : FL) (hs : Sorted fl) (k : Nat) (b : List Nat) : Sorted (flSet fl k b) := by
  rw [sorted_iff_keys] at *
  rw [keys_set]; exact hs

theorem remove_sublist (fl : FL) (k : Nat) : (flRemoveKey fl k).Sublist fl := by
  induction fl with
  | nil => exact List.Sublist.slnil
  | cons e r ih =>
    obtain ⟨k', b'⟩ := e
    simp only [flRemoveKey]
    by_cases h : k' = k
    · rw [if_pos h]; exact List.sublist_cons_self _ _
    · rw [if_neg h]; exact ih.cons_cons _

theorem sorted_remove (fl : FL) (hs : Sorted fl) (k : Nat) : Sorted (flRemoveKey fl k) :=
  List.Pairwise.sublist (remove_sublist fl k) hs

theorem mem_insert (fl : FL) (k : Nat) (b : List Nat) (e : Nat × List Nat) :
    e ∈ flInsert fl k b ↔ e = (k, b) ∨ e ∈ fl := by
  induction fl with
  | nil => simp [flInsert]
  | cons e' r ih =>
    obtain ⟨k', b'⟩ := e'
    simp only [flInsert]
    by_cases h : k < k'
    · rw [if_pos h]; simp
    · rw [if_neg h]; simp only [List.mem_cons, ih]
      constructor
      · rintro (h | h | h) <;> simp [h]
      · rintro (h | h | h) <;> simp [h]

theorem sorted_insert (fl : FL) (hs : Sorted fl) (k : Nat) (b : List Nat) (hk : flFind fl k = none) :
    Sorted (flInsert fl k b) := by
  induction fl with
  | nil => simp [flInsert, Sorted]
  | cons e r ih =>
    obtain ⟨k', b'⟩ := e
    have hs' : Sorted r := (List.pairwise_cons.1 hs).2
    have hlt : ∀ e ∈ r, k' < e.1 := (List.pairwise_cons.1 hs).1
    simp only [flFind] at hk
    have hne : k' ≠ k := by intro h; rw [if_pos h] at hk; exact absurd hk (by simp)
    rw [if_neg hne] at hk
    simp only [flInsert]
    by_cases h1 : k < k'
    · rw [if_pos h1]
      refine List.pairwise_cons.2 ⟨?_, hs⟩
      intro e he
      rcases List.mem_cons.1 he with rfl | he
      · exact h1
      · have := hlt e he; simp only at this ⊢; omega
    · rw [if_neg h1]
      refine List.pairwise_cons.2 ⟨?_, ih hs' hk⟩
      intro e he
      rcases (mem_insert r k b e).1 he with rfl | he
      · simp only; omega
      · exact hlt e he

/-! ### find_or_larger on a sorted map: the smallest key that suffices -/

theorem flFind_of_mem (fl : FL) (hs : Sorted fl) (k : Nat) (b : List Nat) (h : (k, b) ∈ fl) :
    flFind fl k = some b := by
  induction fl with
  | nil => simp at h
  | cons e r ih =>
    obtain ⟨k', b'⟩ := e
    have hs' : Sorted r := (List.pairwise_cons.1 hs).2
    have hlt : ∀ e ∈ r, k' < e.1 := (List.pairwise_cons.1 hs).1
    simp only [flFind]
    rcases List.mem_cons.1 h with h | h
    · injection h with h1 h2; subst h1; subst h2; simp
    · have := hlt _ h
      rw [if_neg (by simp only at this; omega)]
      exact ih hs' h

theorem mem_of_flFind (fl : FL) (k : Nat) (b : List Nat) (h : flFind fl k = some b) : (k, b) ∈ fl := by
  induction fl with
  | nil => simp [flFind] at h
  | cons e r ih =>
    obtain ⟨k', b'⟩ := e
    simp only [flFind] at h
    by_cases h1 : k' = k
    · rw [if_pos h1] at h; injection h with h; subst h; subst h1; exact List.mem_cons_self
    · rw [if_neg h1] at h; exact List.mem_cons_of_mem _ (ih h)

theorem findOrLarger_some (fl : FL) (hs : Sorted fl) (x k : Nat) (b : List Nat)
    (h : flFindOrLarger fl x = some (k, b)) :
    flFind fl k = some b ∧ x ≤ k ∧ ∀ k' b', flFind fl k' = some b' → x ≤ k' → k ≤ k' := by
  induction fl with
  | nil => simp [flFindOrLarger] at h
  | cons e r ih =>
    obtain ⟨k0, b0⟩ := e
    have hs' : Sorted r := (List.pairwise_cons.1 hs).2
    have hlt : ∀ e ∈ r, k0 < e.1 := (List.pairwise_cons.1 hs).1
    simp only [flFindOrLarger] at h
    by_cases h1 : x ≤ k0
    · rw [if_pos h1] at h
      injection h with h; injection h with h2 h3; subst h2; subst h3
      refine ⟨by simp [flFind], h1, ?_⟩
      intro k' b' hf _
      have := mem_of_flFind _ _ _ hf
      rcases List.mem_cons.1 this with h | h
      · injection h with h; omega
      · have := hlt _ h; simp only at this; omega
    · rw [if_neg h1] at h
      obtain ⟨i1, i2, i3⟩ := ih hs' h
      have hkne : k0 ≠ k := by omega
      refine ⟨by simp only [flFind, if_neg hkne]; exact i1, i2, ?_⟩
      intro k' b' hf hx
      simp only [flFind] at hf
      by_cases h2 : k0 = k'
      · omega
      · rw [if_neg h2] at hf; exact i3 k' b' hf hx

theorem findOrLarger_none (fl : FL) (x : Nat) (h : flFindOrLarger fl x = none) :
    ∀ k' b', flFind fl k' = some b' → k' < x := by
  induction fl with
  | nil => intro k' b' hf; simp [flFind] at hf
  | cons e r ih =>
    obtain ⟨k0, b0⟩ := e
    simp only [flFindOrLarger] at h
    by_cases h1 : x ≤ k0
    · rw [if_pos h1] at h; exact absurd h (by simp)
    · rw [if_neg h1] at h
      intro k' b' hf
      simp only [flFind] at hf
      by_cases h2 : k0 = k'
      · omega
      · rw [if_neg h2] at hf; exact ih h k' b' hf

/-! ### the two abstract operations every branch of the code collapses to -/

/-- remove t from the list of size k; the node disappears with its last element -/
def flDel (fl : FL) (k t : Nat) : FL :=
  if (bucket fl k).erase t = [] then flRemoveKey fl k else flSet fl k ((bucket fl k).erase t)

structure FLOk (fl : FL) : Prop where
  sorted : Sorted fl
  good : ∀ k b, flFind fl k = some b → b ≠ [] ∧ b.Nodup

theorem bucket_nodup {fl : FL} (h : FLOk fl) (k : Nat) : (bucket fl k).Nodup := by
  unfold bucket
  cases hf : flFind fl k with
  | none => simp
  | some b => exact (h.good k b hf).2

theorem flFind_flDel (fl : FL) (hs : Sorted fl) (k t x : Nat) :
    flFind (flDel fl k t) x =
      if x = k then (if (bucket fl k).erase t = [] then none else (flFind fl k).map (fun _ => (bucket fl k).erase t))
      else flFind fl x := by
  unfold flDel
  split
  · rw [flFind_remove fl hs]
  · rw [flFind_set]

theorem flok_flDel {fl : FL} (h : FLOk fl) (k t : Nat) : FLOk (flDel fl k t) := by
  constructor
  · unfold flDel; split
    · exact sorted_remove fl h.sorted k
    · exact sorted_set fl h.sorted k _
  · intro x b hb
    rw [flFind_flDel fl h.sorted] at hb
    by_cases hx : x = k
    · rw [if_pos hx] at hb
      by_cases he : (bucket fl k).erase t = []
      · rw [if_pos he] at hb; exact absurd hb (by simp)
      · rw [if_neg he] at hb
        cases hf : flFind fl k with
        | none => rw [hf] at hb; exact absurd hb (by simp)
        | some b0 =>
          rw [hf] at hb; simp only [Option.map_some] at hb
          injection hb with hb; subst hb
          exact ⟨he, (bucket_nodup h k).erase t⟩
    · rw [if_neg hx] at hb; exact h.good x b hb

theorem mem_bucket_flDel {fl : FL} (h : FLOk fl) (k t x t' : Nat) :
    t' ∈ bucket (flDel fl k t) x ↔ t' ∈ bucket fl x ∧ ¬(x = k ∧ t' = t) := by
  unfold bucket
  rw [flFind_flDel fl h.sorted]
  by_cases hx : x = k
  · subst hx
    rw [if_pos rfl]
    have hnd := bucket_nodup h x
    have hme : t' ∈ (bucket fl x).erase t ↔ t' ≠ t ∧ t' ∈ bucket fl x := hnd.mem_erase_iff
    by_cases he : (bucket fl x).erase t = []
    · rw [if_pos he]
      rw [he] at hme
      simp only [Option.getD_none, List.not_mem_nil, false_iff, true_and]
      intro hc
      have := hme.2 ⟨hc.2, hc.1⟩
      simp at this
    · rw [if_neg he]
      cases hf : flFind fl x with
      | none => simp [bucket, hf] at he
      | some b0 =>
        simp only [Option.map_some, Option.getD_some, true_and]
        rw [hme]; unfold bucket; rw [hf]; simp only [Option.getD_some]
        constructor
        · rintro ⟨a, b⟩; exact ⟨b, a⟩
        · rintro ⟨a, b⟩; exact ⟨b, a⟩
  · rw [if_neg hx]; simp [hx]

theorem flFind_flAdd (fl : FL) (k t x : Nat) :
    flFind (flFindOrInsertPush fl k t) x = if x = k then some (t :: bucket fl k) else flFind fl x := by
  unfold flFindOrInsertPush
  cases hf : flFind fl k with
  | some b =>
    simp only [flPushFront]
    rw [flFind_set, hf]; simp
  | none =>
    simp only [flPushFront]
    rw [flFind_set, flFind_insert fl k k [] hf, flFind_insert fl k x [] hf]
    simp only [if_true, Option.map_some]
    have : bucket (flInsert fl k []) k = [] := by unfold bucket; rw [flFind_insert fl k k [] hf]; simp
    have h2 : bucket fl k = [] := by unfold bucket; rw [hf]; rfl
    rw [this, h2]
    split <;> rfl

theorem flok_flAdd {fl : FL} (h : FLOk fl) (k t : Nat) (hn : t ∉ bucket fl k) :
    FLOk (flFindOrInsertPush fl k t) := by
  constructor
  · unfold flFindOrInsertPush
    cases hf : flFind fl k with
    | some b => exact sorted_set fl h.sorted k _
    | none => exact sorted_set _ (sorted_insert fl h.sorted k [] hf) k _
  · intro x b hb
    rw [flFind_flAdd] at hb
    by_cases hx : x = k
    · rw [if_pos hx] at hb; injection hb with hb; subst hb
      exact ⟨by simp, List.nodup_cons.2 ⟨hn, bucket_nodup h k⟩⟩
    · rw [if_neg hx] at hb; exact h.good x b hb

theorem mem_bucket_flAdd (fl : FL) (k t x t' : Nat) :
    t' ∈ bucket (flFindOrInsertPush fl k t) x ↔ (x = k ∧ t' = t) ∨ t' ∈ bucket fl x := by
  unfold bucket
  rw [flFind_flAdd]
  by_cases hx : x = k
  · subst hx; simp [bucket]
  · simp [hx]

/-! ### every branch of the code collapses to flDel / flFindOrInsertPush -/

theorem remove_set (fl : FL) (k : Nat) (b : List Nat) : flRemoveKey (flSet fl k b) k = flRemoveKey fl k := by
  induction fl with
  | nil => rfl
  | cons e r ih =>
    obtain ⟨k', b'⟩ := e
    simp only [flSet]
    split
    · next h => simp [flRemoveKey, h]
    · next h => simp [flRemoveKey, h, ih]

theorem set_insert_comm (fl : FL) (m k : Nat) (c b : List Nat) (h : k ≠ m) :
    flSet (flInsert fl m c) k b = flInsert (flSet fl k b) m c := by
  induction fl with
  | nil => simp [flInsert, flSet, Ne.symm h]
  | cons e r ih =>
    obtain ⟨k', b'⟩ := e
    simp only [flInsert, flSet]
    by_cases h1 : m < k' <;> by_cases h2 : k' = k
    · subst h2; simp [flInsert, flSet, h1, Ne.symm h]
    · simp [flInsert, flSet, h1, h2, Ne.symm h]
    · subst h2; simp [flInsert, flSet, h1]
    · simp [flInsert, flSet, h1, h2, ih]

theorem insert_lt_all (r : FL) (m : Nat) (c : List Nat) (h : ∀ e ∈ r, m < e.1) : flInsert r m c = (m, c) :: r := by
  cases r with
  | nil => rfl
  | cons e r =>
    obtain ⟨k', b'⟩ := e
    have := h (k', b') List.mem_cons_self
    simp only at this
    simp [flInsert, this]

theorem remove_insert_comm (fl : FL) (hs : Sorted fl) (m k : Nat) (c : List Nat) (h : k ≠ m) :
    flRemoveKey (flInsert fl m c) k = flInsert (flRemoveKey fl k) m c := by
  induction fl with
  | nil => simp [flInsert, flRemoveKey, Ne.symm h]
  | cons e r ih =>
    obtain ⟨k', b'⟩ := e
    have hs' : Sorted r := (List.pairwise_cons.1 hs).2
    have hlt : ∀ e ∈ r, k' < e.1 := (List.pairwise_cons.1 hs).1
    simp only [flInsert, flRemoveKey]
    by_cases h1 : m < k' <;> by_cases h2 : k' = k
    · subst h2; simp only [flRemoveKey, h1, Ne.symm h, if_true, if_false]
      rw [insert_lt_all r m c (fun e he => by have := hlt e he; omega)]
    · simp [flInsert, flRemoveKey, h1, h2, Ne.symm h]
    · subst h2; simp [flRemoveKey, h1]
    · simp [flInsert, flRemoveKey, h1, h2, ih hs']

def Mid (D : FL) (m : Nat) (reuse : Bool) : FL := if reuse then flInsert D m [] else D

theorem malloc_pop (fl : FL) (k t : Nat) (rest : List Nat) (hf : flFind fl k = some (t :: rest)) :
    (if rest = [] then flRemoveKey (flSet fl k rest) k else flSet fl k rest) = flDel fl k t := by
  have hb : (bucket fl k).erase t = rest := by simp [bucket, hf]
  unfold flDel
  rw [hb, remove_set]

theorem split_emptied (fl : FL) (hs : Sorted fl) (k rem nt : Nat) (hne : rem ≠ k) :
    flSplitEmptied (flSet fl k []) k rem nt = flFindOrInsertPush (flRemoveKey fl k) rem nt := by
  unfold flSplitEmptied flUpdateKey flFindOrInsertPush
  have h1 : flFind (flSet fl k []) rem = flFind fl rem := by rw [flFind_set, if_neg hne]
  have h2 : flFind (flRemoveKey fl k) rem = flFind fl rem := by rw [flFind_remove fl hs, if_neg hne]
  have h3 : bucket (flSet fl k []) k = [] := by
    unfold bucket; rw [flFind_set, if_pos rfl]; cases flFind fl k <;> rfl
  rw [h1, h2, remove_set, h3]
  cases flFind fl rem <;> rfl

theorem bucket_mid (D : FL) (m k : Nat) (r : Bool) (hr : r = true → flFind D m = none) (hk : k ≠ m) :
    bucket (Mid D m r) k = bucket D k := by
  unfold Mid bucket
  cases r with
  | false => rfl
  | true => simp only [if_true]; rw [flFind_insert D m k [] (hr rfl), if_neg hk]

theorem afterRemove_spec (D : FL) (hs : Sorted D) (m k t : Nat) (r : Bool)
    (hr : r = true → flFind D m = none) (hk : k ≠ m) :
    ∃ r', flAfterRemove (Mid D m r) r k t m = (Mid (flDel D k t) m r', r') ∧
      (r' = true → flFind (flDel D k t) m = none) := by
  have hfd : flFind (flDel D k t) m = flFind D m := by rw [flFind_flDel D hs, if_neg (Ne.symm hk)]
  unfold flAfterRemove
  rw [bucket_mid D m k r hr hk]
  by_cases he : (bucket D k).erase t = []
  · rw [if_pos he]
    have hdel : flDel D k t = flRemoveKey D k := by unfold flDel; rw [if_pos he]
    cases r with
    | true =>
      refine ⟨true, ?_, fun _ => by rw [hfd]; exact hr rfl⟩
      simp only [if_true, Mid]
      rw [remove_set, remove_insert_comm D hs m k [] hk, hdel]
    | false =>
      simp only [Mid, Bool.false_eq_true, if_false]
      unfold flReuseOrRetire flUpdateKey
      have h1 : flFind (flSet D k []) m = flFind D m := by rw [flFind_set, if_neg (Ne.symm hk)]
      have h3 : bucket (flSet D k []) k = [] := by
        unfold bucket; rw [flFind_set, if_pos rfl]; cases flFind D k <;> rfl
      rw [h1, remove_set, h3]
      cases hf : flFind D m with
      | none => exact ⟨true, by simp [hdel], fun _ => by rw [hfd]; exact hf⟩
      | some b => exact ⟨false, by simp [hdel], fun h => by simp at h⟩
  · rw [if_neg he]
    have hdel : flDel D k t = flSet D k ((bucket D k).erase t) := by unfold flDel; rw [if_neg he]
    refine ⟨r, ?_, fun h => by rw [hfd]; exact hr h⟩
    cases r with
    | true => simp only [Mid, if_true]; rw [set_insert_comm D m k [] _ hk, hdel]
    | false => simp only [Mid, Bool.false_eq_true, if_false]; rw [hdel]

theorem freeFinal_spec (segs : List Seg) (D : FL) (m ctid : Nat) (r : Bool)
    (hr : r = true → flFind D m = none) (hu : unitsOf segs[ctid]? = m) :
    freeFinal ⟨segs, Mid D m r, r, ctid⟩ m = flFindOrInsertPush D m ctid := by
  unfold freeFinal
  cases r with
  | true => simp only [if_true, Mid]; unfold flFindOrInsertPush; rw [hr rfl]
  | false => simp only [Bool.false_eq_true, if_false, Mid]; rw [hu]
end ParsecVerif.Zone
