import ParsecVerif.Model.VpMap
/-! Decimal rendering of naturals and its round trip through the strtol model. Core only. -/
namespace ParsecVerif.VpMap

/-! ### decimal rendering and its round trip through the strtol model -/

def digitChar (d : Nat) : Char :=
  match d with
  | 0 => '0' | 1 => '1' | 2 => '2' | 3 => '3' | 4 => '4'
  | 5 => '5' | 6 => '6' | 7 => '7' | 8 => '8' | _ => '9'

/-- decimal digits of `n`, most significant first (what `printf("%d")` writes for `n ≥ 0`) -/
def render (n : Nat) : Str :=
  if _h : n < 10 then [digitChar n] else render (n / 10) ++ [digitChar (n % 10)]
termination_by n
decreasing_by omega

/-- `c1,c2,...,ck` -/
def renderList : List Nat → Str
  | [] => []
  | [c] => render c
  | c :: d :: t => render c ++ ',' :: renderList (d :: t)

theorem digitChar_facts (d : Nat) (h : d < 10) :
    digitVal (digitChar d) = some d ∧ isSpace (digitChar d) = false ∧ digitChar d ≠ '-' ∧ digitChar d ≠ '+'
    ∧ digitChar d ≠ 'x' ∧ digitChar d ≠ ':' ∧ digitChar d ≠ ',' ∧ digitChar d ≠ 'X' := by
  match d, h with
  | 0, _ => decide
  | 1, _ => decide
  | 2, _ => decide
  | 3, _ => decide
  | 4, _ => decide
  | 5, _ => decide
  | 6, _ => decide
  | 7, _ => decide
  | 8, _ => decide
  | 9, _ => decide
  | n + 10, h => omega

theorem isDigitIn_digitChar (d : Nat) (h : d < 10) : isDigitIn 10 (digitChar d) = true := by
  unfold isDigitIn
  rw [(digitChar_facts d h).1]
  simp [h]

/-- a string "made of decimal digits" -/
def AllDigits (s : Str) : Prop := ∀ c ∈ s, ∃ d, d < 10 ∧ c = digitChar d

theorem render_allDigits (n : Nat) : AllDigits (render n) := by
  induction n using Nat.strongRecOn with
  | _ n ih =>
    unfold render
    split
    · rename_i h
      intro c hc; simp at hc; exact ⟨n, h, hc⟩
    · intro c hc
      rcases List.mem_append.1 hc with h1 | h1
      · exact ih (n / 10) (by omega) c h1
      · simp at h1; exact ⟨n % 10, by omega, h1⟩

theorem render_ne_nil (n : Nat) : render n ≠ [] := by
  unfold render
  split <;> simp

/-- value of a digit string followed by a non-digit tail -/
def decVal : Str → Nat → Nat
  | [], acc => acc
  | c :: t, acc => decVal t (acc * 10 + (digitVal c).getD 0)

theorem digitsVal_append (s rest : Str) (hs : AllDigits s) (hr : hasDigit 10 rest = false) (acc : Nat) :
    digitsVal 10 (s ++ rest) acc = decVal s acc ∧ dropDigits 10 (s ++ rest) = rest := by
  induction s generalizing acc with
  | nil =>
    simp only [List.nil_append, decVal]
    cases rest with
    | nil => simp [digitsVal, dropDigits]
    | cons c t =>
      simp only [hasDigit] at hr
      simp [digitsVal, dropDigits, hr]
  | cons c t ih =>
    obtain ⟨d, hd, rfl⟩ := hs c (List.mem_cons_self ..)
    have ht : AllDigits t := fun x hx => hs x (List.mem_cons_of_mem _ hx)
    simp only [List.cons_append, digitsVal, dropDigits, isDigitIn_digitChar d hd, if_true, decVal]
    exact ih ht _

theorem decVal_append (s t : Str) (acc : Nat) : decVal (s ++ t) acc = decVal t (decVal s acc) := by
  induction s generalizing acc with
  | nil => rfl
  | cons c s ih => simp [decVal, ih]

theorem decVal_render (n : Nat) : ∀ acc, decVal (render n) acc = acc * 10 ^ (render n).length + n := by
  induction n using Nat.strongRecOn with
  | _ n ih =>
    intro acc
    unfold render
    split
    · rename_i h
      simp [decVal, (digitChar_facts n h).1]
    · rename_i h
      rw [decVal_append, ih (n / 10) (by omega)]
      simp only [decVal, (digitChar_facts (n % 10) (by omega)).1, Option.getD_some, List.length_append,
        List.length_cons, List.length_nil]
      rw [Nat.pow_succ]
      have := Nat.div_add_mod n 10
      rw [Nat.add_mul, Nat.mul_assoc]
      omega

theorem decVal_render_zero (n : Nat) : decVal (render n) 0 = n := by
  rw [decVal_render]; simp

theorem render_cons (c : Nat) : ∃ d t, d < 10 ∧ render c = digitChar d :: t := by
  cases h : render c with
  | nil => exact absurd h (render_ne_nil c)
  | cons ch t =>
    obtain ⟨d, hd, rfl⟩ := render_allDigits c ch (by rw [h]; exact List.mem_cons_self ..)
    exact ⟨d, t, hd, rfl⟩

theorem skipSpace_digit (d : Nat) (hd : d < 10) (t : Str) : skipSpace (digitChar d :: t) = digitChar d :: t := by
  unfold skipSpace
  rw [(digitChar_facts d hd).2.1]
  simp

theorem signRest_digit (d : Nat) (hd : d < 10) (t : Str) : signRest (digitChar d :: t) = digitChar d :: t := by
  have h := digitChar_facts d hd
  unfold signRest
  split
  · rename_i heq; injection heq with h1 _; exact absurd h1 h.2.2.1
  · rename_i heq; injection heq with h1 _; exact absurd h1 h.2.2.2.1
  · rfl

theorem signNeg_digit (d : Nat) (hd : d < 10) (t : Str) : signNeg (digitChar d :: t) = false := by
  have h := digitChar_facts d hd
  unfold signNeg
  split
  · rename_i heq; injection heq with h1 _; exact absurd h1 h.2.2.1
  · rfl

/-- **Round trip**: the strtol model reads back a rendered number that is followed by a non-digit. -/
theorem strtol_render (c : Nat) (hc : c < 2147483648) (rest : Str) (hr : hasDigit 10 rest = false) :
    atoiVal (render c ++ rest) = c ∧ strtolRest 10 (render c ++ rest) = rest ∧ strtolConv 10 (render c ++ rest) = true := by
  obtain ⟨d, t, hd, ht⟩ := render_cons c
  have hall := render_allDigits c
  have key := digitsVal_append (render c) rest hall hr 0
  have e1 : skipSpace (render c ++ rest) = render c ++ rest := by
    rw [ht]; exact skipSpace_digit d hd _
  have e2 : signRest (render c ++ rest) = render c ++ rest := by
    rw [ht]; exact signRest_digit d hd _
  have e3 : signNeg (render c ++ rest) = false := by
    rw [ht]; exact signNeg_digit d hd _
  have e4 : hasDigit 10 (render c ++ rest) = true := by
    rw [ht]; simp [hasDigit, isDigitIn_digitChar d hd]
  have eb : effBase 10 (render c ++ rest) = 10 := by simp [effBase]
  have ed : effDigits 10 (render c ++ rest) = render c ++ rest := by simp [effDigits]
  refine ⟨?_, ?_, ?_⟩
  · unfold atoiVal strtolVal
    rw [e1, e2, eb, ed, e4, e3, key.1, decVal_render_zero]
    simp only [if_true]
    unfold clampLong wrap32 LONG_MAX LONG_MIN
    simp only [Bool.false_eq_true, if_false]
    rw [if_neg (by omega), if_neg (by omega)]
    omega
  · unfold strtolRest
    rw [e1, e2, eb, ed, e4]
    simp only [if_true]
    exact key.2
  · unfold strtolConv
    rw [e1, e2, eb, ed, e4]


end ParsecVerif.VpMap
