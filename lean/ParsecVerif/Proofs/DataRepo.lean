import ParsecVerif.Model.DataRepo
import ParsecVerif.Base.Interleave
/-!
  Helper lemmas for the data-repository machine: bookkeeping of the per-key measures when one
  thread moves, and the inductive invariant of the guarded machine.
-/
namespace ParsecVerif.DataRepo
open ParsecVerif.Interleave

/-! ## measures -/

def contrib (w : Thr → Nat) (k : Nat) (t : Thr) : Nat := if t.key = k then w t else 0

theorem meas_eq (w : Thr → Nat) (k : Nat) (l : List Thr) : meas w k l = (l.map (contrib w k)).sum := rfl

/-- replacing thread `i` moves its contribution -/
theorem meas_set (w : Thr → Nat) (k : Nat) (l : List Thr) (i : Nat) (y : Thr) (h : i < l.length) :
    meas w k (l.set i y) + contrib w k l[i] = meas w k l + contrib w k y := by
  rw [meas_eq, meas_eq, List.map_set]
  have := sum_set (l.map (contrib w k)) i (contrib w k y) (by simpa using h)
  simpa using this

theorem le_sum_of_mem (l : List Nat) (x : Nat) (h : x ∈ l) : x ≤ l.sum := by
  induction l with
  | nil => simp at h
  | cons a t ih =>
    simp only [List.sum_cons]
    rcases List.mem_cons.1 h with rfl | h'
    · omega
    · have := ih h'; omega

/-- one thread's contribution is at most the sum -/
theorem contrib_le_meas (w : Thr → Nat) (k : Nat) (l : List Thr) (i : Nat) (h : i < l.length) :
    contrib w k l[i] ≤ meas w k l := by
  rw [meas_eq]
  have hm : contrib w k l[i] ∈ l.map (contrib w k) := List.mem_map.2 ⟨l[i], List.getElem_mem h, rfl⟩
  exact le_sum_of_mem _ _ hm

theorem meas_zero_of_forall (w : Thr → Nat) (k : Nat) (l : List Thr) (h : ∀ t ∈ l, contrib w k t = 0) :
    meas w k l = 0 := by
  rw [meas_eq]
  induction l with
  | nil => rfl
  | cons a t ih =>
    simp only [List.map_cons, List.sum_cons]
    rw [h a (by simp), ih (fun x hx => h x (by simp [hx]))]

theorem forall_of_meas_zero (w : Thr → Nat) (k : Nat) (l : List Thr) (h : meas w k l = 0) :
    ∀ t ∈ l, contrib w k t = 0 := by
  intro t ht
  obtain ⟨i, hi, rfl⟩ := List.getElem_of_mem ht
  have := contrib_le_meas w k l i hi
  omega

/-- pointwise equal weights give equal measures -/
theorem meas_congr (w w' : Thr → Nat) (k : Nat) (l : List Thr) (h : ∀ t ∈ l, contrib w k t = contrib w' k t) :
    meas w k l = meas w' k l := by
  rw [meas_eq, meas_eq]
  induction l with
  | nil => rfl
  | cons a t ih =>
    simp only [List.map_cons, List.sum_cons]
    rw [h a (by simp), ih (fun x hx => h x (by simp [hx]))]

/-- no holder ⇒ nothing promised -/
theorem pend_zero_of_hold_zero (k : Nat) (l : List Thr) (h : meas wHold k l = 0) : meas wPend k l = 0 := by
  apply meas_zero_of_forall
  intro t ht
  have := forall_of_meas_zero wHold k l h t ht
  unfold contrib wHold at this
  unfold contrib wPend
  by_cases hk : t.key = k <;> by_cases hp : t.pc = .hold <;> simp_all

/-! ## the invariant of one key -/

/-- What holds of a key's cell `c` when `H` creators hold the entry, `P` is the sum of their (not yet
    announced) limits, `A` the sum of the announced limits, `U` the number of uses done and `M` the
    number of private copies in flight. -/
structure CellInv (c : Cell) (H P A U M : Nat) : Prop where
  nofault : c.fault = false
  pool    : c.al = c.ins + c.di + M
  budget  : U ≤ A + P
  absent  : c.ent = none → H = 0 ∧ A = U ∧ c.rc = c.ins
  there   : ∀ e, c.ent = some e →
              e.ret = (H : Int) ∧ e.lmt - e.cnt = (A : Int) - (U : Int) ∧ (0 < H ∨ e.cnt ≠ e.lmt) ∧ c.rc + 1 = c.ins

theorem cellInv_empty : CellInv Cell.empty 0 0 0 0 0 := by
  refine ⟨rfl, rfl, by omega, fun _ => ⟨rfl, rfl, rfl⟩, ?_⟩
  intro e h; simp [Cell.empty] at h

/-- One section of one thread preserves the invariant of its key.  `H P A U M` are the measures
    before the step (which include the thread's own contribution), primed ones after it. -/
theorem cellInv_step (ok : Bool) (c : Cell) (key : Nat) (pc : Pc) (n : Nat) (H P A U M H' P' A' U' M' : Nat)
    (inv : CellInv c H P A U M)
    (hok : ok = true → pc = .u0 → c.ent.isSome = true ∧ U < A + P)
    (lH : wHold ⟨key, pc, n⟩ ≤ H) (lP : wPend ⟨key, pc, n⟩ ≤ P) (lA : wAnn ⟨key, pc, n⟩ ≤ A)
    (lU : wUse ⟨key, pc, n⟩ ≤ U) (lM : wMid ⟨key, pc, n⟩ ≤ M)
    (eH : H' + wHold ⟨key, pc, n⟩ = H + wHold ⟨key, (stepCell ok c ⟨key, pc, n⟩).2, n⟩)
    (eP : P' + wPend ⟨key, pc, n⟩ = P + wPend ⟨key, (stepCell ok c ⟨key, pc, n⟩).2, n⟩)
    (eA : A' + wAnn ⟨key, pc, n⟩ = A + wAnn ⟨key, (stepCell ok c ⟨key, pc, n⟩).2, n⟩)
    (eU : U' + wUse ⟨key, pc, n⟩ = U + wUse ⟨key, (stepCell ok c ⟨key, pc, n⟩).2, n⟩)
    (eM : M' + wMid ⟨key, pc, n⟩ = M + wMid ⟨key, (stepCell ok c ⟨key, pc, n⟩).2, n⟩) :
    CellInv (stepCell ok c ⟨key, pc, n⟩).1 H' P' A' U' M' := by
  obtain ⟨nf, pool, bud, ab, th⟩ := inv
  cases pc with
  | c0 =>
    simp only [stepCell, cs1, wHold, wPend, wAnn, wUse, wMid] at *
    cases he : c.ent with
    | none =>
      obtain ⟨h1, h2, h3⟩ := ab he
      simp only [he] at *
      simp at eH eP eA eU eM lH lP lA lU lM
      refine ⟨nf, by simp; omega, by omega, fun _ => ⟨by omega, by omega, h3⟩, ?_⟩
      intro e h; simp at h
    | some e =>
      obtain ⟨h1, h2, h3, h4⟩ := th e he
      simp only [he] at *
      simp at eH eP eA eU eM lH lP lA lU lM
      refine ⟨nf, by simp; omega, by omega, fun h => by simp at h, ?_⟩
      intro e' h
      simp at h; subst h
      simp
      omega
  | c1 =>
    simp only [stepCell, cs2, wHold, wPend, wAnn, wUse, wMid] at *
    cases he : c.ent with
    | none =>
      obtain ⟨h1, h2, h3⟩ := ab he
      simp only [he] at *
      simp at eH eP eA eU eM lH lP lA lU lM
      refine ⟨nf, by simp; omega, by omega, fun h => by simp at h, ?_⟩
      intro e' h
      simp at h; subst h
      simp
      omega
    | some e =>
      obtain ⟨h1, h2, h3, h4⟩ := th e he
      simp only [he] at *
      simp at eH eP eA eU eM lH lP lA lU lM
      refine ⟨nf, by simp; omega, by omega, fun h => by simp at h, ?_⟩
      intro e' h
      simp at h; subst h
      simp
      omega
  | hold =>
    simp only [stepCell, csAnnounce, wHold, wPend, wAnn, wUse, wMid] at *
    simp at eH eP eA eU eM lH lP lA lU lM
    cases he : c.ent with
    | none =>
      obtain ⟨h1, h2, h3⟩ := ab he
      omega
    | some e =>
      obtain ⟨h1, h2, h3, h4⟩ := th e he
      simp only [reclaimIf]
      by_cases hr : e.lmt + (n : Int) = e.cnt ∧ e.ret - 1 = 0
      · rw [if_pos hr]
        refine ⟨nf, by simp; omega, by omega, fun _ => ⟨by omega, by omega, by simp; omega⟩, ?_⟩
        intro e' h; simp at h
      · rw [if_neg hr]
        refine ⟨nf, by simp; omega, by omega, fun h => by simp at h, ?_⟩
        intro e' h
        simp at h; subst h
        simp
        omega
  | done =>
    simp only [stepCell, wHold, wPend, wAnn, wUse, wMid] at *
    simp at eH eP eA eU eM
    have : H' = H := by omega
    have : P' = P := by omega
    have : A' = A := by omega
    have : U' = U := by omega
    have : M' = M := by omega
    subst_vars
    exact ⟨nf, pool, bud, ab, th⟩
  | udone =>
    simp only [stepCell, wHold, wPend, wAnn, wUse, wMid] at *
    simp at eH eP eA eU eM
    have : H' = H := by omega
    have : P' = P := by omega
    have : A' = A := by omega
    have : U' = U := by omega
    have : M' = M := by omega
    subst_vars
    exact ⟨nf, pool, bud, ab, th⟩
  | u0 =>
    cases ok with
    | false =>
      simp only [stepCell, wHold, wPend, wAnn, wUse, wMid] at *
      simp at eH eP eA eU eM
      have : H' = H := by omega
      have : P' = P := by omega
      have : A' = A := by omega
      have : U' = U := by omega
      have : M' = M := by omega
      subst_vars
      exact ⟨nf, pool, bud, ab, th⟩
    | true =>
      obtain ⟨hp, hb⟩ := hok rfl rfl
      simp only [stepCell, csUse, wHold, wPend, wAnn, wUse, wMid] at *
      simp at eH eP eA eU eM lH lP lA lU lM
      cases he : c.ent with
      | none => simp [he] at hp
      | some e =>
        obtain ⟨h1, h2, h3, h4⟩ := th e he
        simp only [reclaimIf]
        by_cases hr : e.lmt = e.cnt + 1 ∧ e.ret = 0
        · rw [if_pos hr]
          refine ⟨nf, by simp; omega, by omega, fun _ => ⟨by omega, by omega, by simp; omega⟩, ?_⟩
          intro e' h; simp at h
        · rw [if_neg hr]
          refine ⟨nf, by simp; omega, by omega, fun h => by simp at h, ?_⟩
          intro e' h
          simp at h; subst h
          simp
          omega

/-! ## the invariant of the machine -/

def Inv (s : State) : Prop :=
  ∀ k, CellInv (s.cell k) (holders s k) (promised s k) (announced s k) (uses s k) (inflight s k)

theorem meas_init (w : Thr → Nat) (hc : ∀ k n, w ⟨k, .c0, n⟩ = 0) (hu : ∀ k n, w ⟨k, .u0, n⟩ = 0)
    (k : Nat) (descr : List (Bool × Nat × Nat)) : meas w k (descr.map mkThr) = 0 := by
  apply meas_zero_of_forall
  intro t ht
  obtain ⟨d, _, rfl⟩ := List.mem_map.1 ht
  unfold contrib mkThr
  by_cases hd : d.1 = true <;> simp [hd, hc, hu]

theorem inv_init (descr : List (Bool × Nat × Nat)) : Inv (init descr) := by
  intro k
  have e1 : holders (init descr) k = 0 := meas_init wHold (by intros; rfl) (by intros; rfl) k descr
  have e2 : promised (init descr) k = 0 := meas_init wPend (by intros; rfl) (by intros; rfl) k descr
  have e3 : announced (init descr) k = 0 := meas_init wAnn (by intros; rfl) (by intros; rfl) k descr
  have e4 : uses (init descr) k = 0 := meas_init wUse (by intros; rfl) (by intros; rfl) k descr
  have e5 : inflight (init descr) k = 0 := meas_init wMid (by intros; rfl) (by intros; rfl) k descr
  rw [e1, e2, e3, e4, e5]
  exact cellInv_empty

/-- measures of a key other than the moving thread's are untouched -/
theorem meas_set_other (w : Thr → Nat) (k : Nat) (l : List Thr) (i : Nat) (th : Thr) (pc : Pc)
    (h : i < l.length) (hx : l[i] = th) (hk : th.key ≠ k) :
    meas w k (l.set i { th with pc := pc }) = meas w k l := by
  have := meas_set w k l i { th with pc := pc } h
  rw [hx] at this
  simp only [contrib] at this
  rw [if_neg hk, if_neg hk] at this
  omega

theorem meas_set_same (w : Thr → Nat) (l : List Thr) (i : Nat) (th : Thr) (pc : Pc)
    (h : i < l.length) (hx : l[i] = th) :
    meas w th.key (l.set i { th with pc := pc }) + w th = meas w th.key l + w { th with pc := pc } ∧ w th ≤ meas w th.key l := by
  have h1 := meas_set w th.key l i { th with pc := pc } h
  have h2 := contrib_le_meas w th.key l i h
  rw [hx] at h1 h2
  simp only [contrib] at h1 h2
  simp only [if_true] at h1 h2
  exact ⟨h1, h2⟩

theorem useOk_spec (s : State) (k : Nat) (h : useOk s k = true) :
    (s.cell k).ent.isSome = true ∧ uses s k < announced s k + promised s k := by
  unfold useOk present at h
  simp only [Bool.and_eq_true, decide_eq_true_eq] at h
  exact h

theorem inv_step (s : State) (t : Nat) (h : Inv s) : Inv (step s t) := by
  unfold step stepG
  cases hth : s.thr[t]? with
  | none => exact h
  | some th =>
    obtain ⟨hi, hx⟩ := getElem_of_getElem? hth
    intro k
    by_cases hk : th.key = k
    · subst hk
      simp only [holders, promised, announced, uses, inflight, setCell, if_true]
      obtain ⟨eH, lH⟩ := meas_set_same wHold s.thr t th (stepThr true s th).2 hi hx
      obtain ⟨eP, lP⟩ := meas_set_same wPend s.thr t th (stepThr true s th).2 hi hx
      obtain ⟨eA, lA⟩ := meas_set_same wAnn s.thr t th (stepThr true s th).2 hi hx
      obtain ⟨eU, lU⟩ := meas_set_same wUse s.thr t th (stepThr true s th).2 hi hx
      obtain ⟨eM, lM⟩ := meas_set_same wMid s.thr t th (stepThr true s th).2 hi hx
      obtain ⟨key, pc, n⟩ := th
      have hk := h key
      simp only [holders, promised, announced, uses, inflight] at hk
      simp only [stepThr, Bool.not_true, Bool.false_or] at *
      exact cellInv_step (useOk s key) (s.cell key) key pc n _ _ _ _ _ _ _ _ _ _ hk
        (fun ho _ => useOk_spec s key ho) lH lP lA lU lM eH eP eA eU eM
    · have hc : setCell s.cell th.key (stepThr true s th).1 k = s.cell k := by
        unfold setCell; rw [if_neg (fun e => hk e.symm)]
      simp only [holders, promised, announced, uses, inflight, hc]
      rw [meas_set_other wHold k s.thr t th _ hi hx hk, meas_set_other wPend k s.thr t th _ hi hx hk,
          meas_set_other wAnn k s.thr t th _ hi hx hk, meas_set_other wUse k s.thr t th _ hi hx hk,
          meas_set_other wMid k s.thr t th _ hi hx hk]
      exact h k

theorem inv_run (s : State) (sched : List Nat) (h : Inv s) : Inv (run s sched) := by
  unfold run
  induction sched generalizing s with
  | nil => exact h
  | cons t ts ih => exact ih _ (inv_step s t h)

end ParsecVerif.DataRepo
