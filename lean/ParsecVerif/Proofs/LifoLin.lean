/-
  Forward simulation of the LIFO model to the sequential stack: every micro step either leaves the
  ghost stack unchanged or is the linearization point of the stepping thread's operation and performs
  exactly that operation of the sequential specification; bookkeeping of the linearization order,
  time stamps and per-thread programs; the global inductive invariant `Inv`.
-/
import ParsecVerif.Proofs.Lifo

namespace ParsecVerif.Lifo

/-! ## sequential specification -/

theorem Spec.replay_append (σ : List Nat) (l : List (Op × Res)) (e : Op × Res) :
    Spec.replay σ (l ++ [e]) = (Spec.replay σ l).bind fun σ' => Spec.step σ' e.1 e.2 := by
  induction l generalizing σ with
  | nil => cases h : Spec.step σ e.1 e.2 <;> simp [Spec.replay, h]
  | cons a t ih =>
    simp only [List.cons_append, Spec.replay]
    cases Spec.step σ a.1 a.2 with
    | none => rfl
    | some σ' => exact ih σ'

theorem Spec.step_rejected (σ : List Nat) (op : Op) : Spec.step σ op .rejected = some σ := by
  cases op <;> rfl

/-! ## linearization points -/

theorem invoke_spec (m : Mem) (n t now : Nat) (th : Thread) :
    (∀ l, (invoke m n t now th).lin = some l → Spec.step m.abs l.op l.res = some m.abs ∧ l.tid = t ∧ l.tLin = now) := by
  unfold invoke
  split
  · intro l h; cases h
  · split
    · intro l h; cases h
    · intro l h; cases h; exact ⟨Spec.step_rejected _ _, rfl, rfl⟩
  · intro l h; cases h
  · split
    · intro l h; cases h
    · intro l h; cases h; exact ⟨Spec.step_rejected _ _, rfl, rfl⟩

/-- a step with a linearization record performs that operation of the sequential stack on the ghost
    stack; a step without one leaves the ghost stack unchanged -/
theorem stepPc_spec (m : Mem) (n t now : Nat) (th : Thread) (pc : Pc) (hpc : th.pc = pc)
    (hG : GInv m) (hT : TInv m t pc) :
    (∀ l, (stepPc m n t now th pc).lin = some l →
        Spec.step m.abs l.op l.res = some (stepPc m n t now th pc).mem.abs ∧ l.tid = t ∧ l.tLin = now) ∧
    ((stepPc m n t now th pc).lin = none → (stepPc m n t now th pc).mem.abs = m.abs) := by
  cases pc with
  | idle =>
    have h := invoke_inv m n t now th hpc
    have h2 := invoke_spec m n t now th
    simp only [stepPc]
    rw [h.1]
    exact ⟨h2, fun _ => rfl⟩
  | pushRd pre tl => exact ⟨fun l h => (by cases h), fun _ => rfl⟩
  | pushWr pre tl nxt => exact ⟨fun l h => (by cases h), fun _ => rfl⟩
  | pushFence pre tl nxt => exact ⟨fun l h => (by cases h), fun _ => rfl⟩
  | pushCas pre tl nxt =>
    simp only [stepPc]
    split
    · exact ⟨fun l h => by cases h; exact ⟨rfl, rfl, rfl⟩, fun h => by cases h⟩
    · exact ⟨fun l h => (by cases h), fun _ => rfl⟩
  | popRdC tr => exact ⟨fun l h => (by cases h), fun _ => rfl⟩
  | popFence tr c => exact ⟨fun l h => (by cases h), fun _ => rfl⟩
  | popRdI tr c =>
    simp only [stepPc]
    split
    · rename_i htop
      have hs := hG.seg
      rw [htop] at hs
      have hnil := hs.nil_of_zero
      refine ⟨fun l h => ?_, fun h => by cases h⟩
      cases h
      refine ⟨?_, rfl, rfl⟩
      simp [Spec.step, hnil]
    · exact ⟨fun l h => (by cases h), fun _ => rfl⟩
  | popRdN tr c it => exact ⟨fun l h => (by cases h), fun _ => rfl⟩
  | popCas tr c it nx =>
    obtain ⟨h1, h2, h3⟩ := hT
    simp only [stepPc]
    split
    · rename_i hcas
      obtain ⟨rest, habs, _⟩ := hG.abs_of_top hcas.2 h2
      refine ⟨fun l h => ?_, fun h => by cases h⟩
      cases h
      refine ⟨?_, rfl, rfl⟩
      obtain ⟨x, rfl⟩ := Nat.exists_eq_succ_of_ne_zero h2
      simp [Spec.step, habs, popCommit]
    · split
      · rename_i htr
        refine ⟨fun l h => ?_, fun h => by cases h⟩
        cases h
        refine ⟨?_, rfl, rfl⟩
        simp [Spec.step, htr]
      · exact ⟨fun l h => (by cases h), fun _ => rfl⟩
  | popWmb tr it => exact ⟨fun l h => (by cases h), fun _ => rfl⟩
  | popClr tr it => exact ⟨fun l h => (by cases h), fun _ => rfl⟩
  | setNx x v =>
    exact ⟨fun l h => by cases h; exact ⟨rfl, rfl, rfl⟩, fun h => by cases h⟩

/-! ## per-thread bookkeeping -/

/-- the linearized but not yet returned operation of a thread -/
def pending (t : Nat) (th : Thread) : List LinRec :=
  match th.pc with
  | .popWmb tr it => [⟨t, .pop tr, .item it, th.tInv, th.tLin⟩]
  | .popClr tr it => [⟨t, .pop tr, .item it, th.tInv, th.tLin⟩]
  | _ => []

/-- what thread `t` has contributed to the linearization order -/
def linsOf (t : Nat) (th : Thread) : List LinRec := th.hist.map (OpRec.lin t) ++ pending t th

theorem stepPc_lins (m : Mem) (n t now : Nat) (th : Thread) (pc : Pc) (hpc : th.pc = pc) :
    linsOf t (stepPc m n t now th pc).th = linsOf t th ++ (stepPc m n t now th pc).lin.toList := by
  cases pc with
  | idle =>
    simp only [stepPc]
    unfold invoke
    split
    · simp
    · split <;> simp [linsOf, pending, hpc, Thread.finish, OpRec.lin]
    · simp [linsOf, pending, hpc]
    · split <;> simp [linsOf, pending, hpc, Thread.finish, OpRec.lin]
  | pushCas pre tl nxt =>
    simp only [stepPc]; split <;> simp [linsOf, pending, hpc, Thread.finish, Thread.goto, OpRec.lin]
  | popRdI tr c =>
    simp only [stepPc]; split <;> simp [linsOf, pending, hpc, Thread.finish, Thread.goto, OpRec.lin]
  | popCas tr c it nx =>
    simp only [stepPc]
    split
    · simp [linsOf, pending, hpc]
    · split <;> simp [linsOf, pending, hpc, Thread.finish, Thread.goto, OpRec.lin]
  | pushRd pre tl => simp [stepPc, linsOf, pending, hpc, Thread.goto]
  | pushWr pre tl nxt => simp [stepPc, linsOf, pending, hpc, Thread.goto]
  | pushFence pre tl nxt => simp [stepPc, linsOf, pending, hpc, Thread.goto]
  | popRdC tr => simp [stepPc, linsOf, pending, hpc, Thread.goto]
  | popFence tr c => simp [stepPc, linsOf, pending, hpc, Thread.goto]
  | popRdN tr c it => simp [stepPc, linsOf, pending, hpc, Thread.goto]
  | popWmb tr it => simp [stepPc, linsOf, pending, hpc, Thread.goto]
  | popClr tr it => simp [stepPc, linsOf, pending, hpc, Thread.finish, OpRec.lin]
  | setNx x v => simp [stepPc, linsOf, pending, hpc, Thread.finish, OpRec.lin]

/-- time stamps of a thread: completed operations have inv ≤ lin ≤ ret < now, the running one was
    invoked before now, a pending linearization lies between its invocation and now -/
structure TimeOk (t now : Nat) (th : Thread) : Prop where
  hist : ∀ r ∈ th.hist, r.tInv ≤ r.tLin ∧ r.tLin ≤ r.tRet ∧ r.tRet < now
  run : th.pc ≠ .idle → th.tInv < now
  pend : ∀ l ∈ pending t th, l.tInv ≤ l.tLin ∧ l.tLin < now

theorem TimeOk.mono {t now : Nat} {th : Thread} (h : TimeOk t now th) : TimeOk t (now + 1) th :=
  ⟨fun r hr => by have := h.hist r hr; omega, fun hp => by have := h.run hp; omega,
   fun l hl => by have := h.pend l hl; omega⟩

theorem TimeOk.goto {t now : Nat} {th : Thread} (h : TimeOk t now th) (hrun : th.tInv < now) (pc' : Pc)
    (hp : ∀ l ∈ pending t (th.goto pc'), l.tInv ≤ l.tLin ∧ l.tLin < now + 1) : TimeOk t (now + 1) (th.goto pc') :=
  ⟨fun r hr => by have := h.hist r hr; omega, fun _ => Nat.lt_succ_of_lt hrun, hp⟩

theorem TimeOk.finish {t now : Nat} {th : Thread} (h : TimeOk t now th) (op : Op) (r : Res) (a : Nat)
    (hab : th.tInv ≤ a ∧ a ≤ now) : TimeOk t (now + 1) (th.finish op r a now) := by
  refine ⟨fun r hr => ?_, fun hp => absurd rfl hp, fun l hl => by simp [pending, Thread.finish] at hl⟩
  rcases List.mem_append.1 hr with hr | hr
  · have := h.hist r hr; omega
  · simp only [List.mem_singleton] at hr; subst hr; simp only; omega

theorem TimeOk.invoke {t now : Nat} {th : Thread} (h : TimeOk t now th) (rest : List Op) (pc' : Pc)
    (hp : pending t { th with todo := rest, tInv := now, pc := pc' } = []) :
    TimeOk t (now + 1) { th with todo := rest, tInv := now, pc := pc' } :=
  ⟨fun r hr => by have := h.hist r hr; omega, fun _ => Nat.lt_succ_self now, fun l hl => by rw [hp] at hl; cases hl⟩

theorem TimeOk.reject {t now : Nat} {th : Thread} (h : TimeOk t now th) (rest : List Op) (op : Op) :
    TimeOk t (now + 1) (Thread.finish { th with todo := rest, tInv := now } op .rejected now now) := by
  refine ⟨fun r hr => ?_, fun hp => absurd rfl hp, fun l hl => by simp [pending, Thread.finish] at hl⟩
  rcases List.mem_append.1 hr with hr | hr
  · have := h.hist r hr; omega
  · simp only [List.mem_singleton] at hr; subst hr; simp only; omega

theorem stepPc_time (m : Mem) (n t now : Nat) (th : Thread) (pc : Pc) (hpc : th.pc = pc)
    (h : TimeOk t now th) : TimeOk t (now + 1) (stepPc m n t now th pc).th := by
  have hrun : pc ≠ .idle → th.tInv < now := fun hp => h.run (hpc ▸ hp)
  cases pc with
  | idle =>
    simp only [stepPc]
    unfold invoke
    split
    · exact h.mono
    · split
      · exact h.invoke _ _ rfl
      · exact h.reject _ _
    · exact h.invoke _ _ rfl
    · split
      · exact h.invoke _ _ rfl
      · exact h.reject _ _
  | pushRd pre tl => exact h.goto (hrun (by simp)) _ (by simp [pending, Thread.goto])
  | pushWr pre tl nxt => exact h.goto (hrun (by simp)) _ (by simp [pending, Thread.goto])
  | pushFence pre tl nxt => exact h.goto (hrun (by simp)) _ (by simp [pending, Thread.goto])
  | pushCas pre tl nxt =>
    have := hrun (by simp)
    simp only [stepPc]
    split
    · exact h.finish _ _ _ (by omega)
    · exact h.goto this _ (by simp [pending, Thread.goto])
  | popRdC tr => exact h.goto (hrun (by simp)) _ (by simp [pending, Thread.goto])
  | popFence tr c => exact h.goto (hrun (by simp)) _ (by simp [pending, Thread.goto])
  | popRdI tr c =>
    have := hrun (by simp)
    simp only [stepPc]
    split
    · exact h.finish _ _ _ (by omega)
    · exact h.goto this _ (by simp [pending, Thread.goto])
  | popRdN tr c it => exact h.goto (hrun (by simp)) _ (by simp [pending, Thread.goto])
  | popCas tr c it nx =>
    have := hrun (by simp)
    simp only [stepPc]
    split
    · refine ⟨fun r hr => by have := h.hist r hr; omega, fun _ => Nat.lt_succ_of_lt this, fun l hl => ?_⟩
      simp only [pending, List.mem_singleton] at hl
      subst hl; simp only; omega
    · split
      · exact h.finish _ _ _ (by omega)
      · exact h.goto this _ (by simp [pending, Thread.goto])
  | popWmb tr it =>
    refine h.goto (hrun (by simp)) _ (fun l hl => ?_)
    have hp := h.pend l (by simpa [pending, Thread.goto, hpc] using hl)
    omega
  | popClr tr it =>
    have hp := h.pend ⟨t, .pop tr, .item it, th.tInv, th.tLin⟩ (by simp [pending, hpc])
    simp only at hp
    exact h.finish _ _ _ (by omega)
  | setNx x v =>
    have := hrun (by simp)
    exact h.finish _ _ _ (by omega)


theorem stepPc_lin_stamp (m : Mem) (n t now : Nat) (th : Thread) (pc : Pc) (hpc : th.pc = pc)
    (h : TimeOk t now th) : ∀ l, (stepPc m n t now th pc).lin = some l → l.tInv ≤ l.tLin := by
  have hrun : pc ≠ .idle → th.tInv < now := fun hp => h.run (hpc ▸ hp)
  cases pc with
  | idle =>
    simp only [stepPc]
    unfold invoke
    split
    · intro l hl; cases hl
    · split
      · intro l hl; cases hl
      · intro l hl; cases hl; exact Nat.le_refl _
    · intro l hl; cases hl
    · split
      · intro l hl; cases hl
      · intro l hl; cases hl; exact Nat.le_refl _
  | pushCas pre tl nxt =>
    have := hrun (by simp)
    simp only [stepPc]
    split
    · intro l hl; cases hl; exact Nat.le_of_lt this
    · intro l hl; cases hl
  | popRdI tr c =>
    have := hrun (by simp)
    simp only [stepPc]
    split
    · intro l hl; cases hl; exact Nat.le_of_lt this
    · intro l hl; cases hl
  | popCas tr c it nx =>
    have := hrun (by simp)
    simp only [stepPc]
    split
    · intro l hl; cases hl; exact Nat.le_of_lt this
    · split
      · intro l hl; cases hl; exact Nat.le_of_lt this
      · intro l hl; cases hl
  | setNx x v =>
    have := hrun (by simp)
    intro l hl; cases hl; exact Nat.le_of_lt this
  | pushRd pre tl => intro l hl; cases hl
  | pushWr pre tl nxt => intro l hl; cases hl
  | pushFence pre tl nxt => intro l hl; cases hl
  | popRdC tr => intro l hl; cases hl
  | popFence tr c => intro l hl; cases hl
  | popRdN tr c it => intro l hl; cases hl
  | popWmb tr it => intro l hl; cases hl
  | popClr tr it => intro l hl; cases hl

/-! ## programs -/

/-- the operation a thread is executing -/
def pcOp : Pc → List Op
  | .idle => []
  | .pushRd pre tl => [.push pre tl]
  | .pushWr pre tl _ => [.push pre tl]
  | .pushFence pre tl _ => [.push pre tl]
  | .pushCas pre tl _ => [.push pre tl]
  | .popRdC tr => [.pop tr]
  | .popFence tr _ => [.pop tr]
  | .popRdI tr _ => [.pop tr]
  | .popRdN tr _ _ => [.pop tr]
  | .popCas tr _ _ _ => [.pop tr]
  | .popWmb tr _ => [.pop tr]
  | .popClr tr _ => [.pop tr]
  | .setNx x v => [.setNext x v]

/-- completed operations, the running one and the remaining ones make up the thread's program -/
def ProgOk (prog : List Op) (th : Thread) : Prop :=
  th.hist.map (fun r => r.op) ++ pcOp th.pc ++ th.todo = prog

theorem stepPc_prog (m : Mem) (n t now : Nat) (th : Thread) (pc : Pc) (hpc : th.pc = pc) (prog : List Op)
    (h : ProgOk prog th) : ProgOk prog (stepPc m n t now th pc).th := by
  unfold ProgOk at h ⊢
  rw [hpc] at h
  cases pc with
  | idle =>
    simp only [stepPc]
    unfold invoke
    split
    · rw [hpc]; exact h
    · rename_i heq; rw [heq] at h; split <;> simpa [pcOp, Thread.finish] using h
    · rename_i heq; rw [heq] at h; simpa [pcOp] using h
    · rename_i heq; rw [heq] at h; split <;> simpa [pcOp, Thread.finish] using h
  | pushCas pre tl nxt => simp only [stepPc]; split <;> simpa [pcOp, Thread.finish, Thread.goto] using h
  | popRdI tr c => simp only [stepPc]; split <;> simpa [pcOp, Thread.finish, Thread.goto] using h
  | popCas tr c it nx =>
    simp only [stepPc]
    split
    · simpa [pcOp] using h
    · split <;> simpa [pcOp, Thread.finish, Thread.goto] using h
  | pushRd pre tl => simpa [stepPc, pcOp, Thread.goto] using h
  | pushWr pre tl nxt => simpa [stepPc, pcOp, Thread.goto] using h
  | pushFence pre tl nxt => simpa [stepPc, pcOp, Thread.goto] using h
  | popRdC tr => simpa [stepPc, pcOp, Thread.goto] using h
  | popFence tr c => simpa [stepPc, pcOp, Thread.goto] using h
  | popRdN tr c it => simpa [stepPc, pcOp, Thread.goto] using h
  | popWmb tr it => simpa [stepPc, pcOp, Thread.goto] using h
  | popClr tr it => simpa [stepPc, pcOp, Thread.finish] using h
  | setNx x v => simpa [stepPc, pcOp, Thread.finish] using h

/-! ## the global invariant -/

structure ThOk (c : Config) (s : State) (t : Nat) (th : Thread) : Prop where
  tinv : TInv s.mem t th.pc
  time : TimeOk t s.time th
  lins : s.lins.filter (fun l => l.tid == t) = linsOf t th
  prog : ProgOk (c.progs.getD t []) th

structure Inv (c : Config) (s : State) : Prop where
  g : GInv s.mem
  th : ∀ t th, s.thr[t]? = some th → ThOk c s t th
  len : s.thr.length = c.progs.length
  sorted : s.lins.Pairwise (fun a b => a.tLin < b.tLin)
  bound : ∀ l ∈ s.lins, l.tLin < s.time
  stamp : ∀ l ∈ s.lins, l.tInv ≤ l.tLin
  spec : Spec.replay c.stack (s.lins.map LinRec.ev) = some s.mem.abs

theorem Inv.init (c : Config) (hc : c.WF) : Inv c (init c) := by
  refine ⟨⟨hc.2.1, hc.1, hc.2.2⟩, ?_, by simp [Lifo.init], by simp [Lifo.init], by simp [Lifo.init], by simp [Lifo.init], by simp [Lifo.init, Spec.replay]⟩
  intro t th hth
  simp only [Lifo.init, List.getElem?_map] at hth
  cases hp : c.progs[t]? with
  | none => rw [hp] at hth; cases hth
  | some p =>
    rw [hp] at hth; cases hth
    refine ⟨trivial, ⟨by simp, by simp, by simp [pending]⟩, by simp [Lifo.init, linsOf, pending], ?_⟩
    simp [ProgOk, pcOp, List.getD, hp]

/-- everything one needs to know about a micro step of thread `t` -/
theorem stepTh_facts (c : Config) (s : State) (t : Nat) (th : Thread) (hG : GInv s.mem) (h : ThOk c s t th) :
    GInv (stepTh s.mem s.n t s.time th).mem ∧
    TInv (stepTh s.mem s.n t s.time th).mem t (stepTh s.mem s.n t s.time th).th.pc ∧
    (∀ u, u ≠ t → Stable u s.mem (stepTh s.mem s.n t s.time th).mem) ∧
    (∀ l, (stepTh s.mem s.n t s.time th).lin = some l →
        Spec.step s.mem.abs l.op l.res = some (stepTh s.mem s.n t s.time th).mem.abs ∧ l.tid = t ∧ l.tLin = s.time) ∧
    ((stepTh s.mem s.n t s.time th).lin = none → (stepTh s.mem s.n t s.time th).mem.abs = s.mem.abs) ∧
    linsOf t (stepTh s.mem s.n t s.time th).th = linsOf t th ++ (stepTh s.mem s.n t s.time th).lin.toList ∧
    TimeOk t (s.time + 1) (stepTh s.mem s.n t s.time th).th ∧
    (∀ l, (stepTh s.mem s.n t s.time th).lin = some l → l.tInv ≤ l.tLin) ∧
    ProgOk (c.progs.getD t []) (stepTh s.mem s.n t s.time th).th := by
  have h1 := stepPc_inv s.mem s.n t s.time th th.pc rfl hG h.tinv
  have h2 := stepPc_spec s.mem s.n t s.time th th.pc rfl hG h.tinv
  exact ⟨h1.1, h1.2.1, h1.2.2, h2.1, h2.2, stepPc_lins s.mem s.n t s.time th th.pc rfl,
    stepPc_time s.mem s.n t s.time th th.pc rfl h.time, stepPc_lin_stamp s.mem s.n t s.time th th.pc rfl h.time, stepPc_prog s.mem s.n t s.time th th.pc rfl _ h.prog⟩

theorem Inv.step {c : Config} {s : State} (h : Inv c s) (t : Nat) : Inv c (step s t) := by
  unfold Lifo.step
  cases hth : s.thr[t]? with
  | none => exact h
  | some th =>
    simp only
    have ht := h.th t th hth
    obtain ⟨f1, f2, f3, f4, f5, f6, f7, f9, f8⟩ := stepTh_facts c s t th h.g ht
    generalize stepTh s.mem s.n t s.time th = o at *
    have htlt : t < s.thr.length := by
      rcases Nat.lt_or_ge t s.thr.length with hlt | hge
      · exact hlt
      · rw [List.getElem?_eq_none hge] at hth; cases hth
    -- facts about the (optional) linearization record of this step
    have hfilt : ∀ u, (o.lin.toList).filter (fun l => l.tid == u) = if u = t then o.lin.toList else [] := by
      intro u
      cases hl : o.lin with
      | none => simp
      | some l =>
        have := (f4 l hl).2.1
        by_cases hu : u = t
        · simp [hu, this]
        · simp only [Option.toList_some, hu, ite_false]
          simp only [List.filter_cons, List.filter_nil, this]
          have : (t == u) = false := by simp; exact fun h => hu h.symm
          simp [this]
    have hspec : Spec.replay c.stack ((s.lins ++ o.lin.toList).map LinRec.ev) = some o.mem.abs := by
      cases hl : o.lin with
      | none => simp only [Option.toList_none, List.append_nil]; rw [f5 hl]; exact h.spec
      | some l =>
        simp only [Option.toList_some, List.map_append, List.map_cons, List.map_nil]
        rw [Spec.replay_append, h.spec]
        exact (f4 l hl).1
    refine ⟨f1, ?_, by simp [h.len], ?_, ?_, ?_, hspec⟩
    · intro u thu hu
      rw [List.getElem?_set] at hu
      by_cases hut : t = u
      · subst hut
        simp only [htlt, ite_true] at hu
        cases hu
        refine ⟨f2, f7, ?_, f8⟩
        simp only [List.filter_append, hfilt, ite_true]
        rw [ht.lins, f6]
      · simp only [hut, ite_false] at hu
        have hu' := h.th u thu hu
        refine ⟨hu'.tinv.stable (f3 u (fun h => hut h.symm)), hu'.time.mono, ?_, hu'.prog⟩
        have hne : u ≠ t := fun h => hut h.symm
        simp only [List.filter_append, hfilt, if_neg hne, List.append_nil]
        exact hu'.lins
    · rw [List.pairwise_append]
      refine ⟨h.sorted, ?_, ?_⟩
      · cases o.lin <;> simp
      · intro a ha b hb
        cases hl : o.lin with
        | none => rw [hl] at hb; simp at hb
        | some l =>
          rw [hl] at hb; simp only [Option.toList_some, List.mem_singleton] at hb
          subst hb
          rw [(f4 b hl).2.2]; exact h.bound a ha
    · intro l hl
      rcases List.mem_append.1 hl with hl | hl
      · have := h.bound l hl; simp only; omega
      · cases hlin : o.lin with
        | none => rw [hlin] at hl; simp at hl
        | some l' =>
          rw [hlin] at hl; simp only [Option.toList_some, List.mem_singleton] at hl
          subst hl
          rw [(f4 l hlin).2.2]; exact Nat.lt_succ_self _
    · intro l hl
      rcases List.mem_append.1 hl with hl | hl
      · exact h.stamp l hl
      · cases hlin : o.lin with
        | none => rw [hlin] at hl; simp at hl
        | some l' =>
          rw [hlin] at hl; simp only [Option.toList_some, List.mem_singleton] at hl
          subst hl
          exact f9 l hlin

theorem Inv.run (c : Config) (hc : c.WF) (sched : List Nat) : Inv c (run c sched) := by
  unfold Lifo.run
  suffices ∀ s, Inv c s → Inv c (sched.foldl Lifo.step s) from this _ (Inv.init c hc)
  induction sched with
  | nil => intro s h; exact h
  | cons t r ih => intro s h; exact ih _ (h.step t)

/-! ## order in a list sorted by time stamp -/

/-- `a` occurs strictly before `b` in `S` -/
def Before (S : List LinRec) (a b : LinRec) : Prop := ∃ l1 l2 l3, S = l1 ++ a :: l2 ++ b :: l3

theorem before_of_sorted {S : List LinRec} (hs : S.Pairwise (fun a b => a.tLin < b.tLin)) {a b : LinRec}
    (ha : a ∈ S) (hb : b ∈ S) (hab : a.tLin < b.tLin) : Before S a b := by
  induction S with
  | nil => cases ha
  | cons x xs ih =>
    rw [List.pairwise_cons] at hs
    rcases List.mem_cons.1 ha with ha' | ha'
    · subst ha'
      rcases List.mem_cons.1 hb with hb | hb
      · subst hb; omega
      · obtain ⟨l2, l3, h⟩ := List.append_of_mem hb
        exact ⟨[], l2, l3, by simp [h]⟩
    · rcases List.mem_cons.1 hb with hb | hb
      · subst hb; have := hs.1 a ha'; omega
      · obtain ⟨l1, l2, l3, h⟩ := ih hs.2 ha' hb
        exact ⟨x :: l1, l2, l3, by simp [h]⟩

end ParsecVerif.Lifo
