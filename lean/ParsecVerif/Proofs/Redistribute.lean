/-
  Helper lemmas for C21 (redistribution copies exactly the requested window).
  Core only.  The arithmetic is done by `omega` with the products `b * q` as atoms; the facts about
  `/` and `%` by a variable divisor are supplied explicitly (`div_lo`, `div_hi`, `mod_eq_sub`, `mul_lt_step`).
-/
import ParsecVerif.Model.Redistribute
namespace ParsecVerif.Redistribute

/-! ## division by a variable -/

theorem div_lo (b x : Nat) : b * (x / b) ≤ x := Nat.mul_div_le x b

theorem div_hi (b x : Nat) (hb : 0 < b) : x < b * (x / b) + b := by
  have h1 := Nat.div_add_mod x b
  have h2 := Nat.mod_lt x hb
  omega

theorem mod_eq_sub (b x : Nat) : x % b = x - b * (x / b) := by
  have h1 := Nat.div_add_mod x b
  omega

theorem mul_lt_step {b q q' : Nat} (h : q < q') : b * q + b ≤ b * q' := by
  have h1 := Nat.mul_le_mul_left b (Nat.succ_le_of_lt h)
  rw [Nat.mul_succ] at h1
  exact h1

theorem mul_le_step {b q q' : Nat} (h : q ≤ q') : b * q ≤ b * q' := Nat.mul_le_mul_left b h

theorem div_unique {b q x r : Nat} (h1 : b * q + r = x) (h2 : r < b) : x / b = q := by
  subst h1
  rw [Nat.mul_add_div (by omega), Nat.div_eq_of_lt h2]
  rfl

/-- a quotient is determined by the block the number lies in -/
theorem div_eq_of_bounds {b q x : Nat} (h1 : b * q ≤ x) (h2 : x < b * q + b) : x / b = q :=
  div_unique (r := x - b * q) (by omega) (by omega)

theorem sub_sub_one_mul (y q b : Nat) : (y - q - 1) * b = b * y - b * q - b := by
  rw [Nat.sub_mul, Nat.sub_mul, Nat.one_mul, Nat.mul_comm y, Nat.mul_comm q]

theorem sub_mul_comm (y q b : Nat) : (y - q) * b = b * y - b * q := by
  rw [Nat.sub_mul, Nat.mul_comm y, Nat.mul_comm q]

/-- `BR = (i_start + len - 1) % b + 1` is the part of `[s, s+len)` that lies in its last block -/
theorem br_eq (b s len : Nat) (hb : 0 < b) (hl : 0 < len) :
    (s % b + len - 1) % b + 1 = s + len - b * ((s + len - 1) / b) := by
  have e1 := mod_eq_sub b s
  have a1 := div_lo b s
  have a3 := div_lo b (s + len - 1)
  have a4 := div_hi b (s + len - 1) hb
  have mono : s / b ≤ (s + len - 1) / b := Nat.div_le_div_right (by omega)
  have a5 := mul_le_step (b := b) mono
  have e2 : s % b + len - 1 = b * ((s + len - 1) / b - s / b) + (s + len - 1 - b * ((s + len - 1) / b)) := by
    rw [Nat.mul_sub]; omega
  rw [e2, Nat.mul_add_mod, Nat.mod_eq_of_lt (by omega)]
  omega

/-! ## one dimension: the segment copied for source tile index `y` -/

structure Seg where
  len : Nat
  src : Nat
  dst : Nat
deriving Repr, DecidableEq

/-- the one-dimensional projection of the `if / else if` chain of `CORE_redistribute_update` -/
def seg1 (tl br ys ye y istart bY off : Nat) : Option Seg :=
  if y = ys then some ⟨tl, istart, off⟩
  else if y > ys ∧ y < ye then some ⟨bY, 0, off + tl + (y - ys - 1) * bY⟩
  else if y = ye ∧ ys ≠ ye then some ⟨br, 0, off + tl + (ye - ys - 1) * bY⟩
  else none

def View.seg (v : View) : Option Seg := seg1 v.tl v.br v.ys v.ye v.y v.istart v.bY v.off

/-- Cutting `[s, s+len)` by blocks of size `b`: the segment for block `y` (computed with the JDF's `TL`,
    `BR`, `i_start`, `m_Y_start`, `m_Y_end`) is exactly `[s,s+len) ∩ [b*y, b*y+b)`. -/
theorem yseg (b s len off y : Nat) (hb : 0 < b) (hl : 0 < len)
    (hy1 : s / b ≤ y) (hy2 : y ≤ (s + len - 1) / b) :
    ∃ sg, seg1 (min len (b - s % b)) ((s % b + len - 1) % b + 1) (s / b) ((s + len - 1) / b) y (s % b) b off = some sg ∧
      ∃ P, sg.dst = off + P ∧ b * y + sg.src = s + P ∧ P + sg.len ≤ len ∧ sg.src + sg.len ≤ b ∧ 1 ≤ sg.len ∧
        (∀ x, s ≤ x → x < s + len → x / b = y → s + P ≤ x ∧ x < s + P + sg.len) := by
  have hbr := br_eq b s len hb hl
  have e1 := mod_eq_sub b s
  have a1 := div_lo b s
  have a2 := div_hi b s hb
  have a3 := div_lo b (s + len - 1)
  have a4 := div_hi b (s + len - 1) hb
  rw [hbr, e1]
  generalize hqS : s / b = qS at *
  generalize hqE : (s + len - 1) / b = qE at *
  have xfact : ∀ x, x / b = y → b * y ≤ x ∧ x < b * y + b := by
    intro x hx; subst hx; exact ⟨div_lo b x, div_hi b x hb⟩
  by_cases c1 : y = qS
  · subst c1
    refine ⟨⟨min len (b - (s - b * y)), s - b * y, off⟩, by simp [seg1], 0, ?_⟩
    by_cases c2 : y = qE
    · subst c2
      refine ⟨rfl, by simp only; omega, by simp only; omega, by simp only; omega, by simp only; omega, ?_⟩
      intro x h1 h2 h3; have := xfact x h3; simp only; omega
    · have := mul_lt_step (b := b) (show y < qE by omega)
      refine ⟨rfl, by simp only; omega, by simp only; omega, by simp only; omega, by simp only; omega, ?_⟩
      intro x h1 h2 h3; have := xfact x h3; simp only; omega
  · have l1 := mul_lt_step (b := b) (show qS < y by omega)
    by_cases c2 : y = qE
    · subst c2
      have hne : qS ≠ y := by omega
      refine ⟨⟨s + len - b * y, 0, off + min len (b - (s - b * qS)) + (y - qS - 1) * b⟩,
        by simp [seg1, c1, hne], b * y - s, ?_⟩
      rw [sub_sub_one_mul]
      refine ⟨by simp only; omega, by simp only; omega, by simp only; omega, by simp only; omega,
        by simp only; omega, ?_⟩
      intro x h1 h2 h3; have := xfact x h3; simp only; omega
    · have l2 := mul_lt_step (b := b) (show y < qE by omega)
      have hlt : y > qS ∧ y < qE := by omega
      refine ⟨⟨b, 0, off + min len (b - (s - b * qS)) + (y - qS - 1) * b⟩,
        by simp [seg1, c1, hlt], b * y - s, ?_⟩
      rw [sub_sub_one_mul]
      refine ⟨by simp only; omega, by simp only; omega, by simp only; omega, by simp only; omega,
        by simp only; omega, ?_⟩
      intro x h1 h2 h3; have := xfact x h3; simp only; omega

/-! ## one dimension: the part of the window that lies in target tile `t` -/

/-- window coordinate at which the part of target tile `t` starts -/
def Dim.aT (d : Dim) (t : Nat) : Nat := if t = d.tStart then 0 else d.sizeT t
/-- source element coordinate at which it starts (the common sub-expression of `i_start`, `m_Y_start`, `m_Y_end`) -/
def Dim.srcPos (d : Dim) (t : Nat) : Nat := if t = d.tStart then d.dY else d.sizeT t + d.dY

structure Dim.Valid (d : Dim) : Prop where
  bY : 0 < d.bY
  bT : 0 < d.bT
  size : 0 < d.size

theorem Dim.iStart_eq (d : Dim) (t : Nat) : d.iStart t = d.srcPos t % d.bY := by
  unfold Dim.iStart Dim.srcPos; split <;> rfl
theorem Dim.yStart_eq (d : Dim) (t : Nat) : d.yStart t = d.srcPos t / d.bY := by
  unfold Dim.yStart Dim.srcPos; split <;> rfl
theorem Dim.yEnd_eq (d : Dim) (t : Nat) : d.yEnd t = (d.srcPos t + d.tInner t - 1) / d.bY := by
  unfold Dim.yEnd Dim.srcPos; split <;> rfl

/-- `getsize`, `sizei_T`, `offset_row`: the part of target tile `t` is `[dT, dT+size) ∩ [bT*t, bT*t+bT)`. -/
theorem tside (d : Dim) (hb : 0 < d.bT) (hs : 0 < d.size) (t : Nat) (h1 : d.tStart ≤ t) (h2 : t ≤ d.tEnd) :
    d.srcPos t = d.dY + d.aT t ∧ d.bT * t + d.offT t = d.dT + d.aT t ∧ d.aT t + d.tInner t ≤ d.size ∧
    d.offT t + d.tInner t ≤ d.bT ∧ 1 ≤ d.tInner t ∧
    (∀ w, w < d.size → (d.dT + w) / d.bT = t → d.aT t ≤ w ∧ w < d.aT t + d.tInner t) := by
  have e1 := mod_eq_sub d.bT d.dT
  have a1 := div_lo d.bT d.dT
  have a2 := div_hi d.bT d.dT hb
  have a3 := div_lo d.bT (d.size + d.dT - 1)
  have a4 := div_hi d.bT (d.size + d.dT - 1) hb
  have xfact : ∀ x, x / d.bT = t → d.bT * t ≤ x ∧ x < d.bT * t + d.bT := by
    intro x hx; subst hx; exact ⟨div_lo d.bT x, div_hi d.bT x hb⟩
  unfold Dim.srcPos Dim.aT Dim.offT Dim.tInner Dim.sizeT getsize
  unfold Dim.tStart Dim.tEnd at *
  rw [e1]
  simp only [sub_mul_comm]
  generalize d.dT / d.bT = qS at *
  generalize (d.size + d.dT - 1) / d.bT = qE at *
  by_cases c1 : t = qS
  · subst c1
    by_cases c2 : t = qE
    · subst c2
      simp only [↓reduceIte]
      refine ⟨by omega, by omega, by omega, by omega, by omega, ?_⟩
      intro w hw hx; have := xfact _ hx; omega
    · have l2 := mul_lt_step (b := d.bT) (show t < qE by omega)
      simp only [c2, ↓reduceIte]
      refine ⟨by omega, by omega, by omega, by omega, by omega, ?_⟩
      intro w hw hx; have := xfact _ hx; omega
  · have hne : ¬ qS = qE := by omega
    have l1 := mul_lt_step (b := d.bT) (show qS < t by omega)
    by_cases c2 : t = qE
    · subst c2
      simp only [c1, hne, ↓reduceIte]
      refine ⟨by omega, by omega, by omega, by omega, by omega, ?_⟩
      intro w hw hx; have := xfact _ hx; omega
    · have l2 := mul_lt_step (b := d.bT) (show t < qE by omega)
      simp only [c1, c2, hne, ↓reduceIte]
      refine ⟨by omega, by omega, by omega, by omega, by omega, ?_⟩
      intro w hw hx; have := xfact _ hx; omega

theorem Dim.view_seg (d : Dim) (t y : Nat) :
    (d.view t y).seg = seg1 (d.tl t) (d.br t) (d.yStart t) (d.yEnd t) y (d.iStart t) d.bY (d.offT t) := rfl

/-- the 1-D segment in the form of `yseg` -/
theorem Dim.view_seg' (d : Dim) (t y : Nat) :
    (d.view t y).seg = seg1 (min (d.tInner t) (d.bY - d.srcPos t % d.bY))
      ((d.srcPos t % d.bY + d.tInner t - 1) % d.bY + 1) (d.srcPos t / d.bY)
      ((d.srcPos t + d.tInner t - 1) / d.bY) y (d.srcPos t % d.bY) d.bY (d.offT t) := by
  rw [Dim.view_seg]; unfold Dim.tl Dim.br; rw [Dim.iStart_eq, Dim.yStart_eq, Dim.yEnd_eq]

/-- Soundness in one dimension: the segment of task `(t, y)` copies window coordinates `[w0, w0+len)`,
    from the right place to the right place, inside both tiles. -/
theorem dim_sound (d : Dim) (hv : d.Valid) (t y : Nat) (ht1 : d.tStart ≤ t) (ht2 : t ≤ d.tEnd)
    (hy1 : d.yStart t ≤ y) (hy2 : y ≤ d.yEnd t) :
    ∃ sg, (d.view t y).seg = some sg ∧ ∃ w0, d.bT * t + sg.dst = d.dT + w0 ∧ d.bY * y + sg.src = d.dY + w0 ∧
      w0 + sg.len ≤ d.size ∧ sg.dst + sg.len ≤ d.bT ∧ sg.src + sg.len ≤ d.bY ∧ 1 ≤ sg.len := by
  obtain ⟨t1, t2, t3, t4, t5, _⟩ := tside d hv.bT hv.size t ht1 ht2
  rw [Dim.yStart_eq] at hy1
  rw [Dim.yEnd_eq] at hy2
  obtain ⟨sg, hsg, P, p1, p2, p3, p4, p5, _⟩ := yseg d.bY (d.srcPos t) (d.tInner t) (d.offT t) y hv.bY t5 hy1 hy2
  refine ⟨sg, by rw [Dim.view_seg']; exact hsg, d.aT t + P, ?_⟩
  refine ⟨by omega, by omega, by omega, by omega, by omega, by omega⟩

/-- Completeness in one dimension: every window coordinate is copied by some task. -/
theorem dim_complete (d : Dim) (hv : d.Valid) (w : Nat) (hw : w < d.size) :
    ∃ t y sg k, d.tStart ≤ t ∧ t ≤ d.tEnd ∧ d.yStart t ≤ y ∧ y ≤ d.yEnd t ∧ (d.view t y).seg = some sg ∧
      k < sg.len ∧ d.bT * t + sg.dst + k = d.dT + w ∧ d.bY * y + sg.src + k = d.dY + w := by
  have ht1 : d.tStart ≤ (d.dT + w) / d.bT := Nat.div_le_div_right (by omega)
  have ht2 : (d.dT + w) / d.bT ≤ d.tEnd := Nat.div_le_div_right (by omega)
  obtain ⟨t1, t2, t3, t4, t5, t6⟩ := tside d hv.bT hv.size _ ht1 ht2
  obtain ⟨t7, t8⟩ := t6 w hw rfl
  generalize (d.dT + w) / d.bT = t at *
  have hy1 : d.srcPos t / d.bY ≤ (d.dY + w) / d.bY := Nat.div_le_div_right (by omega)
  have hy2 : (d.dY + w) / d.bY ≤ (d.srcPos t + d.tInner t - 1) / d.bY := Nat.div_le_div_right (by omega)
  obtain ⟨sg, hsg, P, p1, p2, p3, p4, p5, p6⟩ :=
    yseg d.bY (d.srcPos t) (d.tInner t) (d.offT t) _ hv.bY t5 hy1 hy2
  obtain ⟨p7, p8⟩ := p6 (d.dY + w) (by omega) (by omega) rfl
  refine ⟨t, (d.dY + w) / d.bY, sg, d.dY + w - (d.srcPos t + P), ht1, ht2, ?_, ?_, ?_, ?_, ?_, ?_⟩
  · rw [Dim.yStart_eq]; exact hy1
  · rw [Dim.yEnd_eq]; exact hy2
  · rw [Dim.view_seg']; exact hsg
  · omega
  · omega
  · omega

/-- Exactly once in one dimension: the target coordinate determines the task and the offset. -/
theorem dim_inj (d : Dim) (hv : d.Valid) (t y t' y' : Nat) (sg sg' : Seg) (k k' : Nat)
    (ht1 : d.tStart ≤ t) (ht2 : t ≤ d.tEnd) (hy1 : d.yStart t ≤ y) (hy2 : y ≤ d.yEnd t)
    (ht1' : d.tStart ≤ t') (ht2' : t' ≤ d.tEnd) (hy1' : d.yStart t' ≤ y') (hy2' : y' ≤ d.yEnd t')
    (hs : (d.view t y).seg = some sg) (hs' : (d.view t' y').seg = some sg') (hk : k < sg.len) (hk' : k' < sg'.len)
    (heq : d.bT * t + sg.dst + k = d.bT * t' + sg'.dst + k') : t = t' ∧ y = y' ∧ k = k' := by
  obtain ⟨s1, e1, w0, q1, q2, q3, q4, q5, q6⟩ := dim_sound d hv t y ht1 ht2 hy1 hy2
  obtain ⟨s2, e2, w0', r1, r2, r3, r4, r5, r6⟩ := dim_sound d hv t' y' ht1' ht2' hy1' hy2'
  rw [hs] at e1; rw [hs'] at e2
  cases e1; cases e2
  have ht : t = t' := by
    have h1 : (d.bT * t + sg.dst + k) / d.bT = t := div_eq_of_bounds (by omega) (by omega)
    have h2 : (d.bT * t' + sg'.dst + k') / d.bT = t' := div_eq_of_bounds (by omega) (by omega)
    rw [heq] at h1; omega
  subst ht
  have hy : y = y' := by
    have h1 : (d.bY * y + sg.src + k) / d.bY = y := div_eq_of_bounds (by omega) (by omega)
    have h2 : (d.bY * y' + sg'.src + k') / d.bY = y' := div_eq_of_bounds (by omega) (by omega)
    have : d.bY * y + sg.src + k = d.bY * y' + sg'.src + k' := by omega
    rw [this] at h1; omega
  subst hy
  rw [hs] at hs'; cases hs'
  exact ⟨rfl, rfl, by omega⟩

/-! ## two dimensions: `CORE_redistribute_update` is the product of two one-dimensional chains -/

def pairSeg : Option Seg → Option Seg → Option Rect
  | some a, some b => some ⟨a.len, b.len, a.src, b.src, a.dst, b.dst⟩
  | _, _ => none

def mkRect (a b : Seg) : Rect := ⟨a.len, b.len, a.src, b.src, a.dst, b.dst⟩

/-- a 3 × 3 nested `if / else if` chain is the pairing of two 3-chains (conditions are opaque here) -/
theorem chain_pair {A1 A2 A3 B1 B2 B3 : Prop} [Decidable A1] [Decidable A2] [Decidable A3]
    [Decidable B1] [Decidable B2] [Decidable B3] (a1 a2 a3 b1 b2 b3 : Seg) :
    (if A1 then
        (if B1 then some (mkRect a1 b1) else if B2 then some (mkRect a1 b2) else if B3 then some (mkRect a1 b3) else none)
      else if A2 then
        (if B1 then some (mkRect a2 b1) else if B2 then some (mkRect a2 b2) else if B3 then some (mkRect a2 b3) else none)
      else if A3 then
        (if B1 then some (mkRect a3 b1) else if B2 then some (mkRect a3 b2) else if B3 then some (mkRect a3 b3) else none)
      else none) =
    pairSeg (if A1 then some a1 else if A2 then some a2 else if A3 then some a3 else none)
            (if B1 then some b1 else if B2 then some b2 else if B3 then some b3 else none) := by
  by_cases h1 : A1 <;> by_cases h2 : A2 <;> by_cases h3 : A3 <;>
  by_cases k1 : B1 <;> by_cases k2 : B2 <;> by_cases k3 : B3 <;>
  simp only [h1, h2, h3, k1, k2, k3, ↓reduceIte, pairSeg, mkRect]

theorem coreUpdate_eq (r c : View) : coreUpdate r c = pairSeg r.seg c.seg := by
  unfold coreUpdate View.seg seg1
  exact chain_pair ⟨r.tl, r.istart, r.off⟩ ⟨r.bY, 0, r.off + r.tl + (r.y - r.ys - 1) * r.bY⟩
    ⟨r.br, 0, r.off + r.tl + (r.ye - r.ys - 1) * r.bY⟩ ⟨c.tl, c.istart, c.off⟩
    ⟨c.bY, 0, c.off + c.tl + (c.y - c.ys - 1) * c.bY⟩ ⟨c.br, 0, c.off + c.tl + (c.ye - c.ys - 1) * c.bY⟩

def stripDst (x : Rect) : Rect := ⟨x.rows, x.cols, x.sI, x.sJ, 0, 0⟩

theorem chain_send {A1 A2 A3 B1 B2 B3 : Prop} [Decidable A1] [Decidable A2] [Decidable A3]
    [Decidable B1] [Decidable B2] [Decidable B3] (hB : ¬ (B2 ∧ B3)) (x11 x12 x13 x21 x22 x23 x31 x32 x33 : Rect) :
    (if A1 then
        (if B1 then some (stripDst x11) else if B2 then some (stripDst x12) else if B3 then some (stripDst x13) else none)
      else if A2 then
        (if B1 then some (stripDst x21) else if B3 then some (stripDst x23) else none)
      else if A3 then
        (if B1 then some (stripDst x31) else if B2 then some (stripDst x32) else if B3 then some (stripDst x33) else none)
      else none : Option Rect).orElse (fun _ => if A2 ∧ B2 then some (stripDst x22) else none) =
    (if A1 then
        (if B1 then some x11 else if B2 then some x12 else if B3 then some x13 else none)
      else if A2 then
        (if B1 then some x21 else if B2 then some x22 else if B3 then some x23 else none)
      else if A3 then
        (if B1 then some x31 else if B2 then some x32 else if B3 then some x33 else none)
      else none : Option Rect).map stripDst := by
  by_cases h1 : A1 <;> by_cases h2 : A2 <;> by_cases h3 : A3 <;>
  by_cases k1 : B1 <;> by_cases k2 : B2 <;> by_cases k3 : B3 <;>
  first
    | (exfalso; exact hB ⟨k2, k3⟩)
    | simp only [h1, h2, h3, k1, k2, k3, ↓reduceIte, and_self, and_true, and_false,
        Option.orElse, Option.map]

/-- what the sender packs (`CORE_redistribute_send`, or the `INNER` datatype for the inner block) has the
    shape and source offsets of the block `CORE_redistribute_update` expects -/
theorem coreSend_eq (r c : View) :
    (coreSend r c).orElse (fun _ => packInner r c) = (coreUpdate r c).map stripDst := by
  unfold coreSend packInner coreUpdate
  refine chain_send (A1 := r.y = r.ys) (A2 := r.y > r.ys ∧ r.y < r.ye) (A3 := r.y = r.ye ∧ r.ys ≠ r.ye)
    (B1 := c.y = c.ys) (B2 := c.y > c.ys ∧ c.y < c.ye) (B3 := c.y = c.ye ∧ c.ys ≠ c.ye) ?_
    ⟨r.tl, c.tl, r.istart, c.istart, r.off, c.off⟩
    ⟨r.tl, c.bY, r.istart, 0, r.off, c.off + c.tl + (c.y - c.ys - 1) * c.bY⟩
    ⟨r.tl, c.br, r.istart, 0, r.off, c.off + c.tl + (c.ye - c.ys - 1) * c.bY⟩
    ⟨r.bY, c.tl, 0, c.istart, r.off + r.tl + (r.y - r.ys - 1) * r.bY, c.off⟩
    ⟨r.bY, c.bY, 0, 0, r.off + r.tl + (r.y - r.ys - 1) * r.bY, c.off + c.tl + (c.y - c.ys - 1) * c.bY⟩
    ⟨r.bY, c.br, 0, 0, r.off + r.tl + (r.y - r.ys - 1) * r.bY, c.off + c.tl + (c.ye - c.ys - 1) * c.bY⟩
    ⟨r.br, c.tl, 0, c.istart, r.off + r.tl + (r.ye - r.ys - 1) * r.bY, c.off⟩
    ⟨r.br, c.bY, 0, 0, r.off + r.tl + (r.ye - r.ys - 1) * r.bY, c.off + c.tl + (c.y - c.ys - 1) * c.bY⟩
    ⟨r.br, c.br, 0, 0, r.off + r.tl + (r.ye - r.ys - 1) * r.bY, c.off + c.tl + (c.ye - c.ys - 1) * c.bY⟩
  omega

/-! ## lists -/

theorem mem_rangeIncl {x lo hi : Nat} : x ∈ rangeIncl lo hi ↔ lo ≤ x ∧ x ≤ hi := by
  unfold rangeIncl
  simp only [List.mem_map, List.mem_range]
  constructor
  · rintro ⟨a, h, rfl⟩; omega
  · intro h; exact ⟨x - lo, by omega, by omega⟩

theorem flatMap_congr' {α β : Type} {l : List α} {f g : α → List β} (h : ∀ a ∈ l, f a = g a) :
    l.flatMap f = l.flatMap g := by
  induction l with
  | nil => rfl
  | cons x xs ih =>
    simp only [List.flatMap_cons]
    rw [h x (List.mem_cons_self ..), ih (fun a ha => h a (List.mem_cons_of_mem _ ha))]

theorem filterMap_eq_map_of {α β : Type} {l : List α} {f : α → Option β} {g : α → β}
    (h : ∀ a ∈ l, f a = some (g a)) : l.filterMap f = l.map g := by
  induction l with
  | nil => rfl
  | cons x xs ih =>
    rw [List.filterMap_cons, h x (List.mem_cons_self ..)]
    simp only [List.map_cons]
    rw [ih (fun a ha => h a (List.mem_cons_of_mem _ ha))]

theorem mem_rectCopies {p : Params} {k : Task} {r : Rect} {c : ECopy} :
    c ∈ rectCopies p k r ↔ ∃ a b, a < r.rows ∧ b < r.cols ∧
      c = ⟨p.mbT * k.mT + r.dI + a, p.nbT * k.nT + r.dJ + b, p.mbY * k.mY + r.sI + a, p.nbY * k.nY + r.sJ + b⟩ := by
  unfold rectCopies
  simp only [List.mem_flatMap, List.mem_map, List.mem_range]
  constructor
  · rintro ⟨b, hb, a, ha, rfl⟩; exact ⟨a, b, ha, hb, rfl⟩
  · rintro ⟨a, b, ha, hb, rfl⟩; exact ⟨b, hb, a, ha, rfl⟩

/-- Packing into a buffer with leading dimension = number of rows and reading it back with the same shape
    is the direct block copy. -/
theorem viaBuffer_eq (p : Params) (k : Task) (snd rcv : Rect) (h1 : snd.rows = rcv.rows) (h2 : snd.cols = rcv.cols)
    (h3 : rcv.sI = 0) (h4 : rcv.sJ = 0) :
    viaBuffer p k snd rcv = rectCopies p k ⟨rcv.rows, rcv.cols, snd.sI, snd.sJ, rcv.dI, rcv.dJ⟩ := by
  unfold viaBuffer rectCopies
  apply flatMap_congr'
  intro b hb
  apply filterMap_eq_map_of
  intro a ha
  rw [List.mem_range] at hb ha
  have hlin : (rcv.sJ + b) * rcv.rows + rcv.sI + a = rcv.rows * b + a := by
    rw [h3, h4, Nat.zero_add, Nat.add_zero, Nat.mul_comm]
  have hd : (rcv.rows * b + a) / rcv.rows = b := div_unique rfl ha
  have hm : (rcv.rows * b + a) % rcv.rows = a := by rw [mod_eq_sub, hd]; omega
  have hr : ¬ rcv.rows = 0 := by omega
  simp only [hlin, bufSrc, h1, h2, hd, hm, hr, ha, hb, ↓reduceIte, and_self, Option.map, Nat.add_assoc]

/-! ## the general path -/

structure Params.Valid (p : Params) : Prop where
  row : p.row.Valid
  col : p.col.Valid
  numCol : 0 < p.numCol

/-- `c` copies window element `(i,j)`: target `(disi_T+i, disj_T+j)` ← source `(disi_Y+i, disj_Y+j)` -/
def IsWindowCopy (p : Params) (c : ECopy) : Prop :=
  ∃ i j, i < p.sizeRow ∧ j < p.sizeCol ∧ c = ⟨p.diT + i, p.djT + j, p.diY + i, p.djY + j⟩

/-- membership in the task space of `Update` -/
def InGeneral (p : Params) (k : Task) : Prop :=
  k.batch ≤ p.nt ∧ (p.row.tStart ≤ k.mT ∧ k.mT ≤ p.row.tEnd) ∧
  (p.batchLo k.batch ≤ k.nT ∧ k.nT ≤ p.batchHi k.batch) ∧
  (p.row.yStart k.mT ≤ k.mY ∧ k.mY ≤ p.row.yEnd k.mT) ∧ (p.col.yStart k.nT ≤ k.nY ∧ k.nY ≤ p.col.yEnd k.nT)

theorem mem_generalTasks {p : Params} {k : Task} : k ∈ generalTasks p ↔ InGeneral p k := by
  unfold generalTasks InGeneral
  simp only [List.mem_flatMap, List.mem_map, mem_rangeIncl]
  constructor
  · rintro ⟨b, hb, mT, hmT, nT, hnT, mY, hmY, nY, hnY, rfl⟩
    exact ⟨hb.2, hmT, hnT, hmY, hnY⟩
  · rintro ⟨h1, h2, h3, h4, h5⟩
    exact ⟨k.batch, ⟨Nat.zero_le _, h1⟩, k.mT, h2, k.nT, h3, k.mY, h4, k.nY, h5, by cases k; rfl⟩

/-- the batches cut `n_T_START .. n_T_END` into consecutive runs of `num_col` -/
theorem batch_range (p : Params) (b nT : Nat) (h1 : p.batchLo b ≤ nT) (h2 : nT ≤ p.batchHi b) :
    p.col.tStart ≤ nT ∧ nT ≤ p.col.tEnd := by
  unfold Params.batchLo at h1; unfold Params.batchHi at h2; omega

theorem batch_cover (p : Params) (hn : 0 < p.numCol) (nT : Nat) (h1 : p.col.tStart ≤ nT) (h2 : nT ≤ p.col.tEnd) :
    ∃ b, b ≤ p.nt ∧ p.batchLo b ≤ nT ∧ nT ≤ p.batchHi b := by
  refine ⟨(nT - p.col.tStart) / p.numCol, Nat.div_le_div_right (by omega), ?_, ?_⟩
  · unfold Params.batchLo
    have := div_lo p.numCol (nT - p.col.tStart)
    rw [Nat.mul_comm]; omega
  · unfold Params.batchHi
    have := div_hi p.numCol (nT - p.col.tStart) hn
    rw [Nat.mul_comm, Nat.mul_succ]; omega

theorem batch_unique (p : Params) (b b' nT : Nat) (h1 : p.batchLo b ≤ nT) (h2 : nT ≤ p.batchHi b)
    (h1' : p.batchLo b' ≤ nT) (h2' : nT ≤ p.batchHi b') (hn : 0 < p.numCol) : b = b' := by
  unfold Params.batchLo at h1 h1'; unfold Params.batchHi at h2 h2'
  rw [Nat.mul_comm, Nat.mul_succ] at h2 h2'
  rw [Nat.mul_comm] at h1 h1'
  rcases Nat.lt_trichotomy b b' with h | h | h
  · have := mul_lt_step (b := p.numCol) h; omega
  · exact h
  · have := mul_lt_step (b := p.numCol) h; omega

/-- Soundness and memory safety of one `Update` instance (source and target tile on the same rank). -/
theorem general_task_sound (p : Params) (hv : p.Valid) (k : Task) (hk : InGeneral p k) :
    ∃ r, updateRect p k = some r ∧ (∀ c ∈ rectCopies p k r, IsWindowCopy p c) ∧
      r.dI + r.rows ≤ p.mbT ∧ r.dJ + r.cols ≤ p.nbT ∧ r.sI + r.rows ≤ p.mbY ∧ r.sJ + r.cols ≤ p.nbY ∧
      1 ≤ r.rows ∧ 1 ≤ r.cols := by
  obtain ⟨_, ⟨m1, m2⟩, ⟨n1, n2⟩, ⟨y1, y2⟩, ⟨z1, z2⟩⟩ := hk
  obtain ⟨n1', n2'⟩ := batch_range p _ _ n1 n2
  obtain ⟨sa, ea, wa, qa1, qa2, qa3, qa4, qa5, qa6⟩ := dim_sound p.row hv.row k.mT k.mY m1 m2 y1 y2
  obtain ⟨sb, eb, wb, qb1, qb2, qb3, qb4, qb5, qb6⟩ := dim_sound p.col hv.col k.nT k.nY n1' n2' z1 z2
  have qa1' : p.mbT * k.mT + sa.dst = p.diT + wa := qa1
  have qa2' : p.mbY * k.mY + sa.src = p.diY + wa := qa2
  have qa3' : wa + sa.len ≤ p.sizeRow := qa3
  have qb1' : p.nbT * k.nT + sb.dst = p.djT + wb := qb1
  have qb2' : p.nbY * k.nY + sb.src = p.djY + wb := qb2
  have qb3' : wb + sb.len ≤ p.sizeCol := qb3
  refine ⟨⟨sa.len, sb.len, sa.src, sb.src, sa.dst, sb.dst⟩, ?_, ?_, qa4, qb4, qa5, qb5, qa6, qb6⟩
  · unfold updateRect; rw [coreUpdate_eq, ea, eb]; rfl
  · intro c hc
    obtain ⟨a, b, ha, hb, rfl⟩ := mem_rectCopies.mp hc
    refine ⟨wa + a, wb + b, by simp only at ha; omega, by simp only at hb; omega, ?_⟩
    simp only [ECopy.mk.injEq]; omega

/-- Completeness: every window element is copied by some `Update` instance of the task space. -/
theorem general_complete (p : Params) (hv : p.Valid) (i j : Nat) (hi : i < p.sizeRow) (hj : j < p.sizeCol) :
    ∃ k, InGeneral p k ∧ ∃ r, updateRect p k = some r ∧
      (⟨p.diT + i, p.djT + j, p.diY + i, p.djY + j⟩ : ECopy) ∈ rectCopies p k r := by
  obtain ⟨mT, mY, sa, a, m1, m2, y1, y2, ea, ha, qa1, qa2⟩ := dim_complete p.row hv.row i hi
  obtain ⟨nT, nY, sb, b, n1, n2, z1, z2, eb, hb, qb1, qb2⟩ := dim_complete p.col hv.col j hj
  obtain ⟨bt, hb1, hb2, hb3⟩ := batch_cover p hv.numCol nT n1 n2
  have qa1' : p.mbT * mT + sa.dst + a = p.diT + i := qa1
  have qa2' : p.mbY * mY + sa.src + a = p.diY + i := qa2
  have qb1' : p.nbT * nT + sb.dst + b = p.djT + j := qb1
  have qb2' : p.nbY * nY + sb.src + b = p.djY + j := qb2
  refine ⟨⟨bt, mT, nT, mY, nY⟩, ⟨hb1, ⟨m1, m2⟩, ⟨hb2, hb3⟩, ⟨y1, y2⟩, ⟨z1, z2⟩⟩,
    ⟨sa.len, sb.len, sa.src, sb.src, sa.dst, sb.dst⟩, ?_, ?_⟩
  · unfold updateRect; rw [coreUpdate_eq, ea, eb]; rfl
  · refine mem_rectCopies.mpr ⟨a, b, ha, hb, ?_⟩
    simp only [ECopy.mk.injEq]; omega

/-- Exactly once: two element copies of the task space that write the same target element are the same
    copy of the same task instance (concurrent `Update`s of one target tile write disjoint elements). -/
theorem general_disjoint (p : Params) (hv : p.Valid) (k k' : Task) (hk : InGeneral p k) (hk' : InGeneral p k')
    (r r' : Rect) (hr : updateRect p k = some r) (hr' : updateRect p k' = some r')
    (c c' : ECopy) (hc : c ∈ rectCopies p k r) (hc' : c' ∈ rectCopies p k' r')
    (hi : c.ti = c'.ti) (hj : c.tj = c'.tj) : k = k' ∧ c = c' := by
  obtain ⟨_, ⟨m1, m2⟩, ⟨n1, n2⟩, ⟨y1, y2⟩, ⟨z1, z2⟩⟩ := hk
  obtain ⟨_, ⟨m1', m2'⟩, ⟨n1', n2'⟩, ⟨y1', y2'⟩, ⟨z1', z2'⟩⟩ := hk'
  obtain ⟨u1, u2⟩ := batch_range p _ _ n1 n2
  obtain ⟨u1', u2'⟩ := batch_range p _ _ n1' n2'
  obtain ⟨sa, ea, _⟩ := dim_sound p.row hv.row k.mT k.mY m1 m2 y1 y2
  obtain ⟨sb, eb, _⟩ := dim_sound p.col hv.col k.nT k.nY u1 u2 z1 z2
  obtain ⟨sa', ea', _⟩ := dim_sound p.row hv.row k'.mT k'.mY m1' m2' y1' y2'
  obtain ⟨sb', eb', _⟩ := dim_sound p.col hv.col k'.nT k'.nY u1' u2' z1' z2'
  unfold updateRect at hr hr'
  rw [coreUpdate_eq, ea, eb] at hr
  rw [coreUpdate_eq, ea', eb'] at hr'
  cases hr; cases hr'
  obtain ⟨a, b, ha, hb, rfl⟩ := mem_rectCopies.mp hc
  obtain ⟨a', b', ha', hb', rfl⟩ := mem_rectCopies.mp hc'
  simp only at hi hj ha hb ha' hb'
  obtain ⟨e1, e2, e3⟩ := dim_inj p.row hv.row k.mT k.mY k'.mT k'.mY sa sa' a a' m1 m2 y1 y2 m1' m2' y1' y2' ea ea' ha ha' hi
  obtain ⟨f1, f2, f3⟩ := dim_inj p.col hv.col k.nT k.nY k'.nT k'.nY sb sb' b b' u1 u2 z1 z2 u1' u2' z1' z2' eb eb' hb hb' hj
  have hbatch : k.batch = k'.batch := by
    rw [f1] at n1 n2; exact batch_unique p _ _ _ n1 n2 n1' n2' hv.numCol
  have hkk : k = k' := by
    cases k; cases k'; simp only at e1 e2 f1 f2 hbatch; subst e1 e2 f1 f2 hbatch; rfl
  subst hkk
  rw [ea] at ea'; rw [eb] at eb'; cases ea'; cases eb'
  subst e3 f3
  exact ⟨rfl, rfl⟩

/-- The two-stage remote path (pack at the sender, unpack at the receiver) issues the same element
    copies as the in-place path, for every `Update` instance of the task space. -/
theorem updateCopies_remote (p : Params) (hv : p.Valid) (remote : Task → Bool) (k : Task) (hk : InGeneral p k) :
    updateCopies p remote k = updateCopies p (fun _ => false) k := by
  obtain ⟨r, hr, _⟩ := general_task_sound p hv k hk
  unfold updateRect at hr
  unfold updateCopies
  cases hrem : remote k
  · rfl
  · simp only [coreUpdateRemote, coreSend_eq, hr, Option.map, ↓reduceIte, Bool.false_eq_true]
    exact viaBuffer_eq p k _ _ rfl rfl rfl rfl

theorem updateCopies_local (p : Params) (k : Task) (r : Rect) (hr : updateRect p k = some r) :
    updateCopies p (fun _ => false) k = rectCopies p k r := by
  unfold updateRect at hr
  unfold updateCopies
  simp only [hr, Bool.false_eq_true, ↓reduceIte]

/-! ## effect on the target matrix -/

theorem applyCopies_untouched {α : Type} (src : Nat → Nat → α) (l : List ECopy) (tgt : Nat → Nat → α) (i j : Nat)
    (h : ∀ c ∈ l, ¬ (c.ti = i ∧ c.tj = j)) : applyCopies src l tgt i j = tgt i j := by
  induction l generalizing tgt with
  | nil => rfl
  | cons c cs ih =>
    simp only [applyCopies]
    rw [ih _ (fun c' hc' => h c' (List.mem_cons_of_mem _ hc'))]
    have h0 := h c (List.mem_cons_self ..)
    exact if_neg (fun hh => h0 ⟨hh.1.symm, hh.2.symm⟩)

theorem applyCopies_written {α : Type} (src : Nat → Nat → α) (l : List ECopy) (tgt : Nat → Nat → α) (i j : Nat) (v : α)
    (hval : ∀ c ∈ l, c.ti = i → c.tj = j → src c.si c.sj = v) (hex : ∃ c ∈ l, c.ti = i ∧ c.tj = j) :
    applyCopies src l tgt i j = v := by
  induction l generalizing tgt with
  | nil => obtain ⟨c, hc, _⟩ := hex; cases hc
  | cons c cs ih =>
    simp only [applyCopies]
    by_cases h : ∃ c' ∈ cs, c'.ti = i ∧ c'.tj = j
    · exact ih _ (fun c' hc' => hval c' (List.mem_cons_of_mem _ hc')) h
    · have hun : ∀ c' ∈ cs, ¬ (c'.ti = i ∧ c'.tj = j) := fun c' hc' hh => h ⟨c', hc', hh⟩
      rw [applyCopies_untouched src cs _ i j hun]
      obtain ⟨c0, hc0, h1, h2⟩ := hex
      rcases List.mem_cons.mp hc0 with heq | hin
      · have h1' : c.ti = i := heq ▸ h1
        have h2' : c.tj = j := heq ▸ h2
        rw [if_pos ⟨h1'.symm, h2'.symm⟩]
        exact hval c (List.mem_cons_self ..) h1' h2'
      · exact absurd ⟨c0, hin, h1, h2⟩ h

/-- Any list of element copies that consists of window copies and contains every window copy produces
    the matrix required by the property statement, whatever the order of the list. -/
theorem window_result {α : Type} (p : Params) (src tgt : Nat → Nat → α) (l : List ECopy)
    (hs : ∀ c ∈ l, IsWindowCopy p c)
    (hc : ∀ i j, i < p.sizeRow → j < p.sizeCol → (⟨p.diT + i, p.djT + j, p.diY + i, p.djY + j⟩ : ECopy) ∈ l) :
    applyCopies src l tgt = windowSpec p src tgt := by
  funext i j
  unfold windowSpec
  by_cases hw : p.diT ≤ i ∧ i < p.diT + p.sizeRow ∧ p.djT ≤ j ∧ j < p.djT + p.sizeCol
  · rw [if_pos hw]
    apply applyCopies_written
    · intro c hc' h1 h2
      obtain ⟨i0, j0, _, _, rfl⟩ := hs c hc'
      simp only at h1 h2 ⊢
      have e1 : p.diY + i0 = p.diY + (i - p.diT) := by omega
      have e2 : p.djY + j0 = p.djY + (j - p.djT) := by omega
      rw [e1, e2]
    · refine ⟨_, hc (i - p.diT) (j - p.djT) (by omega) (by omega), ?_, ?_⟩ <;> simp only <;> omega
  · rw [if_neg hw]
    apply applyCopies_untouched
    intro c hc' ⟨h1, h2⟩
    obtain ⟨i0, j0, hi0, hj0, rfl⟩ := hs c hc'
    simp only at h1 h2
    omega

theorem general_window {α : Type} (p : Params) (hv : p.Valid) (remote : Task → Bool) (order : List Task)
    (hperm : order.Perm (generalTasks p)) (src tgt : Nat → Nat → α) :
    applyCopies src (generalCopies p remote order) tgt = windowSpec p src tgt := by
  apply window_result
  · intro c hc
    unfold generalCopies at hc
    obtain ⟨k, hk, hck⟩ := List.mem_flatMap.mp hc
    have hk' := mem_generalTasks.mp (hperm.mem_iff.mp hk)
    rw [updateCopies_remote p hv remote k hk'] at hck
    obtain ⟨r, hr, hsound, _⟩ := general_task_sound p hv k hk'
    rw [updateCopies_local p k r hr] at hck
    exact hsound c hck
  · intro i j hi hj
    obtain ⟨k, hk, r, hr, hmem⟩ := general_complete p hv i j hi hj
    unfold generalCopies
    refine List.mem_flatMap.mpr ⟨k, hperm.mem_iff.mpr (mem_generalTasks.mpr hk), ?_⟩
    rw [updateCopies_remote p hv remote k hk, updateCopies_local p k r hr]
    exact hmem

/-! ## the reshuffle path -/

structure Dim.Aligned (d : Dim) : Prop where
  same : d.bY = d.bT
  y : d.dY % d.bY = 0
  t : d.dT % d.bT = 0

theorem Dim.tEndR_eq (d : Dim) : d.tEndR = d.tEnd := by
  unfold Dim.tEndR Dim.tEnd; rw [Nat.add_comm]

theorem optimized_aligned (p : Params) (h : p.optimized = true) : p.row.Aligned ∧ p.col.Aligned := by
  unfold Params.optimized at h
  simp only [Bool.and_eq_true, beq_iff_eq] at h
  obtain ⟨⟨⟨⟨⟨h1, h2⟩, h3⟩, h4⟩, h5⟩, h6⟩ := h
  exact ⟨⟨h1, h3, h5⟩, ⟨h2, h4, h6⟩⟩

theorem rdim_sound (d : Dim) (hv : d.Valid) (ha : d.Aligned) (t : Nat) (h1 : d.tStart ≤ t) (h2 : t ≤ d.tEndR) :
    ∃ w0, d.bT * t = d.dT + w0 ∧ d.bY * (t - d.tStart + d.yStartR) = d.dY + w0 ∧
      w0 + d.lenR t ≤ d.size ∧ d.lenR t ≤ d.bT ∧ 1 ≤ d.lenR t := by
  obtain ⟨hs, hy, ht⟩ := ha
  have hb := hv.bT
  have hsz := hv.size
  rw [hs] at hy
  have eT := mod_eq_sub d.bT d.dT
  have aT := div_lo d.bT d.dT
  have eY := mod_eq_sub d.bT d.dY
  have aY := div_lo d.bT d.dY
  have a3 := div_lo d.bT (d.dT + d.size - 1)
  have a4 := div_hi d.bT (d.dT + d.size - 1) hb
  unfold Dim.lenR Dim.yStartR
  unfold Dim.tStart Dim.tEndR at *
  rw [hs, Nat.mul_add, Nat.mul_sub]
  simp only [sub_mul_comm]
  generalize d.dT / d.bT = qS at *
  generalize d.dY / d.bT = yS at *
  generalize (d.dT + d.size - 1) / d.bT = qE at *
  have l0 := mul_le_step (b := d.bT) h1
  refine ⟨d.bT * t - d.dT, ?_⟩
  by_cases c : t = qE
  · subst c
    simp only [↓reduceIte]
    omega
  · have l2 := mul_lt_step (b := d.bT) (show t < qE by omega)
    simp only [c, ↓reduceIte]
    omega

theorem rdim_complete (d : Dim) (hv : d.Valid) (ha : d.Aligned) (w : Nat) (hw : w < d.size) :
    ∃ t k, d.tStart ≤ t ∧ t ≤ d.tEndR ∧ k < d.lenR t ∧ d.bT * t + k = d.dT + w := by
  obtain ⟨hs, hy, ht⟩ := ha
  have hb := hv.bT
  have ht1 : d.tStart ≤ (d.dT + w) / d.bT := Nat.div_le_div_right (by omega)
  have ht2 : (d.dT + w) / d.bT ≤ d.tEndR := Nat.div_le_div_right (by omega)
  refine ⟨(d.dT + w) / d.bT, d.dT + w - d.bT * ((d.dT + w) / d.bT), ht1, ht2, ?_, ?_⟩
  · have eT := mod_eq_sub d.bT d.dT
    have aT := div_lo d.bT d.dT
    have a3 := div_lo d.bT (d.dT + d.size - 1)
    have a4 := div_hi d.bT (d.dT + d.size - 1) hb
    have b1 := div_lo d.bT (d.dT + w)
    have b2 := div_hi d.bT (d.dT + w) hb
    unfold Dim.lenR
    unfold Dim.tStart Dim.tEndR at *
    simp only [sub_mul_comm]
    generalize d.dT / d.bT = qS at *
    generalize (d.dT + d.size - 1) / d.bT = qE at *
    generalize (d.dT + w) / d.bT = t at *
    have l0 := mul_le_step (b := d.bT) ht1
    by_cases c : t = qE
    · subst c; simp only [↓reduceIte]; omega
    · simp only [c, ↓reduceIte]; omega
  · have b1 := div_lo d.bT (d.dT + w); omega

/-- membership in the task space of the reshuffle `Receive` (with its derived source tile) -/
def InReshuffle (p : Params) (k : Task) : Prop :=
  k.batch ≤ p.nt ∧ (p.row.tStart ≤ k.mT ∧ k.mT ≤ p.row.tEndR) ∧
  (p.batchLo k.batch ≤ k.nT ∧ k.nT ≤ p.batchHi k.batch) ∧
  k.mY = k.mT - p.row.tStart + p.row.yStartR ∧ k.nY = k.nT - p.col.tStart + p.col.yStartR

theorem mem_reshuffleTasks {p : Params} {k : Task} : k ∈ reshuffleTasks p ↔ InReshuffle p k := by
  have e : ∀ b, min ((b + 1) * p.numCol + p.col.tStart - 1) p.col.tEndR = p.batchHi b := fun b => by
    rw [Dim.tEndR_eq]; rfl
  unfold reshuffleTasks InReshuffle
  simp only [List.mem_flatMap, List.mem_map, mem_rangeIncl, e]
  constructor
  · rintro ⟨b, hb, mT, hmT, nT, hnT, rfl⟩
    exact ⟨hb.2, hmT, hnT, rfl, rfl⟩
  · rintro ⟨h1, h2, h3, h4, h5⟩
    refine ⟨k.batch, ⟨Nat.zero_le _, h1⟩, k.mT, h2, k.nT, h3, ?_⟩
    cases k; simp only at h4 h5; subst h4 h5; rfl

theorem reshuffle_task_sound (p : Params) (hv : p.Valid) (ho : p.optimized = true) (k : Task) (hk : InReshuffle p k) :
    (∀ c ∈ rectCopies p k (receiveRect p k), IsWindowCopy p c) ∧
      (receiveRect p k).rows ≤ p.mbT ∧ (receiveRect p k).cols ≤ p.nbT ∧
      (receiveRect p k).rows ≤ p.mbY ∧ (receiveRect p k).cols ≤ p.nbY ∧
      1 ≤ (receiveRect p k).rows ∧ 1 ≤ (receiveRect p k).cols := by
  obtain ⟨har, hac⟩ := optimized_aligned p ho
  obtain ⟨_, ⟨m1, m2⟩, ⟨n1, n2⟩, hmY, hnY⟩ := hk
  obtain ⟨n1', n2'⟩ := batch_range p _ _ n1 n2
  rw [← Dim.tEndR_eq] at n2'
  obtain ⟨wa, qa1, qa2, qa3, qa4, qa5⟩ := rdim_sound p.row hv.row har k.mT m1 m2
  obtain ⟨wb, qb1, qb2, qb3, qb4, qb5⟩ := rdim_sound p.col hv.col hac k.nT n1' n2'
  rw [← hmY] at qa2; rw [← hnY] at qb2
  have qa1' : p.mbT * k.mT = p.diT + wa := qa1
  have qa2' : p.mbY * k.mY = p.diY + wa := qa2
  have qa3' : wa + p.row.lenR k.mT ≤ p.sizeRow := qa3
  have qb1' : p.nbT * k.nT = p.djT + wb := qb1
  have qb2' : p.nbY * k.nY = p.djY + wb := qb2
  have qb3' : wb + p.col.lenR k.nT ≤ p.sizeCol := qb3
  have s1 : p.mbY = p.mbT := har.same
  have s2 : p.nbY = p.nbT := hac.same
  have qa4' : p.row.lenR k.mT ≤ p.mbT := qa4
  have qb4' : p.col.lenR k.nT ≤ p.nbT := qb4
  refine ⟨?_, qa4', qb4', by show p.row.lenR k.mT ≤ p.mbY; omega, by show p.col.lenR k.nT ≤ p.nbY; omega, qa5, qb5⟩
  intro c hc
  obtain ⟨a, b, ha, hb, rfl⟩ := mem_rectCopies.mp hc
  have ha' : a < p.row.lenR k.mT := ha
  have hb' : b < p.col.lenR k.nT := hb
  refine ⟨wa + a, wb + b, by omega, by omega, ?_⟩
  simp only [ECopy.mk.injEq, receiveRect]; omega

theorem reshuffle_complete (p : Params) (hv : p.Valid) (ho : p.optimized = true) (i j : Nat)
    (hi : i < p.sizeRow) (hj : j < p.sizeCol) :
    ∃ k, InReshuffle p k ∧ (⟨p.diT + i, p.djT + j, p.diY + i, p.djY + j⟩ : ECopy) ∈ rectCopies p k (receiveRect p k) := by
  obtain ⟨har, hac⟩ := optimized_aligned p ho
  obtain ⟨mT, a, m1, m2, ha, qa⟩ := rdim_complete p.row hv.row har i hi
  obtain ⟨nT, b, n1, n2, hb, qb⟩ := rdim_complete p.col hv.col hac j hj
  rw [Dim.tEndR_eq] at n2
  obtain ⟨bt, hb1, hb2, hb3⟩ := batch_cover p hv.numCol nT n1 n2
  rw [← Dim.tEndR_eq] at n2
  obtain ⟨wa, qa1, qa2, _⟩ := rdim_sound p.row hv.row har mT m1 m2
  obtain ⟨wb, qb1, qb2, _⟩ := rdim_sound p.col hv.col hac nT n1 n2
  have qa' : p.mbT * mT + a = p.diT + i := qa
  have qb' : p.nbT * nT + b = p.djT + j := qb
  have qa1' : p.mbT * mT = p.diT + wa := qa1
  have qa2' : p.mbY * (mT - p.row.tStart + p.row.yStartR) = p.diY + wa := qa2
  have qb1' : p.nbT * nT = p.djT + wb := qb1
  have qb2' : p.nbY * (nT - p.col.tStart + p.col.yStartR) = p.djY + wb := qb2
  refine ⟨⟨bt, mT, nT, mT - p.row.tStart + p.row.yStartR, nT - p.col.tStart + p.col.yStartR⟩,
    ⟨hb1, ⟨m1, m2⟩, ⟨hb2, hb3⟩, rfl, rfl⟩, ?_⟩
  refine mem_rectCopies.mpr ⟨a, b, ha, hb, ?_⟩
  simp only [ECopy.mk.injEq, receiveRect]; omega

/-- Exactly once on the reshuffle path. -/
theorem reshuffle_disjoint (p : Params) (hv : p.Valid) (ho : p.optimized = true) (k k' : Task)
    (hk : InReshuffle p k) (hk' : InReshuffle p k')
    (c c' : ECopy) (hc : c ∈ rectCopies p k (receiveRect p k)) (hc' : c' ∈ rectCopies p k' (receiveRect p k'))
    (hi : c.ti = c'.ti) (hj : c.tj = c'.tj) : k = k' ∧ c = c' := by
  obtain ⟨_, t2, t3, t4, t5, _⟩ := reshuffle_task_sound p hv ho k hk
  obtain ⟨_, t2', t3', t4', t5', _⟩ := reshuffle_task_sound p hv ho k' hk'
  obtain ⟨_, _, ⟨n1, n2⟩, hmY, hnY⟩ := hk
  obtain ⟨_, _, ⟨n1', n2'⟩, hmY', hnY'⟩ := hk'
  obtain ⟨a, b, ha, hb, rfl⟩ := mem_rectCopies.mp hc
  obtain ⟨a', b', ha', hb', rfl⟩ := mem_rectCopies.mp hc'
  simp only [receiveRect] at hi hj ha hb ha' hb' t2 t3 t2' t3'
  have e1 : k.mT = k'.mT := by
    have h1 : (p.mbT * k.mT + 0 + a) / p.mbT = k.mT := div_eq_of_bounds (by omega) (by omega)
    have h2 : (p.mbT * k'.mT + 0 + a') / p.mbT = k'.mT := div_eq_of_bounds (by omega) (by omega)
    rw [hi] at h1; omega
  have f1 : k.nT = k'.nT := by
    have h1 : (p.nbT * k.nT + 0 + b) / p.nbT = k.nT := div_eq_of_bounds (by omega) (by omega)
    have h2 : (p.nbT * k'.nT + 0 + b') / p.nbT = k'.nT := div_eq_of_bounds (by omega) (by omega)
    rw [hj] at h1; omega
  have hbatch : k.batch = k'.batch := by
    rw [f1] at n1 n2; exact batch_unique p _ _ _ n1 n2 n1' n2' hv.numCol
  have hkk : k = k' := by
    cases k; cases k'
    simp only at e1 f1 hbatch hmY hnY hmY' hnY'
    subst e1 f1 hbatch; subst hmY hnY hmY' hnY'; rfl
  subst hkk
  have ea : a = a' := by omega
  have eb : b = b' := by omega
  subst ea eb
  exact ⟨rfl, rfl⟩

theorem reshuffle_window {α : Type} (p : Params) (hv : p.Valid) (ho : p.optimized = true) (order : List Task)
    (hperm : order.Perm (reshuffleTasks p)) (src tgt : Nat → Nat → α) :
    applyCopies src (reshuffleCopies p order) tgt = windowSpec p src tgt := by
  apply window_result
  · intro c hc
    unfold reshuffleCopies at hc
    obtain ⟨k, hk, hck⟩ := List.mem_flatMap.mp hc
    exact (reshuffle_task_sound p hv ho k (mem_reshuffleTasks.mp (hperm.mem_iff.mp hk))).1 c hck
  · intro i j hi hj
    obtain ⟨k, hk, hmem⟩ := reshuffle_complete p hv ho i j hi hj
    unfold reshuffleCopies
    exact List.mem_flatMap.mpr ⟨k, hperm.mem_iff.mpr (mem_reshuffleTasks.mpr hk), hmem⟩

end ParsecVerif.Redistribute
