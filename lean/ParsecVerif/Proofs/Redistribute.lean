/-
  Helper lemmas for C21 (redistribution copies exactly the requested window).
  Core only.  The arithmetic is done by `omega` with the products `b * q` as atoms; the facts about
  `/` and `%` by a variable divisor are supplied explicitly (`div_lo`, `div_hi`, `mod_eq_sub`, `mul_lt_step`).
-/
import ParsecVerif.Model.Redistribute
namespace ParsecVerif.Redistribute

/-! ## division by a variable -/

theorem div_lo (b x : Nat) : b * (x / b) ≤ x := Nat.mul_div_le x b

theorem div_hi (b x : Nat) (hb : 0 < b) : x < b * (x / b) + b := by
  have h1 := Nat.div_add_mod x b
  have h2 := Nat.mod_lt x hb
  omega

theorem mod_eq_sub (b x : Nat) : x % b = x - b * (x / b) := by
  have h1 := Nat.div_add_mod x b
  omega

theorem mul_lt_step {b q q' : Nat} (h : q < q') : b * q + b ≤ b * q' := by
  have h1 := Nat.mul_le_mul_left b (Nat.succ_le_of_lt h)
  rw [Nat.mul_succ] at h1
  exact h1

theorem mul_le_step {b q q' : Nat} (h : q ≤ q') : b * q ≤ b * q' := Nat.mul_le_mul_left b h

theorem div_unique {b q x r : Nat} (h1 : b * q + r = x) (h2 : r < b) : x / b = q := by
  subst h1
  rw [Nat.mul_add_div (by omega), Nat.div_eq_of_lt h2]
  rfl

/-- a quotient is determined by the block the number lies in -/
theorem div_eq_of_bounds {b q x : Nat} (h1 : b * q ≤ x) (h2 : x < b * q + b) : x / b = q :=
  div_unique (r := x - b * q) (by omega) (by omega)

theorem sub_sub_one_mul (y q b : Nat) : (y - q - 1) * b = b * y - b * q - b := by
  rw [Nat.sub_mul, Nat.sub_mul, Nat.one_mul, Nat.mul_comm y, Nat.mul_comm q]

theorem sub_mul_comm (y q b : Nat) : (y - q) * b = b * y - b * q := by
  rw [Nat.sub_mul, Nat.mul_comm y, Nat.mul_comm q]

/-- `BR = (i_start + len - 1) % b + 1` is the part of `[s, s+len)` that lies in its last block -/
theorem br_eq (b s len : Nat) (hb : 0 < b) (hl : 0 < len) :
    (s % b + len - 1) % b + 1 = s + len - b * ((s + len - 1) / b) := by
  have e1 := mod_eq_sub b s
  have a1 := div_lo b s
  have a3 := div_lo b (s + len - 1)
  have a4 := div_hi b (s + len - 1) hb
  have mono : s / b ≤ (s + len - 1) / b := Nat.div_le_div_right (by omega)
  have a5 := mul_le_step (b := b) mono
  have e2 : s % b + len - 1 = b * ((s + len - 1) / b - s / b) + (s + len - 1 - b * ((s + len - 1) / b)) := by
    rw [Nat.mul_sub]; omega
  rw [e2, Nat.mul_add_mod, Nat.mod_eq_of_lt (by omega)]
  omega

/-! ## one dimension: the segment copied for source tile index `y` -/

structure Seg where
  len : Nat
  src : Nat
  dst : Nat
deriving Repr, DecidableEq

/-- the one-dimensional projection of the `if / else if` chain of `CORE_redistribute_update` -/
def seg1 (tl br ys ye y istart bY off : Nat) : Option Seg :=
  if y = ys then some ⟨tl, istart, off⟩
  else if y > ys ∧ y < ye then some ⟨bY, 0, off + tl + (y - ys - 1) * bY⟩
  else if y = ye ∧ ys ≠ ye then some ⟨br, 0, off + tl + (ye - ys - 1) * bY⟩
  else none

def View.seg (v : View) : Option Seg := seg1 v.tl v.br v.ys v.ye v.y v.istart v.bY v.off

/-- Cutting `[s, s+len)` by blocks of size `b`: the segment for block `y` (computed with the JDF's `TL`,
    `BR`, `i_start`, `m_Y_start`, `m_Y_end`) is exactly `[s,s+len) ∩ [b*y, b*y+b)`. -/
theorem yseg (b s len off y : Nat) (hb : 0 < b) (hl : 0 < len)
    (hy1 : s / b ≤ y) (hy2 : y ≤ (s + len - 1) / b) :
    ∃ sg, seg1 (min len (b - s % b)) ((s % b + len - 1) % b + 1) (s / b) ((s + len - 1) / b) y (s % b) b off = some sg ∧
      ∃ P, sg.dst = off + P ∧ b * y + sg.src = s + P ∧ P + sg.len ≤ len ∧ sg.src + sg.len ≤ b ∧ 1 ≤ sg.len ∧
        (∀ x, s ≤ x → x < s + len → x / b = y → s + P ≤ x ∧ x < s + P + sg.len) := by
  have hbr := br_eq b s len hb hl
  have e1 := mod_eq_sub b s
  have a1 := div_lo b s
  have a2 := div_hi b s hb
  have a3 := div_lo b (s + len - 1)
  have a4 := div_hi b (s + len - 1) hb
  rw [hbr, e1]
  generalize hqS : s / b = qS at *
  generalize hqE : (s + len - 1) / b = qE at *
  have xfact : ∀ x, x / b = y → b * y ≤ x ∧ x < b * y + b := by
    intro x hx; subst hx; exact ⟨div_lo b x, div_hi b x hb⟩
  by_cases c1 : y = qS
  · subst c1
    refine ⟨⟨min len (b - (s - b * y)), s - b * y, off⟩, by simp [seg1], 0, ?_⟩
    by_cases c2 : y = qE
    · subst c2
      refine ⟨rfl, by simp only; omega, by simp only; omega, by simp only; omega, by simp only; omega, ?_⟩
      intro x h1 h2 h3; have := xfact x h3; simp only; omega
    · have := mul_lt_step (b := b) (show y < qE by omega)
      refine ⟨rfl, by simp only; omega, by simp only; omega, by simp only; omega, by simp only; omega, ?_⟩
      intro x h1 h2 h3; have := xfact x h3; simp only; omega
  · have l1 := mul_lt_step (b := b) (show qS < y by omega)
    by_cases c2 : y = qE
    · subst c2
      have hne : qS ≠ y := by omega
      refine ⟨⟨s + len - b * y, 0, off + min len (b - (s - b * qS)) + (y - qS - 1) * b⟩,
        by simp [seg1, c1, hne], b * y - s, ?_⟩
      rw [sub_sub_one_mul]
      refine ⟨by simp only; omega, by simp only; omega, by simp only; omega, by simp only; omega,
        by simp only; omega, ?_⟩
      intro x h1 h2 h3; have := xfact x h3; simp only; omega
    · have l2 := mul_lt_step (b := b) (show y < qE by omega)
      have hlt : y > qS ∧ y < qE := by omega
      refine ⟨⟨b, 0, off + min len (b - (s - b * qS)) + (y - qS - 1) * b⟩,
        by simp [seg1, c1, hlt], b * y - s, ?_⟩
      rw [sub_sub_one_mul]
      refine ⟨by simp only; omega, by simp only; omega, by simp only; omega, by simp only; omega,
        by simp only; omega, ?_⟩
      intro x h1 h2 h3; have := xfact x h3; simp only; omega

/-! ## one dimension: the part of the window that lies in target tile `t` -/

/-- window coordinate at which the part of target tile `t` starts -/
def Dim.aT (d : Dim) (t : Nat) : Nat := if t = d.tStart then 0 else d.sizeT t
/-- source element coordinate at which it starts (the common sub-expression of `i_start`, `m_Y_start`, `m_Y_end`) -/
def Dim.srcPos (d : Dim) (t : Nat) : Nat := if t = d.tStart then d.dY else d.sizeT t + d.dY

structure Dim.Valid (d : Dim) : Prop where
  bY : 0 < d.bY
  bT : 0 < d.bT
  size : 0 < d.size

theorem Dim.iStart_eq (d : Dim) (t : Nat) : d.iStart t = d.srcPos t % d.bY := by
  unfold Dim.iStart Dim.srcPos; split <;> rfl
theorem Dim.yStart_eq (d : Dim) (t : Nat) : d.yStart t = d.srcPos t / d.bY := by
  unfold Dim.yStart Dim.srcPos; split <;> rfl
theorem Dim.yEnd_eq (d : Dim) (t : Nat) : d.yEnd t = (d.srcPos t + d.tInner t - 1) / d.bY := by
  unfold Dim.yEnd Dim.srcPos; split <;> rfl

/-- `getsize`, `sizei_T`, `offset_row`: the part of target tile `t` is `[dT, dT+size) ∩ [bT*t, bT*t+bT)`. -/
theorem tside (d : Dim) (hb : 0 < d.bT) (hs : 0 < d.size) (t : Nat) (h1 : d.tStart ≤ t) (h2 : t ≤ d.tEnd) :
    d.srcPos t = d.dY + d.aT t ∧ d.bT * t + d.offT t = d.dT + d.aT t ∧ d.aT t + d.tInner t ≤ d.size ∧
    d.offT t + d.tInner t ≤ d.bT ∧ 1 ≤ d.tInner t ∧
    (∀ w, w < d.size → (d.dT + w) / d.bT = t → d.aT t ≤ w ∧ w < d.aT t + d.tInner t) := by
  have e1 := mod_eq_sub d.bT d.dT
  have a1 := div_lo d.bT d.dT
  have a2 := div_hi d.bT d.dT hb
  have a3 := div_lo d.bT (d.size + d.dT - 1)
  have a4 := div_hi d.bT (d.size + d.dT - 1) hb
  have xfact : ∀ x, x / d.bT = t → d.bT * t ≤ x ∧ x < d.bT * t + d.bT := by
    intro x hx; subst hx; exact ⟨div_lo d.bT x, div_hi d.bT x hb⟩
  unfold Dim.srcPos Dim.aT Dim.offT Dim.tInner Dim.sizeT getsize
  unfold Dim.tStart Dim.tEnd at *
  rw [e1]
  simp only [sub_mul_comm]
  generalize d.dT / d.bT = qS at *
  generalize (d.size + d.dT - 1) / d.bT = qE at *
  by_cases c1 : t = qS
  · subst c1
    by_cases c2 : t = qE
    · subst c2
      simp only [↓reduceIte]
      refine ⟨by omega, by omega, by omega, by omega, by omega, ?_⟩
      intro w hw hx; have := xfact _ hx; omega
    · have l2 := mul_lt_step (b := d.bT) (show t < qE by omega)
      simp only [c2, ↓reduceIte]
      refine ⟨by omega, by omega, by omega, by omega, by omega, ?_⟩
      intro w hw hx; have := xfact _ hx; omega
  · have hne : ¬ qS = qE := by omega
    have l1 := mul_lt_step (b := d.bT) (show qS < t by omega)
    by_cases c2 : t = qE
    · subst c2
      simp only [c1, hne, ↓reduceIte]
      refine ⟨by omega, by omega, by omega, by omega, by omega, ?_⟩
      intro w hw hx; have := xfact _ hx; omega
    · have l2 := mul_lt_step (b := d.bT) (show t < qE by omega)
      simp only [c1, c2, hne, ↓reduceIte]
      refine ⟨by omega, by omega, by omega, by omega, by omega, ?_⟩
      intro w hw hx; have := xfact _ hx; omega

theorem Dim.view_seg (d : Dim) (t y : Nat) :
    (d.view t y).seg = seg1 (d.tl t) (d.br t) (d.yStart t) (d.yEnd t) y (d.iStart t) d.bY (d.offT t) := rfl

/-- the 1-D segment in the form of `yseg` -/
theorem Dim.view_seg' (d : Dim) (t y : Nat) :
    (d.view t y).seg = seg1 (min (d.tInner t) (d.bY - d.srcPos t % d.bY))
      ((d.srcPos t % d.bY + d.tInner t - 1) % d.bY + 1) (d.srcPos t / d.bY)
      ((d.srcPos t + d.tInner t - 1) / d.bY) y (d.srcPos t % d.bY) d.bY (d.offT t) := by
  rw [Dim.view_seg]; unfold Dim.tl Dim.br; rw [Dim.iStart_eq, Dim.yStart_eq, Dim.yEnd_eq]

/-- Soundness in one dimension: the segment of task `(t, y)` copies window coordinates `[w0, w0+len)`,
    from the right place to the right place, inside both tiles. -/
theorem dim_sound (d : Dim) (hv : d.Valid) (t y : Nat) (ht1 : d.tStart ≤ t) (ht2 : t ≤ d.tEnd)
    (hy1 : d.yStart t ≤ y) (hy2 : y ≤ d.yEnd t) :
    ∃ sg, (d.view t y).seg = some sg ∧ ∃ w0, d.bT * t + sg.dst = d.dT + w0 ∧ d.bY * y + sg.src = d.dY + w0 ∧
      w0 + sg.len ≤ d.size ∧ sg.dst + sg.len ≤ d.bT ∧ sg.src + sg.len ≤ d.bY ∧ 1 ≤ sg.len := by
  obtain ⟨t1, t2, t3, t4, t5, _⟩ := tside d hv.bT hv.size t ht1 ht2
  rw [Dim.yStart_eq] at hy1
  rw [Dim.yEnd_eq] at hy2
  obtain ⟨sg, hsg, P, p1, p2, p3, p4, p5, _⟩ := yseg d.bY (d.srcPos t) (d.tInner t) (d.offT t) y hv.bY t5 hy1 hy2
  refine ⟨sg, by rw [Dim.view_seg']; exact hsg, d.aT t + P, ?_⟩
  refine ⟨by omega, by omega, by omega, by omega, by omega, by omega⟩

/-- Completeness in one dimension: every window coordinate is copied by some task. -/
theorem dim_complete (d : Dim) (hv : d.Valid) (w : Nat) (hw : w < d.size) :
    ∃ t y sg k, d.tStart ≤ t ∧ t ≤ d.tEnd ∧ d.yStart t ≤ y ∧ y ≤ d.yEnd t ∧ (d.view t y).seg = some sg ∧
      k < sg.len ∧ d.bT * t + sg.dst + k = d.dT + w ∧ d.bY * y + sg.src + k = d.dY + w := by
  have ht1 : d.tStart ≤ (d.dT + w) / d.bT := Nat.div_le_div_right (by omega)
  have ht2 : (d.dT + w) / d.bT ≤ d.tEnd := Nat.div_le_div_right (by omega)
  obtain ⟨t1, t2, t3, t4, t5, t6⟩ := tside d hv.bT hv.size _ ht1 ht2
  obtain ⟨t7, t8⟩ := t6 w hw rfl
  generalize (d.dT + w) / d.bT = t at *
  have hy1 : d.srcPos t / d.bY ≤ (d.dY + w) / d.bY := Nat.div_le_div_right (by omega)
  have hy2 : (d.dY + w) / d.bY ≤ (d.srcPos t + d.tInner t - 1) / d.bY := Nat.div_le_div_right (by omega)
  obtain ⟨sg, hsg, P, p1, p2, p3, p4, p5, p6⟩ :=
    yseg d.bY (d.srcPos t) (d.tInner t) (d.offT t) _ hv.bY t5 hy1 hy2
  obtain ⟨p7, p8⟩ := p6 (d.dY + w) (by omega) (by omega) rfl
  refine ⟨t, (d.dY + w) / d.bY, sg, d.dY + w - (d.srcPos t + P), ht1, ht2, ?_, ?_, ?_, ?_, ?_, ?_⟩
  · rw [Dim.yStart_eq]; exact hy1
  · rw [Dim.yEnd_eq]; exact hy2
  · rw [Dim.view_seg']; exact hsg
  · omega
  · omega
  · omega

/-- Exactly once in one dimension: the target coordinate determines the task and the offset. -/
theorem dim_inj (d : Dim) (hv : d.Valid) (t y t' y' : Nat) (sg sg' : Seg) (k k' : Nat)
    (ht1 : d.tStart ≤ t) (ht2 : t ≤ d.tEnd) (hy1 : d.yStart t ≤ y) (hy2 : y ≤ d.yEnd t)
    (ht1' : d.tStart ≤ t') (ht2' : t' ≤ d.tEnd) (hy1' : d.yStart t' ≤ y') (hy2' : y' ≤ d.yEnd t')
    (hs : (d.view t y).seg = some sg) (hs' : (d.view t' y').seg = some sg') (hk : k < sg.len) (hk' : k' < sg'.len)
    (heq : d.bT * t + sg.dst + k = d.bT * t' + sg'.dst + k') : t = t' ∧ y = y' ∧ k = k' := by
  obtain ⟨s1, e1, w0, q1, q2, q3, q4, q5, q6⟩ := dim_sound d hv t y ht1 ht2 hy1 hy2
  obtain ⟨s2, e2, w0', r1, r2, r3, r4, r5, r6⟩ := dim_sound d hv t' y' ht1' ht2' hy1' hy2'
  rw [hs] at e1; rw [hs'] at e2
  cases e1; cases e2
  have ht : t = t' := by
    have h1 : (d.bT * t + sg.dst + k) / d.bT = t := div_eq_of_bounds (by omega) (by omega)
    have h2 : (d.bT * t' + sg'.dst + k') / d.bT = t' := div_eq_of_bounds (by omega) (by omega)
    rw [heq] at h1; omega
  subst ht
  have hy : y = y' := by
    have h1 : (d.bY * y + sg.src + k) / d.bY = y := div_eq_of_bounds (by omega) (by omega)
    have h2 : (d.bY * y' + sg'.src + k') / d.bY = y' := div_eq_of_bounds (by omega) (by omega)
    have : d.bY * y + sg.src + k = d.bY * y' + sg'.src + k' := by omega
    rw [this] at h1; omega
  subst hy
  rw [hs] at hs'; cases hs'
  exact ⟨rfl, rfl, by omega⟩

end ParsecVerif.Redistribute
