import ParsecVerif.Proofs.FourCounterI2
/-
  The full invariant is preserved by the application: workload changes, sending, receiving.
-/
namespace ParsecVerif.FourCounter

theorem Inv.work {s : State} (h : Inv s) {p : Nat} (hp : p < s.n) {a b : Nat} {x : St}
    (hnt : (s.procs p).st ≠ .term)
    (hc : cls x = cls (s.procs p).st)
    (hmay : mayWork (s.procs p) (a + b))
    (h8 : x = .busyWP → 0 < a + b ∨ 0 < (s.procs p).opn ∨ (s.gh p).curR < (s.procs p).mr)
    (hf : x = .busyWP → (s.procs p).st = .busyWP ∨ 0 < a + b) :
    Inv (setP s p { s.procs p with nt := a, npa := b, st := x }) := by
  generalize hv : ({ s.procs p with nt := a, npa := b, st := x } : Proc) = v
  have hne : ∀ q, q ≠ p → (setP s p v).procs q = s.procs q := by intro q e; simp [setP, e]
  have hpp : (setP s p v).procs p = v := by simp [setP]
  have hxt : x ≠ .term := by intro e; rw [e] at hc; exact hnt (cls_eq_3.1 hc.symm)
  refine ⟨?_, ?_, ?_, ?_⟩
  · apply h.st.env (s' := setP s p v) rfl rfl rfl
    · intro q; by_cases e : q = p
      · subst e; rw [hpp, ← hv]; exact hc
      · rw [hne q e]
    · intro q; by_cases e : q = p
      · subst e; rw [hpp, ← hv]
      · rw [hne q e]
    · intro q; by_cases e : q = p
      · subst e; rw [hpp, ← hv]
      · rw [hne q e]
    · intro q; by_cases e : q = p
      · subst e; rw [hpp, ← hv]
      · rw [hne q e]
    · by_cases e : 0 = p
      · subst e; rw [hpp, ← hv]
      · rw [hne 0 e]
    · by_cases e : 0 = p
      · subst e; rw [hpp, ← hv]
      · rw [hne 0 e]
    · intro q; rfl
    · intro q r; rfl
    · intro k hk; exact Or.inr ⟨k, hk, rfl, rfl, rfl⟩
  · apply h.hi.work h.st hp (v := v)
    · rw [← hv]
    · rw [← hv]
    · rw [← hv]
    · rw [← hv]; exact hc
    · rw [← hv]; exact hmay
    · rw [← hv]; exact h8
  · intro ht
    by_cases e : 0 = p
    · subst e; rw [hpp, ← hv] at ht; exact absurd ht hxt
    · rw [hne 0 e] at ht
      have hq := h.fi.q ht
      refine ⟨fun q hq' => ?_, hq.2⟩
      by_cases e' : q = p
      · subst e'
        have old := hq.1 q hp
        have hip : (s.procs q).st = .idleWP := by
          rcases old.2.2 with t | t
          · exact t
          · exact absurd t hnt
        have hab : a + b = 0 := by
          by_cases hh : a + b = 0
          · exact hh
          · rcases hmay old.1 (by omega) with t | t
            · rw [hip] at t; cases t
            · omega
        rw [hpp, ← hv]
        refine ⟨hab, old.2.1, Or.inl ?_⟩
        show x = .idleWP
        rw [hip] at hc
        rcases cls_eq_2.1 hc with t | t
        · rcases hf t with u | u
          · rw [hip] at u; cases u
          · omega
        · exact t
      · rw [hne q e']; exact hq.1 q hq'
  · intro q hq
    by_cases e : q = p
    · subst e; rw [hpp, ← hv]
      have := h.fi.cb q hq
      rw [if_neg hnt] at this
      show (s.procs q).cbs = if x = .term then 1 else 0
      rw [if_neg hxt]; exact this
    · rw [hne q e]; exact h.fi.cb q hq

theorem Inv.send {s : State} (h : Inv s) {p q : Nat} (hp : p < s.n) (hq : q < s.n) (hpq : p ≠ q)
    (hw : 0 < (s.procs p).wl) : Inv (pSend s p q) := by
  have hne : ∀ r, r ≠ p → (pSend s p q).procs r = s.procs r := by intro r e; simp [pSend, push, setP, e]
  have hpp : (pSend s p q).procs p = { s.procs p with ms := (s.procs p).ms + 1 } := by simp [pSend, push, setP]
  have hnot : (s.procs 0).st ≠ .term := by
    intro ht; have := ((h.fi.q ht).1 p hp).1; omega
  refine ⟨?_, h.hi.send hp hq hpq hw, ?_, ?_⟩
  · apply h.st.env (s' := pSend s p q) rfl rfl rfl
    · intro r; by_cases e : r = p
      · subst e; rw [hpp]
      · rw [hne r e]
    · intro r; by_cases e : r = p
      · subst e; rw [hpp]
      · rw [hne r e]
    · intro r; by_cases e : r = p
      · subst e; rw [hpp]
      · rw [hne r e]
    · intro r; by_cases e : r = p
      · subst e; rw [hpp]
      · rw [hne r e]
    · by_cases e : 0 = p
      · subst e; rw [hpp]
      · rw [hne 0 e]
    · by_cases e : 0 = p
      · subst e; rw [hpp]
      · rw [hne 0 e]
    · intro r; simp [U, pSend, push, setP, isUpFrom]
    · intro r x; simp [D, pSend, push, setP, isDownTo]
    · intro k hk
      simp only [pSend, push, setP, List.mem_append, List.mem_singleton] at hk
      rcases hk with hm | rfl
      · exact Or.inr ⟨k, hm, rfl, rfl, rfl⟩
      · exact Or.inl rfl
  · intro ht
    exfalso
    by_cases e : 0 = p
    · subst e; rw [hpp] at ht; exact hnot ht
    · rw [hne 0 e] at ht; exact hnot ht
  · intro r hr
    by_cases e : r = p
    · subst e; rw [hpp]; exact h.fi.cb r hr
    · rw [hne r e]; exact h.fi.cb r hr

theorem Inv.rstart {s : State} (h : Inv s) {k : Nat} {pk : Packet} {x : St}
    (hk : s.net[k]? = some pk) (happ : isApp pk = true) (hq : pk.dst < s.n)
    (hc : cls x = cls (s.procs pk.dst).st) (hnt : (s.procs pk.dst).st ≠ .term) :
    Inv (pRstart s k pk.dst x) := by
  have hne : ∀ r, r ≠ pk.dst → (pRstart s k pk.dst x).procs r = s.procs r := by
    intro r e; simp [pRstart, setP, e]
  have hpp : (pRstart s k pk.dst x).procs pk.dst =
      { s.procs pk.dst with opn := (s.procs pk.dst).opn + 1, st := x } := by simp [pRstart, setP]
  have hxt : x ≠ .term := by intro e; rw [e] at hc; exact hnt (cls_eq_3.1 hc.symm)
  have hnot : (s.procs 0).st ≠ .term := by
    intro ht
    have := (h.fi.q ht).2
    have := cnt_pos_of_mem isApp (mem_of_getElem? hk) happ
    omega
  have hkk : ∀ f : Packet → Bool, f pk = false → cnt f (pRstart s k pk.dst x).net = cnt f s.net := by
    intro f hf
    have := cnt_eraseIdx f hk
    rw [hf] at this; simpa [pRstart, setP] using this
  have hkind : pk.kind = .app := by
    unfold isApp at happ; split at happ <;> simp_all
  refine ⟨?_, h.hi.rstart hk happ hq hc, ?_, ?_⟩
  · apply h.st.env (s' := pRstart s k pk.dst x) rfl rfl rfl
    · intro r; by_cases e : r = pk.dst
      · rw [e, hpp]; exact hc
      · rw [hne r e]
    · intro r; by_cases e : r = pk.dst
      · rw [e, hpp]
      · rw [hne r e]
    · intro r; by_cases e : r = pk.dst
      · rw [e, hpp]
      · rw [hne r e]
    · intro r; by_cases e : r = pk.dst
      · rw [e, hpp]
      · rw [hne r e]
    · by_cases e : 0 = pk.dst
      · rw [e, hpp]
      · rw [hne 0 e]
    · by_cases e : 0 = pk.dst
      · rw [e, hpp]
      · rw [hne 0 e]
    · intro r; exact hkk _ (by simp [isUpFrom, hkind])
    · intro r y; exact hkk _ (by simp [isDownTo, hkind])
    · intro k' hk'
      exact Or.inr ⟨k', List.mem_of_mem_eraseIdx hk', rfl, rfl, rfl⟩
  · intro ht
    exfalso
    by_cases e : 0 = pk.dst
    · rw [e, hpp] at ht; exact hxt ht
    · rw [hne 0 e] at ht; exact hnot ht
  · intro r hr
    by_cases e : r = pk.dst
    · rw [e, hpp]
      have := h.fi.cb pk.dst hq
      rw [if_neg hnt] at this
      show (s.procs pk.dst).cbs = if x = .term then 1 else 0
      rw [if_neg hxt]; exact this
    · rw [hne r e]; exact h.fi.cb r hr

theorem Inv.rend {s : State} (h : Inv s) {q : Nat} (hq : q < s.n) (ho : 0 < (s.procs q).opn) :
    Inv (pRend s q) := by
  have hne : ∀ r, r ≠ q → (pRend s q).procs r = s.procs r := by intro r e; simp [pRend, setP, e]
  have hpp : (pRend s q).procs q = { s.procs q with opn := (s.procs q).opn - 1, mr := (s.procs q).mr + 1 } := by
    simp [pRend, setP]
  have hnot : (s.procs 0).st ≠ .term := by
    intro ht; have := ((h.fi.q ht).1 q hq).2.1; omega
  refine ⟨?_, h.hi.rend hq ho, ?_, ?_⟩
  · apply h.st.env (s' := pRend s q) rfl rfl rfl
    · intro r; by_cases e : r = q
      · subst e; rw [hpp]
      · rw [hne r e]
    · intro r; by_cases e : r = q
      · subst e; rw [hpp]
      · rw [hne r e]
    · intro r; by_cases e : r = q
      · subst e; rw [hpp]
      · rw [hne r e]
    · intro r; by_cases e : r = q
      · subst e; rw [hpp]
      · rw [hne r e]
    · by_cases e : 0 = q
      · subst e; rw [hpp]
      · rw [hne 0 e]
    · by_cases e : 0 = q
      · subst e; rw [hpp]
      · rw [hne 0 e]
    · intro r; rfl
    · intro r y; rfl
    · intro k hk; exact Or.inr ⟨k, hk, rfl, rfl, rfl⟩
  · intro ht
    exfalso
    by_cases e : 0 = q
    · subst e; rw [hpp] at ht; exact hnot ht
    · rw [hne 0 e] at ht; exact hnot ht
  · intro r hr
    by_cases e : r = q
    · subst e; rw [hpp]; exact h.fi.cb r hr
    · rw [hne r e]; exact h.fi.cb r hr

end ParsecVerif.FourCounter
