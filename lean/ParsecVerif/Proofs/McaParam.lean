/-
  Helper lemmas about the MCA parameter model: association-list environment, the command-line
  accumulation (`processArg`), the file-value list (`saveValue`, `parseFile`, `readFiles`), the
  file-value scan, and the text → number conversion.
-/
import ParsecVerif.Model.McaParam

namespace ParsecVerif.McaParam

/-! ## environment as an association list -/

theorem getenv_nil (n : String) : getenv [] n = none := rfl

theorem getenv_cons (e : String × String) (t : Env) (n : String) :
    getenv (e :: t) n = if e.1 = n then some e.2 else getenv t n := by
  unfold getenv
  by_cases h : e.1 = n <;> simp [h]

theorem getenv_append (a b : Env) (n : String) :
    getenv (a ++ b) n = match getenv a n with
      | some v => some v
      | none => getenv b n := by
  induction a with
  | nil => simp [getenv_nil]
  | cons e t ih =>
    rw [List.cons_append, getenv_cons, getenv_cons]
    by_cases h : e.1 = n <;> simp [h, ih]

theorem getenv_none_of_not_any (env : Env) (n : String) (h : env.any (fun e => e.1 = n) = false) :
    getenv env n = none := by
  induction env with
  | nil => rfl
  | cons e t ih =>
    rw [List.any_cons, Bool.or_eq_false_iff] at h
    rw [getenv_cons]
    have : ¬ e.1 = n := by simpa using h.1
    simp [this, ih h.2]

/-- rewriting the values stored under key `p` (keys untouched) -/
theorem getenv_map_key (env : Env) (p n : String) (g : String → String) :
    getenv (env.map (fun e => if e.1 = p then (e.1, g e.2) else e)) n =
      if n = p then (getenv env n).map g else getenv env n := by
  induction env with
  | nil => simp [getenv_nil]
  | cons e t ih =>
    rw [List.map_cons, getenv_cons, getenv_cons, ih]
    by_cases h1 : e.1 = p
    · by_cases h2 : n = p
      · subst h2; simp [h1]
      · have h3 : ¬ p = n := fun h => h2 h.symm
        simp [h1, h2, h3]
    · by_cases h2 : e.1 = n
      · have : ¬ n = p := by rw [← h2]; exact h1
        simp [h2, this]
      · simp [h1, h2]

theorem getenv_some_of_any (env : Env) (n : String) (ha : env.any (fun e => e.1 = n) = true) :
    ∃ x, getenv env n = some x := by
  induction env with
  | nil => simp at ha
  | cons e t ih =>
    rw [getenv_cons]
    by_cases h1 : e.1 = n
    · exact ⟨e.2, by simp [h1]⟩
    · simp only [h1, if_false]
      apply ih
      rw [List.any_cons, Bool.or_eq_true] at ha
      rcases ha with h | h
      · exact absurd (by simpa using h) h1
      · exact h

theorem setenv_get (env : Env) (k v n : String) :
    getenv (setenv env k v) n = if n = k then some v else getenv env n := by
  unfold setenv
  by_cases ha : env.any (fun e => e.1 = k) = true
  · rw [if_pos ha]
    have hk : getenv (env.map (fun e => if e.1 = k then (e.1, v) else e)) n
        = if n = k then (getenv env n).map (fun _ => v) else getenv env n := getenv_map_key env k n (fun _ => v)
    rw [hk]
    by_cases h : n = k
    · subst h
      obtain ⟨x, hx⟩ := getenv_some_of_any env n ha
      simp [hx]
    · simp [h]
  · have ha' : env.any (fun e => e.1 = k) = false := Bool.eq_false_iff.mpr ha
    rw [if_neg ha, getenv_append]
    by_cases h : n = k
    · subst h
      simp [getenv_none_of_not_any env n ha', getenv_cons]
    · have h' : ¬ k = n := fun e => h e.symm
      cases hg : getenv env n <;> simp [getenv_cons, getenv_nil, h, h']

/-- last binding of `n` in a list of assignments -/
def lastVal : List (String × String) → String → Option String
  | [], _ => none
  | kv :: t, n =>
    match lastVal t n with
    | some x => some x
    | none => if kv.1 = n then some kv.2 else none

theorem setenvAll_get (l : List (String × String)) (env : Env) (n : String) :
    getenv (setenvAll env l) n = match lastVal l n with
      | some x => some x
      | none => getenv env n := by
  unfold setenvAll
  induction l generalizing env with
  | nil => simp [lastVal]
  | cons kv t ih =>
    rw [List.foldl_cons, ih, lastVal]
    cases h : lastVal t n with
    | some x => simp
    | none =>
      simp only [setenv_get]
      by_cases h1 : kv.1 = n
      · simp [h1]
      · have : ¬ n = kv.1 := fun e => h1 e.symm
        simp [h1, this]

def keys (l : List (String × String)) : List String := l.map (·.1)

theorem getenv_none_of_not_mem (l : Env) (n : String) (h : n ∉ keys l) : getenv l n = none := by
  induction l with
  | nil => rfl
  | cons e t ih =>
    rw [getenv_cons]
    simp only [keys, List.map_cons, List.mem_cons, not_or] at h
    have : ¬ e.1 = n := fun x => h.1 x.symm
    simp only [this, if_false]
    exact ih h.2

theorem lastVal_none_of_not_mem (l : List (String × String)) (n : String) (h : n ∉ keys l) : lastVal l n = none := by
  induction l with
  | nil => rfl
  | cons e t ih =>
    simp only [keys, List.map_cons, List.mem_cons, not_or] at h
    have : ¬ e.1 = n := fun x => h.1 x.symm
    simp [lastVal, ih h.2, this]

theorem lastVal_eq_getenv (l : List (String × String)) (n : String) (h : (keys l).Nodup) :
    lastVal l n = getenv l n := by
  induction l with
  | nil => rfl
  | cons e t ih =>
    simp only [keys, List.map_cons, List.nodup_cons] at h
    rw [lastVal, getenv_cons, ih h.2]
    by_cases h1 : e.1 = n
    · have : n ∉ keys t := by rw [← h1]; exact h.1
      simp [h1, getenv_none_of_not_mem t n this]
    · cases hg : getenv t n <;> simp [h1]

/-! ## `process_arg`: repeated options are joined with commas -/

/-- "," ++ v₁ ++ "," ++ v₂ ++ … -/
def sepTail : List String → String
  | [] => ""
  | v :: t => "," ++ v ++ sepTail t

/-- `v₀,v₁,…` — the comma-joined list (equal to `",".intercalate`, see `commaJoin_eq_intercalate`) -/
def commaJoin : List String → String
  | [] => ""
  | a :: t => a ++ sepTail t

/-- joining onto what is already there -/
def joinFrom : Option String → List String → Option String
  | o, [] => o
  | none, v :: t => joinFrom (some v) t
  | some a, v :: t => joinFrom (some (a ++ "," ++ v)) t

theorem joinFrom_some (a : String) (vs : List String) : joinFrom (some a) vs = some (a ++ sepTail vs) := by
  induction vs generalizing a with
  | nil => simp [joinFrom, sepTail]
  | cons v t ih => simp [joinFrom, ih, sepTail, String.append_assoc]

theorem joinFrom_none (vs : List String) :
    joinFrom none vs = if vs = [] then none else some (commaJoin vs) := by
  cases vs with
  | nil => simp [joinFrom]
  | cons v t => simp [joinFrom, joinFrom_some, commaJoin]

theorem processArg_keys_nodup (acc : List (String × String)) (p v : String) (h : (keys acc).Nodup) :
    (keys (processArg acc p v)).Nodup := by
  unfold processArg
  by_cases ha : acc.any (fun e => e.1 = p) = true
  · rw [if_pos ha]
    have : keys (acc.map (fun e => if e.1 = p then (e.1, e.2 ++ "," ++ v) else e)) = keys acc := by
      unfold keys
      rw [List.map_map]
      apply List.map_congr_left
      intro e _
      by_cases h1 : e.1 = p <;> simp [h1]
    rw [this]; exact h
  · rw [if_neg ha]
    unfold keys
    rw [List.map_append, List.nodup_append]
    refine ⟨h, by simp, ?_⟩
    intro a ha1 b hb
    simp only [List.map_cons, List.map_nil, List.mem_singleton] at hb
    subst hb
    intro hab
    subst hab
    apply ha
    rw [List.any_eq_true]
    simp only [List.mem_map] at ha1
    obtain ⟨e, he, he1⟩ := ha1
    exact ⟨e, he, by simp [he1]⟩

theorem processArg_get (acc : List (String × String)) (p v n : String) :
    getenv (processArg acc p v) n =
      if n = p then joinFrom (getenv acc n) [v] else getenv acc n := by
  unfold processArg
  by_cases ha : acc.any (fun e => e.1 = p) = true
  · rw [if_pos ha, getenv_map_key acc p n (fun x => x ++ "," ++ v)]
    by_cases h : n = p
    · subst h
      simp only [if_true]
      obtain ⟨x, hx⟩ := getenv_some_of_any acc n ha
      simp [hx, joinFrom]
    · simp [h]
  · have ha' : acc.any (fun e => e.1 = p) = false := Bool.eq_false_iff.mpr ha
    rw [if_neg ha, getenv_append]
    by_cases h : n = p
    · subst h
      simp [getenv_none_of_not_any acc n ha', getenv_cons, joinFrom]
    · have h' : ¬ p = n := fun e => h e.symm
      cases hg : getenv acc n <;> simp [getenv_cons, getenv_nil, h, h']

theorem joinFrom_append (o : Option String) (a b : List String) :
    joinFrom o (a ++ b) = joinFrom (joinFrom o a) b := by
  induction a generalizing o with
  | nil => simp [joinFrom]
  | cons v t ih =>
    cases o <;> simp [joinFrom, ih]

/-- values given to `n` by a list of (name, value) pairs, in order -/
def valuesOf (l : List (String × String)) (n : String) : List String :=
  (l.filter (fun e => e.1 = n)).map (·.2)

theorem foldl_processArg_get (l : List (String × String)) (acc : List (String × String)) (n : String) :
    getenv (l.foldl (fun a e => processArg a e.1 e.2) acc) n = joinFrom (getenv acc n) (valuesOf l n) := by
  induction l generalizing acc with
  | nil => simp [valuesOf, joinFrom]
  | cons e t ih =>
    rw [List.foldl_cons, ih, processArg_get]
    by_cases h : n = e.1
    · have h' : e.1 = n := h.symm
      simp only [valuesOf, List.filter_cons, h', decide_true, if_true, List.map_cons]
      simp only [h'.symm]
      cases hg : getenv acc e.1 <;> simp [joinFrom]
    · have h' : ¬ e.1 = n := fun x => h x.symm
      simp [valuesOf, h', h]

theorem foldl_processArg_nodup (l : List (String × String)) (acc : List (String × String))
    (h : (keys acc).Nodup) : (keys (l.foldl (fun a e => processArg a e.1 e.2) acc)).Nodup := by
  induction l generalizing acc with
  | nil => exact h
  | cons e t ih => exact ih _ (processArg_keys_nodup acc e.1 e.2 h)

/-! ## the file-value list -/

/-- value recorded for `n` (first entry named `n`); `none` = no entry, `some none` = entry with NULL -/
def fvValue (fvs : List FV) (n : String) : Option (Option String) :=
  match fvs.find? (fun fv => fv.name = n) with
  | some fv => some fv.value
  | none => none

theorem fvValue_nil (n : String) : fvValue [] n = none := rfl

theorem fvValue_cons (fv : FV) (t : List FV) (n : String) :
    fvValue (fv :: t) n = if fv.name = n then some fv.value else fvValue t n := by
  unfold fvValue
  by_cases h : fv.name = n <;> simp [h]

theorem fvValue_append_single (fvs : List FV) (fv : FV) (n : String) :
    fvValue (fvs ++ [fv]) n = match fvValue fvs n with
      | some v => some v
      | none => if fv.name = n then some fv.value else none := by
  induction fvs with
  | nil => simp [fvValue_cons, fvValue_nil]
  | cons e t ih =>
    rw [List.cons_append, fvValue_cons, fvValue_cons]
    by_cases h : e.name = n <;> simp [h, ih]

theorem replaceFirst_value (name : String) (value : Option String) (file : String) (fvs : List FV) (n : String) :
    fvValue (saveValue.replaceFirst file name value fvs) n =
      if n = name then (if fvs.any (fun fv => fv.name = name) then some value else none)
      else fvValue fvs n := by
  induction fvs with
  | nil => by_cases h : n = name <;> simp [saveValue.replaceFirst, fvValue_nil, h]
  | cons e t ih =>
    unfold saveValue.replaceFirst
    by_cases h1 : e.name = name
    · rw [if_pos h1, fvValue_cons, fvValue_cons]
      by_cases h2 : n = name
      · subst h2; simp [h1]
      · have : ¬ name = n := fun x => h2 x.symm
        have h3 : ¬ e.name = n := by rw [h1]; exact this
        simp [h2, this, h3]
    · rw [if_neg h1, fvValue_cons, fvValue_cons, ih]
      by_cases h2 : n = name
      · subst h2
        simp [h1, List.any_cons]
      · by_cases h3 : e.name = n <;> simp [h2, h3]

theorem fvValue_none_of_not_any (fvs : List FV) (n : String) (h : fvs.any (fun fv => fv.name = n) = false) :
    fvValue fvs n = none := by
  induction fvs with
  | nil => rfl
  | cons e t ih =>
    rw [List.any_cons, Bool.or_eq_false_iff] at h
    have : ¬ e.name = n := by simpa using h.1
    rw [fvValue_cons]
    simp [this, ih h.2]

/-- `save_value` sets the value of its name and leaves every other name alone -/
theorem saveValue_value (fvs : List FV) (file name : String) (value : Option String) (n : String) :
    fvValue (saveValue fvs file name value) n = if n = name then some value else fvValue fvs n := by
  unfold saveValue
  by_cases ha : fvs.any (fun fv => fv.name = name) = true
  · rw [if_pos ha, replaceFirst_value]
    by_cases h : n = name <;> simp [h, ha]
  · have ha' : fvs.any (fun fv => fv.name = name) = false := Bool.eq_false_iff.mpr ha
    rw [if_neg ha, fvValue_append_single]
    by_cases h : n = name
    · subst h
      simp [fvValue_none_of_not_any fvs n ha']
    · have : ¬ name = n := fun x => h x.symm
      cases hg : fvValue fvs n <;> simp [h, this]

/-- last line of a file that names `n` -/
def lastLine : FileContent → String → Option (Option String)
  | [], _ => none
  | e :: t, n =>
    match lastLine t n with
    | some x => some x
    | none => if e.1 = n then some e.2 else none

theorem parseFile_value (c : FileContent) (fvs : List FV) (file n : String) :
    fvValue (parseFile fvs file c) n = match lastLine c n with
      | some v => some v
      | none => fvValue fvs n := by
  unfold parseFile
  induction c generalizing fvs with
  | nil => simp [lastLine]
  | cons e t ih =>
    rw [List.foldl_cons, ih, lastLine]
    cases h : lastLine t n with
    | some x => simp
    | none =>
      simp only [saveValue_value]
      by_cases h1 : e.1 = n
      · simp [h1]
      · have : ¬ n = e.1 := fun x => h1 x.symm
        simp [h1, this]

theorem lastLine_none_of_not_mem (c : FileContent) (n : String) (h : ∀ e ∈ c, e.1 ≠ n) : lastLine c n = none := by
  induction c with
  | nil => rfl
  | cons e t ih =>
    have h1 : ¬ e.1 = n := h e (List.mem_cons_self)
    have h2 : ∀ e ∈ t, e.1 ≠ n := fun x hx => h x (List.mem_cons_of_mem _ hx)
    simp [lastLine, ih h2, h1]

/-- one step of `read_files` -/
def readOne (fs : Files) (acc : List FV) (n : String) : List FV :=
  match fileContent fs n with
  | some c => parseFile acc n c
  | none => acc

theorem readFiles_eq (fs : Files) (fvs : List FV) (names : List String) :
    readFiles fs fvs names = names.reverse.foldl (readOne fs) fvs := rfl

/-- files that do not mention `n` (or do not exist) leave its value alone -/
theorem foldl_readOne_frame (fs : Files) (l : List String) (fvs : List FV) (n : String)
    (h : ∀ g ∈ l, ∀ cg, fileContent fs g = some cg → ∀ e ∈ cg, e.1 ≠ n) :
    fvValue (l.foldl (readOne fs) fvs) n = fvValue fvs n := by
  induction l generalizing fvs with
  | nil => rfl
  | cons g t ih =>
    rw [List.foldl_cons, ih _ (fun x hx => h x (List.mem_cons_of_mem _ hx))]
    unfold readOne
    cases hc : fileContent fs g with
    | none => rfl
    | some c =>
      simp only
      rw [parseFile_value, lastLine_none_of_not_mem c n (h g (List.mem_cons_self) c hc)]

/-! ## the scan of `lookup_file` -/

theorem fvFind_append (p : Param) (pre : List FV) (fv : FV) (rest : List FV)
    (hpre : ∀ x ∈ pre, fvMatches p x = false) (hfv : fvMatches p fv = true) :
    fvFind p (pre ++ fv :: rest) = some fv := by
  induction pre with
  | nil => simp [fvFind, hfv]
  | cons x t ih =>
    have hx : fvMatches p x = false := hpre x (List.mem_cons_self)
    rw [List.cons_append, fvFind]
    simp only [hx, Bool.false_eq_true, if_false]
    exact ih (fun y hy => hpre y (List.mem_cons_of_mem _ hy))

theorem fvFind_none_iff (p : Param) (fvs : List FV) :
    fvFind p fvs = none ↔ ∀ x ∈ fvs, fvMatches p x = false := by
  induction fvs with
  | nil => simp [fvFind]
  | cons x t ih =>
    unfold fvFind
    by_cases hx : fvMatches p x = true
    · simp [hx]
    · have hx' : fvMatches p x = false := by simpa using hx
      simp [hx', ih]

theorem fvFind_some_matches (p : Param) (fvs : List FV) (fv : FV) (h : fvFind p fvs = some fv) :
    fvMatches p fv = true ∧ fv ∈ fvs := by
  induction fvs with
  | nil => simp [fvFind] at h
  | cons x t ih =>
    unfold fvFind at h
    by_cases hx : fvMatches p x = true
    · rw [if_pos hx] at h
      cases h
      exact ⟨hx, List.mem_cons_self⟩
    · rw [if_neg hx] at h
      exact ⟨(ih h).1, List.mem_cons_of_mem _ (ih h).2⟩

theorem fvRemove_of_find_none (p : Param) (fvs : List FV) (h : fvFind p fvs = none) : fvRemove p fvs = fvs := by
  induction fvs with
  | nil => rfl
  | cons x t ih =>
    unfold fvFind at h
    by_cases hx : fvMatches p x = true
    · rw [if_pos hx] at h; cases h
    · rw [if_neg hx] at h
      unfold fvRemove
      rw [if_neg hx, ih h]

/-! ## text → number -/

def digitChar (d : Nat) : Char := Char.ofNat (48 + d)

theorem digitVal_digitChar : ∀ d : Fin 10, digitVal (digitChar d.val) = some d.val := by decide

/-- Horner value of a digit list, continuing from `acc` -/
def horner (ds : List (Fin 10)) (acc : Nat) : Nat := ds.foldl (fun a d => a * 10 + d.val) acc

/-- what stops a decimal numeral: end of text or a character that is not a decimal digit -/
def stops10 (rest : List Char) : Prop :=
  rest = [] ∨ ∃ c t, rest = c :: t ∧ (digitVal c = none ∨ ∃ d, digitVal c = some d ∧ ¬ d < 10)

theorem digitsIn_stop (rest : List Char) (h : stops10 rest) (acc : Nat) : digitsIn 10 rest acc = acc := by
  rcases h with h | ⟨c, t, h, hc⟩
  · subst h; rfl
  · subst h
    rcases hc with hc | ⟨d, hd, hlt⟩
    · simp [digitsIn, hc]
    · simp [digitsIn, hd, hlt]

theorem digitsIn_decimal (ds : List (Fin 10)) (rest : List Char) (h : stops10 rest) (acc : Nat) :
    digitsIn 10 (ds.map (fun d => digitChar d.val) ++ rest) acc = horner ds acc := by
  induction ds generalizing acc with
  | nil => simpa [horner] using digitsIn_stop rest h acc
  | cons d t ih =>
    rw [List.map_cons, List.cons_append, digitsIn, digitVal_digitChar d]
    simp only [d.isLt, if_true]
    rw [ih]
    simp [horner]

end ParsecVerif.McaParam
