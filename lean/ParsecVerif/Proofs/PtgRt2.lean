import ParsecVerif.Proofs.PtgRt
/-! Soundness of the executable race-freedom check, the static write targets of a body, and the ordering lemmas that
    turn a quiescent run into a permutation of the sequential order (helper lemmas for C02). -/
namespace ParsecVerif.PtgRt
open ParsecVerif.Ptg ParsecVerif.Dataflow

/-! ### enumFrom -/

theorem mem_enumFrom {α : Type} (l : List α) (n i : Nat) (d : α) :
    (i, d) ∈ enumFrom n l ↔ ∃ k, i = n + k ∧ l[k]? = some d := by
  induction l generalizing n with
  | nil => simp [enumFrom]
  | cons x xs ih =>
    simp only [enumFrom, List.mem_cons, Prod.mk.injEq, ih]
    constructor
    · rintro (⟨rfl, rfl⟩ | ⟨k, rfl, hk⟩)
      · exact ⟨0, rfl, rfl⟩
      · exact ⟨k + 1, by omega, by simpa using hk⟩
    · rintro ⟨k, rfl, hk⟩
      cases k with
      | zero => left; simp at hk; exact ⟨rfl, hk.symm⟩
      | succ k => right; exact ⟨k, by omega, by simpa using hk⟩

theorem mem_enumFrom0 {α : Type} (l : List α) (i : Nat) (d : α) : (i, d) ∈ enumFrom 0 l ↔ l[i]? = some d := by
  rw [mem_enumFrom]
  constructor
  · rintro ⟨k, rfl, hk⟩; simpa using hk
  · intro h; exact ⟨i, by omega, h⟩

/-! ### the ancestor table is sound -/

theorem ancTab_length (g : Graph) (k : Nat) : (ancTab g k).length = k := by
  induction k with
  | zero => rfl
  | succ k ih => simp [ancTab, ih]

theorem ancTab_get (g : Graph) (k j : Nat) (hj : j < k) : (ancTab g k)[j]? = some (ancRow g (ancTab g j) j) := by
  induction k with
  | zero => omega
  | succ k ih =>
    simp only [ancTab]
    by_cases hjk : j < k
    · rw [List.getElem?_append_left (by rw [ancTab_length]; exact hjk)]
      exact ih hjk
    · have : j = k := by omega
      subst this
      rw [List.getElem?_append_right (by rw [ancTab_length]; exact Nat.le_refl _)]
      simp [ancTab_length]

theorem reaches_sound {g : Graph} (hwf : WF g id) (a : Nat) :
    ∀ b k, b < k → reaches (ancTab g k) a b = true → Path g a b := by
  intro b
  induction b using Nat.strongRecOn with
  | _ b ih =>
    intro k hbk hr
    unfold reaches at hr
    rw [ancTab_get g k b hbk] at hr
    simp only [Option.bind_some, ancRow, List.getElem?_map] at hr
    cases hra : (List.range g.n)[a]? with
    | none => rw [hra] at hr; simp at hr
    | some a' =>
      rw [hra] at hr
      have ha' : a' = a := by
        have := List.getElem?_eq_some_iff.1 hra
        obtain ⟨_, h2⟩ := this
        simpa using h2.symm
      subst ha'
      simp only [Option.map_some, Option.getD_some, List.any_eq_true] at hr
      obtain ⟨i, hi, hor⟩ := hr
      have hie : (i, b) ∈ g.E := (mem_predsOf g b i).1 hi
      have hlt : i < b := hwf.2 _ hie
      rw [Bool.or_eq_true] at hor
      rcases hor with h1 | h2
      · have : i = a' := by simpa using h1
        subst this
        exact Path.edge hie
      · exact Path.step (ih i hlt b hlt h2) hie

theorem raceFreeB_sound {g : Graph} (hwf : WF g id) (ds : List NodeD) (h : raceFreeB g ds = true) : RaceFree g ds := by
  intro i j di dj hi hj hne hc
  unfold raceFreeB at h
  simp only [List.all_eq_true] at h
  have := h (i, di) ((mem_enumFrom0 ds i di).2 hi) (j, dj) ((mem_enumFrom0 ds j dj).2 hj)
  simp only [Bool.or_eq_true, beq_iff_eq, Bool.not_eq_true'] at this
  rcases this with ((h1 | h2) | h3) | h4
  · exact absurd h1 hne
  · rw [hc] at h2; cases h2
  · -- reaches tab i j
    left
    have hj' : j < g.n := by
      unfold reaches at h3
      cases hh : (ancTab g g.n)[j]? with
      | none => rw [hh] at h3; simp at h3
      | some r => have := (List.getElem?_eq_some_iff.1 hh).1; rwa [ancTab_length] at this
    exact reaches_sound hwf i j g.n hj' h3
  · right
    have hi' : i < g.n := by
      unfold reaches at h4
      cases hh : (ancTab g g.n)[i]? with
      | none => rw [hh] at h4; simp at h4
      | some r => have := (List.getElem?_eq_some_iff.1 hh).1; rwa [ancTab_length] at this
    exact reaches_sound hwf j i g.n hi' h4

/-! ### static write targets of a body -/

theorem map_fst_piece (fl : List FlowD) (cellOf : Nat → FlowD → Option Cell) (val : Nat → FlowD → Cell → Nat) :
    (piece fl cellOf val).map (·.1) = (enumFrom 0 fl).filterMap (fun x => cellOf x.1 x.2) := by
  unfold piece
  rw [List.map_filterMap]
  congr 1
  funext x
  cases cellOf x.1 x.2 <;> rfl

theorem map_fst_wbPiece (fl : List FlowD) (val : Cell → Nat) :
    (wbPiece fl val).map (·.1) = fl.flatMap fun f => match f.copy with | some _ => f.wbs.map Cell.tile | none => [] := by
  unfold wbPiece
  rw [List.map_flatMap]
  congr 1
  funext f
  cases f.copy with
  | none => rfl
  | some c => simp [List.map_map, Function.comp_def]

theorem nodeD_targetsOK (H : BodyFn) (j : Nat) (t : Instance) (fl : List FlowD) : (nodeD H j t fl).TargetsOK := by
  intro vs x hx
  simp only [nodeD, nodeWrites, List.map_append, map_fst_piece, map_fst_wbPiece] at hx
  exact hx

theorem nodeDs_targetsOK (p : Program) (cfg : Cfg) (H : BodyFn) (i : Nat) (d : NodeD)
    (h : (nodeDs p cfg H)[i]? = some d) : d.TargetsOK := by
  unfold nodeDs at h
  rw [List.getElem?_map] at h
  cases hh : (enumFrom 0 ((allInstances p).zip (nodeFlows p cfg)))[i]? with
  | none => rw [hh] at h; cases h
  | some x =>
    rw [hh] at h
    simp only [Option.map_some, Option.some.injEq] at h
    subst h
    exact nodeD_targetsOK H _ _ _

/-! ### the list-based heaps of the driver compute the same function -/

theorem get_nil : LHeap.get [] = initHeap := by
  funext c; rfl

theorem get_cons (w : Cell × Nat) (l : LHeap) : LHeap.get (w :: l) = Heap.set (LHeap.get l) w.1 w.2 := by
  funext c
  simp only [LHeap.get, List.find?_cons, Heap.set]
  by_cases h : c = w.1
  · subst h; simp
  · have : (w.1 == c) = false := by simpa using fun e => h e.symm
    simp [this, h]

theorem get_reverse_append (ws : List (Cell × Nat)) (l : LHeap) :
    LHeap.get (ws.reverse ++ l) = applyWrites ws (LHeap.get l) := by
  induction ws generalizing l with
  | nil => rfl
  | cons w ws ih =>
    rw [List.reverse_cons, List.append_assoc, List.singleton_append, ih, get_cons, applyWrites_cons]

theorem get_execL (d : NodeD) (l : LHeap) : (d.execL l).get = d.exec l.get := by
  unfold NodeD.execL NodeD.exec
  exact get_reverse_append _ _

/-- the driver's association-list run computes exactly `runOrder` -/
theorem get_runOrderL (ds : List NodeD) (order : List Nat) (l : LHeap) :
    (runOrderL ds order l).get = runOrder ds order l.get := by
  unfold runOrderL runOrder
  induction order generalizing l with
  | nil => rfl
  | cons i order ih =>
    simp only [List.foldl_cons]
    rw [ih]
    cases ds[i]? with
    | none => rfl
    | some d => simp only; rw [get_execL]

/-! ### the heap of a run does not depend on the linearisation -/

def actOf (ds : List NodeD) (i : Nat) (h : Heap) : Heap := match ds[i]? with | some d => d.exec h | none => h

theorem runOrder_eq_foldl (ds : List NodeD) (order : List Nat) (h : Heap) :
    runOrder ds order h = order.foldl (fun s i => actOf ds i s) h := rfl

theorem actOf_commute (g : Graph) (ds : List NodeD) (hok : ∀ (i : Nat) (d : NodeD), ds[i]? = some d → d.TargetsOK) (hrf : RaceFree g ds)
    (i j : Nat) (hne : i ≠ j) (h1 : ¬ Path g i j) (h2 : ¬ Path g j i) (s : Heap) :
    actOf ds i (actOf ds j s) = actOf ds j (actOf ds i s) := by
  unfold actOf
  cases hi : ds[i]? with
  | none => rfl
  | some di =>
    cases hj : ds[j]? with
    | none => rfl
    | some dj =>
      simp only
      have hnc : di.conflict dj = false := by
        cases hc : di.conflict dj with
        | false => rfl
        | true => rcases hrf i j di dj hi hj hne hc with h | h
                  · exact absurd h h1
                  · exact absurd h h2
      exact exec_commute di dj (hok i di hi) (hok j dj hj) hnc s

/-- any two duplicate-free topological orders of the same nodes compute the same heap -/
theorem runOrder_topo_eq (g : Graph) (ds : List NodeD) (hok : ∀ (i : Nat) (d : NodeD), ds[i]? = some d → d.TargetsOK) (hrf : RaceFree g ds)
    (l1 l2 : List Nat) (hperm : l1.Perm l2) (hnd : l1.Nodup)
    (h1 : l1.Pairwise (fun x y => ¬ Path g y x)) (h2 : l2.Pairwise (fun x y => ¬ Path g y x)) (h : Heap) :
    runOrder ds l1 h = runOrder ds l2 h := by
  rw [runOrder_eq_foldl, runOrder_eq_foldl]
  exact fold_perm_of_commute (actOf ds) (Path g)
    (fun i j hne hij hji s => actOf_commute g ds hok hrf i j hne hij hji s) l1 l2 hperm hnd h1 h2 h

end ParsecVerif.PtgRt
