import ParsecVerif.Model.PtgRt
/-! Commutation of non-conflicting node actions and the "any two linearisations agree" lemma (helper lemmas for C02). -/
namespace ParsecVerif.PtgRt

theorem applyWrites_cons (w : Cell × Nat) (ws : List (Cell × Nat)) (h : Heap) :
    applyWrites (w :: ws) h = applyWrites ws (h.set w.1 w.2) := rfl

theorem applyWrites_frame (ws : List (Cell × Nat)) (h : Heap) (c : Cell) (hc : c ∉ ws.map (·.1)) :
    applyWrites ws h c = h c := by
  induction ws generalizing h with
  | nil => rfl
  | cons w ws ih =>
    rw [applyWrites_cons, ih]
    · have : c ≠ w.1 := fun e => hc (by simp [e])
      simp [Heap.set, this]
    · intro hm; exact hc (by simp only [List.map_cons, List.mem_cons]; exact Or.inr hm)

theorem applyWrites_indep (ws : List (Cell × Nat)) (h h' : Heap) (c : Cell) (hc : c ∈ ws.map (·.1)) :
    applyWrites ws h c = applyWrites ws h' c := by
  induction ws generalizing h h' with
  | nil => simp at hc
  | cons w ws ih =>
    rw [applyWrites_cons, applyWrites_cons]
    by_cases hm : c ∈ ws.map (·.1)
    · exact ih _ _ hm
    · rw [applyWrites_frame _ _ _ hm, applyWrites_frame _ _ _ hm]
      have : c = w.1 := by
        simp only [List.map_cons, List.mem_cons] at hc
        rcases hc with e | e
        · exact e
        · exact absurd e hm
      simp [Heap.set, this]

theorem conflict_false {a b : NodeD} (h : a.conflict b = false) :
    (∀ c ∈ a.targets, c ∉ b.reads ∧ c ∉ b.targets) ∧ (∀ c ∈ b.targets, c ∉ a.reads ∧ c ∉ a.targets) := by
  unfold NodeD.conflict at h
  rw [Bool.or_eq_false_iff] at h
  constructor
  · intro c hc
    have := h.1
    rw [List.any_eq_false] at this
    have := this c hc
    simp only [Bool.or_eq_true, List.contains_iff_mem, not_or] at this
    exact this
  · intro c hc
    have := h.2
    rw [List.any_eq_false] at this
    have := this c hc
    simp only [Bool.or_eq_true, List.contains_iff_mem, not_or] at this
    exact this

theorem exec_frame (d : NodeD) (hd : d.TargetsOK) (h : Heap) (c : Cell) (hc : c ∉ d.targets) : d.exec h c = h c :=
  applyWrites_frame _ _ _ (fun hm => hc (hd _ _ hm))

theorem reads_unchanged (a b : NodeD) (hb : b.TargetsOK) (hdis : ∀ c ∈ b.targets, c ∉ a.reads) (h : Heap) :
    a.reads.map (b.exec h) = a.reads.map h := by
  apply List.map_congr_left
  intro c hc
  exact exec_frame b hb h c (fun hm => hdis c hm hc)

/-- two node actions without a write/read or write/write overlap commute -/
theorem exec_commute (a b : NodeD) (ha : a.TargetsOK) (hb : b.TargetsOK) (hnc : a.conflict b = false) (h : Heap) :
    a.exec (b.exec h) = b.exec (a.exec h) := by
  obtain ⟨h1, h2⟩ := conflict_false hnc
  have ra : a.reads.map (b.exec h) = a.reads.map h := reads_unchanged a b hb (fun c hc => (h2 c hc).1) h
  have rb : b.reads.map (a.exec h) = b.reads.map h := reads_unchanged b a ha (fun c hc => (h1 c hc).1) h
  funext c
  show applyWrites (a.writes (a.reads.map (b.exec h))) (b.exec h) c = applyWrites (b.writes (b.reads.map (a.exec h))) (a.exec h) c
  rw [ra, rb]
  by_cases hca : c ∈ (a.writes (a.reads.map h)).map (·.1)
  · have hnb : c ∉ (b.writes (b.reads.map h)).map (·.1) := fun hm => (h1 c (ha _ _ hca)).2 (hb _ _ hm)
    rw [applyWrites_frame _ _ _ hnb]
    exact applyWrites_indep _ _ _ _ hca
  · rw [applyWrites_frame _ _ _ hca]
    by_cases hcb : c ∈ (b.writes (b.reads.map h)).map (·.1)
    · exact (applyWrites_indep _ _ _ _ hcb).symm
    · rw [applyWrites_frame _ _ _ hcb]
      show applyWrites (b.writes (b.reads.map h)) h c = applyWrites (a.writes (a.reads.map h)) h c
      rw [applyWrites_frame _ _ _ hcb, applyWrites_frame _ _ _ hca]

/-! ### any two linearisations that respect a relation agree when unrelated actions commute -/

theorem foldl_move {σ : Type} (act : Nat → σ → σ) (a : Nat) (p : List Nat)
    (hc : ∀ x ∈ p, ∀ s, act a (act x s) = act x (act a s)) (s : σ) :
    act a (p.foldl (fun s i => act i s) s) = p.foldl (fun s i => act i s) (act a s) := by
  induction p generalizing s with
  | nil => rfl
  | cons x p ih =>
    simp only [List.foldl_cons]
    rw [ih (fun y hy => hc y (List.mem_cons_of_mem _ hy)), hc x (List.mem_cons_self)]

theorem fold_perm_of_commute {σ : Type} (act : Nat → σ → σ) (hb : Nat → Nat → Prop)
    (hc : ∀ i j, i ≠ j → ¬ hb i j → ¬ hb j i → ∀ s, act i (act j s) = act j (act i s)) :
    ∀ (l1 l2 : List Nat), l1.Perm l2 → l1.Nodup → l1.Pairwise (fun x y => ¬ hb y x) → l2.Pairwise (fun x y => ¬ hb y x) →
      ∀ s, l1.foldl (fun s i => act i s) s = l2.foldl (fun s i => act i s) s := by
  intro l1
  induction l1 with
  | nil =>
    intro l2 hp _ _ _ s
    rw [List.Perm.nil_eq hp]
  | cons a l1 ih =>
    intro l2 hp hnd hp1 hp2 s
    have ha2 : a ∈ l2 := hp.subset (List.mem_cons_self)
    obtain ⟨p, q, rfl⟩ := List.append_of_mem ha2
    have hperm : l1.Perm (p ++ q) := (hp.trans List.perm_middle).cons_inv
    have hnd2 : (p ++ a :: q).Nodup := hp.nodup_iff.1 hnd
    have hnd1 : l1.Nodup := (List.nodup_cons.1 hnd).2
    have hnotin : a ∉ l1 := (List.nodup_cons.1 hnd).1
    rw [List.pairwise_cons] at hp1
    rw [List.pairwise_append] at hp2
    obtain ⟨hpp, hpq, hcross⟩ := hp2
    rw [List.pairwise_cons] at hpq
    have hmove : ∀ x ∈ p, ∀ s, act a (act x s) = act x (act a s) := by
      intro x hx
      have hxa : x ≠ a := by
        intro e; subst e
        rw [List.nodup_append] at hnd2
        exact hnd2.2.2 x hx x (List.mem_cons_self) rfl
      have hx1 : x ∈ l1 := hperm.symm.subset (List.mem_append_left _ hx)
      exact hc a x (Ne.symm hxa) (hcross x hx a (List.mem_cons_self)) (hp1.1 x hx1)
    rw [List.foldl_append]
    simp only [List.foldl_cons]
    rw [foldl_move act a p hmove s, ← List.foldl_append]
    apply ih (p ++ q) hperm hnd1 hp1.2
    rw [List.pairwise_append]
    exact ⟨hpp, hpq.2, fun x hx y hy => hcross x hx y (List.mem_cons_of_mem _ hy)⟩

end ParsecVerif.PtgRt
