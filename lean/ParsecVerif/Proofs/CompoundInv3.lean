import ParsecVerif.Proofs.CompoundInv2
/-! The two compound-specific transitions: startup hook and completion callback of a member. -/
namespace ParsecVerif.Compound
open ParsecVerif.Context

/-- position of the member whose state is `added`: it is `completed`, and the pending count is exact -/
theorem added_pos {l : List Tp} {c : Comp} (h : CI l c) {k m : Nat} {tp : Tp} (hk : c.members[k]? = some m)
    (htp : l[m]? = some tp) (hst : tp.st = .added) :
    k = c.completed ∧ c.pending = (c.members.length : Int) - c.completed ∧ c.completed < c.members.length := by
  obtain ⟨y, hy, _, b2, b3, b4⟩ := h.mem k m hk
  rw [htp] at hy; cases hy
  have hkc : k = c.completed := by
    rcases Nat.lt_trichotomy k c.completed with hlt | heq | hgt
    · rcases b2 hlt with e | e | e <;> rw [hst] at e <;> cases e
    · exact heq
    · have := b3 hgt; rw [hst] at this; cases this
  refine ⟨hkc, (b4 hkc).2.2 (by rw [hst]; simp), ?_⟩
  have := (List.getElem?_eq_some_iff.1 hk).1
  omega

theorem ci_startup {l : List Tp} {c : Comp} {m0 : Nat} {tp x : Tp} (h : CI l c) (hnd : c.members.Nodup)
    (h0 : c.members[0]? = some m0) (htp : l[m0]? = some tp) (hst : tp.st = .notAdded)
    (hx : x.st = .adding ∧ x.addAt = tp.addAt ∧ x.cbAt = tp.cbAt ∧ x.early = tp.early) :
    CI (l.set m0 x) { c with pending := c.members.length } := by
  obtain ⟨y, hy, he, b2, b3, b4⟩ := h.mem 0 m0 h0
  rw [htp] at hy; cases hy
  have hc0 : c.completed = 0 := by
    rcases Nat.eq_zero_or_pos c.completed with e | e
    · exact e
    · rcases b2 e with e' | e' | e' <;> rw [hst] at e' <;> cases e'
  refine ⟨h.le, ?_, ?_, ?_⟩
  · intro i m hm
    show ∃ tp : Tp, (l.set m0 x)[m]? = some tp ∧ _
    rw [get_set_tp _ _ _ _ _ htp]
    by_cases hmm : m = m0
    · subst hmm
      have hi : i = 0 := nodup_get_inj hnd hm h0
      rw [if_pos rfl]
      refine ⟨x, rfl, by rw [hx.2.2.2]; exact he, ?_, ?_, ?_⟩
      · intro hlt; simp only [] at hlt; omega
      · intro hlt; simp only [] at hlt; omega
      · intro _
        refine ⟨Or.inr (Or.inl hx.1), ?_, ?_⟩
        · intro e; rw [hx.1] at e; cases e
        · intro _; simp only []; rw [hc0]; simp
    · rw [if_neg hmm]
      obtain ⟨z, hz, c1, c2, c3, c4⟩ := h.mem i m hm
      refine ⟨z, hz, c1, c2, c3, ?_⟩
      intro hic
      simp only [] at hic
      have : i = 0 := by omega
      subst this
      rw [h0] at hm; cases hm; exact absurd rfl hmm
  · intro hfin
    simp only [] at hfin ⊢
    rw [← hfin, hc0]; rfl
  · have := ci_stamps_frame (l' := l.set m0 x) h (by
      intro m _ tp' htp'
      rw [get_set_tp _ _ _ _ _ htp] at htp'
      by_cases hmm : m = m0
      · rw [if_pos hmm] at htp'; cases htp'; exact ⟨tp, hmm ▸ htp, hx.2.1, hx.2.2.1⟩
      · rw [if_neg hmm] at htp'; exact ⟨tp', htp', rfl, rfl⟩)
    exact this

/-- completion callback of the member at position `completed`; `nx` = the next member when some remain -/
theorem ci_memberCb {l : List Tp} {c : Comp} {clk m : Nat} {tp x1 : Tp} (h : CI l c) (hnd : c.members.Nodup)
    (hS : ∀ tp ∈ l, tpOK clk tp) (hk : c.members[c.completed]? = some m) (htp : l[m]? = some tp) (hnn : tp.st ≠ .notAdded)
    (hx1 : (x1.st = .inCb ∨ x1.st = .inCbN) ∧ x1.addAt = tp.addAt ∧ x1.early = tp.early)
    (l' : List Tp)
    (hl' : (c.pending - 1 ≤ 0 ∧ l' = l.set m x1) ∨
           (c.pending - 1 > 0 ∧ ∃ (nx : Nat) (tn x2 : Tp), c.members[c.completed + 1]? = some nx ∧ (l.set m x1)[nx]? = some tn ∧
              tn.st = .notAdded ∧ x2.st = .adding ∧ x2.addAt = tn.addAt ∧ x2.cbAt = tn.cbAt ∧ x2.early = tn.early ∧
              l' = (l.set m x1).set nx x2)) :
    CI l' { c with completed := c.completed + 1, pending := c.pending - 1 } := by
  obtain ⟨k, hkc⟩ : ∃ k, k = c.completed := ⟨_, rfl⟩
  rw [← hkc] at hk
  have hlt : c.completed < c.members.length := by have := (List.getElem?_eq_some_iff.1 hk).1; omega
  have hpend : c.pending = (c.members.length : Int) - c.completed := by
    obtain ⟨y, hy, _, _, _, b4⟩ := h.mem k m hk
    rw [htp] at hy; cases hy
    exact (b4 hkc).2.2 hnn
  have hx1st : x1.st = .inCb ∨ x1.st = .inCbN ∨ x1.st = .done := by
    rcases hx1.1 with e | e
    · exact Or.inl e
    · exact Or.inr (Or.inl e)
  have hnx' : ∀ nx, c.members[c.completed + 1]? = some nx → c.members[k + 1]? = some nx := fun nx e => by rw [hkc]; exact e
  have hearly : tp.early = false := by
    obtain ⟨y, hy, he, _⟩ := h.mem k m hk
    rw [htp] at hy; cases hy; exact he
  rcases hl' with ⟨hp, rfl⟩ | ⟨hp, nx, tn, x2, hnx, htn, htns, hx2, hx2a, hx2c, hx2e, rfl⟩
  · -- last member
    have hn : k + 1 = c.members.length := by omega
    refine ⟨by simp only []; omega, ?_, ?_, ?_⟩
    · intro i mm hmm
      show ∃ tp : Tp, (l.set m x1)[mm]? = some tp ∧ _
      rw [get_set_tp _ _ _ _ _ htp]
      by_cases e : mm = m
      · subst e
        have hi : i = k := nodup_get_inj hnd hmm hk
        rw [if_pos rfl]
        refine ⟨x1, rfl, by rw [hx1.2.2]; exact hearly, fun _ => hx1st, ?_, ?_⟩
        · intro hlt'; simp only [] at hlt'; omega
        · intro hlt'; simp only [] at hlt'; omega
      · rw [if_neg e]
        obtain ⟨z, hz, c1, c2, c3, c4⟩ := h.mem i mm hmm
        have hik : i ≠ k := by intro e'; subst e'; rw [hk] at hmm; cases hmm; exact e rfl
        have hil : i < c.members.length := (List.getElem?_eq_some_iff.1 hmm).1
        refine ⟨z, hz, c1, ?_, ?_, ?_⟩
        · intro hlt'; simp only [] at hlt'; exact c2 (by omega)
        · intro hlt'; simp only [] at hlt'; omega
        · intro hlt'; simp only [] at hlt'; omega
    · intro _; simp only []; omega
    · intro i a b ta tb ha hb hta htb hne
      rw [get_set_tp _ _ _ _ _ htp] at hta htb
      have hbl : i + 1 < c.members.length := (List.getElem?_eq_some_iff.1 hb).1
      by_cases ham : a = m
      · subst ham; have := nodup_get_inj hnd ha hk; omega
      · rw [if_neg ham] at hta
        by_cases hbm : b = m
        · subst hbm; rw [if_pos rfl] at htb; cases htb
          exact h.stamps i a b ta tp ha hb hta htp (by rw [← hx1.2.1]; exact hne) |> fun r => by rw [hx1.2.1]; exact r
        · rw [if_neg hbm] at htb
          exact h.stamps i a b ta tb ha hb hta htb hne
  · -- some remain: the next member is being added
    have hnx := hnx' nx hnx
    have hnxl : k + 1 < c.members.length := (List.getElem?_eq_some_iff.1 hnx).1
    have hnxm : nx ≠ m := by intro e; subst e; have := nodup_get_inj hnd hnx hk; omega
    have htn0 : l[nx]? = some tn := by rw [get_set_tp _ _ _ _ _ htp, if_neg hnxm] at htn; exact htn
    have hlk : ∀ mm : Nat, ((l.set m x1).set nx x2)[mm]? = if mm = nx then some x2 else if mm = m then some x1 else l[mm]? := by
      intro mm
      rw [get_set_tp _ _ _ _ _ htn, get_set_tp _ _ _ _ _ htp]
    have htnearly : tn.early = false := by
      obtain ⟨y, hy, he, _⟩ := h.mem (k + 1) nx hnx
      rw [htn0] at hy; cases hy; exact he
    refine ⟨by simp only []; omega, ?_, ?_, ?_⟩
    · intro i mm hmm
      show ∃ tp : Tp, ((l.set m x1).set nx x2)[mm]? = some tp ∧ _
      rw [hlk]
      by_cases e1 : mm = nx
      · subst e1
        have hi : i = k + 1 := nodup_get_inj hnd hmm hnx
        rw [if_pos rfl]
        refine ⟨x2, rfl, by rw [hx2e]; exact htnearly, ?_, ?_, ?_⟩
        · intro hlt'; simp only [] at hlt'; omega
        · intro hlt'; simp only [] at hlt'; omega
        · intro _
          refine ⟨Or.inr (Or.inl hx2), ?_, ?_⟩
          · intro e; rw [hx2] at e; cases e
          · intro _; simp only []; omega
      · rw [if_neg e1]
        by_cases e : mm = m
        · subst e
          have hi : i = k := nodup_get_inj hnd hmm hk
          rw [if_pos rfl]
          refine ⟨x1, rfl, by rw [hx1.2.2]; exact hearly, fun _ => hx1st, ?_, ?_⟩
          · intro hlt'; simp only [] at hlt'; omega
          · intro hlt'; simp only [] at hlt'; omega
        · rw [if_neg e]
          obtain ⟨z, hz, c1, c2, c3, c4⟩ := h.mem i mm hmm
          have hik : i ≠ k := by intro e'; subst e'; rw [hk] at hmm; cases hmm; exact e rfl
          have hik1 : i ≠ k + 1 := by intro e'; subst e'; rw [hnx] at hmm; cases hmm; exact e1 rfl
          refine ⟨z, hz, c1, ?_, ?_, ?_⟩
          · intro hlt'; simp only [] at hlt'; exact c2 (by omega)
          · intro hlt'; simp only [] at hlt'; exact c3 (by omega)
          · intro hlt'; simp only [] at hlt'; omega
    · intro hfin; simp only [] at hfin; omega
    · intro i a b ta tb ha hb hta htb hne
      rw [hlk] at hta htb
      have hab : a ≠ b := by intro e; subst e; have := nodup_get_inj hnd ha hb; omega
      by_cases hbn : b = nx
      · -- the pair (completed, completed+1): the next member has never been incremented
        rw [if_pos hbn] at htb; cases htb
        have hok := hS tn (List.mem_of_getElem? htn0)
        simp only [tpOK, htns] at hok
        exact absurd (by omega) hne
      · rw [if_neg hbn] at htb
        by_cases han : a = nx
        · subst han; have := nodup_get_inj hnd ha hnx; subst this
          -- b is at position completed + 2: never added
          have hbm : b ≠ m := by intro e; subst e; have := nodup_get_inj hnd hb hk; omega
          rw [if_neg hbm] at htb
          obtain ⟨z, hz, _, _, c3, _⟩ := h.mem (k + 1 + 1) b hb
          rw [htb] at hz; cases hz
          have hok := hS tb (List.mem_of_getElem? htb)
          have hstb := c3 (by omega)
          simp only [tpOK, hstb] at hok
          exact absurd (by omega) hne
        · rw [if_neg han] at hta
          by_cases ham : a = m
          · subst ham; have := nodup_get_inj hnd ha hk; subst this
            rw [hnx] at hb; cases hb; exact absurd rfl hbn
          · rw [if_neg ham] at hta
            by_cases hbm : b = m
            · subst hbm; rw [if_pos rfl] at htb; cases htb
              exact h.stamps i a b ta tp ha hb hta htp (by rw [← hx1.2.1]; exact hne) |> fun r => by rw [hx1.2.1]; exact r
            · rw [if_neg hbm] at htb
              exact h.stamps i a b ta tb ha hb hta htb hne

end ParsecVerif.Compound
