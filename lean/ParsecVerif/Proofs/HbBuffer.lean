import ParsecVerif.Model.HbBuffer
import ParsecVerif.Base.Interleave
/-!
  Conservation for the hierarchical bounded buffer: every micro step of every thread keeps, for every
  task `a`,   #(a in the slots) + #(a in the parent store) + Σ_threads #(a held by the thread)
  where a thread holds the locals of its running operation (`held`) and its `hand`.
-/
namespace ParsecVerif.HbBuffer
open ParsecVerif.MaxHeap (Task)
open ParsecVerif

/-- the tasks a thread has in its locals at a program point: they are neither in the buffer nor in the
    parent store nor in the caller's hand -/
def held : Pc → List Task
  | .idle => []
  | .paRd e n _ _ => e :: n
  | .paCas e n _ _ => e :: n
  | .bpRd t l ej _ _ _ _ => t :: (l ++ ej)
  | .bpCas t l ej _ _ _ => t :: (l ++ ej)
  | .up ring _ => ring
  | .poRd _ _ => []
  | .poCas _ _ => []

def own (a : Task) (th : Thread) : Nat := (held th.pc).count a + th.hand.count a

def memCount (a : Task) (m : Mem) : Nat := m.slots.count (some a) + m.parent.count a

def total (a : Task) (s : State) : Nat := memCount a s.mem + (s.thr.map (own a)).sum

theorem takeOut_count (a : Task) : ∀ (ring hand : List Task), PushPre hand ring →
    (takeOut hand ring).count a + ring.count a = hand.count a := by
  intro ring
  induction ring with
  | nil => intro hand _; simp [takeOut]
  | cons x xs ih =>
    intro hand ⟨hn, hm⟩
    have hx : x ∈ hand := hm x (by simp)
    have hnx : x ∉ xs := (List.nodup_cons.1 hn).1
    have hpre : PushPre (hand.erase x) xs := by
      refine ⟨(List.nodup_cons.1 hn).2, ?_⟩
      intro y hy
      have hne : y ≠ x := fun h => hnx (h ▸ hy)
      exact (List.mem_erase_of_ne hne).2 (hm y (by simp [hy]))
    have := ih (hand.erase x) hpre
    simp only [takeOut, List.count_cons]
    rw [List.count_erase] at this
    by_cases hxa : x = a
    · subst hxa
      have hpos : 0 < hand.count x := List.count_pos_iff.2 hx
      simp at this ⊢
      omega
    · simp [hxa] at this ⊢
      omega

theorem slots_set_count (l : List (Option Task)) (i : Nat) (old new : Option Task) (a : Task)
    (h : l[i]? = some old) :
    (l.set i new).count (some a) + (if old = some a then 1 else 0) = l.count (some a) + (if new = some a then 1 else 0) := by
  obtain ⟨hi, he⟩ := List.getElem?_eq_some_iff.1 h
  rw [List.count_set hi, he]
  have hpos : old = some a → 0 < l.count (some a) := by
    intro ho
    apply List.count_pos_iff.2
    rw [← ho, ← he]
    exact List.getElem_mem hi
  by_cases h1 : old = some a <;> by_cases h2 : new = some a <;> simp [h1, h2]
  · have := hpos h1; omega
  · have := hpos h1; omega

/-- a micro step of one thread neither creates nor loses a task -/
theorem stepTh_conserve (m : Mem) (th : Thread) (a : Task) :
    memCount a (stepTh m th).1 + own a (stepTh m th).2 = memCount a m + own a th := by
  obtain ⟨pc, todo, hand, rets⟩ := th
  cases pc with
  | idle =>
    simp only [stepTh, stepPc, invoke]
    cases todo with
    | nil => rfl
    | cons op rest =>
      cases op with
      | pushAll ring d =>
        simp only
        split
        · simp [Thread.finish, own, held]
        · rename_i hpre
          have hp : PushPre hand ring := by
            by_cases h : PushPre hand ring
            · exact h
            · exact absurd (Or.inl h) hpre
          have := takeOut_count a ring hand hp
          split
          · simp [Thread.goto, own, held]; omega
          · cases ring with
            | nil => simp [Thread.finish, own, held, takeOut]
            | cons e next => simp [Thread.goto, own, held] at this ⊢; omega
      | pushPrio ring d =>
        simp only
        split
        · simp [Thread.finish, own, held]
        · rename_i hpre
          have hp : PushPre hand ring := by
            by_cases h : PushPre hand ring
            · exact h
            · exact absurd (Or.inl h) hpre
          have := takeOut_count a ring hand hp
          cases ring with
          | nil => simp [Thread.finish, own, held, takeOut]
          | cons e l =>
            simp only
            split <;> (simp [Thread.goto, own, held] at this ⊢; omega)
      | pop => simp [own, held]
  | paRd elt next i d =>
    simp only [stepTh, stepPc]
    split
    · simp [Thread.goto, own, held]
    · split <;> simp [Thread.goto, own, held]
  | paCas elt next i d =>
    simp only [stepTh, stepPc]
    split
    · rename_i hs
      have := slots_set_count m.slots i none (some elt) a hs
      cases next with
      | nil => simp [Thread.finish, own, held, memCount, List.count_cons] at this ⊢; omega
      | cons e n => simp [Thread.goto, own, held, memCount, List.count_cons] at this ⊢; omega
    · simp [Thread.goto, own, held]
  | bpRd topush list ej i bi bc d =>
    simp only [stepTh, stepPc]
    split
    · cases bi <;> simp [bpDecide, Thread.goto, own, held, List.count_cons, List.count_append] <;> omega
    · split
      · split <;> simp [Thread.goto, own, held]
      · simp [bpDecide, Thread.goto, own, held]
  | bpCas topush list ej k bc d =>
    simp only [stepTh, stepPc]
    split
    · rename_i hs
      have := slots_set_count m.slots k bc (some topush) a hs
      cases bc with
      | none =>
        cases list with
        | nil =>
          simp only
          split <;> simp_all [Thread.finish, Thread.goto, own, held, memCount, List.count_cons] <;> omega
        | cons t l => simp [Thread.goto, own, held, memCount, List.count_cons, List.count_append] at this ⊢; omega
      | some c =>
        cases list with
        | nil => simp [Thread.goto, own, held, memCount, List.count_cons] at this ⊢; omega
        | cons t l => simp [Thread.goto, own, held, memCount, List.count_cons, List.count_append] at this ⊢; omega
    · simp [Thread.goto, own, held]
  | up ring d =>
    simp [stepTh, stepPc, Thread.finish, own, held, memCount, List.count_append]
    omega
  | poRd i best =>
    simp only [stepTh, stepPc]
    split
    · split <;> simp [Thread.finish, Thread.goto, own, held]
    · split
      · split
        · simp [Thread.goto, own, held]
        · split <;> simp [Thread.goto, own, held]
      · simp [Thread.goto, own, held]
  | poCas t k =>
    simp only [stepTh, stepPc]
    split
    · rename_i hs
      have := slots_set_count m.slots k (some t) none a hs
      simp [own, held, memCount, List.count_cons] at this ⊢
      omega
    · simp [Thread.goto, own, held]

theorem step_total (s : State) (t : Nat) (a : Task) : total a (step s t) = total a s := by
  unfold step
  cases ht : s.thr[t]? with
  | none => rfl
  | some th =>
    obtain ⟨hi, he⟩ := List.getElem?_eq_some_iff.1 ht
    simp only [total]
    rw [List.map_set]
    have h1 := Interleave.sum_set (s.thr.map (own a)) t (own a (stepTh s.mem th).2) (by simpa using hi)
    have h2 := stepTh_conserve s.mem th a
    simp only [List.getElem_map, he] at h1
    omega

theorem run_total (sched : List Nat) : ∀ (s : State) (a : Task), total a (run s sched) = total a s := by
  induction sched with
  | nil => intro s a; rfl
  | cons t ts ih => intro s a; simp only [run, List.foldl_cons] at ih ⊢; rw [ih, step_total]

end ParsecVerif.HbBuffer
