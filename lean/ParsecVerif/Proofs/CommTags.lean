/-
  C14 — `next_tag`: blocks handed out by consecutive calls.
-/
import ParsecVerif.Model.CommEngine

namespace ParsecVerif.CommEngine

theorem nextTag_wrap {m v k : Nat} (h : v + k > m) : nextTag m v k = (0, k) := by simp [nextTag, h]
theorem nextTag_fit {m v k : Nat} (h : ¬ v + k > m) : nextTag m v k = (v, v + k) := by simp [nextTag, h]

theorem nextTag_range (m v k : Nat) (hk : k ≤ m) :
    (nextTag m v k).1 + k ≤ m ∧ (nextTag m v k).2 = (nextTag m v k).1 + k ∧ (nextTag m v k).2 ≤ m := by
  by_cases hc : v + k > m
  · rw [nextTag_wrap hc]; simp; omega
  · rw [nextTag_fit hc]; simp; omega

/-- Where a block can lie: after the current counter (no roll-over since), or — after a roll-over — so low that it
    stays below everything handed out before the roll-over as long as the total stays under `m - K`. -/
theorem allocs_loc (m K : Nat) : ∀ (ks : List Nat) (v : Nat), (∀ k, k ∈ ks → k ≤ K) → K ≤ m →
    ∀ T k, (T, k) ∈ allocs m v ks → (v ≤ T ∧ T + k ≤ v + ks.sum) ∨ (T + k + m < v + ks.sum + K) := by
  intro ks
  induction ks with
  | nil => intro v _ _ T k h; simp [allocs] at h
  | cons k1 rest ih =>
    intro v hk hK T k h
    have hk1 : k1 ≤ K := hk k1 (by simp)
    have hrest : ∀ k, k ∈ rest → k ≤ K := fun k hk' => hk k (by simp [hk'])
    simp only [allocs, List.mem_cons, Prod.mk.injEq] at h
    simp only [List.sum_cons]
    by_cases hc : v + k1 > m
    · rw [nextTag_wrap hc] at h
      rcases h with ⟨hT, hkk⟩ | h
      · omega
      · have := ih k1 hrest hK T k h
        omega
    · rw [nextTag_fit hc] at h
      rcases h with ⟨hT, hkk⟩ | h
      · omega
      · have := ih (v + k1) hrest hK T k h
        omega

/-- `C14_tags`, disjointness: the blocks of any run of consecutive calls whose sizes (each at most `K`) sum to at
    most `MAX_MPI_TAG - K` are pairwise disjoint — whatever the starting value of the counter, roll-over included. -/
theorem allocs_disjoint (m K : Nat) : ∀ (ks : List Nat) (v : Nat), (∀ k, k ∈ ks → k ≤ K) →
    ks.sum + K ≤ m →
    (allocs m v ks).Pairwise (fun a b => a.1 + a.2 ≤ b.1 ∨ b.1 + b.2 ≤ a.1) := by
  intro ks
  induction ks with
  | nil => intro v _ _; simp [allocs]
  | cons k1 rest ih =>
    intro v hk hsum
    have hk1 : k1 ≤ K := hk k1 (by simp)
    have hrest : ∀ k, k ∈ rest → k ≤ K := fun k hk' => hk k (by simp [hk'])
    simp only [List.sum_cons] at hsum
    simp only [allocs, List.pairwise_cons]
    refine ⟨?_, ih _ hrest (by omega)⟩
    intro b hb
    obtain ⟨T, k⟩ := b
    by_cases hc : v + k1 > m
    · rw [nextTag_wrap hc] at hb ⊢
      have := allocs_loc m K rest k1 hrest (by omega) T k hb
      simp at this ⊢; omega
    · rw [nextTag_fit hc] at hb ⊢
      have := allocs_loc m K rest (v + k1) hrest (by omega) T k hb
      simp at this ⊢; omega

/-- Every block lies inside `[0, MAX_MPI_TAG]`. -/
theorem allocs_range (m : Nat) : ∀ (ks : List Nat) (v : Nat), (∀ k, k ∈ ks → k ≤ m) →
    ∀ T k, (T, k) ∈ allocs m v ks → T + k ≤ m := by
  intro ks
  induction ks with
  | nil => intro v _ T k h; simp [allocs] at h
  | cons k1 rest ih =>
    intro v hk T k h
    have hk1 : k1 ≤ m := hk k1 (by simp)
    simp only [allocs, List.mem_cons, Prod.mk.injEq] at h
    rcases h with ⟨hT, hkk⟩ | h
    · rw [hT, hkk]; exact (nextTag_range m v k1 hk1).1
    · exact ih _ (fun k hk' => hk k (by simp [hk'])) T k h

end ParsecVerif.CommEngine
