import ParsecVerif.Proofs.MaxHeap
/-!
  `Shape n t` (the invariant used by the proofs: subtree sizes `lsz n` / `rsz n`) implies the textbook
  recursive definition of a complete (left-complete) binary tree.
-/
namespace ParsecVerif.MaxHeap
open Tree

/-- perfect binary tree with `h` full levels -/
inductive Perfect : Nat → Tree → Prop
  | nil : Perfect 0 .nil
  | node {h : Nat} {l r : Tree} {x : Task} : Perfect h l → Perfect h r → Perfect (h + 1) (.node l x r)

/-- textbook left-complete tree whose deepest level is `k` (root = level 0): every level above `k` is
    full and level `k` is filled from the left.  Either the last level stops inside the left subtree
    (then the right subtree is perfect, one level shorter) or the left subtree is perfect and the last
    level continues in the right subtree. -/
inductive LeftComplete : Nat → Tree → Prop
  | leaf {x : Task} : LeftComplete 0 (.node .nil x .nil)
  | left {k : Nat} {l r : Tree} {x : Task} : LeftComplete k l → Perfect k r → LeftComplete (k + 1) (.node l x r)
  | right {k : Nat} {l r : Tree} {x : Task} : Perfect (k + 1) l → LeftComplete k r → LeftComplete (k + 1) (.node l x r)

theorem shape_perfect : ∀ (t : Tree) (h : Nat), Shape (2 ^ h - 1) t → Perfect h t := by
  intro t
  induction t with
  | nil =>
    intro h hs
    simp only [Shape] at hs
    cases h with
    | zero => exact .nil
    | succ h' => have := Nat.two_pow_pos h'; rw [Nat.pow_succ] at hs; omega
  | node l x r ihl ihr =>
    intro h hs
    obtain ⟨h0, sl, sr⟩ := hs
    cases h with
    | zero => simp at h0
    | succ h' =>
      cases h' with
      | zero =>
        simp only [Nat.zero_add, Nat.pow_one] at sl sr
        rw [show 2 - 1 = 1 from rfl, lsz_one] at sl
        rw [show 2 - 1 = 1 from rfl, rsz_one] at sr
        rw [Shape_zero sl, Shape_zero sr]
        exact .node .nil .nil
      | succ j =>
        have hp := Nat.two_pow_pos j
        have e : 2 ^ (j + 1 + 1) - 1 = 2 ^ (j + 1) + (2 ^ (j + 1) - 1) := by
          rw [Nat.pow_succ 2 (j + 1)]; omega
        have hlt : 2 ^ (j + 1) - 1 < 2 ^ (j + 1) := by have := Nat.two_pow_pos (j + 1); omega
        rw [e, lsz_val j _ hlt] at sl
        rw [e, rsz_val j _ hlt] at sr
        have hn : ¬ (2 ^ (j + 1) - 1 < 2 ^ j) := by rw [Nat.pow_succ]; omega
        simp only [hn, if_false] at sl sr
        exact .node (ihl _ sl) (ihr _ sr)

/-- the invariant of the proofs implies textbook left-completeness, with the last level at depth `log2 n` -/
theorem shape_leftComplete : ∀ (t : Tree) (n : Nat), Shape n t → n ≠ 0 → LeftComplete n.log2 t := by
  intro t
  induction t with
  | nil => intro n hs h0; exact absurd hs h0
  | node l x r ihl ihr =>
    intro n hs h0
    obtain ⟨_, sl, sr⟩ := hs
    by_cases h1 : n = 1
    · subst h1
      rw [lsz_one] at sl; rw [rsz_one] at sr
      rw [Shape_zero sl, Shape_zero sr]
      have : (1 : Nat).log2 = 0 := by have := log2_eq 0 0 (by simp); simpa using this
      rw [this]; exact .leaf
    · obtain ⟨j, ρ, e, hρ⟩ := decomp2 n (by omega)
      subst e
      rw [log2_eq (j + 1) ρ hρ]
      rw [lsz_val j ρ hρ] at sl
      rw [rsz_val j ρ hρ] at sr
      have hp := Nat.two_pow_pos j
      by_cases hc : ρ < 2 ^ j
      · simp only [hc, if_true] at sl sr
        have hl := ihl _ sl (by omega)
        rw [log2_eq j ρ hc] at hl
        exact .left hl (shape_perfect r j sr)
      · simp only [hc, if_false] at sl sr
        have e2 : ρ = 2 ^ j + (ρ - 2 ^ j) := by omega
        have hr := ihr _ sr (by omega)
        rw [e2, log2_eq j _ (by rw [Nat.pow_succ] at hρ; omega)] at hr
        exact .right (shape_perfect l (j + 1) sl) hr

end ParsecVerif.MaxHeap
