import ParsecVerif.Proofs.FourCounterI3
/-
  Every operation of the model preserves the invariant; the invariant holds in every reachable state.
-/
namespace ParsecVerif.FourCounter

theorem setP_setP (s : State) (p : Nat) (v w : Proc) : setP (setP s p v) p w = setP s p w := by
  unfold setP
  congr 1
  funext q
  by_cases e : q = p <;> simp [upd, e]

theorem setSt_setP (s : State) (p : Nat) (v : Proc) (x : St) :
    setSt (setP s p v) p x = setP s p { v with st := x } := by
  unfold setSt
  rw [setP_setP]
  simp [setP]

theorem Inv.setWl {s : State} (h : Inv s) {p a b : Nat} {chk : Bool} (hp : p < s.n)
    (hnt : (s.procs p).st ≠ .term) (hmay : mayWork (s.procs p) (a + b))
    (hchk : chk = false → a + b = (s.procs p).wl ∨ 0 < a + b) : Inv (setWl s p a b chk) := by
  unfold FourCounter.setWl
  cases chk with
  | false =>
    simp only [Bool.false_eq_true, if_false]
    apply h.work hp hnt rfl hmay (x := (s.procs p).st)
    · intro e
      rcases hchk rfl with t | t
      · have := h.hi.h8 p hp e; omega
      · exact Or.inl t
    · intro e; exact Or.inl e
  | true =>
    simp only [if_true]
    have e0 : (setP s p { s.procs p with nt := a, npa := b }).procs p = { s.procs p with nt := a, npa := b } := by
      simp [setP]
    unfold checkWl
    simp only [e0, setSt_setP]
    have hwl : ({ s.procs p with nt := a, npa := b } : Proc).wl = a + b := rfl
    simp only [hwl]
    by_cases hz : a + b = 0
    · rw [if_pos hz]
      by_cases hbp : (s.procs p).st = .busyWP
      · rw [if_pos hbp]
        exact h.work hp hnt (by rw [hbp]; rfl) hmay (by intro e; cases e) (by intro e; cases e)
      · rw [if_neg hbp]
        by_cases hbc : (s.procs p).st = .busyWC
        · rw [if_pos hbc]
          have hI : Inv (setP s p { s.procs p with nt := a, npa := b, st := .idleWC }) :=
            h.work hp hnt (by rw [hbc]; rfl) hmay (by intro e; cases e) (by intro e; cases e)
          by_cases hncl : (s.procs p).ncl = 0
          · rw [if_pos hncl]
            exact hI.sendUp hp (by simp [setP, cls]) (by simpa [setP] using hncl) (by simpa [setP, Proc.wl] using hz)
          · rw [if_neg hncl]; exact hI
        · rw [if_neg hbc]
          exact h.work hp hnt rfl hmay (x := (s.procs p).st) (fun e => absurd e hbp) (fun e => Or.inl e)
    · rw [if_neg hz]
      by_cases hic : (s.procs p).st = .idleWC
      · rw [if_pos hic]
        exact h.work hp hnt (by rw [hic]; rfl) hmay (by intro e; cases e) (by intro e; cases e)
      · rw [if_neg hic]
        by_cases hip : (s.procs p).st = .idleWP
        · rw [if_pos hip]
          exact h.work hp hnt (by rw [hip]; rfl) hmay (fun _ => Or.inl (by omega)) (fun _ => Or.inr (by omega))
        · rw [if_neg hip]
          exact h.work hp hnt rfl hmay (x := (s.procs p).st) (fun _ => Or.inl (by omega)) (fun e => Or.inl e)

theorem Inv.initial (n : Nat) : Inv (init n) := by
  refine ⟨⟨?_, ?_, ?_, ?_, ?_, ?_, ?_, ?_, ?_, ?_⟩, ⟨?_, ?_, ?_, ?_, ?_, ?_, ?_, ?_, ?_, ?_⟩, ?_, ?_⟩
  · intro k hk; simp [FourCounter.init] at hk
  · intro q _ _; unfold Edge edgeOK; simp [FourCounter.init, cls, U, D]
  · simp [FourCounter.init, cls]
  · intro r _ h1; simp [FourCounter.init, cls] at h1
  · intro r _ h2; simp [FourCounter.init, cls] at h2
  · intro q _ h3; simp [FourCounter.init, cls] at h3
  · rw [sumTo_zero, sumTo_zero]
    · intro q _; simp [FourCounter.init]
    · intro q _; simp only [contribS, FourCounter.init]; exact ite_self _
  · rw [sumTo_zero, sumTo_zero]
    · intro q _; simp [FourCounter.init]
    · intro q _; simp only [contribR, FourCounter.init]; exact ite_self _
  · intro hs; simp [FourCounter.init] at hs
  · intro _; simp [FourCounter.init]
  · intro q _; simp [FourCounter.init, sKS]
  · intro q _; simp [FourCounter.init, sKR]
  · show sumTo n _ = sumTo n _ + 0
    rw [sumTo_zero, sumTo_zero] <;> intro q _ <;> simp [FourCounter.init]
  · intro hs; simp [FourCounter.init] at hs
  · intro hs; simp [FourCounter.init] at hs
  · intro q _ hc; simp [FourCounter.init] at hc
  · show sumTo n _ = sumTo n _ + transit (FourCounter.init n)
    have : transit (FourCounter.init n) = 0 := by
      unfold transit; rw [sumTo_zero]; simp [FourCounter.init, appCount]; intro q _; simp [FourCounter.init]
    rw [this, sumTo_zero, sumTo_zero] <;> intro q _ <;> simp [FourCounter.init]
  · intro q _ hb; simp [FourCounter.init] at hb
  · intro _; unfold transit; rw [sumTo_zero]; simp [FourCounter.init, appCount]; intro q _; simp [FourCounter.init]
  · intro hs; simp [FourCounter.init] at hs
  · intro ht; simp [FourCounter.init] at ht
  · intro q _; simp [FourCounter.init]

theorem Inv.step {s s' : State} (h : Inv s) {a : Action} (hs : step s a = some s') : Inv s' := by
  cases a with
  | ready p =>
    simp only [FourCounter.step] at hs
    split at hs
    · rename_i hc; cases hs; exact h.ready hc.1 hc.2
    · cases hs
  | setT p v =>
    simp only [FourCounter.step] at hs
    split at hs
    · rename_i hc; cases hs
      exact h.setWl hc.1 hc.2.1 hc.2.2 (by
        intro e; left
        have : (s.procs p).nt = v := by simpa using e
        unfold Proc.wl; omega)
    · cases hs
  | setPA p v =>
    simp only [FourCounter.step] at hs
    split at hs
    · rename_i hc; cases hs
      exact h.setWl hc.1 hc.2.1 hc.2.2 (by
        intro e; left
        have : (s.procs p).npa = v := by simpa using e
        unfold Proc.wl; omega)
    · cases hs
  | addT p v =>
    simp only [FourCounter.step] at hs
    split at hs
    · rename_i hc; cases hs
      exact h.setWl hc.1 hc.2.1 hc.2.2.2 (by
        intro e
        have e' : ¬ (v ≠ 0 ∧ ((s.procs p).nt = 0 ∨ ((s.procs p).nt : Int) + v = 0)) := by simpa using e
        have := hc.2.2.1
        unfold Proc.wl; omega)
    · cases hs
  | addPA p v =>
    simp only [FourCounter.step] at hs
    split at hs
    · rename_i hc; cases hs
      exact h.setWl hc.1 hc.2.1 hc.2.2.2 (by
        intro e
        have e' : ¬ (v ≠ 0 ∧ ((s.procs p).npa = 0 ∨ ((s.procs p).npa : Int) + v = 0)) := by simpa using e
        have := hc.2.2.1
        unfold Proc.wl; omega)
    · cases hs
  | send p q =>
    simp only [FourCounter.step] at hs
    split at hs
    · rename_i hc; cases hs; exact h.send hc.1 hc.2.1 hc.2.2.1 hc.2.2.2.2
    · cases hs
  | rstart k =>
    simp only [FourCounter.step] at hs
    split at hs
    · cases hs
    · rename_i pk hk
      split at hs
      · rename_i hc; cases hs
        apply h.rstart hk hc.1 hc.2.1 _ hc.2.2.2
        split
        · rename_i e; rw [e]; rfl
        · split
          · rename_i e; rw [e]; rfl
          · rfl
      · cases hs
  | rend q =>
    simp only [FourCounter.step] at hs
    split at hs
    · rename_i hc; cases hs; exact h.rend hc.1 hc.2.1
    · cases hs
  | deliver k =>
    simp only [FourCounter.step] at hs
    split at hs
    · cases hs
    · rename_i pk hk
      split at hs
      · split at hs
        · cases hs
        · rename_i a b hkind
          split at hs
          · split at hs
            · cases hs
            · cases hs; exact h.hold hk
          · rename_i hnr; cases hs; exact h.msgUp hk hkind hnr
        · rename_i res hkind
          split at hs
          · split at hs
            · cases hs
            · cases hs; exact h.hold hk
          · rename_i hnr; cases hs; exact h.msgDown hk hkind hnr
      · cases hs

/-! the number of processes never changes -/
theorem sendUp_n (s : State) (me : Nat) : (sendUp s me).n = s.n := by unfold sendUp; split <;> rfl
theorem checkMsg_n (s : State) (me : Nat) : (checkMsg s me).n = s.n := by
  unfold checkMsg; split
  · exact sendUp_n s me
  · rfl
theorem checkWl_n (s : State) (me : Nat) : (checkWl s me).n = s.n := by
  unfold checkWl
  split
  · split
    · rfl
    · split
      · split
        · rw [sendUp_n]; rfl
        · rfl
      · rfl
  · split
    · rfl
    · split <;> rfl
theorem setWl_n (s : State) (p a b : Nat) (c : Bool) : (setWl s p a b c).n = s.n := by
  unfold setWl; split
  · rw [checkWl_n]; rfl
  · rfl
theorem msgUp_n (s : State) (me a b : Nat) : (msgUp s me a b).n = s.n := by
  unfold msgUp; rw [checkMsg_n]; rfl
theorem msgDown_n (s : State) (me : Nat) (r : Bool) : (msgDown s me r).n = s.n := by
  unfold msgDown
  split
  · rfl
  · split
    · rw [checkMsg_n]; rfl
    · rfl

theorem step_n {s s' : State} {a : Action} (hs : step s a = some s') : s'.n = s.n := by
  cases a <;> simp only [FourCounter.step] at hs
  case ready p => split at hs <;> cases hs; rfl
  case setT p v => split at hs <;> cases hs; exact setWl_n ..
  case setPA p v => split at hs <;> cases hs; exact setWl_n ..
  case addT p v => split at hs <;> cases hs; exact setWl_n ..
  case addPA p v => split at hs <;> cases hs; exact setWl_n ..
  case send p q => split at hs <;> cases hs; rfl
  case rend q => split at hs <;> cases hs; rfl
  case rstart k =>
    split at hs
    · cases hs
    · split at hs <;> cases hs; rfl
  case deliver k =>
    split at hs
    · cases hs
    · split at hs
      · split at hs
        · cases hs
        · split at hs
          · split at hs <;> cases hs; rfl
          · cases hs; exact msgUp_n ..
        · split at hs
          · split at hs <;> cases hs; rfl
          · cases hs; exact msgDown_n ..
      · cases hs

theorem Inv.reach {n : Nat} {s : State} (h : Reach n s) : Inv s ∧ s.n = n := by
  induction h with
  | init => exact ⟨Inv.initial n, rfl⟩
  | step a _ hs ih => exact ⟨ih.1.step hs, by rw [step_n hs]; exact ih.2⟩

end ParsecVerif.FourCounter
