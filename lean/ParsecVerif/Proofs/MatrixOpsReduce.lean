import ParsecVerif.Model.MatrixOps
/-!
  Helper lemmas for C22, part 3: the reduction trees of reduce.jdf / reduce_col.jdf /
  reduce_row.jdf, the sequential fold, and dataflow execution under an arbitrary schedule.
-/
namespace ParsecVerif.MatrixOps

/-! ### arithmetic -/

theorem two_mul_pow (p l : Nat) : 2 * p * 2 ^ l = p * 2 ^ (l + 1) := by
  rw [Nat.pow_succ]; ac_rfl

theorem two_mul_add_one_pow (p l : Nat) : (2 * p + 1) * 2 ^ l = p * 2 ^ (l + 1) + 2 ^ l := by
  rw [Nat.add_mul, Nat.one_mul, two_mul_pow]

theorem pow_succ_two (l : Nat) : 2 ^ (l + 1) = 2 * 2 ^ l := by
  rw [Nat.pow_succ]; omega

theorem range'_app (s m n : Nat) : List.range' s m ++ List.range' (s + m) n = List.range' s (m + n) := by
  induction m generalizing s with
  | zero => simp
  | succ m ih =>
    have e : m + 1 + n = (m + n) + 1 := by omega
    rw [e, List.range'_succ, List.range'_succ, List.cons_append]
    have e2 : s + (m + 1) = s + 1 + m := by omega
    rw [e2, ih]

/-! ### ceil(log2) -/

theorem clog2Aux_le (n : Nat) : ∀ fuel d, n ≤ 2 ^ (d + fuel) → n ≤ 2 ^ clog2Aux n fuel d := by
  intro fuel
  induction fuel with
  | zero => intro d h; simpa [clog2Aux] using h
  | succ fuel ih =>
    intro d h
    unfold clog2Aux
    by_cases hc : n ≤ 2 ^ d
    · rw [if_pos hc]; exact hc
    · rw [if_neg hc]
      apply ih
      have e : d + 1 + fuel = d + (fuel + 1) := by omega
      rw [e]; exact h

theorem clog2Aux_min (n : Nat) : ∀ fuel d, (∀ e, e < d → 2 ^ e < n) →
    ∀ e, e < clog2Aux n fuel d → 2 ^ e < n := by
  intro fuel
  induction fuel with
  | zero => intro d h e he; exact h e (by simpa [clog2Aux] using he)
  | succ fuel ih =>
    intro d h e he
    unfold clog2Aux at he
    by_cases hc : n ≤ 2 ^ d
    · rw [if_pos hc] at he; exact h e he
    · rw [if_neg hc] at he
      apply ih (d + 1) _ e he
      intro e' he'
      by_cases h2 : e' = d
      · subst h2; omega
      · exact h e' (by omega)

theorem le_pow_clog2 (n : Nat) : n ≤ 2 ^ clog2 n := by
  unfold clog2
  apply clog2Aux_le
  rw [Nat.zero_add]
  exact Nat.le_of_lt Nat.lt_two_pow_self

theorem clog2_min (n e : Nat) (h : e < clog2 n) : 2 ^ e < n := by
  unfold clog2 at h
  exact clog2Aux_min n n 0 (fun _ h0 => absurd h0 (Nat.not_lt_zero _)) e h

/-! ### reduce.jdf: the tiles below a node -/

/-- tiles below a node of level `l` whose first tile is `s` -/
def span (MT : Nat) : Nat → Nat → List Nat
  | 0, s => [s]
  | l+1, s => span MT l s ++ (if s + 2 ^ l ≥ MT then [] else span MT l (s + 2 ^ l))

theorem redLeaves_eq_span (MT : Nat) : ∀ l p, redLeaves MT l p = span MT l (p * 2 ^ l) := by
  intro l
  induction l with
  | zero => intro p; simp [redLeaves, span]
  | succ l ih =>
    intro p
    rw [redLeaves, span, ih, ih, two_mul_pow, two_mul_add_one_pow]

theorem span_eq (MT : Nat) : ∀ l s, s < MT → span MT l s = List.range' s (min (s + 2 ^ l) MT - s) := by
  intro l
  induction l with
  | zero =>
    intro s hs
    have e : min (s + 2 ^ 0) MT - s = 1 := by
      rw [Nat.pow_zero]; omega
    rw [e]; simp [span]
  | succ l ih =>
    intro s hs
    rw [span]
    have hp := pow_succ_two l
    have hpos : 0 < 2 ^ l := Nat.two_pow_pos l
    by_cases hc : s + 2 ^ l ≥ MT
    · rw [if_pos hc, List.append_nil, ih s hs]
      congr 1; omega
    · rw [if_neg hc, ih s hs, ih (s + 2 ^ l) (by omega)]
      have e1 : min (s + 2 ^ l) MT - s = 2 ^ l := by omega
      rw [e1, range'_app]
      congr 1; omega

/-- the tiles below a proper node `(l, p)` (one with `p·2^l < MT`) are the contiguous block
    `p·2^l … min((p+1)·2^l, MT) − 1`, in order, each once -/
theorem redLeaves_eq (MT l p : Nat) (h : p * 2 ^ l < MT) :
    redLeaves MT l p = List.range' (p * 2 ^ l) (min (p * 2 ^ l + 2 ^ l) MT - p * 2 ^ l) := by
  rw [redLeaves_eq_span, span_eq MT l _ h]

theorem redLeaves_root (MT d : Nat) (h1 : 1 ≤ MT) (hd : MT ≤ 2 ^ d) :
    redLeaves MT (d + 1) 0 = List.range MT := by
  have hz : 0 * 2 ^ (d + 1) < MT := by rw [Nat.zero_mul]; omega
  rw [redLeaves_eq MT (d + 1) 0 hz, Nat.zero_mul, List.range_eq_range']
  have hp := pow_succ_two d
  congr 1; omega

/-! ### reduce_col.jdf / reduce_row.jdf: complete binary tree -/

theorem colLeaves_eq : ∀ lv i, colLeaves lv i = List.range' (i * 2 ^ lv) (2 ^ lv) := by
  intro lv
  induction lv with
  | zero => intro i; simp [colLeaves]
  | succ lv ih =>
    intro i
    rw [colLeaves, ih, ih, two_mul_pow, two_mul_add_one_pow, range'_app]
    congr 1
    have := pow_succ_two lv
    omega

theorem colLeaves_root (d : Nat) : colLeaves d 0 = List.range (2 ^ d) := by
  rw [colLeaves_eq, Nat.zero_mul, List.range_eq_range']

/-! ### trees -/

theorem redTree_leaves (MT : Nat) : ∀ l p, (redTree MT l p).leaves = redLeaves MT l p := by
  intro l
  induction l with
  | zero => intro p; rfl
  | succ l ih =>
    intro p
    rw [redTree, redLeaves]
    by_cases hc : p * 2 ^ (l + 1) + 2 ^ l ≥ MT
    · rw [if_pos hc, if_pos hc, RTree.leaves, ih, List.append_nil]
    · rw [if_neg hc, if_neg hc, RTree.leaves, ih, ih]

theorem redTree_eval {α} (MT : Nat) (f : α → α → α) (v : Nat → α) :
    ∀ l p, (redTree MT l p).eval f v = redVal MT f v l p := by
  intro l
  induction l with
  | zero => intro p; rfl
  | succ l ih =>
    intro p
    rw [redTree, redVal]
    by_cases hc : p * 2 ^ (l + 1) + 2 ^ l ≥ MT
    · rw [if_pos hc, if_pos hc, RTree.eval, ih]
    · rw [if_neg hc, if_neg hc, RTree.eval, ih, ih]

theorem colTree_leaves : ∀ lv i, (colTree lv i).leaves = colLeaves lv i := by
  intro lv
  induction lv with
  | zero => intro i; rfl
  | succ lv ih => intro i; rw [colTree, colLeaves, RTree.leaves, ih, ih]

theorem colTree_eval {α} (f : α → α → α) (v : Nat → α) :
    ∀ lv i, (colTree lv i).eval f v = colVal f v lv i := by
  intro lv
  induction lv with
  | zero => intro i; rfl
  | succ lv ih => intro i; rw [colTree, colVal, RTree.eval, ih, ih]

/-! ### the value of a tree is the sequential fold of its leaves -/

theorem foldl_leaves {α} (f : α → α → α) (hassoc : ∀ a b c, f (f a b) c = f a (f b c)) (v : Nat → α)
    (t : RTree) : ∀ acc, (t.leaves.map v).foldl (foldStep f) acc = foldStep f acc (t.eval f v) := by
  induction t with
  | leaf i => intro acc; rfl
  | un t ih => intro acc; exact ih acc
  | bin a b iha ihb =>
    intro acc
    simp only [RTree.leaves, RTree.eval, List.map_append, List.foldl_append, iha, ihb]
    cases acc with
    | none => rfl
    | some x => simp only [foldStep]; rw [hassoc]

theorem eval_eq_foldSeq {α} (f : α → α → α) (hassoc : ∀ a b c, f (f a b) c = f a (f b c)) (v : Nat → α)
    (t : RTree) : foldSeq f (t.leaves.map v) = some (t.eval f v) := by
  unfold foldSeq
  rw [foldl_leaves f hassoc]
  rfl

theorem foldSeq_perm {α} (f : α → α → α) (hassoc : ∀ a b c, f (f a b) c = f a (f b c))
    (hcomm : ∀ a b, f a b = f b a) {l1 l2 : List α} (h : l1.Perm l2) : foldSeq f l1 = foldSeq f l2 := by
  unfold foldSeq
  apply List.Perm.foldl_eq' h
  intro x _ y _ z
  cases z with
  | none =>
    show some (f x y) = some (f y x)
    rw [hcomm]
  | some a =>
    show some (f (f a x) y) = some (f (f a y) x)
    rw [hassoc, hassoc, hcomm x y]

/-! ### dataflow execution: every schedule computes the same values -/

def StoreOK {α} (f : α → α → α) (v : Nat → α) (root : RTree) (s : Store α) : Prop :=
  ∀ p x, s.get p = some x → ∃ t, root.sub p = some t ∧ x = t.eval f v

theorem sub_snoc_bin : ∀ (p : List Bool) (root a b : RTree), root.sub p = some (.bin a b) →
    root.sub (p ++ [false]) = some a ∧ root.sub (p ++ [true]) = some b := by
  intro p
  induction p with
  | nil =>
    intro root a b h
    simp only [RTree.sub] at h
    cases h
    exact ⟨by simp [RTree.sub], by simp [RTree.sub]⟩
  | cons d r ih =>
    intro root a b h
    cases root with
    | leaf i => simp [RTree.sub] at h
    | un t =>
      cases d with
      | false => simpa [RTree.sub] using ih t a b (by simpa [RTree.sub] using h)
      | true => simp [RTree.sub] at h
    | bin x y =>
      cases d with
      | false => simpa [RTree.sub] using ih x a b (by simpa [RTree.sub] using h)
      | true => simpa [RTree.sub] using ih y a b (by simpa [RTree.sub] using h)

theorem sub_snoc_un : ∀ (p : List Bool) (root a : RTree), root.sub p = some (.un a) →
    root.sub (p ++ [false]) = some a := by
  intro p
  induction p with
  | nil =>
    intro root a h
    simp only [RTree.sub] at h
    cases h
    simp [RTree.sub]
  | cons d r ih =>
    intro root a h
    cases root with
    | leaf i => simp [RTree.sub] at h
    | un t =>
      cases d with
      | false => simpa [RTree.sub] using ih t a (by simpa [RTree.sub] using h)
      | true => simp [RTree.sub] at h
    | bin x y =>
      cases d with
      | false => simpa [RTree.sub] using ih x a (by simpa [RTree.sub] using h)
      | true => simpa [RTree.sub] using ih y a (by simpa [RTree.sub] using h)

theorem ok_cons {α} (f : α → α → α) (v : Nat → α) (root : RTree) (s : Store α) (hs : StoreOK f v root s)
    (p : List Bool) (x : α) (hx : ∃ t, root.sub p = some t ∧ x = t.eval f v) :
    StoreOK f v root ((p, x) :: s) := by
  intro q y h
  simp only [Store.get] at h
  by_cases e : p = q
  · rw [if_pos e] at h
    cases h
    subst e
    exact hx
  · rw [if_neg e] at h
    exact hs q y h

theorem fire_ok {α} (f : α → α → α) (v : Nat → α) (root : RTree) (s : Store α) (hs : StoreOK f v root s)
    (p : List Bool) : StoreOK f v root (fire f v root s p) := by
  unfold fire
  cases hg : s.get p with
  | some _ => exact hs
  | none =>
    simp only []
    cases hsub : root.sub p with
    | none => exact hs
    | some t =>
      cases t with
      | leaf i => exact ok_cons f v root s hs p (v i) ⟨.leaf i, hsub, rfl⟩
      | un a =>
        simp only []
        cases ha : s.get (p ++ [false]) with
        | none => exact hs
        | some x =>
          simp only []
          obtain ⟨t', h1, h2⟩ := hs _ _ ha
          rw [sub_snoc_un p root a hsub] at h1
          cases h1
          exact ok_cons f v root s hs p x ⟨.un a, hsub, h2⟩
      | bin a b =>
        simp only []
        cases ha : s.get (p ++ [false]) with
        | none => exact hs
        | some x =>
          cases hb : s.get (p ++ [true]) with
          | none => exact hs
          | some y =>
            simp only []
            obtain ⟨ta, h1, h2⟩ := hs _ _ ha
            obtain ⟨tb, h3, h4⟩ := hs _ _ hb
            rw [(sub_snoc_bin p root a b hsub).1] at h1
            rw [(sub_snoc_bin p root a b hsub).2] at h3
            cases h1; cases h3
            exact ok_cons f v root s hs p (f x y) ⟨.bin a b, hsub, by rw [h2, h4]; rfl⟩

theorem runSched_ok {α} (f : α → α → α) (v : Nat → α) (root : RTree) (s : Store α)
    (hs : StoreOK f v root s) (sched : List (List Bool)) : StoreOK f v root (runSched f v root s sched) := by
  induction sched generalizing s with
  | nil => exact hs
  | cons p t ih => exact ih _ (fire_ok f v root s hs p)

theorem storeOK_nil {α} (f : α → α → α) (v : Nat → α) (root : RTree) : StoreOK f v root ([] : Store α) := by
  intro p x h
  simp [Store.get] at h

/-! ### task spaces -/

theorem mem_redSpace (MT l p : Nat) :
    (l, p) ∈ redSpace MT ↔ 1 ≤ l ∧ l ≤ clog2 MT + 1 ∧ p ≤ MT / 2 ^ l := by
  unfold redSpace
  simp only [List.mem_flatMap, List.mem_map, List.mem_range'_1, List.mem_range, Prod.mk.injEq]
  constructor
  · rintro ⟨a, ha, b, hb, rfl, rfl⟩
    omega
  · rintro ⟨h1, h2, h3⟩
    exact ⟨l, by omega, p, by omega, rfl, rfl⟩

end ParsecVerif.MatrixOps
