import ParsecVerif.Proofs.FourCounterH2
/-
  Preservation of `Hist` by send_up_messages (a process contributes its counters to the wave).
-/
namespace ParsecVerif.FourCounter

theorem Hist.sample {s : State} (h : Hist s) (hS : Struct s) {me : Nat} (h0 : 0 < me) (hme : me < s.n)
    (h1 : cls (s.procs me).st = 1) (hw : (s.procs me).wl = 0) : Hist (sampleUp s me) := by
  have hcme : (s.gh me).c = false := hS.c_false_of_wfc hme (by omega)
  have hne : ∀ q, q ≠ me → (sampleUp s me).procs q = s.procs q := by intro q e; simp [sampleUp, e]
  have hgne : ∀ q, q ≠ me → (sampleUp s me).gh q = s.gh q := by intro q e; simp [sampleUp, e]
  have hpm : (sampleUp s me).procs me =
      { accAdd (s.procs me) with ncl := nbChildren s.n me, st := .idleWP } := by simp [sampleUp]
  have hgm : (sampleUp s me).gh me =
      { s.gh me with c := true, prevS := (s.gh me).curS, prevR := (s.gh me).curR,
                     curS := (s.procs me).ms, curR := (s.procs me).mr } := by simp [sampleUp]
  have hms : ∀ q, ((sampleUp s me).procs q).ms = (s.procs q).ms := by
    intro q; by_cases e : q = me
    · subst e; rw [hpm]; rfl
    · rw [hne q e]
  have hmr : ∀ q, ((sampleUp s me).procs q).mr = (s.procs q).mr := by
    intro q; by_cases e : q = me
    · subst e; rw [hpm]; rfl
    · rw [hne q e]
  have hwl : ∀ q, ((sampleUp s me).procs q).wl = (s.procs q).wl := by
    intro q; by_cases e : q = me
    · subst e; rw [hpm]; rfl
    · rw [hne q e]
  have ho : ∀ q, ((sampleUp s me).procs q).opn = (s.procs q).opn := by
    intro q; by_cases e : q = me
    · subst e; rw [hpm]; rfl
    · rw [hne q e]
  have hmid : ∀ q, ((sampleUp s me).gh q).midS = (s.gh q).midS ∧ ((sampleUp s me).gh q).midR = (s.gh q).midR ∧
      ((sampleUp s me).gh q).actT = (s.gh q).actT := by
    intro q; by_cases e : q = me
    · subst e; rw [hgm]; exact ⟨rfl, rfl, rfl⟩
    · rw [hgne q e]; exact ⟨rfl, rfl, rfl⟩
  have hsk : ∀ q, sKS ((sampleUp s me).gh q) = sKS (s.gh q) ∧ sKR ((sampleUp s me).gh q) = sKR (s.gh q) := by
    intro q; by_cases e : q = me
    · subst e; rw [hgm]; simp [sKS, sKR, hcme]
    · rw [hgne q e]; exact ⟨rfl, rfl⟩
  have happ : cnt isApp (sampleUp s me).net = cnt isApp s.net := by simp [sampleUp, isApp]
  have htz : transit (sampleUp s me) = transit s := transit_eq rfl ho happ
  refine ⟨?_, ?_, ?_, ?_, ?_, ?_, ?_, ?_, ?_, ?_⟩
  · intro q hq
    have old := h.h1S q hq
    rw [(hsk q).1, (hmid q).1, hms]
    by_cases e : q = me
    · subst e; rw [hgm]; rw [hcme] at old; simp at old ⊢; omega
    · rw [hgne q e]; exact old
  · intro q hq
    have old := h.h1R q hq
    rw [(hsk q).2, (hmid q).2.1, hmr]
    by_cases e : q = me
    · subst e; rw [hgm]; rw [hcme] at old; simp at old ⊢; omega
    · rw [hgne q e]; exact old
  · show sumTo s.n _ = sumTo s.n _ + s.trT
    rw [sumTo_congr (fun q _ => (hmid q).1), sumTo_congr (fun q _ => (hmid q).2.1)]; exact h.h2
  · intro hs q hq ha
    rw [(hmid q).2.2] at ha; rw [(hsk q).2, (hmid q).2.1]; exact h.h3 hs q hq ha
  · intro hs ht ha
    have hq := h.h4 hs ht (fun q hq => by rw [← (hmid q).2.2]; exact ha q hq)
    unfold Quiet at hq ⊢
    rw [happ]
    refine ⟨fun q hq' => ?_, hq.2⟩
    rw [hwl, ho, hms, hmr, (hmid q).1, (hmid q).2.1]; exact hq.1 q hq'
  · intro q hq hc hw'
    rw [hwl] at hw'; rw [hmr, ho]
    by_cases e : q = me
    · subst e; omega
    · rw [hgne q e] at hc ⊢; exact h.h5 q hq hc hw'
  · show sumTo s.n _ = sumTo s.n _ + _
    rw [htz, sumTo_congr (fun q _ => hms q), sumTo_congr (fun q _ => hmr q)]; exact h.h6
  · intro q hq hb
    by_cases e : q = me
    · subst e; rw [hpm] at hb; cases hb
    · rw [hne q e] at hb ⊢; rw [hgne q e]; exact h.h8 q hq hb
  · intro hle; rw [htz]; exact h.s1 hle
  · intro hs q hq
    by_cases e : q = me
    · subst e; rw [hpm]; simp [cls]
    · rw [hne q e]; exact h.nr hs q hq

end ParsecVerif.FourCounter
