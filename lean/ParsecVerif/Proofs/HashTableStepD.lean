/-
  The walk through the older tables: `lo` (lock of the old bucket, scan, unlink), `du` (fetch-dec of
  `used_buckets`), `cn` (CAS that unlinks the emptied table).
-/
import ParsecVerif.Proofs.HashTableStepC

namespace ParsecVerif.HashTable

/-! ## `used_buckets` accounting -/

theorem UsedInv.same' {s m : Store} {thr : List Thread} (h : UsedInv s thr) {u : Nat} {th : Thread} (hu : thr[u]? = some th)
    (x : Thread) (htop : m.top = s.top) (hnb : m.nb0 = s.nb0)
    (hused : ∀ T, T < s.top → (m.tab T).used = (s.tab T).used)
    (huc : ∀ T, T < s.top → m.usedCount T = s.usedCount T)
    (hdu : ∀ T, x.pc.isDu T = th.pc.isDu T) : UsedInv m (thr.set u x) := by
  intro T h1 h2
  rw [hnb] at h1; rw [htop] at h2
  have := pendingDec_set hu x T
  rw [hdu T] at this
  rw [hused T h2, huc T h2, h T h1 h2]
  omega

/-- the stepping thread emptied a bucket of `hd` and now owes the decrement -/
theorem usedInv_emptied {s m : Store} {thr : List Thread} (h : UsedInv s thr) {u : Nat} {th : Thread} (hu : thr[u]? = some th)
    (x : Thread) (htop : m.top = s.top) (hnb : m.nb0 = s.nb0)
    (hused : ∀ T, T < s.top → (m.tab T).used = (s.tab T).used)
    {hd b0 : Nat} (hb : b0 < 2 ^ hd) (h1 : (s.bk hd b0).items ≠ []) (h2 : (m.bk hd b0).items = [])
    (h3 : ∀ T b, T < s.top → ¬ (T = hd ∧ b = b0) → (m.bk T b).items = (s.bk T b).items)
    (hth : ∀ T, th.pc.isDu T = false) (hx : ∀ T, x.pc.isDu T = (hd == T)) : UsedInv m (thr.set u x) := by
  intro T g1 g2
  rw [hnb] at g1; rw [htop] at g2
  have hp := pendingDec_set hu x T
  rw [hth T, hx T] at hp
  rw [hused T g2, h T g1 g2]
  by_cases hT : hd = T
  · subst hT
    have := usedCount_emptied (s := s) (s' := m) hb h1 h2 (fun b hne => h3 hd b g2 (fun hc => hne hc.2))
    simp at hp
    omega
  · have hc : m.usedCount T = s.usedCount T := usedCount_same (fun b => h3 T b g2 (fun hc => hT hc.1.symm))
    have : (hd == T) = false := by simpa using hT
    rw [this] at hp
    simp at hp
    rw [hc]; omega

/-- the stepping thread performs the decrement it owed -/
theorem usedInv_dec {s m : Store} {thr : List Thread} (h : UsedInv s thr) {u : Nat} {th : Thread} (hu : thr[u]? = some th)
    (x : Thread) (htop : m.top = s.top) (hnb : m.nb0 = s.nb0) {hd : Nat}
    (hused : ∀ T, T < s.top → (m.tab T).used = if T = hd then (s.tab hd).used - 1 else (s.tab T).used)
    (huc : ∀ T, T < s.top → m.usedCount T = s.usedCount T)
    (hth : ∀ T, th.pc.isDu T = (hd == T)) (hx : ∀ T, x.pc.isDu T = false) : UsedInv m (thr.set u x) := by
  intro T g1 g2
  rw [hnb] at g1; rw [htop] at g2
  have hp := pendingDec_set hu x T
  rw [hth T, hx T] at hp
  rw [hused T g2, huc T g2]
  by_cases hT : T = hd
  · subst hT
    rw [if_pos rfl, h T g1 g2]
    simp at hp
    omega
  · rw [if_neg hT, h T g1 g2]
    have : (hd == T) = false := by simpa using (fun hc : hd = T => hT hc.symm)
    rw [this] at hp
    simp at hp
    omega

/-! ## the item found goes (back) to the top-level table, or to the caller -/

/-- `m = mvInsert s' th it` where `s'` is the store without `it`: after the unlink in this step
    (`lo`), or with the item in the thread's hand (`du`, `cn`) -/
theorem mv_tail {s s' : Store} {thr : List Thread} (hst' : StructInv s') (hab : AbsInv s thr) {u : Nat} {th : Thread}
    (hu : thr[u]? = some th) {it : Item}
    (htop : s'.top = s.top) (hhf : s'.hf = s.hf) (hnb : s'.nb0 = s.nb0) (habs : s'.abs = s.abs)
    (hsto : ∀ y, Stored s' y ↔ Stored s y ∧ y ≠ it)
    (hsub : ∀ T b y, y ∈ (s'.bk T b).items → y ∈ (s.bk T b).items)
    (hlockG : ∀ T b, (s'.bk T b).lock = (s.bk T b).lock ∨ (s.bk T b).lock = 0 ∨ (s.bk T b).lock = u + 1)
    (hl : HoldsTop s u it.key) (hl' : HoldsTop s' u it.key) (hmv : th.op.mv = true → it ∈ s.abs)
    (hrm : th.op.mv = false → ∀ y, y ∈ s.abs → Stored s y → y ≠ it)
    (hth : ∀ y, th.pc.inHand = some y → y = it) (hkey : it.key = th.op.key)
    (x : Thread) (hx : x.pc.inHand = none) :
    StructInv (mvInsert s' th it) ∧ AbsInv (mvInsert s' th it) (thr.set u x) ∧ HoldsTop (mvInsert s' th it) u th.op.key ∧
    Guar u s (mvInsert s' th it) ∧ (∀ T b, T < s.top → ((mvInsert s' th it).bk T b).items = (s'.bk T b).items) ∧
    (∀ T, ((mvInsert s' th it).tab T).used = (s'.tab T).used) ∧ (∀ T, ((mvInsert s' th it).tab T).next = (s'.tab T).next) ∧
    (∀ T b, ((mvInsert s' th it).bk T b).lock = (s'.bk T b).lock) ∧
    (mvInsert s' th it).top = s.top ∧ (mvInsert s' th it).nb0 = s.nb0 ∧ (mvInsert s' th it).hf = s.hf ∧
    (mvInsert s' th it).abs = s.abs ∧ (mvInsert s' th it).kheld = s'.kheld := by
  have hns' : ¬ Stored s' it := fun h => ((hsto it).1 h).2 rfl
  unfold mvInsert
  cases hm : th.op.mv with
  | true =>
    simp only [if_true]
    have hb : tbk s' th = s'.hf it.key s'.top := by unfold tbk; rw [hkey]
    rw [hb]
    have hstored : ∀ y, Stored (s'.pushFront s'.top (s'.hf it.key s'.top) it) y ↔ y = it ∨ Stored s' y :=
      fun y => stored_pushFront hst'.top _ it y
    refine ⟨hst'.pushTop rfl hns', ?_, ?_, ?_, ?_, fun T => used_pushFront _ _ _ T it, fun T => next_pushFront _ _ _ T it,
      fun T b => lock_pushFront _ _ _ T b it, htop, hnb, hhf, habs, rfl⟩
    · refine hab.step hu x (fun y hy => ?_) (fun y hy => ?_) (by show s'.abs.Pairwise _; rw [habs]; exact hab.absKeys)
      · show y ∈ s'.abs
        rw [habs]
        rcases (hstored y).1 hy with h | h
        · rw [h]; exact hmv hm
        · exact hab.absIn y ((hsto y).1 h).1
      · have hy' : y ∈ s'.abs := hy
        rw [habs] at hy'
        by_cases hyi : y = it
        · exact Or.inl ((hstored y).2 (Or.inl hyi))
        · by_cases hst : Stored s y
          · exact Or.inl ((hstored y).2 (Or.inr ((hsto y).2 ⟨hst, hyi⟩)))
          · exact Or.inr (Or.inr ⟨hy', hst, fun hc => hyi (hth y hc.2)⟩)
    · unfold HoldsTop
      show ((s'.pushFront s'.top (s'.hf it.key s'.top) it).bk s'.top (s'.hf th.op.key s'.top)).lock = u + 1
      rw [lock_pushFront, ← hkey]; exact hl'
    · refine ⟨htop, hnb, hhf, fun T b => ?_, fun T b y hy => ?_, fun y hy => Or.inl (by show y ∈ s'.abs; rw [habs]; exact hy)⟩
      · rw [lock_pushFront]; exact hlockG T b
      · rw [items_pushFront] at hy
        split at hy
        · rename_i hc
          rcases List.mem_cons.1 hy with h | h
          · rw [h, hc.1, hc.2, htop, hhf]; exact Or.inr ⟨rfl, rfl, Or.inr hl⟩
          · rw [hc.1, hc.2]; exact Or.inl (hsub _ _ y h)
        · exact Or.inl (hsub T b y hy)
    · intro T b hT
      rw [items_pushFront]
      have : ¬ (T = s'.top ∧ b = s'.hf it.key s'.top) := fun hc => by rw [htop] at hc; omega
      rw [if_neg this]
  | false =>
    simp only [Bool.false_eq_true, if_false]
    refine ⟨hst', ?_, ?_, ?_, fun _ _ _ => trivial, fun _ => trivial, fun _ => trivial, fun _ _ => trivial, htop, hnb, hhf, habs, trivial⟩
    · refine hab.step hu x (fun y hy => ?_) (fun y hy => ?_) (by rw [habs]; exact hab.absKeys)
      · rw [habs]; exact hab.absIn y ((hsto y).1 hy).1
      · rw [habs] at hy
        by_cases hst : Stored s y
        · exact Or.inl ((hsto y).2 ⟨hst, hrm hm y hy hst⟩)
        · exact Or.inr (Or.inr ⟨hy, hst, fun hc => by rw [hm] at hc; cases hc.1⟩)
    · unfold HoldsTop; rw [← hkey]; exact hl'
    · exact ⟨htop, hnb, hhf, hlockG, fun T b y hy => Or.inl (hsub T b y hy), fun y hy => Or.inl (by rw [habs]; exact hy)⟩

/-- the item found by a `find` is unlinked and carried by the thread -/
theorem erase_mv_hand {s s1 : Store} {thr : List Thread} (hS : SInv s thr) {u : Nat} {th : Thread} (hu : thr[u]? = some th)
    (p : Pre u s s1) {T b : Nat} {it : Item} (hT : Tin s T) (hit : it ∈ (s.bk T b).items)
    (x : Thread) (hth : th.pc.inHand = none) (hx : x.op.mv = true ∧ x.pc.inHand = some it) :
    StructInv (s1.eraseIt T b it) ∧ AbsInv (s1.eraseIt T b it) (thr.set u x) ∧ Guar u s (s1.eraseIt T b it) ∧
    ¬ Stored (s1.eraseIt T b it) it := by
  have st1 : StructInv s1 := hS.st.congr p.e
  have hT1 : Tin s1 T := (p.e.tin T).2 hT
  have hit1 : it ∈ (s1.bk T b).items := by rw [p.e.items]; exact hit
  have hstored : ∀ y, Stored (s1.eraseIt T b it) y ↔ Stored s y ∧ y ≠ it := by
    intro y; rw [stored_erase st1 hT1 hit1, p.e.stored]
  refine ⟨st1.erase hT1 hit1, ?_, ?_, fun h => ((hstored it).1 h).2 rfl⟩
  · refine hS.ab.step hu x (fun y hy => ?_) (fun y hy => ?_) (by show s1.abs.Pairwise _; rw [p.abs]; exact hS.ab.absKeys)
    · show y ∈ s1.abs
      rw [p.abs]; exact hS.ab.absIn y ((hstored y).1 hy).1
    · have hy' : y ∈ s1.abs := hy
      rw [p.abs] at hy'
      by_cases hyi : y = it
      · rw [hyi]; exact Or.inr (Or.inl hx)
      · by_cases hst : Stored s y
        · exact Or.inl ((hstored y).2 ⟨hst, hyi⟩)
        · exact Or.inr (Or.inr ⟨hy', hst, fun hc => by rw [hth] at hc; cases hc.2⟩)
  · refine ⟨p.e.top, p.e.nb0, p.e.hf, fun T' b' => ?_, fun T' b' y hy => Or.inl ?_, fun y hy => Or.inl (by show y ∈ s1.abs; rw [p.abs]; exact hy)⟩
    · rw [lock_eraseIt]; exact p.lockG T' b'
    · rw [items_eraseIt, p.e.items, p.e.items] at hy
      split at hy
      · rename_i hc; rw [hc.1, hc.2]; exact List.mem_of_mem_erase hy
      · exact hy

/-! ## `cn` and the second half of `du`: the item goes to its destination, the old bucket stays locked -/

theorem tail_step {s s' : Store} {thr : List Thread} {u : Nat} {th : Thread} (hS : SInv s thr) (hu : thr[u]? = some th)
    {hd : Nat} {it : Item} (hh : ∀ y, th.pc.inHand = some y → y = it) (hkey : it.key = th.op.key)
    (h3 : HoldsTop s u th.op.key) (h4 : HoldsOld s u th.op.key hd) (h5 : s.nb0 ≤ hd) (hlt : hd < s.top)
    (hok : OpOk th.op) (hni : NoIns th.op) (h9 : ¬ Stored s it) (h11 : th.op.mv = true → it ∈ s.abs)
    (hlin : th.pc.linRes = some it.id) (hnp : ¬ (th.pc = .rd ∨ th.pc = .lt)) (hrd : th.pc.isReader = true)
    (hbk : ∀ T b, s'.bk T b = s.bk T b) (hst' : StructInv s') (htop : s'.top = s.top) (hnb : s'.nb0 = s.nb0)
    (hhf : s'.hf = s.hf) (habs : s'.abs = s.abs) (hkh : s'.kheld = s.kheld)
    (hused : ∀ m : Store, m.top = s.top → m.nb0 = s.nb0 → (∀ T, (m.tab T).used = (s'.tab T).used) →
      (∀ T b, T < s.top → (m.bk T b).items = (s.bk T b).items) → UsedInv m (thr.set u (th.goto (.ulo hd (some it))))) :
    StepOk s thr u ⟨mvInsert s' th it, th.goto (.ulo hd (some it)), none⟩ := by
  have hsto : ∀ y, Stored s' y ↔ Stored s y ∧ y ≠ it := by
    intro y
    have : Stored s' y ↔ Stored s y := by unfold Stored Tin; simp only [hbk, htop, hnb]
    rw [this]
    exact ⟨fun h => ⟨h, fun hc => h9 (hc ▸ h)⟩, fun h => h.1⟩
  have hl : HoldsTop s u it.key := by rw [hkey]; exact h3
  have hl' : HoldsTop s' u it.key := by unfold HoldsTop; rw [htop, hhf, hbk]; exact hl
  obtain ⟨p1, p2, p3, p4, p5, p6, _, p8, p9, p10, p11, p12, p13⟩ :=
    mv_tail hst' hS.ab hu htop hhf hnb habs hsto (fun T b y hy => by rw [hbk] at hy; exact hy)
      (fun T b => Or.inl (by rw [hbk])) hl hl' h11 (fun _ y _ hst hc => h9 (hc ▸ hst)) hh hkey
      (th.goto (.ulo hd (some it))) rfl
  refine StepOk.mk' (mvInsert s' th it) (th.goto (.ulo hd (some it))) rfl rfl ⟨p1, ?_, p2, ?_, ?_⟩ ?_ (fun t ht _ _ _ => p4.rely ht)
  · exact hused _ p9 p10 p6 (fun T b hT => by rw [p5 T b hT, hbk])
  · exact hS.excl.set_same hu _ (fun _ => hrd) (fun h => by cases h)
  · refine (hS.user.set_same hu (sameStatus_goto ?_ (by rw [hlin]; rfl))).congr p12 (by rw [p13, hkh])
    constructor
    · intro h; rcases h with h | h <;> cases h
    · intro h; exact absurd h hnp
  · show TInv (mvInsert s' th it) u th.op (.ulo hd (some it))
    refine ⟨hok, hni, p3, ?_, by rw [p10]; exact h5, by rw [p9]; exact hlt, fun h => by cases h⟩
    unfold HoldsOld
    rw [p8, p11, hbk]; exact h4

theorem stepOk_cn {s : Store} {thr : List Thread} {u : Nat} {th : Thread} (hS : SInv s thr) (hu : thr[u]? = some th)
    {hd pv nv : Nat} {it : Item} (hpc : th.pc = .cn hd pv nv it) (hT : TInv s u th.op th.pc) :
    StepOk s thr u (stepCn s th hd pv nv it) := by
  rw [hpc] at hT
  obtain ⟨h1, h2, h3, h4, h5, h6, h7, h8, h9, h11, h12, h13, h14, h15⟩ := hT
  have hlt : hd < s.top := Nat.lt_of_lt_of_le h6 h7
  unfold stepCn
  have hdu : ∀ T, (th.goto (.ulo hd (some it))).pc.isDu T = th.pc.isDu T := fun T => by rw [hpc]; rfl
  have common : ∀ s' : Store, (∀ T b, s'.bk T b = s.bk T b) → (∀ T, (s'.tab T).used = (s.tab T).used) → StructInv s' →
      s'.top = s.top → s'.nb0 = s.nb0 → s'.hf = s.hf → s'.abs = s.abs → s'.kheld = s.kheld →
      StepOk s thr u ⟨mvInsert s' th it, th.goto (.ulo hd (some it)), none⟩ := by
    intro s' hbk hus hst' htop hnb hhf habs hkh
    refine tail_step hS hu (fun y hy => by rw [hpc] at hy; cases hy; rfl) h8 h3 h4 h5 hlt h1 h2 h9 h11
      (by rw [hpc]; rfl) (by rw [hpc]; simp) (by rw [hpc]; rfl) hbk hst' htop hnb hhf habs hkh ?_
    intro m g1 g2 g3 g4
    exact hS.used.same hu _ g1 g2 (fun T _ => by rw [g3, hus]) g4 hdu
  split
  · rename_i hc
    refine common (s.setNext pv nv) (fun T b => bk_setNext s pv T b nv) (fun T => used_setNext s pv T nv) ?_ rfl rfl rfl rfl rfl
    refine hS.st.setNext (by omega) h14 ?_
    intro T' a b c
    rcases Nat.lt_trichotomy T' hd with hlt' | heq | hgt
    · exact h15 T' a hlt' c
    · rw [heq]; exact h12
    · exact hS.st.skip pv T' ⟨by omega, h7⟩ (by rw [hc]; exact hgt) b c
  · exact common s (fun _ _ => rfl) (fun _ => rfl) hS.st rfl rfl rfl rfl rfl

theorem stepOk_du {s : Store} {thr : List Thread} {u : Nat} {th : Thread} (hS : SInv s thr) (hu : thr[u]? = some th)
    {hd pv : Nat} {it : Item} (hpc : th.pc = .du hd pv it) (hT : TInv s u th.op th.pc) :
    StepOk s thr u (stepDu s th hd pv it) := by
  rw [hpc] at hT
  obtain ⟨h1, h2, h3, h4, h5, h6, h7, h8, h9, h10, h11⟩ := hT
  have hlt : hd < s.top := Nat.lt_of_lt_of_le h6 h7
  have hTin : Tin s hd := ⟨h5, Nat.le_of_lt hlt⟩
  have e : SameStore s (s.decUsed hd) := sameStore_decUsed s hd
  have hthdu : ∀ T, th.pc.isDu T = (hd == T) := fun T => by rw [hpc]; rfl
  have husedDec : ∀ (m : Store) (x : Thread), m.top = s.top → m.nb0 = s.nb0 → (∀ T, (m.tab T).used = ((s.decUsed hd).tab T).used) →
      (∀ T b, T < s.top → (m.bk T b).items = (s.bk T b).items) → (∀ T, x.pc.isDu T = false) → UsedInv m (thr.set u x) := by
    intro m x g1 g2 g3 g4 g5
    refine usedInv_dec hS.used hu x g1 g2 (hd := hd) (fun T _ => by rw [g3, used_decUsed]) (fun T hT => usedCount_same (fun b => g4 T b hT)) hthdu g5
  unfold stepDu
  split
  · rename_i hone
    -- the last used bucket: the table is empty
    have hempty : EmptyT s hd := by
      apply emptyT_of_usedCount hS.st hTin
      have h := hS.used hd h5 hlt
      have hp := pendingDec_pos hu (T := hd) (by rw [hpc]; simp [Pc.isDu])
      rw [hone] at h
      omega
    have hnx := hS.st.nxt hd hTin
    refine StepOk.mk' (s.decUsed hd) (th.goto (.cn hd pv (s.tab hd).next it)) rfl rfl ⟨hS.st.congr e, ?_, ?_, ?_, ?_⟩ ?_
      (fun t ht _ _ _ => (Guar.same (u := u) e (fun T b => Or.inl (by rw [bk_decUsed])) rfl).rely ht)
    · exact husedDec _ _ rfl rfl (fun _ => rfl) (fun T b _ => by rw [bk_decUsed]) (fun _ => rfl)
    · exact hS.ab.same hu _ e rfl (fun y hm hy => by rw [hpc] at hy; cases hy; exact ⟨hm, rfl⟩)
    · exact hS.excl.set_same hu _ (fun _ => by rw [hpc]; rfl) (fun h => by cases h)
    · exact (hS.user.set_same hu (sameStatus_goto (by rw [hpc]; simp) (by rw [hpc]; rfl))).congr rfl rfl
    · show TInv (s.decUsed hd) u th.op (.cn hd pv (s.tab hd).next it)
      refine ⟨h1, h2, ?_, ?_, h5, h6, h7, h8, fun hc => h9 ((e.stored it).1 hc), h11, (e.emptyT hd).2 hempty, hnx.1, hnx.2, ?_⟩
      · unfold HoldsTop; show ((s.decUsed hd).bk s.top (s.hf th.op.key s.top)).lock = u + 1; rw [bk_decUsed]; exact h3
      · unfold HoldsOld; show ((s.decUsed hd).bk hd (s.hf th.op.key hd)).lock = u + 1; rw [bk_decUsed]; exact h4
      · intro T' a b c
        exact (e.emptyT T').2 (hS.st.skip hd T' hTin a b c)
  · refine tail_step hS hu (fun y hy => by rw [hpc] at hy; cases hy; rfl) h8 h3 h4 h5 hlt h1 h2 h9 h11
      (by rw [hpc]; rfl) (by rw [hpc]; simp) (by rw [hpc]; rfl) (fun T b => bk_decUsed s hd T b) (hS.st.congr e) rfl rfl rfl rfl rfl ?_
    intro m g1 g2 g3 g4
    exact husedDec m _ g1 g2 g3 g4 (fun _ => rfl)

end ParsecVerif.HashTable
