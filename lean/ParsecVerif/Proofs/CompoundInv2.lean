import ParsecVerif.Proofs.CompoundInv
import ParsecVerif.Proofs.CompoundSelf
/-! The global invariant of the compound machine (composition forests): context invariants, the chain of
    members of every compound (`CI`), the descriptor of every compound object (`CS`); one context transition
    versus one compound (`cics_step`); preservation by context moves. -/
namespace ParsecVerif.Compound
open ParsecVerif.Context

/-- the compound object: no task, pending count = the machine's `pending`, armed and added while some
    member remains, in or past its (nested) callback once all members completed, its callback stamp is
    later than the callback stamp of the last member, and it was added before any of its members -/
structure CS (l : List Tp) (c : Comp) : Prop where
  ne : 1 ≤ c.members.length
  ex : ∃ ts : Tp, l[c.self]? = some ts ∧ ts.total = 0 ∧ ts.early = false ∧ SelfSt ts.st ∧ (ts.pend : Int) = c.pending ∧
      (0 < c.pending → ts.st = .added ∧ ts.ready = true) ∧
      (c.completed = c.members.length → ts.st = .inCbN ∨ ts.st = .done) ∧
      (c.completed < c.members.length → ts.cbAt = 0 ∧ ts.cbs = 0) ∧
      (ts.cbAt ≠ 0 → ∀ (ml : Nat) (tl : Tp), c.members[c.members.length - 1]? = some ml → l[ml]? = some tl →
          tl.cbAt ≠ 0 ∧ tl.cbAt < ts.cbAt) ∧
      (∀ (m : Nat) (tm : Tp), m ∈ c.members → l[m]? = some tm → tm.addAt ≠ 0 → ts.addAt ≠ 0 ∧ ts.addAt < tm.addAt)

structure GI (cs : CSt) : Prop where
  inv : Inv cs.base
  sinv : SInv cs.base
  nodup : (allMembers cs.comps).Nodup
  snodup : (allSelfs cs.comps).Nodup
  sown : ∀ c ∈ cs.comps, c.self ∉ c.members
  ci : ∀ (i : Nat) (c : Comp), cs.comps[i]? = some c → CI cs.base.tps c
  cself : ∀ (i : Nat) (c : Comp), cs.comps[i]? = some c → CS cs.base.tps c

theorem not_mem_of_contains {l : List Nat} {q : Nat} (h : (!l.contains q) = true) : q ∉ l := by
  simpa using h

theorem mem_allSelfs {comps : List Comp} {i : Nat} {c : Comp} (hc : comps[i]? = some c) : c.self ∈ allSelfs comps :=
  List.mem_map.2 ⟨c, List.mem_of_getElem? hc, rfl⟩

theorem take_lt_of_nodup {l : List Nat} (hnd : l.Nodup) {k i p : Nat} (h : p ∈ l.take k) (hi : l[i]? = some p) : i < k := by
  obtain ⟨j, hj, hget⟩ := List.getElem_of_mem h
  have hjk : j < k := by have := List.length_take_le k l; simp at hj; omega
  have hj' : l[j]? = some p := by
    rw [List.getElem_take] at hget
    have hjl : j < l.length := by simp at hj; omega
    rw [List.getElem?_eq_getElem hjl, hget]
  have := nodup_get_inj hnd hi hj'
  omega

/-- before its startup hook ran the compound object may be anything up to `added`; with a member past
    `notAdded` it is added and armed: so while the object is being added every member is still untouched -/
theorem members_fresh_of_adding {l : List Tp} {c : Comp} {clk : Nat} (hci : CI l c) (hcs : CS l c) (hS : ∀ tp ∈ l, tpOK clk tp)
    {ts : Tp} (hts : l[c.self]? = some ts) (hst : ts.st = .adding ∨ ts.st = .notAdded) :
    ∀ (m : Nat) (tm : Tp), m ∈ c.members → l[m]? = some tm → tm.addAt = 0 := by
  obtain ⟨ts0, hts0, _, _, _, _, a1, a2, _, _, _⟩ := hcs.ex
  rw [hts] at hts0; cases hts0
  have hne := hcs.ne
  have hcl : c.completed < c.members.length := by
    rcases Nat.lt_or_ge c.completed c.members.length with h | h
    · exact h
    · have := hci.le
      rcases a2 (by omega) with e | e <;> rcases hst with e' | e' <;> rw [e] at e' <;> cases e'
  have key : ∀ (i m : Nat) (tm : Tp), c.members[i]? = some m → l[m]? = some tm → i = c.completed →
      tm.st = .notAdded ∧ c.completed = 0 := by
    intro i m tm hi htm hic
    obtain ⟨x, hx, _, _, _, b4⟩ := hci.mem i m hi
    rw [htm] at hx; cases hx
    obtain ⟨_, b42, b43⟩ := b4 hic
    have hna : tm.st = .notAdded := by
      cases hs0 : tm.st
      case notAdded => rfl
      all_goals
        have hp := b43 (by rw [hs0]; simp)
        have : (0 : Int) < c.pending := by omega
        obtain ⟨e, _⟩ := a1 this
        rcases hst with e' | e' <;> rw [e] at e' <;> cases e'
    exact ⟨hna, (b42 hna).1⟩
  have hget : c.members[c.completed]? = some c.members[c.completed] := List.getElem?_eq_getElem hcl
  obtain ⟨t0, ht0, _⟩ := hci.mem _ _ hget
  have hc0 : c.completed = 0 := (key _ _ t0 hget ht0 rfl).2
  intro m tm hm htm
  obtain ⟨i, hil, hig⟩ := List.getElem_of_mem hm
  have hi : c.members[i]? = some m := by rw [List.getElem?_eq_getElem hil, hig]
  have hxs : tm.st = .notAdded := by
    rcases Nat.eq_zero_or_pos i with e | e
    · exact (key i m tm hi htm (by omega)).1
    · obtain ⟨x, hx, _, _, c3, _⟩ := hci.mem i m hi
      rw [htm] at hx; cases hx
      exact c3 (by omega)
  have hok := hS tm (List.mem_of_getElem? htm)
  simp only [tpOK, hxs] at hok
  exact hok.2.2.2.2.2.2.2.2.2.2.2.1

/-- the object keeps satisfying `CS` when its descriptor moves by `SelfRel` and its members keep their
    stamps up to: a callback stamp appears on an `added` member, an add stamp (= now) on an `adding` one -/
theorem cs_frame {l l' : List Tp} {c : Comp} {clk : Nat} (h : CS l c) (hci : CI l c) (hS : ∀ tp ∈ l, tpOK clk tp)
    (hself : ∀ ts : Tp, l[c.self]? = some ts → ∃ ts' : Tp, l'[c.self]? = some ts' ∧ SelfRel ts ts')
    (hmem : ∀ m ∈ c.members, ∀ tp' : Tp, l'[m]? = some tp' → ∃ tp : Tp, l[m]? = some tp ∧
        (tp'.cbAt = tp.cbAt ∨ tp.st = .added) ∧ (tp'.addAt = tp.addAt ∨ (tp.st = .adding ∧ tp'.addAt = clk))) : CS l' c := by
  obtain ⟨ts, hts, h0, he, hss, hp, h1, h2, h3, h4, h5⟩ := h.ex
  obtain ⟨ts', hts', r0, re, rp, rc, rcb, rss, ra, rst⟩ := hself ts hts
  refine ⟨h.ne, ts', hts', r0, re, rss, by rw [rp]; exact hp, ?_, ?_, ?_, ?_, ?_⟩
  · intro hpos
    obtain ⟨a1, a2⟩ := h1 hpos
    rcases rst with ⟨e1, e2⟩ | ⟨e1, _⟩ | ⟨e1, _⟩ | ⟨e1, _⟩
    · exact ⟨e1.trans a1, by rcases e2 with e | e; exact e.trans a2; exact e⟩
    · rw [a1] at e1; cases e1
    · rw [a1] at e1; cases e1
    · rw [a1] at e1; cases e1
  · intro hc
    rcases h2 hc with a | a
    · rcases rst with ⟨e1, _⟩ | ⟨e1, _⟩ | ⟨e1, _⟩ | ⟨_, e2⟩
      · exact Or.inl (e1.trans a)
      · rw [a] at e1; cases e1
      · rw [a] at e1; cases e1
      · exact Or.inr e2
    · rcases rst with ⟨e1, _⟩ | ⟨e1, _⟩ | ⟨e1, _⟩ | ⟨e1, _⟩
      · exact Or.inr (e1.trans a)
      · rw [a] at e1; cases e1
      · rw [a] at e1; cases e1
      · rw [a] at e1; cases e1
  · intro hc; rw [rc, rcb]; exact h3 hc
  · intro hcb ml tl hml htl
    rw [rc] at hcb ⊢
    obtain ⟨x, hx, e, _⟩ := hmem ml (List.mem_of_getElem? hml) tl htl
    have hcn : c.completed = c.members.length := by
      rcases Nat.lt_or_ge c.completed c.members.length with hh | hh
      · exact absurd (h3 hh).1 hcb
      · have := hci.le; omega
    rcases e with e | e
    · rw [e]; exact h4 hcb ml x hml hx
    · -- the last member is past its callback: it is not `added`
      obtain ⟨y, hy, _, b2, _, _⟩ := hci.mem _ _ hml
      rw [hx] at hy; cases hy
      have hne := h.ne
      rcases b2 (by omega) with e' | e' | e' <;> rw [e] at e' <;> cases e'
  · intro m tm hm htm hne
    obtain ⟨x, hx, _, ea⟩ := hmem m hm tm htm
    rcases ea with ea | ⟨es, ea⟩
    · -- the member keeps its add stamp; the object may just have got its own
      rw [ea] at hne ⊢
      obtain ⟨g1, g2⟩ := h5 m x hm hx hne
      rcases ra with e | ⟨e, _⟩
      · rw [e]; exact ⟨g1, g2⟩
      · exact absurd (members_fresh_of_adding hci h hS hts (Or.inl e) m x hm hx) hne
    · -- the member is being incremented now: the object is added (and armed)
      obtain ⟨i, hil, hig⟩ := List.getElem_of_mem hm
      have hi : c.members[i]? = some m := by rw [List.getElem?_eq_getElem hil, hig]
      obtain ⟨y, hy, _, b2, b3, b4⟩ := hci.mem i m hi
      rw [hx] at hy; cases hy
      have hic : i = c.completed := by
        rcases Nat.lt_trichotomy i c.completed with hlt | heq | hgt
        · rcases b2 hlt with e | e | e <;> rw [es] at e <;> cases e
        · exact heq
        · have := b3 hgt; rw [es] at this; cases this
      have hpend := (b4 hic).2.2 (by rw [es]; simp)
      obtain ⟨sa, _⟩ := h1 (by omega)
      have hok := hS ts (List.mem_of_getElem? hts)
      simp only [tpOK, sa] at hok
      rcases ra with e | ⟨e, _⟩
      · rw [e, ea]; omega
      · rw [sa] at e; cases e

/-- ONE transition of the context machine against ONE compound: the chain and object clauses survive provided
    the transition does not detect a member or the object directly, does not start adding a member, does not touch
    the object's pending count, and decrements for a nested member only after the compound was notified -/
theorem cics_step {s s' : St} {tr : Tr} {c : Comp} (hI : Inv s) (hS : SInv s) (hs : step? s tr = some s')
    (hci : CI s.tps c) (hcs : CS s.tps c) (hnd : c.members.Nodup) (hown : c.self ∉ c.members)
    (hdet : ∀ t p, tr = .detect t p → p ∉ c.members ∧ p ≠ c.self)
    (hcall : ∀ t p, (tr = .addCall t p ∨ tr = .startupAdd t p) → p ∉ c.members)
    (hact : ∀ t, tr ≠ .actionDone t c.self)
    (hsr : ∀ t n, tr = .startupReady t n → s.subs[t]? ≠ some (.startup c.self))
    (hins : ∀ t, tr ≠ .insert t c.self)
    (hndec : ∀ t rest q, tr = .nestDec t → s.nests[t]? = some (q :: rest) → q ∈ c.members →
        ∀ i, c.members[i]? = some q → i < c.completed) :
    CI s'.tps c ∧ CS s'.tps c := by
  obtain ⟨ts, hts, h0, he, hss, _⟩ := hcs.ex
  have hselfrel : ∀ ts0 : Tp, s.tps[c.self]? = some ts0 → ∃ ts' : Tp, s'.tps[c.self]? = some ts' ∧ SelfRel ts0 ts' := by
    intro ts0 hts0
    rw [hts] at hts0; cases hts0
    refine step?_self hI hs hts h0 he hss ?_ hins hsr hact
    intro t e; exact (hdet t c.self e).2 rfl
  rcases step?_chg hI hS hs with e | ⟨p, tp, x, htp, hset, hearly, chg⟩
  · refine ⟨by rw [e]; exact hci, ?_⟩
    apply cs_frame hcs hci hS.tpok hselfrel
    intro m _ tp' htp'
    rw [e] at htp'; exact ⟨tp', htp', Or.inl rfl, Or.inl rfl⟩
  · -- stamps of the members under this change
    have hmemst : ∀ m ∈ c.members, ∀ tp' : Tp, s'.tps[m]? = some tp' → ∃ y : Tp, s.tps[m]? = some y ∧
        (tp'.cbAt = y.cbAt ∨ y.st = .added) ∧ (tp'.addAt = y.addAt ∨ (y.st = .adding ∧ tp'.addAt = s.clock)) := by
      intro m hm tp' htp'
      rw [hset, get_set_tp _ _ _ _ _ htp] at htp'
      by_cases hmp : m = p
      · rw [if_pos hmp] at htp'; cases htp'
        subst hmp
        refine ⟨tp, htp, ?_, ?_⟩
        · cases chg with
          | same h1 h2 h3 => exact Or.inl h3
          | call h0 h1 h2 h3 h4 => exact Or.inl h4
          | inc h1 h2 h3 h4 => exact Or.inl h4
          | det h0 h1 h2 h3 h4 => exact Or.inr h1
          | dec h1 h2 h3 h4 => exact Or.inl h4
          | early he' =>
            obtain ⟨k, hk, hget⟩ := List.getElem_of_mem hm
            obtain ⟨y, hy, hye, _⟩ := hci.mem k m (by rw [List.getElem?_eq_getElem hk, hget])
            rw [htp] at hy; cases hy
            rw [he'] at hye; cases hye
          | ndet h0 h1 h2 h3 h4 => exact Or.inr h1
          | ndec h0 h1 h2 h3 h4 => exact Or.inl h4
        · cases chg with
          | same h1 h2 h3 => exact Or.inl h2
          | call h0 h1 h2 h3 h4 => exact Or.inl h3
          | inc h1 h2 h3 h4 => exact Or.inr ⟨h1, h3⟩
          | det h0 h1 h2 h3 h4 => exact Or.inl h3
          | dec h1 h2 h3 h4 => exact Or.inl h3
          | early he' =>
            obtain ⟨k, hk, hget⟩ := List.getElem_of_mem hm
            obtain ⟨y, hy, hye, _⟩ := hci.mem k m (by rw [List.getElem?_eq_getElem hk, hget])
            rw [htp] at hy; cases hy
            rw [he'] at hye; cases hye
          | ndet h0 h1 h2 h3 h4 => exact Or.inl h3
          | ndec h0 h1 h2 h3 h4 => exact Or.inl h3
      · rw [if_neg hmp] at htp'; exact ⟨tp', htp', Or.inl rfl, Or.inl rfl⟩
    refine ⟨?_, cs_frame hcs hci hS.tpok hselfrel hmemst⟩
    show CI s'.tps c
    cases chg with
    | same h1 h2 h3 => exact ci_set_frame hci htp hset (Or.inr ⟨Or.inl h1, h2, h3, hearly⟩)
    | call h0 h1 h2 h3 h4 =>
      rcases h0 with ⟨t, e⟩ | ⟨t, e⟩
      · exact ci_set_frame hci htp hset (Or.inl (hcall t p (Or.inl e)))
      · exact ci_set_frame hci htp hset (Or.inl (hcall t p (Or.inr e)))
    | inc h1 h2 h3 h4 =>
      by_cases hm : p ∈ c.members
      · exact ci_set_inc hci hS.tpok hnd htp hset hm h1 h2 h3 h4 hearly
      · exact ci_set_frame hci htp hset (Or.inl hm)
    | det h0 h1 h2 h3 h4 =>
      obtain ⟨t, e⟩ := h0
      exact ci_set_frame hci htp hset (Or.inl (hdet t p e).1)
    | dec h1 h2 h3 h4 => exact ci_set_frame hci htp hset (Or.inr ⟨Or.inr (Or.inl ⟨h1, h2⟩), h3, h4, hearly⟩)
    | early he' =>
      by_cases hm : p ∈ c.members
      · obtain ⟨k, hk, hget⟩ := List.getElem_of_mem hm
        obtain ⟨y, hy, hye, _⟩ := hci.mem k p (by rw [List.getElem?_eq_getElem hk, hget])
        rw [htp] at hy; cases hy
        rw [he'] at hye; cases hye
      · exact ci_set_frame hci htp hset (Or.inl hm)
    | ndet h0 h1 h2 h3 h4 =>
      by_cases hm : p ∈ c.members
      · exact ci_set_ndet hci hS.tpok hnd htp hset h1 h2 h3 hearly
      · exact ci_set_frame hci htp hset (Or.inl hm)
    | ndec h0 h1 h2 h3 h4 =>
      by_cases hm : p ∈ c.members
      · obtain ⟨t, rest, e, hn⟩ := h0
        exact ci_set_frame hci htp hset (Or.inr ⟨Or.inr (Or.inr ⟨h1, h2, hndec t rest p e hn hm⟩), h3, h4, hearly⟩)
      · exact ci_set_frame hci htp hset (Or.inl hm)

theorem gi_ctx {cs : CSt} {tr : Tr} {s' : St} (h : GI cs) (ha : ctxAllowed cs tr = true) (hs : step? cs.base tr = some s') :
    GI { cs with base := s' } := by
  refine ⟨inv_step h.inv hs, sinv_step h.inv h.sinv hs, h.nodup, h.snodup, h.sown, ?_, ?_⟩
  all_goals
    intro i c hc
    have hcm : c ∈ cs.comps := List.mem_of_getElem? hc
    have hmemall : ∀ p, p ∈ c.members → p ∈ allMembers cs.comps := fun p hm => mem_allMembers hc hm
    have hself_in : c.self ∈ allSelfs cs.comps := mem_allSelfs hc
    have key := cics_step (c := c) h.inv h.sinv hs (h.ci i c hc) (h.cself i c hc) (nodup_members h.nodup hc) (h.sown c hcm)
      (by
        intro t p e; subst e
        have := ha; simp [ctxAllowed] at this
        exact ⟨fun hm => this.1 (hmemall p hm), fun e => this.2 (e ▸ hself_in)⟩)
      (by
        intro t p e
        rcases e with e | e
        · subst e
          have := not_mem_of_contains (by simpa [ctxAllowed] using ha)
          exact fun hm => this (hmemall p hm)
        · subst e; simp [ctxAllowed] at ha)
      (by intro t e; subst e; simp [ctxAllowed] at ha)
      (by intro t n e; subst e; simp [ctxAllowed] at ha)
      (by
        intro t e; subst e
        have := ha; simp [ctxAllowed] at this
        exact this hself_in)
      (by
        intro t rest q e hn hq i' hi'
        subst e
        have := ha
        simp only [ctxAllowed, hn, Option.getD_some] at this
        have hall := List.all_eq_true.1 this c hcm
        simp only [Bool.or_eq_true, Bool.not_eq_true', List.contains_eq_mem, decide_eq_false_iff_not, decide_eq_true_eq] at hall
        rcases hall with hno | hin
        · exact absurd hq hno
        · exact take_lt_of_nodup (nodup_members h.nodup hc) hin hi')
  · exact key.1
  · exact key.2

end ParsecVerif.Compound
