import ParsecVerif.Proofs.CompoundInv
/-! The global invariant of the compound machine and its preservation by every transition. -/
namespace ParsecVerif.Compound
open ParsecVerif.Context

structure GI (cs : CSt) : Prop where
  inv : Inv cs.base
  sinv : SInv cs.base
  nodup : (allMembers cs.comps).Nodup
  ci : ∀ (i : Nat) (c : Comp), cs.comps[i]? = some c → CI cs.base.tps c

theorem not_mem_of_contains {l : List Nat} {q : Nat} (h : (!l.contains q) = true) : q ∉ l := by
  simpa using h

theorem gi_ctx {cs : CSt} {tr : Tr} {s' : St} (h : GI cs) (ha : ctxAllowed cs tr = true) (hs : step? cs.base tr = some s') :
    GI { cs with base := s' } := by
  refine ⟨inv_step h.inv hs, sinv_step h.inv h.sinv hs, h.nodup, ?_⟩
  intro i c hc
  have hci := h.ci i c hc
  rcases step?_chg h.inv h.sinv hs with e | ⟨p, tp, x, htp, hset, hearly, chg⟩
  · show CI s'.tps c
    rw [e]; exact hci
  · show CI s'.tps c
    have hmemall : p ∈ c.members → p ∈ allMembers cs.comps := fun hm => mem_allMembers hc hm
    cases chg with
    | same h1 h2 h3 => exact ci_set_frame hci htp hset (Or.inr ⟨Or.inl h1, h2, h3, hearly⟩)
    | call h0 h1 h2 h3 h4 =>
      rcases h0 with ⟨t, rfl⟩ | ⟨t, rfl⟩
      · have := not_mem_of_contains (by simpa [ctxAllowed] using ha)
        exact ci_set_frame hci htp hset (Or.inl (fun hm => this (hmemall hm)))
      · simp [ctxAllowed] at ha
    | inc h1 h2 h3 h4 =>
      by_cases hm : p ∈ c.members
      · exact ci_set_inc hci h.sinv.tpok (nodup_members h.nodup hc) htp hset hm h1 h2 h3 h4 hearly
      · exact ci_set_frame hci htp hset (Or.inl hm)
    | det h0 h1 h2 h3 h4 =>
      obtain ⟨t, rfl⟩ := h0
      have := not_mem_of_contains (by simpa [ctxAllowed] using ha)
      exact ci_set_frame hci htp hset (Or.inl (fun hm => this (hmemall hm)))
    | dec h1 h2 h3 h4 => exact ci_set_frame hci htp hset (Or.inr ⟨Or.inr ⟨h1, h2⟩, h3, h4, hearly⟩)
    | early he =>
      by_cases hm : p ∈ c.members
      · obtain ⟨k, hk, hget⟩ := List.getElem_of_mem hm
        obtain ⟨y, hy, hye, _⟩ := hci.mem k p (by rw [List.getElem?_eq_getElem hk, hget])
        rw [htp] at hy; cases hy
        rw [he] at hye; cases hye
      · exact ci_set_frame hci htp hset (Or.inl hm)

end ParsecVerif.Compound
