import ParsecVerif.Proofs.CompoundInv
import ParsecVerif.Proofs.CompoundSelf
/-! The global invariant of the compound machine: context invariants, the chain of members of every
    compound (`CI`), the descriptor of every compound object (`CS`); preservation by context moves. -/
namespace ParsecVerif.Compound
open ParsecVerif.Context

/-- the compound object: no task, pending count = the machine's `pending`, armed and added while some
    member remains, in or past its (nested) callback once all members completed, and its callback stamp
    is later than the callback stamp of the last member -/
structure CS (l : List Tp) (c : Comp) : Prop where
  ne : 1 ≤ c.members.length
  ex : ∃ ts : Tp, l[c.self]? = some ts ∧ ts.total = 0 ∧ ts.early = false ∧ SelfSt ts.st ∧ (ts.pend : Int) = c.pending ∧
      (0 < c.pending → ts.st = .added ∧ ts.ready = true) ∧
      (c.completed = c.members.length → ts.st = .inCbN ∨ ts.st = .done) ∧
      (c.completed < c.members.length → ts.cbAt = 0 ∧ ts.cbs = 0) ∧
      (ts.cbAt ≠ 0 → ∀ (ml : Nat) (tl : Tp), c.members[c.members.length - 1]? = some ml → l[ml]? = some tl →
          tl.cbAt ≠ 0 ∧ tl.cbAt < ts.cbAt)

structure GI (cs : CSt) : Prop where
  inv : Inv cs.base
  sinv : SInv cs.base
  nodup : (allMembers cs.comps).Nodup
  snodup : (allSelfs cs.comps).Nodup
  sdisj : ∀ c ∈ cs.comps, c.self ∉ allMembers cs.comps
  ci : ∀ (i : Nat) (c : Comp), cs.comps[i]? = some c → CI cs.base.tps c
  cself : ∀ (i : Nat) (c : Comp), cs.comps[i]? = some c → CS cs.base.tps c

theorem not_mem_of_contains {l : List Nat} {q : Nat} (h : (!l.contains q) = true) : q ∉ l := by
  simpa using h

theorem mem_allSelfs {comps : List Comp} {i : Nat} {c : Comp} (hc : comps[i]? = some c) : c.self ∈ allSelfs comps :=
  List.mem_map.2 ⟨c, List.mem_of_getElem? hc, rfl⟩

/-- the object keeps satisfying `CS` when its descriptor moves by `SelfRel` and the last member keeps its callback stamp -/
theorem cs_frame {l l' : List Tp} {c : Comp} (h : CS l c)
    (hself : ∀ ts : Tp, l[c.self]? = some ts → ∃ ts' : Tp, l'[c.self]? = some ts' ∧ SelfRel ts ts')
    (hmem : ∀ m ∈ c.members, ∀ tp' : Tp, l'[m]? = some tp' → ∃ tp : Tp, l[m]? = some tp ∧ tp'.cbAt = tp.cbAt) : CS l' c := by
  obtain ⟨ts, hts, h0, he, hss, hp, h1, h2, h3, h4⟩ := h.ex
  obtain ⟨ts', hts', r0, re, rp, rc, rcb, rss, rst⟩ := hself ts hts
  refine ⟨h.ne, ts', hts', r0, re, rss, by rw [rp]; exact hp, ?_, ?_, ?_, ?_⟩
  · intro hpos
    obtain ⟨a1, a2⟩ := h1 hpos
    rcases rst with ⟨e1, e2⟩ | ⟨e1, _⟩ | ⟨e1, _⟩ | ⟨e1, _⟩
    · exact ⟨e1.trans a1, by rcases e2 with e | e; exact e.trans a2; exact e⟩
    · rw [a1] at e1; cases e1
    · rw [a1] at e1; cases e1
    · rw [a1] at e1; cases e1
  · intro hc
    rcases h2 hc with a | a
    · rcases rst with ⟨e1, _⟩ | ⟨e1, _⟩ | ⟨e1, _⟩ | ⟨_, e2⟩
      · exact Or.inl (e1.trans a)
      · rw [a] at e1; cases e1
      · rw [a] at e1; cases e1
      · exact Or.inr e2
    · rcases rst with ⟨e1, _⟩ | ⟨e1, _⟩ | ⟨e1, _⟩ | ⟨e1, _⟩
      · exact Or.inr (e1.trans a)
      · rw [a] at e1; cases e1
      · rw [a] at e1; cases e1
      · rw [a] at e1; cases e1
  · intro hc; rw [rc, rcb]; exact h3 hc
  · intro hcb ml tl hml htl
    rw [rc] at hcb ⊢
    obtain ⟨x, hx, e⟩ := hmem ml (List.mem_of_getElem? hml) tl htl
    rw [e]; exact h4 hcb ml x hml hx

/-- under a context move allowed by the compound machine every member keeps its callback stamp -/
theorem member_cbAt_chg {s : St} {tr : Tr} {p : Nat} {tp x : Tp} {c : Comp} (hci : CI s.tps c) (htp : s.tps[p]? = some tp)
    (hpm : p ∈ c.members) (hnd : ∀ t, tr ≠ .detect t p) (hna : ∀ t, tr ≠ .actionDone t p) (chg : Chg s tr p tp x) :
    x.cbAt = tp.cbAt := by
  cases chg with
  | same h1 h2 h3 => exact h3
  | call h0 h1 h2 h3 h4 => exact h4
  | inc h1 h2 h3 h4 => exact h4
  | det h0 h1 h2 h3 h4 => obtain ⟨t, rfl⟩ := h0; exact absurd rfl (hnd t)
  | dec h1 h2 h3 h4 => exact h4
  | early he =>
    obtain ⟨k, hk, hget⟩ := List.getElem_of_mem hpm
    obtain ⟨y, hy, hye, _⟩ := hci.mem k p (by rw [List.getElem?_eq_getElem hk, hget])
    rw [htp] at hy; cases hy
    rw [he] at hye; cases hye
  | ndet h0 h1 h2 h3 h4 => obtain ⟨t, rfl⟩ := h0; exact absurd rfl (hna t)
  | ndec h1 h2 h3 h4 => exact h4

theorem gi_ctx {cs : CSt} {tr : Tr} {s' : St} (h : GI cs) (ha : ctxAllowed cs tr = true) (hs : step? cs.base tr = some s') :
    GI { cs with base := s' } := by
  have hnsr : ∀ t n, tr ≠ .startupReady t n := by intro t n e; subst e; simp [ctxAllowed] at ha
  have hnad : ∀ t p, tr ≠ .actionDone t p := by intro t p e; subst e; simp [ctxAllowed] at ha
  have hnsa : ∀ t p, tr ≠ .startupAdd t p := by intro t p e; subst e; simp [ctxAllowed] at ha
  refine ⟨inv_step h.inv hs, sinv_step h.inv h.sinv hs, h.nodup, h.snodup, h.sdisj, ?_, ?_⟩
  · intro i c hc
    have hci := h.ci i c hc
    rcases step?_chg h.inv h.sinv hs with e | ⟨p, tp, x, htp, hset, hearly, chg⟩
    · show CI s'.tps c
      rw [e]; exact hci
    · show CI s'.tps c
      have hmemall : p ∈ c.members → p ∈ allMembers cs.comps := fun hm => mem_allMembers hc hm
      cases chg with
      | same h1 h2 h3 => exact ci_set_frame hci htp hset (Or.inr ⟨Or.inl h1, h2, h3, hearly⟩)
      | call h0 h1 h2 h3 h4 =>
        rcases h0 with ⟨t, rfl⟩ | ⟨t, rfl⟩
        · have := not_mem_of_contains (by simpa [ctxAllowed] using ha)
          exact ci_set_frame hci htp hset (Or.inl (fun hm => this (hmemall hm)))
        · simp [ctxAllowed] at ha
      | inc h1 h2 h3 h4 =>
        by_cases hm : p ∈ c.members
        · exact ci_set_inc hci h.sinv.tpok (nodup_members h.nodup hc) htp hset hm h1 h2 h3 h4 hearly
        · exact ci_set_frame hci htp hset (Or.inl hm)
      | det h0 h1 h2 h3 h4 =>
        obtain ⟨t, rfl⟩ := h0
        have := not_mem_of_contains (by have := ha; simp [ctxAllowed] at this; simpa using this.1)
        exact ci_set_frame hci htp hset (Or.inl (fun hm => this (hmemall hm)))
      | dec h1 h2 h3 h4 => exact ci_set_frame hci htp hset (Or.inr ⟨Or.inr ⟨h1, h2⟩, h3, h4, hearly⟩)
      | early he =>
        by_cases hm : p ∈ c.members
        · obtain ⟨k, hk, hget⟩ := List.getElem_of_mem hm
          obtain ⟨y, hy, hye, _⟩ := hci.mem k p (by rw [List.getElem?_eq_getElem hk, hget])
          rw [htp] at hy; cases hy
          rw [he] at hye; cases hye
        · exact ci_set_frame hci htp hset (Or.inl hm)
      | ndet h0 h1 h2 h3 h4 => obtain ⟨t, rfl⟩ := h0; exact absurd rfl (hnad t p)
      | ndec h1 h2 h3 h4 =>
        by_cases hm : p ∈ c.members
        · obtain ⟨k, hk, hget⟩ := List.getElem_of_mem hm
          obtain ⟨y, hy, _, b2, b3, b4⟩ := hci.mem k p (by rw [List.getElem?_eq_getElem hk, hget])
          rw [htp] at hy; cases hy
          rcases Nat.lt_trichotomy k c.completed with hlt | heq | hgt
          · rcases b2 hlt with e | e <;> rw [h1] at e <;> cases e
          · rcases (b4 heq).1 with e | e | e <;> rw [h1] at e <;> cases e
          · have := b3 hgt; rw [h1] at this; cases this
        · exact ci_set_frame hci htp hset (Or.inl hm)
  · intro i c hc
    have hcs := h.cself i c hc
    have hci := h.ci i c hc
    show CS s'.tps c
    obtain ⟨ts, hts, h0, he, hss, _⟩ := hcs.ex
    have hself_in : c.self ∈ allSelfs cs.comps := mem_allSelfs hc
    apply cs_frame hcs
    · intro ts0 hts0
      rw [hts] at hts0; cases hts0
      refine step?_self h.inv hs hts h0 he hss ?_ ?_ hnsr hnad hnsa
      · intro t e; subst e
        have := ha; simp [ctxAllowed] at this
        exact this.2 hself_in
      · intro t e; subst e
        have := ha; simp [ctxAllowed] at this
        exact this hself_in
    · intro m hm tp' htp'
      rcases step?_chg h.inv h.sinv hs with e | ⟨p, tp, x, htp, hset, hearly, chg⟩
      · rw [e] at htp'; exact ⟨tp', htp', rfl⟩
      · rw [hset, get_set_tp _ _ _ _ _ htp] at htp'
        by_cases hmp : m = p
        · rw [if_pos hmp] at htp'; cases htp'
          subst hmp
          have hmall := mem_allMembers hc hm
          refine ⟨tp, htp, member_cbAt_chg hci htp hm ?_ (fun t => hnad t m) chg⟩
          intro t e; subst e
          have := ha; simp [ctxAllowed] at this
          exact this.1 hmall
        · rw [if_neg hmp] at htp'; exact ⟨tp', htp', rfl⟩

end ParsecVerif.Compound
