import ParsecVerif.Proofs.TermdetLocalStep1
import ParsecVerif.Proofs.TermdetLocalStep2
import ParsecVerif.Proofs.TermdetLocalStep3
import ParsecVerif.Proofs.TermdetLocalStep4
import ParsecVerif.Proofs.TermdetLocalStep5
/-! The invariant holds in every state reachable under the usage protocol. -/
namespace ParsecVerif.TermdetLocal

/-- one protocol-respecting step of one thread preserves the invariant, whatever the other threads are -/
theorem local_step (sh : Shared) (th : Thread) (S S' : Sums)
    (hI : Inv' sh S) (hF : Facts S (W th)) (hen : enabled sh th)
    (hM : Moves S S' (W th) (W (tstep sh th).2)) : Inv' (tstep sh th).1 S' := by
  cases hpc : th.pc with
  | idle =>
    cases hs : th.script with
    | nil => exact local_idle_nil sh th S S' hpc hs hI hF hen hM
    | cons op rest =>
      cases op with
      | ready => exact local_idle_ready sh th S S' rest hpc hs hI hF hen hM
      | addT v => exact local_idle_addT sh th S S' v rest hpc hs hI hF hen hM
      | addA v => exact local_idle_addA sh th S S' v rest hpc hs hI hF hen hM
      | setT v => exact local_idle_setT sh th S S' v rest hpc hs hI hF hen hM
      | setA v => exact local_idle_setA sh th S S' v rest hpc hs hI hF hen hM
      | state => exact local_idle_state sh th S S' rest hpc hs hI hF hen hM
      | put c k =>
        cases c with
        | T => exact local_idle_putT sh th S S' k rest hpc hs hI hF hen hM
        | A => exact local_idle_putA sh th S S' k rest hpc hs hI hF hen hM
        | K => exact local_idle_putK sh th S S' k rest hpc hs hI hF hen hM
      | take c k =>
        cases c with
        | T => exact local_idle_takeT sh th S S' k rest hpc hs hI hF hen hM
        | A => exact local_idle_takeA sh th S S' k rest hpc hs hI hF hen hM
        | K => exact local_idle_takeK sh th S S' k rest hpc hs hI hF hen hM
  | rCas1 => exact local_rCas1 sh th S S' hpc hI hF hen hM
  | rRetain => exact local_rRetain sh th S S' hpc hI hF hen hM
  | tFa v => exact local_tFa sh th S S' v hpc hI hF hen hM
  | tInc r => exact local_tInc sh th S S' r hpc hI hF hen hM
  | tDec r => exact local_tDec sh th S S' r hpc hI hF hen hM
  | aFa v => exact local_aFa sh th S S' v hpc hI hF hen hM
  | sCas v ov => exact local_sCas sh th S S' v ov hpc hI hF hen hM
  | aCas v ov => exact local_aCas sh th S S' v ov hpc hI hF hen hM
  | dCas2 r => exact local_dCas2 sh th S S' r hpc hI hF hen hM
  | dCas3 r => exact local_dCas3 sh th S S' r hpc hI hF hen hM
  | dRel r => exact local_dRel sh th S S' r hpc hI hF hen hM

theorem inv_step (s : State) (t : Nat) (h : Inv s) (he : okStep s t) : Inv (step s t) := by
  unfold step okStep at *
  cases hth : s.ths[t]? with
  | none => simpa [hth] using h
  | some th =>
    simp only [hth] at he ⊢
    obtain ⟨hi, hx⟩ := getElem_of_getElem? hth
    have hM := moves_total s.ths t (tstep s.sh th).2 hi
    have hF := facts_total s.ths t hi
    rw [hx] at hM hF
    exact local_step s.sh th _ _ h hF he hM

theorem total_init (scripts : List (List Op)) :
    total (scripts.map mkThread) = ⟨0, 0, 0, 0, 0, 0, 0, 0, 0, 0, 0, 0⟩ := by
  have hz : ∀ (f : Thread → Nat), (∀ sc, f (mkThread sc) = 0) → sumBy f (scripts.map mkThread) = 0 := by
    intro f hf
    apply sumBy_zero
    intro th hm
    obtain ⟨sc, _, rfl⟩ := List.mem_map.1 hm
    exact hf sc
  simp only [total]
  rw [hz wT (fun _ => rfl), hz wA (fun _ => rfl), hz wK (fun _ => rfl), hz wInc (fun _ => rfl), hz wBad (fun _ => rfl),
      hz wDec (fun _ => rfl), hz wC2 (fun _ => rfl), hz wC3 (fun _ => rfl), hz wRet (fun _ => rfl), hz wRel (fun _ => rfl),
      hz wFT (fun _ => rfl), hz wFA (fun _ => rfl)]

theorem inv_init (scripts : List (List Op)) : Inv (init scripts) := by
  unfold Inv init
  simp only [total_init]
  refine ⟨?_, ?_, ?_, ?_, ?_, ?_, ?_, ?_, ?_, ?_, ?_⟩ <;> simp [sh0]

/-- states reachable from the initial state by protocol-respecting steps, any schedule -/
inductive Reach (scripts : List (List Op)) : State → Prop
  | init : Reach scripts (init scripts)
  | step (s : State) (t : Nat) : Reach scripts s → okStep s t → Reach scripts (step s t)

theorem inv_reach (scripts : List (List Op)) (s : State) (h : Reach scripts s) : Inv s := by
  induction h with
  | init => exact inv_init scripts
  | step s t _ he ih => exact inv_step s t ih he

/-- executable form: a schedule all of whose steps respect the protocol reaches a `Reach` state -/
theorem reach_run (scripts : List (List Op)) (s : State) (sched : List Nat)
    (h : Reach scripts s) (hok : okRun s sched = true) : Reach scripts (run s sched) := by
  induction sched generalizing s with
  | nil => simpa [run] using h
  | cons t r ih =>
    simp only [okRun, Bool.and_eq_true, decide_eq_true_eq] at hok
    simp only [run, List.foldl_cons]
    exact ih (step s t) (Reach.step s t h hok.1) hok.2

end ParsecVerif.TermdetLocal
