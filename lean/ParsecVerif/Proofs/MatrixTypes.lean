import ParsecVerif.Model.MatrixTypes
/-!
  Helper lemmas for C19 (core Lean only): list algebra over `List.range`, max/min of lists,
  closed forms of the typemaps of `contiguous`/`vector`/`indexed` over one basic element, and the
  two triangle branches of `parsec_matrix_define_triangle`.
-/
namespace ParsecVerif.MatrixTypes

theorem mapM_some {α β : Type} (f : α → Option β) (g : α → β) :
    ∀ (l : List α), (∀ x ∈ l, f x = some (g x)) → l.mapM f = some (l.map g)
  | [], _ => rfl
  | a :: t, h => by
    rw [List.mapM_cons, h a (by simp), mapM_some f g t (fun x hx => h x (by simp [hx]))]
    rfl

theorem place_elem_offs (ps : List Nat) : (place elem ps).offs = ps := by
  simp [place, elem]

theorem elem_extent : elem.extent = 1 := rfl

theorem filter_lt_range (c : Nat) : ∀ m, (List.range m).filter (fun i => decide (i < c)) = List.range (min c m)
  | 0 => by simp
  | m+1 => by
    rw [List.range_succ, List.filter_append, filter_lt_range c m]
    by_cases h : m < c
    · have : min c (m+1) = m + 1 := by omega
      rw [this, List.range_succ]
      have : min c m = m := by omega
      simp [this, h]
    · have : min c (m+1) = min c m := by omega
      simp [this, h]

theorem filter_le_range (c : Nat) : ∀ m, (List.range m).filter (fun i => decide (c ≤ i)) = (List.range (m - c)).map (fun k => c + k)
  | 0 => by simp
  | m+1 => by
    rw [List.range_succ, List.filter_append, filter_le_range c m]
    by_cases h : c ≤ m
    · have : m + 1 - c = (m - c) + 1 := by omega
      rw [this, List.range_succ, List.map_append]
      simp [h]
    · have : m + 1 - c = m - c := by omega
      simp [this, h]

theorem flatMap_range_extend {β : Type} (f : Nat → List β) (a : Nat) :
    ∀ b, a ≤ b → (∀ j, a ≤ j → j < b → f j = []) → (List.range b).flatMap f = (List.range a).flatMap f := by
  intro b
  induction b with
  | zero => intro h _; have : a = 0 := by omega
            subst this; rfl
  | succ b ih =>
    intro h hz
    by_cases hab : a = b + 1
    · subst hab; rfl
    · rw [List.range_succ, List.flatMap_append, ih (by omega) (fun j h1 h2 => hz j h1 (by omega))]
      simp [hz b (by omega) (by omega)]


theorem flatMap_range_shift {β : Type} (f : Nat → List β) (d n : Nat) (hz : ∀ j, j < d → f j = []) :
    (List.range n).flatMap f = (List.range (n - d)).flatMap (fun k => f (d + k)) := by
  by_cases h : d ≤ n
  · have : n = d + (n - d) := by omega
    conv => lhs; rw [this, List.range_add, List.flatMap_append]
    have h0 : (List.range d).flatMap f = [] := by
      rw [List.flatMap_eq_nil_iff]; intro x hx; exact hz x (List.mem_range.1 hx)
    rw [h0, List.nil_append, List.flatMap_map]
  · have : n - d = 0 := by omega
    rw [this]
    simp only [List.range_zero, List.flatMap_nil]
    rw [List.flatMap_eq_nil_iff]; intro x hx; exact hz x (by have := List.mem_range.1 hx; omega)

theorem readBlocks_fill (size lo hi shift count : Nat) (f g : Nat → Nat)
    (h : ∀ k, k < count → lo ≤ shift + k ∧ shift + k < hi ∧ hi ≤ size) :
    readBlocks (CArr.fill size lo hi f) (CArr.fill size lo hi g) shift count
      = some ((List.range count).map (fun k => (f (shift + k), g (shift + k)))) := by
  unfold readBlocks
  apply mapM_some
  intro k hk
  have hk := h k (List.mem_range.1 hk)
  have a1 : shift + k < size := by omega
  have a2 : lo ≤ shift + k ∧ shift + k < hi := by omega
  simp [CArr.read, CArr.fill, a1, a2]

theorem indexed_elem_offs (blocks : List (Nat × Nat)) :
    (indexed blocks elem).offs = blocks.flatMap (fun b => (List.range b.1).map (fun k => b.2 + k)) := by
  simp [indexed, place_elem_offs, elem_extent]


theorem flatMap_congr' {α β : Type} (f g : α → List β) :
    ∀ (l : List α), (∀ x ∈ l, f x = g x) → l.flatMap f = l.flatMap g
  | [], _ => rfl
  | a :: t, h => by
    rw [List.flatMap_cons, List.flatMap_cons, h a (by simp), flatMap_congr' f g t (fun x hx => h x (by simp [hx]))]

theorem flip_cases (diag : Int) : (diag = 0 ∧ flip diag = 1) ∨ (diag ≠ 0 ∧ flip diag = 0) := by
  unfold flip; by_cases h : diag = 0 <;> simp [h]

/-- upper region, column j, with d = flipped diag -/
theorem upper_col (diag : Int) (m j : Nat) :
    (List.range m).filter (fun i => inRegion UPPER (decide (diag ≠ 0)) i j)
      = List.range (if j + 1 - flip diag < m then j + 1 - flip diag else m) := by
  have e : (fun i => inRegion UPPER (decide (diag ≠ 0)) i j) = (fun i => decide (i < j + 1 - flip diag)) := by
    funext i
    rcases flip_cases diag with ⟨h, hf⟩ | ⟨h, hf⟩
    · rw [hf]; simp [inRegion, h]
    · rw [hf]; simp [inRegion, h]; omega
  rw [e, filter_lt_range]
  congr 1
  split <;> omega

theorem lower_col (diag : Int) (m j : Nat) :
    (List.range m).filter (fun i => inRegion LOWER (decide (diag ≠ 0)) i j)
      = (List.range (m - j - flip diag)).map (fun k => j + flip diag + k) := by
  have e : (fun i => inRegion LOWER (decide (diag ≠ 0)) i j) = (fun i => decide (j + flip diag ≤ i)) := by
    funext i
    rcases flip_cases diag with ⟨h, hf⟩ | ⟨h, hf⟩
    · rw [hf]; simp [inRegion, h, LOWER, UPPER]; omega
    · rw [hf]; simp [inRegion, h, LOWER, UPPER]
  rw [e, filter_le_range]
  have : m - (j + flip diag) = m - j - flip diag := by omega
  rw [this]

theorem flip_le_one (diag : Int) : flip diag ≤ 1 := by unfold flip; split <;> omega

theorem triangle_upper (diag : Int) (m n ld : Nat) :
    ∃ t, defineTriangle UPPER diag m n ld = .ok t ∧
      t.offs = regionOffsets UPPER (decide (diag ≠ 0)) m n ld ∧ t.lb = 0 ∧ t.ub = ld * n := by
  have hr := readBlocks_fill n (flip diag) n (flip diag) (n - flip diag)
    (fun i => if i + 1 - flip diag < m then i + 1 - flip diag else m) (fun i => i * ld)
    (by intro k hk; omega)
  refine ⟨resized (indexed ((List.range (n - flip diag)).map (fun k =>
      ((if flip diag + k + 1 - flip diag < m then flip diag + k + 1 - flip diag else m), (flip diag + k) * ld))) elem) 0 (ld * n),
    ?_, ?_, rfl, by simp [resized]⟩
  · simp only [defineTriangle, if_true, finishTriangle, upperBl, upperIx]
    rw [hr]
  · simp only [resized, indexed_elem_offs, regionOffsets, List.flatMap_map]
    rw [flatMap_range_shift _ (flip diag) n]
    · apply flatMap_congr'
      intro k _
      rw [upper_col]
    · intro j hj
      have := flip_le_one diag
      have : j = 0 ∧ flip diag = 1 := by omega
      rw [upper_col, this.1, this.2]
      simp


theorem lowerNmax_le (diag : Int) (m n : Nat) : lowerNmax diag m n ≤ n ∧ lowerNmax diag m n ≤ m - flip diag := by
  unfold lowerNmax; split <;> omega

theorem triangle_lower (diag : Int) (m n ld : Nat) :
    ∃ t, defineTriangle LOWER diag m n ld = .ok t ∧
      t.offs = regionOffsets LOWER (decide (diag ≠ 0)) m n ld ∧ t.lb = 0 ∧ t.ub = ld * n := by
  have hn := lowerNmax_le diag m n
  have hr := readBlocks_fill n 0 (lowerNmax diag m n) 0 (lowerNmax diag m n)
    (fun i => m - i - flip diag) (fun i => i * ld + i + flip diag)
    (by intro k hk; omega)
  refine ⟨resized (indexed ((List.range (lowerNmax diag m n)).map (fun k =>
      (m - (0 + k) - flip diag, (0 + k) * ld + (0 + k) + flip diag))) elem) 0 (ld * n),
    ?_, ?_, rfl, by simp [resized]⟩
  · simp only [defineTriangle, LOWER, UPPER, finishTriangle, lowerBl, lowerIx]
    rw [hr]
    simp
  · simp only [resized, indexed_elem_offs, regionOffsets, List.flatMap_map]
    rw [flatMap_range_extend _ (lowerNmax diag m n) n hn.1]
    · apply flatMap_congr'
      intro k _
      rw [lower_col, List.map_map, Nat.zero_add]
      apply List.map_congr_left
      intro x _
      simp only [Function.comp]
      omega
    · intro j hj1 hj2
      rw [lower_col]
      have : m - j - flip diag = 0 := by
        have : m - flip diag ≤ j ∨ n ≤ j := by unfold lowerNmax at hj1; split at hj1 <;> omega
        omega
      rw [this]; rfl


/-! max / min of lists -/
theorem foldl_max_ge (l : List Nat) : ∀ a, a ≤ l.foldl max a ∧ ∀ x ∈ l, x ≤ l.foldl max a := by
  induction l with
  | nil => intro a; simp
  | cons y t ih =>
    intro a
    have h := ih (max a y)
    refine ⟨by have := h.1; simp only [List.foldl_cons]; omega, ?_⟩
    intro x hx
    simp only [List.foldl_cons]
    rcases List.mem_cons.1 hx with rfl | hx
    · have := h.1; omega
    · exact h.2 x hx

theorem foldl_max_le (l : List Nat) (b : Nat) : ∀ a, a ≤ b → (∀ x ∈ l, x ≤ b) → l.foldl max a ≤ b := by
  induction l with
  | nil => intro a h _; simpa using h
  | cons y t ih =>
    intro a ha h
    simp only [List.foldl_cons]
    exact ih _ (by have := h y (by simp); omega) (fun x hx => h x (by simp [hx]))

theorem maxList_eq (l : List Nat) (b : Nat) (hle : ∀ x ∈ l, x ≤ b) (hmem : b ∈ l) : maxList l = b := by
  have h1 := foldl_max_le l b 0 (Nat.zero_le _) hle
  have h2 := (foldl_max_ge l 0).2 b hmem
  unfold maxList; omega

theorem foldl_min_le (l : List Nat) : ∀ a, l.foldl min a ≤ a := by
  induction l with
  | nil => intro a; simp
  | cons y t ih => intro a; simp only [List.foldl_cons]; have := ih (min a y); omega

theorem minList_zero (l : List Nat) (h : 0 ∈ l) : minList l = 0 := by
  cases l with
  | nil => rfl
  | cons a t =>
    simp only [minList]
    rcases List.mem_cons.1 h with h0 | h0
    · have := foldl_min_le t a; omega
    · -- 0 ∈ t
      have : ∀ (t : List Nat) a, 0 ∈ t → t.foldl min a = 0 := by
        intro t
        induction t with
        | nil => intro a h; simp at h
        | cons y t ih =>
          intro a h
          simp only [List.foldl_cons]
          rcases List.mem_cons.1 h with h1 | h1
          · have := foldl_min_le t (min a y); omega
          · exact ih _ h1
      exact this t a h0

theorem range_mul (ld : Nat) : ∀ n, (List.range n).flatMap (fun j => (List.range ld).map (fun i => j * ld + i)) = List.range (ld * n)
  | 0 => by simp
  | n+1 => by
    rw [List.range_succ, List.flatMap_append, range_mul ld n, Nat.mul_succ, List.range_add]
    simp [Nat.mul_comm]

theorem region_full (uplo : Nat) (h : ¬ (uplo = LOWER ∨ uplo = UPPER)) (wd : Bool) (m n ld : Nat) :
    regionOffsets uplo wd m n ld = (List.range n).flatMap (fun j => (List.range m).map (fun i => j * ld + i)) := by
  have e : (fun i j => inRegion uplo wd i j) = fun _ _ => true := by
    funext i j; unfold inRegion; rw [if_neg (fun h' => h (Or.inr h')), if_neg (fun h' => h (Or.inl h'))]
  unfold regionOffsets
  apply flatMap_congr'
  intro j _
  have : (fun i => inRegion uplo wd i j) = fun _ => true := by funext i; exact congrFun (congrFun e i) j
  rw [this]
  congr 1
  exact List.filter_eq_self.2 (fun _ _ => rfl)

theorem contiguous_elem (N : Nat) : (contiguous N elem).offs = List.range N ∧ (contiguous N elem).lb = 0 ∧
    (1 ≤ N → (contiguous N elem).ub = N) := by
  refine ⟨?_, ?_, ?_⟩
  · simp [contiguous, place_elem_offs, elem_extent]
  · simp only [contiguous, place, elem_extent]
    cases N with
    | zero => rfl
    | succ k => apply minList_zero; simp [elem]
  · intro hN
    simp only [contiguous, place, elem_extent]
    apply maxList_eq
    · intro x hx; simp [elem] at hx; omega
    · simp [elem]; exact ⟨N - 1, by omega, by omega⟩

theorem vector_elem (n m ld : Nat) :
    (vector n m ld elem).offs = (List.range n).flatMap (fun j => (List.range m).map (fun i => j * ld + i)) ∧
    (vector n m ld elem).lb = 0 ∧ (1 ≤ n → 1 ≤ m → (vector n m ld elem).ub = (n - 1) * ld + m) := by
  refine ⟨?_, ?_, ?_⟩
  · simp [vector, place_elem_offs, elem_extent]
  · simp only [vector, place, elem_extent]
    by_cases h : 1 ≤ n ∧ 1 ≤ m
    · apply minList_zero
      simp [elem]
      exact ⟨0, by omega, by omega, by simp⟩
    · have : (List.range n).flatMap (fun j => (List.range m).map (fun k => (j * ld + k) * 1)) = [] := by
        rw [List.flatMap_eq_nil_iff]; intro j hj
        have := List.mem_range.1 hj
        have : m = 0 := by omega
        subst this; rfl
      rw [this]; rfl
  · intro hn hm
    simp only [vector, place, elem_extent]
    apply maxList_eq
    · intro x hx
      simp [elem] at hx
      obtain ⟨a, ⟨j, hj, k, hk, rfl⟩, rfl⟩ := hx
      have : j * ld ≤ (n - 1) * ld := Nat.mul_le_mul_right _ (by omega)
      omega
    · simp [elem]
      exact ⟨(n - 1) * ld + (m - 1), ⟨n - 1, by omega, m - 1, by omega, rfl⟩, by omega⟩

end ParsecVerif.MatrixTypes
