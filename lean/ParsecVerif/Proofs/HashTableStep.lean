/-
  Every micro step preserves the invariant: for the stepping thread `u` (record `th`) and the outcome
  `o` of its step, `StepOk` says that the global invariant holds for the new store and thread list,
  that `u` knows what its new program point requires, and that every other thread between rdlock and
  rdunlock can rely on the change (`Rely`).
-/
import ParsecVerif.Proofs.HashTableThr

namespace ParsecVerif.HashTable

/-- what thread `u` may do to the store (implies `Rely t` for every other thread `t`) -/
structure Guar (u : Nat) (s m : Store) : Prop where
  top : m.top = s.top
  nb0 : m.nb0 = s.nb0
  hf : m.hf = s.hf
  lock : ∀ T b, (m.bk T b).lock = (s.bk T b).lock ∨ (s.bk T b).lock = 0 ∨ (s.bk T b).lock = u + 1
  items : ∀ T b it, it ∈ (m.bk T b).items → it ∈ (s.bk T b).items ∨
            (T = s.top ∧ b = s.hf it.key s.top ∧ ((s.bk T b).lock = 0 ∨ (s.bk T b).lock = u + 1))
  abs : ∀ it, it ∈ s.abs → it ∈ m.abs ∨ Stored s it

theorem Guar.rely {u t : Nat} {s m : Store} (g : Guar u s m) (h : t ≠ u) : Rely t s m := by
  refine ⟨g.top, g.nb0, g.hf, ?_, ?_, ?_, g.abs⟩
  · intro T b hl
    rcases g.lock T b with h1 | h1 | h1
    · rw [h1]; exact hl
    · rw [h1] at hl; cases hl
    · rw [h1] at hl; exact absurd (Nat.succ.inj hl).symm h
  · intro T b it hT hit
    rcases g.items T b it hit with h1 | ⟨h1, _, _⟩
    · exact h1
    · omega
  · intro b it hit hn
    rcases g.items s.top b it hit with h1 | ⟨_, h2, h3⟩
    · exact absurd h1 hn
    · refine ⟨h2, fun hl => ?_⟩
      rcases h3 with h3 | h3
      · rw [h3] at hl; cases hl
      · rw [h3] at hl; exact absurd (Nat.succ.inj hl).symm h

theorem Guar.same {u : Nat} {s m : Store} (e : SameStore s m)
    (hl : ∀ T b, (m.bk T b).lock = (s.bk T b).lock ∨ (s.bk T b).lock = 0 ∨ (s.bk T b).lock = u + 1)
    (ha : m.abs = s.abs) : Guar u s m :=
  ⟨e.top, e.nb0, e.hf, hl, fun T b it hit => Or.inl (by rw [e.items] at hit; exact hit), fun it hit => Or.inl (by rw [ha]; exact hit)⟩

structure StepOk (s : Store) (thr : List Thread) (u : Nat) (o : Out) : Prop where
  sinv : SInv o.m (thr.set u o.th)
  tinv : TInv o.m u o.th.op o.th.pc
  rely : ∀ t, t ≠ u → ∀ a, thr[t]? = some a → a.pc.isReader = true → Rely t s o.m

/-- the outcome given by its store and thread record -/
theorem StepOk.mk' {s : Store} {thr : List Thread} {u : Nat} {o : Out} (m : Store) (x : Thread) (hm : o.m = m) (hx : o.th = x)
    (sinv : SInv m (thr.set u x)) (tinv : TInv m u x.op x.pc)
    (rely : ∀ t, t ≠ u → ∀ a, thr[t]? = some a → a.pc.isReader = true → Rely t s m) : StepOk s thr u o := by
  subst hm; subst hx; exact ⟨sinv, tinv, rely⟩

theorem set_self {thr : List Thread} {u : Nat} {th : Thread} (hu : thr[u]? = some th) : thr.set u th = thr := by
  apply List.ext_getElem?
  intro i
  by_cases h : i = u
  · subst h; rw [get_set_self th hu, hu]
  · rw [get_set_ne th h]

theorem stepOk_stay {s : Store} {thr : List Thread} {u : Nat} {th : Thread} (hS : SInv s thr) (hu : thr[u]? = some th)
    (hT : TInv s u th.op th.pc) : StepOk s thr u (stay s th) := by
  refine ⟨?_, hT, fun t _ a _ _ => Rely.refl t s⟩
  show SInv s (thr.set u th)
  rw [set_self hu]; exact hS

/-! ## generic assembly of the parts that follow one pattern in most steps -/

theorem UsedInv.same {s m : Store} {thr : List Thread} (h : UsedInv s thr) {u : Nat} {th : Thread} (hu : thr[u]? = some th)
    (x : Thread) (htop : m.top = s.top) (hnb : m.nb0 = s.nb0)
    (hused : ∀ T, T < s.top → (m.tab T).used = (s.tab T).used)
    (hitems : ∀ T b, T < s.top → (m.bk T b).items = (s.bk T b).items)
    (hdu : ∀ T, x.pc.isDu T = th.pc.isDu T) : UsedInv m (thr.set u x) := by
  intro T h1 h2
  rw [hnb] at h1; rw [htop] at h2
  have := pendingDec_set hu x T
  rw [hdu T] at this
  have hc : m.usedCount T = s.usedCount T := usedCount_same (fun b => hitems T b h2)
  rw [hused T h2, hc, h T h1 h2]
  omega

theorem AbsInv.step {s m : Store} {thr : List Thread} (h : AbsInv s thr) {u : Nat} {th : Thread} (hu : thr[u]? = some th)
    (x : Thread)
    (hin : ∀ y, Stored m y → y ∈ m.abs)
    (hout : ∀ y, y ∈ m.abs → Stored m y ∨ (x.op.mv = true ∧ x.pc.inHand = some y) ∨
              (y ∈ s.abs ∧ ¬ Stored s y ∧ ¬ (th.op.mv = true ∧ th.pc.inHand = some y)))
    (hkeys : m.abs.Pairwise fun a b => a.key ≠ b.key) : AbsInv m (thr.set u x) := by
  refine ⟨hin, ?_, hkeys⟩
  intro y hy
  rcases hout y hy with h1 | ⟨h1, h2⟩ | ⟨h1, h2, h3⟩
  · exact Or.inl h1
  · exact Or.inr (InFlight.set_new hu x h1 h2)
  · rcases h.absOut y h1 with h4 | h4
    · exact absurd h4 h2
    · rcases h4.set_drop hu x with h5 | h5
      · exact Or.inr h5
      · exact absurd h5 h3

/-- the store observables and the ghost map are unchanged, the thread neither picks up nor drops an item -/
theorem AbsInv.same {s m : Store} {thr : List Thread} (h : AbsInv s thr) {u : Nat} {th : Thread} (hu : thr[u]? = some th)
    (x : Thread) (e : SameStore s m) (ha : m.abs = s.abs)
    (hh : ∀ y, th.op.mv = true → th.pc.inHand = some y → x.op.mv = true ∧ x.pc.inHand = some y) : AbsInv m (thr.set u x) := by
  refine ⟨?_, ?_, by rw [ha]; exact h.absKeys⟩
  · intro y hy; rw [ha]; exact h.absIn y ((e.stored y).1 hy)
  · intro y hy
    rw [ha] at hy
    rcases h.absOut y hy with h1 | h1
    · exact Or.inl ((e.stored y).2 h1)
    · exact Or.inr (h1.set_keep hu x (hh y))

/-- class of the new program point w.r.t. the read-write lock -/
theorem Excl.set_same {thr : List Thread} (h : Excl thr) {u : Nat} {th : Thread} (hu : thr[u]? = some th) (x : Thread)
    (hr : x.pc.isReader = true → th.pc.isReader = true) (hw : x.pc.isWriter = true → th.pc.isWriter = true) :
    Excl (thr.set u x) :=
  h.set hu x (fun a => Or.inl (hr a)) (fun a => Or.inl (hw a))

/-! ## status of the program points -/

theorem not_pendIns_of_pc {th : Thread} (h1 : th.pc ≠ .rd) (h2 : th.pc ≠ .lt) (k : Nat) : ¬ PendIns th k :=
  fun h => h.1.elim h1 h2

theorem not_pendIns_of_op {th : Thread} (h : NoIns th.op) (k : Nat) : ¬ PendIns th k := by
  rintro ⟨_, i, hi⟩; rw [hi] at h; exact h

theorem not_rmHold_of_linRes {th : Thread} (h : th.pc.linRes = none) (k : Nat) : ¬ RmHold th k := by
  rintro ⟨_, _, r, hr, _⟩; rw [h] at hr; cases hr

theorem not_rmHold_of_op {th : Thread} (h : ∀ k, th.op ≠ .rem k) (k : Nat) : ¬ RmHold th k :=
  fun hh => h k hh.1

/-- same operation, and the program point changes neither the waiting-`ins` status nor the result -/
theorem sameStatus_goto {th : Thread} {pc : Pc}
    (hp : (pc = .rd ∨ pc = .lt) ↔ (th.pc = .rd ∨ th.pc = .lt)) (hl : pc.linRes = th.pc.linRes) :
    SameStatus th (th.goto pc) := by
  refine ⟨fun k => ?_, fun k => ?_⟩
  · unfold PendIns Thread.goto; simp only; rw [hp]
  · unfold RmHold Thread.goto; simp only; rw [hl]

end ParsecVerif.HashTable
