import ParsecVerif.Proofs.RemoteDepEdges
/-! C13 helper lemmas, part 3: the forest invariant of the message machine (any delivery order),
    everybody is reached at quiescence, counting of delivered (receiver, output) pairs. -/
namespace ParsecVerif.RemoteDep

def dsts (l : List Msg) : List Nat := l.map Msg.dst

@[simp] theorem dsts_append (a b : List Msg) : dsts (a ++ b) = dsts a ++ dsts b := by simp [dsts]
@[simp] theorem dsts_cons (m : Msg) (l : List Msg) : dsts (m :: l) = m.dst :: dsts l := rfl
@[simp] theorem dsts_nil : dsts [] = [] := rfl

theorem dsts_msgs (c : Cfg) (p : Nat) : dsts (c.msgs p) = c.sends p := by
  unfold dsts Cfg.msgs
  rw [List.map_map]
  exact List.map_id' _

theorem mem_msgs {c : Cfg} {p : Nat} {m : Msg} :
    m ∈ c.msgs p ↔ ∃ d ∈ c.sends p, m = ⟨p, d, c.payload p d⟩ := by
  unfold Cfg.msgs
  simp only [List.mem_map]
  constructor
  · rintro ⟨d, hd, rfl⟩; exact ⟨d, hd, rfl⟩
  · rintro ⟨d, hd, rfl⟩; exact ⟨d, hd, rfl⟩

theorem mem_dsts {l : List Msg} {x : Nat} : x ∈ dsts l ↔ ∃ m ∈ l, m.dst = x := by
  simp [dsts]

theorem perm_aux (X S Y : List Nat) (d : Nat) : (X ++ (S ++ d :: Y)).Perm ((d :: (X ++ Y)) ++ S) :=
  ((List.Perm.append_left X List.perm_middle).trans List.perm_middle).trans
    (List.Perm.cons d (by
      show (X ++ (S ++ Y)).Perm ((X ++ Y) ++ S)
      rw [List.append_assoc]; exact List.Perm.append_left X List.perm_append_comm))

theorem imp_bool (S : List Nat) (x p : Nat) : (!S.contains x || S.contains p) = true ↔ (x ∈ S → p ∈ S) := by
  by_cases hx : x ∈ S <;> by_cases hp : p ∈ S <;> simp [hx, hp]

/-- The forest invariant: every message sent so far travels along an edge and carries the payload
    `remote_dep_mpi_pack_dep` selects; no rank is the target of two messages; a rank has been sent
    to exactly when its (unique) sender is the root or has received its own message. -/
structure Inv (c : Cfg) (s : St) : Prop where
  edge : ∀ m ∈ s.inflight ++ s.log, (m.src, m.dst) ∈ c.edges ∧ m.keys = c.payload m.src m.dst
  nodup : (dsts (s.inflight ++ s.log)).Nodup
  closed : ∀ p x, (p, x) ∈ c.edges → (x ∈ dsts (s.inflight ++ s.log) ↔ (p = c.root ∨ p ∈ dsts s.log))

theorem inv_init {c : Cfg} (h : c.WF) (ht : TreeChild c.child (2 ^ 32)) : Inv c c.init := by
  refine ⟨?_, ?_, ?_⟩
  · intro m hm
    simp only [Cfg.init, List.append_nil] at hm
    obtain ⟨d, hd, rfl⟩ := mem_msgs.1 hm
    exact ⟨(c.mem_sends_iff h _ _).1 hd, rfl⟩
  · simp only [Cfg.init, List.append_nil, dsts_msgs]
    exact c.sends_nodup h _
  · intro p x he
    simp only [Cfg.init, List.append_nil, dsts_msgs, dsts_nil, List.not_mem_nil, or_false]
    rw [c.mem_sends_iff h]
    constructor
    · intro he'; exact c.edge_unique h ht he he'
    · intro e; subst e; exact he

theorem inv_deliver {c : Cfg} (h : c.WF) (ht : TreeChild c.child (2 ^ 32)) (s : St) (m : Msg)
    (hi : Inv c s) : Inv c (c.deliver s m) := by
  unfold Cfg.deliver
  split
  case isFalse => exact hi
  case isTrue hm =>
    have hperm : s.inflight.Perm (m :: s.inflight.erase m) := List.perm_cons_erase hm
    have hpd : (dsts (s.inflight ++ s.log)).Perm (m.dst :: (dsts (s.inflight.erase m) ++ dsts s.log)) := by
      rw [dsts_append]
      exact (List.Perm.map Msg.dst hperm).append_right _
    have hnd := hpd.nodup_iff.1 hi.nodup
    have hmemA : ∀ y, y ∈ dsts (s.inflight ++ s.log) ↔ y ∈ m.dst :: (dsts (s.inflight.erase m) ++ dsts s.log) :=
      fun y => hpd.mem_iff
    have hdX : m.dst ∉ dsts (s.inflight.erase m) ++ dsts s.log := (List.nodup_cons.1 hnd).1
    have hedge_m := hi.edge m (List.mem_append_left _ hm)
    have hdmem : m.dst ∈ c.members := c.edge_dst hedge_m.1
    have hdroot : m.dst ≠ c.root := fun e => c.root_not_member h (e ▸ hdmem)
    -- the ranks the receiver forwards to have not been sent to before
    have hfresh : ∀ y, y ∈ c.sends m.dst → y ∉ dsts (s.inflight ++ s.log) := by
      intro y hy hyA
      have he := (c.mem_sends_iff h _ _).1 hy
      rcases (hi.closed _ _ he).1 hyA with e | hl
      · exact hdroot e
      · exact hdX (List.mem_append_right _ hl)
    have hnew : (dsts ((s.inflight.erase m ++ c.msgs m.dst) ++ (m :: s.log))).Perm
        ((m.dst :: (dsts (s.inflight.erase m) ++ dsts s.log)) ++ c.sends m.dst) := by
      simp only [dsts_append, dsts_cons, dsts_msgs, List.append_assoc]
      exact perm_aux _ _ _ _
    have hmemN : ∀ y, y ∈ dsts ((s.inflight.erase m ++ c.msgs m.dst) ++ (m :: s.log)) ↔
        (y ∈ dsts (s.inflight ++ s.log) ∨ y ∈ c.sends m.dst) := by
      intro y
      rw [hnew.mem_iff, List.mem_append, hmemA y]
    refine ⟨?_, ?_, ?_⟩
    · intro m' hm'
      simp only [List.mem_append, List.mem_cons] at hm'
      rcases hm' with (h1 | h1) | h1 | h1
      · exact hi.edge m' (List.mem_append_left _ (List.mem_of_mem_erase h1))
      · obtain ⟨d, hd, rfl⟩ := mem_msgs.1 h1
        exact ⟨(c.mem_sends_iff h _ _).1 hd, rfl⟩
      · rw [h1]; exact hedge_m
      · exact hi.edge m' (List.mem_append_right _ h1)
    · rw [hnew.nodup_iff, List.nodup_append]
      refine ⟨hnd, c.sends_nodup h _, ?_⟩
      intro a ha b hb hab
      subst hab
      exact hfresh a hb ((hmemA a).2 ha)
    · intro p x he
      rw [hmemN x, hi.closed p x he, dsts_cons, List.mem_cons, c.mem_sends_iff h]
      constructor
      · rintro ((h1 | h1) | h1)
        · exact Or.inl h1
        · exact Or.inr (Or.inr h1)
        · exact Or.inr (Or.inl (c.edge_unique h ht he h1))
      · rintro (h1 | h1 | h1)
        · exact Or.inl (Or.inl h1)
        · subst h1; exact Or.inr he
        · exact Or.inl (Or.inr h1)

theorem inv_run {c : Cfg} (h : c.WF) (ht : TreeChild c.child (2 ^ 32)) (ms : List Msg) : Inv c (c.run ms) := by
  unfold Cfg.run
  generalize hs : c.init = s
  have hi : Inv c s := hs ▸ inv_init h ht
  clear hs
  induction ms generalizing s with
  | nil => exact hi
  | cons m ms ih => exact ih _ (inv_deliver h ht s m hi)

theorem inv_runFifo {c : Cfg} (h : c.WF) (ht : TreeChild c.child (2 ^ 32)) :
    ∀ (fuel : Nat) (s : St), Inv c s → Inv c (c.runFifo fuel s)
  | 0, s, hi => hi
  | fuel+1, s, hi => by
    unfold Cfg.runFifo
    split
    · exact hi
    · exact inv_runFifo h ht fuel _ (inv_deliver h ht s _ hi)

/-- every message received so far was addressed to a remote consumer -/
theorem Inv.log_members {c : Cfg} {s : St} (hi : Inv c s) : ∀ x ∈ dsts s.log, x ∈ c.members := by
  intro x hx
  obtain ⟨m, hm, rfl⟩ := mem_dsts.1 hx
  exact c.edge_dst (hi.edge m (List.mem_append_right _ hm)).1

/-- **Everybody is reached**: when nothing is in flight every remote consumer has received its message. -/
theorem Inv.all_delivered {c : Cfg} {s : St} (h : c.WF) (ht : TreeChild c.child (2 ^ 32)) (hi : Inv c s)
    (hq : s.inflight = []) : ∀ x ∈ c.members, x ∈ dsts s.log := by
  intro x hx
  obtain ⟨L, hL, hxL⟩ := List.mem_flatten.1 hx
  obtain ⟨i, hi'⟩ := List.mem_iff_getElem?.1 hxL
  have hz : (x, 1 + i) ∈ L.zipIdx 1 := List.mk_add_mem_zipIdx_iff_getElem?.2 hi'
  generalize 1 + i = hh at hz
  clear hi' hxL hx
  induction hh using Nat.strongRecOn generalizing x with
  | _ hh ih =>
    obtain ⟨p, he, hp⟩ := c.edge_exists h ht hL hz
    have := hi.closed p x he
    rw [hq, List.nil_append] at this
    apply this.2
    rcases hp with e | ⟨h', hlt, hz'⟩
    · exact Or.inl e
    · exact Or.inr (ih h' hlt p hz')

/-! ## counting -/

theorem count_pairs_same (d k : Nat) (ks : List Nat) : (ks.map fun k' => (d, k')).count (d, k) = ks.count k := by
  induction ks with
  | nil => rfl
  | cons a ks ih =>
    rw [List.map_cons, List.count_cons, List.count_cons, ih]
    by_cases hak : a = k
    · subst hak; simp
    · have : ¬ ((d, a) = (d, k)) := fun e => hak (by injection e)
      simp [hak, this]

theorem count_pairs_other (d r k : Nat) (ks : List Nat) (hne : d ≠ r) : (ks.map fun k' => (d, k')).count (r, k) = 0 := by
  rw [List.count_eq_zero]
  intro hm
  obtain ⟨k', _, e⟩ := List.mem_map.1 hm
  injection e with e1 _
  exact hne e1

theorem count_deliveries_not_mem (log : List Msg) (r k : Nat) (h : r ∉ dsts log) :
    (deliveriesOf log).count (r, k) = 0 := by
  rw [List.count_eq_zero]
  intro hm
  unfold deliveriesOf at hm
  obtain ⟨m, hm1, hm2⟩ := List.mem_flatMap.1 hm
  obtain ⟨k', _, e⟩ := List.mem_map.1 hm2
  injection e with e1 _
  exact h (mem_dsts.2 ⟨m, hm1, e1⟩)

theorem count_deliveries_mem : ∀ (log : List Msg), (dsts log).Nodup → ∀ m ∈ log, ∀ k,
    (deliveriesOf log).count (m.dst, k) = m.keys.count k
  | [], _, m, hm, _ => by cases hm
  | a :: t, hnd, m, hm, k => by
    have hnd' := List.nodup_cons.1 hnd
    have hsplit : deliveriesOf (a :: t) = (a.keys.map fun k' => (a.dst, k')) ++ deliveriesOf t := by
      simp [deliveriesOf]
    rw [hsplit, List.count_append]
    rcases List.mem_cons.1 hm with e | hmt
    · subst e
      rw [count_pairs_same, count_deliveries_not_mem t _ _ hnd'.1]; rfl
    · have hne : a.dst ≠ m.dst := fun e => hnd'.1 (e ▸ mem_dsts.2 ⟨m, hmt, rfl⟩)
      rw [count_pairs_other _ _ _ _ hne, count_deliveries_mem t hnd'.2 m hmt k]; simp

theorem keys_nodup {c : Cfg} (h : c.WF) : (c.outs.map Prod.fst).Nodup :=
  List.Pairwise.imp (fun hlt => Nat.ne_of_lt hlt) h.keys

theorem out_eq_of_key_eq : ∀ {outs : List Out}, (outs.map Prod.fst).Nodup → ∀ {o o' : Out},
    o ∈ outs → o' ∈ outs → o.1 = o'.1 → o = o'
  | [], _, _, _, ho, _, _ => by cases ho
  | a :: t, hnd, o, o', ho, ho', e => by
    rw [List.map_cons, List.nodup_cons] at hnd
    rcases List.mem_cons.1 ho with e1 | h1 <;> rcases List.mem_cons.1 ho' with e2 | h2
    · rw [e1, e2]
    · exact absurd (List.mem_map.2 ⟨o', h2, by rw [← e, e1]⟩) hnd.1
    · exact absurd (List.mem_map.2 ⟨o, h1, by rw [e, e2]⟩) hnd.1
    · exact out_eq_of_key_eq hnd.2 h1 h2 e

theorem payload_nodup {c : Cfg} (h : c.WF) (p r : Nat) : (c.payload p r).Nodup :=
  List.Nodup.sublist (List.filter_sublist.map Prod.fst) (keys_nodup h)

theorem mem_payload {c : Cfg} (p r k : Nat) :
    k ∈ c.payload p r ↔ ∃ o ∈ c.outs, o.1 = k ∧ r ∈ o.2 ∧ (p = c.root ∨ p ∈ o.2) := by
  unfold Cfg.payload Cfg.omask
  simp only [List.mem_map, List.mem_filter, Bool.and_eq_true, Bool.or_eq_true, beq_iff_eq,
    List.contains_iff_mem]
  constructor
  · rintro ⟨o, ⟨ho, h1, h2⟩, rfl⟩; exact ⟨o, ho, rfl, h2, h1⟩
  · rintro ⟨o, ho, rfl, h2, h1⟩; exact ⟨o, ⟨ho, h1, h2⟩, rfl⟩

/-- Counting at every reachable state: a pair is never delivered twice, and it has been delivered
    exactly when the receiver got its message from a sender that holds the output. -/
theorem Inv.count {c : Cfg} {s : St} (h : c.WF) (hi : Inv c s) (r k : Nat) :
    (deliveriesOf s.log).count (r, k) ≤ 1 ∧
    ((deliveriesOf s.log).count (r, k) = 1 ↔
      ∃ m ∈ s.log, m.dst = r ∧ ∃ o ∈ c.outs, o.1 = k ∧ r ∈ o.2 ∧ (m.src = c.root ∨ m.src ∈ o.2)) := by
  have hndl : (dsts s.log).Nodup := by
    have := hi.nodup; rw [dsts_append, List.nodup_append] at this; exact this.2.1
  by_cases hr : r ∈ dsts s.log
  · obtain ⟨m, hm, rfl⟩ := mem_dsts.1 hr
    have hk := (hi.edge m (List.mem_append_right _ hm)).2
    rw [count_deliveries_mem s.log hndl m hm k, hk, (payload_nodup h _ _).count]
    constructor
    · split <;> omega
    · constructor
      · intro h1
        have : k ∈ c.payload m.src m.dst := by
          by_cases hk' : k ∈ c.payload m.src m.dst
          · exact hk'
          · rw [if_neg hk'] at h1; omega
        exact ⟨m, hm, rfl, (mem_payload _ _ _).1 this⟩
      · rintro ⟨m', hm', hd, ho⟩
        have : m' = m := by
          obtain ⟨i, hi1⟩ := List.mem_iff_getElem?.1 hm'
          obtain ⟨j, hj1⟩ := List.mem_iff_getElem?.1 hm
          have hil : i < s.log.length := by
            rcases Nat.lt_or_ge i s.log.length with hlt | hge
            · exact hlt
            · rw [List.getElem?_eq_none hge] at hi1; cases hi1
          have e1 : (dsts s.log)[i]? = some m'.dst := by simp [dsts, hi1]
          have e2 : (dsts s.log)[j]? = some m.dst := by simp [dsts, hj1]
          have hij := (List.getElem?_inj (i := i) (j := j) (by simpa [dsts] using hil) hndl).1 (by rw [e1, e2, hd])
          subst hij
          rw [hi1] at hj1; injection hj1
        subst this
        rw [if_pos ((mem_payload _ _ _).2 ho)]
  · rw [count_deliveries_not_mem s.log r k hr]
    refine ⟨by omega, ⟨fun h0 => by omega, ?_⟩⟩
    rintro ⟨m, hm, hd, _⟩
    exact absurd (mem_dsts.2 ⟨m, hm, hd⟩) hr

theorem mem_wanted {c : Cfg} (r k : Nat) :
    c.wanted r k = true ↔ (r ≠ c.root ∧ ∃ o ∈ c.outs, o.1 = k ∧ r ∈ o.2) := by
  unfold Cfg.wanted
  simp only [Bool.and_eq_true, bne_iff_ne, ne_eq, List.any_eq_true, beq_iff_eq, List.contains_iff_mem]

theorem deliveryOK_iff (c : Cfg) :
    c.deliveryOK = true ↔ ∀ p x, (p, x) ∈ c.edges → p = c.root ∨ ∀ o ∈ c.outs, x ∈ o.2 → p ∈ o.2 := by
  unfold Cfg.deliveryOK
  rw [List.all_eq_true]
  constructor
  · intro h0 p x he
    have h1 := h0 (p, x) he
    rw [Bool.or_eq_true, beq_iff_eq, List.all_eq_true] at h1
    rcases h1 with h1 | h1
    · exact Or.inl h1
    · exact Or.inr (fun o ho => (imp_bool _ _ _).1 (h1 o ho))
  · intro h0 px he
    rw [Bool.or_eq_true, beq_iff_eq, List.all_eq_true]
    rcases h0 px.1 px.2 he with h1 | h1
    · exact Or.inl h1
    · exact Or.inr (fun o ho => (imp_bool _ _ _).2 (h1 o ho))

/-- length bound used for termination of the FIFO run -/
theorem length_le_of_nodup_lt : ∀ (n : Nat) (l : List Nat), l.Nodup → (∀ x ∈ l, x < n) → l.length ≤ n
  | 0, l, _, h => by
    cases l with
    | nil => simp
    | cons a t => exact absurd (h a (by simp)) (by omega)
  | n+1, l, hn, h => by
    have ih := length_le_of_nodup_lt n (l.erase n) (hn.erase n) (fun x hx => by
      have h1 := h x (List.mem_of_mem_erase hx)
      have h2 := (hn.mem_erase_iff.1 hx).1
      omega)
    have hl : l.length ≤ (l.erase n).length + 1 := by
      rw [List.length_erase]; split <;> omega
    omega

theorem Inv.log_length_lt {c : Cfg} {s : St} (h : c.WF) (hi : Inv c s) : s.log.length < c.n := by
  have hndl : (dsts s.log).Nodup := by
    have := hi.nodup; rw [dsts_append, List.nodup_append] at this; exact this.2.1
  have hroot : c.root ∉ dsts s.log := fun hm => c.root_not_member h (hi.log_members _ hm)
  have := length_le_of_nodup_lt c.n (c.root :: dsts s.log) (List.nodup_cons.2 ⟨hroot, hndl⟩) (by
    intro x hx
    rcases List.mem_cons.1 hx with e | hx
    · rw [e]; exact h.root_lt
    · exact c.member_lt h (hi.log_members _ hx))
  simp [dsts] at this
  omega

theorem deliver_log_length {c : Cfg} {s : St} {m : Msg} (hm : m ∈ s.inflight) :
    (c.deliver s m).log.length = s.log.length + 1 := by
  unfold Cfg.deliver; rw [if_pos hm]; simp

theorem runFifo_progress (c : Cfg) : ∀ (fuel : Nat) (s : St),
    (c.runFifo fuel s).inflight = [] ∨ (c.runFifo fuel s).log.length = s.log.length + fuel
  | 0, s => Or.inr rfl
  | fuel+1, s => by
    unfold Cfg.runFifo
    split
    · rename_i hq; exact Or.inl hq
    · rename_i m t hq
      rcases runFifo_progress c fuel (c.deliver s m) with h1 | h1
      · exact Or.inl h1
      · right
        rw [h1, deliver_log_length (by rw [hq]; exact List.mem_cons_self)]
        omega

end ParsecVerif.RemoteDep
