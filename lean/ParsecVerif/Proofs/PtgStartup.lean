import ParsecVerif.Model.PtgStartup
import ParsecVerif.Proofs.Ptg
/-! The cursor of the chunked startup enumeration resumes exactly where the previous invocation stopped, and the
    batches of all invocations concatenate to the startup instances of the space (helper lemmas for C16). -/
namespace ParsecVerif.PtgStartup
open ParsecVerif.Ptg

/-- the part of a list after the first occurrence of `x` -/
def after {α : Type} [DecidableEq α] (x : α) : List α → List α
  | [] => []
  | y :: ys => if y = x then ys else after x ys

section after
variable {α : Type} [DecidableEq α]

theorem after_append_of_mem (x : α) (l1 l2 : List α) (h : x ∈ l1) : after x (l1 ++ l2) = after x l1 ++ l2 := by
  induction l1 with
  | nil => cases h
  | cons y ys ih =>
    simp only [List.cons_append, after]
    by_cases hy : y = x
    · simp [hy]
    · simp only [hy, if_false]
      exact ih (by rcases List.mem_cons.1 h with e | e; exact absurd e.symm hy; exact e)

theorem after_append_of_not_mem (x : α) (l1 l2 : List α) (h : x ∉ l1) : after x (l1 ++ l2) = after x l2 := by
  induction l1 with
  | nil => rfl
  | cons y ys ih =>
    simp only [List.cons_append, after]
    have hy : y ≠ x := fun e => h (by simp [e])
    simp only [hy, if_false]
    exact ih (fun hm => h (List.mem_cons_of_mem _ hm))

theorem after_split (x : α) (A B : List α) (h : x ∉ A) : after x (A ++ x :: B) = B := by
  rw [after_append_of_not_mem x A _ h]; simp [after]

theorem after_map_inj {β : Type} [DecidableEq β] (f : α → β) (hf : ∀ a b, f a = f b → a = b) (x : α) (l : List α) :
    after (f x) (l.map f) = (after x l).map f := by
  induction l with
  | nil => rfl
  | cons y ys ih =>
    simp only [List.map_cons, after]
    by_cases hy : y = x
    · simp [hy]
    · have : f y ≠ f x := fun e => hy (hf _ _ e)
      simp only [hy, this, if_false]
      exact ih

theorem mem_of_mem_after (x y : α) (l : List α) (h : y ∈ after x l) : y ∈ l := by
  induction l with
  | nil => cases h
  | cons z zs ih =>
    simp only [after] at h
    by_cases hz : z = x
    · simp only [hz, if_true] at h; exact List.mem_cons_of_mem _ h
    · simp only [hz, if_false] at h; exact List.mem_cons_of_mem _ (ih h)

theorem after_suffix (x : α) (l : List α) : ∃ Q, l = Q ++ after x l := by
  induction l with
  | nil => exact ⟨[], rfl⟩
  | cons z zs ih =>
    simp only [after]
    by_cases hz : z = x
    · simp only [hz, if_true]; exact ⟨[x], rfl⟩
    · simp only [hz, if_false]
      obtain ⟨Q, hQ⟩ := ih
      exact ⟨z :: Q, by rw [List.cons_append, ← hQ]⟩

theorem after_length_lt (x : α) (l : List α) (h : x ∈ l) : (after x l).length < l.length := by
  induction l with
  | nil => cases h
  | cons z zs ih =>
    simp only [after]
    by_cases hz : z = x
    · simp [hz]
    · simp only [hz, if_false, List.length_cons]
      have := ih (by rcases List.mem_cons.1 h with e | e; exact absurd e.symm hz; exact e)
      omega

theorem after_flatMap {β : Type} [DecidableEq β] (B : α → List β) (v : α) (x : β) (vals : List α) (hv : v ∈ vals)
    (hx : x ∈ B v) (hne : ∀ w, w ≠ v → x ∉ B w) :
    after x (vals.flatMap B) = after x (B v) ++ (after v vals).flatMap B := by
  induction vals with
  | nil => cases hv
  | cons w ws ih =>
    simp only [List.flatMap_cons, after]
    by_cases hw : w = v
    · subst hw
      simp only [if_true]
      exact after_append_of_mem x _ _ hx
    · simp only [hw, if_false]
      rw [after_append_of_not_mem x _ _ (hne w hw)]
      exact ih (by rcases List.mem_cons.1 hv with e | e; exact absurd e.symm hw; exact e)

end after

/-! ### the values of a loop after a given value -/

theorem rangeVals_unfold (lo hi st : Int) (hs : 0 < st) :
    rangeVals lo hi st = if lo ≤ hi then lo :: rangeVals (lo + st) hi st else [] := by
  by_cases hle : lo ≤ hi
  · rw [if_pos hle]
    unfold rangeVals
    simp only [hs, if_true, hle]
    by_cases h2 : lo + st ≤ hi
    · simp only [h2, if_true]
      have hdiv : (hi - lo) / st = (hi - (lo + st)) / st + 1 := by
        have : hi - lo = (hi - (lo + st)) + st * 1 := by omega
        rw [this, Int.add_mul_ediv_left _ _ (by omega : st ≠ 0)]
      have hnn : 0 ≤ (hi - (lo + st)) / st := Int.ediv_nonneg (by omega) (by omega)
      have : ((hi - lo) / st).toNat + 1 = (((hi - (lo + st)) / st).toNat + 1) + 1 := by
        rw [hdiv]; omega
      rw [this, List.range_succ_eq_map, List.map_cons, List.map_map]
      congr 1
      · simp
      · apply List.map_congr_left
        intro i _
        simp only [Function.comp]
        have : ((i + 1 : Nat) : Int) = (i : Int) + 1 := by omega
        rw [this, Int.mul_add]; omega
    · simp only [h2, if_false]
      have : (hi - lo) / st = 0 := Int.ediv_eq_zero_of_lt (by omega) (by omega)
      rw [this]; simp
  · rw [if_neg hle]
    exact rangeVals_empty_of_lt hs (by omega)

theorem rangeVals_after (hi st : Int) (hs : 0 < st) (v : Int) :
    ∀ (n : Nat) (lo : Int), (rangeVals lo hi st).length = n → v ∈ rangeVals lo hi st →
      rangeVals (v + st) hi st = after v (rangeVals lo hi st) := by
  intro n
  induction n with
  | zero =>
    intro lo hl hv
    rw [List.length_eq_zero_iff.1 hl] at hv; cases hv
  | succ n ih =>
    intro lo hl hv
    rw [rangeVals_unfold lo hi st hs] at hl hv ⊢
    by_cases hle : lo ≤ hi
    · simp only [hle, if_true] at hl hv ⊢
      simp only [after]
      by_cases hlv : lo = v
      · simp [hlv]
      · simp only [hlv, if_false]
        apply ih (lo + st) (by simpa using hl)
        rcases List.mem_cons.1 hv with e | e
        · exact absurd e.symm hlv
        · exact e
    · simp only [hle, if_false] at hv; cases hv

theorem startupVals_pos (lo hi st : Int) (hs : 0 < st) : startupVals lo hi st = some (rangeVals lo hi st) := by
  unfold startupVals
  by_cases hlt : hi < lo
  · simp [hlt, rangeVals_empty_of_lt hs hlt]
  · simp [hlt, hs]

/-! ### the cursor resumes exactly after the saved instance -/

theorem cons_inj (v : Int) (a b : List Int) (h : v :: a = v :: b) : a = b := by injection h

theorem resumeSem_eq (ds : List LocalSem) : ∀ (pre env : List Int), StepsPositive ds pre → env ∈ enumSem ds pre →
    resumeSem ds pre env = some (after env (enumSem ds pre)) := by
  induction ds with
  | nil =>
    intro pre env _ he
    simp only [enumSem, List.mem_singleton] at he
    subst he
    simp [resumeSem, enumSem, after]
  | cons d ds ih =>
    intro pre env hpos he
    cases d with
    | range lo hi st =>
      obtain ⟨hs, hrec⟩ := hpos
      simp only [enumSem, List.mem_flatMap, List.mem_map] at he
      obtain ⟨v, hv, env', he', rfl⟩ := he
      have h1 := ih (pre ++ [v]) env' (hrec v hv) he'
      have h2 : startupVals (v + st pre) (hi pre) (st pre) = some (after v (rangeVals (lo pre) (hi pre) (st pre))) := by
        rw [startupVals_pos _ _ _ hs, rangeVals_after (hi pre) (st pre) hs v _ (lo pre) rfl hv]
      have h3 : optFlatMap (after v (rangeVals (lo pre) (hi pre) (st pre)))
            (fun w => (startupSem ds (pre ++ [w])).map (·.map (w :: ·))) =
          some ((after v (rangeVals (lo pre) (hi pre) (st pre))).flatMap fun w => (enumSem ds (pre ++ [w])).map (w :: ·)) := by
        apply optFlatMap_some
        intro w hw
        rw [startupSem_eq ds (pre ++ [w]) (hrec w (mem_of_mem_after v w _ hw))]
        rfl
      simp only [resumeSem, h1, h2, h3, Option.map_some, enumSem]
      congr 1
      rw [after_flatMap (fun w => (enumSem ds (pre ++ [w])).map (w :: ·)) v (v :: env') _ hv
            (List.mem_map.2 ⟨env', he', rfl⟩)
            (by
              intro w hw hm
              rw [List.mem_map] at hm
              obtain ⟨_, _, h⟩ := hm
              injection h with h _
              exact hw h)]
      congr 1
      exact (after_map_inj (fun s => v :: s) (fun a b h => cons_inj v a b h) env' _).symm
    | expr f =>
      simp only [StepsPositive] at hpos
      simp only [enumSem, List.mem_map] at he
      obtain ⟨env', he', rfl⟩ := he
      have h1 := ih (pre ++ [f pre]) env' hpos he'
      simp only [resumeSem, h1, Option.map_some, enumSem]
      congr 1
      exact (after_map_inj (fun s => f pre :: s) (fun a b h => cons_inj (f pre) a b h) env' _).symm

/-! ### one invocation -/

theorem invokeGo_spec (iter chunk : Nat) (keep : List Int → Bool) :
    ∀ (pts : List (List Int)) (reserved total : Nat) (ring : List (List Int)),
      ((invokeGo iter chunk keep pts reserved total ring).cursor = none ∧
        (invokeGo iter chunk keep pts reserved total ring).batches.flatten = ring ++ pts.filter keep) ∨
      (∃ x A B, (invokeGo iter chunk keep pts reserved total ring).cursor = some x ∧ pts = A ++ x :: B ∧ keep x = true ∧
        (invokeGo iter chunk keep pts reserved total ring).batches.flatten = ring ++ A.filter keep ++ [x] ∧
        chunk < total + (ring ++ A.filter keep ++ [x]).length) := by
  intro pts
  induction pts with
  | nil =>
    intro reserved total ring
    left
    simp only [invokeGo]
    cases ring <;> simp
  | cons x rest ih =>
    intro reserved total ring
    simp only [invokeGo]
    by_cases hk : keep x = true
    · simp only [hk, if_true]
      by_cases h1 : ring.length + 1 > reserved
      · simp only [h1, if_true]
        by_cases h2 : total + (ring.length + 1) > chunk
        · simp only [h2, if_true]
          right
          exact ⟨x, [], rest, rfl, rfl, hk, by simp, by simp; omega⟩
        · simp only [h2, if_false]
          rcases ih (if reserved < iter then reserved * 2 else reserved) (total + (ring.length + 1)) [] with ⟨hc, hb⟩ | ⟨y, A, B, hc, hp, hky, hb, hlen⟩
          · left
            refine ⟨hc, ?_⟩
            simp only [List.flatten_cons, hb, List.filter_cons, hk, if_true]
            simp
          · right
            refine ⟨y, x :: A, B, hc, by rw [hp]; rfl, hky, ?_, ?_⟩
            · simp only [List.flatten_cons, hb, List.filter_cons, hk, if_true]
              simp
            · simp only [List.filter_cons, hk, if_true] at hlen ⊢
              simp only [List.length_append, List.length_cons, List.length_nil] at hlen ⊢
              omega
      · simp only [h1, if_false]
        rcases ih reserved total (ring ++ [x]) with ⟨hc, hb⟩ | ⟨y, A, B, hc, hp, hky, hb, hlen⟩
        · left
          refine ⟨hc, ?_⟩
          rw [hb]; simp [hk]
        · right
          refine ⟨y, x :: A, B, hc, by rw [hp]; rfl, hky, ?_, ?_⟩
          · rw [hb]; simp [hk]
          · simp only [List.filter_cons, hk, if_true] at hlen ⊢
            simp only [List.length_append, List.length_cons, List.length_nil] at hlen ⊢
            omega
    · have hk' : keep x = false := by simpa using hk
      simp only [hk', Bool.false_eq_true, if_false]
      rcases ih reserved total ring with ⟨hc, hb⟩ | ⟨y, A, B, hc, hp, hky, hb, hlen⟩
      · left
        refine ⟨hc, ?_⟩
        rw [hb]; simp [hk']
      · right
        refine ⟨y, x :: A, B, hc, by rw [hp]; rfl, hky, ?_, ?_⟩
        · rw [hb]; simp [hk']
        · simpa [List.filter_cons, hk'] using hlen

/-! ### all invocations -/

theorem startupRunGo_spec (iter chunk : Nat) (keep : List Int → Bool) (ds : List LocalSem) (hpos : StepsPositive ds [])
    : ∀ (fuel : Nat) (cur : Option (List Int)) (rem : List (List Int)),
      rem.length < fuel →
      (match cur with
        | none => rem = enumSem ds []
        | some c => c ∈ enumSem ds [] ∧ rem = after c (enumSem ds [])) →
      ∃ invs, startupRunGo iter chunk keep ds fuel cur = some invs ∧ invs.flatten.flatten = rem.filter keep ∧
        invs ≠ [] ∧ ∀ inv ∈ invs.dropLast, chunk < inv.flatten.length := by
  intro fuel
  induction fuel with
  | zero => intro _ _ h; omega
  | succ fuel ih =>
    intro cur rem hlen hcur
    have hpts : entryPts ds cur = some rem := by
      cases cur with
      | none => simp only [entryPts] at hcur ⊢; rw [hcur]; exact startupSem_eq ds [] hpos
      | some c => simp only [entryPts] at hcur ⊢; rw [hcur.2]; exact resumeSem_eq ds [] c hpos hcur.1
    obtain ⟨Q, hQ⟩ : ∃ Q, enumSem ds [] = Q ++ rem := by
      cases cur with
      | none => exact ⟨[], by simpa using hcur.symm⟩
      | some c => obtain ⟨Q, hQ⟩ := after_suffix c (enumSem ds []); exact ⟨Q, by rw [hcur.2]; exact hQ⟩
    simp only [startupRunGo, hpts]
    rcases invokeGo_spec iter chunk keep rem 1 0 [] with ⟨hc, hb⟩ | ⟨x, A, B, hc, hp, hkx, hb, hbig⟩
    · simp only [invoke, hc]
      refine ⟨[(invokeGo iter chunk keep rem 1 0 []).batches], rfl, ?_, by simp, by simp⟩
      simpa using hb
    · simp only [invoke, hc]
      have hnd : (enumSem ds []).Nodup := nodup_enumSem ds []
      rw [hQ, hp] at hnd
      have hxin : x ∈ enumSem ds [] := by rw [hQ, hp]; simp
      have hafter : after x (enumSem ds []) = B := by
        rw [hQ, hp, ← List.append_assoc]
        apply after_split
        intro hm
        rw [← List.append_assoc, List.nodup_append] at hnd
        exact hnd.2.2 x hm x (List.mem_cons_self) rfl
      obtain ⟨invs, h1, h2, h3, h4⟩ := ih (some x) B (by rw [hp] at hlen; simp at hlen; omega) ⟨hxin, hafter.symm⟩
      refine ⟨(invokeGo iter chunk keep rem 1 0 []).batches :: invs, by rw [h1]; rfl, ?_, by simp, ?_⟩
      · rw [List.flatten_cons, List.flatten_append, hb, h2, hp]
        simp [List.filter_append, hkx]
      · intro inv hinv
        rw [List.dropLast_cons_of_ne_nil h3] at hinv
        rcases List.mem_cons.1 hinv with e | e
        · rw [e, hb]; simpa using hbig
        · exact h4 inv e

theorem startupRun_spec (iter chunk : Nat) (keep : List Int → Bool) (ds : List LocalSem) (hpos : StepsPositive ds []) :
    ∃ invs, startupRun iter chunk keep ds = some invs ∧ invs.flatten.flatten = (enumSem ds []).filter keep ∧
      invs ≠ [] ∧ ∀ inv ∈ invs.dropLast, chunk < inv.flatten.length := by
  unfold startupRun
  rw [startupSem_eq ds [] hpos]
  exact startupRunGo_spec iter chunk keep ds hpos _ none (enumSem ds []) (by omega) rfl

end ParsecVerif.PtgStartup
