import ParsecVerif.Model.RemoteDep
import ParsecVerif.Proofs.UserTrigger
/-! Helper lemmas for C13: the child predicates are trees, the rank↔bit mapping is a bijection,
    closed forms of the loops of `parsec_remote_dep_activate`. -/
namespace ParsecVerif.RemoteDep
open ParsecVerif

/-! ## A. the three child predicates are trees -/

/-- Below `B`, every index `h ≥ 1` has exactly one parent, and the parent is smaller. -/
def TreeChild (child : Nat → Nat → Bool) (B : Nat) : Prop :=
  ∀ h, 1 ≤ h → h < B → ∃ q, q < h ∧ ∀ m, (m < h ∧ child m h = true) ↔ m = q

theorem star_tree (B : Nat) : TreeChild starChild B := by
  intro h h1 _
  refine ⟨0, by omega, fun m => ?_⟩
  simp only [starChild, beq_iff_eq]
  omega

theorem chain_tree (B : Nat) : TreeChild chainChild B := by
  intro h h1 _
  refine ⟨h - 1, by omega, fun m => ?_⟩
  simp only [chainChild, beq_iff_eq]
  omega

theorem clearTop_lt : ∀ k h, 1 ≤ h → h < 2 ^ k → clearTop k h < h
  | 0, h, h1, h2 => by simp at h2; omega
  | k+1, h, h1, h2 => by
    unfold clearTop
    split
    · have : 0 < 2 ^ k := Nat.two_pow_pos k
      omega
    · exact clearTop_lt k h h1 (by omega)

theorem binomial_tree : TreeChild binomialChild (2 ^ 32) := by
  intro h h1 hB
  refine ⟨clearTop 32 h, clearTop_lt 32 h h1 hB, fun m => ?_⟩
  have := clearTop_lt 32 h h1 hB
  simp only [binomialChild, Bool.and_eq_true, bne_iff_ne, ne_eq, beq_iff_eq]
  constructor
  · rintro ⟨_, _, h3⟩; exact h3.symm
  · intro h3; subst h3; exact ⟨this, by omega, rfl⟩

theorem topo_tree (t : Topo) : TreeChild t.child (2 ^ 32) := by
  cases t
  · exact star_tree _
  · exact chain_tree _
  · exact binomial_tree

/-! ## B. rank ↔ bit, the candidate list of one output -/

theorem rankToBit_eq (n root r : Nat) : rankToBit n root r = UserTrigger.shifted n root r := rfl
theorem bitToRank_eq (n root v : Nat) : bitToRank n root v = UserTrigger.unshift n root v := rfl

theorem mem_cands (n root : Nat) (S : List Nat) (hr : root < n) (hS : ∀ r ∈ S, r < n) (r : Nat) :
    r ∈ cands n root S ↔ r ∈ S := by
  unfold cands
  simp only [List.mem_map, List.mem_filter, List.mem_range, List.contains_iff_mem]
  constructor
  · rintro ⟨v, ⟨_, s, hs, hsv⟩, hv⟩
    rw [← hv, ← hsv, rankToBit_eq, bitToRank_eq, UserTrigger.unshift_shifted n root s hr (hS s hs)]
    exact hs
  · intro h
    refine ⟨rankToBit n root r, ⟨?_, r, h, rfl⟩, ?_⟩
    · rw [rankToBit_eq]; exact UserTrigger.shifted_lt n root r hr (hS r h)
    · rw [rankToBit_eq, bitToRank_eq, UserTrigger.unshift_shifted n root r hr (hS r h)]

theorem cands_nodup (n root : Nat) (S : List Nat) (hr : root < n) : (cands n root S).Nodup := by
  unfold cands
  rw [List.Nodup, List.pairwise_map]
  refine List.Pairwise.imp_of_mem ?_ (List.Pairwise.filter _ List.nodup_range)
  intro a b ha hb hne hab
  apply hne
  simp only [List.mem_filter, List.mem_range] at ha hb
  have := congrArg (UserTrigger.shifted n root) hab
  rw [bitToRank_eq, bitToRank_eq, UserTrigger.shifted_unshift n root a hr ha.1,
    UserTrigger.shifted_unshift n root b hr hb.1] at this
  exact this

theorem cands_length_le (n root : Nat) (S : List Nat) : (cands n root S).length ≤ n := by
  unfold cands
  rw [List.length_map]
  exact Nat.le_trans (List.length_filter_le _ _) (by simp)

/-! ## C. closed forms of the inner loop -/

/-- the loop body for a rank that is not yet forwarded -/
def stepNew (child : Nat → Nat → Bool) (me : Nat) (s : Loop) (rank : Nat) : Loop :=
  match s.my with
  | none => ⟨rank :: s.fw, s.idx + 1, if rank = me then some (s.idx + 1) else none, s.sends⟩
  | some m => ⟨rank :: s.fw, s.idx + 1, some m,
               if child m (s.idx + 1) then s.sends ++ [rank] else s.sends⟩

theorem stepRank_of_mem {child me} {s : Loop} {r : Nat} (h : r ∈ s.fw) : stepRank child me s r = s := by
  unfold stepRank; simp [h]

theorem stepRank_of_not_mem {child me} {s : Loop} {r : Nat} (h : r ∉ s.fw) :
    stepRank child me s r = stepNew child me s r := by
  unfold stepRank stepNew
  rw [if_neg (by simpa using h)]
  rfl

theorem stepNew_fw (child me) (s : Loop) (r : Nat) : (stepNew child me s r).fw = r :: s.fw := by
  unfold stepNew; split <;> rfl

theorem layer_cons_of_mem {fw : List Nat} {r : Nat} (cs : List Nat) (h : r ∈ fw) :
    layer fw (r :: cs) = layer fw cs := by
  unfold layer; simp [h]

theorem layer_cons_of_not_mem {fw : List Nat} {r : Nat} (cs : List Nat) (h : r ∉ fw) :
    layer fw (r :: cs) = r :: layer fw cs := by
  unfold layer; simp [h]

theorem layer_cons_fw {fw : List Nat} {r : Nat} (cs : List Nat) (h : r ∉ cs) :
    layer (r :: fw) cs = layer fw cs := by
  unfold layer
  apply List.filter_congr
  intro x hx
  have : x ≠ r := fun e => h (e ▸ hx)
  simp [this]

/-- The loop over a bitmap equals the loop over its not-yet-forwarded ranks without the test. -/
theorem foldl_stepRank (child me) (cs : List Nat) (hnd : cs.Nodup) (s : Loop) :
    cs.foldl (stepRank child me) s = (layer s.fw cs).foldl (stepNew child me) s := by
  induction cs generalizing s with
  | nil => rfl
  | cons r cs ih =>
    have hr : r ∉ cs := (List.nodup_cons.1 hnd).1
    have hnd' := (List.nodup_cons.1 hnd).2
    rw [List.foldl_cons]
    by_cases h : r ∈ s.fw
    · rw [stepRank_of_mem h, layer_cons_of_mem cs h]; exact ih hnd' s
    · rw [stepRank_of_not_mem h, layer_cons_of_not_mem cs h, List.foldl_cons, ih hnd', stepNew_fw,
        layer_cons_fw cs hr]

theorem foldl_stepNew_fw (child me) (L : List Nat) (s : Loop) :
    (L.foldl (stepNew child me) s).fw = L.reverse ++ s.fw := by
  induction L generalizing s with
  | nil => rfl
  | cons r L ih => rw [List.foldl_cons, ih, stepNew_fw]; simp

/-- sends of a participant that knows its index `m`, over ranks numbered `i+1, i+2, …` -/
def pick (child : Nat → Nat → Bool) (m : Nat) : Nat → List Nat → List Nat
  | _, [] => []
  | i, r :: L => (if child m (i + 1) then [r] else []) ++ pick child m (i + 1) L

/-- sends of a participant still looking for itself -/
def scan (child : Nat → Nat → Bool) (me : Nat) : Nat → List Nat → List Nat
  | _, [] => []
  | i, r :: L => if r = me then pick child (i + 1) (i + 1) L else scan child me (i + 1) L

theorem foldl_stepNew_some (child me m) (L : List Nat) (fw : List Nat) (i : Nat) (snd : List Nat) :
    (L.foldl (stepNew child me) ⟨fw, i, some m, snd⟩).sends = snd ++ pick child m i L := by
  induction L generalizing fw i snd with
  | nil => simp [pick]
  | cons r L ih =>
    rw [List.foldl_cons]
    show (L.foldl (stepNew child me) ⟨r :: fw, i + 1, some m, if child m (i + 1) then snd ++ [r] else snd⟩).sends = _
    rw [ih]
    simp only [pick]
    split <;> simp

theorem foldl_stepNew_none (child me) (L : List Nat) (fw : List Nat) (i : Nat) (snd : List Nat) :
    (L.foldl (stepNew child me) ⟨fw, i, none, snd⟩).sends = snd ++ scan child me i L := by
  induction L generalizing fw i snd with
  | nil => simp [scan]
  | cons r L ih =>
    rw [List.foldl_cons]
    show (L.foldl (stepNew child me) ⟨r :: fw, i + 1, if r = me then some (i + 1) else none, snd⟩).sends = _
    unfold scan
    split
    · rw [foldl_stepNew_some]
    · rw [ih]

/-- destinations one participant sends to inside one numbered layer -/
def sendsL (child : Nat → Nat → Bool) (root me : Nat) (L : List Nat) : List Nat :=
  if me = root then pick child 0 0 L else scan child me 0 L

theorem activateOutput_sends (child) (n root me : Nat) (fw S : List Nat) (hr : root < n) :
    (activateOutput child n root me fw S).sends = sendsL child root me (layer fw (cands n root S)) := by
  unfold activateOutput sendsL
  rw [foldl_stepRank child me _ (cands_nodup n root S hr)]
  split
  · rw [foldl_stepNew_some]; simp
  · rw [foldl_stepNew_none]; simp

theorem activateOutput_fw (child) (n root me : Nat) (fw S : List Nat) (hr : root < n) :
    (activateOutput child n root me fw S).fw = (layer fw (cands n root S)).reverse ++ fw := by
  unfold activateOutput
  rw [foldl_stepRank child me _ (cands_nodup n root S hr), foldl_stepNew_fw]

/-- The outer loop: the sends of a participant are its sends inside each layer, layer after layer. -/
theorem activateFrom_eq (child) (n root me : Nat) (hr : root < n) (Ss : List (List Nat)) (fw : List Nat) :
    activateFrom child n root me fw Ss = (layersFrom n root fw Ss).flatMap (sendsL child root me) := by
  induction Ss generalizing fw with
  | nil => rfl
  | cons S Ss ih =>
    unfold activateFrom layersFrom
    rw [activateOutput_sends child n root me fw S hr, activateOutput_fw child n root me fw S hr, ih,
      List.flatMap_cons]

/-! membership in `pick` / `scan` through the numbering `zipIdx` -/

theorem mem_pick (child m) (L : List Nat) (i x : Nat) :
    x ∈ pick child m i L ↔ ∃ h, (x, h) ∈ L.zipIdx (i + 1) ∧ child m h = true := by
  induction L generalizing i with
  | nil => simp [pick]
  | cons r L ih =>
    unfold pick
    rw [List.mem_append, ih, List.zipIdx_cons]
    constructor
    · rintro (h | ⟨h, h1, h2⟩)
      · split at h
        · rename_i hc
          simp only [List.mem_singleton] at h
          exact ⟨i + 1, by simp [h], hc⟩
        · simp at h
      · exact ⟨h, List.mem_cons_of_mem _ h1, h2⟩
    · rintro ⟨h, h1, h2⟩
      rcases List.mem_cons.1 h1 with e | h1
      · left
        injection e with e1 e2
        subst e1; subst e2
        simp [h2]
      · exact Or.inr ⟨h, h1, h2⟩

theorem pick_sublist (child m) (L : List Nat) (i : Nat) : (pick child m i L).Sublist L := by
  induction L generalizing i with
  | nil => simp [pick]
  | cons r L ih =>
    unfold pick
    split
    · exact (ih (i + 1)).cons_cons r
    · exact (ih (i + 1)).cons r

theorem scan_sublist (child me) (L : List Nat) (i : Nat) : (scan child me i L).Sublist L := by
  induction L generalizing i with
  | nil => simp [scan]
  | cons r L ih =>
    unfold scan
    split
    · exact (pick_sublist child _ L _).cons r
    · exact (ih (i + 1)).cons r

theorem sendsL_sublist (child root me) (L : List Nat) : (sendsL child root me L).Sublist L := by
  unfold sendsL; split
  · exact pick_sublist _ _ _ _
  · exact scan_sublist _ _ _ _

theorem mem_scan (child me) (L : List Nat) (hnd : L.Nodup) (i x : Nat) :
    x ∈ scan child me i L ↔
      ∃ h m, (x, h) ∈ L.zipIdx (i + 1) ∧ (me, m) ∈ L.zipIdx (i + 1) ∧ m < h ∧ child m h = true := by
  induction L generalizing i with
  | nil => simp [scan]
  | cons r L ih =>
    have hr : r ∉ L := (List.nodup_cons.1 hnd).1
    have hnd' := (List.nodup_cons.1 hnd).2
    unfold scan
    rw [List.zipIdx_cons]
    split
    · rename_i hrm
      subst hrm
      rw [mem_pick]
      constructor
      · rintro ⟨h, h1, h2⟩
        have := List.le_snd_of_mem_zipIdx h1
        exact ⟨h, i + 1, List.mem_cons_of_mem _ h1, List.mem_cons_self, by simp at this; omega, h2⟩
      · rintro ⟨h, m, h1, h2, h3, h4⟩
        have hm : m = i + 1 := by
          rcases List.mem_cons.1 h2 with e | h2
          · injection e
          · exact absurd (List.fst_mem_of_mem_zipIdx h2) hr
        subst hm
        rcases List.mem_cons.1 h1 with e | h1
        · injection e with _ e2; omega
        · exact ⟨h, h1, h4⟩
    · rename_i hrm
      rw [ih hnd']
      constructor
      · rintro ⟨h, m, h1, h2, h3, h4⟩
        exact ⟨h, m, List.mem_cons_of_mem _ h1, List.mem_cons_of_mem _ h2, h3, h4⟩
      · rintro ⟨h, m, h1, h2, h3, h4⟩
        have h2' : (me, m) ∈ L.zipIdx (i + 1 + 1) := by
          rcases List.mem_cons.1 h2 with e | h2
          · injection e with e1 _; exact absurd e1.symm hrm
          · exact h2
        have := List.le_snd_of_mem_zipIdx h2'
        have h1' : (x, h) ∈ L.zipIdx (i + 1 + 1) := by
          rcases List.mem_cons.1 h1 with e | h1
          · injection e with _ e2; simp at this; omega
          · exact h1
        exact ⟨h, m, h1', h2', h3, h4⟩

end ParsecVerif.RemoteDep
