import ParsecVerif.Proofs.FourCounterH1
/-
  Preservation of `Hist` by outgoing_message_start, incoming_message_start, incoming_message_end.
-/
namespace ParsecVerif.FourCounter

def pSend (s : State) (p q : Nat) : State :=
  push (setP s p { s.procs p with ms := (s.procs p).ms + 1 }) [{ src := p, dst := q, kind := .app }]

theorem Hist.send {s : State} (h : Hist s) {p q : Nat} (hp : p < s.n) (hq : q < s.n) (hpq : p ≠ q)
    (hw : 0 < (s.procs p).wl) : Hist (pSend s p q) := by
  have hne : ∀ r, r ≠ p → (pSend s p q).procs r = s.procs r := by intro r e; simp [pSend, push, setP, e]
  have hpp : (pSend s p q).procs p = { s.procs p with ms := (s.procs p).ms + 1 } := by simp [pSend, push, setP]
  have hmr : ∀ r, ((pSend s p q).procs r).mr = (s.procs r).mr := by
    intro r; by_cases e : r = p
    · subst e; rw [hpp]
    · rw [hne r e]
  have hwl : ∀ r, ((pSend s p q).procs r).wl = (s.procs r).wl := by
    intro r; by_cases e : r = p
    · subst e; rw [hpp]; rfl
    · rw [hne r e]
  have ho : ∀ r, ((pSend s p q).procs r).opn = (s.procs r).opn := by
    intro r; by_cases e : r = p
    · subst e; rw [hpp]
    · rw [hne r e]
  have hst : ∀ r, ((pSend s p q).procs r).st = (s.procs r).st := by
    intro r; by_cases e : r = p
    · subst e; rw [hpp]
    · rw [hne r e]
  have hms : ∀ r, (s.procs r).ms ≤ ((pSend s p q).procs r).ms := by
    intro r; by_cases e : r = p
    · subst e; rw [hpp]; simp
    · rw [hne r e]; exact Nat.le_refl _
  have hsum : sumTo s.n (fun r => ((pSend s p q).procs r).ms) = sumTo s.n (fun r => (s.procs r).ms) + 1 := by
    have := sumTo_change (f := fun r => (s.procs r).ms) (g := fun r => ((pSend s p q).procs r).ms) hp
      (fun r _ e => by simp only [hne r e])
    simp only [hpp] at this; omega
  have htr : transit (pSend s p q) = transit s + 1 := by
    unfold transit
    rw [appCount_eq_cnt, appCount_eq_cnt]
    have : cnt isApp (pSend s p q).net = cnt isApp s.net + 1 := by simp [pSend, push, setP, isApp]
    rw [this, show (pSend s p q).n = s.n from rfl, sumTo_congr (fun r _ => ho r)]; omega
  refine ⟨?_, ?_, ?_, ?_, ?_, ?_, ?_, ?_, ?_, ?_⟩
  · intro r hr
    have h1 := h.h1S r hr; have h2 := hms r
    rw [show (pSend s p q).gh = s.gh from rfl]
    refine ⟨h1.1, ?_, by omega⟩
    split <;> rename_i hcc <;> simp only [hcc, if_true] at h1
    · exact h1.2.1
    · simp at h1; omega
  · intro r hr; rw [hmr]; exact h.h1R r hr
  · exact h.h2
  · exact h.h3
  · intro hs ht ha
    have := (h.h4 hs ht ha).1 p hp; omega
  · intro r hr hc hw'; rw [hmr, ho]; rw [hwl] at hw'; exact h.h5 r hr hc hw'
  · show sumTo s.n _ = sumTo s.n _ + _
    rw [hsum, htr, sumTo_congr (fun r _ => hmr r)]; have := h.h6; omega
  · intro r hr hb; rw [hwl, ho, hmr]; rw [hst] at hb; exact h.h8 r hr hb
  · intro hle; have : s.n ≤ 1 := hle; omega
  · intro hs r hr; rw [hst]; exact h.nr hs r hr

def pRstart (s : State) (k q : Nat) (x : St) : State :=
  setP { s with net := s.net.eraseIdx k } q { s.procs q with opn := (s.procs q).opn + 1, st := x }

theorem Hist.rstart {s : State} (h : Hist s) {k : Nat} {pk : Packet} {x : St}
    (hk : s.net[k]? = some pk) (happ : isApp pk = true) (hq : pk.dst < s.n)
    (hc : cls x = cls (s.procs pk.dst).st) : Hist (pRstart s k pk.dst x) := by
  generalize pk.dst = q at *
  have hne : ∀ r, r ≠ q → (pRstart s k q x).procs r = s.procs r := by intro r e; simp [pRstart, setP, e]
  have hpp : (pRstart s k q x).procs q = { s.procs q with opn := (s.procs q).opn + 1, st := x } := by
    simp [pRstart, setP]
  have hms : ∀ r, ((pRstart s k q x).procs r).ms = (s.procs r).ms := by
    intro r; by_cases e : r = q
    · subst e; rw [hpp]
    · rw [hne r e]
  have hmr : ∀ r, ((pRstart s k q x).procs r).mr = (s.procs r).mr := by
    intro r; by_cases e : r = q
    · subst e; rw [hpp]
    · rw [hne r e]
  have hwl : ∀ r, ((pRstart s k q x).procs r).wl = (s.procs r).wl := by
    intro r; by_cases e : r = q
    · subst e; rw [hpp]; rfl
    · rw [hne r e]
  have hcnt := cnt_eraseIdx isApp hk
  rw [happ] at hcnt
  have hapos : 0 < cnt isApp s.net := by simp at hcnt; omega
  have hsum : sumTo s.n (fun r => ((pRstart s k q x).procs r).opn) = sumTo s.n (fun r => (s.procs r).opn) + 1 := by
    have := sumTo_change (f := fun r => (s.procs r).opn) (g := fun r => ((pRstart s k q x).procs r).opn) hq
      (fun r _ e => by simp only [hne r e])
    simp only [hpp] at this; omega
  have htr : transit (pRstart s k q x) = transit s := by
    unfold transit
    rw [appCount_eq_cnt, appCount_eq_cnt]
    have : cnt isApp (pRstart s k q x).net + 1 = cnt isApp s.net := by simpa [pRstart, setP] using hcnt
    rw [show (pRstart s k q x).n = s.n from rfl, hsum]; omega
  have htpos : 0 < transit s := by unfold transit; rw [appCount_eq_cnt]; omega
  refine ⟨?_, ?_, ?_, ?_, ?_, ?_, ?_, ?_, ?_, ?_⟩
  · intro r hr; rw [hms]; exact h.h1S r hr
  · intro r hr; rw [hmr]; exact h.h1R r hr
  · exact h.h2
  · exact h.h3
  · intro hs ht ha
    have := (h.h4 hs ht ha).2; omega
  · intro r hr hcc hw
    rw [hmr]; rw [hwl] at hw
    by_cases e : r = q
    · subst e; rw [hpp]; right; simp
    · rw [hne r e]; exact h.h5 r hr hcc hw
  · show sumTo s.n _ = sumTo s.n _ + _
    rw [htr, sumTo_congr (fun r _ => hms r), sumTo_congr (fun r _ => hmr r)]; exact h.h6
  · intro r hr hb
    by_cases e : r = q
    · subst e; rw [hpp]; right; left; simp
    · rw [hne r e] at hb ⊢; exact h.h8 r hr hb
  · intro hle; have := h.s1 hle; omega
  · intro hs r hr
    by_cases e : r = q
    · subst e; rw [hpp]; show cls x ≠ 0; rw [hc]; exact h.nr hs r hr
    · rw [hne r e]; exact h.nr hs r hr

def pRend (s : State) (q : Nat) : State :=
  setP s q { s.procs q with opn := (s.procs q).opn - 1, mr := (s.procs q).mr + 1 }

theorem Hist.rend {s : State} (h : Hist s) {q : Nat} (hq : q < s.n) (ho : 0 < (s.procs q).opn) :
    Hist (pRend s q) := by
  have hne : ∀ r, r ≠ q → (pRend s q).procs r = s.procs r := by intro r e; simp [pRend, setP, e]
  have hpp : (pRend s q).procs q = { s.procs q with opn := (s.procs q).opn - 1, mr := (s.procs q).mr + 1 } := by
    simp [pRend, setP]
  have hms : ∀ r, ((pRend s q).procs r).ms = (s.procs r).ms := by
    intro r; by_cases e : r = q
    · subst e; rw [hpp]
    · rw [hne r e]
  have hwl : ∀ r, ((pRend s q).procs r).wl = (s.procs r).wl := by
    intro r; by_cases e : r = q
    · subst e; rw [hpp]; rfl
    · rw [hne r e]
  have hst : ∀ r, ((pRend s q).procs r).st = (s.procs r).st := by
    intro r; by_cases e : r = q
    · subst e; rw [hpp]
    · rw [hne r e]
  have hmr : ∀ r, (s.procs r).mr ≤ ((pRend s q).procs r).mr := by
    intro r; by_cases e : r = q
    · subst e; rw [hpp]; simp
    · rw [hne r e]; exact Nat.le_refl _
  have hsumo : sumTo s.n (fun r => ((pRend s q).procs r).opn) + 1 = sumTo s.n (fun r => (s.procs r).opn) := by
    have := sumTo_change (f := fun r => (s.procs r).opn) (g := fun r => ((pRend s q).procs r).opn) hq
      (fun r _ e => by simp only [hne r e])
    simp only [hpp] at this; omega
  have hsumr : sumTo s.n (fun r => ((pRend s q).procs r).mr) = sumTo s.n (fun r => (s.procs r).mr) + 1 := by
    have := sumTo_change (f := fun r => (s.procs r).mr) (g := fun r => ((pRend s q).procs r).mr) hq
      (fun r _ e => by simp only [hne r e])
    simp only [hpp] at this; omega
  have htr : transit (pRend s q) + 1 = transit s := by
    unfold transit
    rw [show (pRend s q).net = s.net from rfl, show (pRend s q).n = s.n from rfl]; omega
  have htpos : 0 < transit s := by omega
  refine ⟨?_, ?_, ?_, ?_, ?_, ?_, ?_, ?_, ?_, ?_⟩
  · intro r hr; rw [hms]; exact h.h1S r hr
  · intro r hr
    have h1 := h.h1R r hr; have h2 := hmr r
    rw [show (pRend s q).gh = s.gh from rfl]
    refine ⟨h1.1, ?_, by omega⟩
    split <;> rename_i hcc <;> simp only [hcc, if_true] at h1
    · exact h1.2.1
    · simp at h1; omega
  · exact h.h2
  · exact h.h3
  · intro hs ht ha
    have := (h.h4 hs ht ha).1 q hq; omega
  · intro r hr hcc hw
    rw [hwl] at hw
    by_cases e : r = q
    · subst e; rw [hpp]; left
      have := (h.h1R r hr).2.2; show (s.gh r).curR < (s.procs r).mr + 1; omega
    · rw [hne r e]; exact h.h5 r hr hcc hw
  · show sumTo s.n _ = sumTo s.n _ + _
    rw [hsumr, sumTo_congr (fun r _ => hms r)]; have := h.h6; omega
  · intro r hr hb
    by_cases e : r = q
    · subst e; rw [hpp]; right; right
      have := (h.h1R r hr).2.2; show (s.gh r).curR < (s.procs r).mr + 1; omega
    · rw [hne r e] at hb ⊢; exact h.h8 r hr hb
  · intro hle; have := h.s1 hle; omega
  · intro hs r hr; rw [hst]; exact h.nr hs r hr

end ParsecVerif.FourCounter
