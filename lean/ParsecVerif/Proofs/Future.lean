import ParsecVerif.Model.Future
/-!
  Helper lemmas for the futures model (C29): list bookkeeping for `set`, `countP`, `map`.
-/
namespace ParsecVerif.FutureL

/-- replacing one entry moves one unit of a `countP` -/
theorem countP_set_move {α} (p : α → Bool) (l : List α) (i : Nat) (y : α) (h : i < l.length) :
    (l.set i y).countP p + (if p l[i] then 1 else 0) = l.countP p + (if p y then 1 else 0) := by
  induction l generalizing i with
  | nil => simp at h
  | cons a t ih =>
    cases i with
    | zero =>
      simp only [List.set_cons_zero, List.countP_cons, List.getElem_cons_zero]
      omega
    | succ k =>
      simp only [List.length_cons, Nat.add_lt_add_iff_right] at h
      have := ih k h
      simp only [List.set_cons_succ, List.countP_cons, List.getElem_cons_succ]
      omega

/-- mapping a function that does not see the change -/
theorem map_set_same {α β} (f : α → β) (l : List α) (i : Nat) (y : α)
    (h : ∀ x, l[i]? = some x → f y = f x) : (l.set i y).map f = l.map f := by
  induction l generalizing i with
  | nil => simp
  | cons a t ih =>
    cases i with
    | zero => simp [h a (by simp)]
    | succ k =>
      simp only [List.set_cons_succ, List.map_cons]
      rw [ih k (fun x hx => h x (by simpa using hx))]

theorem countP_eq_zero_of_all {α} (p : α → Bool) (l : List α) (h : ∀ x ∈ l, p x = false) : l.countP p = 0 := by
  induction l with
  | nil => rfl
  | cons a t ih =>
    have ha := h a (by simp)
    simp [ha, ih (fun x hx => h x (by simp [hx]))]

/-- in a duplicate-free list an element determines its index -/
theorem nodup_getElem?_inj {α} (l : List α) (hn : l.Nodup) (i j : Nat) (a : α)
    (hi : l[i]? = some a) (hj : l[j]? = some a) : i = j := by
  induction l generalizing i j with
  | nil => simp at hi
  | cons b t ih =>
    have hnt := (List.nodup_cons.1 hn)
    cases i with
    | zero =>
      cases j with
      | zero => rfl
      | succ j' =>
        simp at hi hj
        subst hi
        exact absurd (List.mem_of_getElem? hj) hnt.1
    | succ i' =>
      cases j with
      | zero =>
        simp at hi hj
        subst hj
        exact absurd (List.mem_of_getElem? hi) hnt.1
      | succ j' =>
        simp at hi hj
        rw [ih hnt.2 i' j' hi hj]

/-- an invariant of every step holds after every schedule -/
theorem foldl_inv {σ} (P : σ → Prop) (f : σ → Nat → σ) (hstep : ∀ s t, P s → P (f s t)) (sched : List Nat) (s : σ) (h : P s) :
    P (sched.foldl f s) := by
  induction sched generalizing s with
  | nil => exact h
  | cons t r ih => exact ih _ (hstep s t h)

end ParsecVerif.FutureL
