/-
  The steps `lt` (lock of the top-level bucket and the work on it) and `nx` (read of `cur->next`).
-/
import ParsecVerif.Proofs.HashTableStepB

namespace ParsecVerif.HashTable

theorem holdsTop_of_acq {u : Nat} {s s1 : Store} {k : Nat} (a : Acq u s s1 (s.hf k s.top)) : HoldsTop s1 u k := by
  unfold HoldsTop; rw [a.e.top, a.e.hf]; exact a.lockSelf

theorem guar_of_pre {u : Nat} {s s1 : Store} (p : Pre u s s1) : Guar u s s1 := Guar.same p.e p.lockG p.abs

/-- the operation neither waits with an `ins` nor holds a removed item -/
theorem noStatus_find {th : Thread} {k : Nat} (h : th.op = .find k) : (∀ k', ¬ PendIns th k') ∧ (∀ k', ¬ RmHold th k') :=
  ⟨fun k' hp => (by obtain ⟨_, i, hi⟩ := hp; rw [h] at hi; cases hi), fun k' hr => (by have := hr.1; rw [h] at this; cases this)⟩

theorem noStatus_foi {th : Thread} {k i : Nat} (h : th.op = .foi k i) : (∀ k', ¬ PendIns th k') ∧ (∀ k', ¬ RmHold th k') :=
  ⟨fun k' hp => (by obtain ⟨_, j, hj⟩ := hp; rw [h] at hj; cases hj), fun k' hr => (by have := hr.1; rw [h] at this; cases this)⟩

/-- `ins`: chain the item at the front of the top-level bucket -/
theorem stepOk_lt_ins {s s1 : Store} {thr : List Thread} {u now : Nat} {th : Thread} (hS : SInv s thr) (hu : thr[u]? = some th)
    (hpc : th.pc = .lt) {k i : Nat} (hop : th.op = .ins k i) (hok : plainKey k = true) (a : Acq u s s1 (s.hf k s.top)) :
    StepOk s thr u (linAt (pushNew s1 (s.hf k s.top) ⟨k, i⟩) u now th (.ult 0) 0) := by
  have hp : PendIns th k := ⟨Or.inr hpc, i, hop⟩
  obtain ⟨g1, g2, g3⟩ := hS.user.uIns u th k hu hp
  obtain ⟨p1, p2, p3, p4, p5⟩ := push_new hS hu a (it := ⟨k, i⟩) rfl g2 { th with pc := .ult 0, tLin := now }
    (by rw [hpc]; rfl) (fun T => by rw [hpc]; rfl)
  refine StepOk.mk' (pushNew s1 (s.hf k s.top) ⟨k, i⟩) { th with pc := .ult 0, tLin := now } rfl rfl
    ⟨p1, p2, p3, ?_, ?_⟩ ?_ (fun t ht _ _ _ => p5.rely ht)
  · exact hS.excl.set_same hu _ (fun _ => by rw [hpc]; rfl) (fun h => by cases h)
  · refine userInv_new_item (m := pushNew s1 (s.hf k s.top) ⟨k, i⟩) hS.user hu (it := ⟨k, i⟩) ?_ a.kheld (fun _ => g1)
      (fun t b hb hne => g3 t b hb hne) ?_ ?_
    · show _ :: s1.abs = _; rw [a.abs]
    · exact not_pendIns_of_pc (by simp) (by simp)
    · intro k' hr; have := hr.1; simp only at this; rw [hop] at this; cases this
  · show HoldsTop _ u th.op.key
    rw [hop]; exact p4

/-- `find` / find-or-insert: the key is in the top-level bucket -/
theorem stepOk_lt_found {s s1 : Store} {thr : List Thread} {u now : Nat} {th : Thread} (hS : SInv s thr) (hu : thr[u]? = some th)
    (hpc : th.pc = .lt) (hns : (∀ k', ¬ PendIns th k') ∧ (∀ k', ¬ RmHold th k')) (hnr : ∀ k', th.op ≠ .rem k')
    (a : Acq u s s1 (s.hf th.op.key s.top)) (r : Nat) :
    StepOk s thr u (linAt s1 u now th (.ult r) r) := by
  refine StepOk.mk' s1 { th with pc := .ult r, tLin := now } rfl rfl
    ⟨hS.st.congr a.e, ?_, ?_, ?_, ?_⟩ (holdsTop_of_acq a) (fun t ht _ _ _ => (guar_of_pre a.pre).rely ht)
  · exact hS.used.same hu _ a.e.top a.e.nb0 (fun T _ => a.used T) (fun T b _ => a.e.items T b) (fun T => by rw [hpc]; rfl)
  · exact hS.ab.same hu _ a.e a.abs (fun y _ h => by rw [hpc] at h; cases h)
  · exact hS.excl.set_same hu _ (fun _ => by rw [hpc]; rfl) (fun h => by cases h)
  · refine (hS.user.set_same hu (sameStatus_of_none hns.1 hns.2 (not_pendIns_of_pc (by simp) (by simp)) ?_)).congr a.abs a.kheld
    exact fun k' hr => hnr k' hr.1

/-- the key is not in the top-level bucket: walk through the older tables -/
theorem stepOk_lt_miss {s s1 : Store} {thr : List Thread} {u : Nat} {th : Thread} (hS : SInv s thr) (hu : thr[u]? = some th)
    (hpc : th.pc = .lt) (hok : OpOk th.op) (hni : NoIns th.op)
    (a : Acq u s s1 (s.hf th.op.key s.top)) (hsc : scan (s.bk s.top (s.hf th.op.key s.top)).items th.op.key = none) :
    StepOk s thr u ⟨s1, th.goto (.nx s1.top), none⟩ := by
  refine StepOk.mk' s1 (th.goto (.nx s1.top)) rfl rfl
    ⟨hS.st.congr a.e, ?_, ?_, ?_, ?_⟩ ?_ (fun t ht _ _ _ => (guar_of_pre a.pre).rely ht)
  · exact hS.used.same hu _ a.e.top a.e.nb0 (fun T _ => a.used T) (fun T b _ => a.e.items T b) (fun T => by rw [hpc]; rfl)
  · exact hS.ab.same hu _ a.e a.abs (fun y _ h => by rw [hpc] at h; cases h)
  · exact hS.excl.set_same hu _ (fun _ => by rw [hpc]; rfl) (fun h => by cases h)
  · refine (hS.user.set_same hu ?_).congr a.abs a.kheld
    refine ⟨fun k => ⟨fun h => absurd h (not_pendIns_of_pc (by simp [Thread.goto]) (by simp [Thread.goto]) k),
      fun h => absurd h (not_pendIns_of_op hni k)⟩, fun k => ?_⟩
    unfold RmHold Thread.goto; simp only [hpc, Pc.linRes]
  · show TInv s1 u th.op (.nx s1.top)
    refine ⟨hok, hni, holdsTop_of_acq a, by rw [a.e.nb0, a.e.top]; exact hS.st.top, Nat.le_refl _, ?_⟩
    intro T h1 h2 hk
    have hT : T = s1.top := Nat.le_antisymm h2 h1
    rw [hT, a.e.keyIn, a.e.top] at hk
    obtain ⟨it, hit, hkey⟩ := hk
    exact scan_none hsc it hit hkey

/-- `rem`: the key is in the top-level bucket -/
theorem stepOk_lt_rem {s s1 : Store} {thr : List Thread} {u now : Nat} {th : Thread} (hS : SInv s thr) (hu : thr[u]? = some th)
    (hpc : th.pc = .lt) {k : Nat} (hop : th.op = .rem k) (a : Acq u s s1 (s.hf k s.top)) {it : Item}
    (hit : it ∈ (s.bk s.top (s.hf k s.top)).items) (hkey : it.key = k) :
    StepOk s thr u (linAt (eraseRm s1 s1.top (s.hf k s.top) it) u now th (.ult it.id) it.id) := by
  have hT : Tin s s.top := ⟨hS.st.top, Nat.le_refl _⟩
  rw [a.e.top]
  obtain ⟨p1, p2, p3, p4⟩ := erase_rm hS hu a.pre hT hit { th with pc := .ult it.id, tLin := now } (by rw [hpc]; rfl)
  refine StepOk.mk' (eraseRm s1 s.top (s.hf k s.top) it) { th with pc := .ult it.id, tLin := now } rfl rfl
    ⟨p1, ?_, p2, ?_, ?_⟩ ?_ (fun t ht _ _ _ => p3.rely ht)
  · refine hS.used.same hu _ a.e.top a.e.nb0 (fun T _ => ?_) (fun T b hT' => ?_) (fun T => by rw [hpc]; rfl)
    · show ((s1.eraseIt s.top (s.hf k s.top) it).tab T).used = _
      rw [used_eraseIt, a.used]
    · rw [p4]
      have : ¬ (T = s.top ∧ b = s.hf k s.top) := fun hc => by omega
      rw [if_neg this]
  · exact hS.excl.set_same hu _ (fun _ => by rw [hpc]; rfl) (fun h => by cases h)
  · refine userInv_rem_item (m := eraseRm s1 s.top (s.hf k s.top) it) hS.user hS.ab.absKeys hu (hS.ab.absIn it ⟨s.top, _, hT, hit⟩)
      ?_ a.kheld (not_pendIns_of_pc (by simp) (by simp)) ?_
    · show s1.abs.erase it = _; rw [a.abs]
    intro k' hr
    have := hr.1; simp only at this; rw [hop] at this; cases this; exact hkey.symm
  · show HoldsTop (eraseRm s1 s.top (s.hf k s.top) it) u th.op.key
    rw [hop]
    show ((s1.eraseIt s.top (s.hf k s.top) it).bk s1.top (s1.hf k s1.top)).lock = u + 1
    rw [a.e.top, a.e.hf, lock_eraseIt]; exact a.lockSelf

theorem stepOk_lt {s : Store} {thr : List Thread} {u now : Nat} {th : Thread} (hS : SInv s thr) (hu : thr[u]? = some th)
    (hpc : th.pc = .lt) (hT : TInv s u th.op th.pc) : StepOk s thr u (stepLt s u now th) := by
  unfold stepLt
  split
  · rename_i hfree
    have a := acq_setLock (u := u) hfree
    unfold tbk at a ⊢
    generalize s.setLock s.top (s.hf th.op.key s.top) (u + 1) = s1 at a ⊢
    have hok : OpOk th.op := by rw [hpc] at hT; exact hT
    have hitems : (s1.bk s1.top (s.hf th.op.key s.top)).items = (s.bk s.top (s.hf th.op.key s.top)).items := by
      rw [a.e.top, a.e.items]
    cases hop : th.op with
    | ins k i =>
      rw [hop] at a hok
      exact stepOk_lt_ins hS hu hpc hop hok a
    | find k =>
      simp only [ltBody]
      rw [hop] at hitems a
      simp only [Op.key] at hitems a ⊢
      rw [hitems]
      split
      · have a' : Acq u s s1 (s.hf th.op.key s.top) := by rw [hop]; exact a
        exact stepOk_lt_found hS hu hpc (noStatus_find hop) (fun k' h => by rw [hop] at h; cases h) a' _
      · rename_i hsc
        have a' : Acq u s s1 (s.hf th.op.key s.top) := by rw [hop]; exact a
        exact stepOk_lt_miss hS hu hpc (by rw [hop]; trivial) (by rw [hop]; trivial) a' (by rw [hop]; exact hsc)
    | foi k i =>
      simp only [ltBody]
      rw [hop] at hitems a hok
      simp only [Op.key] at hitems a ⊢
      rw [hitems]
      split
      · have a' : Acq u s s1 (s.hf th.op.key s.top) := by rw [hop]; exact a
        exact stepOk_lt_found hS hu hpc (noStatus_foi hop) (fun k' h => by rw [hop] at h; cases h) a' _
      · rename_i hsc
        have a' : Acq u s s1 (s.hf th.op.key s.top) := by rw [hop]; exact a
        exact stepOk_lt_miss hS hu hpc (by rw [hop]; exact hok) (by rw [hop]; trivial) a' (by rw [hop]; exact hsc)
    | rem k =>
      simp only [ltBody]
      rw [hop] at hitems a
      simp only [Op.key] at hitems a ⊢
      rw [hitems]
      split
      · rename_i it hsc
        have := scan_some hsc
        exact stepOk_lt_rem hS hu hpc hop a this.1 this.2
      · rename_i hsc
        have a' : Acq u s s1 (s.hf th.op.key s.top) := by rw [hop]; exact a
        exact stepOk_lt_miss hS hu hpc (by rw [hop]; trivial) (by rw [hop]; trivial) a' (by rw [hop]; exact hsc)
  · exact stepOk_stay hS hu hT

/-! ## `nx`: read of `cur->next` -/

/-- an item carried by a thread: that thread holds the top-level bucket of the item's key -/
theorem inHand_holds {s : Store} {t : Nat} {op : Op} {pc : Pc} {y : Item} (h : TInv s t op pc) (hh : pc.inHand = some y) :
    HoldsTop s t y.key ∧ ¬ Stored s y := by
  cases pc with
  | du hd pv it =>
    obtain ⟨_, _, h3, _, _, _, _, h8, h9, _, _⟩ := h
    cases hh; rw [h8]; exact ⟨h3, h9⟩
  | cn hd pv nv it =>
    obtain ⟨_, _, h3, _, _, _, _, h8, h9, _⟩ := h
    cases hh; rw [h8]; exact ⟨h3, h9⟩
  | idle => cases hh
  | rd => cases hh
  | lt => cases hh
  | nx _ => cases hh
  | lo _ _ => cases hh
  | ulo _ _ => cases hh
  | ult _ => cases hh
  | rul _ _ _ => cases hh
  | wr _ _ => cases hh
  | wul _ => cases hh

/-- a thread that holds the top-level bucket of `k`, carries nothing, and has seen `k` in no table: `k` is not in the map -/
theorem key_absent {s : Store} {thr : List Thread} (hS : SInv s thr)
    (hAll : ∀ (t : Nat) (a : Thread), thr[t]? = some a → TInv s t a.op a.pc)
    {u : Nat} {th : Thread} (hu : thr[u]? = some th) (hh : th.pc.inHand = none) {k : Nat} (hl : HoldsTop s u k)
    (hn : ∀ T, Tin s T → ¬ KeyIn s k T) : ∀ y, y ∈ s.abs → y.key ≠ k := by
  intro y hy hk
  rcases hS.ab.absOut y hy with h | h
  · obtain ⟨T, b, hT, hm⟩ := h
    have hb := hS.st.place T b y hT hm
    rw [hk] at hb
    exact hn T hT ⟨y, by rw [← hb]; exact hm, hk⟩
  · obtain ⟨t, a, ha, _, hin⟩ := h
    have := (inHand_holds (hAll t a ha) hin).1
    rw [hk] at this
    unfold HoldsTop at hl this
    rw [hl] at this
    have htu : u = t := Nat.succ.inj this
    subst htu
    rw [hu] at ha; cases ha
    rw [hh] at hin; cases hin

theorem stepOk_nx {s : Store} {thr : List Thread} {u now : Nat} {th : Thread} (hS : SInv s thr)
    (hAll : ∀ (t : Nat) (a : Thread), thr[t]? = some a → TInv s t a.op a.pc) (hu : thr[u]? = some th)
    {cur : Nat} (hpc : th.pc = .nx cur) (hT : TInv s u th.op th.pc) : StepOk s thr u (stepNx s u now th cur) := by
  rw [hpc] at hT
  obtain ⟨h1, h2, h3, h4, h5, h6⟩ := hT
  have hcur : Tin s cur := ⟨h4, h5⟩
  have hnx := hS.st.nxt cur hcur
  have hnone : th.pc.inHand = none := by rw [hpc]; rfl
  have hstat : (∀ k', ¬ PendIns th k') ∧ (∀ k', ¬ RmHold th k') :=
    ⟨not_pendIns_of_pc (by rw [hpc]; simp) (by rw [hpc]; simp), not_rmHold_of_linRes (by rw [hpc]; rfl)⟩
  unfold stepNx
  split
  · rename_i hz
    have hall : ∀ T, Tin s T → ¬ KeyIn s th.op.key T := by
      intro T hT
      rcases Nat.lt_or_ge T cur with hlt | hge
      · intro hk
        obtain ⟨y, hy, _⟩ := hk
        have := hS.st.skip cur T hcur (by rw [hz]; have := hT.1; have := hS.st.nb0; omega) hlt hT.1 (s.hf th.op.key T)
        rw [this] at hy; cases hy
      · exact h6 T hge hT.2
    have habs := key_absent hS hAll hu hnone h3 hall
    cases hop : th.op with
    | foi k i =>
      simp only
      rw [hop] at h1 h3 habs
      simp only [Op.key] at h3 habs
      have a : Acq u s s (s.hf k s.top) := acq_refl h3
      obtain ⟨p1, p2, p3, p4, p5⟩ := push_new hS hu a (it := ⟨k, i⟩) rfl habs { th with pc := .ult i, tLin := now }
        hnone (fun T => by rw [hpc]; rfl)
      have htb : tbk s th = s.hf k s.top := by unfold tbk; rw [hop]; rfl
      rw [htb]
      refine StepOk.mk' (pushNew s (s.hf k s.top) ⟨k, i⟩) { th with pc := .ult i, tLin := now } rfl rfl
        ⟨p1, p2, p3, ?_, ?_⟩ ?_ (fun t ht _ _ _ => p5.rely ht)
      · exact hS.excl.set_same hu _ (fun _ => by rw [hpc]; rfl) (fun h => by cases h)
      · refine userInv_new_item (m := pushNew s (s.hf k s.top) ⟨k, i⟩) hS.user hu (it := ⟨k, i⟩) rfl rfl ?_ ?_ ?_ ?_
        · intro hp; rw [h1] at hp; cases hp
        · intro t a ha _
          refine ⟨fun hp => ?_, fun hr => ?_⟩
          · have := hS.user.uPlain k (hS.user.uIns t a k ha hp).1
            rw [h1] at this; cases this
          · have := hr.2.1; rw [h1] at this; cases this
        · exact not_pendIns_of_pc (by simp) (by simp)
        · intro k' hr; have := hr.1; simp only at this; rw [hop] at this; cases this
      · show HoldsTop _ u th.op.key
        rw [hop]; exact p4
    | ins k i => rw [hop] at h2; exact h2.elim
    | find k =>
      simp only
      refine StepOk.mk' s { th with pc := .ult 0, tLin := now } rfl rfl ⟨hS.st, ?_, ?_, ?_, ?_⟩ h3 (fun t _ _ _ _ => Rely.refl t s)
      · exact hS.used.same hu _ rfl rfl (fun T _ => rfl) (fun T b _ => rfl) (fun T => by rw [hpc]; rfl)
      · exact hS.ab.same hu _ (SameStore.refl s) rfl (fun y _ h => by rw [hnone] at h; cases h)
      · exact hS.excl.set_same hu _ (fun _ => by rw [hpc]; rfl) (fun h => by cases h)
      · refine hS.user.set_same hu (sameStatus_of_none hstat.1 hstat.2 (not_pendIns_of_pc (by simp) (by simp)) ?_)
        intro k' hr; obtain ⟨_, _, r, hr1, hr2⟩ := hr; cases hr1; exact hr2 rfl
    | rem k =>
      simp only
      refine StepOk.mk' s { th with pc := .ult 0, tLin := now } rfl rfl ⟨hS.st, ?_, ?_, ?_, ?_⟩ h3 (fun t _ _ _ _ => Rely.refl t s)
      · exact hS.used.same hu _ rfl rfl (fun T _ => rfl) (fun T b _ => rfl) (fun T => by rw [hpc]; rfl)
      · exact hS.ab.same hu _ (SameStore.refl s) rfl (fun y _ h => by rw [hnone] at h; cases h)
      · exact hS.excl.set_same hu _ (fun _ => by rw [hpc]; rfl) (fun h => by cases h)
      · refine hS.user.set_same hu (sameStatus_of_none hstat.1 hstat.2 (not_pendIns_of_pc (by simp) (by simp)) ?_)
        intro k' hr; obtain ⟨_, _, r, hr1, hr2⟩ := hr; cases hr1; exact hr2 rfl
  · rename_i hz
    refine StepOk.mk' s (th.goto (.lo (s.tab cur).next cur)) rfl rfl ⟨hS.st, ?_, ?_, ?_, ?_⟩ ?_ (fun t _ _ _ _ => Rely.refl t s)
    · exact hS.used.same hu _ rfl rfl (fun T _ => rfl) (fun T b _ => rfl) (fun T => by rw [hpc]; rfl)
    · exact hS.ab.same hu _ (SameStore.refl s) rfl (fun y _ h => by rw [hnone] at h; cases h)
    · exact hS.excl.set_same hu _ (fun _ => by rw [hpc]; rfl) (fun h => by cases h)
    · exact hS.user.set_same hu (sameStatus_goto (by rw [hpc]; simp) (by rw [hpc]; rfl))
    · show TInv s u th.op (.lo (s.tab cur).next cur)
      refine ⟨h1, h2, h3, ?_, hnx.1, h5, ?_⟩
      · rcases hnx.2 with h | h
        · exact absurd h hz
        · exact h
      · intro T a b
        rcases Nat.lt_or_ge T cur with hlt | hge
        · intro hk
          obtain ⟨y, hy, _⟩ := hk
          have hnb : s.nb0 ≤ T := by
            rcases hnx.2 with h | h
            · exact absurd h hz
            · omega
          have := hS.st.skip cur T hcur (by omega) hlt hnb (s.hf th.op.key T)
          rw [this] at hy; cases hy
        · exact h6 T hge b

end ParsecVerif.HashTable
