import ParsecVerif.Proofs.FutureDC
/-!
  Lock discipline of the data-copy future machine (C29): every future lock is held by exactly one thread when taken.
  In particular the scan of the nested list and the creation of a nested future happen under the base future's lock.
-/
namespace ParsecVerif.FutureDC
open ParsecVerif.Future ParsecVerif.FutureL

/-- thread parked at `pc` holds the lock of future `f` -/
def holds (f : Nat) : DPc → Bool
  | .unlockTop g _ => g == f
  | .lockScan _ _ => f == 0
  | .unlockScan i _ => f == 0 || f == i + 1
  | .punlockRet _ _ => f == 0
  | .punlockNew _ _ => f == 0
  | _ => false

def nHold (s : DState) (f : Nat) : Nat := s.thr.countP (fun th => holds f th.pc)

/-- every lock is held by exactly one thread when taken, by none when free -/
def MInv (s : DState) : Prop := ∀ f, nHold s f = if lockedOf s f then 1 else 0

theorem lockedOf_setThr (s : DState) (t : Nat) (th : DThread) (f : Nat) : lockedOf (setThr s t th) f = lockedOf s f := rfl

theorem lockedOf_modFut (s : DState) (f : Nat) (g : Fut → Fut) (f' : Nat) :
    lockedOf (modFut s f g) f' = if f' = f then (match s.futs[f]? with | some fu => (g fu).lock | none => false) else lockedOf s f' := by
  unfold modFut lockedOf
  cases hf : s.futs[f]? with
  | none =>
    by_cases he : f' = f
    · subst he; simp [hf]
    · simp [he]
  | some fu =>
    have hlt : f < s.futs.length := (List.getElem?_eq_some_iff.1 hf).1
    by_cases he : f' = f
    · subst he; simp [hlt]
    · simp only [he, if_false]
      rw [List.getElem?_set_ne (Ne.symm he)]

theorem lockedOf_trigger (cfg : Cfg) (s : DState) (f f' : Nat) :
    lockedOf (trigger cfg s f) f' = if f' = f then (s.futs[f]?).isSome else lockedOf s f' := by
  unfold trigger
  cases hf : s.futs[f]? with
  | none =>
    by_cases he : f' = f
    · subst he; simp [lockedOf, hf]
    · simp [he]
  | some fu =>
    have hlt : f < s.futs.length := (List.getElem?_eq_some_iff.1 hf).1
    simp only []
    by_cases he : f' = f
    · subst he
      simp only [if_true, Option.isSome_some]
      split
      · simp [lockedOf, hlt, lockF]
      · split
        · simp [lockedOf, hlt, trigAsync]
        · simp [lockedOf, hlt, trigSync]
    · simp only [he, if_false]
      split
      · simp only [lockedOf]; rw [List.getElem?_set_ne (Ne.symm he)]
      · split
        · simp only [lockedOf]; rw [List.getElem?_set_ne (Ne.symm he)]
        · simp only [lockedOf]; rw [List.getElem?_set_ne (Ne.symm he)]

theorem lockedOf_append (s : DState) (r : Nat) (thr : List DThread) (f : Nat) :
    lockedOf { s with futs := s.futs ++ [newFut r], thr := thr } f = lockedOf s f := by
  unfold lockedOf
  simp only []
  by_cases hlt : f < s.futs.length
  · rw [List.getElem?_append_left hlt]
  · have hge : s.futs.length ≤ f := Nat.le_of_not_lt hlt
    rw [List.getElem?_append_right hge, List.getElem?_eq_none hge]
    by_cases h0 : f - s.futs.length = 0
    · simp [h0, newFut]
    · have : [newFut r][f - s.futs.length]? = none := by
        apply List.getElem?_eq_none; simp; omega
      rw [this]

/-- result of the scan: the thread keeps the base lock and nothing else -/
theorem applyScan_effect (cfg : Cfg) (s : DState) (t : Nat) (th : DThread) (r i : Nat) :
    (∀ f, lockedOf (applyScan cfg s t th r i) f = lockedOf s f) ∧
    ∃ th', (applyScan cfg s t th r i).thr = s.thr.set t th' ∧ ∀ f, holds f th'.pc = (f == 0) := by
  unfold applyScan
  split
  · exact ⟨fun _ => rfl, _, rfl, fun _ => rfl⟩
  · exact ⟨fun _ => rfl, _, rfl, fun _ => rfl⟩
  · exact ⟨fun f => lockedOf_append s r _ f, _, rfl, fun _ => rfl⟩

theorem holds_fin (th : DThread) (op : DOp) (v : Nat) (f : Nat) : holds f (dfin th op v).pc = false := by
  rcases dfin_pc th op v with h | h <;> rw [h] <;> rfl

theorem enterTop_effect (s : DState) (t : Nat) (th : DThread) (g r : Nat) :
    (∀ f, lockedOf (enterTop s t th g r) f = lockedOf s f) ∧
    ∃ th', (enterTop s t th g r).thr = s.thr.set t th' ∧ ∀ f, holds f th'.pc = false := by
  unfold enterTop
  split
  · exact ⟨fun _ => rfl, _, rfl, fun f => holds_fin th _ _ f⟩
  · exact ⟨fun _ => rfl, _, rfl, fun _ => rfl⟩

/-- reassembling the lock invariant: the balance of every lock is kept -/
theorem minv_mk {s s' : DState} {t : Nat} {th th' : DThread} (h : MInv s) (hi : t < s.thr.length) (hx : s.thr[t] = th)
    (hthr : s'.thr = s.thr.set t th')
    (hbal : ∀ f, (if lockedOf s' f then 1 else 0) + (if holds f th.pc then 1 else 0) =
                 (if lockedOf s f then 1 else 0) + (if holds f th'.pc then 1 else 0)) : MInv s' := by
  intro f
  have hmove := countP_set_move (fun th => holds f th.pc) s.thr t th' hi
  rw [hx] at hmove
  have hf := h f
  have hb := hbal f
  unfold nHold at hf ⊢
  rw [hthr]
  omega


theorem modFut_thr (s : DState) (f : Nat) (g : Fut → Fut) : (modFut s f g).thr = s.thr := by
  unfold modFut; split <;> rfl

theorem trigger_thr (cfg : Cfg) (s : DState) (f : Nat) : (trigger cfg s f).thr = s.thr := by
  unfold trigger
  split
  · rfl
  · split
    · rfl
    · split <;> rfl

theorem minv_step (cfg : Cfg) (s : DState) (t : Nat) (hd : DInv cfg s) (h : MInv s) : MInv (dstep cfg s t) := by
  unfold dstep
  cases hpc : s.thr[t]? with
  | none => exact h
  | some th =>
    obtain ⟨hi, hx⟩ := getElem_of_getElem? hpc
    have hm : th ∈ s.thr := List.mem_of_getElem? hpc
    have hpcok := (hd.thr th hm).1
    simp only []
    cases hp : th.pc with
    | idle =>
      simp only []
      unfold didle
      split
      · exact minv_mk h hi hx rfl (by intro f; rw [hp]; rfl)
      · next r rest htd =>
        split
        · obtain ⟨hl, th', hthr, hh⟩ := enterTop_effect s t th 0 r
          exact minv_mk h hi hx hthr (by intro f; rw [hp, hl f, hh f]; rfl)
        · exact minv_mk h hi hx rfl (by intro f; rw [hp]; rfl)
      · next rest htd =>
        split
        · exact minv_mk h hi hx rfl (by intro f; rw [hp, holds_fin]; rfl)
        · next g v prest hpend =>
          refine minv_mk h hi hx (by show List.set _ t _ = _; rw [modFut_thr]) ?_
          intro f
          rw [hp, holds_fin, lockedOf_setThr, lockedOf_modFut]
          have hsame : lockedOf { s with pending := prest } f = lockedOf s f := rfl
          by_cases he : f = g
          · subst he
            rw [if_pos rfl]
            show (if (match s.futs[f]? with | some fu => fu.lock | none => false) = true then 1 else 0) + _ = _
            rfl
          · rw [if_neg he, hsame]; rfl
    | lockTop g r =>
      simp only []
      rw [hp] at hpcok
      by_cases hl : lockedOf s g = true
      · rw [if_pos hl]; exact h
      · rw [if_neg hl]
        obtain ⟨x, hxg, _⟩ := hpcok
        have hsome : (s.futs[g]?).isSome = true := by
          simp only [shapes, List.getElem?_map, Option.map_eq_some_iff] at hxg
          obtain ⟨fu, hfu, _⟩ := hxg
          simp [hfu]
        refine minv_mk h hi hx (by show List.set _ t _ = _; rw [trigger_thr]) ?_
        intro f
        rw [hp, lockedOf_setThr, lockedOf_trigger]
        by_cases he : f = g
        · subst he
          simp [hsome, hl, holds]
        · have : (g == f) = false := by simp; exact fun e => he e.symm
          simp [he, holds, this]
    | unlockTop g r =>
      simp only []
      refine minv_mk h hi hx (by show List.set _ t _ = _; rw [modFut_thr]) ?_
      intro f
      rw [hp, holds_fin, lockedOf_setThr, lockedOf_modFut]
      by_cases he : f = g
      · subst he
        have hcount := h f
        have hpos : 0 < nHold s f := List.countP_pos_iff.2 ⟨th, hm, by rw [hp]; simp [holds]⟩
        have hlk : lockedOf s f = true := by
          by_cases hl : lockedOf s f = true
          · exact hl
          · rw [if_neg hl] at hcount; omega
        have : (match s.futs[f]? with | some fu => (unlockF fu).lock | none => false) = false := by
          cases s.futs[f]? <;> rfl
        simp [this, hlk, holds]
      · have : (g == f) = false := by simp; exact fun e => he e.symm
        simp [he, holds, this]
    | plock r =>
      simp only []
      by_cases hl : lockedOf s 0 = true
      · rw [if_pos hl]; exact h
      · rw [if_neg hl]
        obtain ⟨hlk, th', hthr, hh⟩ := applyScan_effect cfg (modFut s 0 lockF) t th r 0
        refine minv_mk h hi hx (by rw [hthr, modFut_thr]) ?_
        intro f
        rw [hp, hlk f, hh f, lockedOf_modFut]
        have hne := hd.ne
        by_cases he : f = 0
        · subst he
          have : (match s.futs[0]? with | some fu => (lockF fu).lock | none => false) = true := by
            cases hf : s.futs with
            | nil => exact absurd hf hne
            | cons a l => rfl
          simp [this, hl, holds]
        · simp [he, holds]
    | lockScan i r =>
      simp only []
      rw [hp] at hpcok
      by_cases hl : lockedOf s (i + 1) = true
      · rw [if_pos hl]; exact h
      · rw [if_neg hl]
        obtain ⟨_, hlen, _⟩ := hpcok
        have hsome : (s.futs[i + 1]?).isSome = true := by
          have : i + 1 < s.futs.length := by simpa [shapes] using hlen
          simp [this]
        refine minv_mk h hi hx (by show List.set _ t _ = _; rw [trigger_thr]) ?_
        intro f
        rw [hp, lockedOf_setThr, lockedOf_trigger]
        by_cases he : f = i + 1
        · subst he
          simp [hsome, hl, holds]
        · by_cases h0 : f = 0
          · subst h0; simp [holds]
          · simp [he, h0, holds]
    | unlockScan i r =>
      simp only []
      cases hf : s.futs[i + 1]? with
      | none => exact h
      | some fu =>
        simp only []
        have hcount := h (i + 1)
        have hpos : 0 < nHold s (i + 1) := List.countP_pos_iff.2 ⟨th, hm, by rw [hp]; simp [holds]⟩
        have hlk1 : lockedOf s (i + 1) = true := by
          by_cases hl : lockedOf s (i + 1) = true
          · exact hl
          · rw [if_neg hl] at hcount; omega
        have hun : (match s.futs[i + 1]? with | some fu => (unlockF fu).lock | none => false) = false := by
          rw [hf]; rfl
        split
        · refine minv_mk h hi hx (by show List.set _ t _ = _; rw [modFut_thr]) ?_
          intro f
          rw [hp, lockedOf_setThr, lockedOf_modFut]
          by_cases he : f = i + 1
          · subst he
            simp [hun, hlk1, holds]
          · by_cases h0 : f = 0
            · subst h0; simp [holds]
            · simp [he, h0, holds]
        · obtain ⟨hlk, th', hthr, hh⟩ := applyScan_effect cfg (modFut s (i + 1) unlockF) t th r (i + 1)
          refine minv_mk h hi hx (by rw [hthr, modFut_thr]) ?_
          intro f
          rw [hp, hlk f, hh f, lockedOf_modFut]
          by_cases he : f = i + 1
          · subst he
            simp [hun, hlk1, holds]
          · by_cases h0 : f = 0
            · subst h0; simp [holds]
            · simp [he, h0, holds]
    | punlockRet v r =>
      simp only []
      refine minv_mk h hi hx (by show List.set _ t _ = _; rw [modFut_thr]) ?_
      intro f
      rw [hp, holds_fin, lockedOf_setThr, lockedOf_modFut]
      by_cases he : f = 0
      · subst he
        have hcount := h 0
        have hpos : 0 < nHold s 0 := List.countP_pos_iff.2 ⟨th, hm, by rw [hp]; simp [holds]⟩
        have hlk : lockedOf s 0 = true := by
          by_cases hl : lockedOf s 0 = true
          · exact hl
          · rw [if_neg hl] at hcount; omega
        have : (match s.futs[0]? with | some fu => (unlockF fu).lock | none => false) = false := by
          cases s.futs[0]? <;> rfl
        simp [this, hlk, holds]
      · simp [he, holds]
    | punlockNew j r =>
      simp only []
      obtain ⟨hlk', th', hthr, hh⟩ := enterTop_effect (modFut s 0 unlockF) t th j r
      refine minv_mk h hi hx (by rw [hthr, modFut_thr]) ?_
      intro f
      rw [hp, hlk' f, hh f, lockedOf_modFut]
      by_cases he : f = 0
      · subst he
        have hcount := h 0
        have hpos : 0 < nHold s 0 := List.countP_pos_iff.2 ⟨th, hm, by rw [hp]; simp [holds]⟩
        have hlk : lockedOf s 0 = true := by
          by_cases hl : lockedOf s 0 = true
          · exact hl
          · rw [if_neg hl] at hcount; omega
        have : (match s.futs[0]? with | some fu => (unlockF fu).lock | none => false) = false := by
          cases s.futs[0]? <;> rfl
        simp [this, hlk, holds]
      · simp [he, holds]
    | done => simpa using h

theorem minv_init (b : Nat) (pre : Bool) (progs : List (List DOp)) : MInv (dinit b pre progs) := by
  intro f
  have h0 : nHold (dinit b pre progs) f = 0 := by
    apply countP_eq_zero_of_all
    intro th hth
    simp only [dinit, List.mem_map] at hth
    obtain ⟨p, _, rfl⟩ := hth
    rfl
  have hl : lockedOf (dinit b pre progs) f = false := by
    unfold lockedOf dinit
    cases f with
    | zero => cases pre <;> rfl
    | succ k => simp
  rw [h0, hl]; rfl

theorem dminv_run (cfg : Cfg) (b : Nat) (pre : Bool) (progs : List (List DOp)) (sched : List Nat) :
    DInv cfg (drun cfg b pre progs sched) ∧ MInv (drun cfg b pre progs sched) :=
  foldl_inv (fun s => DInv cfg s ∧ MInv s) _ (fun s t h => ⟨dinv_step cfg s t h.1, minv_step cfg s t h.1 h.2⟩) sched _
    ⟨dinv_init cfg b pre progs, minv_init b pre progs⟩

end ParsecVerif.FutureDC
