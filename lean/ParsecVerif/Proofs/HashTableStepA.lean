/-
  Steps that do not touch the chains: invocation, rdlock, the unlocks, rdunlock, return, wrlock + resize.
-/
import ParsecVerif.Proofs.HashTableStep

namespace ParsecVerif.HashTable

theorem sameStore_of_eq {s m : Store} (h1 : m.tab = s.tab) (h2 : m.top = s.top) (h3 : m.nb0 = s.nb0) (h4 : m.hf = s.hf) :
    SameStore s m :=
  ⟨fun T b => by unfold Store.bk; rw [h1], fun T b => by unfold Store.bk; rw [h1], fun T => by rw [h1], h2, h3, h4⟩

theorem lock_of_tab_eq {s m : Store} (h1 : m.tab = s.tab) (T b : Nat) : (m.bk T b).lock = (s.bk T b).lock := by
  unfold Store.bk; rw [h1]

/-! ## invocation -/

theorem tab_acquire (s : Store) (op : Op) : (acquire s op).tab = s.tab := by cases op <;> rfl
theorem top_acquire (s : Store) (op : Op) : (acquire s op).top = s.top := by cases op <;> rfl
theorem nb0_acquire (s : Store) (op : Op) : (acquire s op).nb0 = s.nb0 := by cases op <;> rfl
theorem hf_acquire (s : Store) (op : Op) : (acquire s op).hf = s.hf := by cases op <;> rfl
theorem abs_acquire (s : Store) (op : Op) : (acquire s op).abs = s.abs := by cases op <;> rfl

theorem opOk_of_admissible {s : Store} {op : Op} (h : op.admissible s = true) : OpOk op := by
  cases op with
  | ins k i => simp only [Op.admissible, Bool.and_eq_true] at h; exact h.1.1.1
  | foi k i =>
    simp only [Op.admissible, Bool.and_eq_true, Bool.not_eq_true'] at h
    exact h.1.1
  | find k => trivial
  | rem k => trivial

theorem userInv_invoke {s : Store} {thr : List Thread} (h : UserInv s thr) {u : Nat} {th : Thread} (hu : thr[u]? = some th)
    (hidle : th.pc = .idle) (op : Op) (hadm : op.admissible s = true) (x : Thread) (hx : x.pc = .rd) (hxo : x.op = op) :
    UserInv (acquire s op) (thr.set u x) := by
  have hth1 : ∀ k, ¬ PendIns th k := not_pendIns_of_pc (by rw [hidle]; simp) (by rw [hidle]; simp)
  have hth2 : ∀ k, ¬ RmHold th k := not_rmHold_of_linRes (by rw [hidle]; rfl)
  have hx2 : ∀ k, ¬ RmHold x k := not_rmHold_of_linRes (by rw [hx]; rfl)
  cases op with
  | find k =>
    have hx1 : ∀ k', ¬ PendIns x k' := fun k' hp => by obtain ⟨_, i, hi⟩ := hp; rw [hxo] at hi; cases hi
    exact (h.set_same hu (sameStatus_of_none hth1 hth2 hx1 hx2)).congr rfl rfl
  | rem k =>
    have hx1 : ∀ k', ¬ PendIns x k' := fun k' hp => by obtain ⟨_, i, hi⟩ := hp; rw [hxo] at hi; cases hi
    exact (h.set_same hu (sameStatus_of_none hth1 hth2 hx1 hx2)).congr rfl rfl
  | foi k i =>
    have hx1 : ∀ k', ¬ PendIns x k' := fun k' hp => by obtain ⟨_, i, hi⟩ := hp; rw [hxo] at hi; cases hi
    exact (h.set_same hu (sameStatus_of_none hth1 hth2 hx1 hx2)).congr rfl rfl
  | ins k i =>
    simp only [Op.admissible, Bool.and_eq_true, Bool.not_eq_true', bne_iff_ne] at hadm
    obtain ⟨⟨⟨hpl, hk⟩, _⟩, _⟩ := hadm
    have hk' : k ∉ s.kheld := by
      intro hm
      have : s.kheld.contains k = true := List.contains_iff_mem.2 hm
      rw [this] at hk; cases hk
    have hxk : ∀ k', PendIns x k' → k' = k := by
      rintro k' ⟨_, j, hj⟩; rw [hxo] at hj; cases hj; rfl
    have hxp : PendIns x k := ⟨Or.inl hx, i, hxo⟩
    refine ⟨?_, ?_, ?_, ?_⟩
    · intro k' hk''
      rcases List.mem_cons.1 hk'' with h1 | h1
      · rw [h1]; exact hpl
      · exact h.uPlain k' h1
    · intro it hit hp
      exact List.mem_cons_of_mem _ (h.uAbs it hit hp)
    · intro t a k' ha hp
      rcases get_set_cases x hu ha with ⟨e1, e2⟩ | ⟨e1, e2⟩
      · rw [e2] at hp
        have := hxk k' hp; subst this
        refine ⟨List.mem_cons_self, ?_, ?_⟩
        · intro it hit hkey
          exact hk' (hkey ▸ h.uAbs it hit (hkey ▸ hpl))
        · intro t' a' ha' hne
          rw [e1] at hne
          rw [get_set_ne x hne] at ha'
          exact ⟨fun hp' => hk' (h.uIns t' a' k' ha' hp').1, fun hp' => hk' (h.uRm t' a' k' ha' hp').1⟩
      · obtain ⟨g1, g2, g3⟩ := h.uIns t a k' e2 hp
        refine ⟨List.mem_cons_of_mem _ g1, g2, ?_⟩
        intro t' a' ha' hne
        rcases get_set_cases x hu ha' with ⟨f1, f2⟩ | ⟨f1, f2⟩
        · subst f2
          refine ⟨fun hp' => ?_, hx2 k'⟩
          have := hxk k' hp'; subst this
          exact hk' g1
        · exact g3 t' a' f2 hne
    · intro t a k' ha hp
      rcases get_set_cases x hu ha with ⟨e1, e2⟩ | ⟨e1, e2⟩
      · subst e2; exact absurd hp (hx2 k')
      · obtain ⟨g1, g2, g3⟩ := h.uRm t a k' e2 hp
        refine ⟨List.mem_cons_of_mem _ g1, g2, ?_⟩
        intro t' a' ha' hne
        rcases get_set_cases x hu ha' with ⟨f1, f2⟩ | ⟨f1, f2⟩
        · subst f2; exact hx2 k'
        · exact g3 t' a' f2 hne

theorem stepOk_invoke {s : Store} {thr : List Thread} {u now : Nat} {th : Thread} (hS : SInv s thr) (hu : thr[u]? = some th)
    (hpc : th.pc = .idle) : StepOk s thr u (invoke s u now th) := by
  have hT : TInv s u th.op th.pc := by rw [hpc]; trivial
  unfold invoke
  split
  · exact stepOk_stay hS hu hT
  · rename_i op rest _
    have hdu : ∀ T, th.pc.isDu T = false := fun T => by rw [hpc]; rfl
    have hh : ∀ y, th.pc.inHand = some y → False := fun y h => by rw [hpc] at h; cases h
    split
    · rename_i hadm
      have e : SameStore s (acquire s op) := sameStore_of_eq (tab_acquire s op) (top_acquire s op) (nb0_acquire s op) (hf_acquire s op)
      refine ⟨⟨hS.st.congr e, ?_, ?_, ?_, ?_⟩, opOk_of_admissible hadm, fun t _ a _ _ => ?_⟩
      · exact hS.used.same hu _ e.top e.nb0 (fun T _ => by rw [tab_acquire]) (fun T b _ => e.items T b) (fun T => by rw [hdu T]; rfl)
      · exact hS.ab.same hu _ e (abs_acquire s op) (fun y _ h => (hh y h).elim)
      · exact hS.excl.set_same hu _ (fun h => by cases h) (fun h => by cases h)
      · exact userInv_invoke hS.user hu hpc op hadm _ rfl rfl
      · exact (Guar.same (u := u) e (fun T b => Or.inl (lock_of_tab_eq (tab_acquire s op) T b)) (abs_acquire s op)).rely (by assumption)
    · have e : SameStore s s := SameStore.refl s
      refine ⟨⟨hS.st, ?_, ?_, ?_, ?_⟩, trivial, fun t _ a _ _ => Rely.refl t s⟩
      · exact hS.used.same hu _ rfl rfl (fun T _ => rfl) (fun T b _ => rfl) (fun T => by rw [hdu T]; rfl)
      · exact hS.ab.same hu _ e rfl (fun y _ h => (hh y h).elim)
      · exact hS.excl.set_same hu _ (fun h => by cases h) (fun h => by cases h)
      · exact hS.user.set_same hu (sameStatus_of_none
          (not_pendIns_of_pc (by rw [hpc]; simp) (by rw [hpc]; simp)) (not_rmHold_of_linRes (by rw [hpc]; rfl))
          (not_pendIns_of_pc (by simp) (by simp)) (not_rmHold_of_linRes rfl))

/-! ## rdlock -/

theorem stepOk_rd {s : Store} {thr : List Thread} {u : Nat} {th : Thread} (hS : SInv s thr) (hu : thr[u]? = some th)
    (hpc : th.pc = .rd) (hT : TInv s u th.op th.pc) : StepOk s thr u (stepRd s thr th) := by
  unfold stepRd
  split
  · exact stepOk_stay hS hu hT
  · rename_i hg
    have hnw : ∀ y, y ∈ thr → y.pc.isWriter = false := by
      intro y hy
      have := List.any_eq_false.1 (by simpa using hg) y hy
      simpa using this
    have e : SameStore s s := SameStore.refl s
    refine ⟨⟨hS.st, ?_, ?_, ?_, ?_⟩, ?_, fun t _ a _ _ => Rely.refl t s⟩
    · exact hS.used.same hu _ rfl rfl (fun T _ => rfl) (fun T b _ => rfl) (fun T => by rw [hpc]; rfl)
    · exact hS.ab.same hu _ e rfl (fun y _ h => by rw [hpc] at h; cases h)
    · exact hS.excl.set hu _ (fun _ => Or.inr hnw) (fun h => by cases h)
    · exact hS.user.set_same hu (sameStatus_goto (by rw [hpc]; simp) (by rw [hpc]; rfl))
    · rw [hpc] at hT; exact hT

/-! ## unlock of the old bucket -/

theorem stepOk_ulo {s : Store} {thr : List Thread} {u : Nat} {th : Thread} (hS : SInv s thr) (hu : thr[u]? = some th)
    {hd : Nat} {r : Option Item} (hpc : th.pc = .ulo hd r) (hT : TInv s u th.op th.pc) : StepOk s thr u (stepUlo s th hd r) := by
  rw [hpc] at hT
  obtain ⟨h1, h2, h3, h4, h5, h6, h7⟩ := hT
  have e : SameStore s (s.setLock hd (s.hf th.op.key hd) 0) := sameStore_setLock s _ _ _
  have htop : HoldsTop (s.setLock hd (s.hf th.op.key hd) 0) u th.op.key := by
    unfold HoldsTop
    show ((s.setLock hd (s.hf th.op.key hd) 0).bk s.top (s.hf th.op.key s.top)).lock = u + 1
    rw [lock_setLock]
    have : ¬ (s.top = hd ∧ s.hf th.op.key s.top = s.hf th.op.key hd) := fun hc => by omega
    rw [if_neg this]; exact h3
  unfold stepUlo
  refine ⟨⟨hS.st.congr e, ?_, ?_, ?_, ?_⟩, ?_, fun t ht a _ _ => ?_⟩
  · refine hS.used.same hu _ rfl rfl (fun T _ => used_setLock s _ _ T 0) (fun T b _ => e.items T b) (fun T => ?_)
    rw [hpc]; cases r <;> rfl
  · exact hS.ab.same hu _ e rfl (fun y _ h => by rw [hpc] at h; cases h)
  · exact hS.excl.set_same hu _ (fun _ => by rw [hpc]; rfl) (fun h => by cases r <;> cases h)
  · refine (hS.user.set_same hu (sameStatus_goto ?_ ?_)).congr rfl rfl
    · rw [hpc]; cases r <;> simp
    · rw [hpc]; cases r <;> rfl
  · cases r with
    | some it => exact htop
    | none =>
      refine ⟨h1, h2, htop, h5, Nat.le_of_lt h6, ?_⟩
      intro T a b c
      exact h7 rfl T a b ((e.keyIn _ T).1 c)
  · refine (Guar.same (u := u) e (fun T b => ?_) rfl).rely ht
    rw [lock_setLock]
    split
    · rename_i hc; rw [hc.1, hc.2]; exact Or.inr (Or.inr h4)
    · exact Or.inl rfl

/-! ## unlock of the top-level bucket -/

theorem stepOk_ult {s : Store} {thr : List Thread} {u : Nat} {th : Thread} (hS : SInv s thr) (hu : thr[u]? = some th)
    {r : Nat} (hpc : th.pc = .ult r) (hT : TInv s u th.op th.pc) : StepOk s thr u (stepUlt s th r) := by
  rw [hpc] at hT
  have e0 : SameStore s (s.setLock s.top (tbk s th) 0) := sameStore_setLock s _ _ _
  unfold stepUlt
  generalize hm : ({ s.setLock s.top (tbk s th) 0 with warned := s.warned || (over s th && !roomToGrow s) } : Store) = m
  have e : SameStore s m := by
    subst hm
    exact ⟨e0.items, e0.len, e0.next, rfl, rfl, rfl⟩
  have hused : ∀ T, (m.tab T).used = (s.tab T).used := by
    intro T; subst hm; exact used_setLock s _ _ T 0
  have habs : m.abs = s.abs := by subst hm; rfl
  have hk : m.kheld = s.kheld := by subst hm; rfl
  have hlock : ∀ T b, (m.bk T b).lock = ((s.setLock s.top (tbk s th) 0).bk T b).lock := by
    intro T b; subst hm; rfl
  refine ⟨⟨hS.st.congr e, ?_, ?_, ?_, ?_⟩, trivial, fun t ht a _ _ => ?_⟩
  · exact hS.used.same hu _ e.top e.nb0 (fun T _ => hused T) (fun T b _ => e.items T b) (fun T => by rw [hpc]; rfl)
  · exact hS.ab.same hu _ e habs (fun y _ h => by rw [hpc] at h; cases h)
  · exact hS.excl.set_same hu _ (fun _ => by rw [hpc]; rfl) (fun h => by cases h)
  · exact (hS.user.set_same hu (sameStatus_goto (by rw [hpc]; simp) (by rw [hpc]; rfl))).congr habs hk
  · refine (Guar.same (u := u) e (fun T b => ?_) habs).rely ht
    rw [hlock, lock_setLock]
    split
    · rename_i hc; rw [hc.1, hc.2]; exact Or.inr (Or.inr hT)
    · exact Or.inl rfl

/-! ## return -/

theorem tab_release (s : Store) (op : Op) (r : Nat) : (release s op r).tab = s.tab := by
  cases op <;> simp only [release] <;> split <;> rfl
theorem top_release (s : Store) (op : Op) (r : Nat) : (release s op r).top = s.top := by
  cases op <;> simp only [release] <;> split <;> rfl
theorem nb0_release (s : Store) (op : Op) (r : Nat) : (release s op r).nb0 = s.nb0 := by
  cases op <;> simp only [release] <;> split <;> rfl
theorem hf_release (s : Store) (op : Op) (r : Nat) : (release s op r).hf = s.hf := by
  cases op <;> simp only [release] <;> split <;> rfl
theorem abs_release (s : Store) (op : Op) (r : Nat) : (release s op r).abs = s.abs := by
  cases op <;> simp only [release] <;> split <;> rfl

theorem kheld_release (s : Store) (op : Op) (r : Nat) :
    (release s op r).kheld = match op with
      | .rem k => if r ≠ 0 ∧ plainKey k = true then s.kheld.erase k else s.kheld
      | _ => s.kheld := by
  cases op with
  | rem k =>
    simp only [release]
    by_cases hr : r = 0
    · simp [hr]
    · by_cases hp : plainKey k = true
      · simp [hr, hp]
      · simp [hr, hp]
  | ins k i => rfl
  | find k => rfl
  | foi k i => simp only [release]; split <;> rfl

/-- a thread that returns: its status is dropped; the `ins`-key of a returned item is freed -/
theorem userInv_finish {s : Store} {thr : List Thread} (h : UserInv s thr) {u : Nat} {th : Thread} (hu : thr[u]? = some th)
    {r : Nat} (hl : th.pc.linRes = some r) (hnp : ∀ k, ¬ PendIns th k) (x : Thread) (hx : x.pc = .idle) :
    UserInv (release s th.op r) (thr.set u x) := by
  have hx1 : ∀ k, ¬ PendIns x k := not_pendIns_of_pc (by rw [hx]; simp) (by rw [hx]; simp)
  have hx2 : ∀ k, ¬ RmHold x k := not_rmHold_of_linRes (by rw [hx]; rfl)
  by_cases hrm : ∃ k, RmHold th k
  · obtain ⟨k, hk⟩ := hrm
    obtain ⟨hop, hpl, r', hr', hr0⟩ := hk
    rw [hl] at hr'; cases hr'
    have hk : RmHold th k := ⟨hop, hpl, r, hl, hr0⟩
    have hkh : (release s th.op r).kheld = s.kheld.erase k := by
      rw [kheld_release, hop]; simp [hr0, hpl]
    obtain ⟨g1, g2, g3⟩ := h.uRm u th k hu hk
    refine ⟨?_, ?_, ?_, ?_⟩
    · intro k' hk''
      rw [hkh] at hk''
      exact h.uPlain k' (List.mem_of_mem_erase hk'')
    · intro it hit hp
      rw [abs_release] at hit
      rw [hkh]
      exact (List.mem_erase_of_ne (g2 it hit)).2 (h.uAbs it hit hp)
    · intro t a k' ha hp
      rcases get_set_cases x hu ha with ⟨e1, e2⟩ | ⟨e1, e2⟩
      · subst e2; exact absurd hp (hx1 k')
      · obtain ⟨f1, f2, f3⟩ := h.uIns t a k' e2 hp
        have hne : k' ≠ k := fun hc => (f3 u th hu (Ne.symm e1)).2 (hc ▸ hk)
        refine ⟨by rw [hkh]; exact (List.mem_erase_of_ne hne).2 f1, by rw [abs_release]; exact f2, ?_⟩
        intro t' a' ha' hne'
        rcases get_set_cases x hu ha' with ⟨c1, c2⟩ | ⟨c1, c2⟩
        · subst c2; exact ⟨hx1 k', hx2 k'⟩
        · exact f3 t' a' c2 hne'
    · intro t a k' ha hp
      rcases get_set_cases x hu ha with ⟨e1, e2⟩ | ⟨e1, e2⟩
      · subst e2; exact absurd hp (hx2 k')
      · obtain ⟨f1, f2, f3⟩ := h.uRm t a k' e2 hp
        have hne : k' ≠ k := fun hc => g3 t a e2 e1 (hc ▸ hp)
        refine ⟨by rw [hkh]; exact (List.mem_erase_of_ne hne).2 f1, by rw [abs_release]; exact f2, ?_⟩
        intro t' a' ha' hne'
        rcases get_set_cases x hu ha' with ⟨c1, c2⟩ | ⟨c1, c2⟩
        · subst c2; exact hx2 k'
        · exact f3 t' a' c2 hne'
  · have hth2 : ∀ k, ¬ RmHold th k := fun k hk => hrm ⟨k, hk⟩
    have hkh : (release s th.op r).kheld = s.kheld := by
      rw [kheld_release]
      cases hop : th.op with
      | rem k =>
        simp only
        split
        · rename_i hc
          exact absurd ⟨hop, hc.2, r, hl, hc.1⟩ (hth2 k)
        · rfl
      | ins k i => rfl
      | find k => rfl
      | foi k i => rfl
    exact (h.set_same hu (sameStatus_of_none hnp hth2 hx1 hx2)).congr (abs_release _ _ _) hkh

theorem stepOk_finish {s : Store} {thr : List Thread} {u now : Nat} {th : Thread} (hS : SInv s thr) (hu : thr[u]? = some th)
    {r : Nat} (hl : th.pc.linRes = some r) (hnp : ∀ k, ¬ PendIns th k) (hdu : ∀ T, th.pc.isDu T = false)
    (hh : th.pc.inHand = none) : StepOk s thr u (finish s now th r) := by
  unfold finish
  have e : SameStore s (release s th.op r) :=
    sameStore_of_eq (tab_release s _ r) (top_release s _ r) (nb0_release s _ r) (hf_release s _ r)
  refine ⟨⟨hS.st.congr e, ?_, ?_, ?_, ?_⟩, trivial, fun t ht a _ _ => ?_⟩
  · exact hS.used.same hu _ e.top e.nb0 (fun T _ => by rw [tab_release]) (fun T b _ => e.items T b) (fun T => by rw [hdu T]; rfl)
  · exact hS.ab.same hu _ e (abs_release _ _ _) (fun y _ h => by rw [hh] at h; cases h)
  · exact hS.excl.set_same hu _ (fun h => by cases h) (fun h => by cases h)
  · exact userInv_finish hS.user hu hl hnp _ rfl
  · exact (Guar.same (u := u) e (fun T b => Or.inl (lock_of_tab_eq (tab_release s _ r) T b)) (abs_release _ _ _)).rely ht

/-! ## rdunlock -/

theorem stepOk_rul {s : Store} {thr : List Thread} {u now : Nat} {th : Thread} (hS : SInv s thr) (hu : thr[u]? = some th)
    {r : Nat} {rz : Bool} {ch : Nat} (hpc : th.pc = .rul r rz ch) : StepOk s thr u (stepRul s now th r rz ch) := by
  unfold stepRul
  split
  · have e : SameStore s s := SameStore.refl s
    refine ⟨⟨hS.st, ?_, ?_, ?_, ?_⟩, trivial, fun t _ a _ _ => Rely.refl t s⟩
    · exact hS.used.same hu _ rfl rfl (fun T _ => rfl) (fun T b _ => rfl) (fun T => by rw [hpc]; rfl)
    · exact hS.ab.same hu _ e rfl (fun y _ h => by rw [hpc] at h; cases h)
    · exact hS.excl.set_same hu _ (fun h => by cases h) (fun h => by cases h)
    · exact hS.user.set_same hu (sameStatus_goto (by rw [hpc]; simp) (by rw [hpc]; rfl))
  · exact stepOk_finish hS hu (by rw [hpc]; rfl) (not_pendIns_of_pc (by rw [hpc]; simp) (by rw [hpc]; simp))
      (fun T => by rw [hpc]; rfl) (by rw [hpc]; rfl)

/-! ## wrlock and resize -/

theorem stepOk_wr {s : Store} {thr : List Thread} {u : Nat} {th : Thread} (hS : SInv s thr) (hu : thr[u]? = some th)
    {ch r : Nat} (hpc : th.pc = .wr ch r) (hT : TInv s u th.op th.pc) : StepOk s thr u (stepWr s thr th ch r) := by
  unfold stepWr
  split
  · exact stepOk_stay hS hu hT
  · rename_i hg
    have hnone : ∀ y, y ∈ thr → y.pc.isReader = false ∧ y.pc.isWriter = false := by
      have hg' : ∀ x, x ∈ thr → x.pc.isReader = false ∧ x.pc.isWriter = false := by simpa using hg
      exact hg'
    have hx : SameStatus th (th.goto (.wul r)) := sameStatus_goto (by rw [hpc]; simp) (by rw [hpc]; rfl)
    have hexcl : Excl (thr.set u (th.goto (.wul r))) := hS.excl.set hu _ (fun h => by cases h) (fun _ => Or.inr hnone)
    have hrely : ∀ t, t ≠ u → ∀ a, thr[t]? = some a → a.pc.isReader = true → ∀ m, Rely t s m := by
      intro t _ a ha hr m
      rw [(hnone a (mem_of_get ha)).1] at hr; cases hr
    have hpd : ∀ T, pendingDec (thr.set u (th.goto (.wul r))) T = 0 := by
      intro T
      have h1 := pendingDec_set hu (th.goto (.wul r)) T
      have h2 : th.pc.isDu T = false := by rw [hpc]; rfl
      have h3 : (th.goto (.wul r)).pc.isDu T = false := rfl
      rw [h2, h3] at h1
      have := pendingDec_zero_of_no_reader (fun y hy => (hnone y hy).1) T
      simp at h1; omega
    split
    · -- resize
      refine ⟨⟨hS.st.resize, ?_, ?_, hexcl, ?_⟩, trivial, fun t ht a ha hr => hrely t ht a ha hr _⟩
      · intro T h1 h2
        show (s.resize.tab T).used = _
        have h2' : T < s.top + 1 := h2
        rw [used_resize, hpd T]
        have hne : T ≠ s.top + 1 := by omega
        rw [if_neg hne]
        have hc : s.resize.usedCount T = s.usedCount T := usedCount_same (fun b => by rw [bk_resize, if_neg hne])
        rw [hc]
        by_cases hT : T = s.top
        · rw [if_pos hT, hT]; simp
        · rw [if_neg hT]
          have hlt : T < s.top := by omega
          have := hS.used T h1 hlt
          rw [this, pendingDec_zero_of_no_reader (fun y hy => (hnone y hy).1) T]
      · refine hS.ab.step hu _ (fun y hy => hS.ab.absIn y (stored_resize y |>.1 hy)) ?_ hS.ab.absKeys
        intro y hy
        rcases hS.ab.absOut y hy with h1 | h1
        · exact Or.inl ((stored_resize y).2 h1)
        · by_cases hst : Stored s y
          · exact Or.inl ((stored_resize y).2 hst)
          · exact Or.inr (Or.inr ⟨hy, hst, fun hc => by rw [hpc] at hc; cases hc.2⟩)
      · exact (hS.user.set_same hu hx).congr rfl rfl
    · have e : SameStore s s := SameStore.refl s
      refine ⟨⟨hS.st, ?_, ?_, hexcl, hS.user.set_same hu hx⟩, trivial, fun t ht a ha hr => hrely t ht a ha hr _⟩
      · exact hS.used.same hu _ rfl rfl (fun T _ => rfl) (fun T b _ => rfl) (fun T => by rw [hpc]; rfl)
      · exact hS.ab.same hu _ e rfl (fun y _ h => by rw [hpc] at h; cases h)

end ParsecVerif.HashTable
