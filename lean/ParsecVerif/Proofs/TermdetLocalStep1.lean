import ParsecVerif.Proofs.TermdetLocal
/-! Preservation of the invariant by one thread step (program points of addto_nb_tasks / addto_runtime_actions). -/
namespace ParsecVerif.TermdetLocal

set_option maxHeartbeats 4000000 in
theorem local_tFa (sh : Shared) (th : Thread) (S S' : Sums) (v : Int) (hpc : th.pc = .tFa v)
    (hI : Inv' sh S) (hF : Facts S (W th)) (hen : enabled sh th)
    (hM : Moves S S' (W th) (W (tstep sh th).2)) : Inv' (tstep sh th).1 S' := by
  prelude
  unf
  by_cases hc : nt = 0 ∧ v > 0
  · smp [hc]
    finish
  · by_cases hd : nt + v = 0 ∧ nt > 0
    · smp [hc, hd]
      finish
    · smp [hc, hd]
      finish

set_option maxHeartbeats 4000000 in
theorem local_tInc (sh : Shared) (th : Thread) (S S' : Sums) (r : Int) (hpc : th.pc = .tInc r)
    (hI : Inv' sh S) (hF : Facts S (W th)) (hen : enabled sh th)
    (hM : Moves S S' (W th) (W (tstep sh th).2)) : Inv' (tstep sh th).1 S' := by
  prelude
  unf
  by_cases hc : mon = 2 ∧ npa + 1 = 0
  · exfalso; omega
  · smp [hc]
    finish

set_option maxHeartbeats 4000000 in
theorem local_tDec (sh : Shared) (th : Thread) (S S' : Sums) (r : Int) (hpc : th.pc = .tDec r)
    (hI : Inv' sh S) (hF : Facts S (W th)) (hen : enabled sh th)
    (hM : Moves S S' (W th) (W (tstep sh th).2)) : Inv' (tstep sh th).1 S' := by
  prelude
  unf
  by_cases hc : mon = 2 ∧ npa - 1 = 0
  · smp [hc]
    finish
  · smp [hc]
    finish

set_option maxHeartbeats 4000000 in
theorem local_aFa (sh : Shared) (th : Thread) (S S' : Sums) (v : Int) (hpc : th.pc = .aFa v)
    (hI : Inv' sh S) (hF : Facts S (W th)) (hen : enabled sh th)
    (hM : Moves S S' (W th) (W (tstep sh th).2)) : Inv' (tstep sh th).1 S' := by
  prelude
  unf
  by_cases hc : mon = 2 ∧ npa + v = 0
  · smp [hc]
    finish
  · smp [hc]
    finish

end ParsecVerif.TermdetLocal
