/-
  Inductive invariant of the arena machine (Model/Arena.lean), for every configuration, every
  number of threads, every program and every schedule.

  Structure of the proof: every micro step replaces ONE entry of the thread list and the shared
  scalars (`apply s t d`).  `Good` collects, for one `Delta`, the local arithmetic facts that make
  the global invariant `Inv` survive (`Inv.apply`, proved once, with the sums over the thread list);
  `good_local` shows by case analysis on the program point that the step function of the model only
  produces good deltas (no sums there, only the thread itself).
-/
import ParsecVerif.Model.Arena

namespace ParsecVerif.Arena

/-! ## sums over chunk lists and over the thread list -/

def csum (g : Chunk → Nat) (l : List Chunk) : Nat := (l.map g).sum

@[simp] theorem csum_nil (g : Chunk → Nat) : csum g [] = 0 := rfl
@[simp] theorem csum_cons (g : Chunk → Nat) (c : Chunk) (l : List Chunk) : csum g (c :: l) = g c + csum g l := by
  simp [csum]
@[simp] theorem csum_append (g : Chunk → Nat) (l₁ l₂ : List Chunk) : csum g (l₁ ++ l₂) = csum g l₁ + csum g l₂ := by
  simp [csum]

theorem csum_eraseIdx (g : Chunk → Nat) (l : List Chunk) (k : Nat) (c : Chunk) (h : l[k]? = some c) :
    csum g (l.eraseIdx k) + g c = csum g l := by
  induction l generalizing k with
  | nil => simp at h
  | cons a l ih =>
    cases k with
    | zero => simp at h; subst h; simp; omega
    | succ k =>
      simp at h
      have := ih k h
      simp [List.eraseIdx_cons_succ]; omega

theorem csum_mem_le (g : Chunk → Nat) (l : List Chunk) (c : Chunk) (h : c ∈ l) : g c ≤ csum g l := by
  induction l with
  | nil => simp at h
  | cons a l ih =>
    simp at h
    rcases h with h | h
    · subst h; simp
    · have := ih h; simp; omega

theorem csum_eq_zero (g : Chunk → Nat) (l : List Chunk) (h : csum g l = 0) (c : Chunk) (hc : c ∈ l) : g c = 0 := by
  have := csum_mem_le g l c hc; omega

def tsum (f : Thread → Nat) (l : List Thread) : Nat := (l.map f).sum

theorem tsum_set (f : Thread → Nat) (l : List Thread) (t : Nat) (th y : Thread) (h : l[t]? = some th) :
    tsum f (l.set t y) + f th = tsum f l + f y := by
  induction l generalizing t with
  | nil => simp at h
  | cons a l ih =>
    cases t with
    | zero => simp at h; subst h; simp [tsum]; omega
    | succ k =>
      simp at h
      have := ih k h
      simp [tsum] at this ⊢; omega

theorem tsum_le (f g : Thread → Nat) (h : ∀ th, f th ≤ g th) (l : List Thread) : tsum f l ≤ tsum g l := by
  induction l with
  | nil => simp [tsum]
  | cons a l ih => have := h a; simp [tsum] at ih ⊢; omega

theorem tsum_mem_le (f : Thread → Nat) (l : List Thread) (th : Thread) (h : th ∈ l) : f th ≤ tsum f l := by
  induction l with
  | nil => simp at h
  | cons a l ih =>
    simp at h
    rcases h with h | h
    · subst h; simp [tsum]
    · have := ih h; simp [tsum] at this ⊢; omega

/-- a thread that contributes 0 to a 0/1 measure leaves room for at most `length - 1` contributions -/
theorem tsum_lt_length (f : Thread → Nat) (hf : ∀ th, f th ≤ 1) (l : List Thread) (t : Nat) (th : Thread)
    (h : l[t]? = some th) (h0 : f th = 0) : tsum f l + 1 ≤ l.length := by
  induction l generalizing t with
  | nil => simp at h
  | cons a l ih =>
    cases t with
    | zero =>
      simp at h; subst h
      have : tsum f l ≤ tsum (fun _ => 1) l := tsum_le f _ (fun th => hf th) l
      have h1 : tsum (fun _ => 1) l = l.length := by
        clear ih this; induction l with
        | nil => rfl
        | cons b l ih => simp [tsum] at ih ⊢; omega
      simp [tsum] at this h1 ⊢; omega
    | succ k =>
      simp at h
      have := ih k h
      have := hf a
      simp [tsum] at * ; omega

/-! ## measures -/

/-- chunks a thread has in its hands inside an operation -/
def pcChunks : Pc → List Chunk
  | .a1 c => [c] | .r1 c => [c] | .r2 c => [c] | .f c => [c] | _ => []

/-- what a thread owns: the chunks it holds and the one it is allocating / releasing -/
def own (g : Chunk → Nat) (th : Thread) : Nat := csum g th.held + csum g (pcChunks th.pc)

/-- increments of `used` that will be undone (allocation_failed path) -/
def pend : Pc → Nat
  | .a3 => 1 | .b1 n => n | _ => 0
def tpend (th : Thread) : Nat := pend th.pc

def mC : Pc → Nat | .r1 _ => 1 | _ => 0      -- passed the test, increment of `released` pending
def mP : Pc → Nat | .r2 _ => 1 | _ => 0      -- incremented, push pending
def mD : Pc → Nat | .a1 _ => 1 | _ => 0      -- popped, decrement pending
def tC (th : Thread) : Nat := mC th.pc
def tP (th : Thread) : Nat := mP th.pc
def tD (th : Thread) : Nat := mD th.pc

theorem mC_le_one (pc : Pc) : mC pc ≤ 1 := by cases pc <;> simp [mC]

/-- 0 iff b = a -/
def badReq (a b : Nat) : Nat := if b = a then 0 else 1
@[simp] theorem badReq_self (a : Nat) : badReq a a = 0 := by simp [badReq]
theorem badReq_zero {a b : Nat} (h : badReq a b = 0) : b = a := by
  unfold badReq at h; split at h <;> simp_all

/-- 0 iff the chunk has count 1 -/
def bad (c : Chunk) : Nat := badReq 1 c.count

/-- chunks on their way from / to the cache -/
def pcOnes : Pc → List Chunk
  | .a1 c => [c] | .r1 c => [c] | .r2 c => [c] | _ => []
def tOnes (th : Thread) : Nat := csum bad (pcOnes th.pc)

def badRes : Res → Nat
  | .got req c _ => badReq req c.count
  | _ => 0
def ob (th : Thread) : Nat := (th.out.map badRes).sum

def indId (x y : Nat) : Nat := if y = x then 1 else 0
def ind (x : Nat) (c : Chunk) : Nat := indId x c.id
theorem indId_le_one (x y : Nat) : indId x y ≤ 1 := by unfold indId; split <;> omega
theorem indId_self (x : Nat) : indId x x = 1 := by simp [indId]
theorem indId_ne {x y : Nat} (h : y ≠ x) : indId x y = 0 := by simp [indId, h]

def gots (x : Nat) : List Ev → Nat
  | [] => 0
  | .got _ y :: l => indId x y + gots x l
  | .rel _ _ :: l => gots x l
def rels (x : Nat) : List Ev → Nat
  | [] => 0
  | .got _ _ :: l => rels x l
  | .rel _ y :: l => indId x y + rels x l

theorem gots_append (x : Nat) (l₁ l₂ : List Ev) : gots x (l₁ ++ l₂) = gots x l₁ + gots x l₂ := by
  induction l₁ with
  | nil => simp [gots]
  | cons e l ih => cases e <;> simp [gots, ih] <;> omega
theorem rels_append (x : Nat) (l₁ l₂ : List Ev) : rels x (l₁ ++ l₂) = rels x l₁ + rels x l₂ := by
  induction l₁ with
  | nil => simp [rels]
  | cons e l ih => cases e <;> simp [rels, ih] <;> omega

def cnt (c : Chunk) : Nat := c.count
def tHeld (x : Nat) (th : Thread) : Nat := csum (ind x) th.held

/-- everything the arena and the threads have: cache + held + in flight -/
def total (g : Chunk → Nat) (s : State) : Nat := csum g s.cache + tsum (own g) s.thr

def heldCnt (x : Nat) (s : State) : Nat := tsum (tHeld x) s.thr

/-! ## the invariant -/

structure Inv (cfg : Cfg) (s : State) : Prop where
  /-- conservation: every chunk obtained from data_malloc and not given to data_free is in exactly one place -/
  ghost : ∀ g, total g s + csum g s.died = csum g s.born
  bornLt : ∀ x, s.mallocs ≤ x → csum (ind x) s.born = 0
  bornOne : ∀ x, csum (ind x) s.born ≤ 1
  u1 : cfg.maxUsed ≠ INF → s.used = ((total cnt s : Nat) : Int) + ((tsum tpend s.thr : Nat) : Int)
  u2 : cfg.maxUsed ≠ INF → total cnt s ≤ cfg.maxUsed
  i1 : cfg.maxRel ≠ INF → s.released = ((s.cache.length + tsum tP s.thr + tsum tD s.thr : Nat) : Int)
  i2 : cfg.maxRel ≠ INF → s.released + ((tsum tC s.thr : Nat) : Int) ≤ ((cfg.maxRel + (s.thr.length - 1) : Nat) : Int)
  ones : csum bad s.cache + tsum tOnes s.thr = 0
  outs : tsum ob s.thr = 0
  tr : ∀ x, gots x s.trace = rels x s.trace + heldCnt x s

structure Good (cfg : Cfg) (s : State) (th : Thread) (d : Delta) : Prop where
  ghost : ∀ g, csum g d.cache + own g d.th + csum g d.died = csum g s.cache + own g th + csum g d.born
  born : (d.born = [] ∧ s.mallocs ≤ d.mall) ∨ (∃ n, d.born = [⟨s.mallocs, n⟩] ∧ d.mall = s.mallocs + 1)
  u1 : cfg.maxUsed ≠ INF →
    (d.used + ((csum cnt s.cache + own cnt th + tpend th : Nat) : Int)
        = s.used + ((csum cnt d.cache + own cnt d.th + tpend d.th : Nat) : Int))
    ∨ (cfg.maxUsed = 0 ∧ d.used = s.used ∧ tpend d.th = tpend th
        ∧ csum cnt d.cache + own cnt d.th ≤ csum cnt s.cache + own cnt th)
  u2 : cfg.maxUsed ≠ INF →
    (csum cnt d.cache + own cnt d.th ≤ csum cnt s.cache + own cnt th)
    ∨ (d.used ≤ (cfg.maxUsed : Int) ∧ tpend d.th = 0)
  i1 : cfg.maxRel ≠ INF →
    d.rel + ((s.cache.length + tP th + tD th : Nat) : Int) = s.released + ((d.cache.length + tP d.th + tD d.th : Nat) : Int)
  i2 : cfg.maxRel ≠ INF →
    (d.rel + ((tC d.th : Nat) : Int) ≤ s.released + ((tC th : Nat) : Int))
    ∨ (s.released < (cfg.maxRel : Int) ∧ d.rel = s.released ∧ tC th = 0 ∧ tC d.th = 1)
  ones : csum bad d.cache + tOnes d.th ≤ csum bad s.cache + tOnes th
  outs : ob d.th ≤ ob th + csum bad s.cache + tOnes th
  tr : ∀ x, gots x d.evs + tHeld x th = rels x d.evs + tHeld x d.th

theorem Inv.init (cfg : Cfg) (progs : List (List Op)) : Inv cfg (init progs) := by
  have hz : ∀ (f : Thread → Nat), (∀ p, f (mkThread p) = 0) → tsum f (progs.map mkThread) = 0 := by
    intro f hf
    induction progs with
    | nil => rfl
    | cons p l ih =>
      have : tsum f (List.map mkThread (p :: l)) = f (mkThread p) + tsum f (List.map mkThread l) := by simp [tsum]
      rw [this, ih, hf p]
  have hl : (progs.map mkThread).length = progs.length := List.length_map _
  constructor
  · intro g
    have z := hz (own g) (fun _ => rfl)
    simp [Arena.init, total, z]
  · intro x _; simp [Arena.init]
  · intro x; simp [Arena.init]
  · intro _
    have z := hz (own cnt) (fun _ => rfl)
    have z' := hz tpend (fun _ => rfl)
    simp [Arena.init, total, z, z']
  · intro _
    have z := hz (own cnt) (fun _ => rfl)
    simp [Arena.init, total, z]
  · intro _
    have z := hz tP (fun _ => rfl)
    have z' := hz tD (fun _ => rfl)
    simp [Arena.init, z, z']
  · intro _
    have z := hz tC (fun _ => rfl)
    simp only [Arena.init, z]
    omega
  · have z := hz tOnes (fun _ => rfl)
    simp [Arena.init, z]
  · have z := hz ob (fun _ => rfl)
    simp [Arena.init, z]
  · intro x
    have z := hz (tHeld x) (fun _ => rfl)
    simp [Arena.init, heldCnt, z, gots, rels]

theorem Inv.apply {cfg : Cfg} {s : State} (h : Inv cfg s) (t : Nat) (th : Thread) (ht : s.thr[t]? = some th)
    (d : Delta) (g : Good cfg s th d) : Inv cfg (apply s t d) := by
  have hmem : th ∈ s.thr := List.mem_of_getElem? ht
  constructor
  · intro f
    have e := tsum_set (own f) s.thr t th d.th ht
    have e1 := g.ghost f
    have e2 := h.ghost f
    simp only [Arena.apply, total, csum_append] at *
    omega
  · intro x hx
    have e := h.bornLt x
    rcases g.born with ⟨hb, hm⟩ | ⟨n, hb, hm⟩
    · simp only [Arena.apply, hb, List.nil_append] at *
      exact e (by omega)
    · simp only [Arena.apply, hb, hm, csum_append, csum_cons, csum_nil, ind] at *
      have := indId_ne (x := x) (y := s.mallocs) (by omega)
      have := e (by omega)
      omega
  · intro x
    have e := h.bornOne x
    rcases g.born with ⟨hb, _⟩ | ⟨n, hb, _⟩
    · simp only [Arena.apply, hb, List.nil_append]; exact e
    · simp only [Arena.apply, hb, csum_append, csum_cons, csum_nil, ind]
      by_cases hx : s.mallocs = x
      · have := h.bornLt x (by omega)
        have := indId_le_one x s.mallocs
        omega
      · have := indId_ne (x := x) (y := s.mallocs) hx
        omega
  · intro hne
    have e1 := tsum_set (own cnt) s.thr t th d.th ht
    have e2 := tsum_set tpend s.thr t th d.th ht
    have a1 := h.u1 hne
    have a2 := h.u2 hne
    simp only [Arena.apply, total] at *
    rcases g.u1 hne with b | ⟨b0, b1, b2, b3⟩
    · omega
    · omega
  · intro hne
    have e1 := tsum_set (own cnt) s.thr t th d.th ht
    have e2 := tsum_set tpend s.thr t th d.th ht
    have a1 := h.u1 hne
    have a2 := h.u2 hne
    simp only [Arena.apply, total] at *
    rcases g.u2 hne with b | ⟨b0, b1⟩
    · omega
    · rcases g.u1 hne with c | ⟨c0, c1, c2, c3⟩
      · omega
      · omega
  · intro hne
    have e1 := tsum_set tP s.thr t th d.th ht
    have e2 := tsum_set tD s.thr t th d.th ht
    have a1 := h.i1 hne
    have b := g.i1 hne
    simp only [Arena.apply] at *
    omega
  · intro hne
    have e1 := tsum_set tC s.thr t th d.th ht
    have a1 := h.i2 hne
    simp only [Arena.apply, List.length_set] at *
    rcases g.i2 hne with b | ⟨b0, b1, b2, b3⟩
    · omega
    · have := tsum_lt_length tC (fun th => mC_le_one th.pc) s.thr t th ht b2
      omega
  · have e1 := tsum_set tOnes s.thr t th d.th ht
    have a := h.ones
    have b := g.ones
    simp only [Arena.apply] at *
    omega
  · have e1 := tsum_set ob s.thr t th d.th ht
    have e2 := tsum_mem_le tOnes s.thr th hmem
    have a := h.ones
    have a' := h.outs
    have b := g.outs
    simp only [Arena.apply] at *
    omega
  · intro x
    have e1 := tsum_set (tHeld x) s.thr t th d.th ht
    have a := h.tr x
    have b := g.tr x
    simp only [Arena.apply, heldCnt, gots_append, rels_append] at *
    omega

end ParsecVerif.Arena
