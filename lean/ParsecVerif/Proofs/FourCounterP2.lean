import ParsecVerif.Proofs.FourCounterP1
/-
  Struct preservation: send_up_messages on a non-root process.
-/
namespace ParsecVerif.FourCounter

theorem pend_zero {s : State} {q : Nat} (h : pend s q = 0) (hq : q < s.n) :
    cls (s.procs q).st = 2 ∧ b2n (s.gh q).c = 1 ∧ U s q = 0 := by
  unfold pend at h
  by_cases hc : cls (s.procs q).st = 2 ∧ b2n (s.gh q).c = 1 ∧ U s q = 0
  · exact hc
  · rw [if_pos ⟨hq, hc⟩] at h; omega

theorem b2n_eq_one {x : Bool} : b2n x = 1 ↔ x = true := by cases x <;> simp
theorem b2n_eq_zero {x : Bool} : b2n x = 0 ↔ x = false := by cases x <;> simp

theorem Struct.sample {s : State} (h : Struct s) {me : Nat} (h0 : 0 < me) (hme : me < s.n)
    (h1 : cls (s.procs me).st = 1) (hncl : (s.procs me).ncl = 0) : Struct (sampleUp s me) := by
  have hcls : ∀ q, q ≠ me → cls ((sampleUp s me).procs q).st = cls (s.procs q).st := by
    intro q e; simp [sampleUp, e]
  have hclsm : cls ((sampleUp s me).procs me).st = 2 := by simp [sampleUp, cls]
  have hc : ∀ q, q ≠ me → ((sampleUp s me).gh q) = s.gh q := by intro q e; simp [sampleUp, e]
  have hcm : ((sampleUp s me).gh me).c = true := by simp [sampleUp]
  have hn : (sampleUp s me).n = s.n := rfl
  have hU : ∀ q, q ≠ me → U (sampleUp s me) q = U s q := by
    intro q e
    have : (me == q) = false := by simp [Ne.symm e]
    simp [U, sampleUp, isUpFrom, this]
  have hUm : U (sampleUp s me) me = U s me + 1 := by simp [U, sampleUp, isUpFrom]
  have hD : ∀ q r, D (sampleUp s me) q r = D s q r := by intro q r; simp [D, sampleUp, isDownTo]
  have hcme : (s.gh me).c = false := h.c_false_of_wfc hme (by omega)
  have hUme : U s me = 0 := h.U_zero_of_wfc hme h0 (by omega)
  have hpz := h.ncl1 me hme h1
  rw [hncl] at hpz
  have hp1 : pend s (2 * me + 1) = 0 := by omega
  have hp2 : pend s (2 * me + 2) = 0 := by omega
  have hchild : ∀ q, 0 < q → parent q = me → q < s.n →
      cls (s.procs q).st = 2 ∧ b2n (s.gh q).c = 1 ∧ U s q = 0 := by
    intro q hq0 hpar hq
    rcases (parent_eq_iff hq0).1 hpar with e | e <;> subst e
    · exact pend_zero hp1 hq
    · exact pend_zero hp2 hq
  have hacc : ∀ q, q ≠ me → ((sampleUp s me).procs q) = s.procs q := by intro q e; simp [sampleUp, e]
  have hpend : ∀ q, pend (sampleUp s me) q = pend s q := by
    intro q
    by_cases e : q = me
    · subst e; unfold pend; rw [hn, hclsm, hUm, h1]; simp
    · unfold pend; rw [hn, hcls q e, hc q e, hU q e]
  refine ⟨?_, ?_, ?_, ?_, ?_, ?_, ?_, ?_, ?_, ?_⟩
  · intro k hk
    simp only [sampleUp, List.mem_append, List.mem_singleton] at hk
    rcases hk with hm | rfl
    · have := h.pk k hm
      have hnm : isUpFrom me k = false := not_of_cnt_zero _ hUme k hm
      unfold PkOK at this ⊢
      unfold isUpFrom at hnm
      split <;> rename_i hkk <;> simp only [hkk] at this hnm
      · have e : k.src ≠ me := by simpa using hnm
        rw [hacc _ e]; exact this
      · exact this
      · trivial
    · simp [PkOK, sampleUp, h0, hme]
  · intro q hq0 hq
    have old := h.edge q hq0 hq
    unfold Edge at old ⊢
    rw [hD, hD]
    by_cases e1 : q = me
    · subst e1
      rw [hclsm, hcls _ (parent_ne_self hq0), hcm, hc _ (parent_ne_self hq0), hUm]
      rw [h1] at old
      exact edge_sample_self old
    · rw [hcls q e1, hc q e1, hU q e1]
      by_cases e2 : parent q = me
      · obtain ⟨a2, c1, u0⟩ := hchild q hq0 e2 hq
        rw [e2, hclsm, hcm, a2, c1, u0]
        rw [e2, h1, hcme, a2, c1, u0] at old
        exact edge_sample_parent old
      · rw [hcls _ e2, hc _ e2]; exact old
  · rw [hcls 0 (by omega), hc 0 (by omega)]; exact h.root
  · intro r hr hr1
    have e : r ≠ me := by intro e; subst e; rw [hclsm] at hr1; omega
    rw [hcls r e] at hr1
    rw [hpend, hpend, hacc r e]; exact h.ncl1 r hr hr1
  · intro r hr hr2
    by_cases e : r = me
    · subst e; simp [sampleUp]
    · rw [hcls r e] at hr2; rw [hacc r e]; exact h.ncl2 r hr hr2
  · intro q hq h3
    have e : q ≠ me := by intro e; subst e; rw [hclsm] at h3; omega
    rw [hcls q e] at h3; rw [hcls 0 (by omega)]; exact h.tr q hq h3
  · rw [hn]
    have c1 := sumTo_change (f := contribS s) (g := contribS (sampleUp s me)) hme (by
      intro q _ e; simp only [contribS, live, hU q e, hacc q e])
    have c2 := sumTo_change (f := fun q => if (s.gh q).c then (s.gh q).curS else 0)
      (g := fun q => if ((sampleUp s me).gh q).c then ((sampleUp s me).gh q).curS else 0) hme (by
      intro q _ e; simp only [hc q e])
    have e1 : contribS s me = (s.procs me).accS := by simp [contribS, live, h1]
    have e2 : contribS (sampleUp s me) me = (s.procs me).accS + (s.procs me).ms := by
      simp only [contribS, live, hclsm, hUm]; simp [sampleUp, accAdd]
    have := h.fS
    simp only [hcme, hcm, if_true] at c2
    have e3 : ((sampleUp s me).gh me).curS = (s.procs me).ms := by simp [sampleUp]
    simp at c2
    omega
  · rw [hn]
    have c1 := sumTo_change (f := contribR s) (g := contribR (sampleUp s me)) hme (by
      intro q _ e; simp only [contribR, live, hU q e, hacc q e])
    have c2 := sumTo_change (f := fun q => if (s.gh q).c then (s.gh q).curR else 0)
      (g := fun q => if ((sampleUp s me).gh q).c then ((sampleUp s me).gh q).curR else 0) hme (by
      intro q _ e; simp only [hc q e])
    have e1 : contribR s me = (s.procs me).accR := by simp [contribR, live, h1]
    have e2 : contribR (sampleUp s me) me = (s.procs me).accR + (s.procs me).mr := by
      simp only [contribR, live, hclsm, hUm]; simp [sampleUp, accAdd]
    have := h.fR
    simp only [hcme, hcm, if_true] at c2
    have e3 : ((sampleUp s me).gh me).curR = (s.procs me).mr := by simp [sampleUp]
    simp at c2
    omega
  · intro hs
    have hk : ∀ q, sKS ((sampleUp s me).gh q) = sKS (s.gh q) ∧ sKR ((sampleUp s me).gh q) = sKR (s.gh q) := by
      intro q
      by_cases e : q = me
      · subst e; simp [sKS, sKR, sampleUp, hcme]
      · rw [hc q e]; exact ⟨rfl, rfl⟩
    rw [hn, hacc 0 (by omega), sumTo_congr (fun q _ => (hk q).1), sumTo_congr (fun q _ => (hk q).2)]
    exact h.lastT hs
  · intro hs; rw [hacc 0 (by omega)]; exact h.lastF hs

end ParsecVerif.FourCounter
