import ParsecVerif.Proofs.FourCounterH5
/-
  The full invariant is preserved by send_up_messages / check_state_message_received.
-/
namespace ParsecVerif.FourCounter

theorem Inv.sendUp {s : State} (h : Inv s) {me : Nat} (hme : me < s.n)
    (h1 : cls (s.procs me).st = 1) (hncl : (s.procs me).ncl = 0) (hw : (s.procs me).wl = 0) :
    Inv (sendUp s me) := by
  unfold FourCounter.sendUp
  by_cases e : me = 0
  · subst e
    rw [if_pos rfl]
    have hn : 0 < s.n := hme
    refine ⟨h.st.decide hn h1 hncl, h.hi.atDecision h.st hn h1 hncl hw, ?_, ?_⟩
    · intro ht
      have hres : rootRes s.n (accAdd (s.procs 0)) = true := by
        have : cls ((rootDecide s).procs 0).st = 3 := by rw [ht]; rfl
        simp only [rootDecide, upd_same] at this
        rw [cls_rootAfter _ _ h1] at this
        split at this
        · assumption
        · omega
      obtain ⟨q1, q2, q3⟩ := decision_quiet h.hi h.st hn h1 hncl hw hres
      have henv := rootDecide_env s
      refine ⟨fun q hq => ?_, by simpa [rootDecide, cnt_app_downs] using q2⟩
      rw [(henv q).2.2.1, (henv q).2.2.2]
      refine ⟨(q1 q hq).1, (q1 q hq).2, ?_⟩
      by_cases e : q = 0
      · subst e; exact Or.inr ht
      · rw [rootDecide_procs_ne s e]; exact Or.inl (q3 q (by omega) hq)
    · intro q hq
      by_cases e : q = 0
      · subst e
        have old := h.fi.cb 0 hq
        have hnt : (s.procs 0).st ≠ .term := by intro e; rw [e] at h1; simp [cls] at h1
        rw [if_neg hnt] at old
        simp only [rootDecide, upd_same]
        unfold rootAfter
        split
        · simp [accAdd, old]
        · simp [accAdd, old, hnt]
      · rw [rootDecide_procs_ne s e]; exact h.fi.cb q hq
  · rw [if_neg e]
    have h0 : 0 < me := by omega
    have hp0 : (sampleUp s me).procs 0 = s.procs 0 := by simp [sampleUp, Ne.symm e]
    refine ⟨h.st.sample h0 hme h1 hncl, h.hi.sample h.st h0 hme h1 hw, ?_, ?_⟩
    · intro ht
      rw [hp0] at ht
      have := ((h.fi.q ht).1 me hme).2.2
      rcases this with t | t <;> rw [t] at h1 <;> simp [cls] at h1
    · intro q hq
      by_cases e' : q = me
      · subst e'
        have old := h.fi.cb q hq
        have hnt : (s.procs q).st ≠ .term := by intro e; rw [e] at h1; simp [cls] at h1
        rw [if_neg hnt] at old
        simp [sampleUp, accAdd, old]
      · have : (sampleUp s me).procs q = s.procs q := by simp [sampleUp, e']
        rw [this]; exact h.fi.cb q hq

theorem Inv.checkMsg {s : State} (h : Inv s) {me : Nat} (hme : me < s.n) : Inv (checkMsg s me) := by
  unfold FourCounter.checkMsg
  split
  · rename_i hc
    exact h.sendUp hme (by rw [hc.2.1]; rfl) hc.2.2 hc.1
  · exact h

end ParsecVerif.FourCounter
