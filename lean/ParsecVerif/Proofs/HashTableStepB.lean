/-
  The building blocks of the steps that change a chain (a new item at the top, an in-flight item put
  back at the top, an item unlinked), and the steps `lt` (top-level bucket) and `nx` (read of `next`).
-/
import ParsecVerif.Proofs.HashTableStepA

namespace ParsecVerif.HashTable

theorem nodup_of_keys {l : List Item} (h : l.Pairwise fun a b => a.key ≠ b.key) : l.Nodup :=
  List.Pairwise.imp (fun hab he => hab (congrArg Item.key he)) h

theorem eq_of_key_eq {l : List Item} (h : l.Pairwise fun a b => a.key ≠ b.key) {a b : Item} (ha : a ∈ l) (hb : b ∈ l)
    (hk : a.key = b.key) : a = b := by
  have h1 := lookup_of_mem h ha
  have h2 := lookup_of_mem h hb
  rw [hk, h2] at h1
  exact (Option.some.inj h1).symm

/-- the stepping thread owns (or, in this very step, takes) the lock of bucket `b` of the top-level table -/
structure Acq (u : Nat) (s s1 : Store) (b : Nat) : Prop where
  e : SameStore s s1
  abs : s1.abs = s.abs
  kheld : s1.kheld = s.kheld
  used : ∀ T, (s1.tab T).used = (s.tab T).used
  lockSelf : (s1.bk s.top b).lock = u + 1
  lockG : ∀ T b', (s1.bk T b').lock = (s.bk T b').lock ∨ (s.bk T b').lock = 0 ∨ (s.bk T b').lock = u + 1
  lockS : (s.bk s.top b).lock = 0 ∨ (s.bk s.top b).lock = u + 1

theorem acq_setLock {u : Nat} {s : Store} {b : Nat} (h : (s.bk s.top b).lock = 0) : Acq u s (s.setLock s.top b (u + 1)) b := by
  refine ⟨sameStore_setLock s _ _ _, rfl, rfl, fun T => used_setLock s _ _ T _, ?_, ?_, Or.inl h⟩
  · rw [lock_setLock]; simp
  · intro T b'
    rw [lock_setLock]
    split
    · rename_i hc; rw [hc.1, hc.2]; exact Or.inr (Or.inl h)
    · exact Or.inl rfl

theorem acq_refl {u : Nat} {s : Store} {b : Nat} (h : (s.bk s.top b).lock = u + 1) : Acq u s s b :=
  ⟨SameStore.refl s, rfl, rfl, fun _ => rfl, h, fun _ _ => Or.inl rfl, Or.inr h⟩

theorem sameStore_withAbs (m : Store) (A : List Item) : SameStore m { m with abs := A } :=
  ⟨fun _ _ => rfl, fun _ _ => rfl, fun _ => rfl, rfl, rfl, rfl⟩

/-! ## a new item enters the top-level table -/

def pushNew (s : Store) (b : Nat) (it : Item) : Store := { s.pushFront s.top b it with abs := it :: s.abs }

theorem push_new {s s1 : Store} {thr : List Thread} (hS : SInv s thr) {u : Nat} {th : Thread} (hu : thr[u]? = some th)
    {b : Nat} (a : Acq u s s1 b) {it : Item} (hb : b = s.hf it.key s.top) (hk : ∀ y, y ∈ s.abs → y.key ≠ it.key)
    (x : Thread) (hth : th.pc.inHand = none) (hdu : ∀ T, x.pc.isDu T = th.pc.isDu T) :
    StructInv (pushNew s1 b it) ∧ UsedInv (pushNew s1 b it) (thr.set u x) ∧ AbsInv (pushNew s1 b it) (thr.set u x) ∧
    HoldsTop (pushNew s1 b it) u it.key ∧ Guar u s (pushNew s1 b it) := by
  have hns : ¬ Stored s it := fun h => hk it (hS.ab.absIn it h) rfl
  have hns1 : ¬ Stored s1 it := fun h => hns ((a.e.stored it).1 h)
  have st1 : StructInv s1 := hS.st.congr a.e
  have hb1 : b = s1.hf it.key s1.top := by rw [a.e.hf, a.e.top]; exact hb
  have e2 : SameStore (s1.pushFront s1.top b it) (pushNew s1 b it) := sameStore_withAbs _ _
  have stm : StructInv (pushNew s1 b it) := (st1.pushTop hb1 hns1).congr e2
  have hstored : ∀ y, Stored (pushNew s1 b it) y ↔ y = it ∨ Stored s y := by
    intro y
    rw [e2.stored, stored_pushFront st1.top, a.e.stored]
  have hitems : ∀ T b', ((pushNew s1 b it).bk T b').items = if T = s.top ∧ b' = b then it :: (s.bk s.top b).items else (s.bk T b').items := by
    intro T b'
    show ((s1.pushFront s1.top b it).bk T b').items = _
    rw [items_pushFront, a.e.top, a.e.items, a.e.items]
  refine ⟨stm, ?_, ?_, ?_, ?_⟩
  · refine hS.used.same hu x a.e.top a.e.nb0 (fun T _ => ?_) (fun T b' hT => ?_) hdu
    · show ((s1.pushFront s1.top b it).tab T).used = _
      rw [used_pushFront, a.used]
    · rw [hitems]
      have : ¬ (T = s.top ∧ b' = b) := fun hc => by omega
      rw [if_neg this]
  · refine hS.ab.step hu x (fun y hy => ?_) (fun y hy => ?_) ?_
    · show y ∈ it :: s1.abs
      rw [a.abs]
      rcases (hstored y).1 hy with h | h
      · rw [h]; exact List.mem_cons_self
      · exact List.mem_cons_of_mem _ (hS.ab.absIn y h)
    · have hy' : y ∈ it :: s1.abs := hy
      rw [a.abs] at hy'
      rcases List.mem_cons.1 hy' with h | h
      · exact Or.inl ((hstored y).2 (Or.inl h))
      · by_cases hst : Stored s y
        · exact Or.inl ((hstored y).2 (Or.inr hst))
        · exact Or.inr (Or.inr ⟨h, hst, fun hc => by rw [hth] at hc; cases hc.2⟩)
    · show (it :: s1.abs).Pairwise _
      rw [a.abs, List.pairwise_cons]
      exact ⟨fun y hy => (hk y hy).symm, hS.ab.absKeys⟩
  · show ((s1.pushFront s1.top b it).bk s1.top (s1.hf it.key s1.top)).lock = u + 1
    rw [lock_pushFront, ← hb1, a.e.top]; exact a.lockSelf
  · refine ⟨a.e.top, a.e.nb0, a.e.hf, fun T b' => ?_, fun T b' y hy => ?_, fun y hy => Or.inl ?_⟩
    · show ((s1.pushFront s1.top b it).bk T b').lock = _ ∨ _
      rw [lock_pushFront]; exact a.lockG T b'
    · rw [hitems] at hy
      split at hy
      · rename_i hc
        rcases List.mem_cons.1 hy with h | h
        · rw [h, hc.1, hc.2]; exact Or.inr ⟨rfl, hb, a.lockS⟩
        · rw [hc.1, hc.2]; exact Or.inl h
      · exact Or.inl hy
    · show y ∈ it :: s1.abs
      rw [a.abs]; exact List.mem_cons_of_mem _ hy

/-! ## an item in flight is put back at the top -/

theorem push_back {s : Store} {thr : List Thread} (hS : SInv s thr) {u : Nat} {th : Thread} (hu : thr[u]? = some th)
    {it : Item} (hl : HoldsTop s u it.key) (hns : ¬ Stored s it) (hin : it ∈ s.abs)
    (x : Thread) (hth : th.pc.inHand = some it) :
    StructInv (s.pushFront s.top (s.hf it.key s.top) it) ∧
    AbsInv (s.pushFront s.top (s.hf it.key s.top) it) (thr.set u x) ∧
    HoldsTop (s.pushFront s.top (s.hf it.key s.top) it) u it.key ∧ Guar u s (s.pushFront s.top (s.hf it.key s.top) it) := by
  have stm := hS.st.pushTop (b := s.hf it.key s.top) rfl hns
  have hstored : ∀ y, Stored (s.pushFront s.top (s.hf it.key s.top) it) y ↔ y = it ∨ Stored s y :=
    fun y => stored_pushFront hS.st.top _ it y
  refine ⟨stm, ?_, ?_, ?_⟩
  · refine hS.ab.step hu x (fun y hy => ?_) (fun y hy => ?_) hS.ab.absKeys
    · show y ∈ s.abs
      rcases (hstored y).1 hy with h | h
      · rw [h]; exact hin
      · exact hS.ab.absIn y h
    · have hy' : y ∈ s.abs := hy
      by_cases hyi : y = it
      · exact Or.inl ((hstored y).2 (Or.inl hyi))
      · by_cases hst : Stored s y
        · exact Or.inl ((hstored y).2 (Or.inr hst))
        · refine Or.inr (Or.inr ⟨hy', hst, fun hc => ?_⟩)
          rw [hth] at hc; exact hyi (Option.some.inj hc.2).symm
  · show ((s.pushFront s.top (s.hf it.key s.top) it).bk s.top (s.hf it.key s.top)).lock = u + 1
    rw [lock_pushFront]; exact hl
  · refine ⟨rfl, rfl, rfl, fun T b' => Or.inl (lock_pushFront s _ _ T b' it), fun T b' y hy => ?_, fun y hy => Or.inl hy⟩
    rw [items_pushFront] at hy
    split at hy
    · rename_i hc
      rcases List.mem_cons.1 hy with h | h
      · rw [h, hc.1, hc.2]; exact Or.inr ⟨rfl, rfl, Or.inr hl⟩
      · rw [hc.1, hc.2]; exact Or.inl h
    · exact Or.inl hy

/-! ## caller bookkeeping when the ghost map gains or loses an item -/

theorem userInv_new_item {s m : Store} {thr : List Thread} (h : UserInv s thr) {u : Nat} {th : Thread} (hu : thr[u]? = some th)
    {it : Item} (hma : m.abs = it :: s.abs) (hmk : m.kheld = s.kheld)
    (hplain : plainKey it.key = true → it.key ∈ s.kheld)
    (hoth : ∀ (t : Nat) (a : Thread), thr[t]? = some a → t ≠ u → ¬ PendIns a it.key ∧ ¬ RmHold a it.key)
    {x : Thread} (hx1 : ∀ k, ¬ PendIns x k) (hx2 : ∀ k, ¬ RmHold x k) : UserInv m (thr.set u x) := by
  refine ⟨by rw [hmk]; exact h.uPlain, ?_, ?_, ?_⟩
  · intro y hy hp
    rw [hma] at hy; rw [hmk]
    rcases List.mem_cons.1 hy with e | e
    · rw [e] at hp ⊢; exact hplain hp
    · exact h.uAbs y e hp
  · intro t a k ha hp
    rcases get_set_cases x hu ha with ⟨e1, e2⟩ | ⟨e1, e2⟩
    · rw [e2] at hp; exact absurd hp (hx1 k)
    · obtain ⟨g1, g2, g3⟩ := h.uIns t a k e2 hp
      refine ⟨by rw [hmk]; exact g1, ?_, ?_⟩
      · intro y hy
        rw [hma] at hy
        rcases List.mem_cons.1 hy with e | e
        · intro hc; rw [e] at hc; exact (hoth t a e2 e1).1 (hc ▸ hp)
        · exact g2 y e
      · intro t' a' ha' hne
        rcases get_set_cases x hu ha' with ⟨c1, c2⟩ | ⟨c1, c2⟩
        · rw [c2]; exact ⟨hx1 k, hx2 k⟩
        · exact g3 t' a' c2 hne
  · intro t a k ha hp
    rcases get_set_cases x hu ha with ⟨e1, e2⟩ | ⟨e1, e2⟩
    · rw [e2] at hp; exact absurd hp (hx2 k)
    · obtain ⟨g1, g2, g3⟩ := h.uRm t a k e2 hp
      refine ⟨by rw [hmk]; exact g1, ?_, ?_⟩
      · intro y hy
        rw [hma] at hy
        rcases List.mem_cons.1 hy with e | e
        · intro hc; rw [e] at hc; exact (hoth t a e2 e1).2 (hc ▸ hp)
        · exact g2 y e
      · intro t' a' ha' hne
        rcases get_set_cases x hu ha' with ⟨c1, c2⟩ | ⟨c1, c2⟩
        · rw [c2]; exact hx2 k
        · exact g3 t' a' c2 hne

theorem userInv_rem_item {s m : Store} {thr : List Thread} (h : UserInv s thr) (hkeys : s.abs.Pairwise fun a b => a.key ≠ b.key)
    {u : Nat} {th : Thread} (hu : thr[u]? = some th)
    {it : Item} (hit : it ∈ s.abs) (hma : m.abs = s.abs.erase it) (hmk : m.kheld = s.kheld)
    {x : Thread} (hx1 : ∀ k, ¬ PendIns x k) (hx2 : ∀ k, RmHold x k → k = it.key) : UserInv m (thr.set u x) := by
  have hsub : ∀ y, y ∈ m.abs → y ∈ s.abs := fun y hy => by rw [hma] at hy; exact List.mem_of_mem_erase hy
  have hgone : ∀ y, y ∈ m.abs → y.key ≠ it.key := by
    intro y hy hc
    rw [hma] at hy
    have h1 := (List.Nodup.mem_erase_iff (nodup_of_keys hkeys)).1 hy
    exact h1.1 (eq_of_key_eq hkeys h1.2 hit hc)
  refine ⟨by rw [hmk]; exact h.uPlain, ?_, ?_, ?_⟩
  · intro y hy hp; rw [hmk]; exact h.uAbs y (hsub y hy) hp
  · intro t a k ha hp
    rcases get_set_cases x hu ha with ⟨e1, e2⟩ | ⟨e1, e2⟩
    · rw [e2] at hp; exact absurd hp (hx1 k)
    · obtain ⟨g1, g2, g3⟩ := h.uIns t a k e2 hp
      refine ⟨by rw [hmk]; exact g1, fun y hy => g2 y (hsub y hy), ?_⟩
      intro t' a' ha' hne
      rcases get_set_cases x hu ha' with ⟨c1, c2⟩ | ⟨c1, c2⟩
      · rw [c2]
        refine ⟨hx1 k, fun hr => ?_⟩
        have := hx2 k hr
        exact g2 it hit this.symm
      · exact g3 t' a' c2 hne
  · intro t a k ha hp
    rcases get_set_cases x hu ha with ⟨e1, e2⟩ | ⟨e1, e2⟩
    · rw [e2] at hp
      have hk := hx2 k hp
      refine ⟨?_, fun y hy => hk ▸ hgone y hy, ?_⟩
      · rw [hmk, hk]; exact h.uAbs it hit (hk ▸ hp.2.1)
      · intro t' a' ha' hne
        rw [e1] at hne
        rw [get_set_ne x hne] at ha'
        intro hr
        exact (h.uRm t' a' k ha' hr).2.1 it hit hk.symm
    · obtain ⟨g1, g2, g3⟩ := h.uRm t a k e2 hp
      refine ⟨by rw [hmk]; exact g1, fun y hy => g2 y (hsub y hy), ?_⟩
      intro t' a' ha' hne
      rcases get_set_cases x hu ha' with ⟨c1, c2⟩ | ⟨c1, c2⟩
      · rw [c2]
        intro hr
        exact g2 it hit (hx2 k hr).symm
      · exact g3 t' a' c2 hne

/-! ## an item is unlinked and handed to the caller (`rem`) -/

def eraseRm (s : Store) (T b : Nat) (it : Item) : Store := { s.eraseIt T b it with abs := s.abs.erase it }

/-- the part of `Acq` that does not speak about a particular bucket -/
structure Pre (u : Nat) (s s1 : Store) : Prop where
  e : SameStore s s1
  abs : s1.abs = s.abs
  kheld : s1.kheld = s.kheld
  used : ∀ T, (s1.tab T).used = (s.tab T).used
  lockG : ∀ T b', (s1.bk T b').lock = (s.bk T b').lock ∨ (s.bk T b').lock = 0 ∨ (s.bk T b').lock = u + 1

theorem Acq.pre {u : Nat} {s s1 : Store} {b : Nat} (a : Acq u s s1 b) : Pre u s s1 := ⟨a.e, a.abs, a.kheld, a.used, a.lockG⟩

theorem Pre.refl (u : Nat) (s : Store) : Pre u s s := ⟨SameStore.refl s, rfl, rfl, fun _ => rfl, fun _ _ => Or.inl rfl⟩

theorem pre_setLock {u : Nat} {s : Store} {T b : Nat} (h : (s.bk T b).lock = 0) : Pre u s (s.setLock T b (u + 1)) := by
  refine ⟨sameStore_setLock s _ _ _, rfl, rfl, fun T' => used_setLock s _ _ T' _, ?_⟩
  intro T' b'
  rw [lock_setLock]
  split
  · rename_i hc; rw [hc.1, hc.2]; exact Or.inr (Or.inl h)
  · exact Or.inl rfl

theorem erase_rm {s s1 : Store} {thr : List Thread} (hS : SInv s thr) {u : Nat} {th : Thread} (hu : thr[u]? = some th)
    (p : Pre u s s1) {T b : Nat} {it : Item} (hT : Tin s T) (hit : it ∈ (s.bk T b).items)
    (x : Thread) (hth : th.pc.inHand = none) :
    StructInv (eraseRm s1 T b it) ∧ AbsInv (eraseRm s1 T b it) (thr.set u x) ∧ Guar u s (eraseRm s1 T b it) ∧
    (∀ T' b', ((eraseRm s1 T b it).bk T' b').items = if T' = T ∧ b' = b then (s.bk T b).items.erase it else (s.bk T' b').items) := by
  have st1 : StructInv s1 := hS.st.congr p.e
  have hT1 : Tin s1 T := (p.e.tin T).2 hT
  have hit1 : it ∈ (s1.bk T b).items := by rw [p.e.items]; exact hit
  have e2 : SameStore (s1.eraseIt T b it) (eraseRm s1 T b it) := sameStore_withAbs _ _
  have hstored : ∀ y, Stored (eraseRm s1 T b it) y ↔ Stored s y ∧ y ≠ it := by
    intro y; rw [e2.stored, stored_erase st1 hT1 hit1, p.e.stored]
  have hitems : ∀ T' b', ((eraseRm s1 T b it).bk T' b').items = if T' = T ∧ b' = b then (s.bk T b).items.erase it else (s.bk T' b').items := by
    intro T' b'
    show ((s1.eraseIt T b it).bk T' b').items = _
    rw [items_eraseIt, p.e.items, p.e.items]
  have hia : it ∈ s.abs := hS.ab.absIn it ⟨T, b, hT, hit⟩
  have hnd := nodup_of_keys hS.ab.absKeys
  refine ⟨(st1.erase hT1 hit1).congr e2, ?_, ?_, hitems⟩
  · refine hS.ab.step hu x (fun y hy => ?_) (fun y hy => ?_) ?_
    · show y ∈ s1.abs.erase it
      rw [p.abs]
      have := (hstored y).1 hy
      exact (List.mem_erase_of_ne this.2).2 (hS.ab.absIn y this.1)
    · have hy' : y ∈ s1.abs.erase it := hy
      rw [p.abs] at hy'
      have h1 := (List.Nodup.mem_erase_iff hnd).1 hy'
      by_cases hst : Stored s y
      · exact Or.inl ((hstored y).2 ⟨hst, h1.1⟩)
      · exact Or.inr (Or.inr ⟨h1.2, hst, fun hc => by rw [hth] at hc; cases hc.2⟩)
    · show (s1.abs.erase it).Pairwise _
      rw [p.abs]; exact hS.ab.absKeys.sublist List.erase_sublist
  · refine ⟨p.e.top, p.e.nb0, p.e.hf, fun T' b' => ?_, fun T' b' y hy => Or.inl ?_, fun y hy => ?_⟩
    · show ((s1.eraseIt T b it).bk T' b').lock = _ ∨ _
      rw [lock_eraseIt]; exact p.lockG T' b'
    · rw [hitems] at hy
      split at hy
      · rename_i hc; rw [hc.1, hc.2]; exact List.mem_of_mem_erase hy
      · exact hy
    · show y ∈ s1.abs.erase it ∨ _
      rw [p.abs]
      by_cases hyi : y = it
      · rw [hyi]; exact Or.inr ⟨T, b, hT, hit⟩
      · exact Or.inl ((List.mem_erase_of_ne hyi).2 hy)

end ParsecVerif.HashTable
