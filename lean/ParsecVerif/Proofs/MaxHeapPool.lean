import ParsecVerif.Proofs.MaxHeapOps
import ParsecVerif.Base.Interleave
/-!
  A pool of heaps driven by an arbitrary script of heap_create / heap_insert / heap_remove /
  heap_split_and_steal calls: every live heap keeps the invariant and no task is lost or duplicated.
-/
namespace ParsecVerif.MaxHeap
open ParsecVerif

structure PoolInv (s : St) : Prop where
  inv : ∀ (i : Nat) (h : Heap), s.heaps[i]? = some (some h) → Inv h
  bound : ∀ (i : Nat) (h : Heap), s.heaps[i]? = some (some h) → h.size ≤ s.inserted.length
  cons : ∀ a, (s.heaps.map (hcount a)).sum + s.returned.count a = s.inserted.count a

theorem poolInv_init (n : Nat) : PoolInv (init n) := by
  refine ⟨?_, ?_, ?_⟩
  · intro i h hi
    simp only [init, List.getElem?_replicate] at hi
    split at hi <;> cases hi
  · intro i h hi
    simp only [init, List.getElem?_replicate] at hi
    split at hi <;> cases hi
  · intro a
    simp only [init, List.map_replicate, hcount, List.sum_replicate_nat, List.count_nil]
    simp

theorem slot_some {s : St} {i : Nat} {h : Heap} (hs : slot s i = some h) : s.heaps[i]? = some (some h) := by
  unfold slot at hs
  cases hg : s.heaps[i]? with
  | none => rw [hg] at hs; cases hs
  | some o => rw [hg] at hs; simp at hs; rw [hs]

theorem slot_none {s : St} {i : Nat} (hi : i < s.heaps.length) (hs : slot s i = none) : s.heaps[i]? = some none := by
  unfold slot at hs
  rw [List.getElem?_eq_getElem hi] at hs ⊢
  simp at hs; rw [hs]

/-- replacing the heap in slot `i` moves the count of `a` accordingly -/
theorem sum_set_heap (a : Task) (l : List (Option Heap)) (i : Nat) (old new : Option Heap)
    (h : l[i]? = some old) :
    ((l.set i new).map (hcount a)).sum + hcount a old = (l.map (hcount a)).sum + hcount a new := by
  obtain ⟨hi, he⟩ := List.getElem?_eq_some_iff.1 h
  rw [List.map_set]
  have := Interleave.sum_set (l.map (hcount a)) i (hcount a new) (by simpa using hi)
  simp only [List.getElem_map, he] at this
  exact this

theorem get_set_cases {α} (l : List α) (i j : Nat) (x v : α) (h : (l.set i x)[j]? = some v) :
    (j = i ∧ v = x) ∨ l[j]? = some v := by
  rw [List.getElem?_set] at h
  split at h
  · rename_i hij
    split at h
    · left; exact ⟨hij.symm, by simpa using h.symm⟩
    · cases h
  · right; exact h

theorem step_inv (s : St) (op : Op) (hs : PoolInv s) (hlen : s.inserted.length + 1 < 2 ^ 32) :
    PoolInv (step s op).1 := by
  obtain ⟨hinv, hbound, hcons⟩ := hs
  cases op with
  | new h =>
    simp only [step]
    split
    · rename_i hc
      obtain ⟨hh, hn⟩ := hc
      have hg := slot_none hh hn
      refine ⟨?_, ?_, ?_⟩
      · intro i hp hi
        rcases get_set_cases _ _ _ _ _ hi with ⟨_, hv⟩ | hv
        · cases hv; exact inv_create
        · exact hinv i hp hv
      · intro i hp hi
        rcases get_set_cases _ _ _ _ _ hi with ⟨_, hv⟩ | hv
        · cases hv; simp [create]
        · exact hbound i hp hv
      · intro a
        have := sum_set_heap a s.heaps h none (some create) hg
        have := hcons a
        simp only [hcount, create, Tree.elems, List.count_nil] at *
        omega
    · exact ⟨hinv, hbound, hcons⟩
  | ins h e =>
    simp only [step]
    cases hsl : slot s h with
    | none => exact ⟨hinv, hbound, hcons⟩
    | some hp =>
      simp only
      split
      · exact ⟨hinv, hbound, hcons⟩
      · have hg := slot_some hsl
        obtain ⟨i1, i2, i3⟩ := insert_spec hp e (hinv h hp hg)
        refine ⟨?_, ?_, ?_⟩
        · intro i hq hi
          rcases get_set_cases _ _ _ _ _ hi with ⟨_, hv⟩ | hv
          · cases hv; exact i1
          · exact hinv i hq hv
        · intro i hq hi
          simp only [List.length_cons]
          rcases get_set_cases _ _ _ _ _ hi with ⟨_, hv⟩ | hv
          · cases hv; rw [i2]; have := hbound h hp hg; omega
          · have := hbound i hq hv; omega
        · intro a
          have := sum_set_heap a s.heaps h (some hp) (some (insert hp e)) hg
          have := hcons a
          have := i3 a
          simp only [hcount, List.count_cons, beq_iff_eq] at *
          omega
  | rem h =>
    simp only [step]
    split
    · cases hsl : slot s h with
      | none => exact ⟨hinv, hbound, hcons⟩
      | some hp =>
        simp only
        have hg := slot_some hsl
        have hi0 := hinv h hp hg
        cases hr : remove hp with
        | none => exact ⟨hinv, hbound, hcons⟩
        | some o =>
          simp only
          have h0 : hp.size ≠ 0 := by
            intro h0
            have hsh := hi0.shape
            rw [h0] at hsh
            have := Shape_zero hsh
            simp [remove, this] at hr
          obtain ⟨o', r1, _, _, r4, r5, r6⟩ := remove_spec hp hi0 h0
          rw [hr] at r1
          cases r1
          refine ⟨?_, ?_, ?_⟩
          · intro i hq hi
            simp only [applyOut] at hi
            rcases get_set_cases _ _ _ _ _ hi with ⟨_, hv⟩ | hv
            · exact r4 hq hv.symm
            · exact hinv i hq hv
          · intro i hq hi
            simp only [applyOut] at hi ⊢
            rcases get_set_cases _ _ _ _ _ hi with ⟨_, hv⟩ | hv
            · rw [← hv] at r5; simp only [osize] at r5
              have := hbound h hp hg; omega
            · exact hbound i hq hv
          · intro a
            have := sum_set_heap a s.heaps h (some hp) o.heap hg
            have := hcons a
            have := r6 a
            simp only [applyOut, hcount, List.count_cons, beq_iff_eq] at *
            omega
    · exact ⟨hinv, hbound, hcons⟩
  | split h g =>
    simp only [step]
    split
    · rename_i hc
      obtain ⟨hh, hgl, hne, hgn⟩ := hc
      cases hsl : slot s h with
      | none => exact ⟨hinv, hbound, hcons⟩
      | some hp =>
        simp only
        have hg := slot_some hsl
        have hgg := slot_none hgl hgn
        have hi0 := hinv h hp hg
        cases hr : split hp with
        | none => exact ⟨hinv, hbound, hcons⟩
        | some o =>
          simp only
          have h0 : hp.size ≠ 0 := by
            intro h0
            have hsh := hi0.shape
            rw [h0] at hsh
            have := Shape_zero hsh
            simp [split, this] at hr
          have hb := hbound h hp hg
          obtain ⟨o', r1, _, r3, r4, r5, r6⟩ := split_spec hp hi0 h0 (by omega)
          rw [hr] at r1
          cases r1
          have hgg' : (s.heaps.set h o.heap)[g]? = some none := by
            rw [List.getElem?_set]; simp [hne, hgg]
          refine ⟨?_, ?_, ?_⟩
          · intro i hq hi
            simp only [applyOut] at hi
            rcases get_set_cases _ _ _ _ _ hi with ⟨_, hv⟩ | hv
            · exact r4 hq hv.symm
            · rcases get_set_cases _ _ _ _ _ hv with ⟨_, hw⟩ | hw
              · exact r3 hq hw.symm
              · exact hinv i hq hw
          · intro i hq hi
            simp only [applyOut] at hi ⊢
            rcases get_set_cases _ _ _ _ _ hi with ⟨_, hv⟩ | hv
            · rw [← hv] at r5; simp only [osize] at r5; omega
            · rcases get_set_cases _ _ _ _ _ hv with ⟨_, hw⟩ | hw
              · rw [← hw] at r5; simp only [osize] at r5; omega
              · exact hbound i hq hw
          · intro a
            have := sum_set_heap a s.heaps h (some hp) o.heap hg
            have := sum_set_heap a (s.heaps.set h o.heap) g none o.fresh hgg'
            have := hcons a
            have := r6 a
            simp only [applyOut, hcount, List.count_cons, beq_iff_eq] at *
            omega
    · exact ⟨hinv, hbound, hcons⟩

theorem step_inserted (s : St) (op : Op) : (step s op).1.inserted.length ≤ s.inserted.length + 1 := by
  cases op with
  | new h => simp only [step]; split <;> simp
  | ins h e =>
    simp only [step]
    cases slot s h with
    | none => simp
    | some hp => simp only; split <;> simp
  | rem h =>
    simp only [step]
    split
    · cases slot s h with
      | none => simp
      | some hp => simp only; cases remove hp <;> simp [applyOut]
    · simp
  | split h g =>
    simp only [step]
    split
    · cases slot s h with
      | none => simp
      | some hp => simp only; cases split hp <;> simp [applyOut]
    · simp

theorem run_inv : ∀ (ops : List Op) (s : St), PoolInv s → s.inserted.length + ops.length < 2 ^ 32 →
    PoolInv (run s ops) := by
  intro ops
  induction ops with
  | nil => intro s h _; exact h
  | cons op rest ih =>
    intro s h hl
    simp only [List.length_cons] at hl
    simp only [run, List.foldl_cons]
    apply ih
    · exact step_inv s op h (by omega)
    · have := step_inserted s op; omega

end ParsecVerif.MaxHeap
