import ParsecVerif.Proofs.TermdetLocal
/-! Preservation of the invariant by one thread step (from idle: plain prefix of the API calls). -/
namespace ParsecVerif.TermdetLocal

set_option maxHeartbeats 4000000 in
theorem local_idle_nil (sh : Shared) (th : Thread) (S S' : Sums) (hpc : th.pc = .idle) (hs : th.script = [])
    (hI : Inv' sh S) (hF : Facts S (W th)) (hen : enabled sh th)
    (hM : Moves S S' (W th) (W (tstep sh th).2)) : Inv' (tstep sh th).1 S' := by
  prelude
  simp only at hs
  subst hs
  unf
  smp []
  finish

set_option maxHeartbeats 4000000 in
theorem local_idle_ready (sh : Shared) (th : Thread) (S S' : Sums) (rest : List Op) (hpc : th.pc = .idle) (hs : th.script = .ready :: rest)
    (hI : Inv' sh S) (hF : Facts S (W th)) (hen : enabled sh th)
    (hM : Moves S S' (W th) (W (tstep sh th).2)) : Inv' (tstep sh th).1 S' := by
  prelude
  simp only at hs
  subst hs
  unf
  smp []
  finish

set_option maxHeartbeats 4000000 in
theorem local_idle_addT (sh : Shared) (th : Thread) (S S' : Sums) (v : Int) (rest : List Op) (hpc : th.pc = .idle) (hs : th.script = .addT v :: rest)
    (hI : Inv' sh S) (hF : Facts S (W th)) (hen : enabled sh th)
    (hM : Moves S S' (W th) (W (tstep sh th).2)) : Inv' (tstep sh th).1 S' := by
  prelude
  simp only at hs
  subst hs
  unf
  by_cases hc : v = 0
  · smp [hc]
    finish
  · smp [hc]
    finish

set_option maxHeartbeats 4000000 in
theorem local_idle_addA (sh : Shared) (th : Thread) (S S' : Sums) (v : Int) (rest : List Op) (hpc : th.pc = .idle) (hs : th.script = .addA v :: rest)
    (hI : Inv' sh S) (hF : Facts S (W th)) (hen : enabled sh th)
    (hM : Moves S S' (W th) (W (tstep sh th).2)) : Inv' (tstep sh th).1 S' := by
  prelude
  simp only at hs
  subst hs
  unf
  by_cases hc : v = 0
  · smp [hc]
    finish
  · smp [hc]
    finish

set_option maxHeartbeats 4000000 in
theorem local_idle_setT (sh : Shared) (th : Thread) (S S' : Sums) (v : Int) (rest : List Op) (hpc : th.pc = .idle) (hs : th.script = .setT v :: rest)
    (hI : Inv' sh S) (hF : Facts S (W th)) (hen : enabled sh th)
    (hM : Moves S S' (W th) (W (tstep sh th).2)) : Inv' (tstep sh th).1 S' := by
  prelude
  simp only at hs
  subst hs
  unf
  by_cases hc : nt = v
  · smp [hc]
    finish
  · smp [hc]
    finish

set_option maxHeartbeats 4000000 in
theorem local_idle_setA (sh : Shared) (th : Thread) (S S' : Sums) (v : Int) (rest : List Op) (hpc : th.pc = .idle) (hs : th.script = .setA v :: rest)
    (hI : Inv' sh S) (hF : Facts S (W th)) (hen : enabled sh th)
    (hM : Moves S S' (W th) (W (tstep sh th).2)) : Inv' (tstep sh th).1 S' := by
  prelude
  simp only at hs
  subst hs
  unf
  smp []
  finish

set_option maxHeartbeats 4000000 in
theorem local_idle_state (sh : Shared) (th : Thread) (S S' : Sums) (rest : List Op) (hpc : th.pc = .idle) (hs : th.script = .state :: rest)
    (hI : Inv' sh S) (hF : Facts S (W th)) (hen : enabled sh th)
    (hM : Moves S S' (W th) (W (tstep sh th).2)) : Inv' (tstep sh th).1 S' := by
  prelude
  simp only at hs
  subst hs
  unf
  smp []
  finish

end ParsecVerif.TermdetLocal
