import ParsecVerif.Proofs.RemoteDep
/-! C13 helper lemmas, part 2: the layers (numberings) all participants agree on, the sender→receiver
    relation `edges`, and the key lemma: the sends of one `parsec_remote_dep_activate` are exactly
    the edges leaving that participant. -/
namespace ParsecVerif.RemoteDep

/-! ## D. layers -/

theorem mem_layer {fw cs : List Nat} {x : Nat} : x ∈ layer fw cs ↔ x ∈ cs ∧ x ∉ fw := by
  unfold layer; simp

theorem layer_nodup (fw : List Nat) {cs : List Nat} (h : cs.Nodup) : (layer fw cs).Nodup :=
  List.Nodup.sublist List.filter_sublist h

theorem layer_length_le (fw cs : List Nat) : (layer fw cs).length ≤ cs.length :=
  List.length_filter_le _ _

/-- every layer is duplicate free, avoids the ranks forwarded before it, and stays inside the communicator -/
theorem layersFrom_layer (n root : Nat) (hr : root < n) (Ss : List (List Nat))
    (hS : ∀ S ∈ Ss, ∀ r ∈ S, r < n) (fw : List Nat) :
    ∀ L ∈ layersFrom n root fw Ss, L.Nodup ∧ (∀ x ∈ L, x ∉ fw ∧ x < n) ∧ L.length ≤ n := by
  induction Ss generalizing fw with
  | nil => intro L hL; simp [layersFrom] at hL
  | cons S Ss ih =>
    intro L hL
    unfold layersFrom at hL
    rcases List.mem_cons.1 hL with rfl | hL
    · refine ⟨layer_nodup fw (cands_nodup n root S hr), ?_, ?_⟩
      · intro x hx
        have := mem_layer.1 hx
        exact ⟨this.2, hS S List.mem_cons_self x ((mem_cands n root S hr (hS S List.mem_cons_self) x).1 this.1)⟩
      · exact Nat.le_trans (layer_length_le _ _) (cands_length_le n root S)
    · have := ih (fun S' hS' => hS S' (List.mem_cons_of_mem _ hS')) _ L hL
      refine ⟨this.1, fun x hx => ⟨fun hf => (this.2.1 x hx).1 (List.mem_append_right _ hf), (this.2.1 x hx).2⟩, this.2.2⟩

/-- the layers partition the non-forwarded destinations -/
theorem layersFrom_spec (n root : Nat) (hr : root < n) (Ss : List (List Nat))
    (hS : ∀ S ∈ Ss, ∀ r ∈ S, r < n) (fw : List Nat) :
    (layersFrom n root fw Ss).flatten.Nodup ∧
    ∀ x, x ∈ (layersFrom n root fw Ss).flatten ↔ (x ∉ fw ∧ ∃ S ∈ Ss, x ∈ S) := by
  induction Ss generalizing fw with
  | nil => simp [layersFrom]
  | cons S Ss ih =>
    have ih' := ih (fun S' hS' => hS S' (List.mem_cons_of_mem _ hS')) ((layer fw (cands n root S)).reverse ++ fw)
    have hc := mem_cands n root S hr (hS S List.mem_cons_self)
    unfold layersFrom
    rw [List.flatten_cons]
    constructor
    · rw [List.nodup_append]
      refine ⟨layer_nodup fw (cands_nodup n root S hr), ih'.1, ?_⟩
      intro a ha b hb hab
      subst hab
      exact ((ih'.2 a).1 hb).1 (List.mem_append_left _ (List.mem_reverse.2 ha))
    · intro x
      rw [List.mem_append, ih'.2 x, mem_layer, hc x]
      simp only [List.mem_append, List.mem_reverse, mem_layer, hc x, List.mem_cons, exists_eq_or_imp]
      constructor
      · rintro (⟨h1, h2⟩ | ⟨h1, S', h2, h3⟩)
        · exact ⟨h2, Or.inl h1⟩
        · exact ⟨fun h => h1 (Or.inr h), Or.inr ⟨S', h2, h3⟩⟩
      · rintro ⟨h1, h2 | ⟨S', h2, h3⟩⟩
        · exact Or.inl ⟨h2, h1⟩
        · by_cases hx : x ∈ S
          · exact Or.inl ⟨hx, h1⟩
          · exact Or.inr ⟨fun h => h.elim (fun h => hx h.1) h1, S', h2, h3⟩

theorem eq_of_mem_flatten_nodup {α : Type} : ∀ {Ls : List (List α)}, Ls.flatten.Nodup → ∀ {L L' : List α},
    L ∈ Ls → L' ∈ Ls → ∀ {x : α}, x ∈ L → x ∈ L' → L = L'
  | [], _, _, _, hL, _, _, _, _ => by cases hL
  | A :: Ls, h, L, L', hL, hL', x, hx, hx' => by
    rw [List.flatten_cons, List.nodup_append] at h
    rcases List.mem_cons.1 hL with e | hLt
    · rcases List.mem_cons.1 hL' with e' | hLt'
      · rw [e, e']
      · subst e
        exact absurd rfl (h.2.2 x hx x (List.mem_flatten.2 ⟨L', hLt', hx'⟩))
    · rcases List.mem_cons.1 hL' with e' | hLt'
      · subst e'
        exact absurd rfl (h.2.2 x hx' x (List.mem_flatten.2 ⟨L, hLt, hx⟩))
      · exact eq_of_mem_flatten_nodup h.2.1 hLt hLt' hx hx'

theorem flatMap_sublist_flatten {α : Type} (f : List α → List α) (hf : ∀ L, (f L).Sublist L) :
    ∀ Ls : List (List α), (Ls.flatMap f).Sublist Ls.flatten
  | [] => by simp
  | A :: Ls => by
    rw [List.flatMap_cons, List.flatten_cons]
    exact (hf A).append (flatMap_sublist_flatten f hf Ls)

/-! ## E. the participants and the edges of a configuration -/

/-- every rank that is numbered by some output: the remote consumers -/
def Cfg.members (c : Cfg) : List Nat := c.layers.flatten

theorem Cfg.WF.root_lt {c : Cfg} (h : c.WF) : c.root < c.n := h.1
theorem Cfg.WF.n_le {c : Cfg} (h : c.WF) : c.n ≤ 2 ^ 31 := h.2.1
theorem Cfg.WF.keys {c : Cfg} (h : c.WF) : (c.outs.map Prod.fst).Pairwise (· < ·) := h.2.2.1
theorem Cfg.WF.ranks {c : Cfg} (h : c.WF) : ∀ S ∈ c.outs.map Prod.snd, ∀ r ∈ S, r < c.n := by
  intro S hS r hr
  obtain ⟨o, ho, rfl⟩ := List.mem_map.1 hS
  exact h.2.2.2 o ho r hr

theorem Cfg.layer_facts {c : Cfg} (h : c.WF) {L : List Nat} (hL : L ∈ c.layers) :
    L.Nodup ∧ c.root ∉ L ∧ (∀ x ∈ L, x < c.n) ∧ L.length ≤ c.n := by
  have := layersFrom_layer c.n c.root h.root_lt _ h.ranks [c.root] L hL
  exact ⟨this.1, fun hx => (this.2.1 _ hx).1 (by simp), fun x hx => (this.2.1 x hx).2, this.2.2⟩

theorem Cfg.members_nodup {c : Cfg} (h : c.WF) : c.members.Nodup :=
  (layersFrom_spec c.n c.root h.root_lt _ h.ranks [c.root]).1

theorem Cfg.mem_members {c : Cfg} (h : c.WF) (x : Nat) :
    x ∈ c.members ↔ (x ≠ c.root ∧ ∃ o ∈ c.outs, x ∈ o.2) := by
  unfold Cfg.members Cfg.layers
  rw [(layersFrom_spec c.n c.root h.root_lt _ h.ranks [c.root]).2 x]
  simp only [List.mem_singleton, List.mem_map, ne_eq]
  constructor
  · rintro ⟨h1, S, ⟨o, ho, rfl⟩, h3⟩; exact ⟨h1, o, ho, h3⟩
  · rintro ⟨h1, o, ho, h3⟩; exact ⟨h1, o.2, ⟨o, ho, rfl⟩, h3⟩

theorem Cfg.root_not_member {c : Cfg} (h : c.WF) : c.root ∉ c.members :=
  fun hm => ((c.mem_members h c.root).1 hm).1 rfl

theorem Cfg.member_lt {c : Cfg} (h : c.WF) {x : Nat} (hx : x ∈ c.members) : x < c.n := by
  obtain ⟨_, o, ho, hxo⟩ := (c.mem_members h x).1 hx
  exact h.2.2.2 o ho x hxo

theorem mem_layerEdges (child : Nat → Nat → Bool) (root : Nat) (L : List Nat) (p x : Nat) :
    (p, x) ∈ layerEdges child root L ↔
      ∃ h m, (x, h) ∈ L.zipIdx 1 ∧ ((p, m) = (root, 0) ∨ (p, m) ∈ L.zipIdx 1) ∧ m < h ∧ child m h = true := by
  unfold layerEdges
  simp only [List.mem_flatMap, List.mem_map, List.mem_filter, List.mem_cons, Bool.and_eq_true,
    decide_eq_true_eq, Prod.mk.injEq, Prod.exists]
  constructor
  · rintro ⟨x', h, h1, p', m, ⟨h2, h3, h4⟩, rfl, rfl⟩
    exact ⟨h, m, h1, h2, h3, h4⟩
  · rintro ⟨h, m, h1, h2, h3, h4⟩
    exact ⟨x, h, h1, p, m, ⟨h2, h3, h4⟩, rfl, rfl⟩

/-- Key lemma, one layer: what the inner loop sends = the edges of the numbering. -/
theorem mem_sendsL_iff (child : Nat → Nat → Bool) (root p : Nat) (L : List Nat) (hnd : L.Nodup)
    (hroot : root ∉ L) (x : Nat) :
    x ∈ sendsL child root p L ↔ (p, x) ∈ layerEdges child root L := by
  rw [mem_layerEdges]
  unfold sendsL
  split
  · rename_i hp
    subst hp
    rw [mem_pick]
    constructor
    · rintro ⟨h, h1, h2⟩
      have := List.le_snd_of_mem_zipIdx h1
      exact ⟨h, 0, h1, Or.inl rfl, by simp at this; omega, h2⟩
    · rintro ⟨h, m, h1, h2, _, h4⟩
      rcases h2 with e | h2
      · injection e with _ e2; subst e2; exact ⟨h, h1, h4⟩
      · exact absurd (List.fst_mem_of_mem_zipIdx h2) hroot
  · rename_i hp
    rw [mem_scan child p L hnd]
    constructor
    · rintro ⟨h, m, h1, h2, h3, h4⟩; exact ⟨h, m, h1, Or.inr h2, h3, h4⟩
    · rintro ⟨h, m, h1, h2, h3, h4⟩
      rcases h2 with e | h2
      · injection e with e1 _; exact absurd e1 hp
      · exact ⟨h, m, h1, h2, h3, h4⟩

theorem Cfg.sends_eq {c : Cfg} (h : c.WF) (p : Nat) :
    c.sends p = c.layers.flatMap (sendsL c.child c.root p) :=
  activateFrom_eq c.child c.n c.root p h.root_lt _ _

/-- **Key lemma.**  For any child predicate: participant `p` sends an activation to `x` iff
    `(p, x)` is an edge of the numbering. -/
theorem Cfg.mem_sends_iff {c : Cfg} (h : c.WF) (p x : Nat) : x ∈ c.sends p ↔ (p, x) ∈ c.edges := by
  rw [c.sends_eq h, Cfg.edges, List.mem_flatMap, List.mem_flatMap]
  constructor
  · rintro ⟨L, hL, hx⟩
    have := c.layer_facts h hL
    exact ⟨L, hL, (mem_sendsL_iff c.child c.root p L this.1 this.2.1 x).1 hx⟩
  · rintro ⟨L, hL, hx⟩
    have := c.layer_facts h hL
    exact ⟨L, hL, (mem_sendsL_iff c.child c.root p L this.1 this.2.1 x).2 hx⟩

theorem Cfg.sends_sublist {c : Cfg} (h : c.WF) (p : Nat) : (c.sends p).Sublist c.members := by
  rw [c.sends_eq h]
  exact flatMap_sublist_flatten _ (sendsL_sublist c.child c.root p) _

theorem Cfg.sends_nodup {c : Cfg} (h : c.WF) (p : Nat) : (c.sends p).Nodup :=
  List.Nodup.sublist (c.sends_sublist h p) (c.members_nodup h)

theorem Cfg.mem_edges {c : Cfg} (p x : Nat) :
    (p, x) ∈ c.edges ↔ ∃ L ∈ c.layers, ∃ h m, (x, h) ∈ L.zipIdx 1 ∧
      ((p, m) = (c.root, 0) ∨ (p, m) ∈ L.zipIdx 1) ∧ m < h ∧ c.child m h = true := by
  unfold Cfg.edges
  rw [List.mem_flatMap]
  constructor
  · rintro ⟨L, hL, he⟩; exact ⟨L, hL, (mem_layerEdges _ _ _ _ _).1 he⟩
  · rintro ⟨L, hL, he⟩; exact ⟨L, hL, (mem_layerEdges _ _ _ _ _).2 he⟩

theorem Cfg.edge_dst {c : Cfg} {p x : Nat} (he : (p, x) ∈ c.edges) : x ∈ c.members := by
  obtain ⟨L, hL, h, m, h1, _⟩ := c.mem_edges p x |>.1 he
  exact List.mem_flatten.2 ⟨L, hL, List.fst_mem_of_mem_zipIdx h1⟩

theorem Cfg.edge_src {c : Cfg} {p x : Nat} (he : (p, x) ∈ c.edges) : p = c.root ∨ p ∈ c.members := by
  obtain ⟨L, hL, h, m, _, h2, _⟩ := c.mem_edges p x |>.1 he
  rcases h2 with e | h2
  · injection e with e1 _; exact Or.inl e1
  · exact Or.inr (List.mem_flatten.2 ⟨L, hL, List.fst_mem_of_mem_zipIdx h2⟩)

theorem zipIdx_snd_inj {L : List Nat} {k x y h : Nat} (h1 : (x, h) ∈ L.zipIdx k) (h2 : (y, h) ∈ L.zipIdx k) :
    x = y := by
  rw [List.mk_mem_zipIdx_iff_le_and_getElem?_sub] at h1 h2
  have := h1.2.symm.trans h2.2
  injection this

theorem zipIdx_fst_inj {L : List Nat} (hnd : L.Nodup) {k x h h' : Nat} (h1 : (x, h) ∈ L.zipIdx k)
    (h2 : (x, h') ∈ L.zipIdx k) : h = h' := by
  have lt := List.snd_lt_add_of_mem_zipIdx h1
  rw [List.mk_mem_zipIdx_iff_le_and_getElem?_sub] at h1 h2
  have := (List.getElem?_inj (i := h - k) (j := h' - k) (by simp at lt; omega) hnd).1 (h1.2.trans h2.2.symm)
  omega

/-- In a tree topology every participant has at most one sender. -/
theorem Cfg.edge_unique {c : Cfg} (h : c.WF) (ht : TreeChild c.child (2 ^ 32)) {p p' x : Nat}
    (he : (p, x) ∈ c.edges) (he' : (p', x) ∈ c.edges) : p = p' := by
  obtain ⟨L, hL, hh, m, h1, h2, h3, h4⟩ := (c.mem_edges p x).1 he
  obtain ⟨L', hL', hh', m', h1', h2', h3', h4'⟩ := (c.mem_edges p' x).1 he'
  have hx1 : x ∈ L := List.fst_mem_of_mem_zipIdx h1
  have hx1' : x ∈ L' := List.fst_mem_of_mem_zipIdx h1'
  have hLL : L = L' := eq_of_mem_flatten_nodup (c.members_nodup h) hL hL' hx1 hx1'
  subst hLL
  have hf := c.layer_facts h hL
  have e := zipIdx_fst_inj hf.1 h1 h1'
  subst e
  have hlt := List.snd_lt_add_of_mem_zipIdx h1
  have hge := List.le_snd_of_mem_zipIdx h1
  simp only at hlt hge
  have hn := h.n_le
  obtain ⟨q, _, hq⟩ := ht hh hge (by have := hf.2.2.2; omega)
  have em : m = q := (hq m).1 ⟨h3, h4⟩
  have em' : m' = q := (hq m').1 ⟨h3', h4'⟩
  subst em; subst em'
  rcases h2 with e | h2 <;> rcases h2' with e' | h2'
  · injection e with a _; injection e' with a' _; rw [a, a']
  · injection e with _ b; subst b
    have := List.le_snd_of_mem_zipIdx h2'; simp at this
  · injection e' with _ b; subst b
    have := List.le_snd_of_mem_zipIdx h2; simp at this
  · exact zipIdx_snd_inj h2 h2'

/-- In a tree topology every numbered rank has a sender, which is the root or is numbered lower
    in the same layer. -/
theorem Cfg.edge_exists {c : Cfg} (h : c.WF) (ht : TreeChild c.child (2 ^ 32)) {L : List Nat}
    (hL : L ∈ c.layers) {x hh : Nat} (hx : (x, hh) ∈ L.zipIdx 1) :
    ∃ p, (p, x) ∈ c.edges ∧ (p = c.root ∨ ∃ h', h' < hh ∧ (p, h') ∈ L.zipIdx 1) := by
  have hf := c.layer_facts h hL
  have hlt := List.snd_lt_add_of_mem_zipIdx hx
  have hge := List.le_snd_of_mem_zipIdx hx
  simp only at hlt hge
  have hn := h.n_le
  obtain ⟨q, hq1, hq⟩ := ht hh hge (by have := hf.2.2.2; omega)
  have hc := (hq q).2 rfl
  by_cases hq0 : q = 0
  · subst hq0
    exact ⟨c.root, (c.mem_edges _ _).2 ⟨L, hL, hh, 0, hx, Or.inl rfl, hc.1, hc.2⟩, Or.inl rfl⟩
  · have hql : q - 1 < L.length := by omega
    have hm : (L[q - 1], q) ∈ L.zipIdx 1 := by
      rw [List.mk_mem_zipIdx_iff_le_and_getElem?_sub]
      exact ⟨by omega, List.getElem?_eq_getElem hql⟩
    exact ⟨L[q - 1], (c.mem_edges _ _).2 ⟨L, hL, hh, q, hx, Or.inr hm, hc.1, hc.2⟩, Or.inr ⟨q, hq1, hm⟩⟩

end ParsecVerif.RemoteDep
