import ParsecVerif.Proofs.DistRtInv2
import ParsecVerif.Props.C13
/-! Deadlock freedom of the distributed runtime (C05) under C13's side condition. -/
namespace ParsecVerif.DistRt
open ParsecVerif.Dataflow
open ParsecVerif.RemoteDep hiding St

section
variable {g : DGraph} {cf : Conf} {F : Nat → List (Option Nat) → Nat} {again : List Nat}

theorem dataOK_iff (c : Cfg) (f : Nat → Bool) :
    dataOK c f = true ↔ ∀ p x, (p, x) ∈ c.edges → p = c.root ∨ ∀ o ∈ c.outs, f o.1 = false → x ∈ o.2 → p ∈ o.2 := by
  unfold dataOK
  rw [List.all_eq_true]
  constructor
  · intro h0 p x he
    have h1 := h0 (p, x) he
    rw [Bool.or_eq_true, beq_iff_eq, List.all_eq_true] at h1
    rcases h1 with h1 | h1
    · exact Or.inl h1
    · refine Or.inr (fun o ho hf hx => ?_)
      have := h1 o ho
      simp only [hf, Bool.false_or, Bool.or_eq_true, Bool.not_eq_true', List.contains_iff_mem] at this
      rcases this with h2 | h2
      · have : o.2.contains x = true := by simpa using hx
        rw [this] at h2; cases h2
      · exact h2
  · intro h0 px he
    rw [Bool.or_eq_true, beq_iff_eq, List.all_eq_true]
    rcases h0 px.1 px.2 he with h1 | h1
    · exact Or.inl h1
    · refine Or.inr (fun o ho => ?_)
      cases hf : f o.1 with
      | true => simp
      | false =>
        by_cases hx : px.2 ∈ o.2
        · have := h1 o ho hf hx
          simp [this]
        · simp [hx]

/-- C13's side condition implies its restriction to the data outputs -/
theorem dataOK_of_deliveryOK (c : Cfg) (f : Nat → Bool) (h : c.deliveryOK = true) : dataOK c f = true := by
  rw [dataOK_iff]
  intro p x he
  rcases (deliveryOK_iff c).1 h p x he with h1 | h1
  · exact Or.inl h1
  · exact Or.inr (fun o ho _ hx => h1 o ho hx)

theorem dataOKAll_of_deliveryOKAll (h : deliveryOKAll g cf = true) : dataOKAll g cf = true := by
  unfold dataOKAll; unfold deliveryOKAll at h
  rw [List.all_eq_true] at h ⊢
  intro a ha
  exact dataOK_of_deliveryOK _ _ (h a ha)

theorem dataOK_of_all (hok : dataOKAll g cf = true) (a : Nat) (ha : a < g.n) : dataOK (cfgOf g cf a) (g.isCtl a) = true := by
  unfold dataOKAll at hok
  exact List.all_eq_true.1 hok a (List.mem_range.2 ha)

/-- once the collective of an ended node has nothing in flight, none of its remote dependencies is pending -/
theorem remote_released (hwf : g.WF) (hcf : cf.WF g) (hok : dataOKAll g cf = true) {s : DSt}
    (h : DInv g cf F again s) (a b : Nat) (haE : s.core.status[a]? = some Status.ended)
    (hinf : inflightOf s a = []) (hpl : cf.place b ≠ cf.place a) : (a, b) ∉ s.core.pending := by
  have ha : a < g.n := h.lt_of_ended hwf haE
  obtain ⟨st, hl⟩ : ∃ st, look s.coll a = some st := by
    have := (h.own a haE).2
    cases hh : look s.coll a with
    | none => rw [hh] at this; cases this
    | some st => exact ⟨st, rfl⟩
  have hst : st.inflight = [] := by unfold inflightOf at hinf; rw [hl] at hinf; exact hinf
  obtain ⟨_, ms, hms⟩ := h.act a st hl
  have hcw := cfgOf_WF hwf hcf a ha
  have ht := cfgOf_tree g cf a
  have hC : RemoteDep.Inv (cfgOf g cf a) st := hms ▸ inv_run hcw ht ms
  have hdo := (dataOK_iff _ _).1 (dataOK_of_all hok a ha)
  have h0 : s.core.pending.count (a, b) = 0 := by
    rw [h.owed a st hl b hpl, List.countP_eq_zero]
    intro e he hc
    simp only [Bool.and_eq_true, beq_iff_eq, Bool.not_eq_true'] at hc
    obtain ⟨⟨h1, h2⟩, h3⟩ := hc
    have hw := cfgOf_wanted hwf a e he h1 (by rw [h2]; exact hpl)
    rw [h2] at hw
    obtain ⟨hr, o, ho, hk, hro⟩ := (mem_wanted _ _).1 hw
    -- the rank of `b` has received its activation message
    have hrm : cf.place b ∈ (cfgOf g cf a).members := (Cfg.mem_members hcw _).2 ⟨hr, o, ho, hro⟩
    have hrd := hC.all_delivered hcw ht hst _ hrm
    unfold got at h3
    split at h3
    · have : (dsts st.log).contains (cf.place b) = true := by simpa using hrd
      rw [this] at h3; cases h3
    · rename_i hnc
      obtain ⟨m, hm, hd⟩ := mem_dsts.1 hrd
      have hedge := (hC.edge m (List.mem_append_right _ hm)).1
      rw [hd] at hedge
      have hsrc : m.src = (cfgOf g cf a).root ∨ m.src ∈ o.2 := by
        rcases hdo _ _ hedge with e1 | e1
        · exact Or.inl e1
        · exact Or.inr (e1 o ho (by rw [hk]; simpa using hnc) hro)
      have hcnt := ((hC.count hcw (cf.place b) e.2.2).2).2 ⟨m, hm, hd, o, ho, hk, hro, hsrc⟩
      have hm' : (cf.place b, e.2.2) ∈ deliveriesOf st.log := List.count_pos_iff.1 (by omega)
      have : (deliveriesOf st.log).contains (cf.place b, e.2.2) = true := by simpa using hm'
      rw [this] at h3; cases h3
  exact List.count_eq_zero.1 h0

/-- **Progress:** in every reachable state in which not everything has terminated some transition is enabled,
    provided every collective activation satisfies `dataOK` (implied by C13's `deliveryOK`). -/
theorem dprogress (hwf : g.WF) (hcf : cf.WF g) (hok : dataOKAll g cf = true) {s : DSt}
    (h : DInv g cf F again s) (hq : ¬ allTerminate g s) : ∃ t, denabled cf s t = true := by
  cases hx : s.xfer with
  | cons am rest =>
    exact ⟨.recvData am.1 am.2, by simp [denabled, hx]⟩
  | nil =>
    by_cases hinf : ∀ a, a < g.n → inflightOf s a = []
    · have hq' : ¬ quiescent s.core := fun hh => hq ⟨hh, hinf, hx⟩
      have hG := h.ginv hwf
      obtain ⟨t, ht⟩ := progress (graph_WF g hwf) hG hq'
      cases t with
      | start i => exact ⟨.start i, ht⟩
      | again i => exact ⟨.again i, ht⟩
      | finish i => exact ⟨.finish i, ht⟩
      | release a b =>
        have hab : s.core.status[a]? = some Status.ended ∧ (a, b) ∈ s.core.pending := by
          simpa [enabled] using ht
        by_cases hpl : cf.place a = cf.place b
        · exact ⟨.releaseLocal a b, by simp [denabled, ht, hpl]⟩
        · exfalso
          have ha : a < g.n := h.lt_of_ended hwf hab.1
          exact remote_released hwf hcf hok h a b hab.1 (hinf a ha) (fun e => hpl e.symm) hab.2
    · have : ∃ a, a < g.n ∧ inflightOf s a ≠ [] :=
        Classical.byContradiction fun hc => hinf fun a ha =>
          Classical.byContradiction fun hne => hc ⟨a, ha, hne⟩
      obtain ⟨a, _, hne⟩ := this
      obtain ⟨m, hm⟩ := List.exists_mem_of_ne_nil _ hne
      exact ⟨.recvAct a m false, by simp [denabled, hm, hx]⟩

end
end ParsecVerif.DistRt
