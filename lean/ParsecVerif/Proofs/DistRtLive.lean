import ParsecVerif.Proofs.DistRtInv2
import ParsecVerif.Props.C13
/-! Deadlock freedom of the distributed runtime (C05) under C13's side condition. -/
namespace ParsecVerif.DistRt
open ParsecVerif.Dataflow
open ParsecVerif.RemoteDep hiding St

section
variable {g : DGraph} {cf : Conf} {F : Nat → List (Option Nat) → Nat} {again : List Nat}

theorem deliveryOK_of_all (hok : deliveryOKAll g cf = true) (a : Nat) (ha : a < g.n) : (cfgOf g cf a).deliveryOK = true := by
  unfold deliveryOKAll at hok
  exact List.all_eq_true.1 hok a (List.mem_range.2 ha)

/-- once the collective of an ended node has nothing in flight, none of its remote dependencies is pending -/
theorem remote_released (hwf : g.WF) (hcf : cf.WF g) (hok : deliveryOKAll g cf = true) {s : DSt}
    (h : DInv g cf F again s) (a b : Nat) (haE : s.core.status[a]? = some Status.ended)
    (hinf : inflightOf s a = []) (hpl : cf.place b ≠ cf.place a) : (a, b) ∉ s.core.pending := by
  have ha : a < g.n := h.lt_of_ended hwf haE
  obtain ⟨st, hl⟩ : ∃ st, look s.coll a = some st := by
    have := (h.own a haE).2
    cases hh : look s.coll a with
    | none => rw [hh] at this; cases this
    | some st => exact ⟨st, rfl⟩
  have hst : st.inflight = [] := by unfold inflightOf at hinf; rw [hl] at hinf; exact hinf
  obtain ⟨_, ms, hms⟩ := h.act a st hl
  have hcw := cfgOf_WF hwf hcf a ha
  have hC : RemoteDep.Inv (cfgOf g cf a) st := hms ▸ inv_run hcw (cfgOf_tree g cf a) ms
  have hx : ExactlyOnce (cfgOf g cf a) (deliveriesOf st.log) :=
    (C13.iff_of_inv _ hcw (cfgOf_tree g cf a) st hC hst).2 (deliveryOK_of_all hok a ha)
  have h0 : s.core.pending.count (a, b) = 0 := by
    rw [h.owed a st hl b hpl, List.countP_eq_zero]
    intro e he hc
    simp only [Bool.and_eq_true, beq_iff_eq, Bool.not_eq_true'] at hc
    obtain ⟨⟨h1, h2⟩, h3⟩ := hc
    have hw := cfgOf_wanted hwf a e he h1 (by rw [h2]; exact hpl)
    have := hx (cf.place e.2.1) e.2.2
    rw [hw, if_pos rfl, h2] at this
    have hm : (cf.place b, e.2.2) ∈ deliveriesOf st.log := List.count_pos_iff.1 (by omega)
    have : (deliveriesOf st.log).contains (cf.place b, e.2.2) = true := by simpa using hm
    rw [this] at h3; cases h3
  exact List.count_eq_zero.1 h0

/-- **Progress:** in every reachable state in which not everything has terminated some transition is enabled,
    provided every collective activation satisfies `deliveryOK`. -/
theorem dprogress (hwf : g.WF) (hcf : cf.WF g) (hok : deliveryOKAll g cf = true) {s : DSt}
    (h : DInv g cf F again s) (hq : ¬ allTerminate g s) : ∃ t, denabled cf s t = true := by
  cases hx : s.xfer with
  | cons am rest =>
    exact ⟨.recvData am.1 am.2, by simp [denabled, hx]⟩
  | nil =>
    by_cases hinf : ∀ a, a < g.n → inflightOf s a = []
    · have hq' : ¬ quiescent s.core := fun hh => hq ⟨hh, hinf, hx⟩
      have hG := h.ginv hwf
      obtain ⟨t, ht⟩ := progress (graph_WF g hwf) hG hq'
      cases t with
      | start i => exact ⟨.start i, ht⟩
      | again i => exact ⟨.again i, ht⟩
      | finish i => exact ⟨.finish i, ht⟩
      | release a b =>
        have hab : s.core.status[a]? = some Status.ended ∧ (a, b) ∈ s.core.pending := by
          simpa [enabled] using ht
        by_cases hpl : cf.place a = cf.place b
        · exact ⟨.releaseLocal a b, by simp [denabled, ht, hpl]⟩
        · exfalso
          have ha : a < g.n := h.lt_of_ended hwf hab.1
          exact remote_released hwf hcf hok h a b hab.1 (hinf a ha) (fun e => hpl e.symm) hab.2
    · have : ∃ a, a < g.n ∧ inflightOf s a ≠ [] :=
        Classical.byContradiction fun hc => hinf fun a ha =>
          Classical.byContradiction fun hne => hc ⟨a, ha, hne⟩
      obtain ⟨a, _, hne⟩ := this
      obtain ⟨m, hm⟩ := List.exists_mem_of_ne_nil _ hne
      exact ⟨.recvAct a m false, by simp [denabled, hm, hx]⟩

end
end ParsecVerif.DistRt
