import ParsecVerif.Model.Compound
/-! The array built by `parsec_compose`: members in order, NULL terminated, never written out of bounds. -/
namespace ParsecVerif.Compound

structure AInv (arr : Arr) (ms : List Nat) : Prop where
  nb : arr.nb = ms.length
  oob : arr.oob = false
  len : arr.slots.length = arr.cap
  lt : arr.nb < arr.cap
  cap : arr.cap = 16 * (arr.nb / 16 + 1)
  term : arr.slots[arr.nb]? = some .null
  elems : ∀ i, i < ms.length → arr.slots[i]? = (ms[i]?).map Slot.tp

theorem ainv_new (a b : Nat) : AInv (composeNew a b) [a, b] := by
  refine ⟨rfl, rfl, ?_, by simp [composeNew, Arr.write], by simp [composeNew, Arr.write], ?_, ?_⟩
  · simp [composeNew, Arr.write]
  · simp [composeNew, Arr.write]
  · intro i hi
    simp only [List.length_cons, List.length_nil] at hi
    have : i = 0 ∨ i = 1 := by omega
    rcases this with rfl | rfl <;> simp [composeNew, Arr.write]

theorem ainv_append (arr : Arr) (ms : List Nat) (x : Nat) (h : AInv arr ms) : AInv (composeAppend arr x) (ms ++ [x]) := by
  obtain ⟨hnb, hoob, hlen, hlt, hcap, hterm, helems⟩ := h
  have hw1 : arr.write arr.nb (.tp x) = { arr with slots := arr.slots.set arr.nb (.tp x) } := by
    simp [Arr.write, hlt]
  unfold composeAppend
  simp only [hw1]
  by_cases hg : (arr.nb + 1) % 16 = 0
  · simp only [hg, if_true]
    have hlt2 : arr.nb + 1 < arr.nb + 1 + 16 := by omega
    simp only [Arr.write, hlt2, if_true]
    have hge : arr.cap ≤ arr.nb + 1 + 16 := by omega
    refine ⟨by simp [hnb], hoob, ?_, by simp, by simp only []; omega, ?_, ?_⟩
    · simp [hlen]; omega
    · simp only []
      rw [List.getElem?_set_self (by simp [hlen]; omega)]
    · intro i hi
      simp only [List.length_append, List.length_cons, List.length_nil] at hi
      simp only []
      have hne : arr.nb + 1 ≠ i := by omega
      rw [List.getElem?_set_ne hne]
      have hil : i < (arr.slots.set arr.nb (Slot.tp x)).length := by simp [hlen]; omega
      rw [List.getElem?_append_left hil]
      by_cases hin : i = arr.nb
      · subst hin
        rw [List.getElem?_set_self (by rw [hlen]; exact hlt)]
        simp [hnb]
      · rw [List.getElem?_set_ne (fun e => hin e.symm)]
        have hi' : i < ms.length := by omega
        rw [helems i hi', List.getElem?_append_left hi']
  · simp only [hg, if_false]
    have hlt2 : arr.nb + 1 < arr.cap := by omega
    simp only [Arr.write, hlt2, if_true]
    refine ⟨by simp [hnb], hoob, by simp [hlen], hlt2, by simp only []; omega, ?_, ?_⟩
    · simp only []
      rw [List.getElem?_set_self (by simp [hlen]; omega)]
    · intro i hi
      simp only [List.length_append, List.length_cons, List.length_nil] at hi
      simp only []
      have hne : arr.nb + 1 ≠ i := by omega
      rw [List.getElem?_set_ne hne]
      by_cases hin : i = arr.nb
      · subst hin
        rw [List.getElem?_set_self (by rw [hlen]; exact hlt)]
        simp [hnb]
      · rw [List.getElem?_set_ne (fun e => hin e.symm)]
        have hi' : i < ms.length := by omega
        rw [helems i hi', List.getElem?_append_left hi']

theorem ainv_foldl (rest : List Nat) : ∀ (arr : Arr) (ms : List Nat), AInv arr ms → AInv (rest.foldl composeAppend arr) (ms ++ rest) := by
  induction rest with
  | nil => intro arr ms h; simpa using h
  | cons x t ih =>
    intro arr ms h
    have := ih _ _ (ainv_append arr ms x h)
    simpa using this

end ParsecVerif.Compound
